(* C08 - what the specification `restrict` means: clades, node identity, kept unifurcations,
   single survivor. *)
From Coq Require Import ZArith List Bool Lia.
From DV Require Import Model.PyPrims Model.Tree Model.C08Model Proofs.C08Base Proofs.C08InPlace Proofs.C08Prune.
Import ListNotations.
Open Scope Z_scope.


Lemma in_omap {A B} (f : A -> option B) l b : In b (omap_list f l) <-> exists a, In a l /\ f a = Some b.
Proof.
  rewrite omap_olist, in_flat_map. split; intros [a [Ha H]]; exists a; split; try exact Ha.
  - destruct (f a); simpl in H; [destruct H as [<-|[]]; reflexivity | destruct H].
  - rewrite H. left. reflexivity.
Qed.

Lemma leaves_nonempty : forall t, leaves t <> [].
Proof.
  induction t as [i x l e ks IH] using tree_ind'. destruct ks as [|k r]; [discriminate|].
  rewrite leaves_T_cons. simpl. inversion IH; subst. destruct (leaves k); [contradiction | discriminate].
Qed.

Lemma leaf_ids_nonempty t : leaf_ids t <> [].
Proof. unfold leaf_ids. pose proof (leaves_nonempty t). destruct (leaves t); [contradiction | discriminate]. Qed.

Lemma leaves_set_len c e : leaves (set_len c e) = match t_kids c with [] => [set_len c e] | _ => leaves c end.
Proof. destruct c as [i x l e0 ks]. destruct ks; reflexivity. Qed.

Lemma leaf_ids_set_len c e : leaf_ids (set_len c e) = leaf_ids c.
Proof.
  unfold leaf_ids. rewrite leaves_set_len. destruct c as [i x l e0 ks]. destruct ks; reflexivity.
Qed.

Lemma leaf_ids_node i x l e k r : leaf_ids (T i x l e (k :: r)) = flat_map leaf_ids (k :: r).
Proof. unfold leaf_ids. rewrite leaves_T_cons, map_flat_map. reflexivity. Qed.

Lemma kept_ids_node p i x l e k r : kept_ids p (T i x l e (k :: r)) = flat_map (kept_ids p) (k :: r).
Proof.
  unfold kept_ids. rewrite leaves_T_cons.
  generalize (k :: r). intro F. induction F as [|a F IH]; [reflexivity|].
  simpl flat_map. rewrite filter_app, map_app, IH. reflexivity.
Qed.

Lemma preorder_set_len c e n : In n (preorder (set_len c e)) -> n = set_len c e \/ (In n (preorder c) /\ n <> c \/ In n (flat_map preorder (t_kids c))).
Proof.
  destruct c as [i x l e0 ks]. simpl set_len. rewrite preorder_T. intros [<-|H]; [left; reflexivity|].
  right. right. exact H.
Qed.

Lemma preorder_kids_in c n : In n (flat_map preorder (t_kids c)) -> In n (preorder c).
Proof. destruct c as [i x l e ks]. simpl t_kids. intro H. rewrite preorder_T. right. exact H. Qed.

Lemma preorder_set_len_kids c e n : In n (flat_map preorder (t_kids c)) -> In n (preorder (set_len c e)).
Proof. destruct c as [i x l e0 ks]. simpl. intro H. right. exact H. Qed.

(* the leaves of the result are the kept leaves of the source, in order *)
Lemma leaf_ids_restrict sup p : forall t,
  flat_map leaf_ids (olist (restrict sup p t)) = kept_ids p t.
Proof.
  unfold restrict. induction t as [i x l e ks IH] using tree_ind'.
  destruct ks as [|k r].
  - rewrite restrictG_leaf. unfold kept_ids. simpl. unfold app_np. simpl. destruct (p i x); reflexivity.
  - rewrite restrictG_node, kept_ids_node. unfold np_true at 1. cbv iota.
    assert (E : flat_map leaf_ids (omap_list (restrictG sup p np_true np_false) (k :: r)) = flat_map (kept_ids p) (k :: r)).
    { rewrite omap_olist, flat_map_flat_map. apply flat_map_ext_in. rewrite Forall_forall in IH. exact IH. }
    rewrite <- E.
    generalize (omap_list (restrictG sup p np_true np_false) (k :: r)). intro A.
    destruct A as [|c [|c2 r2]].
    + reflexivity.
    + destruct sup; simpl olist; rewrite flat_map_single.
      * rewrite leaf_ids_set_len. simpl. rewrite app_nil_r. reflexivity.
      * rewrite leaf_ids_node. reflexivity.
    + simpl olist. rewrite flat_map_single, leaf_ids_node. reflexivity.
Qed.

Lemma leaf_ids_restrict_some sup p t r : restrict sup p t = Some r -> leaf_ids r = kept_ids p t.
Proof. intro H. pose proof (leaf_ids_restrict sup p t) as L. rewrite H in L. simpl in L. rewrite app_nil_r in L. exact L. Qed.

Lemma restrict_none_iff sup p t : restrict sup p t = None <-> kept_ids p t = [].
Proof.
  pose proof (leaf_ids_restrict sup p t) as L. split; intro H.
  - rewrite H in L. simpl in L. symmetry. exact L.
  - destruct (restrict sup p t) as [r|]; [|reflexivity]. simpl in L. rewrite app_nil_r, H in L.
    exfalso. exact (leaf_ids_nonempty r L).
Qed.

Lemma kept_sub p : forall t n a, In n (preorder t) -> In a (kept_ids p n) -> In a (kept_ids p t).
Proof.
  intros t n a Hn Ha. unfold kept_ids in *. apply in_map_iff in Ha. destruct Ha as [m [<- Hm]].
  apply in_map. apply filter_In in Hm. destruct Hm as [Hm Hp]. apply filter_In. split; [|exact Hp].
  apply leaves_in_preorder in Hm. destruct Hm as [Hm Hl].
  apply preorder_leaf_in_leaves; [|exact Hl]. exact (preorder_trans t n m Hn Hm).
Qed.

(* ---------------------------------------------------------------------------------------- *)
(* clades                                                                                   *)
(* ---------------------------------------------------------------------------------------- *)

Lemma clades_sound sup p : forall t r, restrict sup p t = Some r ->
  forall n', In n' (preorder r) -> exists n, In n (preorder t) /\ leaf_ids n' = kept_ids p n.
Proof.
  induction t as [i x l e ks IH] using tree_ind'. intros r Hr n' Hn'.
  pose proof (leaf_ids_restrict_some sup p _ r Hr) as Lr.
  destruct ks as [|k r0].
  - unfold restrict in Hr. rewrite restrictG_leaf in Hr. destruct (p i x); [|discriminate Hr].
    inversion Hr; subst r. simpl in Hn'. destruct Hn' as [<-|[]]. exists (T i x l e []). split; [left; reflexivity | exact Lr].
  - unfold restrict in Hr. rewrite restrictG_node in Hr. unfold np_true at 1 in Hr. cbv iota in Hr.
    assert (Kid : forall c, In c (omap_list (restrictG sup p np_true np_false) (k :: r0)) ->
                  forall m, In m (preorder c) -> exists n, In n (preorder (T i x l e (k :: r0))) /\ leaf_ids m = kept_ids p n).
    { intros c Hc m Hm. apply in_omap in Hc. destruct Hc as [k1 [Hk1 Hc]].
      rewrite Forall_forall in IH. destruct (IH k1 Hk1 c Hc m Hm) as [n [Hn E]].
      exists n. split; [|exact E]. apply (preorder_trans _ k1); [apply kid_in_preorder; exact Hk1 | exact Hn]. }
    revert Hr Kid. generalize (omap_list (restrictG sup p np_true np_false) (k :: r0)). intros A Hr Kid.
    destruct A as [|c [|c2 r2]].
    + discriminate Hr.
    + destruct sup; inversion Hr; subst r; clear Hr.
      * apply preorder_set_len in Hn'. destruct Hn' as [->|[[Hn' _]|Hn']].
        -- exists (T i x l e (k :: r0)). split; [apply preorder_self | exact Lr].
        -- apply (Kid c (or_introl eq_refl) n' Hn').
        -- apply (Kid c (or_introl eq_refl) n'). apply preorder_kids_in. exact Hn'.
      * rewrite preorder_T in Hn'. destruct Hn' as [<-|Hn'].
        -- exists (T i x l e (k :: r0)). split; [apply preorder_self | exact Lr].
        -- apply in_flat_map in Hn'. destruct Hn' as [c' [Hc' Hn']]. exact (Kid c' Hc' n' Hn').
    + inversion Hr; subst r; clear Hr. rewrite preorder_T in Hn'. destruct Hn' as [<-|Hn'].
      * exists (T i x l e (k :: r0)). split; [apply preorder_self | exact Lr].
      * apply in_flat_map in Hn'. destruct Hn' as [c' [Hc' Hn']]. exact (Kid c' Hc' n' Hn').
Qed.

Lemma clades_complete sup p : forall t r, restrict sup p t = Some r ->
  forall n, In n (preorder t) -> kept_ids p n <> [] ->
  exists n', In n' (preorder r) /\ leaf_ids n' = kept_ids p n.
Proof.
  induction t as [i x l e ks IH] using tree_ind'. intros r Hr n Hn Hne.
  pose proof (leaf_ids_restrict_some sup p _ r Hr) as Lr.
  rewrite preorder_T in Hn. destruct Hn as [<-|Hn].
  { exists r. split; [apply preorder_self | exact Lr]. }
  apply in_flat_map in Hn. destruct Hn as [k1 [Hk1 Hn]].
  destruct ks as [|k r0]; [destruct Hk1|].
  (* the child holding n is not emptied *)
  destruct (restrict sup p k1) as [c|] eqn:Ec.
  2:{ exfalso. apply restrict_none_iff in Ec. destruct (kept_ids p n) as [|a rest] eqn:En; [exact (Hne eq_refl)|].
      assert (Ha : In a (kept_ids p k1)) by (apply (kept_sub p k1 n a Hn); rewrite En; left; reflexivity).
      rewrite Ec in Ha. destruct Ha. }
  rewrite Forall_forall in IH. destruct (IH k1 Hk1 c Ec n Hn Hne) as [n' [Hn' E]].
  assert (Hc : In c (omap_list (restrictG sup p np_true np_false) (k :: r0))).
  { apply in_omap. exists k1. split; [exact Hk1 | exact Ec]. }
  unfold restrict in Hr. rewrite restrictG_node in Hr. unfold np_true at 1 in Hr. cbv iota in Hr.
  revert Hr Hc. generalize (omap_list (restrictG sup p np_true np_false) (k :: r0)). intros A Hr Hc.
  destruct A as [|c1 [|c2 r2]].
  - destruct Hc.
  - destruct Hc as [->|[]]. destruct sup; inversion Hr; subst r; clear Hr.
    + (* merged: c's root is now r's root *)
      destruct c as [ci cx cl ce cks]. rewrite preorder_T in Hn'. destruct Hn' as [<-|Hn'].
      * exists (set_len (T ci cx cl ce cks) (merge_len e (t_len (T ci cx cl ce cks)))). split; [apply preorder_self|].
        rewrite leaf_ids_set_len. exact E.
      * exists n'. split; [|exact E]. simpl. right. exact Hn'.
    + exists n'. split; [|exact E]. rewrite preorder_T. right. simpl. rewrite app_nil_r. exact Hn'.
  - inversion Hr; subst r; clear Hr. exists n'. split; [|exact E].
    rewrite preorder_T. right. apply in_flat_map. exists c. split; assumption.
Qed.

Theorem clades_restrict_thm sup p t r : restrict sup p t = Some r ->
  forall c, In c (clades r) <-> (c <> [] /\ exists n, In n (preorder t) /\ c = kept_ids p n).
Proof.
  intros Hr c. unfold clades. rewrite in_map_iff. split.
  - intros [n' [<- Hn']]. split; [apply leaf_ids_nonempty|].
    destruct (clades_sound sup p t r Hr n' Hn') as [n [Hn E]]. exists n. split; assumption.
  - intros [Hne [n [Hn ->]]]. destruct (clades_complete sup p t r Hr n Hn Hne) as [n' [Hn' E]].
    exists n'. split; assumption.
Qed.

(* ---------------------------------------------------------------------------------------- *)
(* node identity (extraction_source), kept unifurcations                                    *)
(* ---------------------------------------------------------------------------------------- *)

Lemma set_len_fields c e : t_id (set_len c e) = t_id c /\ t_taxon (set_len c e) = t_taxon c /\ t_label (set_len c e) = t_label c.
Proof. destruct c; repeat split. Qed.

Theorem nodes_from_source sup kl ki ke : forall t r, restrictG sup kl ki ke t = Some r ->
  forall n', In n' (preorder r) ->
  exists n, In n (preorder t) /\ t_id n = t_id n' /\ t_taxon n = t_taxon n' /\ t_label n = t_label n'.
Proof.
  induction t as [i x l e ks IH] using tree_ind'. intros r Hr n' Hn'.
  destruct ks as [|k r0].
  - rewrite restrictG_leaf in Hr. destruct (kl i x); [|discriminate Hr]. inversion Hr; subst r.
    simpl in Hn'. destruct Hn' as [<-|[]]. exists (T i x l e []). repeat split. left. reflexivity.
  - rewrite restrictG_node in Hr. destruct (ki i x); [|discriminate Hr].
    assert (Kid : forall c, In c (omap_list (restrictG sup kl ki ke) (k :: r0)) ->
                  forall m, In m (preorder c) -> exists n, In n (preorder (T i x l e (k :: r0))) /\
                                 t_id n = t_id m /\ t_taxon n = t_taxon m /\ t_label n = t_label m).
    { intros c Hc m Hm. apply in_omap in Hc. destruct Hc as [k1 [Hk1 Hc]].
      rewrite Forall_forall in IH. destruct (IH k1 Hk1 c Hc m Hm) as [n [Hn E]].
      exists n. split; [|exact E]. apply (preorder_trans _ k1); [apply kid_in_preorder; exact Hk1 | exact Hn]. }
    revert Hr Kid. generalize (omap_list (restrictG sup kl ki ke) (k :: r0)). intros A Hr Kid.
    assert (Root : exists n, In n (preorder (T i x l e (k :: r0))) /\ t_id n = i /\ t_taxon n = x /\ t_label n = l).
    { exists (T i x l e (k :: r0)). repeat split. apply preorder_self. }
    destruct A as [|c [|c2 r2]].
    + destruct (ke i x); [|discriminate Hr]. inversion Hr; subst r. simpl in Hn'. destruct Hn' as [<-|[]]. exact Root.
    + destruct sup; inversion Hr; subst r; clear Hr.
      * apply preorder_set_len in Hn'. destruct Hn' as [->|[[Hn' _]|Hn']].
        -- destruct (Kid c (or_introl eq_refl) c (preorder_self c)) as [n [Hn [E1 [E2 E3]]]].
           exists n. destruct (set_len_fields c (merge_len e (t_len c))) as [F1 [F2 F3]].
           rewrite F1, F2, F3. repeat split; assumption.
        -- exact (Kid c (or_introl eq_refl) n' Hn').
        -- apply (Kid c (or_introl eq_refl) n'). apply preorder_kids_in. exact Hn'.
      * rewrite preorder_T in Hn'. destruct Hn' as [<-|Hn']; [exact Root|].
        apply in_flat_map in Hn'. destruct Hn' as [c' [Hc' Hn']]. exact (Kid c' Hc' n' Hn').
    + inversion Hr; subst r; clear Hr. rewrite preorder_T in Hn'. destruct Hn' as [<-|Hn']; [exact Root|].
      apply in_flat_map in Hn'. destruct Hn' as [c' [Hc' Hn']]. exact (Kid c' Hc' n' Hn').
Qed.

Lemma omap_length_filter sup p F :
  length (omap_list (restrictG sup p np_true np_false) F) =
  length (filter (fun k => negb (is_nil (kept_ids p k))) F).
Proof.
  induction F as [|a F IHF]; [reflexivity|].
  simpl omap_list. simpl filter.
  pose proof (restrict_none_iff sup p a) as N. unfold restrict in N.
  destruct (restrictG sup p np_true np_false a) as [c|] eqn:Ea.
  - destruct (kept_ids p a) eqn:Ek; [exfalso; destruct N as [_ N]; discriminate (N eq_refl)|].
    simpl. f_equal. exact IHF.
  - destruct N as [N _]. rewrite (N eq_refl). simpl. exact IHF.
Qed.

(* suppression declined: every node with a kept leaf below survives, with its own edge length *)
Theorem declined_keeps_nodes p : forall t r, restrict false p t = Some r ->
  (forall n', In n' (preorder r) ->
     exists n, In n (preorder t) /\ t_id n' = t_id n /\ t_taxon n' = t_taxon n /\ t_label n' = t_label n /\
               t_len n' = t_len n /\ leaf_ids n' = kept_ids p n /\ length (t_kids n') = length (filter (fun k => negb (is_nil (kept_ids p k))) (t_kids n))) /\
  (forall n, In n (preorder t) -> kept_ids p n <> [] -> exists n', In n' (preorder r) /\ t_id n' = t_id n).
Proof.
  induction t as [i x l e ks IH] using tree_ind'. intros r Hr.
  pose proof (leaf_ids_restrict_some false p _ r Hr) as Lr.
  destruct ks as [|k r0].
  - unfold restrict in Hr. rewrite restrictG_leaf in Hr. destruct (p i x); [|discriminate Hr]. inversion Hr; subst r. split.
    + intros n' [<-|[]]. exists (T i x l e []). repeat split; try exact Lr. left. reflexivity.
    + intros n [<-|[]] _. exists (T i x l e []). split; [left|]; reflexivity.
  - unfold restrict in Hr. rewrite restrictG_node in Hr. unfold np_true at 1 in Hr. cbv iota in Hr.
    assert (Hr' : omap_list (restrictG false p np_true np_false) (k :: r0) <> [] /\
                  r = T i x l e (omap_list (restrictG false p np_true np_false) (k :: r0))).
    { destruct (omap_list (restrictG false p np_true np_false) (k :: r0)) as [|c [|c2 r2]];
        [discriminate Hr | | ]; inversion Hr; split; try discriminate; reflexivity. }
    clear Hr. destruct Hr' as [Hne ->]. rewrite Forall_forall in IH. split.
    + intros n' Hn'. rewrite preorder_T in Hn'. destruct Hn' as [<-|Hn'].
      * exists (T i x l e (k :: r0)). split; [apply preorder_self|]. repeat split; try exact Lr.
        exact (omap_length_filter false p (k :: r0)).
      * apply in_flat_map in Hn'. destruct Hn' as [c [Hc Hn']]. apply in_omap in Hc. destruct Hc as [k1 [Hk1 Hc]].
        destruct (IH k1 Hk1 c Hc) as [S1 _]. destruct (S1 n' Hn') as [n [Hn E]].
        exists n. split; [|exact E]. apply (preorder_trans _ k1); [apply kid_in_preorder; exact Hk1 | exact Hn].
    + intros n Hn Hk. rewrite preorder_T in Hn. destruct Hn as [<-|Hn].
      * eexists. split; [apply preorder_self | reflexivity].
      * apply in_flat_map in Hn. destruct Hn as [k1 [Hk1 Hn]].
        destruct (restrict false p k1) as [c|] eqn:Ec.
        2:{ exfalso. apply restrict_none_iff in Ec. destruct (kept_ids p n) as [|a rest] eqn:En; [exact (Hk eq_refl)|].
            assert (Ha : In a (kept_ids p k1)) by (apply (kept_sub p k1 n a Hn); rewrite En; left; reflexivity).
            rewrite Ec in Ha. destruct Ha. }
        destruct (IH k1 Hk1 c Ec) as [_ S2]. destruct (S2 n Hn Hk) as [n' [Hn' E]].
        exists n'. split; [|exact E]. rewrite preorder_T. right. apply in_flat_map. exists c. split; [|exact Hn'].
        apply in_omap. exists k1. split; assumption.
Qed.
