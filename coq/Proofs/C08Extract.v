(* C08 - Node.extract_subtree (post-order loop with memo dictionary) computes `restrictG`. *)
From Coq Require Import ZArith List Bool Lia.
From DV Require Import Model.PyPrims Model.Tree Model.C08Model Proofs.C08Base Proofs.C08InPlace Proofs.C08Prune.
Import ListNotations.
Open Scope Z_scope.

Arguments ids : simpl never.
Arguments idsF : simpl never.

Definition flt_l (flt : xfilter) : npred :=
  fun i _ => match flt with None => true | Some (lfl, _, oks) => negb (lfl && negb (memz i oks)) end.
Definition flt_i (flt : xfilter) : npred :=
  fun i _ => match flt with None => true | Some (_, intl, oks) => negb (intl && negb (memz i oks)) end.

Definition xspec (flt : xfilter) (sup : bool) : tree -> option tree :=
  restrictG sup (flt_l flt) (flt_i flt) np_false.

Lemma x_excluded_leaf flt i x l e : x_excluded flt (T i x l e []) = negb (flt_l flt i x).
Proof. unfold x_excluded, flt_l. destruct flt as [[[lfl intl] oks]|]; simpl; [rewrite negb_involutive|]; reflexivity. Qed.

Lemma x_excluded_node flt i x l e k r : x_excluded flt (T i x l e (k :: r)) = negb (flt_i flt i x).
Proof. unfold x_excluded, flt_i. destruct flt as [[[lfl intl] oks]|]; simpl; [rewrite negb_involutive|]; reflexivity. Qed.

Definition clean (s : xs) : Prop := x_brk s = false /\ x_err s = None.

Lemma lookup_cons_ne a k v m : k <> a -> lookup a ((k, v) :: m) = lookup a m.
Proof. intro H. simpl. destruct (Z.eqb_spec k a); [contradiction | reflexivity]. Qed.
Lemma lookup_cons_eq k v m : lookup k ((k, v) :: m) = Some v.
Proof. simpl. rewrite Z.eqb_refl. reflexivity. Qed.

Section Sub.
  Variables (flt : xfilter) (sup : bool) (self_id : Z) (hp : bool).
  Notation step := (x_step flt sup self_id hp).

  (* what processing the post-order of a subtree that does not contain `self` does to the state *)
  Definition sub_ok (n : tree) : Prop :=
    forall s, clean s -> ~ In self_id (ids n) ->
      (forall a, In a (ids n) -> lookup a (x_memo s) = None) ->
      (forall a, x_match s = Some a -> ~ In a (ids n)) ->
      NoDup (ids n) ->
      let s' := fold_left step (postorder n) s in
      clean s' /\ x_start s' = x_start s /\ x_match s' = x_match s /\
      (forall a, ~ In a (ids n) -> lookup a (x_memo s') = lookup a (x_memo s)) /\
      lookup (t_id n) (x_memo s') = xspec flt sup n.

  Lemma forest_ok : forall ks, Forall sub_ok ks ->
    forall s, clean s -> ~ In self_id (idsF ks) ->
      (forall a, In a (idsF ks) -> lookup a (x_memo s) = None) ->
      (forall a, x_match s = Some a -> ~ In a (idsF ks)) ->
      NoDup (idsF ks) ->
      let s' := fold_left step (flat_map postorder ks) s in
      clean s' /\ x_start s' = x_start s /\ x_match s' = x_match s /\
      (forall a, ~ In a (idsF ks) -> lookup a (x_memo s') = lookup a (x_memo s)) /\
      (forall k, In k ks -> lookup (t_id k) (x_memo s') = xspec flt sup k).
  Proof.
    induction ks as [|k r IH]; intros HP s Hc Hself Hnone Hm Hnd.
    - simpl. repeat split; try apply Hc. intros k [].
    - inversion HP as [|? ? Pk Pr]; subst. rewrite idsF_cons in *.
      simpl flat_map. rewrite fold_left_app.
      destruct (Pk s Hc) as [C1 [S1 [M1 [O1 L1]]]].
      { intro H. apply Hself. apply in_or_app. left. exact H. }
      { intros a Ha. apply Hnone. apply in_or_app. left. exact Ha. }
      { intros a Ha Hi. apply (Hm a Ha). apply in_or_app. left. exact Hi. }
      { exact (NoDup_app_l _ _ Hnd). }
      set (s1 := fold_left step (postorder k) s) in *.
      destruct (IH Pr s1 C1) as [C2 [S2 [M2 [O2 L2]]]].
      { intro H. apply Hself. apply in_or_app. right. exact H. }
      { intros a Ha. rewrite O1; [apply Hnone; apply in_or_app; right; exact Ha|].
        intro Hk. exact (NoDup_app_disj _ _ _ Hnd Hk Ha). }
      { intros a Ha Hi. rewrite M1 in Ha. apply (Hm a Ha). apply in_or_app. right. exact Hi. }
      { exact (NoDup_app_r _ _ Hnd). }
      cbv zeta. split; [exact C2|]. split; [rewrite S2; exact S1|]. split; [rewrite M2; exact M1|]. split.
      + intros a Ha. rewrite O2; [rewrite O1; [reflexivity|]|]; intro H; apply Ha; apply in_or_app; [left | right]; exact H.
      + intros c [<-|Hc']; [|exact (L2 c Hc')].
        rewrite O2; [exact L1|]. intro H. exact (NoDup_app_disj _ _ _ Hnd (t_id_in_ids k) H).
  Qed.

  Lemma cta_eq ks s' :
    (forall k, In k ks -> lookup (t_id k) (x_memo s') = xspec flt sup k) ->
    omap_list (fun ch => lookup (t_id ch) (x_memo s')) ks = omap_list (xspec flt sup) ks.
  Proof.
    intro H. rewrite !omap_olist. apply flat_map_ext_in. intros a Ha. rewrite (H a Ha). reflexivity.
  Qed.

  Lemma all_sub_ok : forall n, sub_ok n.
  Proof.
    induction n as [i x l e ks IH] using tree_ind'.
    intros s Hc Hself Hnone Hm Hnd. rewrite ids_T in Hself, Hnone, Hm.
    destruct (NoDup_ids_kids _ _ _ _ _ Hnd) as [Hk Hi].
    change (postorder (T i x l e ks)) with (flat_map postorder ks ++ [T i x l e ks]).
    cbv zeta. rewrite fold_left_app.
    destruct (forest_ok ks IH s Hc) as [C2 [S2 [M2 [O2 L2]]]].
    { intro H. apply Hself. right. exact H. }
    { intros a Ha. apply Hnone. right. exact Ha. }
    { intros a Ha H. apply (Hm a Ha). right. exact H. }
    { exact Hk. }
    set (s2 := fold_left step (flat_map postorder ks) s) in *.
    assert (Hne : i <> self_id) by (intro E; apply Hself; left; exact E).
    assert (Li : lookup i (x_memo s2) = None).
    { rewrite O2; [apply Hnone; left; reflexivity | exact Hi]. }
    assert (Hmi : forall m, x_match s2 = Some m -> m <> i).
    { intros m Hm2 E. rewrite M2 in Hm2. apply (Hm m Hm2). left. symmetry. exact E. }
    simpl fold_left. unfold x_step. destruct C2 as [Cb Ce]. rewrite Cb, Ce. simpl orb. cbv iota.
    (* a state that only gained a memo entry for i *)
    assert (Create : forall cta,
      let s3 := x_create self_id s2 (T i x l e ks) cta in
      clean s3 /\ x_start s3 = x_start s /\ x_match s3 = x_match s /\
      (forall a, ~ In a (ids (T i x l e ks)) -> lookup a (x_memo s3) = lookup a (x_memo s)) /\
      lookup i (x_memo s3) = Some (T i x l e cta)).
    { intro cta. unfold x_create. cbn [x_memo x_start x_match x_brk x_err t_id t_taxon t_label t_len]. split; [split; assumption|]. split.
      - destruct (x_match s2) as [m|] eqn:Em; [|exact S2].
        destruct (Z.eqb_spec m i) as [E|_]; [exfalso; exact (Hmi m eq_refl E) | exact S2].
      - split; [exact M2|]. split.
        + intros a Ha. rewrite ids_T in Ha. rewrite lookup_cons_ne; [|intro E; apply Ha; left; exact E].
          apply O2. intro H. apply Ha. right. exact H.
        + apply lookup_cons_eq. }
    assert (Same :
      clean s2 /\ x_start s2 = x_start s /\ x_match s2 = x_match s /\
      (forall a, ~ In a (ids (T i x l e ks)) -> lookup a (x_memo s2) = lookup a (x_memo s)) /\
      lookup i (x_memo s2) = None).
    { split; [split; assumption|]. split; [exact S2|]. split; [exact M2|]. split; [|exact Li].
      intros a Ha. apply O2. intro H. apply Ha. rewrite ids_T. right. exact H. }
    simpl t_id. unfold xspec.
    destruct ks as [|k r].
    - (* a leaf *)
      rewrite x_excluded_leaf, restrictG_leaf.
      destruct (flt_l flt i x); simpl negb; cbv iota.
      + simpl omap_list. simpl is_leaf. simpl negb. cbv iota. exact (Create []).
      + exact Same.
    - rewrite x_excluded_node, restrictG_node.
      destruct (flt_i flt i x); simpl negb; cbv iota; [|exact Same].
      simpl t_kids. rewrite (cta_eq (k :: r) s2 L2). fold (xspec flt sup).
      destruct (Z.eqb_spec i self_id) as [E|_]; [contradiction|]. simpl andb. simpl is_leaf. simpl negb. cbv iota.
      generalize (omap_list (xspec flt sup) (k :: r)). intro A.
      destruct A as [|c [|c2 r2]].
      + unfold np_false. exact Same.
      + destruct sup.
        * cbn [x_memo x_start x_match x_brk x_err t_id t_len].
          split; [split; reflexivity|]. split; [exact S2|]. split; [exact M2|]. split.
          -- intros a Ha. rewrite ids_T in Ha. rewrite lookup_cons_ne; [|intro E; apply Ha; left; exact E].
             apply O2. intro H. apply Ha. right. exact H.
          -- apply lookup_cons_eq.
        * exact (Create [c]).
      + exact (Create (c :: c2 :: r2)).
  Qed.
End Sub.

(* ---------------------------------------------------------------------------------------- *)
(* Tree.extract_tree                                                                        *)
(* ---------------------------------------------------------------------------------------- *)

Theorem extract_tree_spec flt sup t : NoDup (ids t) ->
  extract_tree flt sup t =
  match xspec flt sup t with
  | Some r => XOk r
  | None => XErr (if x_excluded flt t then EValue else ESeedDel)
  end.
Proof.
  intro Hnd. unfold extract_tree, extract_subtree. destruct t as [i x l e ks].
  destruct (NoDup_ids_kids _ _ _ _ _ Hnd) as [Hk Hi].
  change (postorder (T i x l e ks)) with (flat_map postorder ks ++ [T i x l e ks]).
  rewrite fold_left_app. simpl t_id.
  set (s0 := mkxs [] None (Some i) false None).
  destruct (forest_ok flt sup i false ks) with (s := s0) as [C2 [S2 [M2 [O2 L2]]]].
  { apply Forall_forall. intros n _. apply all_sub_ok. }
  { split; reflexivity. }
  { exact Hi. }
  { intros a _. reflexivity. }
  { intros a Ha. simpl in Ha. inversion Ha. subst a. exact Hi. }
  { exact Hk. }
  set (s2 := fold_left (x_step flt sup i false) (flat_map postorder ks) s0) in *.
  simpl in S2, M2.
  simpl fold_left. unfold x_step. destruct C2 as [Cb Ce]. rewrite Cb, Ce. simpl orb. cbv iota.
  simpl t_id. rewrite Z.eqb_refl. simpl andb. unfold xspec.
  destruct ks as [|k r].
  - rewrite x_excluded_leaf, restrictG_leaf.
    destruct (flt_l flt i x); simpl negb; cbv iota.
    + simpl omap_list. simpl is_leaf. simpl negb. cbv iota.
      unfold x_create. simpl. rewrite ?Ce, ?M2, ?S2, ?Z.eqb_refl. reflexivity.
    + simpl. rewrite ?Ce, ?M2, ?S2. reflexivity.
  - rewrite x_excluded_node, restrictG_node.
    destruct (flt_i flt i x); simpl negb; cbv iota; [|simpl; rewrite ?Ce, ?M2, ?S2; reflexivity].
    simpl t_kids. rewrite (cta_eq flt sup (k :: r) s2 L2). fold (xspec flt sup).
    simpl is_leaf. simpl negb. cbv iota.
    generalize (omap_list (xspec flt sup) (k :: r)). intro A.
    destruct A as [|c [|c2 r2]].
    + unfold np_false. simpl. reflexivity.
    + destruct sup.
      * simpl. rewrite ?Ce, ?M2, ?S2. reflexivity.
      * unfold x_create. simpl. rewrite ?Ce, ?M2, ?S2, ?Z.eqb_refl. reflexivity.
    + unfold x_create. simpl. rewrite ?Ce, ?M2, ?S2, ?Z.eqb_refl. reflexivity.
Qed.

(* the wrappers: a taxon predicate turned into a node filter on leaves; suppression always on *)
Lemma ids_where_mem p t n : NoDup (ids t) -> In n (preorder t) ->
  memz (t_id n) (ids_where p t) = app_np p n.
Proof.
  intros Hnd Hn. unfold ids_where.
  destruct (memz (t_id n) (map t_id (filter (app_np p) (preorder t)))) eqn:E.
  - apply memz_In in E. apply in_map_iff in E. destruct E as [m [Hid Hm]].
    apply filter_In in Hm. destruct Hm as [Hm Hp].
    assert (m = n) by (apply (node_by_id t); assumption). subst m. symmetry. exact Hp.
  - apply memz_false in E. destruct (app_np p n) eqn:Hp; [|reflexivity].
    exfalso. apply E. apply in_map. apply filter_In. split; assumption.
Qed.

Theorem extract_wrapper_spec p sup t : NoDup (ids t) ->
  extract_wrapper p sup t =
  match restrict sup p t with
  | Some r => XOk r
  | None => XErr (if is_leaf t then EValue else ESeedDel)
  end.
Proof.
  intro Hnd. unfold extract_wrapper. rewrite extract_tree_spec; [|exact Hnd].
  unfold xspec, restrict.
  assert (E : restrictG sup (flt_l (Some (true, false, ids_where p t))) (flt_i (Some (true, false, ids_where p t))) np_false t =
              restrictG sup p np_true np_false t).
  { apply restrictG_ext. intros n Hn. unfold flt_l, flt_i, np_true. simpl.
    rewrite negb_involutive. rewrite (ids_where_mem p t n Hnd Hn). repeat split. }
  rewrite E. destruct (restrictG sup p np_true np_false t) as [r|] eqn:R; [reflexivity|].
  destruct t as [i x l e ks]. destruct ks as [|k r].
  - rewrite x_excluded_leaf. rewrite restrictG_leaf in R.
    pose proof (ids_where_mem p _ _ Hnd (preorder_self (T i x l e []))) as M. simpl t_id in M.
    unfold flt_l. rewrite M. unfold app_np. simpl.
    destruct (p i x); [discriminate R | reflexivity].
  - rewrite x_excluded_node. reflexivity.
Qed.
