(* C03 (wave 7) proofs: object level of the stored bipartition encoding (Model/C03BipObj.v).
   (1) encode_bipartitions leaves every edge of the tree with its OWN Bipartition object, the list
       holding exactly those objects once each, and every object with the fields of a fresh encoding
       under the flag the encoding ran with - from ANY previous state of the store (stale objects,
       old bindings, aliasing left by anything before);
   (2) reroot_at_node(update_bipartitions=True) (flag first, then the encoding) is fresh for the
       rooted tree it leaves; the form that encodes before the flag is set is refuted;
   (3) the form of encode_bipartitions that binds a retained unifurcation's edge to its child's
       object is refuted against the no-sharing invariant, and the incremental maintainer
       (suppress_unifurcations(update_bipartitions=True), which deletes by identity) then loses a
       surviving edge's entry. *)
From Coq Require Import ZArith List Bool Lia Permutation.
From DV Require Import Model.PyPrims Model.Tree Model.Heap Model.HeapOps Model.C03Spec Model.C03Bip Model.C03BipObj
  Proofs.C03Base Proofs.C03Local Proofs.C03Bip.
Import ListNotations.
Open Scope Z_scope.

(* ---------- post-order owners ---------- *)

Lemma post_ids_eq i x l e ks : post_ids (T i x l e ks) = flat_map post_ids ks ++ [i].
Proof.
  unfold post_ids. simpl enc_list. rewrite map_app. simpl. f_equal.
  induction ks as [|k r IH]; simpl; [reflexivity|]. rewrite map_app, IH. reflexivity.
Qed.

Lemma post_ids_perm t : Permutation (post_ids t) (ids t).
Proof.
  induction t as [i x l e ks IH] using tree_ind'. rewrite post_ids_eq, ids_eq.
  eapply Permutation_trans; [apply Permutation_sym, Permutation_cons_append|]. apply perm_skip.
  induction IH as [|k r Hk Hr IHr]; simpl; [constructor|]. apply Permutation_app; assumption.
Qed.

Lemma post_ids_nodup t : NoDup (ids t) -> NoDup (post_ids t).
Proof. intro N. eapply Permutation_NoDup; [apply Permutation_sym, post_ids_perm|exact N]. Qed.

(* ---------- allocation ---------- *)

Definition a_owner (x : Z * (Z * brec)) : Z := fst x.
Definition a_obj (x : Z * (Z * brec)) : Z := fst (snd x).
Definition a_rec (x : Z * (Z * brec)) : brec := snd (snd x).

Lemma alloc_owner r tm es : forall n, map a_owner (alloc r tm es n) = map fst es.
Proof. induction es as [|[i m] rest IH]; intro n; simpl; [reflexivity|]. rewrite IH. reflexivity. Qed.

Lemma alloc_ge r tm es : forall n x, In x (alloc r tm es n) -> n <= a_obj x.
Proof.
  induction es as [|[i m] rest IH]; intros n x H; simpl in H; [tauto|].
  destruct H as [<-|H]; [unfold a_obj; simpl; lia|]. specialize (IH (n + 1) x H). lia.
Qed.

Lemma alloc_obj_nodup r tm es : forall n, NoDup (map a_obj (alloc r tm es n)).
Proof.
  induction es as [|[i m] rest IH]; intro n; simpl; [constructor|]. constructor; [|apply IH].
  intro H. apply in_map_iff in H. destruct H as [x [E H]]. apply alloc_ge in H. unfold a_obj in *. simpl in E. lia.
Qed.

Lemma alloc_vals r tm es : forall n,
  map (fun x => (a_owner x, a_rec x)) (alloc r tm es n) = map (fun p => (fst p, fresh_rec r tm (snd p))) es.
Proof. induction es as [|[i m] rest IH]; intro n; simpl; [reflexivity|]. rewrite IH. reflexivity. Qed.

(* edge.bipartition of an owner = the object allocated for it (first binding wins; owners distinct) *)
Lemma alloc_find_edge r tm es E : forall n, NoDup (map fst es) ->
  forall x, In x (alloc r tm es n) ->
    zfind (a_owner x) (map (fun x => (fst x, fst (snd x))) (alloc r tm es n) ++ E) = Some (a_obj x).
Proof.
  induction es as [|[i m] rest IH]; intros n N x H; simpl in H; [tauto|].
  simpl in N. apply NoDup_cons_iff in N. destruct N as [Ni N].
  simpl. destruct H as [<-|H].
  - unfold a_owner, a_obj. simpl. rewrite Z.eqb_refl. reflexivity.
  - destruct (Z.eqb_spec (a_owner x) i) as [Ei|_].
    + exfalso. apply Ni. rewrite <- Ei, <- (alloc_owner r tm rest (n + 1)). apply in_map. exact H.
    + apply IH; assumption.
Qed.

(* the fields of an allocated object (new objects shadow nothing: identities distinct) *)
Lemma alloc_find_obj r tm es O : forall n x, In x (alloc r tm es n) ->
  zfind (a_obj x) (map snd (alloc r tm es n) ++ O) = Some (a_rec x).
Proof.
  induction es as [|[i m] rest IH]; intros n x H; simpl in H; [tauto|]. simpl.
  destruct H as [<-|H].
  - unfold a_obj, a_rec. simpl. rewrite Z.eqb_refl. reflexivity.
  - pose proof (alloc_ge r tm rest (n + 1) x H) as G.
    destruct (Z.eqb_spec (a_obj x) n) as [En|_]; [lia|]. apply IH. exact H.
Qed.

Lemma map_some_nodup {A} (l : list A) : NoDup l -> NoDup (map Some l).
Proof.
  induction 1 as [|a l Ha N IH]; simpl; constructor; [|exact IH].
  intro H. apply in_map_iff in H. destruct H as [b [E H]]. inversion E; subst. exact (Ha H).
Qed.

(* ---------- (1) encode_bipartitions ---------- *)

Section Entries.
  Variables (r : option bool) (tm : Z) (es : list (Z * Z)) (s : bstate).
  Hypothesis N : NoDup (map fst es).
  Let s' := encode_entries r tm es s.
  Let a := alloc r tm es (bs_next s).

  Lemma entries_edge_objs : map (edge_obj s') (map fst es) = map (fun x => Some (a_obj x)) a.
  Proof.
    rewrite <- (alloc_owner r tm es (bs_next s)). rewrite map_map. apply map_ext_in. intros x H.
    unfold edge_obj, s', encode_entries. simpl. apply alloc_find_edge; assumption.
  Qed.

  Lemma entries_enc : map Some (bs_enc s') = map (edge_obj s') (map fst es).
  Proof. rewrite entries_edge_objs. unfold s', encode_entries. simpl. rewrite map_map. reflexivity. Qed.

  Lemma entries_nodup : NoDup (map (edge_obj s') (map fst es)).
  Proof.
    rewrite entries_edge_objs. rewrite <- (map_map a_obj Some). apply map_some_nodup, alloc_obj_nodup.
  Qed.

  Lemma entries_read_edges :
    map (fun n => (n, match edge_obj s' n with Some o => obj_rec s' o | None => None end)) (map fst es)
    = map (fun p => (fst p, Some (fresh_rec r tm (snd p)))) es.
  Proof.
    rewrite <- (alloc_owner r tm es (bs_next s)). rewrite map_map.
    transitivity (map (fun x => (a_owner x, Some (a_rec x))) a).
    - apply map_ext_in. intros x H. unfold edge_obj, obj_rec, s', encode_entries. simpl.
      rewrite (alloc_find_edge r tm es (bs_edge s) (bs_next s) N x H).
      rewrite (alloc_find_obj r tm es (bs_objs s) (bs_next s) x H). reflexivity.
    - rewrite <- (map_map (fun x => (a_owner x, a_rec x)) (fun p => (fst p, Some (snd p)))).
      unfold a. rewrite alloc_vals, map_map. reflexivity.
  Qed.

  Lemma entries_read_enc : read_enc s' = map (fun p => Some (fresh_rec r tm (snd p))) es.
  Proof.
    unfold read_enc, s', encode_entries. simpl. rewrite map_map.
    transitivity (map (fun x => Some (a_rec x)) a).
    - apply map_ext_in. intros x H. unfold obj_rec. simpl.
      apply (alloc_find_obj r tm es (bs_objs s) (bs_next s) x H).
    - rewrite <- (map_map (fun x => (a_owner x, a_rec x)) (fun p => Some (snd p))).
      unfold a. rewrite alloc_vals, map_map. reflexivity.
  Qed.
End Entries.

Theorem obj_encode_fresh r t s :
  NoDup (ids t) -> no_bip_shared (obj_encode r t s) t /\ enc_fresh (obj_encode r t s) r t.
Proof.
  intro N. apply post_ids_nodup in N. unfold post_ids in N.
  unfold no_bip_shared, enc_fresh, edge_objs, read_edges, enc_full, obj_encode, post_ids.
  repeat split.
  - apply entries_nodup. exact N.
  - apply entries_enc. exact N.
  - rewrite entries_read_edges by exact N. rewrite map_map. reflexivity.
  - rewrite entries_read_enc. rewrite map_map. reflexivity.
Qed.

(* every field the property speaks about, explicitly: under a rooted flag the split mask IS the leafset
   mask and every object says rooted *)
Lemma enc_full_rooted t : forall p, In p (enc_full (Some true) t) ->
  leafset t <> 0 -> br_split (snd p) = br_leafset (snd p) /\ br_rooted (snd p) = Some true.
Proof.
  intros p H NZ. unfold enc_full in H. apply in_map_iff in H. destruct H as [q [<- _]]. simpl.
  unfold compile_split. destruct (Z.eqb_spec (leafset t) 0); [contradiction|]. split; reflexivity.
Qed.

(* ---------- (2) reroot_at_node ---------- *)

Theorem reroot_at_node_obj_fresh t' s :
  NoDup (ids t') ->
  let rs := obj_reroot_at_node true t' s in
  fst rs = Some true /\ no_bip_shared (snd rs) t' /\ enc_fresh (snd rs) (fst rs) t'.
Proof. intro N. simpl. split; [reflexivity|]. apply obj_encode_fresh. exact N. Qed.

Definition oleaf (i x : Z) : tree := T i (Some x) None None [].

(* the order of the seeded form: encoding while the tree still counts as unrooted, flag afterwards *)
Theorem reroot_at_node_encode_before_flag_refuted :
  exists r0 t' s, NoDup (ids t') /\
    let rs := obj_reroot_at_node_early true r0 t' s in
    fst rs = Some true /\ no_bip_shared (snd rs) t' /\ ~ enc_fresh (snd rs) (fst rs) t'.
Proof.
  exists (Some false), (T 0 None None None [oleaf 1 0; oleaf 2 1; oleaf 3 2]), bs_empty.
  split; [repeat constructor; simpl; intuition discriminate|].
  split; [reflexivity|]. split.
  - apply (obj_encode_fresh (Some false)). repeat constructor; simpl; intuition discriminate.
  - intros [_ H]. vm_compute in H. discriminate.
Qed.

(* also for the undefined rooting state *)
Theorem reroot_at_node_encode_before_flag_refuted_none :
  exists t' s, NoDup (ids t') /\ ~ enc_fresh (snd (obj_reroot_at_node_early true None t' s)) (Some true) t'.
Proof.
  exists (T 0 None None None [oleaf 1 0; oleaf 2 1; oleaf 3 2]), bs_empty.
  split; [repeat constructor; simpl; intuition discriminate|].
  intros [_ H]. vm_compute in H. discriminate.
Qed.

(* on a tree that is rooted already both orders agree: the seeded form is invisible there *)
Theorem reroot_at_node_early_same_when_rooted ub t' s :
  obj_reroot_at_node_early ub (Some true) t' s = obj_reroot_at_node ub t' s.
Proof. reflexivity. Qed.

(* ---------- (3) an edge bound to its child's object ---------- *)

Definition shared_witness : tree :=
  T 0 None None None [T 1 None None None [oleaf 2 0; oleaf 3 1]; T 4 None None None [T 5 None None None [oleaf 6 2]]; oleaf 7 3].

Theorem shared_encoding_refuted :
  exists r t s, NoDup (ids t) /\ ~ no_bip_shared (obj_encode_shared r t s) t.
Proof.
  exists (Some true), shared_witness, bs_empty.
  split; [repeat constructor; simpl; intuition discriminate|].
  intros [H _]. vm_compute in H.
  repeat match goal with H : NoDup (_ :: _) |- _ => apply NoDup_cons_iff in H; destruct H as [?X H] end.
  simpl in *. tauto.
Qed.

(* ... and what the LATER suppress_unifurcations(update_bipartitions=True) does to it: every value is still
   right after the shared encoding, the deletion by identity then removes a surviving edge's entry *)
Theorem shared_encoding_values_right :
  read_edges (obj_encode_shared (Some true) shared_witness bs_empty) shared_witness
  = read_edges (obj_encode (Some true) shared_witness bs_empty) shared_witness.
Proof. vm_compute. reflexivity. Qed.

Theorem shared_then_incremental_refuted :
  let t := shared_witness in
  read_enc (obj_su_incremental t (obj_encode_shared (Some true) t bs_empty))
  <> map (fun p => Some (snd p)) (enc_full (Some true) (spec_su t)).
Proof. vm_compute. discriminate. Qed.

Example unshared_then_incremental_fresh :
  let t := shared_witness in
  read_enc (obj_su_incremental t (obj_encode (Some true) t bs_empty))
  = map (fun p => Some (snd p)) (enc_full (Some true) (spec_su t)).
Proof. vm_compute. reflexivity. Qed.

(* ---------- (4) the incremental maintainer on an unshared current encoding ---------- *)

Lemma nodup_map_inj {A B} (f : A -> B) (l : list A) :
  NoDup (map f l) -> forall x y, In x l -> In y l -> f x = f y -> x = y.
Proof.
  induction l as [|a l IH]; intros N x y Hx Hy E; [inversion Hx|].
  simpl in N. apply NoDup_cons_iff in N. destruct N as [Na N].
  destruct Hx as [<-|Hx], Hy as [<-|Hy]; try reflexivity.
  - exfalso. apply Na. rewrite E. apply in_map. exact Hy.
  - exfalso. apply Na. rewrite <- E. apply in_map. exact Hx.
  - apply IH; assumption.
Qed.

Lemma filter_map_comm {A B} (f : B -> bool) (g : A -> B) (l : list A) :
  filter f (map g l) = map g (filter (fun x => f (g x)) l).
Proof. induction l as [|a l IH]; simpl; [reflexivity|]. rewrite IH. destruct (f (g a)); reflexivity. Qed.

Lemma nodup_map_filter {A B} (g : A -> B) (f : A -> bool) (l : list A) :
  NoDup (map g l) -> NoDup (map g (filter f l)).
Proof.
  induction l as [|a l IH]; simpl; intro N; [constructor|]. apply NoDup_cons_iff in N. destruct N as [Na N].
  destruct (f a); simpl; [constructor|]; try (apply IH; exact N).
  intro H. apply Na. apply in_map_iff in H. destruct H as [x [E H]]. apply filter_In in H.
  rewrite <- E. apply in_map. tauto.
Qed.

Section Incremental.
  Variables (r : option bool) (tm : Z) (es : list (Z * Z)) (s : bstate) (R : list Z).
  Hypothesis N : NoDup (map fst es).
  Hypothesis HR : forall j, In j R -> In j (map fst es).
  Let s1 := encode_entries r tm es s.
  Let a := alloc r tm es (bs_next s).
  Let dead := flat_map (fun n => match edge_obj s1 n with Some o => [o] | None => [] end) R.
  Let keep := fun x : Z * (Z * brec) => negb (memz (a_owner x) R).
  Let a' := filter keep a.
  Let es' := filter (fun p : Z * Z => negb (memz (fst p) R)) es.
  Let s2 := mkBS (bs_objs s1) (bs_next s1) (bs_edge s1) (filter (fun o => negb (memz o dead)) (bs_enc s1)).

  Lemma incr_edge x : In x a -> edge_obj s1 (a_owner x) = Some (a_obj x).
  Proof. intro H. unfold edge_obj, s1, encode_entries. simpl. apply alloc_find_edge; assumption. Qed.

  Lemma incr_rec x : In x a -> obj_rec s1 (a_obj x) = Some (a_rec x).
  Proof. intro H. unfold obj_rec, s1, encode_entries. simpl. apply alloc_find_obj. exact H. Qed.

  (* deletion by identity = deletion by owner, BECAUSE no object is shared *)
  Lemma incr_dead x : In x a -> memz (a_obj x) dead = memz (a_owner x) R.
  Proof.
    intro H. destruct (memz (a_owner x) R) eqn:M.
    - apply memz_In. apply memz_In in M. unfold dead. apply in_flat_map. exists (a_owner x). split; [exact M|].
      rewrite (incr_edge x H). left. reflexivity.
    - apply memz_false. apply memz_false in M. intro D. apply M. unfold dead in D. apply in_flat_map in D.
      destruct D as [j [Hj D]]. pose proof (HR j Hj) as Hin.
      rewrite <- (alloc_owner r tm es (bs_next s)) in Hin. apply in_map_iff in Hin. destruct Hin as [y [Ey Hy]].
      fold a in Hy. rewrite <- Ey in D. rewrite (incr_edge y Hy) in D. destruct D as [D|[]].
      assert (y = x) by (apply (nodup_map_inj a_obj a (alloc_obj_nodup r tm es (bs_next s))); assumption).
      subst y. rewrite Ey. exact Hj.
  Qed.

  Lemma incr_enc : bs_enc s2 = map a_obj a'.
  Proof.
    unfold s2, s1, encode_entries. simpl. fold a. change (fun x : Z * (Z * brec) => fst (snd x)) with a_obj.
    rewrite filter_map_comm. f_equal. apply filter_ext_in'. intros x H. unfold keep. rewrite (incr_dead x H). reflexivity.
  Qed.

  Lemma incr_vals : map (fun x => (a_owner x, a_rec x)) a' = map (fun p => (fst p, fresh_rec r tm (snd p))) es'.
  Proof.
    unfold a', es', keep.
    transitivity (filter (fun q : Z * brec => negb (memz (fst q) R)) (map (fun x => (a_owner x, a_rec x)) a)).
    - rewrite filter_map_comm. reflexivity.
    - unfold a. rewrite alloc_vals. rewrite filter_map_comm. reflexivity.
  Qed.

  Lemma incr_owner : map a_owner a' = map fst es'.
  Proof.
    rewrite <- (map_map (fun x => (a_owner x, a_rec x)) fst). rewrite incr_vals, map_map. reflexivity.
  Qed.

  Lemma incr_in x : In x a' -> In x a.
  Proof. intro H. apply filter_In in H. tauto. Qed.

  Lemma incr_edge_objs : map (edge_obj s2) (map fst es') = map Some (bs_enc s2).
  Proof.
    rewrite incr_enc, <- incr_owner, !map_map. apply map_ext_in. intros x H.
    change (edge_obj s2 (a_owner x)) with (edge_obj s1 (a_owner x)). apply incr_edge, incr_in, H.
  Qed.

  Lemma incr_nodup : NoDup (map (edge_obj s2) (map fst es')).
  Proof.
    rewrite incr_edge_objs, incr_enc. apply map_some_nodup. apply nodup_map_filter. apply alloc_obj_nodup.
  Qed.

  Lemma incr_read_edges :
    map (fun n => (n, match edge_obj s2 n with Some o => obj_rec s2 o | None => None end)) (map fst es')
    = map (fun p => (fst p, Some (fresh_rec r tm (snd p)))) es'.
  Proof.
    rewrite <- incr_owner, map_map.
    transitivity (map (fun x => (a_owner x, Some (a_rec x))) a').
    - apply map_ext_in. intros x H. apply incr_in in H.
      change (edge_obj s2 (a_owner x)) with (edge_obj s1 (a_owner x)). rewrite (incr_edge x H).
      change (obj_rec s2 (a_obj x)) with (obj_rec s1 (a_obj x)). rewrite (incr_rec x H). reflexivity.
    - rewrite <- (map_map (fun x => (a_owner x, a_rec x)) (fun p => (fst p, Some (snd p)))).
      rewrite incr_vals, map_map. reflexivity.
  Qed.

  Lemma incr_read_enc : read_enc s2 = map (fun p => Some (fresh_rec r tm (snd p))) es'.
  Proof.
    unfold read_enc. rewrite incr_enc, map_map.
    transitivity (map (fun x => Some (a_rec x)) a').
    - apply map_ext_in. intros x H. apply incr_in in H.
      change (obj_rec s2 (a_obj x)) with (obj_rec s1 (a_obj x)). apply incr_rec, H.
    - rewrite <- (map_map (fun x => (a_owner x, a_rec x)) (fun p => Some (snd p))).
      rewrite incr_vals, map_map. reflexivity.
  Qed.
End Incremental.

Theorem obj_su_incremental_fresh r t s :
  NoDup (ids t) ->
  let s2 := obj_su_incremental t (obj_encode r t s) in
  no_bip_shared s2 (spec_su t) /\ enc_fresh s2 r (spec_su t).
Proof.
  intro N. pose proof (su_enc_fresh t N) as F. unfold su_enc_incremental in F.
  pose proof (post_ids_nodup t N) as NP. unfold post_ids in NP.
  assert (HR : forall j, In j (su_removed t) -> In j (map fst (enc_list t))).
  { intros j Hj. apply su_removed_ids in Hj. eapply Permutation_in; [apply Permutation_sym, post_ids_perm|exact Hj]. }
  unfold no_bip_shared, enc_fresh, edge_objs, read_edges, enc_full, post_ids.
  rewrite leafset_spec_su, <- F. unfold obj_su_incremental, obj_encode.
  repeat split.
  - apply incr_nodup; assumption.
  - symmetry. apply incr_edge_objs; assumption.
  - rewrite incr_read_edges by assumption. rewrite map_map. reflexivity.
  - rewrite incr_read_enc by assumption. rewrite map_map. reflexivity.
Qed.

(* ---------- frame: an encoding touches nothing it did not create ---------- *)

Lemma zfind_app_skip {A} (k : Z) (l1 l2 : list (Z * A)) :
  (forall p, In p l1 -> fst p <> k) -> zfind k (l1 ++ l2) = zfind k l2.
Proof.
  induction l1 as [|[a v] l1 IH]; intro H; simpl; [reflexivity|].
  destruct (Z.eqb_spec k a) as [E|_].
  - exfalso. apply (H (a, v) (or_introl eq_refl)). simpl. congruence.
  - apply IH. intros p Hp. apply H. right. exact Hp.
Qed.

(* objects that existed before keep their fields (no object of an earlier encoding - e.g. one a caller still
   holds, or one on an edge of another tree - is written by a later encoding) *)
Theorem obj_encode_frame_objects r t s o :
  o < bs_next s -> obj_rec (obj_encode r t s) o = obj_rec s o.
Proof.
  intro L. unfold obj_rec, obj_encode, encode_entries. simpl. apply zfind_app_skip.
  intros p Hp. apply in_map_iff in Hp. destruct Hp as [x [<- Hx]]. apply alloc_ge in Hx. unfold a_obj in Hx. lia.
Qed.

(* edges of nodes outside the encoded tree keep their objects *)
Theorem obj_encode_frame_edges r t s n :
  ~ In n (ids t) -> edge_obj (obj_encode r t s) n = edge_obj s n.
Proof.
  intro H. unfold edge_obj, obj_encode, encode_entries. simpl. apply zfind_app_skip.
  intros p Hp. apply in_map_iff in Hp. destruct Hp as [x [<- Hx]]. simpl. intro E. apply H.
  eapply Permutation_in; [apply post_ids_perm|]. unfold post_ids.
  rewrite <- (alloc_owner r (leafset t) (enc_list t) (bs_next s)). rewrite <- E. apply (in_map a_owner). exact Hx.
Qed.

(* ---------- over histories ---------- *)

Inductive ostep : Type :=
| SUpdate (t' : tree) (r' : option bool)  (* encode_bipartitions, or any operation asked to update bipartitions: it leaves
                                             structure t' and flag r' and ends in the encoding *)
| SSuIncr                                  (* suppress_unifurcations(update_bipartitions=True) on an encoding made current *)
| SEdit (t' : tree) (r' : option bool).   (* any operation NOT asked to: structure / flag change, objects untouched *)

Record ost : Type := mkOst { o_tree : tree; o_rooted : option bool; o_bs : bstate }.

Definition ostep_run (st : ost) (x : ostep) : ost :=
  match x with
  | SUpdate t' r' => mkOst t' r' (obj_encode r' t' (o_bs st))
  | SSuIncr => mkOst (spec_su (o_tree st)) (o_rooted st)
                     (obj_su_incremental (o_tree st) (obj_encode (o_rooted st) (o_tree st) (o_bs st)))
  | SEdit t' r' => mkOst t' r' (o_bs st)
  end.

Definition updating (x : ostep) : bool := match x with SEdit _ _ => false | _ => true end.

(* whatever happened before - any number of edits that left the stored objects stale, earlier encodings,
   from any initial store -, an updating step leaves: no Bipartition object shared between edges, the list =
   the edges' objects, every field what a fresh encoding under the CURRENT flag gives *)
Theorem obj_history_fresh (steps : list ostep) (st0 : ost) (x : ostep) :
  let st := fold_left ostep_run steps st0 in
  NoDup (ids (o_tree st)) ->
  match x with SUpdate t' _ => NoDup (ids t') | _ => True end ->
  updating x = true ->
  let st' := ostep_run st x in
  no_bip_shared (o_bs st') (o_tree st') /\ enc_fresh (o_bs st') (o_rooted st') (o_tree st').
Proof.
  intros st N Nx U. destruct x as [t' r'| |t' r']; simpl in *.
  - apply obj_encode_fresh. exact Nx.
  - apply obj_su_incremental_fresh. exact N.
  - discriminate.
Qed.

Example obj_history_fresh_sat :
  let t := shared_witness in
  let st := fold_left ostep_run [SUpdate t None; SEdit t (Some false); SSuIncr] (mkOst t None bs_empty) in
  NoDup (ids (o_tree st)) /\ read_enc (o_bs st) = map (fun p => Some (snd p)) (enc_full (Some false) (spec_su t)).
Proof. split; [repeat constructor; simpl; intuition discriminate|vm_compute; reflexivity]. Qed.
