(* C05: support annotations of a maximum-credibility tree of a ROOTED array, for both variants of
   Tree.from_split_bitmasks (does it hand is_rooted to the Bipartition of an inserted node):
   exact when it does; refuted by a concrete array when it does not *)
From Coq Require Import ZArith QArith Qabs Qreduction List Bool Lia Permutation String.
From DV Require Import Model.PyPrims Gen.BitFns Gen.Consts Model.C05Model Model.C05Spec Model.C05Model2
     Model.C05GenPrims Model.C05GenPrims2 Model.C05GenPrims3 Model.C05Model3 Gen.SplitDist Gen.SplitDistTa
     Proofs.C05Lists Proofs.C05Freq Proofs.C05Stats Proofs.C05Trees Proofs.C05Laminar Proofs.C05GenTa.
Import ListNotations.
Open Scope Z_scope.

(* ---------------------------------------------------------------- passes = true, rooted: every node of the
   target carries its own clade mask *)
Lemma rt_sub_splits all fill sel (k : ctree) :
  map sn_split (st_preorder (rt_sub true true all fill sel k)) = ct_masks k.
Proof.
  induction k as [m ks IH] using ctree_ind'.
  assert (K : map sn_split (flat_map st_preorder (map (rt_sub true true all fill sel) ks)) = flat_map ct_masks ks).
  { induction IH as [|k r Hk _ IHr]; [reflexivity|].
    cbn [map flat_map]. rewrite !map_app, Hk. f_equal. exact IHr. }
  destruct ks as [|k0 ks0]; [reflexivity|].
  cbn [rt_sub]. cbn [st_preorder map enc_split andb sn_split]. cbn [ct_masks]. f_equal. exact K.
Qed.

Lemma target_splits_rooted all t :
  py_truth_obool (rt_rooting t) = true ->
  map sn_split (st_preorder (py_rtree_target true all t)) = ct_masks (rt_tree t).
Proof.
  intro R. unfold py_rtree_target. rewrite R. destruct (rt_tree t) as [m ks].
  cbn [st_preorder map enc_split sn_split ct_masks]. f_equal.
  induction ks as [|k r IH]; [reflexivity|].
  cbn [map flat_map]. rewrite !map_app, rt_sub_splits. f_equal. exact IH.
Qed.

Lemma forall2_map_l {A B C} (f : A -> B) (P : B -> C -> Prop) l l' :
  Forall2 (fun a c => P (f a) c) l l' -> Forall2 P (map f l) l'.
Proof. induction 1; simpl; constructor; assumption. Qed.

Theorem mcc_rooted_support_exact :
  fsb_bipartition_passes_is_rooted = true ->
  forall (product : bool) c ts a all bits ext o a' t nodes,
  ta_sd a = count_trees c sd_empty ts ->
  (forall t0, In t0 ts -> NoDup (splits_of t0)) ->
  ignore_len c = false -> ignore_ages c = false ->
  sd_ok (ta_sd a) ->
  ta_rooting a = Some true ->
  (if product then gen_maximum_product_of_split_support_tree c a all bits ext true o
   else gen_maximum_sum_of_split_support_tree c a all bits ext true o) = Ok (a', t) ->
  mt_nodes t = Some nodes ->
  Forall2 (fun (clade : Z) v =>
             nv_split v = clade /\
             exists q, nv_support v = Some q /\
                       (q == (if o_percent o then 100 else 1) * exact_freq c ts clade)%Q)
          (ct_masks (rt_tree (mt_tree t))) nodes.
Proof.
  intros P product c ts a all bits ext o a' t nodes CT ND IL IA OK RT H MN.
  pose proof (gen_mcc_tree_support_l product c ts a all bits ext o a' t nodes CT ND IL IA OK H MN) as F.
  destruct (gen_mcc_tree_is_argmax_l product c a all bits ext true o a' t OK H) as [i (_ & _ & _ & _ & _ & _ & RR & _)].
  rewrite P in F.
  rewrite <- (target_splits_rooted all (mt_tree t)) by (rewrite RR, RT; reflexivity).
  apply forall2_map_l. exact F.
Qed.

(* ---------------------------------------------------------------- passes = false: the witness.
   Five taxa a=1 b=2 c=4 d=8 e=16, three copies of the rooted tree (((a,b),c),(d,e)) as the
   library encodes it (postorder); clade {a,b} = 3 is in every tree, frequency 1; its node in
   the returned tree carries the normalised bitmask 28 = {c,d,e}, which no tree has: support 0 *)
Definition wit_tree : tree_in :=
  mkTree (map (fun s => mkRec s (Some 1%Q) None) [1; 2; 3; 4; 7; 8; 16; 24; 31]) None (Some true) 31.
Definition wit_cfg := mkCfg false true true None.
Definition wit_bits := [1; 2; 4; 8; 16].
Definition wit_opts := mkOpts ELNone false None false.
Definition wit_ta : ta :=
  match ta_add_trees true wit_cfg (ta_empty None) [wit_tree; wit_tree; wit_tree] with
  | Ok a => a
  | _ => ta_empty None
  end.

Lemma nodupb_NoDup l : nodupb l = true -> NoDup l.
Proof.
  induction l as [|x r IH]; simpl; intro H; [constructor|].
  apply andb_true_iff in H. destruct H as [H1 H2]. constructor; [|now apply IH].
  intro I. apply negb_true_iff in H1. unfold zmem in H1.
  assert (E : existsb (Z.eqb x) r = true) by (apply existsb_exists; exists x; split; [exact I | apply Z.eqb_refl]).
  congruence.
Qed.

Lemma wit_ok : sd_ok (ta_sd wit_ta) /\ ta_rooting wit_ta = Some true /\
               ta_sd wit_ta = count_trees (ta_sd_cfg true wit_cfg) sd_empty [wit_tree; wit_tree; wit_tree].
Proof.
  split; [|split; vm_compute; reflexivity].
  repeat split; try (apply nodupb_NoDup; vm_compute; reflexivity). vm_compute. discriminate.
Qed.

Definition node_view (t : mtree) : list (Z * option Q) :=
  match mt_nodes t with Some l => map (fun v => (nv_split v, nv_support v)) l | None => [] end.

Theorem mcc_rooted_support_refuted :
  fsb_bipartition_passes_is_rooted = false ->
  forall product : bool,
  exists a' t,
    (if product then gen_maximum_product_of_split_support_tree wit_cfg wit_ta 31 wit_bits false true wit_opts
     else gen_maximum_sum_of_split_support_tree wit_cfg wit_ta 31 wit_bits false true wit_opts) = Ok (a', t) /\
    (* clade masks of the returned tree (preorder) and what its nodes carry: (split bitmask, support) *)
    ct_masks (rt_tree (mt_tree t)) = [31; 7; 4; 3; 1; 2; 24; 8; 16] /\
    node_view t = [(31, Some 1%Q); (24, Some 1%Q); (4, Some 1%Q); (28, Some 0%Q); (1, Some 1%Q); (2, Some 1%Q);
                   (24, Some 1%Q); (8, Some 1%Q); (16, Some 1%Q)] /\
    Qeq_bool (exact_freq wit_cfg [wit_tree; wit_tree; wit_tree] 3) 1 = true.
Proof.
  intros P product. destruct wit_ok as [OK _].
  destruct product.
  - rewrite (gen_maximum_product_of_split_support_tree_eq wit_cfg wit_ta 31 wit_bits false true wit_opts OK). rewrite P.
    vm_compute. eexists. eexists. repeat split; reflexivity.
  - rewrite (gen_maximum_sum_of_split_support_tree_eq wit_cfg wit_ta 31 wit_bits false true wit_opts OK). rewrite P.
    vm_compute. eexists. eexists. repeat split; reflexivity.
Qed.

(* the hypotheses of mcc_rooted_support_exact are satisfiable: the same array *)
Example mcc_rooted_support_exact_nonvacuous :
  let c := ta_sd_cfg true wit_cfg in
  ta_sd wit_ta = count_trees c sd_empty [wit_tree; wit_tree; wit_tree] /\
  (forall t0, In t0 [wit_tree; wit_tree; wit_tree] -> NoDup (splits_of t0)) /\
  ignore_len c = false /\ sd_ok (ta_sd wit_ta) /\ ta_rooting wit_ta = Some true /\
  exists r, mcc_tree true true c wit_ta 31 wit_bits false true wit_opts = Ok r.
Proof.
  destruct wit_ok as [OK [R E]]. cbv zeta.
  split; [exact E|]. split.
  { intros t0 I. simpl in I. assert (t0 = wit_tree) by intuition congruence. subst.
    apply nodupb_NoDup. vm_compute. reflexivity. }
  split; [vm_compute; reflexivity|]. split; [exact OK|]. split; [exact R|].
  vm_compute. eexists. reflexivity.
Qed.
