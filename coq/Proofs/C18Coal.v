(* C18 - coalescent simulators: coalesce_nodes, pure_kingman_tree *)
From Coq Require Import QArith Lqa List Bool Arith Lia Permutation.
From DV Require Import Model.C18Model Proofs.C18Lists Proofs.C18Monad.
Import ListNotations.
Open Scope nat_scope.

Lemma gtree_ind2 (P : gtree -> Prop) :
  (forall x l ks, Forall P ks -> P (G x l ks)) -> forall t, P t.
Proof.
  intros H. fix IH 1. intros [x l ks]. apply H.
  induction ks as [|k r IHr]; constructor; [apply IH | exact IHr].
Qed.

Definition bin2 (n : nat) : Prop := n = 0 \/ n = 2.

Inductive garity (P : nat -> Prop) : gtree -> Prop :=
| gar_node : forall x l ks, P (length ks) -> Forall (garity P) ks -> garity P (G x l ks).

Lemma garity_subtrees : forall P t, garity P t <-> (forall s, In s (gsubtrees t) -> P (length (g_kids s))).
Proof.
  intros P. induction t as [x l ks IH] using gtree_ind2. split.
  - intros H s Hs. inversion H as [? ? ? Hp Hf]; subst. simpl in Hs. destruct Hs as [<-|Hs]; [exact Hp|].
    apply in_flat_map in Hs. destruct Hs as (k & Hk & Hs).
    rewrite Forall_forall in IH, Hf. apply (IH k Hk); auto.
  - intros H. constructor.
    + apply (H (G x l ks)). simpl. auto.
    + rewrite Forall_forall in *. intros k Hk. apply (IH k Hk). intros s Hs. apply H. simpl. right.
      apply in_flat_map. eauto.
Qed.

(* all tips of g at height D below the top of g's own edge *)
Inductive guni : Q -> gtree -> Prop :=
| guni_leaf : forall x l D, lenq l == D -> guni D (G x l [])
| guni_node : forall x l k r D, Forall (guni (D - lenq l)) (k :: r) -> guni D (G x l (k :: r)).

Lemma guni_compat : forall t D D', D == D' -> guni D t -> guni D' t.
Proof.
  induction t as [x l ks IH] using gtree_ind2. intros D D' E H.
  inversion H as [? ? ? Hl | ? ? ? ? ? Hall]; subst.
  - constructor. rewrite <- E. exact Hl.
  - constructor. rewrite Forall_forall in *. intros k' Hk'. apply (IH k' Hk' (D - lenq l)%Q (D' - lenq l)%Q); [lra|auto].
Qed.

Lemma guni_tips : forall t D, guni D t -> forall x h, In (x, h) (gtips t) -> h == D.
Proof.
  induction t as [x l ks IH] using gtree_ind2. intros D H y h Hy.
  inversion H as [? ? ? Hl | ? ? ? ? ? Hall]; subst.
  - simpl in Hy. destruct Hy as [Hy|[]]. inversion Hy; subst. exact Hl.
  - simpl gtips in Hy. apply in_map_iff in Hy. destruct Hy as ([y0 h0] & Ey & Hy0). simpl in Ey. inversion Ey; subst.
    change (gtips k ++ flat_map gtips r) with (flat_map gtips (k :: r)) in Hy0.
    apply in_flat_map in Hy0. destruct Hy0 as (k' & Hk' & Hy0). rewrite Forall_forall in *.
    rewrite (IH k' Hk' (D - lenq l)%Q (Hall k' Hk') y h0 Hy0). lra.
Qed.

Lemma stretch_guni : forall w g D, guni D g -> guni (D + w) (stretch w g).
Proof.
  intros w [x l ks] D H. inversion H as [? ? ? Hl | ? ? ? ? ? Hall]; subst; simpl.
  - constructor. simpl. rewrite Hl. reflexivity.
  - constructor. simpl. rewrite Forall_forall in *. intros k' Hk'. eapply guni_compat; [|apply Hall; exact Hk']. lra.
Qed.

Lemma stretch_taxa : forall w g, gleaf_taxa (stretch w g) = gleaf_taxa g.
Proof. intros w [x l ks]. reflexivity. Qed.

Lemma stretch_arity : forall P w g, garity P g -> garity P (stretch w g).
Proof. intros P w [x l ks] H. inversion H; subst. constructor; auto. Qed.

(* one coalescence: all lineages stretched by tm, lineages i and j joined under a new ancestor *)
Definition gdflt : gtree := G None None [].

Definition coal_step (tm : Q) (i j : nat) (nodes : list gtree) : list gtree :=
  let nodes1 := map (stretch tm) nodes in
  remove_nth (if i <? j then j - 1 else j) (remove_nth i nodes1)
    ++ [G None (Some 0%Q) [nth i nodes1 gdflt; nth j nodes1 gdflt]].

Lemma adj_lt : forall i j n, i < n -> j < n -> i <> j -> (if i <? j then j - 1 else j) < n - 1.
Proof. intros. destruct (i <? j) eqn:E; [apply Nat.ltb_lt in E|apply Nat.ltb_ge in E]; lia. Qed.

Lemma coal_step_perm : forall tm i j nodes, i < length nodes -> j < length nodes -> i <> j ->
  let nodes1 := map (stretch tm) nodes in
  Permutation nodes1 (nth i nodes1 gdflt :: nth j nodes1 gdflt ::
                      remove_nth (if i <? j then j - 1 else j) (remove_nth i nodes1)).
Proof.
  intros tm i j nodes Hi Hj Hne nodes1.
  assert (Hl : length nodes1 = length nodes) by (unfold nodes1; apply map_length).
  eapply Permutation_trans; [apply (remove_nth_perm gdflt i); lia|]. apply perm_skip.
  rewrite (nth_remove_nth gdflt i j nodes1 Hne).
  apply (remove_nth_perm gdflt). pose proof (remove_nth_length i nodes1 ltac:(lia)).
  pose proof (adj_lt i j (length nodes) Hi Hj Hne). lia.
Qed.

Lemma coal_step_length : forall tm i j nodes, i < length nodes -> j < length nodes -> i <> j ->
  S (length (coal_step tm i j nodes)) = length nodes.
Proof.
  intros. unfold coal_step. rewrite app_length. simpl.
  pose proof (coal_step_perm tm i j nodes H H0 H1) as P. simpl in P. apply Permutation_length in P.
  rewrite map_length in P. simpl in P. lia.
Qed.

Lemma coal_step_Forall : forall (P : gtree -> Prop) tm i j nodes, i < length nodes -> j < length nodes -> i <> j ->
  Forall P (map (stretch tm) nodes) ->
  P (G None (Some 0%Q) [nth i (map (stretch tm) nodes) gdflt; nth j (map (stretch tm) nodes) gdflt]) ->
  Forall P (coal_step tm i j nodes).
Proof.
  intros P tm i j nodes Hi Hj Hne Hall Hnew. unfold coal_step. apply Forall_app. split; [|constructor; auto].
  pose proof (coal_step_perm tm i j nodes Hi Hj Hne) as Pm. simpl in Pm.
  eapply Permutation_Forall in Hall; [|exact Pm]. inversion Hall as [|? ? _ H1]; subst. inversion H1; subst. assumption.
Qed.

Lemma coal_step_elems : forall (P : gtree -> Prop) tm i j nodes, i < length nodes -> j < length nodes ->
  Forall P (map (stretch tm) nodes) ->
  P (nth i (map (stretch tm) nodes) gdflt) /\ P (nth j (map (stretch tm) nodes) gdflt).
Proof.
  intros P tm i j nodes Hi Hj Hall. rewrite Forall_forall in Hall.
  split; apply Hall; apply nth_In; rewrite map_length; assumption.
Qed.

Lemma coal_step_taxa : forall tm i j nodes, i < length nodes -> j < length nodes -> i <> j ->
  Permutation (flat_map gleaf_taxa (coal_step tm i j nodes)) (flat_map gleaf_taxa nodes).
Proof.
  intros tm i j nodes Hi Hj Hne. unfold coal_step. rewrite flat_map_app. simpl flat_map at 2.
  rewrite app_nil_r.
  pose proof (coal_step_perm tm i j nodes Hi Hj Hne) as Pm. simpl in Pm.
  set (nodes1 := map (stretch tm) nodes) in *.
  assert (E : flat_map gleaf_taxa nodes1 = flat_map gleaf_taxa nodes).
  { unfold nodes1. rewrite flat_map_concat_map, map_map, <- flat_map_concat_map.
    apply flat_map_ext. intros a. apply stretch_taxa. }
  rewrite <- E.
  eapply Permutation_trans; [|apply Permutation_sym; apply Permutation_flat_map; exact Pm].
  simpl. rewrite app_nil_r.
  eapply Permutation_trans; [apply Permutation_app_comm|]. rewrite <- app_assoc. reflexivity.
Qed.

(* ---------------- the loop of coalesce_nodes ---------------- *)

Definition script_exp (Pe : Q -> Prop) (s : list draw) : Prop := forall q, In (DExp q) s -> Pe q.

Lemma script_exp_tail : forall Pe d s, script_exp Pe (d :: s) -> script_exp Pe s.
Proof. intros Pe d s H q Hq. apply H. right. exact Hq. Qed.

Lemma coal_loop_inv (Pe : Q -> Prop) (Inv : list gtree -> option Q -> Prop) (pop : Q) :
  (forall nodes rem e i j, Inv nodes rem -> Pe e ->
      i < length nodes -> j < length nodes -> i <> j ->
      (match rem with None => True | Some rm => e * time_units pop <= rm end)%Q ->
      Inv (coal_step (e * time_units pop) i j nodes) (option_map (fun rm => (rm - e * time_units pop)%Q) rem)) ->
  forall fuel nodes rem r res r',
    script_exp Pe (fst r) -> Inv nodes rem ->
    coal_loop fuel pop nodes rem r = Done res r' ->
    Inv (fst res) (snd res) /\ script_exp Pe (fst r').
Proof.
  intros Hstep. induction fuel as [|f IH]; intros nodes rem r res r' Hs HI H; simpl in H.
  - destruct (length nodes <=? 1); [|discriminate]. inversion H; subst. simpl. auto.
  - destruct (length nodes <=? 1); [inversion H; subst; simpl; auto|].
    step H. apply d_exp_Done in Hs0. destruct Hs0 as (t & Et & ->).
    assert (Pa : Pe a) by (apply Hs; rewrite Et; left; reflexivity).
    assert (Hs' : script_exp Pe t) by (rewrite Et in Hs; eapply script_exp_tail; eauto).
    destruct (match rem with Some rm => Qle_bool (a * time_units pop) rm | None => true end) eqn:Ec.
    + step H. destruct a0 as [i j]. apply d_sample2_Done in Hs0. destruct Hs0 as (Hi & Hj & Hne & t2 & Et2 & ->).
      simpl in Et2. subst t.
      eapply IH; [| |exact H].
      * simpl. eapply script_exp_tail; eauto.
      * apply (Hstep nodes rem a i j); auto. destruct rem; [apply Qle_bool_iff; exact Ec|exact I].
    + apply ret_Done in H. destruct H as [<- <-]. simpl. auto.
Qed.

Lemma coal_loop_fuel : forall fuel pop nodes rem r, length nodes <= fuel -> coal_loop fuel pop nodes rem r <> NoFuel.
Proof.
  induction fuel as [|f IH]; intros pop nodes rem r Hl; simpl.
  - destruct (length nodes <=? 1) eqn:E; [discriminate|]. apply Nat.leb_gt in E. lia.
  - destruct (length nodes <=? 1) eqn:E; [discriminate|]. apply Nat.leb_gt in E.
    intro H. apply bnd_NoFuel in H. destruct H as [H|(e & r1 & _ & H)]; [eapply d_exp_fuel; eauto|].
    destruct (match rem with Some rm => Qle_bool (e * time_units pop) rm | None => true end); [|discriminate].
    apply bnd_NoFuel in H. destruct H as [H|([i j] & r2 & Hc & H)]; [eapply d_sample2_fuel; eauto|].
    apply d_sample2_Done in Hc. destruct Hc as (Hi & Hj & Hne & _).
    revert H. apply IH. pose proof (coal_step_length (e * time_units pop) i j nodes Hi Hj Hne).
    change (length (coal_step (e * time_units pop) i j nodes) <= f). lia.
Qed.

Lemma coal_loop_None_single : forall fuel pop nodes r res r',
  coal_loop fuel pop nodes None r = Done res r' -> length (fst res) <= 1 /\ snd res = None.
Proof.
  induction fuel as [|f IH]; intros pop nodes r res r' H; simpl in H.
  - destruct (length nodes <=? 1) eqn:E; [|discriminate]. inversion H; subst. apply Nat.leb_le in E. auto.
  - destruct (length nodes <=? 1) eqn:E; [inversion H; subst; apply Nat.leb_le in E; auto|].
    step H. step H. destruct a0 as [i j]. eapply IH. exact H.
Qed.

(* ---------------- pure_kingman_tree ---------------- *)

Definition kinv (taxa : list (option nat)) (nodes : list gtree) (rem : option Q) : Prop :=
  Forall (garity bin2) nodes /\ Permutation (flat_map gleaf_taxa nodes) taxa /\ exists D, Forall (guni D) nodes.

Lemma kinv_step : forall taxa pop nodes rem e i j, kinv taxa nodes rem -> True ->
  i < length nodes -> j < length nodes -> i <> j ->
  (match rem with None => True | Some rm => e * time_units pop <= rm end)%Q ->
  kinv taxa (coal_step (e * time_units pop) i j nodes) (option_map (fun rm => (rm - e * time_units pop)%Q) rem).
Proof.
  intros taxa pop nodes rem e i j (Ha & Hp & D & Hu) _ Hi Hj Hne _.
  set (tm := (e * time_units pop)%Q).
  assert (Ha1 : Forall (garity bin2) (map (stretch tm) nodes)).
  { rewrite Forall_map. eapply Forall_impl; [|exact Ha]. intros g. apply stretch_arity. }
  assert (Hu1 : Forall (guni (D + tm)) (map (stretch tm) nodes)).
  { rewrite Forall_map. eapply Forall_impl; [|exact Hu]. intros g. apply stretch_guni. }
  split; [|split].
  - apply coal_step_Forall; auto. destruct (coal_step_elems _ tm i j nodes Hi Hj Ha1) as [A1 A2].
    constructor; [right; reflexivity|]. repeat constructor; assumption.
  - eapply Permutation_trans; [apply coal_step_taxa; assumption|exact Hp].
  - exists (D + tm)%Q. apply coal_step_Forall; auto.
    destruct (coal_step_elems _ tm i j nodes Hi Hj Hu1) as [U1 U2].
    constructor. simpl. repeat constructor; (eapply guni_compat; [|eassumption]); lra.
Qed.

Definition kleaves (N : nat) : list gtree := map (fun i => G (Some i) None []) (seq 0 N).

Lemma kinv_init : forall N, kinv (map Some (seq 0 N)) (kleaves N) None.
Proof.
  intros N. unfold kinv, kleaves. split; [|split].
  - rewrite Forall_map. apply Forall_forall. intros i _. constructor; [left; reflexivity|constructor].
  - rewrite flat_map_concat_map, map_map. simpl. rewrite <- flat_map_concat_map.
    induction (seq 0 N); simpl; [constructor|]. apply perm_skip. assumption.
  - exists 0%Q. rewrite Forall_map. apply Forall_forall. intros i _. constructor. reflexivity.
Qed.

Theorem kingman_spec_proved : forall N pop script t r,
  kingman_sim N pop script = Done t r ->
  Permutation (gleaf_taxa t) (map Some (seq 0 N)) /\
  (forall s, In s (gsubtrees t) -> length (g_kids s) = 0 \/ length (g_kids s) = 2) /\
  (exists D, forall x h, In (x, h) (gtips t) -> h == D)%Q.
Proof.
  intros N pop script t r H. unfold kingman_sim, kingman_run in H. fold (kleaves N) in H. step H.
  unfold coalesce_nodes in Hs. destruct (kleaves N) as [|n0 nr] eqn:En.
  - apply ret_Done in Hs. destruct Hs as [<- <-]. discriminate.
  - rewrite <- En in *. step Hs. destruct a0 as [nodes' rem'].
    destruct (coal_loop_None_single _ _ _ _ _ _ Hs0) as [Hlen Hrem]. simpl in Hlen, Hrem. subst rem'.
    apply ret_Done in Hs. destruct Hs as [<- <-].
    destruct (coal_loop_inv (fun _ => True) (kinv (map Some (seq 0 N))) pop
                (kinv_step (map Some (seq 0 N)) pop) _ _ _ _ _ _ ltac:(intros q _; exact I) (kinv_init N) Hs0) as [(Ha & Hp & D & Hu) _].
    simpl in Ha, Hp, Hu. destruct nodes' as [|g [|g2 rest]]; [discriminate| |simpl in Hlen; lia].
    apply ret_Done in H. destruct H as [<- _].
    simpl in Hp. rewrite app_nil_r in Hp.
    split; [exact Hp|]. split.
    + apply (proj1 (garity_subtrees bin2 g)). inversion Ha; subst. assumption.
    + exists D. apply guni_tips. inversion Hu; subst. assumption.
Qed.

(* coalesce_nodes / pure_kingman_tree always terminate: the loop loses one lineage per pass *)
Theorem kingman_fuel_proved : forall N pop script, kingman_sim N pop script <> NoFuel.
Proof.
  intros N pop script H. unfold kingman_sim, kingman_run in H.
  apply bnd_NoFuel in H. destruct H as [H|(res & r1 & _ & H)].
  - unfold coalesce_nodes in H. destruct (map _ (seq 0 N)) as [|n0 nr] eqn:En; [discriminate|].
    apply bnd_NoFuel in H. destruct H as [H|([nodes' rem'] & r1 & _ & H)].
    + revert H. apply coal_loop_fuel. lia.
    + destruct rem' as [rm|]; [destruct (Qltb 0 rm)|]; discriminate.
  - destruct res; discriminate.
Qed.

(* total correctness: a script that offers, for n = N, N-1, ..., 2 lineages, a waiting time and a
   pair of distinct positions below n makes pure_kingman_tree return *)
Fixpoint kscript_ok (n : nat) (s : list draw) : Prop :=
  match n with
  | S ((S m) as n') =>
      match s with
      | DExp _ :: DSample [i; j] :: rest => i < n /\ j < n /\ i <> j /\ kscript_ok n' rest
      | _ => False
      end
  | _ => True
  end.

Lemma kscript_ok_SS : forall m s, kscript_ok (S (S m)) s =
  match s with
  | DExp _ :: DSample [i; j] :: rest => i < S (S m) /\ j < S (S m) /\ i <> j /\ kscript_ok (S m) rest
  | _ => False
  end.
Proof. reflexivity. Qed.

Lemma coal_loop_total : forall fuel pop nodes s c,
  length nodes <= fuel -> kscript_ok (length nodes) s ->
  exists res r', coal_loop fuel pop nodes None (s, c) = Done res r'.
Proof.
  induction fuel as [|f IH]; intros pop nodes s c Hl Hk; simpl.
  - destruct (length nodes <=? 1) eqn:E; [eauto|]. apply Nat.leb_gt in E. lia.
  - destruct (length nodes <=? 1) eqn:E; [eauto|]. apply Nat.leb_gt in E.
    destruct (length nodes) as [|[|m]] eqn:En; try lia.
    rewrite kscript_ok_SS in Hk. destruct s as [|[e| | | | |] [|[| | | | |[|i [|j [|]]]] rest]]; try contradiction.
    destruct Hk as (Hi & Hj & Hne & Hk).
    unfold bnd at 1. unfold d_exp. simpl fst. cbv iota. simpl snd.
    unfold bnd at 1. unfold d_sample2. simpl fst.
    replace (S (S m) <? 2) with false by (symmetry; apply Nat.ltb_ge; lia).
    replace ((i <? S (S m)) && (j <? S (S m)) && negb (i =? j)) with true.
    2:{ symmetry. rewrite !andb_true_iff, negb_true_iff, !Nat.ltb_lt, Nat.eqb_neq. auto. }
    cbv iota. apply IH.
    + assert (Hi' : i < length nodes) by lia. assert (Hj' : j < length nodes) by lia.
      pose proof (coal_step_length (e * time_units pop) i j nodes Hi' Hj' Hne) as Hc.
      change (length (coal_step (e * time_units pop) i j nodes) <= f). lia.
    + assert (Hi' : i < length nodes) by lia. assert (Hj' : j < length nodes) by lia.
      pose proof (coal_step_length (e * time_units pop) i j nodes Hi' Hj' Hne) as Hc.
      change (kscript_ok (length (coal_step (e * time_units pop) i j nodes)) rest).
      replace (length (coal_step (e * time_units pop) i j nodes)) with (S m) by lia. exact Hk.
Qed.

Theorem kingman_total_proved : forall N pop script,
  1 <= N -> kscript_ok N script -> exists t r, kingman_sim N pop script = Done t r.
Proof.
  intros N pop script HN Hk. unfold kingman_sim, kingman_run. fold (kleaves N).
  assert (Hlen : length (kleaves N) = N) by (unfold kleaves; rewrite map_length, seq_length; reflexivity).
  destruct (coal_loop_total (length (kleaves N)) pop (kleaves N) script [] (le_n _)) as ([nodes' rem'] & r' & Hc).
  { rewrite Hlen. exact Hk. }
  destruct (coal_loop_None_single _ _ _ _ _ _ Hc) as [Hl1 Hr]. simpl in Hl1, Hr. subst rem'.
  destruct (coal_loop_inv (fun _ => True) (kinv (map Some (seq 0 N))) pop
              (kinv_step (map Some (seq 0 N)) pop) _ _ _ _ _ _ ltac:(intros q _; exact I) (kinv_init N) Hc) as [(_ & Hp & _) _].
  simpl in Hp. apply Permutation_length in Hp. rewrite map_length, seq_length in Hp.
  destruct nodes' as [|g rest]; [simpl in Hp; lia|].
  unfold bnd at 1. unfold coalesce_nodes. destruct (kleaves N) as [|n0 nr] eqn:En; [simpl in Hlen; lia|].
  unfold bnd at 1. rewrite Hc. unfold ret. eauto.
Qed.
