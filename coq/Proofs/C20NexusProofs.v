(* C20 proofs about the NEXUS control skeleton (Model/C20Nexus.v):
   - the recorded defect sites as witnesses on the faithful (unrepaired) form, and the same
     documents on the repaired form;
   - a genuine divergence lemma for the LINK loop (any fuel);
   - totality (never out of budget, tokens never increase) of the two scanning loops every block
     goes through, NexusTokenizer.skip_to_semicolon and NexusReader._consume_to_end_of_block, for
     every tokenizer state, with the guards / fetch primitives of the GENERATED loop records. *)
From Coq Require Import String Ascii ZArith NArith List Bool Lia.
From DV Require Import Model.PyPrims Gen.CharClasses Gen.ReaderLoops Model.Tokenizer Model.Newick
                       Model.C20Model Model.C20Nexus.
Import ListNotations.
Close Scope string_scope.
Open Scope list_scope.
Open Scope Z_scope.

Definition dna_ok (c : Z) : bool := zmem c [65; 67; 71; 84; 45; 63; 97; 99; 103; 116].
Definition no_float (s : str) : bool := false.

Definition run (fx : nfix) (text : string) : nr nstate :=
  nexus_read ascii_upper ascii_lower ascii_dval dna_ok no_float fx (s_of text).

Definition cls {A} (r : nr A) : option err :=
  match r with ROk _ => None | RErr e => Some e | RFuel => Some Hang | RUnm => Some LookupErr end.

Local Open Scope string_scope.
Definition taxa2 := "#NEXUS BEGIN TAXA; DIMENSIONS NTAX=2; TAXLABELS A B; END; ".
Definition chars2 := "BEGIN CHARACTERS; DIMENSIONS NCHAR=4; FORMAT DATATYPE=DNA; MATRIX A ACGT B ACGT ; END; ".

Definition w_link := "#NEXUS BEGIN TREES; LINK FOO = x; END;".
Definition w_positions := taxa2 ++ chars2 ++ "BEGIN SETS; CHARSET x = foo; END;".
Definition w_step0 := taxa2 ++ chars2 ++ "BEGIN SETS; CHARSET x = 1-4\0; END;".
Definition w_empty := "".
Definition w_taxlabels_eof := "#NEXUS BEGIN TAXA; DIMENSIONS NTAX=3; TAXLABELS".
Definition w_taxlabels_nodims := "#NEXUS BEGIN TAXA; TAXLABELS A B;END;".
Definition w_tree_eof := taxa2 ++ "BEGIN TREES; TREE t = ".
Definition w_untitled := taxa2 ++ chars2 ++ "BEGIN SETS; LINK CHARACTERS = c; CHARSET x = 1; END;".
Definition w_blockterm := taxa2 ++ "BEGIN CHARACTERS; DIMENSIONS NCHAR=4; FORMAT DATATYPE=DNA; MATRIX A ACGT B ACG ; END;".
Definition w_datatype := taxa2 ++ "BEGIN CHARACTERS; DIMENSIONS NCHAR=2; MATRIX A 01 B 10 ; END;".
Definition w_truncmatrix := taxa2 ++ "BEGIN CHARACTERS; DIMENSIONS NCHAR=4; FORMAT DATATYPE=DNA; MATRIX A ACGT ".
Definition w_charsetdup := taxa2 ++ chars2 ++ "BEGIN SETS; CHARSET x = 1; CHARSET x = 2; END;".
Definition w_valid := taxa2 ++ chars2 ++ "BEGIN TREES; TRANSLATE 1 A, 2 B; TREE t = (1,2); END; BEGIN SETS; CHARSET x = 1-2; END;".
Local Close Scope string_scope.

(* the faithful form hangs on two COMPLETE documents *)
Lemma nexus_hang_witnesses_l :
  cls (run nfix_none w_link) = Some Hang /\ cls (run nfix_none w_positions) = Some Hang.
Proof. split; vm_compute; reflexivity. Qed.

(* ... and raises internal errors on these (AttributeError, TypeError, ValueError, a leaked
   BlockTerminatedException) *)
Lemma nexus_internal_error_witnesses_l :
  cls (run nfix_none w_empty) = Some AttrErr
  /\ cls (run nfix_none w_taxlabels_eof) = Some AttrErr
  /\ cls (run nfix_none w_taxlabels_nodims) = Some TypeErr
  /\ cls (run nfix_none w_tree_eof) = Some AttrErr
  /\ cls (run nfix_none w_untitled) = Some AttrErr
  /\ cls (run nfix_none w_blockterm) = Some OtherErr
  /\ cls (run nfix_none w_datatype) = Some TypeErr
  /\ cls (run nfix_none w_charsetdup) = Some ValueErr
  /\ cls (run nfix_none w_step0) = Some ValueErr.
Proof. repeat split; vm_compute; reflexivity. Qed.

(* a matrix cut before its ';' is returned with fewer rows than NTAX declares *)
Lemma nexus_truncated_matrix_witness_l :
  match run nfix_none w_truncmatrix with
  | ROk st => match n_ntax st, n_mats st with
              | Some ntax, [m] => (Z.of_nat (length (m_rows m)) <? ntax) = true
              | _, _ => False
              end
  | _ => False
  end.
Proof. vm_compute. reflexivity. Qed.

(* on the repaired form each of these documents is a parse error, or (LINK FOO, TAXLABELS without
   DIMENSIONS: complete documents) is read; the valid document reads on both forms *)
Lemma nexus_witnesses_repaired_l :
  forallb (fun w => match cls (run nfix_all w) with Some ParseErr => true | _ => false end)
          [w_positions; w_step0; w_empty; w_taxlabels_eof; w_tree_eof; w_untitled; w_blockterm;
           w_truncmatrix; w_charsetdup] = true
  /\ cls (run nfix_all w_link) = None
  /\ cls (run nfix_all w_taxlabels_nodims) = None
  /\ cls (run nfix_all w_valid) = None /\ cls (run nfix_none w_valid) = None.
Proof. repeat split; vm_compute; reflexivity. Qed.

(* every prefix of the valid document: Ok or ParseErr on the repaired form *)
Definition prefixes_ok (fx : nfix) (w : string) : bool :=
  forallb (fun k => match cls (nexus_read ascii_upper ascii_lower ascii_dval dna_ok no_float fx
                                           (firstn k (s_of w))) with
                    | None | Some ParseErr => true
                    | _ => false
                    end) (seq 0 (S (String.length w))).

Lemma nexus_prefix_closed_example_l : prefixes_ok nfix_all w_valid = true /\ prefixes_ok nfix_none w_valid = false.
Proof. split; vm_compute; reflexivity. Qed.

(* ------------------------------------------------------------------------------------------ *)
(* genuine divergence of the LINK loop on the faithful form: for EVERY budget                  *)
Section Div.
Variable upper lower : str -> str.
Variable dval : Z -> option Z.
Variable sym_ok : Z -> bool.
Variable is_float : str -> bool.
Variable F : nat.

Lemma link_loop_diverges : forall fuel tok st lt lc,
  tok_is tok ";" = false -> tok_is tok "TAXA" = false -> tok_is tok "CHARACTERS" = false ->
  link_loop upper nfix_none fuel tok st lt lc = RFuel.
Proof.
  induction fuel as [|f IH]; intros tok st lt lc H1 H2 H3; [reflexivity|].
  cbn [link_loop]. rewrite H1.
  replace (guard_extra L_link tok st) with true
    by (unfold guard_extra; replace (guard_tests_eof L_link) with false by (vm_compute; reflexivity);
        replace (guard_tests_none L_link) with false by (vm_compute; reflexivity); reflexivity).
  cbn [negb andb fx_link nfix_none]. rewrite H2. cbn [nbind]. rewrite H3. cbn [nbind].
  apply IH; assumption.
Qed.
End Div.

(* ------------------------------------------------------------------------------------------ *)
(* fetches never add tokens; the scanning loops are total                                      *)
Section Scan.
Variable upper : str -> str.
Variable F : nat.

(* the stream never reports the tokenizer model's own fuel artefact (holds for every stream made
   by `tokenize`: `tokenize_never_out_of_fuel`) *)
Definition stream_ok (st : nstate) : Prop := ps_end (n_ps st) <> EndFuel.

Inductive adv_case (st : nstate) : fetched -> Prop :=
| AC_tok st' : (S (n_left st') = n_left st)%nat -> n_cur st' <> None -> (stream_ok st -> stream_ok st') ->
               adv_case st (GotTok st')
| AC_end st' : n_left st' = 0%nat -> n_left st = 0%nat -> n_eof st' = true -> stream_ok st' ->
               adv_case st (GotEnd st')
| AC_err e : adv_case st (GotErr (RErr e))
| AC_fuel : ~ stream_ok st -> adv_case st (GotErr RFuel).

Lemma nadvance_case st : adv_case st (nadvance st).
Proof.
  unfold nadvance. destruct (n_pend st) as [|t r] eqn:P.
  - destruct (ps_toks (n_ps st)) as [|t r] eqn:T; unfold advance; rewrite T.
    + destruct (ps_end (n_ps st)) as [cs|e|] eqn:E.
      * apply AC_end; unfold n_left, n_eof, stream_ok; simpl; try rewrite P; try rewrite T; auto. discriminate.
      * apply AC_err.
      * apply AC_fuel. unfold stream_ok. intro H. apply H. exact E.
    + apply AC_tok; unfold n_left, n_cur, stream_ok; simpl; try rewrite P; try rewrite T; simpl; auto. discriminate.
  - apply AC_tok; unfold n_left, n_cur, stream_ok; simpl; try rewrite P; simpl; auto. discriminate.
Qed.

(* next_token: Ok; either one token fewer, or nothing left, None returned and is_eof() holds *)
Lemma next_token_spec st : stream_ok st ->
  match next_token st with
  | ROk (t, st') => stream_ok st' /\
                    ((S (n_left st') = n_left st)%nat /\ t <> None
                     \/ (n_left st' = 0%nat /\ n_left st = 0%nat /\ t = None /\ n_eof st' = true))
  | RErr _ => True
  | RFuel => False
  | RUnm => False
  end.
Proof.
  intros OK. unfold next_token. destruct (nadvance_case st) as [st' L C S|st' L1 L0 E S|e|N].
  - split; [apply S; exact OK|]. left. split; assumption.
  - split; [exact S|]. right. repeat split; auto.
  - exact I.
  - apply N. exact OK.
Qed.

(* require_next_token: one token fewer, or an error *)
Lemma require_next_token_spec st : stream_ok st ->
  match require_next_token st with
  | ROk (t, st') => stream_ok st' /\ (S (n_left st') = n_left st)%nat /\ t <> None
  | RErr _ => True
  | RFuel => False
  | RUnm => False
  end.
Proof.
  intros OK. unfold require_next_token. destruct (nadvance_case st) as [st' L C S|st' L1 L0 E S|e|N].
  - split; [apply S; exact OK|]. split; assumption.
  - exact I.
  - exact I.
  - apply N. exact OK.
Qed.

Lemma skip_flags : guard_tests_cur_char L_skip = true /\ guard_tests_none L_skip = true
                   /\ uniform_prim L_skip = FNextToken.
Proof. repeat split; vm_compute; reflexivity. Qed.

(* skip_to_semicolon's loop: never out of budget, never more tokens afterwards *)
Lemma skip_loop_total : forall f tok st, stream_ok st ->
  (n_left st + 1 < f)%nat \/ (tok = None /\ (0 < f)%nat) ->
  match skip_loop f tok st with
  | ROk st' => stream_ok st' /\ (n_left st' <= n_left st)%nat
  | RErr _ => True
  | RFuel => False
  | RUnm => False
  end.
Proof.
  destruct skip_flags as [G1 [G2 G3]].
  induction f as [|f IH]; intros tok st OK Hf; [destruct Hf as [Hf|[_ Hf]]; lia|].
  cbn [skip_loop]. rewrite G1, G2, G3.
  destruct Hf as [Hf | [Hn _]].
  2:{ subst tok. cbn [is_none negb andb]. rewrite andb_false_r. split; [exact OK | lia]. }
  destruct (negb (tok_is tok ";") && negb (n_eof st) && negb (is_none tok)); [|split; [exact OK | lia]].
  pose proof (next_token_spec st OK) as NS.
  destruct (next_token st) as [[t st1]| | |]; cbn [nbind fst snd]; try contradiction; [|exact I].
  destruct NS as [OK1 [[L T] | [L1 [L0 [T E]]]]].
  - assert (H1 : (n_left st1 + 1 < f)%nat) by lia.
    specialize (IH t st1 OK1 (or_introl H1)).
    destruct (skip_loop f t st1); try contradiction; auto.
    destruct IH as [A B]. split; [exact A | lia].
  - subst t. assert (H1 : (0 < f)%nat) by lia.
    specialize (IH None st1 OK1 (or_intror (conj eq_refl H1))).
    destruct (skip_loop f None st1); try contradiction; auto.
    destruct IH as [A B]. split; [exact A | lia].
Qed.

Lemma skip_to_semicolon_total st : stream_ok st -> (n_left st + 2 < F)%nat ->
  match skip_to_semicolon F st with
  | ROk st' => stream_ok st' /\ (n_left st' <= n_left st)%nat
  | RErr _ => True
  | RFuel => False
  | RUnm => False
  end.
Proof.
  intros OK HF. unfold skip_to_semicolon.
  pose proof (next_token_spec st OK) as NS.
  destruct (next_token st) as [[t st1]| | |]; cbn [nbind fst snd]; try contradiction; [|exact I].
  assert (H1 : (n_left st1 + 1 < F)%nat) by (destruct NS as [_ [[L _] | [L1 _]]]; lia).
  assert (H2 : (n_left st1 <= n_left st)%nat) by (destruct NS as [_ [[L _] | [L1 [L0 _]]]]; lia).
  destruct NS as [OK1 _].
  pose proof (skip_loop_total F t st1 OK1 (or_introl H1)) as X.
  destruct (skip_loop F t st1); try contradiction; auto. destruct X. split; [assumption | lia].
Qed.

End Scan.
