(* C19: the row algebra (add/replace/update/extend/remove/discard/keep, fill_taxa) as finite-map equations *)
From Coq Require Import ZArith List Bool Lia.
From DV Require Import Model.PyPrims Model.C19Model Proofs.C19Alist.
Import ListNotations.
Open Scope Z_scope.

(* one generic "merge other into self" loop; the five methods are instances *)
Definition merge_step (F : row -> row -> option row) (g : bool) (s : rows) (p : tid * row) : rows :=
  match aget (fst p) s with
  | Some r => match F r (snd p) with Some x => aput (fst p) x s | None => s end
  | None => if g then aput (fst p) (snd p) s else s
  end.

Definition merge F g (s o : rows) : rows := fold_left (merge_step F g) o s.

Lemma merge_step_get F g s k v t :
  aget t (merge_step F g s (k, v)) =
  if Z.eqb t k then
    match aget k s with
    | Some r => Some (match F r v with Some x => x | None => r end)
    | None => if g then Some v else None
    end
  else aget t s.
Proof.
  unfold merge_step. simpl.
  destruct (Z.eqb_spec t k) as [E|E].
  - subst. destruct (aget k s) as [r|] eqn:G.
    + destruct (F r v); [apply aget_aput_eq | exact G].
    + destruct g; [apply aget_aput_eq | exact G].
  - destruct (aget k s) as [r|] eqn:G.
    + destruct (F r v); [apply aget_aput_neq; exact E | reflexivity].
    + destruct g; [apply aget_aput_neq; exact E | reflexivity].
Qed.

Lemma merge_step_keys F g s k v :
  keys (merge_step F g s (k, v)) = if ahas k s then keys s else if g then keys s ++ [k] else keys s.
Proof.
  unfold merge_step, ahas. simpl. destruct (aget k s) as [r|] eqn:G.
  - destruct (F r v); [|reflexivity]. rewrite keys_aput. unfold ahas. rewrite G. reflexivity.
  - destruct g; [|reflexivity]. rewrite keys_aput. unfold ahas. rewrite G. reflexivity.
Qed.

Lemma merge_get F g : forall o s t, NoDup (keys o) ->
  aget t (merge F g s o) =
  match aget t o with
  | None => aget t s
  | Some v => match aget t s with
              | Some r => Some (match F r v with Some x => x | None => r end)
              | None => if g then Some v else None
              end
  end.
Proof.
  unfold merge. induction o as [|[k v] o IH]; intros s t ND; simpl; [reflexivity|].
  inversion ND as [|? ? Hn ND']; subst.
  rewrite IH by exact ND'. rewrite merge_step_get.
  destruct (Z.eqb_spec t k) as [E|E].
  - subst. assert (G : aget k o = None) by (apply aget_None; exact Hn). rewrite G. reflexivity.
  - reflexivity.
Qed.

Lemma merge_keys F g : forall o s, NoDup (keys o) ->
  keys (merge F g s o) = keys s ++ (if g then filter (fun t => negb (ahas t s)) (keys o) else []).
Proof.
  unfold merge. induction o as [|[k v] o IH]; intros s ND; simpl.
  - destruct g; rewrite app_nil_r; reflexivity.
  - inversion ND as [|? ? Hn ND']; subst.
    rewrite IH by exact ND'. rewrite merge_step_keys.
    assert (X : forall s' : rows, (forall x, x <> k -> ahas x s' = ahas x s) ->
                filter (fun t => negb (ahas t s')) (keys o) = filter (fun t => negb (ahas t s)) (keys o)).
    { intros s' H. apply filter_ext_in. intros x Hx. rewrite H; [reflexivity|]. intro; subst. exact (Hn Hx). }
    destruct (ahas k s) eqn:Hk; simpl.
    + destruct g; [|reflexivity]. f_equal. apply X.
      intros x Hx. unfold ahas. rewrite merge_step_get. destruct (Z.eqb_spec x k); [contradiction | reflexivity].
    + destruct g; simpl; [|reflexivity].
      rewrite <- app_assoc. simpl. f_equal. f_equal. apply X.
      intros x Hx. unfold ahas. rewrite merge_step_get. destruct (Z.eqb_spec x k); [contradiction | reflexivity].
Qed.

Lemma merge_NoDup F g s o : NoDup (keys s) -> NoDup (keys o) -> NoDup (keys (merge F g s o)).
Proof.
  intros Ns No. rewrite merge_keys by exact No. destruct g; [|rewrite app_nil_r; exact Ns].
  apply NoDup_app_intro; [exact Ns | apply NoDup_filter; exact No |].
  intros x Hx Hf. apply filter_In in Hf. destruct Hf as [_ Hf].
  apply ahas_In in Hx. rewrite Hx in Hf. discriminate.
Qed.

Lemma merge_incl F g s o T : incl (keys s) T -> incl (keys o) T -> incl (keys (merge F g s o)) T.
Proof.
  intros Is Io. revert s Is. unfold merge. induction o as [|[k v] o IH]; intros s Is; simpl; [exact Is|].
  apply IH.
  - intros x Hx. apply Io. right. exact Hx.
  - rewrite merge_step_keys. destruct (ahas k s); [exact Is|]. destruct g; [|exact Is].
    intros x Hx. apply in_app_iff in Hx. destruct Hx as [Hx|[Hx|[]]]; [apply Is; exact Hx|].
    subst. apply Io. left. reflexivity.
Qed.

(* the five methods are instances of merge *)
Lemma fold_left_ext_all {A B} (f g : A -> B -> A) : (forall a b, f a b = g a b) ->
  forall l a, fold_left f l a = fold_left g l a.
Proof. intros H l. induction l as [|x l IH]; intros a; simpl; [reflexivity|]. rewrite H. apply IH. Qed.

Lemma add_rows_merge s o : add_rows s o = merge (fun _ _ => None) true s o.
Proof.
  apply fold_left_ext_all. intros a [k v]. unfold merge_step, ahas. simpl. change (list cell) with row. destruct (aget k a); reflexivity.
Qed.

Lemma replace_rows_merge s o : replace_rows s o = merge (fun _ v => Some v) false s o.
Proof.
  apply fold_left_ext_all. intros a [k v]. unfold merge_step, ahas. simpl. change (list cell) with row. destruct (aget k a); reflexivity.
Qed.

Lemma update_rows_merge s o : update_rows s o = merge (fun _ v => Some v) true s o.
Proof.
  apply fold_left_ext_all. intros a [k v]. unfold merge_step. simpl. change (list cell) with row. destruct (aget k a); reflexivity.
Qed.

Lemma extend_rows_merge b s o : extend_rows b s o = merge (fun r v => Some (r ++ v)) b s o.
Proof.
  apply fold_left_ext_all. intros a [k v]. unfold merge_step. simpl. change (list cell) with row. destruct (aget k a); reflexivity.
Qed.

Lemma extend_matrix_rows_merge s o : extend_matrix_rows s o = merge (fun r v => Some (r ++ v)) true s o.
Proof.
  apply fold_left_ext_all. intros a [k v]. unfold merge_step. simpl. change (list cell) with row. destruct (aget k a); reflexivity.
Qed.

Lemma fill_taxa_rows_merge T rs : fill_taxa_rows T rs = merge (fun _ _ => None) true rs (map (fun t => (t, [])) T).
Proof.
  unfold fill_taxa_rows, merge. revert rs. induction T as [|t T IH]; intros rs; simpl; [reflexivity|].
  rewrite IH. f_equal. unfold merge_step, ahas. simpl. change (list cell) with row. destruct (aget t rs); reflexivity.
Qed.

Lemma keys_const_map (T : list tid) : keys (map (fun t => (t, @nil cell)) T) = T.
Proof. unfold keys. rewrite map_map. simpl. apply map_id. Qed.

Lemma aget_const_map (T : list tid) t : aget t (map (fun t => (t, @nil cell)) T) = if memb t T then Some [] else None.
Proof.
  induction T as [|x T IH]; simpl; [reflexivity|].
  destruct (Z.eqb_spec t x); [reflexivity | exact IH].
Qed.

(* ---- the specifications ---- *)

Lemma add_rows_get s o t : NoDup (keys o) ->
  aget t (add_rows s o) = match aget t s with Some r => Some r | None => aget t o end.
Proof.
  intros ND. rewrite add_rows_merge, merge_get by exact ND.
  destruct (aget t o), (aget t s); reflexivity.
Qed.

Lemma add_rows_keys s o : NoDup (keys o) ->
  keys (add_rows s o) = keys s ++ filter (fun t => negb (ahas t s)) (keys o).
Proof. intros ND. rewrite add_rows_merge. apply merge_keys. exact ND. Qed.

Lemma replace_rows_get s o t : NoDup (keys o) ->
  aget t (replace_rows s o) =
  match aget t s with None => None | Some r => match aget t o with Some r' => Some r' | None => Some r end end.
Proof.
  intros ND. rewrite replace_rows_merge, merge_get by exact ND.
  destruct (aget t o), (aget t s); reflexivity.
Qed.

Lemma replace_rows_keys s o : NoDup (keys o) -> keys (replace_rows s o) = keys s.
Proof. intros ND. rewrite replace_rows_merge, merge_keys by exact ND. apply app_nil_r. Qed.

Lemma update_rows_get s o t : NoDup (keys o) ->
  aget t (update_rows s o) = match aget t o with Some r' => Some r' | None => aget t s end.
Proof.
  intros ND. rewrite update_rows_merge, merge_get by exact ND.
  destruct (aget t o), (aget t s); reflexivity.
Qed.

Lemma update_rows_keys s o : NoDup (keys o) ->
  keys (update_rows s o) = keys s ++ filter (fun t => negb (ahas t s)) (keys o).
Proof. intros ND. rewrite update_rows_merge. apply merge_keys. exact ND. Qed.

Lemma extend_rows_get b s o t : NoDup (keys o) ->
  aget t (extend_rows b s o) =
  match aget t s, aget t o with
  | Some r, Some r' => Some (r ++ r')
  | Some r, None => Some r
  | None, Some r' => if b then Some r' else None
  | None, None => None
  end.
Proof.
  intros ND. rewrite extend_rows_merge, merge_get by exact ND.
  destruct (aget t o), (aget t s); reflexivity.
Qed.

Lemma extend_rows_keys b s o : NoDup (keys o) ->
  keys (extend_rows b s o) = keys s ++ (if b then filter (fun t => negb (ahas t s)) (keys o) else []).
Proof. intros ND. rewrite extend_rows_merge. apply merge_keys. exact ND. Qed.

Lemma extend_matrix_rows_eq s o : extend_matrix_rows s o = extend_rows true s o.
Proof. rewrite extend_rows_merge. apply extend_matrix_rows_merge. Qed.

Lemma fill_taxa_rows_get T rs t : NoDup T ->
  aget t (fill_taxa_rows T rs) =
  match aget t rs with Some r => Some r | None => if memb t T then Some [] else None end.
Proof.
  intros ND. rewrite fill_taxa_rows_merge. rewrite merge_get; [|rewrite keys_const_map; exact ND].
  rewrite aget_const_map. destruct (memb t T), (aget t rs); reflexivity.
Qed.

Lemma fill_taxa_rows_keys T rs : NoDup T ->
  keys (fill_taxa_rows T rs) = keys rs ++ filter (fun t => negb (ahas t rs)) T.
Proof.
  intros ND. rewrite fill_taxa_rows_merge. rewrite merge_keys; [|rewrite keys_const_map; exact ND].
  rewrite keys_const_map. reflexivity.
Qed.

(* remove / discard / keep are filters on the key *)
Lemma filter_filter {A} (f g : A -> bool) l : filter f (filter g l) = filter (fun x => g x && f x) l.
Proof.
  induction l as [|x l IH]; simpl; [reflexivity|].
  destruct (g x); simpl; [destruct (f x); rewrite IH; reflexivity | exact IH].
Qed.

Definition without (ts : list tid) (rs : rows) : rows := filter (fun p => negb (memb (fst p) ts)) rs.

Lemma without_nil rs : without [] rs = rs.
Proof. apply filter_all_true. reflexivity. Qed.

Lemma without_cons t ts rs : without ts (without [t] rs) = without (t :: ts) rs.
Proof.
  unfold without. rewrite filter_filter. apply filter_ext. intros [k v]. simpl.
  rewrite orb_false_r. destruct (Z.eqb_spec k t); reflexivity.
Qed.

Lemma adel_without t rs : NoDup (keys rs) -> adel t rs = without [t] rs.
Proof.
  intros ND. rewrite adel_filter by exact ND. apply filter_ext. intros [k v]. simpl.
  rewrite orb_false_r. reflexivity.
Qed.

Lemma NoDup_without ts rs : NoDup (keys rs) -> NoDup (keys (without ts rs)).
Proof.
  intros ND. unfold without. rewrite (keys_filter_key (fun k => negb (memb k ts))). apply NoDup_filter. exact ND.
Qed.

Lemma without_absent t rs : ahas t rs = false -> without [t] rs = rs.
Proof.
  intros H. apply ahas_false in H. apply filter_all_true. intros [k v] Hin. simpl.
  rewrite orb_false_r. destruct (Z.eqb_spec k t); [|reflexivity]. subst. exfalso. apply H.
  change (In (fst (t, v)) (map fst rs)). apply in_map. exact Hin.
Qed.

Lemma discard_rows_spec : forall ts rs, NoDup (keys rs) -> discard_rows rs ts = without ts rs.
Proof.
  unfold discard_rows. induction ts as [|t ts IH]; intros rs ND; simpl.
  - symmetry. apply without_nil.
  - destruct (ahas t rs) eqn:H.
    + rewrite adel_without by exact ND. rewrite IH by (apply NoDup_without; exact ND). apply without_cons.
    + rewrite IH by exact ND. rewrite <- without_cons. rewrite without_absent by exact H. reflexivity.
Qed.

Lemma ahas_without t ts rs : ahas t (without ts rs) = negb (memb t ts) && ahas t rs.
Proof.
  unfold ahas, without. rewrite (aget_filter_key (fun k => negb (memb k ts))).
  destruct (memb t ts); simpl; [reflexivity|]. reflexivity.
Qed.

(* remove_sequences: deletes a prefix of the list; stops with KeyError at the first taxon that
   has no sequence (any more) *)
Lemma remove_rows_spec : forall ts rs, NoDup (keys rs) ->
  exists ts1 ts2, ts = ts1 ++ ts2 /\ NoDup ts1 /\ incl ts1 (keys rs) /\
    fst (remove_rows rs ts) = without ts1 rs /\
    match snd (remove_rows rs ts) with
    | None => ts2 = []
    | Some e => e = KeyErr /\ exists t ts3, ts2 = t :: ts3 /\ (In t ts1 \/ ~ In t (keys rs))
    end.
Proof.
  induction ts as [|t ts IH]; intros rs ND; simpl.
  - exists [], []. repeat split; [constructor | intros x [] | symmetry; apply without_nil].
  - destruct (ahas t rs) eqn:H.
    + destruct (IH (adel t rs)) as [ts1 [ts2 [E [N1 [I1 [F S]]]]]].
      { rewrite adel_without by exact ND. apply NoDup_without. exact ND. }
      rewrite adel_without in * by exact ND.
      assert (Hk : forall x, In x (keys (without [t] rs)) <-> x <> t /\ In x (keys rs)).
      { intros x. rewrite <- !ahas_In. rewrite ahas_without. simpl. rewrite orb_false_r.
        destruct (Z.eqb_spec x t); simpl; split; intros HH; try tauto; try discriminate. }
      exists (t :: ts1), ts2. split; [simpl; f_equal; exact E|].
      split; [constructor; [intro Hin; apply I1 in Hin; apply Hk in Hin; destruct Hin; congruence | exact N1]|].
      split; [intros x [Hx|Hx]; [subst; apply ahas_In; exact H | apply I1 in Hx; apply Hk in Hx; tauto]|].
      split; [rewrite F; apply without_cons|].
      destruct (snd (remove_rows (without [t] rs) ts)) as [e|]; [|exact S].
      destruct S as [Ee [t' [ts3 [E2 D]]]]. split; [exact Ee|]. exists t', ts3. split; [exact E2|].
      destruct D as [D|D]; [left; right; exact D|].
      destruct (Z.eq_dec t' t) as [Et|Et]; [left; left; symmetry; exact Et|].
      right. intro Hin. apply D. apply Hk. split; assumption.
    + exists [], (t :: ts). simpl. split; [reflexivity|]. split; [constructor|]. split; [intros x []|].
      split; [symmetry; apply without_nil|]. split; [reflexivity|]. exists t, ts. split; [reflexivity|].
      right. apply ahas_false. exact H.
Qed.

Lemma remove_rows_ok_iff ts rs : NoDup (keys rs) ->
  (snd (remove_rows rs ts) = None <-> NoDup ts /\ incl ts (keys rs)).
Proof.
  intros ND. destruct (remove_rows_spec ts rs ND) as [ts1 [ts2 [E [N1 [I1 [_ S]]]]]].
  split.
  - intros H. rewrite H in S. subst ts2. rewrite app_nil_r in E. subst. split; assumption.
  - intros [Nt It]. destruct (snd (remove_rows rs ts)) as [e|]; [|reflexivity]. exfalso.
    destruct S as [_ [t [ts3 [E2 D]]]]. subst ts2. subst ts.
    destruct D as [D|D].
    + apply NoDup_remove_2 in Nt. apply Nt. apply in_app_iff. left. exact D.
    + apply D. apply It. apply in_app_iff. right. left. reflexivity.
Qed.

Lemma keep_rows_get rs ts t : aget t (keep_rows rs ts) = if memb t ts then aget t rs else None.
Proof. unfold keep_rows. apply (aget_filter_key (fun k => memb k ts)). Qed.
