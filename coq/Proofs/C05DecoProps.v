(* C05, wave 6: what the decoration model writes (closed form for the default field names), lookups,
   frame, and the statements for the generated code *)
From Coq Require Import ZArith QArith Qabs Qreduction List Bool Lia String.
From DV Require Import Model.PyPrims Gen.BitFns Gen.Consts Model.C05Model Model.C05Spec Model.C05Model2
     Model.C05GenPrims Model.C05GenPrims2 Model.C05GenPrims4 Model.C05Model4 Gen.SplitDist Gen.SplitDistDeco
     Proofs.C05Lists Proofs.C05Freq Proofs.C05Trees Proofs.C05Stats Proofs.C05GenStats Proofs.C05GenDist
     Proofs.C05GenDist4 Proofs.C05GenScores Proofs.C05GenSumm Proofs.C05GenDeco.
Import ListNotations.
Open Scope Z_scope.

(* ---------------------------------------------------------------- string-keyed tables *)
Lemma sget_sset {V} k k' (v : V) l : sget k (sset k' v l) = if String.eqb k k' then Some v else sget k l.
Proof.
  induction l as [|[k2 v2] r IH]; simpl.
  - reflexivity.
  - destruct (String.eqb k' k2) eqn:E2; simpl.
    + apply String.eqb_eq in E2. subst k2. destruct (String.eqb k k'); reflexivity.
    + rewrite IH. destruct (String.eqb k k2) eqn:E; [|reflexivity].
      apply String.eqb_eq in E. subst k2. rewrite String.eqb_sym in E2. now rewrite E2.
Qed.

(* ---------------------------------------------------------------- decorate_with *)
(* field f written under its own name (the default), dynamically bound when both flags are set *)
Definition dw (f : string) (t : deco) (v : dval) (sa sn : bool) : deco := decorate_with (mkFn f f true) t v sa sn.

Lemma attrs_dw f t v sa sn : dc_attrs (dw f t v sa sn) = if sa then sset f v (dc_attrs t) else dc_attrs t.
Proof. unfold dw, decorate_with. destruct sa, sn; reflexivity. Qed.

(* the annotation _decorate leaves for a field: bound to the attribute when the attribute was set *)
Definition the_annot (f : string) (v : dval) (sa : bool) : annot :=
  if sa then mkAnn f (Some f) None else mkAnn f None (Some v).

Lemma annots_dw f t v sa sn :
  dc_annots (dw f t v sa sn)
  = if sn then filter (fun a => negb (String.eqb (an_name a) f)) (dc_annots t) ++ [the_annot f v sa] else dc_annots t.
Proof. unfold dw, decorate_with, the_annot. destruct sa, sn; reflexivity. Qed.

Lemma sget_dw k f t v sa sn :
  sget k (dc_attrs (dw f t v sa sn)) = if sa && String.eqb k f then Some v else sget k (dc_attrs t).
Proof. rewrite attrs_dw. destruct sa; [|reflexivity]. now rewrite sget_sset. Qed.

(* annotations called k after writing field f *)
Definition named (k : string) (l : list annot) : list annot := filter (fun a => String.eqb (an_name a) k) l.

Lemma named_dw k f t v sa sn :
  named k (dc_annots (dw f t v sa sn))
  = if sn && String.eqb k f then [the_annot f v sa] else named k (dc_annots t).
Proof.
  rewrite annots_dw. destruct sn; [|reflexivity]. cbn [andb]. unfold named. rewrite filter_app.
  assert (N : an_name (the_annot f v sa) = f) by (unfold the_annot; destruct sa; reflexivity).
  cbn [filter]. rewrite N. rewrite (String.eqb_sym f k).
  destruct (String.eqb k f) eqn:E.
  - apply String.eqb_eq in E. subst k.
    replace (filter (fun a => String.eqb (an_name a) f) (filter (fun a => negb (String.eqb (an_name a) f)) (dc_annots t)))
      with (@nil annot); [reflexivity|].
    induction (dc_annots t) as [|a r IH]; [reflexivity|]. cbn [filter].
    destruct (String.eqb (an_name a) f) eqn:Ea; cbn [negb filter]; [exact IH | rewrite Ea; exact IH].
  - rewrite app_nil_r. induction (dc_annots t) as [|a r IH]; [reflexivity|]. cbn [filter].
    destruct (String.eqb (an_name a) f) eqn:Ea; cbn [negb filter].
    + apply String.eqb_eq in Ea. rewrite Ea. rewrite String.eqb_sym, E. exact IH.
    + destruct (String.eqb (an_name a) k); [now rewrite IH | exact IH].
Qed.

(* ---------------------------------------------------------------- configure with default names *)
Lemma decorate_default kw t f v sa sn : kw_dyn kw = [] -> In f all_fields ->
  decorate (configure kw) t f v sa sn = Ok (dw f t v sa sn).
Proof.
  intros E I. destruct kw as [k1 k2 k3 k4 k5 k6 k7 k8 k9 k10 k11 k12 k13 kd]. cbn [kw_dyn] in E. subst kd.
  unfold decorate, py_getattr_str, py_getattr_truth, configure. cbn [d_dyn].
  unfold dw.
  assert (X : forall nm, decorate_with (mkFn (fn_attr nm) (fn_annot nm) false) t v sa sn
                         = if sa && sn then decorate_with (mkFn (fn_attr nm) (fn_annot nm) false) t v sa sn
                           else decorate_with (mkFn (fn_attr nm) (fn_annot nm) true) t v sa sn).
  { intro nm. unfold decorate_with. destruct sa, sn; reflexivity. }
  vm_compute in I.
  repeat (destruct I as [<- | I];
          [vm_compute (sget _ _); cbn [bind]; destruct (sa && sn) eqn:B; cbn [bind];
           [destruct sa, sn; try discriminate B; reflexivity | destruct sa, sn; try discriminate B; reflexivity] |]).
  contradiction.
Qed.

(* the six statistics fields under a prefix *)
Definition write_stats (prefix : string) (tbl : list (Z * summary)) (nodata : list (string * dval)) (s : Z)
           (sa sn : bool) (t : deco) : deco :=
  fold_left (fun t st => dw (prefix ++ st) t (field_value tbl nodata s st) sa sn) stats_fields t.

Lemma decorate_fields_default kw tbl s sa sn prefix t : kw_dyn kw = [] ->
  prefix = "age_"%string \/ prefix = "length_"%string ->
  decorate_fields (configure kw) tbl s sa sn (zip (map (fun f => (prefix ++ f)%string) stats_fields) stats_fields) t
  = Ok (write_stats prefix tbl (d_no_data_values (configure kw)) s sa sn t).
Proof.
  intros E P. unfold write_stats, stats_fields. cbn [map zip decorate_fields fold_left].
  assert (I : forall st, In st stats_fields -> In (prefix ++ st)%string all_fields).
  { intros st H. destruct P; subst prefix; vm_compute in H |- *; intuition (subst; tauto). }
  repeat (rewrite (decorate_default kw _ _ _ sa sn E) by (apply I; vm_compute; tauto); cbn [bind]).
  reflexivity.
Qed.

Definition kw_opts (kw : skw) : dopts := configure kw.

(* closed form of one node under default field names *)
Theorem deco_node_closed kw ftbl lsum asum n : kw_dyn kw = [] ->
  let o := configure kw in
  let s := dn_split n in
  let sup := support_of ftbl (d_sopts o) s in
  deco_node o ftbl lsum asum n =
  bind (if truthy (d_set_support_as_node_label o) then bind (label_of o sup) (fun l => Ok (Some l)) else Ok (dn_label n))
       (fun lb =>
  Ok (mkDn s
        (let nd := dw "support" (dn_node n) (DFloat sup) (d_add_support_as_node_attribute o) (d_add_support_as_node_annotation o) in
         if (d_add_node_age_summaries_as_node_attributes o || d_add_node_age_summaries_as_node_annotations o) && nonempty asum
         then write_stats "age_" asum (d_no_data_values o) s (d_add_node_age_summaries_as_node_attributes o)
                          (d_add_node_age_summaries_as_node_annotations o) nd
         else nd)
        (if (d_add_edge_length_summaries_as_edge_attributes o || d_add_edge_length_summaries_as_edge_annotations o) && nonempty lsum
         then write_stats "length_" lsum (d_no_data_values o) s (d_add_edge_length_summaries_as_edge_attributes o)
                          (d_add_edge_length_summaries_as_edge_annotations o) (dn_edge n)
         else dn_edge n)
        lb)).
Proof.
  intros E o s sup. unfold deco_node. fold o. fold s. fold sup.
  unfold o at 1. rewrite (decorate_default kw _ "support" _ _ _ E) by (vm_compute; tauto). cbn [bind].
  fold o.
  destruct (if truthy (d_set_support_as_node_label o) then _ else _) as [lb| |]; cbn [bind]; try reflexivity.
  change (d_node_age_summaries_fieldnames o) with (map (fun f => ("age_" ++ f)%string) stats_fields).
  change (d_edge_length_summaries_fieldnames o) with (map (fun f => ("length_" ++ f)%string) stats_fields).
  change (d_summary_stats_fieldnames o) with stats_fields.
  unfold o at 3 8.
  rewrite !(decorate_fields_default kw _ _ _ _ _ _ E) by tauto.
  fold o.
  destruct ((d_add_node_age_summaries_as_node_attributes o || d_add_node_age_summaries_as_node_annotations o) && nonempty asum);
    destruct ((d_add_edge_length_summaries_as_edge_attributes o || d_add_edge_length_summaries_as_edge_annotations o) && nonempty lsum);
    reflexivity.
Qed.

(* ---------------------------------------------------------------- what is written under which name *)
Ltac seqb :=
  repeat match goal with
         | |- context [String.eqb ?a ?b] =>
           let r := eval vm_compute in (String.eqb a b) in
           match r with true => change (String.eqb a b) with true | false => change (String.eqb a b) with false end
         end.

(* the statistics field a name stands for under a prefix *)
Definition stat_of (prefix k : string) : option string :=
  find (fun st => String.eqb k (prefix ++ st)) stats_fields.

Lemma sget_write_stats k prefix tbl nodata s sa sn t :
  prefix = "age_"%string \/ prefix = "length_"%string ->
  sget k (dc_attrs (write_stats prefix tbl nodata s sa sn t))
  = match (if sa then stat_of prefix k else None) with
    | Some st => Some (field_value tbl nodata s st)
    | None => sget k (dc_attrs t)
    end.
Proof.
  intro P. unfold write_stats, stat_of, stats_fields. cbn [fold_left find]. rewrite !sget_dw.
  destruct sa; cbn [andb]; [|reflexivity].
  destruct P; subst prefix;
    repeat match goal with
           | |- context [String.eqb k ?x] =>
             lazymatch x with
             | context [k] => fail
             | _ => destruct (String.eqb_spec k x) as [-> | _]; [seqb; reflexivity |]
             end
           end; reflexivity.
Qed.

Lemma named_write_stats k prefix tbl nodata s sa sn t :
  prefix = "age_"%string \/ prefix = "length_"%string ->
  named k (dc_annots (write_stats prefix tbl nodata s sa sn t))
  = match (if sn then stat_of prefix k else None) with
    | Some st => [the_annot (prefix ++ st) (field_value tbl nodata s st) sa]
    | None => named k (dc_annots t)
    end.
Proof.
  intro P. unfold write_stats, stat_of, stats_fields. cbn [fold_left find]. rewrite !named_dw.
  destruct sn; cbn [andb]; [|reflexivity].
  destruct P; subst prefix;
    repeat match goal with
           | |- context [String.eqb k ?x] =>
             lazymatch x with
             | context [k] => fail
             | _ => destruct (String.eqb_spec k x) as [-> | _]; [seqb; reflexivity |]
             end
           end; reflexivity.
Qed.

(* the complete description of a decorated node (default field names): for EVERY name k the attribute
   called k and the annotations called k, on the node object and on the edge object; the label *)
Definition node_attr_spec (o : dopts) (asum : list (Z * summary)) (s : Z) (sup : Q) (before : deco) (k : string) : option dval :=
  match (if d_add_node_age_summaries_as_node_attributes o && nonempty asum then stat_of "age_" k else None) with
  | Some st => Some (field_value asum (d_no_data_values o) s st)
  | None => if d_add_support_as_node_attribute o && String.eqb k "support" then Some (DFloat sup) else sget k (dc_attrs before)
  end.

Definition node_annot_spec (o : dopts) (asum : list (Z * summary)) (s : Z) (sup : Q) (before : deco) (k : string) : list annot :=
  match (if d_add_node_age_summaries_as_node_annotations o && nonempty asum then stat_of "age_" k else None) with
  | Some st => [the_annot ("age_" ++ st) (field_value asum (d_no_data_values o) s st) (d_add_node_age_summaries_as_node_attributes o)]
  | None => if d_add_support_as_node_annotation o && String.eqb k "support"
            then [the_annot "support" (DFloat sup) (d_add_support_as_node_attribute o)]
            else named k (dc_annots before)
  end.

Definition edge_attr_spec (o : dopts) (lsum : list (Z * summary)) (s : Z) (before : deco) (k : string) : option dval :=
  match (if d_add_edge_length_summaries_as_edge_attributes o && nonempty lsum then stat_of "length_" k else None) with
  | Some st => Some (field_value lsum (d_no_data_values o) s st)
  | None => sget k (dc_attrs before)
  end.

Definition edge_annot_spec (o : dopts) (lsum : list (Z * summary)) (s : Z) (before : deco) (k : string) : list annot :=
  match (if d_add_edge_length_summaries_as_edge_annotations o && nonempty lsum then stat_of "length_" k else None) with
  | Some st => [the_annot ("length_" ++ st) (field_value lsum (d_no_data_values o) s st) (d_add_edge_length_summaries_as_edge_attributes o)]
  | None => named k (dc_annots before)
  end.

Lemma stat_of_not_support : stat_of "age_" "support" = None.
Proof. reflexivity. Qed.

Theorem deco_node_spec kw ftbl lsum asum n n' : kw_dyn kw = [] ->
  let o := configure kw in
  let s := dn_split n in
  let sup := support_of ftbl (d_sopts o) s in
  deco_node o ftbl lsum asum n = Ok n' ->
  dn_split n' = s /\
  (forall k, sget k (dc_attrs (dn_node n')) = node_attr_spec o asum s sup (dn_node n) k) /\
  (forall k, named k (dc_annots (dn_node n')) = node_annot_spec o asum s sup (dn_node n) k) /\
  (forall k, sget k (dc_attrs (dn_edge n')) = edge_attr_spec o lsum s (dn_edge n) k) /\
  (forall k, named k (dc_annots (dn_edge n')) = edge_annot_spec o lsum s (dn_edge n) k) /\
  (truthy (d_set_support_as_node_label o) = false -> dn_label n' = dn_label n) /\
  (truthy (d_set_support_as_node_label o) = true -> exists l, label_of o sup = Ok l /\ dn_label n' = Some l).
Proof.
  intros E o s sup H. unfold o, s, sup in H. rewrite (deco_node_closed kw ftbl lsum asum n E) in H.
  fold o in H. fold s in H. fold sup in H. cbv zeta in H. clearbody sup. clearbody o.
  destruct (if truthy (d_set_support_as_node_label o) then _ else _) as [lb| |] eqn:L; cbn [bind] in H; try discriminate H.
  injection H as H'. subst n'. cbn [dn_split dn_node dn_edge dn_label].
  split; [reflexivity|].
  assert (PA : "age_"%string = "age_"%string \/ "age_"%string = "length_"%string) by (left; reflexivity).
  assert (PL : "length_"%string = "age_"%string \/ "length_"%string = "length_"%string) by (right; reflexivity).
  split; [|split; [|split; [|split; [|split]]]].
  - intro k. unfold node_attr_spec.
    destruct (d_add_node_age_summaries_as_node_attributes o) eqn:AA; destruct (nonempty asum) eqn:NA; cbn [orb andb].
    + rewrite (sget_write_stats k _ _ _ _ _ _ _ PA). destruct (stat_of "age_" k); [reflexivity|]. apply sget_dw.
    + rewrite ?andb_false_r. apply sget_dw.
    + destruct (d_add_node_age_summaries_as_node_annotations o); cbn [andb].
      * rewrite (sget_write_stats k _ _ _ _ _ _ _ PA). apply sget_dw.
      * apply sget_dw.
    + rewrite ?andb_false_r. apply sget_dw.
  - intro k. unfold node_annot_spec.
    destruct (d_add_node_age_summaries_as_node_annotations o) eqn:AN; destruct (nonempty asum) eqn:NA; cbn [orb andb].
    + rewrite ?orb_true_r. cbn [andb]. rewrite (named_write_stats k _ _ _ _ _ _ _ PA).
      destruct (stat_of "age_" k); [reflexivity|]. apply named_dw.
    + rewrite ?andb_false_r. apply named_dw.
    + rewrite ?orb_false_r. destruct (d_add_node_age_summaries_as_node_attributes o); cbn [andb].
      * rewrite (named_write_stats k _ _ _ _ _ _ _ PA). apply named_dw.
      * apply named_dw.
    + rewrite ?andb_false_r. apply named_dw.
  - intro k. unfold edge_attr_spec.
    destruct (d_add_edge_length_summaries_as_edge_attributes o) eqn:AA; destruct (nonempty lsum) eqn:NA; cbn [orb andb].
    + rewrite (sget_write_stats k _ _ _ _ _ _ _ PL). reflexivity.
    + rewrite ?andb_false_r. reflexivity.
    + destruct (d_add_edge_length_summaries_as_edge_annotations o); cbn [andb]; [|reflexivity].
      rewrite (sget_write_stats k _ _ _ _ _ _ _ PL). reflexivity.
    + rewrite ?andb_false_r. reflexivity.
  - intro k. unfold edge_annot_spec.
    destruct (d_add_edge_length_summaries_as_edge_annotations o) eqn:AN; destruct (nonempty lsum) eqn:NA; cbn [orb andb].
    + rewrite ?orb_true_r. cbn [andb]. rewrite (named_write_stats k _ _ _ _ _ _ _ PL). reflexivity.
    + rewrite ?andb_false_r. reflexivity.
    + rewrite ?orb_false_r. destruct (d_add_edge_length_summaries_as_edge_attributes o); cbn [andb]; [|reflexivity].
      rewrite (named_write_stats k _ _ _ _ _ _ _ PL). reflexivity.
    + rewrite ?andb_false_r. reflexivity.
  - intro T. rewrite T in L. now inversion L.
  - intro T. rewrite T in L. destruct (label_of o sup) as [l| |]; cbn [bind] in L; try discriminate L.
    inversion L. exists l. split; reflexivity.
Qed.

(* ---------------------------------------------------------------- the generated code *)
Lemma mapM_Forall2 {A B} (f : A -> res B) l l' : mapM f l = Ok l' -> Forall2 (fun a b => f a = Ok b) l l'.
Proof.
  revert l'. induction l as [|x r IH]; intros l' H; simpl in H.
  - inversion H. constructor.
  - destruct (f x) as [y| |] eqn:E; cbn [bind] in H; try discriminate H.
    destruct (mapM f r) as [ys| |]; cbn [bind] in H; try discriminate H.
    inversion H. constructor; [exact E | now apply IH].
Qed.

Lemma Forall2_imp {A B} (R S : A -> B -> Prop) l l' : (forall a b, R a b -> S a b) -> Forall2 R l l' -> Forall2 S l l'.
Proof. intros H F. induction F; constructor; auto. Qed.

Lemma support_exact c ts o s :
  (forall t, In t ts -> NoDup (splits_of t)) ->
  (support_of (snd (get_freqs (count_trees c sd_empty ts))) o s
   == (if o_percent o then 100 else 1) * exact_freq c ts s)%Q.
Proof.
  intro ND. set (d := count_trees c sd_empty ts).
  pose proof (rep_counted c ts) as R. pose proof (counted_cache c ts) as C. fold d in R, C.
  assert (V : (aget_d s 0%Q (snd (get_freqs d)) == exact_freq c ts s)%Q).
  { rewrite (get_freqs_val c d ts s R C). now apply exact_freq_m_nodup. }
  unfold support_of. destruct (o_percent o).
  - rewrite qmult_eq, V. ring.
  - rewrite V. ring.
Qed.

(* THE PROPERTY on the generated decoration view, default field names, every other option free *)
Theorem gen_decorations_exact_l c ts kw x t b x' outs :
  kw_dyn kw = [] ->
  x_sd x = count_trees c sd_empty ts ->
  (forall t0, In t0 ts -> NoDup (splits_of t0)) ->
  ignore_len c = false -> ignore_ages c = false ->
  x_counted_for_summ x <> total (x_sd x) ->
  gen_decoration_view c (gen_configure kw) x t b = Ok (x', outs) ->
  let o := gen_configure kw in
  let lsum := calc_summaries (elens (count_trees c sd_empty ts)) in
  let asum := calc_summaries (nages (count_trees c sd_empty ts)) in
  Forall2 (fun n n' =>
     dn_split n' = dn_split n /\
     exists sup : Q,
       (sup == (if d_support_as_percentages o then 100 else 1) * exact_freq c ts (dn_split n))%Q /\
       (forall k, sget k (dc_attrs (dn_node n')) = node_attr_spec o asum (dn_split n) sup (dn_node n) k) /\
       (forall k, named k (dc_annots (dn_node n')) = node_annot_spec o asum (dn_split n) sup (dn_node n) k) /\
       (forall k, sget k (dc_attrs (dn_edge n')) = edge_attr_spec o lsum (dn_split n) (dn_edge n) k) /\
       (forall k, named k (dc_annots (dn_edge n')) = edge_annot_spec o lsum (dn_split n) (dn_edge n) k) /\
       (truthy (d_set_support_as_node_label o) = false -> dn_label n' = dn_label n) /\
       (truthy (d_set_support_as_node_label o) = true -> exists l, label_of o sup = Ok l /\ dn_label n' = Some l))
    t outs.
Proof.
  intros E Ex ND IL IA NE G o lsum asum.
  assert (N1 : NoDup (keys (counts (x_sd x)))) by (rewrite Ex; apply (rep_nodup _ _ _ (rep_counted c ts))).
  assert (N2 : NoDup (keys (elens (x_sd x)))).
  { rewrite Ex. destruct (elens_exact_gen c ts IL sd_empty 0) as [_ X]; [constructor | exact X]. }
  assert (N3 : NoDup (keys (nages (x_sd x)))).
  { rewrite Ex. destruct (nages_exact_gen c ts IA sd_empty 0) as [_ X]; [constructor | exact X]. }
  pose proof (gen_decoration_view_eq c (gen_configure kw) x t b N1 N2 N3 NE) as M.
  unfold deco_tree in M. rewrite Ex in M. fold lsum asum in M.
  pose proof (support_exact c ts (d_sopts o)) as SE.
  destruct (get_freqs (count_trees c sd_empty ts)) as [d1 ftbl]. cbn [fst snd] in M, SE.
  destruct (mapM (deco_node (gen_configure kw) ftbl lsum asum) t) as [outs0| |] eqn:MM;
    [| rewrite M in G; discriminate | contradiction].
  destruct M as [x2 [M1 _]]. rewrite M1 in G. inversion G. subst outs0 x2. clear G M1.
  apply mapM_Forall2 in MM. unfold o. rewrite gen_configure_eq in *.
  eapply Forall2_imp; [|exact MM]. intros n n' H. cbv beta in H.
  destruct (deco_node_spec kw ftbl lsum asum n n' E H) as [H1 [H2 [H3 [H4 [H5 [H6 H7]]]]]].
  split; [exact H1|]. eexists. split; [apply (SE (dn_split n) ND)|].
  repeat split; assumption.
Qed.

(* the values written under the length_* names are statistics.summarize of the lengths of EXACTLY
   the trees containing the split, in counting order (ages likewise); a split no summary exists for
   gets the no-data values *)
Theorem deco_length_values_l c ts s xs :
  ignore_len c = false ->
  all_some (values_of (rec_len c) s ts) = Some xs -> xs <> [] ->
  exists sm, summarize xs = Ok sm /\
    forall nodata,
      let fv := field_value (calc_summaries (elens (count_trees c sd_empty ts))) nodata s in
      fv "mean"%string = DFloat (s_mean sm) /\ fv "median"%string = DFloat (s_median sm) /\
      fv "sd"%string = DSqrt (s_var sm) /\ fv "range"%string = DPair (s_min sm) (s_max sm) /\
      fv "hpd95"%string = DOpaque "hpd95" /\ fv "quant_5_95"%string = DOpaque "quant_5_95".
Proof.
  intros I A NE. destruct (length_summary_exact_l c ts s xs I A NE) as [sm [G S]].
  exists sm. split; [exact S|]. intros nodata fv. unfold fv, field_value. rewrite G.
  repeat split; reflexivity.
Qed.

Theorem deco_age_values_l c ts s xs :
  ignore_ages c = false ->
  all_some (values_of r_age s ts) = Some xs -> xs <> [] ->
  exists sm, summarize xs = Ok sm /\
    forall nodata,
      let fv := field_value (calc_summaries (nages (count_trees c sd_empty ts))) nodata s in
      fv "mean"%string = DFloat (s_mean sm) /\ fv "median"%string = DFloat (s_median sm) /\
      fv "sd"%string = DSqrt (s_var sm) /\ fv "range"%string = DPair (s_min sm) (s_max sm) /\
      fv "hpd95"%string = DOpaque "hpd95" /\ fv "quant_5_95"%string = DOpaque "quant_5_95".
Proof.
  intros I A NE. destruct (age_summary_exact_l c ts s xs I A NE) as [sm [G S]].
  exists sm. split; [exact S|]. intros nodata fv. unfold fv, field_value. rewrite G.
  repeat split; reflexivity.
Qed.

(* a split that occurs in no counted tree: no-data values 0.0 / [] *)
Theorem deco_no_data_values_l c ts s kw :
  ignore_len c = false -> values_of (rec_len c) s ts = [] ->
  let fv := field_value (calc_summaries (elens (count_trees c sd_empty ts))) (d_no_data_values (gen_configure kw)) s in
  fv "mean"%string = DFloat 0 /\ fv "median"%string = DFloat 0 /\ fv "sd"%string = DFloat 0 /\
  fv "range"%string = DEmptyList /\ fv "hpd95"%string = DEmptyList /\ fv "quant_5_95"%string = DEmptyList.
Proof.
  intros I V fv.
  destruct (elens_exact_gen c ts I sd_empty s) as [W ND]; [constructor|].
  assert (G : aget s (calc_summaries (elens (count_trees c sd_empty ts))) = None).
  { rewrite calc_summaries_get by assumption. unfold aget_d in W. cbn [elens sd_empty aget app] in W. rewrite V in W.
    destruct (aget s (elens (count_trees c sd_empty ts))) as [l|]; [subst l|]; reflexivity. }
  unfold fv, field_value. rewrite G, gen_configure_eq. repeat split; reflexivity.
Qed.

(* satisfiability: three trees, default options, label with 2 decimals *)
Definition ex_rec (s : Z) (l : Q) := mkRec s (Some l) None.
Definition ex_t1 : tree_in := mkTree [ex_rec 1 1; ex_rec 2 1; ex_rec 3 1; ex_rec 4 2; ex_rec 7 0] None (Some true) 7.
Definition ex_t2 : tree_in := mkTree [ex_rec 1 1; ex_rec 4 1; ex_rec 5 3; ex_rec 2 2; ex_rec 7 0] None (Some true) 7.
Definition ex_cfg : config := mkCfg false false true (Some 0%Q).
Definition ex_kw : skw := mkSkw None None None (Some (Some true)) None None None None (Some 2) None None None None [].
Definition ex_x : sdx := mkSdx (count_trees ex_cfg sd_empty [ex_t1; ex_t1; ex_t2]) None None 0.
Definition ex_target : list dnode := map (fun s => mkDn s deco_empty deco_empty None) [7; 3; 1; 2; 4].

Example ex_decoration_view :
  exists x' outs, gen_decoration_view ex_cfg (gen_configure ex_kw) ex_x ex_target false = Ok (x', outs) /\
    map dn_label outs = [Some (LStr "1.00"); Some (LStr "0.67"); Some (LStr "1.00"); Some (LStr "1.00"); Some (LStr "1.00")] /\
    map (fun n => sget "support" (dc_attrs (dn_node n))) outs
      = [Some (DFloat 1); Some (DFloat (2 # 3)); Some (DFloat 1); Some (DFloat 1); Some (DFloat 1)] /\
    map (fun n => sget "length_mean" (dc_attrs (dn_edge n))) outs
      = [Some (DFloat 0); Some (DFloat 1); Some (DFloat 1); Some (DFloat (4 # 3)); Some (DFloat (5 # 3))].
Proof. vm_compute. eexists. eexists. repeat split. Qed.

(* ---------------------------------------------------------------- the rounding primitive of labels *)
Lemma round_half_even_spec x :
  let n := round_half_even x in
  let a := Qnum x in let b := Zpos (Qden x) in
  2 * Z.abs (n * b - a) <= b /\ (2 * Z.abs (n * b - a) = b -> Z.even n = true).
Proof.
  unfold round_half_even. cbv zeta. set (a := Qnum x). set (b := Zpos (Qden x)).
  assert (Bp : 0 < b) by (unfold b; lia).
  pose proof (Z.div_mod a b ltac:(lia)) as DM. pose proof (Z.mod_pos_bound a b Bp) as MB.
  destruct (Z.compare_spec (2 * (a mod b)) b) as [E|L|G].
  - destruct (Z.even (a / b)) eqn:Ev.
    + split; [nia | intros _; exact Ev].
    + split; [nia|]. intros _. rewrite Z.even_add, Ev. reflexivity.
  - split; [nia | intro H; nia].
  - split; [nia | intro H; nia].
Qed.
