(* C15: Node.apply - the generated two-state machine (outer stack loop, inner climbing loop)
   emits exactly the bracket sequence of the start node's subtree, for every start node. *)
From Coq Require Import ZArith List Bool Arith Lia.
From DV Require Import Model.PyPrims Model.Tree Model.C15Prims Gen.Traversals Model.C15Model Proofs.C15Base.
Import ListNotations.
Open Scope nat_scope.

Lemma nat_list_eqb_refl (l : list nat) : list_eqb Nat.eqb l l = true.
Proof. apply (list_eqb_eq Nat.eqb); [intros; apply Nat.eqb_eq | reflexivity]. Qed.

Lemma l_is_same_path a b : l_path a = l_path b -> l_is a b = true.
Proof. unfold l_is. intros ->. apply nat_list_eqb_refl. Qed.

Lemma l_is_length a b : length (snd a) <> length (snd b) -> l_is a b = false.
Proof.
  intro H. unfold l_is. destruct (list_eqb Nat.eqb (l_path a) (l_path b)) eqn:Eq; [|reflexivity].
  apply (list_eqb_eq Nat.eqb) in Eq; [|intros; apply Nat.eqb_eq].
  exfalso. apply H. unfold l_path in Eq. apply (f_equal (@length nat)) in Eq. rewrite !map_length in Eq. exact Eq.
Qed.

Lemma l_kids_from_app j t c a b :
  l_kids_from j t c (a ++ b) = l_kids_from j t c a ++ l_kids_from (j + length a) t c b.
Proof.
  revert j. induction a as [|k r IH]; intro j; simpl.
  - rewrite Nat.add_0_r. reflexivity.
  - rewrite IH. replace (j + S (length r)) with (S j + length r) by lia. reflexivity.
Qed.

Lemma l_kids_last p (c : list (tree * nat)) pre kl :
  t_kids p = pre ++ [kl] -> py_index (l_kids (p, c)) (-1) = Some (kl, (p, length pre) :: c).
Proof.
  intro H. unfold l_kids. simpl fst. simpl snd. rewrite H, l_kids_from_app. simpl l_kids_from.
  apply py_index_last.
Qed.

Lemma cb_next {St ev : Type} (cb : option (lnode -> ev)) (s : St) (m : lnode) :
  match cb with Some g => SNext s ([] ++ [g m]) | None => SNext s [] end
  = SNext s (match cb with Some g => [g m] | None => [] end).
Proof. destruct cb; reflexivity. Qed.

Ltac gsimp := cbn [gnode gedge attr_child_nodes attr_parent_node attr_edge attr_head_node attr_age obj_is LGE LG] in *.

Section Apply.
  Context {E : Type} (eo : lnode -> E) (hd : E -> lnode) (age : lnode -> Z).
  Notation G := (LGE E eo hd age).
  Context {ev : Type} (bf af lf : option (lnode -> ev)).
  Variable ts : tree.
  Variable us : ctx.
  Notation self := (ts, us).
  Notation step := (Node_apply_step G bf af lf self).
  Notation S0 := (Node_apply_S0 G).
  Notation S1 := (Node_apply_S1 G).
  Notation emit := (cb_emit bf af lf).

  Definition wf_frames (fr : ctx) : Prop := Forall (fun pj => snd pj < length (t_kids (fst pj))) fr.

  (* the ancestors closed while climbing from a node whose frames below the start node are fr *)
  Fixpoint climb (fr : ctx) : list lnode :=
    match fr with
    | [] => []
    | (p, j) :: r => if Nat.eqb (S j) (length (t_kids p)) then (p, r ++ us) :: climb r else []
    end.

  Lemma climb_cons p j r :
    climb ((p, j) :: r) = if Nat.eqb (S j) (length (t_kids p)) then (p, r ++ us) :: climb r else [].
  Proof. reflexivity. Qed.

  Definition afters (l : list lnode) : list ev := flat_map (fun m => emit (After m)) l.

  Lemma inner : forall fr (t : tree) (stack : list lnode) fuel, wf_frames fr ->
    run step (S (length (climb fr)) + fuel) (S1 stack (t, fr ++ us))
    = gprepend (afters (climb fr)) (run step fuel (S0 stack)).
  Proof.
    induction fr as [|[p j] r IH]; intros t stack fuel Hwf.
    - simpl app. simpl climb. simpl length. rewrite Nat.add_succ_l, run_S.
      unfold Node_apply_step. cbv beta iota zeta.
      change (obj_is G (t, us) self) with (l_is (t, us) self).
      rewrite l_is_same_path by reflexivity. simpl negb. cbv iota.
      simpl. rewrite gprepend_nil. reflexivity.
    - inversion Hwf as [|? ? Hj Hr]; subst. simpl in Hj.
      destruct (exists_last (l := t_kids p)) as [pre [kl Ek]].
      { intro H0. rewrite H0 in Hj. simpl in Hj. lia. }
      simpl app. rewrite Nat.add_succ_l, run_S.
      unfold Node_apply_step at 1. cbv beta iota zeta.
      change (obj_is G (t, (p, j) :: r ++ us) self) with (l_is (t, (p, j) :: r ++ us) self).
      rewrite l_is_length by (simpl; rewrite app_length; lia). simpl negb. cbv iota.
      change (attr_parent_node G (t, (p, j) :: r ++ us)) with (Some (p, r ++ us)). cbv iota.
      gsimp.
      rewrite (l_kids_last p (r ++ us) pre kl Ek). cbv iota.
      change (obj_is G (kl, (p, length pre) :: r ++ us) (t, (p, j) :: r ++ us))
        with (l_is (kl, (p, length pre) :: r ++ us) (t, (p, j) :: r ++ us)).
      assert (Eis : l_is (kl, (p, length pre) :: r ++ us) (t, (p, j) :: r ++ us)
                    = Nat.eqb (S j) (length (t_kids p))).
      { unfold l_is, l_path. simpl map. simpl list_eqb. rewrite nat_list_eqb_refl, andb_true_r.
        rewrite Ek, app_length. simpl length.
        destruct (Nat.eqb_spec (length pre) j), (Nat.eqb_spec (S j) (length pre + 1)); try reflexivity; lia. }
      rewrite Eis, climb_cons.
      destruct (Nat.eqb (S j) (length (t_kids p))) eqn:Elast.
      + cbv iota. simpl length. rewrite cb_next.
        rewrite (IH p stack fuel Hr), gprepend_app. reflexivity.
      + cbv iota. simpl. rewrite gprepend_nil. reflexivity.
  Qed.

  Definition brk (n : lnode) : list ev := flat_map emit (lbrackets n).

  Lemma brk_leaf n : l_is_leaf n = true -> brk n = emit (Leaf n).
  Proof. intro H. unfold brk. rewrite lbrackets_unfold, H. simpl. rewrite app_nil_r. reflexivity. Qed.

  Lemma brk_internal n :
    l_is_leaf n = false -> brk n = emit (Before n) ++ flat_map brk (l_kids n) ++ emit (After n).
  Proof.
    intro H. unfold brk. rewrite lbrackets_unfold, H. simpl flat_map.
    rewrite flat_map_app. simpl flat_map. rewrite app_nil_r.
    f_equal. f_equal. induction (l_kids n) as [|k r IH]; [reflexivity|].
    simpl flat_map. rewrite flat_map_app, IH. reflexivity.
  Qed.

  Definition node_ok (t : tree) : Prop :=
    forall fr (stack : list lnode) fuel, wf_frames fr ->
      run step (2 * size t + length (climb fr) + fuel) (S0 (stack ++ [(t, fr ++ us)]))
      = gprepend (brk (t, fr ++ us) ++ afters (climb fr)) (run step fuel (S0 stack)).

  (* the children pushed by one internal node, from index j on (a non-empty suffix) *)
  Lemma kids_run t fr : wf_frames fr -> forall r k pre,
    t_kids t = pre ++ k :: r -> Forall node_ok (k :: r) ->
    forall (stack : list lnode) fuel,
      run step (2 * sizes (k :: r) + S (length (climb fr)) + fuel)
          (S0 (stack ++ rev (l_kids_from (length pre) t (fr ++ us) (k :: r))))
      = gprepend (flat_map brk (l_kids_from (length pre) t (fr ++ us) (k :: r))
                  ++ emit (After (t, fr ++ us)) ++ afters (climb fr))
                 (run step fuel (S0 stack)).
  Proof.
    intros Hwf. induction r as [|k2 r IH]; intros k pre Ek Hok stack fuel.
    - inversion Hok as [|? ? Hk _]; subst.
      simpl l_kids_from. simpl rev. simpl app at 2.
      assert (Hwf' : wf_frames ((t, length pre) :: fr)).
      { constructor; [|exact Hwf]. simpl. rewrite Ek, app_length. simpl. lia. }
      pose proof (Hk ((t, length pre) :: fr) stack fuel Hwf') as R.
      rewrite climb_cons in R. replace (Nat.eqb (S (length pre)) (length (t_kids t))) with true in R.
      2:{ symmetry. apply Nat.eqb_eq. rewrite Ek, app_length. simpl. lia. }
      simpl length in R. simpl app in R.
      rewrite sizes_cons. unfold sizes at 1. simpl fold_right.
      replace (2 * (size k + 0) + S (length (climb fr)) + fuel)
        with (2 * size k + S (length (climb fr)) + fuel) by lia.
      refine (eq_trans R _). simpl flat_map. rewrite app_nil_r. reflexivity.
    - inversion Hok as [|? ? Hk Hrest]; subst.
      simpl l_kids_from. simpl rev.
      assert (Hwf' : wf_frames ((t, length pre) :: fr)).
      { constructor; [|exact Hwf]. simpl. rewrite Ek, app_length. simpl. lia. }
      rewrite app_assoc.
      pose proof (Hk ((t, length pre) :: fr)) as R.
      rewrite climb_cons in R. replace (Nat.eqb (S (length pre)) (length (t_kids t))) with false in R.
      2:{ symmetry. apply Nat.eqb_neq. rewrite Ek, app_length. simpl. lia. }
      simpl length in R. simpl app in R.
      rewrite sizes_cons.
      replace (2 * (size k + sizes (k2 :: r)) + S (length (climb fr)) + fuel)
        with (2 * size k + 0 + (2 * sizes (k2 :: r) + S (length (climb fr)) + fuel)) by lia.
      rewrite R by exact Hwf'. unfold afters at 1. simpl flat_map. rewrite app_nil_r.
      assert (Ek' : t_kids t = (pre ++ [k]) ++ k2 :: r) by (rewrite <- app_assoc; exact Ek).
      pose proof (IH k2 (pre ++ [k]) Ek' Hrest stack fuel) as R2.
      rewrite app_length in R2. simpl length in R2. rewrite Nat.add_1_r in R2.
      simpl l_kids_from in R2. simpl rev in R2.
      rewrite R2, gprepend_app. simpl flat_map. rewrite <- !app_assoc. reflexivity.
  Qed.

  Lemma node_run : forall t, node_ok t.
  Proof.
    induction t as [i x l e ks IH] using tree_ind'. intros fr stack fuel Hwf.
    destruct ks as [|k r].
    - (* leaf *)
      set (t := T i x l e []) in *.
      replace (2 * size t + length (climb fr) + fuel) with (S (S (length (climb fr)) + fuel)) by (subst t; simpl; lia).
      rewrite run_S. unfold Node_apply_step at 1. cbv beta iota zeta.
      rewrite py_is_empty_snoc, py_pop_last_snoc. simpl negb. cbv iota. gsimp.
      change (py_is_empty (l_kids (t, fr ++ us))) with true. simpl negb. cbv iota.
      assert (Hl : l_is_leaf (t, fr ++ us) = true) by reflexivity.
      rewrite (brk_leaf _ Hl). rewrite cb_next.
      rewrite (inner fr t stack fuel Hwf), gprepend_app. reflexivity.
    - (* internal *)
      set (t := T i x l e (k :: r)) in *.
      replace (2 * size t + length (climb fr) + fuel)
        with (S (2 * sizes (k :: r) + S (length (climb fr)) + fuel)) by (subst t; rewrite size_eq; lia).
      rewrite run_S. unfold Node_apply_step at 1. cbv beta iota zeta.
      rewrite py_is_empty_snoc, py_pop_last_snoc. simpl negb. cbv iota. gsimp.
      change (py_is_empty (l_kids (t, fr ++ us))) with false. simpl negb. cbv iota.
      assert (Hl : l_is_leaf (t, fr ++ us) = false) by reflexivity.
      rewrite (brk_internal _ Hl).
      unfold py_extend, py_reversed. rewrite map_id.
      change (l_kids (t, fr ++ us)) with (l_kids_from (length (@nil tree)) t (fr ++ us) (k :: r)).
      pose proof (kids_run t fr Hwf r k [] eq_refl IH) as R.
      rewrite cb_next. refine (eq_trans (f_equal (gprepend _) (R stack fuel)) _).
      rewrite gprepend_app, <- !app_assoc. reflexivity.
  Qed.

  Theorem apply_run fuel :
    2 * size ts < fuel ->
    Node_apply G fuel bf af lf self = GDone (flat_map emit (lbrackets self)).
  Proof.
    intro Hf. unfold Node_apply. cbv zeta.
    assert (W : wf_frames []) by constructor.
    pose proof (node_run ts [] [] (fuel - 2 * size ts) W) as R2.
    simpl climb in R2. simpl length in R2. simpl app in R2.
    replace (2 * size ts + 0 + (fuel - 2 * size ts)) with fuel in R2 by lia.
    refine (eq_trans R2 _). unfold afters. simpl flat_map. rewrite app_nil_r.
    destruct (fuel - 2 * size ts) eqn:Ef; [lia|].
    rewrite run_S. unfold Node_apply_step. simpl. rewrite app_nil_r. reflexivity.
  Qed.
End Apply.
