(* C18 - lemmas about identity-carrying trees (birth-death family) *)
From Coq Require Import QArith Lqa List Bool Arith Lia Permutation.
From DV Require Import Model.C18Model Proofs.C18Lists.
Import ListNotations.
Open Scope nat_scope.

Ltac inv_ar H := inversion H as [? ? ? ? Har Hars]; subst.
Ltac inv_eqd H := inversion H as [? ? ? ? Hleaf | ? ? ? ? ? ? Hall]; subst.
Ltac inv_all H := inversion H as [|? ? Hhd Htl]; subst.

Lemma btree_ind2 (P : btree -> Prop) :
  (forall i l x ks, Forall P ks -> P (B i l x ks)) -> forall t, P t.
Proof.
  intros H. fix IH 1. intros [i l x ks]. apply H.
  induction ks as [|k r IHr]; constructor; [apply IH | exact IHr].
Qed.

(* ---------------- ids / leaf_ids / inner_ids ---------------- *)

Lemma leaf_ids_node : forall i l x k r, leaf_ids (B i l x (k :: r)) = flat_map leaf_ids (k :: r).
Proof. reflexivity. Qed.
Lemma inner_ids_node : forall i l x k r, inner_ids (B i l x (k :: r)) = i :: flat_map inner_ids (k :: r).
Proof. reflexivity. Qed.
Lemma ids_node : forall i l x ks, ids (B i l x ks) = i :: flat_map ids ks.
Proof. reflexivity. Qed.

Lemma leaf_ids_app : forall i l x l1 k l2,
  leaf_ids (B i l x (l1 ++ k :: l2)) = flat_map leaf_ids (l1 ++ k :: l2).
Proof. intros. destruct l1; reflexivity. Qed.
Lemma inner_ids_app : forall i l x l1 k l2,
  inner_ids (B i l x (l1 ++ k :: l2)) = i :: flat_map inner_ids (l1 ++ k :: l2).
Proof. intros. destruct l1; reflexivity. Qed.

Lemma inner_kid : forall i l x ks k y, In k ks -> In y (inner_ids k) -> In y (inner_ids (B i l x ks)).
Proof.
  intros. destruct ks as [|a b]; [destruct H|]. rewrite inner_ids_node. right. apply in_flat_map. eauto.
Qed.
Lemma inner_self : forall i l x ks, ks <> [] -> In i (inner_ids (B i l x ks)).
Proof. intros. destruct ks; [congruence|]. rewrite inner_ids_node. left. reflexivity. Qed.
Lemma leaf_kid : forall i l x ks k y, In k ks -> In y (leaf_ids k) -> In y (leaf_ids (B i l x ks)).
Proof.
  intros. destruct ks as [|a b]; [destruct H|]. rewrite leaf_ids_node. apply in_flat_map. eauto.
Qed.
Lemma ids_kid : forall i l x ks k y, In k ks -> In y (ids k) -> In y (ids (B i l x ks)).
Proof. intros. rewrite ids_node. right. apply in_flat_map. eauto. Qed.

Lemma ids_perm : forall t, Permutation (ids t) (leaf_ids t ++ inner_ids t).
Proof.
  induction t as [i l x ks IH] using btree_ind2. destruct ks as [|k r]; [reflexivity|].
  rewrite leaf_ids_node, inner_ids_node, ids_node.
  eapply Permutation_trans; [|apply Permutation_middle]. apply perm_skip.
  eapply Permutation_trans; [apply Permutation_flat_map_pointwise; exact IH|].
  apply Permutation_flat_map_app.
Qed.

Lemma leaf_in_ids : forall t x, In x (leaf_ids t) -> In x (ids t).
Proof.
  intros t x H. eapply Permutation_in; [apply Permutation_sym; apply ids_perm|]. apply in_or_app; auto.
Qed.

Lemma inner_in_ids : forall t x, In x (inner_ids t) -> In x (ids t).
Proof.
  intros t x H. eapply Permutation_in; [apply Permutation_sym; apply ids_perm|]. apply in_or_app; auto.
Qed.

Lemma NoDup_leaf_ids : forall t, NoDup (ids t) -> NoDup (leaf_ids t).
Proof.
  intros t H. eapply Permutation_NoDup in H; [|apply ids_perm]. apply NoDup_app_iff in H. tauto.
Qed.

Lemma NoDup_inner_ids : forall t, NoDup (ids t) -> NoDup (inner_ids t).
Proof.
  intros t H. eapply Permutation_NoDup in H; [|apply ids_perm]. apply NoDup_app_iff in H. tauto.
Qed.

Lemma leaf_not_inner : forall t x, NoDup (ids t) -> In x (leaf_ids t) -> ~ In x (inner_ids t).
Proof.
  intros t x H. eapply Permutation_NoDup in H; [|apply ids_perm]. apply NoDup_app_iff in H.
  destruct H as (_ & _ & H). apply H.
Qed.

Lemma ids_root : forall t, In (b_id t) (ids t).
Proof. intros [i l x ks]. simpl. auto. Qed.

Lemma leaf_ids_nonempty : forall t, leaf_ids t <> [].
Proof.
  induction t as [i l x ks IH] using btree_ind2. destruct ks as [|k r]; [discriminate|].
  rewrite leaf_ids_node. simpl. inversion IH; subst. destruct (leaf_ids k); [congruence|discriminate].
Qed.

(* ---------------- splitting a child list around the child that holds x ---------------- *)

Lemma kids_split : forall x ks,
  NoDup (flat_map ids ks) -> In x (flat_map ids ks) ->
  exists l1 k l2, ks = l1 ++ k :: l2 /\ In x (ids k) /\
                  (forall k', In k' l1 -> ~ In x (ids k')) /\ (forall k', In k' l2 -> ~ In x (ids k')).
Proof.
  induction ks as [|k r IH]; simpl; intros Hn Hx; [tauto|].
  apply NoDup_app_iff in Hn. destruct Hn as (H1 & H2 & H3).
  apply in_app_or in Hx. destruct Hx as [Hx|Hx].
  - exists [], k, r. repeat split; auto.
    intros k' Hk' Hi. apply (H3 x Hx). apply in_flat_map. eauto.
  - destruct (IH H2 Hx) as (l1 & k0 & l2 & E & Hk0 & Ha & Hb). subst r.
    exists (k :: l1), k0, l2. repeat split; auto.
    intros k' [<-|Hk'] Hi; [|eapply Ha; eauto].
    apply (H3 x Hi). exact Hx.
Qed.

Lemma NoDup_kids : forall i l x ks, NoDup (ids (B i l x ks)) ->
  ~ In i (flat_map ids ks) /\ NoDup (flat_map ids ks).
Proof. intros. simpl in H. inversion H; auto. Qed.

Lemma NoDup_kid : forall ks k, NoDup (flat_map ids ks) -> In k ks -> NoDup (ids k).
Proof. intros. eapply NoDup_flat_map_elem; eauto. Qed.

Lemma flat_map_split {A B} (f : A -> list B) : forall l1 k l2,
  flat_map f (l1 ++ k :: l2) = flat_map f l1 ++ f k ++ flat_map f l2.
Proof. intros. rewrite flat_map_app. reflexivity. Qed.

(* ---------------- relabelling (lengths / taxa only) ---------------- *)

Fixpoint relabel (f : nat -> Q -> option nat -> Q * option nat) (t : btree) : btree :=
  match t with B i l x ks => B i (fst (f i l x)) (snd (f i l x)) (map (relabel f) ks) end.

Lemma relabel_ids : forall f t, ids (relabel f t) = ids t.
Proof.
  intros f. induction t as [i l x ks IH] using btree_ind2. simpl. f_equal.
  rewrite flat_map_concat_map, map_map, <- flat_map_concat_map. apply flat_map_ext_Forall. exact IH.
Qed.

Lemma relabel_leaf_ids : forall f t, leaf_ids (relabel f t) = leaf_ids t.
Proof.
  intros f. induction t as [i l x ks IH] using btree_ind2. destruct ks as [|k r]; [reflexivity|].
  simpl relabel. change (map (relabel f) (k :: r)) with (relabel f k :: map (relabel f) r).
  rewrite !leaf_ids_node. change (relabel f k :: map (relabel f) r) with (map (relabel f) (k :: r)).
  rewrite flat_map_concat_map, map_map, <- flat_map_concat_map. apply flat_map_ext_Forall. exact IH.
Qed.

Lemma relabel_inner_ids : forall f t, inner_ids (relabel f t) = inner_ids t.
Proof.
  intros f. induction t as [i l x ks IH] using btree_ind2. destruct ks as [|k r]; [reflexivity|].
  simpl relabel. change (map (relabel f) (k :: r)) with (relabel f k :: map (relabel f) r).
  rewrite !inner_ids_node. change (relabel f k :: map (relabel f) r) with (map (relabel f) (k :: r)).
  f_equal. rewrite flat_map_concat_map, map_map, <- flat_map_concat_map. apply flat_map_ext_Forall. exact IH.
Qed.

Lemma relabel_root : forall f t, b_id (relabel f t) = b_id t.
Proof. intros f [i l x ks]. reflexivity. Qed.

Lemma add_len_set_relabel : forall S w t,
  add_len_set S w t = relabel (fun i l x => ((if memb i S then (l + w)%Q else l), x)) t.
Proof.
  intros S w. induction t as [i l x ks IH] using btree_ind2. simpl. f_equal. apply map_ext_Forall. exact IH.
Qed.

Lemma set_tax_relabel : forall m t,
  set_tax m t = relabel (fun i l x => (l, match assoc i m with Some y => Some y | None => x end)) t.
Proof.
  intros m. induction t as [i l x ks IH] using btree_ind2. simpl. f_equal. apply map_ext_Forall. exact IH.
Qed.

Lemma close_set_relabel : forall S T t,
  close_set S T t = relabel (fun i l x => ((if memb i S then (T - l)%Q else l), x)) t.
Proof.
  intros S T. induction t as [i l x ks IH] using btree_ind2. simpl. f_equal. apply map_ext_Forall. exact IH.
Qed.

(* ---------------- arity ---------------- *)

Inductive arity (P : nat -> Prop) : btree -> Prop :=
| ar_node : forall i l x ks, P (length ks) -> Forall (arity P) ks -> arity P (B i l x ks).

Lemma arity_impl : forall (P Q : nat -> Prop) t, (forall n, P n -> Q n) -> arity P t -> arity Q t.
Proof.
  intros P Q t HPQ. induction t as [i l x ks IH] using btree_ind2. intros H. inv_ar H.
  constructor; auto. rewrite Forall_forall in *. auto.
Qed.

Lemma arity_relabel : forall P f t, arity P t -> arity P (relabel f t).
Proof.
  intros P f. induction t as [i l x ks IH] using btree_ind2. intros H. inv_ar H. simpl.
  constructor; [rewrite map_length; assumption|]. rewrite Forall_map. rewrite Forall_forall in *. auto.
Qed.

Lemma arity_subtrees : forall P t, arity P t <-> (forall s, In s (subtrees t) -> P (length (b_kids s))).
Proof.
  intros P. induction t as [i l x ks IH] using btree_ind2. split.
  - intros H s Hs. inv_ar H. simpl in Hs. destruct Hs as [<-|Hs]; [exact Har|].
    apply in_flat_map in Hs. destruct Hs as (k & Hk & Hs).
    rewrite Forall_forall in IH, Hars. apply (IH k Hk); auto.
  - intros H. constructor.
    + apply (H (B i l x ks)). simpl. auto.
    + rewrite Forall_forall in *. intros k Hk. apply (IH k Hk). intros s Hs. apply H. simpl. right.
      apply in_flat_map. eauto.
Qed.

(* ---------------- equidistance of a set of leaves ---------------- *)

(* every leaf of t whose identity is in S has root-to-tip sum D (t's own edge included) *)
Inductive eqd (S : list nat) : Q -> btree -> Prop :=
| eqd_leaf : forall i l x D, (In i S -> l == D) -> eqd S D (B i l x [])
| eqd_node : forall i l x k r D, Forall (eqd S (D - l)) (k :: r) -> eqd S D (B i l x (k :: r)).

Lemma eqd_compat : forall S t D D', D == D' -> eqd S D t -> eqd S D' t.
Proof.
  intros S. induction t as [i l x ks IH] using btree_ind2. intros D D' E H. inv_eqd H.
  - constructor. intros Hi. rewrite <- E. auto.
  - constructor. rewrite Forall_forall in *. intros k' Hk'. apply (IH k' Hk' (D - l)%Q (D' - l)%Q); [lra|auto].
Qed.

Lemma eqd_subset : forall S S' t D, (forall y, In y S' -> In y S) -> eqd S D t -> eqd S' D t.
Proof.
  intros S S'. induction t as [i l x ks IH] using btree_ind2. intros D Hs H. inv_eqd H.
  - constructor. auto.
  - constructor. rewrite Forall_forall in *. intros k' Hk'. apply (IH k' Hk'); auto.
Qed.

Lemma eqd_relabel_tax : forall S D g t, eqd S D t -> eqd S D (relabel (fun i l x => (l, g i x)) t).
Proof.
  intros S D g t. set (f := fun (i0 : nat) (l0 : Q) (x0 : option nat) => (l0, g i0 x0)).
  revert D. induction t as [i l x ks IH] using btree_ind2. intros D H. inv_eqd H; simpl.
  - constructor. auto.
  - apply eqd_node. change (relabel f k :: map (relabel f) r) with (map (relabel f) (k :: r)).
    rewrite Forall_map. rewrite Forall_forall in *. auto.
Qed.

(* for nd in S: nd.edge.length += w   (S only holds leaves) *)
Lemma eqd_add_len_set : forall S w t D,
  (forall i, In i S -> ~ In i (inner_ids t)) -> eqd S D t -> eqd S (D + w) (add_len_set S w t).
Proof.
  intros S w. induction t as [i l x ks IH] using btree_ind2. intros D Hin H. inv_eqd H.
  - simpl. constructor. intros Hi. rewrite (proj2 (memb_In i S) Hi). rewrite (Hleaf Hi). reflexivity.
  - assert (Hm : memb i S = false).
    { apply memb_false. intro Hi. apply (Hin i Hi). rewrite inner_ids_node. simpl. auto. }
    simpl add_len_set. rewrite Hm.
    change (add_len_set S w k :: map (add_len_set S w) r) with (map (add_len_set S w) (k :: r)).
    apply eqd_node with (k := add_len_set S w k) (r := map (add_len_set S w) r).
    change (add_len_set S w k :: map (add_len_set S w) r) with (map (add_len_set S w) (k :: r)).
    rewrite Forall_map. rewrite Forall_forall in *. intros k' Hk'.
    apply eqd_compat with (D := ((D - l) + w)%Q); [lra|]. apply (IH k' Hk').
    + intros j Hj Hi. apply (Hin j Hj). rewrite inner_ids_node. right. apply in_flat_map. eauto.
    + auto.
Qed.

Lemma eqd_depths : forall S t D acc,
  (forall y, In y (leaf_ids t) -> In y S) -> eqd S D t ->
  forall x q, In (x, q) (depths_from acc t) -> q == acc + D.
Proof.
  intros S. induction t as [i l x ks IH] using btree_ind2. intros D acc Hl H y q Hq. inv_eqd H.
  - simpl in Hq. destruct Hq as [Hq|[]]. inversion Hq; subst. rewrite Hleaf; [reflexivity|]. apply Hl. simpl. auto.
  - simpl in Hq. change (depths_from (acc + l) k ++ flat_map (depths_from (acc + l)) r)
      with (flat_map (depths_from (acc + l)) (k :: r)) in Hq.
    apply in_flat_map in Hq. destruct Hq as (k' & Hk' & Hq). rewrite Forall_forall in *.
    rewrite (IH k' Hk' (D - l)%Q (acc + l)%Q) with (x := y) (q := q); auto; [lra|].
    intros z Hz. apply Hl. rewrite leaf_ids_node. apply in_flat_map. eauto.
Qed.

Lemma depths_from_ids : forall t acc, map fst (depths_from acc t) = leaf_ids t.
Proof.
  induction t as [i l x ks IH] using btree_ind2. intros acc. destruct ks as [|k r]; [reflexivity|].
  rewrite leaf_ids_node. simpl depths_from.
  change (depths_from (acc + l) k ++ flat_map (depths_from (acc + l)) r)
    with (flat_map (depths_from (acc + l)) (k :: r)).
  rewrite flat_map_concat_map, concat_map, map_map, (flat_map_concat_map leaf_ids).
  f_equal. apply map_ext_Forall. rewrite Forall_forall in *. auto.
Qed.

(* ---------------- set_kids ---------------- *)

Lemma set_kids_notin : forall x new t, ~ In x (ids t) -> set_kids x new t = t.
Proof.
  intros x new. induction t as [i l tx ks IH] using btree_ind2. intros H. simpl in *.
  destruct (i =? x) eqn:E; [apply Nat.eqb_eq in E; exfalso; auto|].
  f_equal. apply map_id_Forall. rewrite Forall_forall in *. intros k Hk. apply (IH k Hk).
  intro Hi. apply H. right. apply in_flat_map. eauto.
Qed.

Lemma set_kids_map_split : forall x new l1 k l2,
  (forall k', In k' l1 -> ~ In x (ids k')) -> (forall k', In k' l2 -> ~ In x (ids k')) ->
  map (set_kids x new) (l1 ++ k :: l2) = l1 ++ set_kids x new k :: l2.
Proof.
  intros. rewrite map_app. simpl. f_equal; [|f_equal];
    apply map_id_Forall; apply Forall_forall; intros; apply set_kids_notin; auto.
Qed.

Lemma set_kids_root : forall x new t, b_id (set_kids x new t) = b_id t.
Proof. intros x new [i l tx ks]. simpl. destruct (i =? x); reflexivity. Qed.

(* the node x is a leaf of t (x in leaf_ids t, identities unique): what set_kids does *)
Section SetKidsLeaf.
  Variables (x : nat) (new : list btree).

  Lemma leaf_root_case : forall i l tx ks, NoDup (ids (B i l tx ks)) -> In i (leaf_ids (B i l tx ks)) -> ks = [].
  Proof.
    intros i l tx ks Hn Hi. destruct ks as [|k r]; [reflexivity|]. exfalso.
    apply NoDup_kids in Hn. destruct Hn as [Hn _]. apply Hn.
    rewrite leaf_ids_node in Hi. apply in_flat_map in Hi. destruct Hi as (k' & Hk' & Hi).
    apply in_flat_map. exists k'. split; auto. apply leaf_in_ids. exact Hi.
  Qed.

  Lemma leaf_below_case : forall i l tx ks, i <> x -> In x (leaf_ids (B i l tx ks)) ->
    ks <> [] /\ In x (flat_map ids ks) /\ In x (flat_map leaf_ids ks).
  Proof.
    intros i l tx ks Hne Hi. destruct ks as [|k r]; [simpl in Hi; intuition|].
    rewrite leaf_ids_node in Hi. split; [discriminate|]. split; auto.
    apply in_flat_map in Hi. destruct Hi as (k' & Hk' & Hi). apply in_flat_map. exists k'. split; auto.
    apply leaf_in_ids; auto.
  Qed.

  Lemma set_kids_ids : forall t, NoDup (ids t) -> In x (leaf_ids t) ->
    Permutation (ids (set_kids x new t)) (flat_map ids new ++ ids t).
  Proof.
    induction t as [i l tx ks IH] using btree_ind2. intros Hn Hx. simpl set_kids.
    destruct (i =? x) eqn:E.
    - apply Nat.eqb_eq in E. subst i. rewrite (leaf_root_case _ _ _ _ Hn Hx). simpl.
      apply Permutation_cons_append.
    - apply Nat.eqb_neq in E. destruct (leaf_below_case _ _ _ _ E Hx) as (Hne & Hxi & Hxl).
      destruct (NoDup_kids _ _ _ _ Hn) as [Hi Hnk].
      destruct (kids_split x ks Hnk Hxi) as (l1 & k & l2 & Eks & Hk & Ha & Hb). subst ks.
      rewrite set_kids_map_split by assumption. rewrite !ids_node, !flat_map_split.
      assert (Hkl : In x (leaf_ids k)).
      { rewrite flat_map_split in Hxl. apply in_app_or in Hxl. destruct Hxl as [Hxl|Hxl].
        - apply in_flat_map in Hxl. destruct Hxl as (k' & Hk' & Hxl). exfalso. apply (Ha k' Hk'). apply leaf_in_ids; auto.
        - apply in_app_or in Hxl. destruct Hxl as [Hxl|Hxl]; [assumption|].
          apply in_flat_map in Hxl. destruct Hxl as (k' & Hk' & Hxl). exfalso. apply (Hb k' Hk'). apply leaf_in_ids; auto. }
      rewrite Forall_forall in IH.
      assert (IHk := IH k (in_elt k l1 l2) (NoDup_kid _ k Hnk (in_elt k l1 l2)) Hkl).
      eapply Permutation_trans; [|apply Permutation_middle]. apply perm_skip.
      eapply Permutation_trans; [apply Permutation_app_head; apply Permutation_app_tail; exact IHk|].
      rewrite <- !app_assoc.
      apply Permutation_app_swap_app.
  Qed.

  Lemma set_kids_leaf_ids : forall t, NoDup (ids t) -> In x (leaf_ids t) -> new <> [] ->
    forall y, In y (leaf_ids (set_kids x new t)) <->
              (In y (leaf_ids t) /\ y <> x) \/ In y (flat_map leaf_ids new).
  Proof.
    induction t as [i l tx ks IH] using btree_ind2. intros Hn Hx Hnew y. simpl set_kids.
    destruct (i =? x) eqn:E.
    - apply Nat.eqb_eq in E. subst i. rewrite (leaf_root_case _ _ _ _ Hn Hx).
      destruct new as [|n0 nr]; [congruence|]. rewrite leaf_ids_node.
      change (leaf_ids (B x l tx [])) with [x].
      split; [auto|]. intros [[[->|[]] Hne]|H]; [congruence|auto].
    - apply Nat.eqb_neq in E. destruct (leaf_below_case _ _ _ _ E Hx) as (Hne & Hxi & Hxl).
      destruct (NoDup_kids _ _ _ _ Hn) as [Hi Hnk].
      destruct (kids_split x ks Hnk Hxi) as (l1 & k & l2 & Eks & Hk & Ha & Hb). subst ks.
      rewrite set_kids_map_split by assumption.
      assert (Hkl : In x (leaf_ids k)).
      { rewrite flat_map_split in Hxl. apply in_app_or in Hxl. destruct Hxl as [Hxl|Hxl].
        - apply in_flat_map in Hxl. destruct Hxl as (k' & Hk' & Hxl). exfalso. apply (Ha k' Hk'). apply leaf_in_ids; auto.
        - apply in_app_or in Hxl. destruct Hxl as [Hxl|Hxl]; [assumption|].
          apply in_flat_map in Hxl. destruct Hxl as (k' & Hk' & Hxl). exfalso. apply (Hb k' Hk'). apply leaf_in_ids; auto. }
      rewrite Forall_forall in IH.
      assert (IHk := IH k (in_elt k l1 l2) (NoDup_kid _ k Hnk (in_elt k l1 l2)) Hkl Hnew y).
      rewrite !leaf_ids_app, !flat_map_split, !in_app_iff, IHk.
      assert (N1 : In y (flat_map leaf_ids l1) -> y <> x).
      { intros Hy ->. apply in_flat_map in Hy. destruct Hy as (k' & Hk' & Hy). apply (Ha k' Hk'). apply leaf_in_ids; auto. }
      assert (N2 : In y (flat_map leaf_ids l2) -> y <> x).
      { intros Hy ->. apply in_flat_map in Hy. destruct Hy as (k' & Hk' & Hy). apply (Hb k' Hk'). apply leaf_in_ids; auto. }
      tauto.
  Qed.

  Lemma set_kids_arity : forall (P : nat -> Prop) t,
    P (length new) -> Forall (arity P) new -> arity P t -> arity P (set_kids x new t).
  Proof.
    intros P. induction t as [i l tx ks IH] using btree_ind2. intros Hp Hnew H. inv_ar H. simpl.
    destruct (i =? x).
    - constructor; assumption.
    - constructor; [rewrite map_length; assumption|].
      rewrite Forall_map. rewrite Forall_forall in IH, Hars. apply Forall_forall. intros k Hk. apply (IH k Hk); auto.
  Qed.
End SetKidsLeaf.

(* birth at the extant leaf x: two zero-length children c1, c2 *)
Lemma eqd_birth : forall S S' x c1 c2 t D,
  In x S -> ~ In x (inner_ids t) -> ~ In c1 (ids t) -> ~ In c2 (ids t) ->
  (forall y, In y S' -> (In y S /\ y <> x) \/ y = c1 \/ y = c2) ->
  eqd S D t -> eqd S' D (set_kids x [bleaf c1 0; bleaf c2 0] t).
Proof.
  intros S S' x c1 c2. induction t as [i l tx ks IH] using btree_ind2.
  intros D Hx Hxi Hc1 Hc2 HS' H. simpl set_kids. destruct (i =? x) eqn:E.
  - apply Nat.eqb_eq in E. subst i. inv_eqd H.
    + apply eqd_node. assert (E0 : (0 == D - l)%Q) by (rewrite (Hleaf Hx); lra).
      repeat constructor; intros _; exact E0.
    + exfalso. apply Hxi. rewrite inner_ids_node. simpl. auto.
  - apply Nat.eqb_neq in E. inv_eqd H.
    + simpl. constructor. intros Hi. apply Hleaf. destruct (HS' i Hi) as [[? ?]|[->| ->]]; auto.
      * exfalso. apply Hc1. simpl. auto.
      * exfalso. apply Hc2. simpl. auto.
    + change (map (set_kids x [bleaf c1 0; bleaf c2 0]) (k :: r))
        with (set_kids x [bleaf c1 0; bleaf c2 0] k :: map (set_kids x [bleaf c1 0; bleaf c2 0]) r).
      apply eqd_node.
      change (set_kids x [bleaf c1 0; bleaf c2 0] k :: map (set_kids x [bleaf c1 0; bleaf c2 0]) r)
        with (map (set_kids x [bleaf c1 0; bleaf c2 0]) (k :: r)).
      rewrite Forall_map. rewrite Forall_forall in *. intros k' Hk'. apply (IH k' Hk'); auto.
      * intro Hi. apply Hxi. rewrite inner_ids_node. right. apply in_flat_map. eauto.
      * intro Hi. apply Hc1. rewrite ids_node. right. apply in_flat_map. eauto.
      * intro Hi. apply Hc2. rewrite ids_node. right. apply in_flat_map. eauto.
Qed.

(* ---------------- prune1 ---------------- *)

Lemma omap_app {A B} (f : A -> option B) : forall l1 l2, omap f (l1 ++ l2) = omap f l1 ++ omap f l2.
Proof. intros. unfold omap. apply flat_map_app. Qed.

Lemma omap_id_Forall {A} (f : A -> option A) : forall l, Forall (fun a => f a = Some a) l -> omap f l = l.
Proof. induction 1; simpl; [reflexivity|]. unfold omap in *. simpl. rewrite H. simpl. congruence. Qed.

Lemma omap_In {A B} (f : A -> option B) : forall l b, In b (omap f l) <-> exists a, In a l /\ f a = Some b.
Proof.
  intros l b. unfold omap. rewrite in_flat_map. split; intros (a & Ha & H); exists a; split; auto.
  - destruct (f a); simpl in H; [destruct H as [->|[]]; reflexivity | tauto].
  - rewrite H. simpl. auto.
Qed.

Lemma omap_length {A B} (f : A -> option B) : forall l, length (omap f l) <= length l.
Proof.
  induction l as [|a l IH]; simpl; [lia|]. unfold omap in *. simpl. destruct (f a); simpl; lia.
Qed.

Lemma prune1_notin : forall x t, ~ In x (ids t) -> prune1 x t = Some t.
Proof.
  intros x. induction t as [i l tx ks IH] using btree_ind2. intros H. simpl in *.
  destruct (i =? x) eqn:E; [apply Nat.eqb_eq in E; exfalso; auto|].
  assert (Eo : omap (prune1 x) ks = ks).
  { apply omap_id_Forall. rewrite Forall_forall in *. intros k Hk. apply (IH k Hk).
    intro Hi. apply H. right. apply in_flat_map. eauto. }
  rewrite Eo. destruct ks as [|k r]; [reflexivity|]. simpl. rewrite andb_false_r. reflexivity.
Qed.

Lemma prune1_omap_split : forall x l1 k l2,
  (forall k', In k' l1 -> ~ In x (ids k')) -> (forall k', In k' l2 -> ~ In x (ids k')) ->
  omap (prune1 x) (l1 ++ k :: l2) = l1 ++ match prune1 x k with Some k' => [k'] | None => [] end ++ l2.
Proof.
  intros. rewrite omap_app. change (k :: l2) with ([k] ++ l2). rewrite omap_app.
  rewrite (omap_id_Forall (prune1 x) l1), (omap_id_Forall (prune1 x) l2).
  - unfold omap. simpl. rewrite app_nil_r. reflexivity.
  - apply Forall_forall. intros. apply prune1_notin. auto.
  - apply Forall_forall. intros. apply prune1_notin. auto.
Qed.

(* what pruning the leaf x does to the leaf list *)
Definition drop (x : nat) (l : list nat) : list nat := filter (fun y => negb (y =? x)) l.

Lemma drop_In : forall x y l, In y (drop x l) <-> In y l /\ y <> x.
Proof.
  intros. unfold drop. rewrite filter_In, negb_true_iff, Nat.eqb_neq. tauto.
Qed.

Lemma drop_notin : forall x l, ~ In x l -> drop x l = l.
Proof.
  induction l as [|y r IH]; simpl; intros H; [reflexivity|].
  destruct (y =? x) eqn:E; [apply Nat.eqb_eq in E; subst; exfalso; auto|]. simpl. f_equal. auto.
Qed.

Lemma drop_app : forall x a b, drop x (a ++ b) = drop x a ++ drop x b.
Proof. intros. unfold drop. apply filter_app. Qed.

Lemma prune1_leaf_ids : forall x t, NoDup (ids t) -> ~ In x (inner_ids t) ->
  match prune1 x t with
  | None => leaf_ids t = [x]
  | Some t' => leaf_ids t' = drop x (leaf_ids t)
  end.
Proof.
  intros x. induction t as [i l tx ks IH] using btree_ind2. intros Hn Hxi. simpl prune1.
  destruct (i =? x) eqn:E.
  - apply Nat.eqb_eq in E. subst i. destruct ks as [|k r]; [reflexivity|].
    exfalso. apply Hxi. rewrite inner_ids_node. simpl. auto.
  - apply Nat.eqb_neq in E. destruct (NoDup_kids _ _ _ _ Hn) as [Hi Hnk].
    destruct (in_dec Nat.eq_dec x (flat_map ids ks)) as [Hx|Hx].
    + destruct (kids_split x ks Hnk Hx) as (l1 & k & l2 & Eks & Hk & Ha & Hb). subst ks.
      rewrite prune1_omap_split by assumption.
      rewrite Forall_forall in IH.
      assert (Hnk' : NoDup (ids k)) by (apply (NoDup_kid _ k Hnk); apply in_elt).
      assert (Hxk : ~ In x (inner_ids k)).
      { intro Hc. apply Hxi. eapply inner_kid; [apply in_elt|exact Hc]. }
      assert (IHk := IH k (in_elt k l1 l2) Hnk' Hxk).
      assert (D1 : drop x (flat_map leaf_ids l1) = flat_map leaf_ids l1).
      { apply drop_notin. intro Hy. apply in_flat_map in Hy. destruct Hy as (k' & Hk' & Hy). apply (Ha k' Hk'). apply leaf_in_ids; auto. }
      assert (D2 : drop x (flat_map leaf_ids l2) = flat_map leaf_ids l2).
      { apply drop_notin. intro Hy. apply in_flat_map in Hy. destruct Hy as (k' & Hk' & Hy). apply (Hb k' Hk'). apply leaf_in_ids; auto. }
      rewrite leaf_ids_app, flat_map_split.
      destruct (prune1 x k) as [k'|] eqn:Ek.
      * simpl app. destruct (_ && _) eqn:Eb.
        { exfalso. apply andb_true_iff in Eb. destruct Eb as [_ Eb]. apply Nat.eqb_eq in Eb.
          rewrite app_length in Eb. simpl in Eb. lia. }
        rewrite leaf_ids_app, flat_map_split, !drop_app, D1, D2, IHk. reflexivity.
      * simpl app. destruct (_ && _) eqn:Eb.
        { apply andb_true_iff in Eb. destruct Eb as [Eb1 Eb2]. apply Nat.eqb_eq in Eb1, Eb2.
          rewrite app_length in Eb1, Eb2. simpl in Eb1.
          destruct l1; [|simpl in Eb1; lia]. destruct l2; [|simpl in Eb1; lia].
          simpl. rewrite app_nil_r. exact IHk. }
        rewrite !drop_app, D1, D2, IHk. simpl. rewrite Nat.eqb_refl. simpl.
        assert (Hne : l1 ++ l2 <> []).
        { intro Hc. apply app_eq_nil in Hc. destruct Hc; subst. simpl in Eb. discriminate. }
        destruct (l1 ++ l2) as [|a b] eqn:El; [congruence|].
        rewrite <- El, flat_map_app. reflexivity.
    + assert (Eo : omap (prune1 x) ks = ks).
      { apply omap_id_Forall. apply Forall_forall. intros k Hk. apply prune1_notin.
        intro Hc. apply Hx. apply in_flat_map. eauto. }
      rewrite Eo. destruct ks as [|k r].
      * simpl. rewrite (proj2 (Nat.eqb_neq i x) E). reflexivity.
      * simpl length. rewrite andb_false_r. symmetry. apply drop_notin.
        intro Hc. apply Hx. rewrite leaf_ids_node in Hc. apply in_flat_map in Hc. destruct Hc as (k' & Hk' & Hc).
        apply in_flat_map. exists k'. split; auto. apply leaf_in_ids; auto.
Qed.

(* pruning only removes nodes *)
Lemma prune1_ids_incl : forall x t t', prune1 x t = Some t' -> forall y, In y (ids t') -> In y (ids t).
Proof.
  intros x. induction t as [i l tx ks IH] using btree_ind2. intros t' H y Hy. simpl in H.
  destruct (i =? x); [discriminate|]. destruct (_ && _); [discriminate|]. inversion H; subst. clear H.
  simpl in *. destruct Hy as [Hy|Hy]; [auto|]. right.
  apply in_flat_map in Hy. destruct Hy as (k' & Hk' & Hy). apply omap_In in Hk'. destruct Hk' as (k & Hk & Ek).
  rewrite Forall_forall in IH. apply in_flat_map. exists k. split; auto. eapply IH; eauto.
Qed.

Lemma omap_flat_sub {A} (f : A -> option A) (g : A -> list nat) : forall l,
  Forall (fun a => forall a', f a = Some a' -> NoDup (g a) -> NoDup (g a') /\ (forall y, In y (g a') -> In y (g a))) l ->
  NoDup (flat_map g l) -> NoDup (flat_map g (omap f l)) /\ (forall y, In y (flat_map g (omap f l)) -> In y (flat_map g l)).
Proof.
  induction 1 as [|a l Ha Hl IH]; intros Hn; simpl in *; [split; [constructor|tauto]|].
  apply NoDup_app_iff in Hn. destruct Hn as (H1 & H2 & H3).
  destruct (IH H2) as [I1 I2]. unfold omap in *. simpl.
  destruct (f a) as [a'|] eqn:E; simpl.
  - destruct (Ha a' eq_refl H1) as [A1 A2]. split.
    + apply NoDup_app_iff. repeat split; auto. intros y Hy Hc. apply (H3 y); auto.
    + intros y Hy. apply in_app_or in Hy. apply in_or_app. destruct Hy; auto.
  - split; auto. intros y Hy. apply in_or_app. auto.
Qed.

Lemma prune1_NoDup : forall x t t', prune1 x t = Some t' -> NoDup (ids t) -> NoDup (ids t').
Proof.
  intros x. induction t as [i l tx ks IH] using btree_ind2. intros t' H Hn. simpl in H.
  destruct (i =? x); [discriminate|]. destruct (_ && _); [discriminate|]. inversion H; subst. clear H.
  destruct (NoDup_kids _ _ _ _ Hn) as [Hi Hnk]. rewrite ids_node.
  destruct (omap_flat_sub (prune1 x) ids ks) as [O1 O2]; auto.
  - rewrite Forall_forall in *. intros k Hk k' Ek Hnk'. split; [eapply IH; eauto|]. eapply prune1_ids_incl; eauto.
  - constructor; auto.
Qed.

Lemma prune1_inner_incl : forall x t t', prune1 x t = Some t' -> forall y, In y (inner_ids t') -> In y (inner_ids t).
Proof.
  intros x. induction t as [i l tx ks IH] using btree_ind2. intros t' H y Hy. simpl in H.
  destruct (i =? x); [discriminate|]. destruct (_ && _); [discriminate|]. inversion H; subst. clear H.
  destruct (omap (prune1 x) ks) as [|a b] eqn:Eo; [simpl in Hy; tauto|].
  rewrite inner_ids_node in Hy. rewrite <- Eo in Hy.
  assert (Hks : ks <> []) by (intro; subst; discriminate).
  destruct ks as [|k r]; [congruence|]. rewrite inner_ids_node.
  destruct Hy as [Hy|Hy]; [left; auto|right].
  apply in_flat_map in Hy. destruct Hy as (k' & Hk' & Hy). apply omap_In in Hk'. destruct Hk' as (k0 & Hk0 & Ek).
  rewrite Forall_forall in IH. apply in_flat_map. exists k0. split; auto. eapply IH; eauto.
Qed.

Lemma prune1_root : forall x t t', prune1 x t = Some t' -> b_id t' = b_id t.
Proof.
  intros x [i l tx ks] t' H. simpl in H. destruct (i =? x); [discriminate|]. destruct (_ && _); [discriminate|].
  inversion H. reflexivity.
Qed.

Lemma prune1_arity_le : forall n x t t', prune1 x t = Some t' ->
  arity (fun m => m <= n) t -> arity (fun m => m <= n) t'.
Proof.
  intros n x. induction t as [i l tx ks IH] using btree_ind2. intros t' H Ha. simpl in H.
  destruct (i =? x); [discriminate|]. destruct (_ && _); [discriminate|]. inversion H; subst. clear H.
  inv_ar Ha. constructor.
  - pose proof (omap_length (prune1 x) ks). lia.
  - rewrite Forall_forall in *. intros k' Hk'. apply omap_In in Hk'. destruct Hk' as (k & Hk & Ek). eapply IH; eauto.
Qed.

Lemma prune1_eqd : forall S x t t' D, prune1 x t = Some t' ->
  (forall y, In y S -> ~ In y (inner_ids t)) -> NoDup (ids t) -> ~ In x (inner_ids t) ->
  eqd S D t -> eqd S D t'.
Proof.
  intros S x. induction t as [i l tx ks IH] using btree_ind2. intros t' D H HS Hn Hxi He.
  pose proof (prune1_leaf_ids x (B i l tx ks) Hn Hxi) as Hl. rewrite H in Hl.
  simpl in H. destruct (i =? x) eqn:E; [discriminate|]. destruct (_ && _); [discriminate|]. inversion H; subst. clear H.
  inv_eqd He.
  - simpl. constructor. assumption.
  - destruct (omap (prune1 x) (k :: r)) as [|a b] eqn:Eo.
    + (* cannot happen: the node would have become a leaf *)
      exfalso. simpl leaf_ids at 1 in Hl.
      assert (Hi : In i (drop x (leaf_ids (B i l tx (k :: r))))) by (rewrite <- Hl; simpl; auto).
      apply drop_In in Hi. destruct Hi as [Hi _].
      apply (leaf_not_inner _ _ Hn Hi). rewrite inner_ids_node. simpl. auto.
    + apply eqd_node. rewrite <- Eo. destruct (NoDup_kids _ _ _ _ Hn) as [_ Hnk].
      rewrite Forall_forall in *. intros k' Hk'. apply omap_In in Hk'. destruct Hk' as (k0 & Hk0 & Ek).
      eapply (IH k0 Hk0); eauto.
      * intros y Hy Hc. apply (HS y Hy). rewrite inner_ids_node. right. apply in_flat_map. eauto.
      * eapply NoDup_kid; eauto.
      * intro Hc. apply Hxi. rewrite inner_ids_node. right. apply in_flat_map. eauto.
Qed.

(* ---------------- suppress ---------------- *)

Lemma suppress_cases : forall i l tx ks,
  (exists j l' tx' ks', map suppress ks = [B j l' tx' ks'] /\ suppress (B i l tx ks) = B j (l' + l)%Q tx' ks') \/
  (length (map suppress ks) <> 1 /\ suppress (B i l tx ks) = B i l tx (map suppress ks)).
Proof.
  intros. simpl. destruct (map suppress ks) as [|[j l' tx' ks'] [|b c]].
  - right. split; [simpl; lia|reflexivity].
  - left. eauto 8.
  - right. split; [simpl; lia|reflexivity].
Qed.

Lemma suppress_leaf_ids : forall t, leaf_ids (suppress t) = leaf_ids t.
Proof.
  induction t as [i l tx ks IH] using btree_ind2.
  assert (Hfm : flat_map leaf_ids (map suppress ks) = flat_map leaf_ids ks).
  { rewrite flat_map_concat_map, map_map, <- flat_map_concat_map. apply flat_map_ext_Forall. exact IH. }
  destruct (suppress_cases i l tx ks) as [(j & l' & tx' & ks' & E1 & E2)|[Hlen E2]]; rewrite E2.
  - destruct ks as [|k [|k2 r]]; try discriminate. simpl in E1. inversion E1 as [E]. rewrite leaf_ids_node. simpl.
    rewrite app_nil_r. inv_all IH. rewrite <- Hhd, E. reflexivity.
  - destruct ks as [|k r]; [reflexivity|]. change (map suppress (k :: r)) with (suppress k :: map suppress r) in *.
    rewrite !leaf_ids_node. exact Hfm.
Qed.

Lemma suppress_root_kids : forall t, length (b_kids (suppress t)) <> 1.
Proof.
  induction t as [i l tx ks IH] using btree_ind2.
  destruct (suppress_cases i l tx ks) as [(j & l' & tx' & ks' & E1 & E2)|[Hlen E2]]; rewrite E2; simpl; auto.
  destruct ks as [|k [|k2 r]]; try discriminate. simpl in E1. inversion E1 as [E]. inv_all IH.
  rewrite E in Hhd. simpl in Hhd. exact Hhd.
Qed.

Lemma suppress_arity : forall t, arity (fun m => m <= 2) t -> arity (fun m => m = 0 \/ m = 2) (suppress t).
Proof.
  induction t as [i l tx ks IH] using btree_ind2. intros Ha. inv_ar Ha.
  assert (Hk : Forall (arity (fun m => m = 0 \/ m = 2)) (map suppress ks)).
  { rewrite Forall_map. rewrite Forall_forall in *. auto. }
  destruct (suppress_cases i l tx ks) as [(j & l' & tx' & ks' & E1 & E2)|[Hlen E2]]; rewrite E2.
  - rewrite E1 in Hk. inv_all Hk. inversion Hhd as [? ? ? ? Har' Hars']; subst. constructor; auto.
  - constructor; auto. rewrite map_length in *. lia.
Qed.

Lemma suppress_ids_incl : forall t y, In y (ids (suppress t)) -> In y (ids t).
Proof.
  induction t as [i l tx ks IH] using btree_ind2. intros y Hy.
  assert (Hsub : forall z, In z (flat_map ids (map suppress ks)) -> In z (flat_map ids ks)).
  { intros z Hz. apply in_flat_map in Hz. destruct Hz as (k' & Hk' & Hz). apply in_map_iff in Hk'.
    destruct Hk' as (k & <- & Hk). rewrite Forall_forall in IH. apply in_flat_map. exists k. split; auto. }
  destruct (suppress_cases i l tx ks) as [(j & l' & tx' & ks' & E1 & E2)|[Hlen E2]]; rewrite E2 in Hy.
  - rewrite ids_node. right. apply Hsub. rewrite E1. simpl. rewrite app_nil_r. exact Hy.
  - rewrite ids_node in *. destruct Hy as [Hy|Hy]; [left; auto|right; auto].
Qed.

Lemma suppress_NoDup : forall t, NoDup (ids t) -> NoDup (ids (suppress t)).
Proof.
  induction t as [i l tx ks IH] using btree_ind2. intros Hn.
  destruct (NoDup_kids _ _ _ _ Hn) as [Hi Hnk].
  assert (Hnd : NoDup (flat_map ids (map suppress ks))).
  { clear Hi Hn. induction ks as [|k r IHr]; simpl; [constructor|]. simpl in Hnk.
    apply NoDup_app_iff in Hnk. destruct Hnk as (H1 & H2 & H3). inv_all IH.
    apply NoDup_app_iff. repeat split; auto.
    intros y Hy Hc. apply (H3 y); [apply suppress_ids_incl; auto|].
    apply in_flat_map in Hc. destruct Hc as (k' & Hk' & Hc). apply in_map_iff in Hk'. destruct Hk' as (k0 & <- & Hk0).
    apply in_flat_map. exists k0. split; auto. apply suppress_ids_incl; auto. }
  destruct (suppress_cases i l tx ks) as [(j & l' & tx' & ks' & E1 & E2)|[Hlen E2]]; rewrite E2.
  - rewrite E1 in Hnd. simpl in Hnd. rewrite app_nil_r in Hnd. exact Hnd.
  - rewrite ids_node. constructor; auto. intro Hc. apply Hi.
    apply in_flat_map in Hc. destruct Hc as (k' & Hk' & Hc). apply in_map_iff in Hk'. destruct Hk' as (k0 & <- & Hk0).
    apply in_flat_map. exists k0. split; auto. apply suppress_ids_incl; auto.
Qed.

Lemma eqd_relen : forall S D j l' tx' ks' l, eqd S (D - l) (B j l' tx' ks') -> eqd S D (B j (l' + l)%Q tx' ks').
Proof.
  intros. inv_eqd H.
  - constructor. intros Hi. rewrite (Hleaf Hi). lra.
  - apply eqd_node. rewrite Forall_forall in *. intros k' Hk'. eapply eqd_compat; [|apply Hall; exact Hk']. lra.
Qed.

Lemma suppress_eqd : forall S t D, eqd S D t -> eqd S D (suppress t).
Proof.
  intros S. induction t as [i l tx ks IH] using btree_ind2. intros D He.
  destruct (suppress_cases i l tx ks) as [(j & l' & tx' & ks' & E1 & E2)|[Hlen E2]]; rewrite E2.
  - destruct ks as [|k [|k2 r]]; try discriminate. simpl in E1. inversion E1 as [E].
    inv_eqd He. inversion Hall as [|? ? Hk1 Hk2]; subst. inversion IH as [|? ? IH1 IH2]; subst.
    apply eqd_relen. rewrite <- E. auto.
  - inv_eqd He.
    + simpl. constructor. assumption.
    + change (map suppress (k :: r)) with (suppress k :: map suppress r). apply eqd_node.
      change (suppress k :: map suppress r) with (map suppress (k :: r)).
      rewrite Forall_map. rewrite Forall_forall in *. auto.
Qed.

Lemma suppress_inner_leaf_disjoint : forall t, NoDup (ids t) -> NoDup (ids (suppress t)).
Proof. exact suppress_NoDup. Qed.

(* ---------------- taxa of the leaves ---------------- *)

Lemma leaf_taxa_set_tax : forall m t,
  leaf_taxa (set_tax m t) =
  map (fun p => match assoc (fst p) m with Some y => Some y | None => snd p end)
      (combine (leaf_ids t) (leaf_taxa t)).
Proof.
  intros m. induction t as [i l tx ks IH] using btree_ind2. destruct ks as [|k r]; [reflexivity|].
  simpl set_tax. change (map (set_tax m) (k :: r)) with (set_tax m k :: map (set_tax m) r).
  change (leaf_taxa (B i l (match assoc i m with Some y => Some y | None => tx end) (set_tax m k :: map (set_tax m) r)))
    with (flat_map leaf_taxa (map (set_tax m) (k :: r))).
  rewrite leaf_ids_node. change (leaf_taxa (B i l tx (k :: r))) with (flat_map leaf_taxa (k :: r)).
  clear i l tx. induction (k :: r) as [|a b IHb]; [reflexivity|]. inv_all IH.
  simpl. rewrite Hhd, IHb by assumption.
  assert (Hlen : forall t, length (leaf_ids t) = length (leaf_taxa t)).
  { clear. induction t as [i l tx ks IH] using btree_ind2. destruct ks as [|k r]; [reflexivity|].
    rewrite leaf_ids_node. change (leaf_taxa (B i l tx (k :: r))) with (flat_map leaf_taxa (k :: r)).
    induction (k :: r) as [|a b IHb]; [reflexivity|]. inv_all IH. simpl. rewrite !app_length, Hhd, IHb; auto. }
  rewrite <- map_app. f_equal. clear - Hlen.
  generalize (Hlen a). generalize (leaf_ids a) (leaf_taxa a). induction l as [|p q IHq]; intros [|u v] E; simpl in *; try discriminate; auto.
  f_equal. apply IHq. lia.
Qed.

Lemma leaf_ids_taxa_length : forall t, length (leaf_ids t) = length (leaf_taxa t).
Proof.
  induction t as [i l tx ks IH] using btree_ind2. destruct ks as [|k r]; [reflexivity|].
  rewrite leaf_ids_node. change (leaf_taxa (B i l tx (k :: r))) with (flat_map leaf_taxa (k :: r)).
  induction (k :: r) as [|a b IHb]; [reflexivity|]. inv_all IH. simpl. rewrite !app_length, Hhd, IHb; auto.
Qed.
