(* C11: DataSet.unify_taxon_namespaces, and the step / history theorems *)
From Coq Require Import List Bool Arith ZArith Lia.
From DV Require Import Model.PyPrims Model.C11Model Proofs.C11Base Proofs.C11Inv Proofs.C11Ops Proofs.C11Ops2
  Proofs.C11Step Proofs.C11Step2.
Import ListNotations.
Open Scope nat_scope.

Lemma getlist_upd_same : forall st st1 l X,
  s_lists st1 = upd (s_lists st) l X -> l < length (s_lists st) -> getlist st1 l = X.
Proof.
  intros st st1 l X E V. apply getlist_some. rewrite E. destruct (nth_error (s_lists st) l) eqn:K.
  - eapply nth_error_upd_same. exact K.
  - apply nth_error_None in K. lia.
Qed.

Lemma nth_error_eq_nth : forall A (a b : list A) j d, nth_error a j = nth_error b j -> nth j a d = nth j b d.
Proof.
  intros A a b j d E. destruct (nth_error b j) eqn:K.
  - rewrite (nth_error_some_nth _ _ _ d _ E). symmetry. apply nth_error_some_nth. exact K.
  - rewrite !nth_overflow; [reflexivity | apply nth_error_None; exact K | apply nth_error_None; exact E].
Qed.

Lemma getlist_upd_other : forall st st1 l X i,
  s_lists st1 = upd (s_lists st) l X -> i <> l -> getlist st1 i = getlist st i.
Proof.
  intros st st1 l X i E Ne. unfold getlist. apply nth_error_eq_nth. rewrite E. apply nth_error_upd_other. exact Ne.
Qed.

Lemma ClosedX_unexempt_ds : forall XL st d,
  ClosedX XL (eq d) st -> (forall D, nth_error (s_dss st) d = Some D -> ds_ok st D) -> ClosedX XL NoX st.
Proof.
  intros XL st d [C1 [C2 [C3 C4]]] OK. closed_split; try assumption.
  intros i D E. destruct (C4 i D E) as [W K]. split; [exact W|]. intros _.
  destruct (Nat.eq_dec d i) as [Eq|Ne]; [subst i; apply OK; exact E | apply K; exact Ne].
Qed.

Section WithLower.
Variable lower : lbl -> lbl.

Lemma unify_lists_spec : forall ls d st n memo done,
  ClosedX (fun i => In i ls) (eq d) st ->
  (forall l, In l ls -> l < length (s_lists st)) ->
  (forall l tr i, In l ls -> In tr (l_trees (getlist st l)) -> i < length (s_lists st) ->
                  In tr (l_trees (getlist st i)) -> In i ls \/ In i done) ->
  (forall i, In i done -> l_ns (getlist st i) = n) ->
  (forall l i dd, In l ls -> nth_error (s_dss st) i = Some dd -> d <> i -> In l (d_lists dd) ->
                  forall a, d_att dd = Some a -> n = a) ->
  let st' := fst (unify_lists lower st n ls memo) in
  ClosedX NoX (eq d) st' /\ s_mats st' = s_mats st /\ s_dss st' = s_dss st
  /\ length (s_lists st') = length (s_lists st)
  /\ (forall i, In i ls \/ In i done -> l_ns (getlist st' i) = n).
Proof.
  induction ls as [|l r IH]; intros d st n memo done C V Share Done DS; cbn [unify_lists].
  - cbn [fst]. split; [eapply ClosedX_weaken; [| |exact C]; [intros i [] | intros i Hi; exact Hi]|].
    split; [reflexivity|]. split; [reflexivity|]. split; [reflexivity|].
    intros i [[]|Hi]. apply Done, Hi.
  - assert (Vl : l < length (s_lists st)) by (apply V; left; reflexivity).
    destruct (migrate_list_spec lower (fun i => In i (l :: r)) (eq d) st l n true memo C Vl)
      as [C1 [EL [EM [ED [ET [Mo _]]]]]].
    { intros tr i L Htr Ei NX Ne Hin.
      assert (Vi : i < length (s_lists st)) by (apply nth_error_Some; congruence).
      rewrite <- (getlist_some _ _ _ Ei) in *.
      destruct (Share l tr i (or_introl eq_refl) Htr Vi Hin) as [K|K]; [contradiction | apply Done, K]. }
    { intros i dd Ed NX Hin a Ha. eapply (DS l i dd); try eassumption. left. reflexivity. }
    destruct (migrate_list lower st l n true memo) as [st1 memo1] eqn:Q. cbn [fst] in *.
    assert (Len1 : length (s_lists st1) = length (s_lists st)) by (rewrite EL; apply upd_length).
    assert (Tr1 : forall i, l_trees (getlist st1 i) = l_trees (getlist st i)).
    { intro i. destruct (Nat.eq_dec i l) as [Eq|Ne].
      - subst i. rewrite (getlist_upd_same st st1 l _ EL Vl). reflexivity.
      - rewrite (getlist_upd_other st st1 l _ i EL Ne). reflexivity. }
    destruct (IH d st1 n memo1 (l :: done)) as [C2 [EM2 [ED2 [Len2 N2]]]].
    + eapply ClosedX_weaken; [| |exact C1]; [|intros i Hi; exact Hi].
      intros i [[Hi|Hi] Ne]; [congruence | exact Hi].
    + intros x Hx. rewrite Len1. apply V. right. exact Hx.
    + intros x tr i Hx Htr Vi Hin. rewrite Tr1 in Htr, Hin. rewrite Len1 in Vi.
      destruct (Share x tr i (or_intror Hx) Htr Vi Hin) as [[K|K]|K].
      * right. left. exact K.
      * left. exact K.
      * right. right. exact K.
    + intros i [Hi|Hi].
      * subst i. rewrite (getlist_upd_same st st1 l _ EL Vl). reflexivity.
      * destruct (Nat.eq_dec i l) as [Eq|Ne].
        -- subst i. rewrite (getlist_upd_same st st1 l _ EL Vl). reflexivity.
        -- rewrite (getlist_upd_other st st1 l _ i EL Ne). apply Done, Hi.
    + intros x i dd Hx Ed Ne Hin a Ha. rewrite ED in Ed. eapply (DS x i dd); try eassumption. right. exact Hx.
    + split; [exact C2|]. split; [congruence|]. split; [congruence|]. split; [congruence|].
      intros i [[Hi|Hi]|Hi]; apply N2.
      * right. left. exact Hi.
      * left. exact Hi.
      * right. right. exact Hi.
Qed.

Lemma unify_mats_spec : forall ms XL d st n memo,
  ClosedX XL (eq d) st ->
  (forall m i dd, In m ms -> nth_error (s_dss st) i = Some dd -> d <> i -> In m (d_mats dd) ->
                  forall a, d_att dd = Some a -> n = a) ->
  snd (unify_mats lower st n ms memo) = true ->
  let st' := fst (unify_mats lower st n ms memo) in
  ClosedX XL (eq d) st' /\ s_lists st' = s_lists st /\ s_dss st' = s_dss st
  /\ length (s_mats st') = length (s_mats st)
  /\ (forall j : oid, m_ns (getmat st j) = n -> m_ns (getmat st' j) = n)
  /\ (forall m : oid, In m ms -> m < length (s_mats st) -> m_ns (getmat st' m) = n).
Proof.
  induction ms as [|m r IH]; intros XL d st n memo C DS Ok; cbn [unify_mats] in *.
  - cbn [fst]. split; [exact C|]. split; [reflexivity|]. split; [reflexivity|]. split; [reflexivity|].
    split; [intros j E; exact E | intros m []].
  - pose proof (migrate_mat_spec lower XL (eq d) st m n true memo C) as S.
    destruct (migrate_mat lower st m n true memo) as [[st1 memo1] ok] eqn:Q. cbn [fst snd] in *.
    destruct ok; [|cbn [snd] in Ok; discriminate].
    destruct S as [C1 [EL [ET [ED [Len [Mo [Nm Oth]]]]]]]; [|reflexivity|].
    { intros i dd Ed NX Hin a Ha. eapply (DS m i dd); try eassumption. left. reflexivity. }
    assert (Keep1 : forall j : oid, m_ns (getmat st j) = n -> m_ns (getmat st1 j) = n).
    { intros j E. destruct (Nat.eq_dec j m) as [Eq|Ne].
      - subst j. destruct (Nat.lt_ge_cases m (length (s_mats st))) as [Vm|Vm]; [apply Nm, Vm|].
        rewrite <- E. unfold getmat. rewrite !nth_overflow by lia. reflexivity.
      - rewrite <- E. unfold getmat. f_equal. apply nth_error_eq_nth. apply Oth, Ne. }
    destruct (IH XL d st1 n memo1 C1) as [C2 [EL2 [ED2 [Len2 [Keep2 N2]]]]]; [|exact Ok|].
    + intros x i dd Hx Ed Ne Hin a Ha. rewrite ED in Ed. eapply (DS x i dd); try eassumption. right. exact Hx.
    + split; [exact C2|]. split; [congruence|]. split; [congruence|]. split; [congruence|].
      split; [intros j E; apply Keep2, Keep1, E|].
      intros x [Hx|Hx] Vx; [subst x; apply Keep2, Nm, Vx | apply N2; [exact Hx | lia]].
Qed.

Lemma share_spec : forall st lists,
  forallb (fun l => forallb (fun tr =>
      forallb (fun p => negb (memb tr (l_trees (snd p))) || memb (fst p) lists) (indexed (s_lists st)))
    (l_trees (getlist st l))) lists = true ->
  forall l tr i, In l lists -> In tr (l_trees (getlist st l)) -> i < length (s_lists st) ->
                 In tr (l_trees (getlist st i)) -> In i lists \/ In i (@nil oid).
Proof.
  intros st lists H l tr i Hl Htr Vi Hin. left.
  pose proof (forallb_In _ _ _ l H Hl) as H1. cbn beta in H1.
  pose proof (forallb_In _ _ _ tr H1 Htr) as H2. cbn beta in H2.
  assert (Hp : In (i, getlist st i) (indexed (s_lists st))) by (apply In_indexed, nth_nth_error; exact Vi).
  pose proof (forallb_In _ _ _ _ H2 Hp) as H3. cbn [fst snd] in H3.
  apply orb_true_iff in H3. destruct H3 as [K|K]; [|apply memb_In; exact K].
  apply negb_true_iff in K. apply memb_false in K. contradiction.
Qed.

(* the non-trivial branch of unify_taxon_namespaces *)
Lemma unify_main : forall st d nsarg attach lists mats st1 n st2 memo st3,
  Closed st -> d < length (s_dss st) ->
  d_lists (getds st d) = lists -> d_mats (getds st d) = mats ->
  disciplined st (Unify d nsarg attach) = true ->
  (match nsarg with
   | Some n => (set_ds st d (mkDS (d_att (getds st d)) [] lists mats), n)
   | None => let '(s, n) := alloc_ns (set_ds st d (mkDS (d_att (getds st d)) [] lists mats)) false in
             (ds_add_ns s d n, n)
   end) = (st1, n) ->
  unify_lists lower st1 n lists [] = (st2, memo) ->
  unify_mats lower st2 n mats memo = (st3, true) ->
  Closed (if attach then ds_attach st3 d n else st3).
Proof.
  intros st d nsarg attach lists mats st1 n st2 memo st3 C Vd El Em D Q1 Q2 Q3. subst lists mats.
  set (lists := d_lists (getds st d)) in *. set (mats := d_mats (getds st d)) in *.
  cbn [disciplined] in D. fold lists mats in D.
  apply andb_true_iff in D. destruct D as [D D4]. apply andb_true_iff in D. destruct D as [D D3].
  apply andb_true_iff in D. destruct D as [D1 D2].
  set (att := d_att (getds st d)) in *.
  set (st0 := set_ds st d (mkDS att [] lists mats)) in *.
  assert (C0 : Closed st0).
  { apply set_ds_closed; [exact C | |]; cbn [d_lists d_mats d_att].
    - intros l Hl. destruct (closed_ds_list st d l C Vd Hl) as [Vl A]. split; [exact Vl | intros _; exact A].
    - intros m Hm. destruct (closed_ds_mat st d m C Vd Hm) as [Vm A]. split; [exact Vm | intros _; exact A]. }
  assert (V0 : d < length (s_dss st0)) by (unfold st0; simpl; rewrite upd_length; exact Vd).
  assert (G0 : getds st0 d = mkDS att [] lists mats) by (apply getds_set_same; exact Vd).
  (* facts about st1 *)
  assert (F1 : Closed st1 /\ s_lists st1 = s_lists st /\ s_mats st1 = s_mats st /\ s_trees st1 = s_trees st
               /\ length (s_dss st1) = length (s_dss st)
               /\ (forall i, d <> i -> nth_error (s_dss st1) i = nth_error (s_dss st) i)
               /\ d_att (getds st1 d) = att /\ d_lists (getds st1 d) = lists /\ d_mats (getds st1 d) = mats
               /\ n = match nsarg with Some n => n | None => s_nns st end).
  { destruct nsarg as [n0|].
    - inv Q1. split; [exact C0|]. split; [reflexivity|]. split; [reflexivity|]. split; [reflexivity|].
      split; [simpl; apply upd_length|]. split.
      + intros i Ne. simpl. apply nth_error_upd_other. intro Eq. apply Ne. symmetry. exact Eq.
      + rewrite G0. repeat split.
    - unfold alloc_ns in Q1. cbn [fst snd] in Q1. inv Q1.
      set (sa := mkSt (s_lab st0) (s_mem st0) ((s_nns st0, false) :: s_cs st0) (S (s_nns st0))
                      (s_trees st0) (s_lists st0) (s_mats st0) (s_dss st0)).
      assert (Ca : Closed sa) by exact C0.
      split; [apply ds_add_ns_closed; [exact Ca | exact V0]|].
      split; [reflexivity|]. split; [reflexivity|]. split; [reflexivity|].
      split; [unfold ds_add_ns; simpl; rewrite !upd_length; reflexivity|]. split.
      + intros i Ne. unfold ds_add_ns. simpl.
        rewrite !nth_error_upd_other by (intro Eq; apply Ne; symmetry; exact Eq). reflexivity.
      + assert (G1 : getds (ds_add_ns sa d (s_nns st0)) d = mkDS att (add_uniq (s_nns st0) []) lists mats).
        { unfold ds_add_ns. rewrite getds_set_same by exact V0. change (getds sa d) with (getds st0 d).
          rewrite G0. reflexivity. }
        split; [exact (f_equal d_att G1)|]. split; [exact (f_equal d_lists G1)|].
        split; [exact (f_equal d_mats G1) | reflexivity]. }
  destruct F1 as [C1 [L1 [M1 [T1 [LD1 [DO1 [A1 [EL1 [EM1 En]]]]]]]]].
  rewrite <- En in D2, D3, D4.
  (* the tree lists *)
  destruct (unify_lists_spec lists d st1 n [] []) as [C2 [M2 [DS2 [Len2 N2]]]].
  - eapply ClosedX_weaken; [| |exact C1]; [intros i [] | intros i []].
  - intros l Hl. rewrite L1. apply (closed_ds_list st d l C Vd Hl).
  - intros l tr i Hl Htr Vi Hin. unfold getlist in Htr, Hin. rewrite L1 in *.
    eapply (share_spec st lists D1); eassumption.
  - intros i [].
  - intros l i dd Hl Ed Ne Hin a Ha. rewrite DO1 in Ed by exact Ne.
    eapply (ds_list_free_spec st (Some d) l n (forallb_In _ _ _ l D2 Hl)); try eassumption.
    cbn [is_but]. apply Nat.eqb_neq. intro Eq. apply Ne. symmetry. exact Eq.
  - rewrite Q2 in *. cbn [fst] in *.
    (* the matrices *)
    destruct (unify_mats_spec mats NoX d st2 n memo C2) as [C3 [L3 [DS3 [Len3 [_ N3]]]]].
    + intros m i dd Hm Ed Ne Hin a Ha. rewrite DS2 in Ed. rewrite DO1 in Ed by exact Ne.
      eapply (ds_mat_free_spec st (Some d) m n (forallb_In _ _ _ m D3 Hm)); try eassumption.
      cbn [is_but]. apply Nat.eqb_neq. intro Eq. apply Ne. symmetry. exact Eq.
    + rewrite Q3. reflexivity.
    + rewrite Q3 in *. cbn [fst] in *.
      assert (G3 : getds st3 d = getds st1 d) by (unfold getds; rewrite DS3, DS2; reflexivity).
      assert (V3 : d < length (s_dss st3)) by (rewrite DS3, DS2, LD1; exact Vd).
      assert (HL : forall l, In l lists -> l < length (s_lists st3) /\ l_ns (getlist st3 l) = n).
      { intros l Hl. split.
        - rewrite L3, Len2, L1. apply (closed_ds_list st d l C Vd Hl).
        - unfold getlist. rewrite L3. apply N2. left. exact Hl. }
      assert (HM : forall m, In m mats -> m < length (s_mats st3) /\ m_ns (getmat st3 m) = n).
      { intros m Hm. assert (Vm : m < length (s_mats st)) by (apply (closed_ds_mat st d m C Vd Hm)).
        split; [rewrite Len3, M2, M1; exact Vm | apply N3; [exact Hm | rewrite M2, M1; exact Vm]]. }
      destruct attach.
      * apply (ds_attach_closedX NoX st3 d n (or_introl C3) V3).
        -- intros l Hl. rewrite G3, EL1 in Hl. apply HL, Hl.
        -- intros m Hm. rewrite G3, EM1 in Hm. apply HM, Hm.
      * apply (ClosedX_unexempt_ds NoX st3 d C3). intros D0 E0.
        pose proof (getds_some _ _ _ E0) as GD. rewrite G3 in GD. subst D0.
        simpl in D4. unfold att_ok in D4. split.
        -- intros l Hl. rewrite EL1 in Hl. destruct (HL l Hl) as [Vl Nl]. exists (getlist st3 l).
           split; [apply nth_nth_error; exact Vl|]. intros a Ha. rewrite A1 in Ha. unfold att in Ha.
           rewrite Ha in D4. apply Nat.eqb_eq in D4. rewrite Nl. symmetry. exact D4.
        -- intros m Hm. rewrite EM1 in Hm. destruct (HM m Hm) as [Vm Nm]. exists (getmat st3 m).
           split; [apply nth_nth_error; exact Vm|]. intros a Ha. rewrite A1 in Ha. unfold att in Ha.
           rewrite Ha in D4. apply Nat.eqb_eq in D4. rewrite Nm. symmetry. exact D4.
Qed.

Lemma step_Unify : forall st d nsarg attach,
  Closed st -> disciplined st (Unify d nsarg attach) = true ->
  snd (step lower st (Unify d nsarg attach)) <> ORecon -> Closed (fst (step lower st (Unify d nsarg attach))).
Proof.
  intros st d nsarg attach C D. cbn [step].
  destruct (valid_ds st d && valid_nsopt st nsarg) eqn:V; [|intros _; exact C].
  apply andb_true_iff in V. destruct V as [Vd _]. apply ltb_lt' in Vd.
  destruct (d_nss (getds st d)) as [|x xs] eqn:E1; destruct (d_lists (getds st d)) as [|y ys] eqn:E2;
    destruct (d_mats (getds st d)) as [|z zs] eqn:E3.
  1: { (* nothing in the data set *)
    intros _. destruct attach; [|exact C]. destruct nsarg as [n|]; [|exact C]. cbn [fst].
    apply (ds_attach_closedX NoX st d n (or_intror C) Vd).
    - intros l Hl. rewrite E2 in Hl. contradiction.
    - intros m Hm. rewrite E3 in Hm. contradiction. }
  all: cbv iota beta.
  all: destruct (match nsarg with
                 | Some n => (set_ds st d (mkDS (d_att (getds st d)) [] _ _), n)
                 | None => let '(s, n) := alloc_ns (set_ds st d (mkDS (d_att (getds st d)) [] _ _)) false in
                           (ds_add_ns s d n, n)
                 end) as [st1 n] eqn:Q1;
       destruct (unify_lists lower st1 n _ []) as [st2 memo] eqn:Q2;
       destruct (unify_mats lower st2 n _ memo) as [st3 ok] eqn:Q3;
       destruct ok; [|intro H; exfalso; apply H; reflexivity]; intros _;
       pose proof (unify_main st d nsarg attach _ _ st1 n st2 memo st3 C Vd E2 E3 D Q1 Q2 Q3) as Main;
       destruct attach; exact Main.
Qed.

(* ---- every operation ---- *)
Theorem closed_step_l : forall st o,
  Closed st -> disciplined st o = true -> snd (step lower st o) <> ORecon -> Closed (fst (step lower st o)).
Proof.
  intros st o C D R. destruct o.
  - exact C.
  - apply step_NewTaxon; assumption.
  - apply step_MkTree; assumption.
  - apply step_NewList; assumption.
  - apply step_NewMat; assumption.
  - apply step_NewDs; assumption.
  - apply step_Append; assumption.
  - apply step_Insert; assumption.
  - apply step_Extend; assumption.
  - apply step_IAdd; assumption.
  - apply step_AddOp; assumption.
  - apply step_SetItem; assumption.
  - apply step_SetSlice; assumption.
  - apply step_GetSlice; assumption.
  - apply step_NewTreeIn; assumption.
  - apply step_ReadList; assumption.
  - apply step_Pop; assumption.
  - apply step_Remove; assumption.
  - apply step_MigrateList; assumption.
  - apply step_ReconstructList; assumption.
  - apply step_UpdateList; assumption.
  - apply step_PurgeList; assumption.
  - apply step_MigrateTree; assumption.
  - apply step_ReconstructTree; assumption.
  - apply step_UpdateTree; assumption.
  - apply step_PurgeTree; assumption.
  - apply step_ArrayAdd; assumption.
  - apply step_NewSeq; assumption.
  - apply step_SetRow; assumption.
  - apply step_MigrateMat; assumption.
  - apply step_ReconstructMat; assumption.
  - apply step_UpdateMat; assumption.
  - apply step_PurgeMat; assumption.
  - apply step_Attach; assumption.
  - apply step_Detach; assumption.
  - apply step_DsAdd; assumption.
  - apply step_DsNewList; assumption.
  - apply step_DsNewMat; assumption.
  - apply step_DsReadTrees; assumption.
  - apply step_DsReadFasta; assumption.
  - apply step_Unify; assumption.
Qed.

End WithLower.
