(* C12, second wave: Prop forms of Model.C12Spec2.wf_heap3 / wf_heap3s / root_seeds_ok *)
From Coq Require Import ZArith List Bool Lia.
From DV Require Import Model.PyPrims Model.C12Model Model.C12Spec2 Proofs.C12Heap Proofs.C12Inv Proofs.C12Wf Proofs.C12Iso
  Proofs.C12Wf2 Proofs.C12Fun.
Import ListNotations.
Open Scope Z_scope.

Lemma existsb_val_In : forall v r, existsb (val_eqb v) r = false -> ~ In v r.
Proof.
  intros v r E I. assert (X : existsb (val_eqb v) r = true); [|congruence].
  apply existsb_exists. exists v. split; [exact I | apply val_eqb_refl].
Qed.

Lemma nodup_vals_spec : forall vs, nodup_vals vs = true -> NoDup vs.
Proof.
  induction vs as [|v r IH]; simpl; intro H; [constructor|].
  apply andb_true_iff in H. destruct H as [A B]. constructor; [|exact (IH B)].
  apply existsb_val_In. destruct (existsb (val_eqb v) r); [discriminate | reflexivity].
Qed.

Lemma nodup_z_spec : forall l, nodup_z l = true -> NoDup l.
Proof.
  induction l as [|a r IH]; simpl; intro H; [constructor|].
  apply andb_true_iff in H. destruct H as [A B]. constructor; [|exact (IH B)].
  intro I. apply memz_In in I. rewrite I in A. discriminate.
Qed.

Lemma nodup_app_disjoint : forall (l1 l2 : list Z) z, NoDup (l1 ++ l2) -> In z l1 -> In z l2 -> False.
Proof.
  induction l1 as [|a r IH]; intros l2 z ND I1 I2; [contradiction|].
  simpl in ND. inversion ND as [|? ? NI NR]; subst. destruct I1 as [E|I1].
  - subst a. apply NI. apply in_or_app. right. exact I2.
  - exact (IH l2 z NR I1 I2).
Qed.

Lemma flat_map_nodup_idx : forall (f : obj -> list Z) h i j a b z, NoDup (flat_map f h) ->
  nth_error h i = Some a -> nth_error h j = Some b -> In z (f a) -> In z (f b) -> i = j.
Proof.
  induction h as [|c r IH]; intros i j a b z ND Ni Nj Ia Ib; [destruct i; discriminate|].
  simpl in ND. destruct i as [|i]; destruct j as [|j]; simpl in Ni, Nj.
  - reflexivity.
  - inversion Ni; subst c. exfalso. apply (nodup_app_disjoint _ _ z ND Ia).
    apply in_flat_map. exists b. split; [eapply nth_error_In; exact Nj | exact Ib].
  - inversion Nj; subst c. exfalso. apply (nodup_app_disjoint _ _ z ND Ib).
    apply in_flat_map. exists a. split; [eapply nth_error_In; exact Ni | exact Ia].
  - f_equal. apply (IH i j a b z); auto. clear -ND. induction (f c) as [|x l IHl]; [exact ND|].
    simpl in ND. inversion ND; auto.
Qed.

Lemma hget_nth : forall h o ob, hget h o = Some ob -> nth_error h (Z.to_nat o) = Some ob /\ 0 <= o.
Proof. unfold hget. intros h o ob H. destruct (o <? 0) eqn:E; [discriminate|]. apply Z.ltb_ge in E. auto. Qed.

Lemma In_hget : forall h ob, In ob h -> exists o, hget h o = Some ob.
Proof.
  intros h ob I. apply In_nth_error in I. destruct I as [n N]. exists (Z.of_nat n). unfold hget.
  destruct (Z.of_nat n <? 0) eqn:E; [apply Z.ltb_lt in E; lia|]. rewrite Nat2Z.id. exact N.
Qed.

Lemma taxalist_in : forall h lt, taxalist h lt -> In lt (taxa_lists h).
Proof.
  intros h lt [x [ob [G [K B]]]]. unfold taxa_lists. apply in_flat_map. exists ob.
  split; [eapply hget_In; exact G|]. rewrite K, B. left. reflexivity.
Qed.

Lemma is_ref_in_nt : forall h v, is_ref_in (taxa_lists h) v = false -> nt h v.
Proof.
  intros h [p|a] H; simpl; [exact I|]. intro T. apply taxalist_in in T. apply memz_In in T. simpl in H. congruence.
Qed.

Lemma owned_of_list : forall h sx, In sx (owned_list h) -> owned h sx.
Proof.
  intros h sx I. unfold owned_list in I. apply in_flat_map in I. destruct I as [ob [Io I]].
  destruct (In_hget h ob Io) as [x G]. exists x, ob. split; [exact G|].
  destruct (is_annk (okind ob)) eqn:AK; [|contradiction]. split; [reflexivity|].
  destruct (bget (obody ob) NM_ANN) as [[?|s0]|]; try contradiction. destruct I as [E|[]]. subst. reflexivity.
Qed.

Section Wf3.
Variable h : heap.

Lemma wf3_parts : wf_heap3 h = true -> items_nodup_ok h = true /\ taxa_private_ok h = true.
Proof. unfold wf_heap3. intro W. apply andb_true_iff in W. exact W. Qed.

Lemma wf3_nodup : wf_heap3 h = true ->
  forall x ob, hget h x = Some ob -> is_annk (okind ob) = true -> NoDup (ann_items h ob).
Proof.
  intros W x ob G AK. destruct (wf3_parts W) as [W1 _]. unfold items_nodup_ok in W1. rewrite forallb_forall in W1.
  assert (I : In ob h) by (eapply hget_In; exact G).
  specialize (W1 ob I). rewrite AK in W1. simpl in W1. apply nodup_vals_spec. exact W1.
Qed.

Lemma wf3_private : wf_heap3 h = true -> forall o ob k v, hget h o = Some ob -> In (k, v) (obody ob) ->
  nt h k /\ (nt h v \/ (okind ob = KNamespace /\ k = NM_TAXA)).
Proof.
  intros W o ob k v G I. destruct (wf3_parts W) as [_ W2]. unfold taxa_private_ok in W2.
  apply andb_true_iff in W2. destruct W2 as [_ W2]. rewrite forallb_forall in W2.
  specialize (W2 ob (hget_In _ _ _ G)). rewrite forallb_forall in W2. specialize (W2 (k, v) I). simpl in W2.
  apply andb_true_iff in W2. destruct W2 as [A B]. split.
  - apply is_ref_in_nt. apply negb_true_iff. exact A.
  - apply orb_true_iff in B. destruct B as [B|B].
    + left. apply is_ref_in_nt. apply negb_true_iff. exact B.
    + right. apply andb_true_iff in B. destruct B as [B1 B2]. split; [apply kind_eqb_eq; exact B1 | apply val_eqb_eq; exact B2].
Qed.

Lemma wf3_distinct : wf_heap3 h = true -> forall x1 x2 ob1 ob2 lt, hget h x1 = Some ob1 -> hget h x2 = Some ob2 ->
  okind ob1 = KNamespace -> okind ob2 = KNamespace ->
  bget (obody ob1) NM_TAXA = Some (R lt) -> bget (obody ob2) NM_TAXA = Some (R lt) -> x1 = x2.
Proof.
  intros W x1 x2 ob1 ob2 lt G1 G2 K1 K2 B1 B2. destruct (wf3_parts W) as [_ W2]. unfold taxa_private_ok in W2.
  apply andb_true_iff in W2. destruct W2 as [W2 _]. apply nodup_z_spec in W2. unfold taxa_lists in W2.
  destruct (hget_nth _ _ _ G1) as [N1 P1]. destruct (hget_nth _ _ _ G2) as [N2 P2].
  assert (E : Z.to_nat x1 = Z.to_nat x2).
  { apply (flat_map_nodup_idx _ h _ _ ob1 ob2 lt W2 N1 N2); [rewrite K1, B1 | rewrite K2, B2]; left; reflexivity. }
  lia.
Qed.

Lemma wf3s_owned : wf_heap3s h = true -> forall o ob, hget h o = Some ob -> okind ob = KAnnSet -> owned h o.
Proof.
  intros W o ob G K. unfold wf_heap3s in W. apply andb_true_iff in W. destruct W as [W _]. unfold annsets_owned in W.
  destruct (hget_nth _ _ _ G) as [N P0].
  assert (X := forallbi_spec _ _ _ _ W _ _ N). simpl in X. rewrite Z2Nat.id in X by exact P0.
  rewrite K in X. simpl in X. apply owned_of_list. apply memz_In. exact X.
Qed.

Lemma is_prim_spec : forall v, is_prim v = true -> exists p, v = P p.
Proof. intros [p|a] H; [eauto | discriminate]. Qed.

Lemma wf3s_shape : wf_heap3s h = true -> forall x ob sx sxo, hget h x = Some ob -> is_annk (okind ob) = true ->
  bget (obody ob) NM_ANN = Some (R sx) -> hget h sx = Some sxo ->
  (forall k v, In (k, v) (obody sxo) ->
     (exists p, k = P p) /\ (k = NM_ILIST \/ k = NM_ISET \/ (k = NM_TARGET /\ ((exists p, v = P p) \/ v = R x))))
  /\ (forall zx zo, bget (obody sxo) NM_ISET = Some (R zx) -> hget h zx = Some zo ->
        forall k v, In (k, v) (obody zo) -> (exists p, v = P p) /\ ((exists p, k = P p) \/ In k (ann_items h ob))).
Proof.
  intros W x ob sx sxo G AK B GS. unfold wf_heap3s in W. apply andb_true_iff in W. destruct W as [_ W].
  unfold owned_shape_ok in W. destruct (hget_nth _ _ _ G) as [N P0].
  assert (X := forallbi_spec _ _ _ _ W _ _ N). simpl in X. rewrite Z2Nat.id in X by exact P0.
  rewrite AK in X. simpl in X. unfold owned_set_ok in X. rewrite B, GS in X.
  apply andb_true_iff in X. destruct X as [X1 X2]. split.
  - intros k v I. rewrite forallb_forall in X1. specialize (X1 (k, v) I). simpl in X1.
    apply andb_true_iff in X1. destruct X1 as [A C]. split; [apply is_prim_spec; exact A|].
    apply orb_true_iff in C. destruct C as [C|C].
    + apply orb_true_iff in C. destruct C as [C|C]; apply val_eqb_eq in C; auto.
    + apply andb_true_iff in C. destruct C as [C1 C2]. apply val_eqb_eq in C1. right. right. split; [exact C1|].
      apply orb_true_iff in C2. destruct C2 as [C2|C2]; [left; apply is_prim_spec; exact C2 | right; apply val_eqb_eq; exact C2].
  - intros zx zo BZ GZ k v I. rewrite BZ, GZ in X2. rewrite forallb_forall in X2. specialize (X2 (k, v) I). simpl in X2.
    apply andb_true_iff in X2. destruct X2 as [A C]. split; [apply is_prim_spec; exact A|].
    apply orb_true_iff in C. destruct C as [C|C]; [left; apply is_prim_spec; exact C|].
    right. apply existsb_exists in C. destruct C as [k' [Ik E]]. apply val_eqb_eq in E. subst k'. exact Ik.
Qed.

Lemma root_seeds_spec : forall seeds root, root_seeds_ok h seeds root = true ->
  ~ taxalist h root /\ forall a, In a seeds -> ~ taxalist h a /\ ~ tup h a /\ ~ In a (owned_conts h).
Proof.
  intros seeds root H. unfold root_seeds_ok in H. apply andb_true_iff in H. destruct H as [A B]. split.
  - intro T. apply taxalist_in in T. apply memz_In in T. rewrite T in A. discriminate.
  - intros a I. rewrite forallb_forall in B. specialize (B a I). apply andb_true_iff in B. destruct B as [B B3].
    apply andb_true_iff in B. destruct B as [B1 B2]. split; [|split].
    + intro T. apply taxalist_in in T. apply memz_In in T. rewrite T in B1. discriminate.
    + unfold tup. intro T. rewrite T in B2. discriminate.
    + intro T. apply memz_In in T. rewrite T in B3. discriminate.
Qed.

End Wf3.
