(* C13 (wave 6): the symbol mapper of Model/C13Model.v - where the number table decides, and TAXLABELS across routes.

   3. symbols that are not decimal numerals never touch the number table (boolean predicate `is_digit_str`), numerals
      do (`_refuted` witnesses: the switch, and the position in a shared namespace = finding taxon-number-resolution);
   4. TAXLABELS is route-independent up to the NTAX-overflow error.
   (Sections 1-2, over the compiled code, are in Proofs/C13MapperTie.v.) *)
From Coq Require Import ZArith List Bool Lia DecimalPos DecimalN.
From Coq Require String. Import String.StringSyntax.
From DV Require Import Model.PyPrims Model.C13Model.
Import ListNotations.

(* ================= 3. where the number table decides ================= *)
Section Numbers.
Variable lower : str -> str.

Definition isd (c : Z) : bool := ((48 <=? c) && (c <=? 57))%Z.
Lemma uint_digits_isd : forall u, forallb isd (uint_digits u) = true.
Proof. induction u; cbn [uint_digits forallb]; try rewrite IHu; reflexivity. Qed.
Lemma uint_digits_nonnil : forall u, u <> Decimal.Nil -> uint_digits u <> [].
Proof. destruct u; intros H; try discriminate. congruence. Qed.

Lemma dec_of_nat_digits : forall n, is_digit_str (dec_of_nat n) = true.
Proof.
  intros n. unfold is_digit_str, dec_of_nat.
  assert (NN : N.to_uint (N.of_nat n) <> Decimal.Nil).
  { destruct (N.of_nat n); cbn; [discriminate | apply Unsigned.to_uint_nonnil]. }
  apply uint_digits_nonnil in NN.
  destruct (uint_digits (N.to_uint (N.of_nat n))) eqn:E; [congruence|].
  rewrite <- E. cbn [is_nil negb andb]. rewrite E. cbn [is_nil negb andb]. rewrite <- E. apply uint_digits_isd.
Qed.

(* every key of the number table is a decimal numeral: true of a fresh mapper, kept by every operation *)
Definition numbers_ok (m : mapper) : bool := forallb (fun p => is_digit_str (fst p)) (m_numbers m).

Lemma numbers_ok_new : forall taxa b, numbers_ok (new_mapper lower taxa b) = true.
Proof.
  intros. unfold numbers_ok, new_mapper. cbn [m_numbers].
  apply forallb_forall. intros p H. apply in_rev in H. apply in_map_iff in H. destruct H as [x [E _]]. subst p.
  apply dec_of_nat_digits.
Qed.
Lemma numbers_ok_translate : forall m tok i, numbers_ok (add_translate_token lower m tok i) = numbers_ok m.
Proof. reflexivity. Qed.
Lemma numbers_ok_set_ns : forall m taxa, numbers_ok (mapper_set_ns m taxa) = numbers_ok m.
Proof. reflexivity. Qed.
Lemma numbers_ok_require : forall m sym,
  numbers_ok m = true -> numbers_ok (snd (require_taxon_for_symbol lower m sym)) = true.
Proof.
  intros m sym H. unfold require_taxon_for_symbol.
  destruct (assoc (lower sym) (m_tokens m)); [exact H|].
  destruct (assoc (lower sym) (m_labels m)); [exact H|].
  destruct (if m_by_number m then assoc sym (m_numbers m) else None); [exact H|].
  unfold mapper_new_taxon, numbers_ok. cbn [snd m_numbers forallb fst]. rewrite dec_of_nat_digits. exact H.
Qed.

Lemma assoc_digit_keys : forall (l : list (str * nat)) sym,
  forallb (fun p => is_digit_str (fst p)) l = true -> is_digit_str sym = false -> assoc sym l = None.
Proof.
  induction l as [|[k v] l IH]; intros sym H D; [reflexivity|].
  cbn [forallb fst] in H. apply andb_prop in H. destruct H as [H1 H2].
  cbn [assoc]. destruct (str_eqb sym k) eqn:E; [|apply IH; assumption].
  assert (sym = k).
  { clear -E. revert k E. induction sym as [|a s IH]; destruct k as [|b k]; cbn; intros E; try discriminate; [reflexivity|].
    unfold str_eqb in E. cbn in E. apply andb_prop in E. destruct E as [E1 E2]. apply Z.eqb_eq in E1. subst.
    f_equal. apply IH. exact E2. }
  subst. congruence.
Qed.

Definition with_switch (m : mapper) (b : bool) : mapper :=
  mkMapper (m_ns m) (m_tokens m) (m_labels m) (m_numbers m) b.

(* a symbol that is not a decimal numeral is resolved without the number table: the same taxon, the same new
   member if any, whether enable_lookup_by_taxon_number is on or off (so documents whose leaf symbols are labels or
   non-numeric TRANSLATE tokens are read alike by drivers that disagree on the switch) *)
Theorem N_non_numeral_ignores_switch : forall (m : mapper) (sym : str) (b : bool),
  numbers_ok m = true -> is_digit_str sym = false ->
  fst (require_taxon_for_symbol lower (with_switch m b) sym) = fst (require_taxon_for_symbol lower m sym)
  /\ snd (require_taxon_for_symbol lower (with_switch m b) sym)
     = with_switch (snd (require_taxon_for_symbol lower m sym)) b
  /\ numbers_ok (snd (require_taxon_for_symbol lower m sym)) = true.
Proof.
  intros m sym b H D. split; [|split; [|apply numbers_ok_require; exact H]];
  unfold require_taxon_for_symbol, with_switch; cbn [m_tokens m_labels m_numbers m_by_number m_ns];
  (destruct (assoc (lower sym) (m_tokens m)); [reflexivity|]);
  (destruct (assoc (lower sym) (m_labels m)); [reflexivity|]);
  rewrite (assoc_digit_keys (m_numbers m) sym H D); destruct b; destruct (m_by_number m); reflexivity.
Qed.
End Numbers.

(* the strengthening to all symbols is FALSE: over the namespace {a, b} the numeral "1" is the first member when the
   switch is on and a new taxon labelled "1" when it is off (what separates a driver that forgets to ask for number
   look-up from one that asks) *)
Lemma N_switch_matters_refuted_l :
  exists (taxa : list str) (sym : str),
    is_digit_str sym = true
    /\ fst (require_taxon_for_symbol (lower_with []) (new_mapper (lower_with []) taxa true) sym) = O
    /\ m_ns (snd (require_taxon_for_symbol (lower_with []) (new_mapper (lower_with []) taxa true) sym)) = taxa
    /\ fst (require_taxon_for_symbol (lower_with []) (new_mapper (lower_with []) taxa false) sym) = 2%nat
    /\ m_ns (snd (require_taxon_for_symbol (lower_with []) (new_mapper (lower_with []) taxa false) sym)) = taxa ++ [sym].
Proof. exists [q "a"; q "b"], (q "1"). vm_compute. repeat split. Qed.

(* finding taxon-number-resolution at the level of one look-up: a numeral is resolved by POSITION IN THE WHOLE
   NAMESPACE the mapper manages, so the taxon a document's "1" denotes depends on members the namespace already had
   (shared across calls) or got from another TAXA block: over {a, b} it is a, over {zz, a, b} it is zz; a label is
   immune (shared_namespace_same_taxa) *)
Lemma N_number_position_refuted_l :
  exists (pre taxa : list str) (sym : str),
    nth_error taxa (fst (require_taxon_for_symbol (lower_with []) (new_mapper (lower_with []) taxa true) sym)) = Some (q "a")
    /\ nth_error (pre ++ taxa)
         (fst (require_taxon_for_symbol (lower_with []) (new_mapper (lower_with []) (pre ++ taxa) true) sym)) = Some (q "zz").
Proof. exists [q "zz"], [q "a"; q "b"], (q "1"). vm_compute. split; reflexivity. Qed.

(* ================= 4. TAXLABELS is route-independent up to the NTAX-overflow error ================= *)
(* the only thing the statement reads from the route is whether a namespace is attached (it suppresses
   TooManyTaxaError); two routes that both get through the statement leave the namespace with the same members
   in the same order and the tokenizer in the same state *)
Lemma S_taxlabels_route_independent : forall (lower : str -> str) (c1 c2 : nscfg) (fuel : nat) (z : tz) (taxa : list str)
    (ntax : option Z) r1 r2,
  taxlabels_loop lower c1 fuel z taxa ntax = Ok r1 -> taxlabels_loop lower c2 fuel z taxa ntax = Ok r2 -> r1 = r2.
Proof.
  intros lower c1 c2. induction fuel as [|f IH]; intros z taxa ntax r1 r2 H1 H2; [discriminate|].
  cbn [taxlabels_loop] in H1, H2.
  destruct (z_cur z) as [label|]; [|discriminate].
  destruct (str_eqb label K_SEMI); [congruence|].
  destruct (ns_get_taxon lower taxa label).
  - cbn [bind] in H1, H2. destruct (require_next_token z) as [z1| |]; cbn [bind] in H1, H2; try discriminate.
    eapply IH; eassumption.
  - destruct ntax as [n|].
    + destruct ((n <=? Z.of_nat (length taxa))%Z && negb (c_attached c1 && negb (is_nil taxa))); cbn [bind] in H1; [discriminate|].
      destruct ((n <=? Z.of_nat (length taxa))%Z && negb (c_attached c2 && negb (is_nil taxa))); cbn [bind] in H2; [discriminate|].
      destruct (require_next_token z) as [z1| |]; cbn [bind] in H1, H2; try discriminate.
      eapply IH; eassumption.
    + cbn [bind] in H1, H2. destruct (require_next_token z) as [z1| |]; cbn [bind] in H1, H2; try discriminate.
      eapply IH; eassumption.
Qed.

Lemma numbers_hypotheses_satisfiable :
  numbers_ok (new_mapper (lower_with []) [q "a"; q "b"] true) = true /\ is_digit_str (q "b") = false.
Proof. vm_compute. split; reflexivity. Qed.

(* both routes get through a TAXLABELS statement: hypotheses of S_taxlabels_route_independent are satisfiable *)
Lemma taxlabels_hypotheses_satisfiable :
  exists z r,
    taxlabels_loop (lower_with []) (mkNsCfg true (FacFixed true)) 5 z [] (Some 1%Z) = Ok r
    /\ taxlabels_loop (lower_with []) (mkNsCfg false FacNew) 5 z [] (Some 1%Z) = Ok r
    /\ fst r = [q "a"].
Proof.
  exists (mkTz (Some (q "a")) false false [] [w (q ";")] (EndEof [])). eexists. vm_compute. repeat split.
Qed.
