(* C07, translator tie: the property theorems of reroot_at_midpoint restated for the GENERATED function
   (Gen/Midpoint.v), by rewriting with its equality to the model (Proofs/C07GenMidpoint.v). *)
From Coq Require Import ZArith List Bool Lia Permutation.
From DV Require Import Model.PyPrims Model.Tree Model.C07Model Model.C07Spec Model.C07GenMidPrims Gen.Midpoint
     Proofs.C07Base Proofs.C07Ops Proofs.C07Mid Proofs.C07Thms Proofs.C07GenMidpoint.
Import ListNotations.
Open Scope Z_scope.

(* the generated function on the tree with doubled lengths = C07Model.reroot_at_midpoint *)
Lemma gen_reroot_at_midpoint_eq_l t r a b upd supp coll fresh :
  NoDup (ids t) -> NoDup (leaf_taxa t) -> a <> b -> In a (leaf_taxa t) -> In b (leaf_taxa t) ->
  gen_reroot_at_midpoint (Some (a, b)) fresh (mkG (dbl t) r) upd supp coll
  = lift (reroot_at_midpoint t r (Some (a, b)) upd supp coll fresh).
Proof.
  intros NI ND Hab Ia Ib. unfold reroot_at_midpoint. apply gen_midpoint_core_eq; try assumption.
  - rewrite dbl_ids. assumption.
  - rewrite dbl_leaf_taxa. assumption.
  - rewrite dbl_leaf_taxa. assumption.
  - rewrite dbl_leaf_taxa. assumption.
Qed.

(* no pair (a tree with fewer than two leaves): TypeError on unpacking None, in both *)
Lemma gen_no_pair_l t r upd supp coll fresh :
  gen_reroot_at_midpoint None fresh (mkG t r) upd supp coll = lift (midpoint_core t r None upd supp coll fresh).
Proof.
  rewrite gen_is_mirror. unfold mirror, midpoint_core, pdm_from_tree. cbn [g_tree].
  destruct (negb (is_leaf t) && existsb is_none (leaf_taxa t)); reflexivity.
Qed.

Lemma lift_ok x s : lift x = Ok s -> x = Ok (g_tree s, g_rooted s).
Proof. destruct x as [[t' r']|e|]; simpl; intro H; inversion H. reflexivity. Qed.

Lemma gen_midpoint_invariant_l t r a b upd supp coll fresh s :
  gen_reroot_at_midpoint (Some (a, b)) fresh (mkG (dbl t) r) upd supp coll = Ok s ->
  NoDup (ids t) -> NoDup (leaf_taxa t) -> (2 <= length (t_kids t))%nat -> ~ In fresh (ids t) -> a <> b ->
  In a (leaf_taxa t) -> In b (leaf_taxa t) ->
  Permutation (leaf_taxa t) (leaf_taxa (g_tree s))
  /\ (forall S, is_usplit t S <-> is_usplit (g_tree s) S)
  /\ total_length (g_tree s) = 2 * total_length t
  /\ (forall x y, dist x y (g_tree s) = option_map (Z.mul 2) (dist x y t)).
Proof.
  intros H NI ND TK FR Hab Ia Ib. rewrite gen_reroot_at_midpoint_eq_l in H by assumption.
  apply lift_ok in H. eapply reroot_at_midpoint_l; eauto.
Qed.

Lemma gen_midpoint_equidistant_l t r a b upd supp coll fresh s :
  gen_reroot_at_midpoint (Some (a, b)) fresh (mkG (dbl t) r) upd supp coll = Ok s ->
  NoDup (ids t) -> NoDup (leaf_taxa t) -> (2 <= length (t_kids t))%nat -> ~ In fresh (ids t) -> a <> b ->
  In a (leaf_taxa t) -> In b (leaf_taxa t) ->
  exists D, dist a b t = Some D /\ dist a b (g_tree s) = Some (2 * D)
            /\ down a (g_tree s) = Some D /\ down b (g_tree s) = Some D
            /\ ((forall x y d, dist x y t = Some d -> d <= D) ->
                forall x y d, dist x y (g_tree s) = Some d -> d <= 2 * D).
Proof.
  intros H NI ND TK FR Hab Ia Ib. rewrite gen_reroot_at_midpoint_eq_l in H by assumption.
  apply lift_ok in H. eapply midpoint_equidistant_l; eauto.
Qed.

Lemma gen_midpoint_rooted_l t r a b upd supp coll fresh s :
  gen_reroot_at_midpoint (Some (a, b)) fresh (mkG (dbl t) r) upd supp coll = Ok s ->
  NoDup (ids t) -> NoDup (leaf_taxa t) -> a <> b -> In a (leaf_taxa t) -> In b (leaf_taxa t) ->
  g_rooted s = Some true.
Proof.
  intros H NI ND Hab Ia Ib. rewrite gen_reroot_at_midpoint_eq_l in H by assumption. apply lift_ok in H.
  apply (hard_flag t r (OMidpoint (Some (a, b)) upd supp coll fresh) (g_tree s) (g_rooted s)); [reflexivity | exact H].
Qed.

(* non-vacuity: ((A:3,B:2):2,(C:2,D:4):2), taxa 10..13, most distant pair (A, D): the midpoint falls
   inside the edge above node 4 (odd total), a new node 99 is put there (half units) *)
Definition exg : tree :=
  T 0 None None None
    [T 1 None None (Some 2) [T 2 (Some 10) None (Some 3) []; T 3 (Some 11) None (Some 2) []];
     T 4 None None (Some 2) [T 5 (Some 12) None (Some 2) []; T 6 (Some 13) None (Some 4) []]].

Lemma gen_midpoint_example_l :
  gen_reroot_at_midpoint (Some (Some 10, Some 13)) 99 (mkG (dbl exg) (Some false)) true true true
  = Ok (mkG (T 99 None None None
               [T 4 None None (Some 3) [T 5 (Some 12) None (Some 4) []; T 6 (Some 13) None (Some 8) []];
                T 1 None None (Some 5) [T 2 (Some 10) None (Some 6) []; T 3 (Some 11) None (Some 4) []]])
            (Some true))
  /\ NoDup (ids exg) /\ NoDup (leaf_taxa exg) /\ (2 <= length (t_kids exg))%nat /\ ~ In 99 (ids exg).
Proof.
  split; [vm_compute; reflexivity|]. split; [|split; [|split]].
  - vm_compute. repeat constructor; simpl; intuition congruence.
  - vm_compute. repeat constructor; simpl; intuition congruence.
  - simpl. lia.
  - vm_compute. intuition congruence.
Qed.
