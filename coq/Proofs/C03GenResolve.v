(* C03Gen: Tree.resolve_polytomies as generated = HeapOps.resolve_polytomies (deterministic branch
   and the branch with a scripted rng). *)
From Coq Require Import ZArith List Bool Lia.
From DV Require Import Model.PyPrims Model.Tree Model.Heap Model.HeapOps Model.C15Prims Model.MutPrims Gen.Mutators
     Model.C03GenInst Proofs.C03Base Proofs.C03GenPrims Proofs.C03GenNode Proofs.C03GenHeq Proofs.C03GenRemove
     Proofs.C03GenEdge Proofs.C03GenTree Proofs.C03GenPrune Proofs.C03GenMisc.
Import ListNotations.
Open Scope Z_scope.

Lemma gtb_ltb a b : Z.gtb a b = Z.ltb b a.
Proof. apply Z.gtb_ltb. Qed.

Lemma kids_fresh_node h node v :
  node <> next h -> kids (set_elen (next h) v (alloc None None None h)) node = kids h node.
Proof.
  intro N. unfold kids. rewrite get_set_elen. destruct (Z.eqb_spec node (next h)); [contradiction|].
  rewrite get_alloc. destruct (Z.eqb_spec node (next h)); [contradiction|reflexivity].
Qed.

(* ---------------------------------------------------------------- deterministic branch *)
Lemma resolve_det_S n limit node h :
  resolve_det (S n) limit node h =
  if limit <? len (kids h node) then
    match kids h node with
    | _ :: _ :: _ => hdo h6 <- det_step node h ;; resolve_det n limit node h6
    | _ => HErr IndexErr h
    end
  else HOk h.
Proof.
  simpl. destruct (limit <? len (kids h node)); [|reflexivity]. unfold det_step.
  destruct (kids h node) as [|c1 [|c2 r]]; try reflexivity. cbv zeta.
  repeat match goal with |- context [hbind ?x _] => destruct x; simpl; try reflexivity end.
Qed.

Lemma det_loop (limit node : Z) (step : unit -> heap -> mres heap (lctl unit)) :
  1 <= limit ->
  (forall u s, node <> next s -> (limit <? len (kids s node)) = true -> step u s = lift (LNext tt) (det_step node s)) ->
  (forall u s, (limit <? len (kids s node)) = false -> step u s = MOk (LBreak tt) s) ->
  forall f fuel h, (f <= fuel)%nat -> det_ok f limit node h -> resolve_det f limit node h <> HFuel ->
    mwhile fuel step tt h = lift tt (resolve_det f limit node h).
Proof.
  intros Hl Hs1 Hs2. induction f as [|f IH]; intros fuel h Hle Hok Hnf; [exfalso; apply Hnf; reflexivity|].
  destruct fuel as [|fuel]; [lia|]. rewrite resolve_det_S in *. simpl mwhile. simpl det_ok in Hok.
  destruct (limit <? len (kids h node)) eqn:El.
  - destruct Hok as [Hn Hok]. rewrite (Hs1 tt h Hn El).
    assert (H2 : exists c1 c2 r, kids h node = c1 :: c2 :: r).
    { apply Z.ltb_lt in El. unfold len in El. destruct (kids h node) as [|c1 [|c2 r]]; simpl in El; try lia.
      exists c1, c2, r. reflexivity. }
    destruct H2 as [c1 [c2 [r E]]]. rewrite E in *.
    destruct (det_step node h) as [h6|e h6|]; simpl lift; simpl hbind in *; [|reflexivity|exfalso; apply Hnf; reflexivity].
    apply IH; [lia|exact Hok|exact Hnf].
  - rewrite (Hs2 tt h El). reflexivity.
Qed.

(* ---------------------------------------------------------------- the branch with an rng *)
Lemma resolve_attach_cons node x r ci ch pts h :
  resolve_attach node (x :: r) (ci :: ch) pts h =
  match nth_error pts ci with
  | None => HFuel
  | Some sib => hdo h3 <- attach_step node x sib h ;; resolve_attach node r ch (pts ++ [next h; x]) h3
  end.
Proof.
  simpl. destruct (nth_error pts ci) as [sib|]; [|reflexivity]. unfold attach_step. cbv zeta.
  match goal with |- hbind ?X _ = hbind (hbind ?X _) _ => destruct X; reflexivity end.
Qed.

Lemma py_pop_last_snoc {A} (l : list A) x : py_pop_last (l ++ [x]) = Some (x, l).
Proof. unfold py_pop_last. rewrite rev_app_distr. simpl. rewrite rev_involutive. reflexivity. Qed.

Definition ast : Type := (list Z * list (list nat) * list Z)%type.

Lemma attach_loop (node : Z) (step : ast -> heap -> mres heap (lctl ast)) :
  (forall ta x ci rng pts s,
     step (ta ++ [x], [ci] :: rng, pts) s =
     match nth_error pts ci with
     | None => MFuel
     | Some sib =>
       match attach_step node x sib s with
       | HOk h3 => MOk (LNext (ta, rng, pts ++ [next s; x])) h3
       | HErr e h' => MErr e h'
       | HFuel => MFuel
       end
     end) ->
  (forall rng pts s, step ([], rng, pts) s = MOk (LBreak ([], rng, pts)) s) ->
  forall tar ch rest pts h fuel, length ch = length tar -> (length tar < fuel)%nat ->
    match mwhile fuel step (rev tar, map (fun c => [c]) ch ++ rest, pts) h with
    | MOk (_, r, _) s' => MOk r s'
    | MErr e s' => MErr e s'
    | MFuel => MFuel
    end = lift rest (resolve_attach node tar ch pts h).
Proof.
  intros Hs1 Hs2. induction tar as [|x r IH]; intros ch rest pts h fuel Hlen Hf.
  - destruct ch; [|discriminate]. destruct fuel as [|fuel]; [simpl in Hf; lia|]. simpl. rewrite Hs2. reflexivity.
  - destruct ch as [|ci ch]; [discriminate|]. destruct fuel as [|fuel]; [simpl in Hf; lia|].
    rewrite resolve_attach_cons. simpl rev. simpl map. simpl app. simpl mwhile. rewrite Hs1.
    destruct (nth_error pts ci) as [sib|]; [|reflexivity].
    destruct (attach_step node x sib h) as [h3|e h3|]; simpl hbind; try reflexivity.
    apply IH; [simpl in Hlen; lia|simpl in Hf; lia].
Qed.

Lemma nths_length (l : list Z) : forall ix xs, nths l ix = Some xs -> length xs = length ix.
Proof.
  induction ix as [|i r IH]; intros xs H; simpl in H; [inversion H; reflexivity|].
  destruct (nth_error l i); [|discriminate]. destruct (nths l r) as [ys|]; [|discriminate].
  inversion H; subst. simpl. f_equal. apply IH. reflexivity.
Qed.

Lemma py_len_snoc_pos {A} (l : list A) x : (py_len (l ++ [x]) >? 0) = true.
Proof. unfold py_len. rewrite app_length. simpl. apply Z.gtb_lt. lia. Qed.

(* the body of `while len(to_attach) > 0` as generated *)
Definition attach_body (node : Z) : ast -> heap -> mres heap (lctl ast) :=
  fun '(to_attach, rng, attachment_points) (s1 : heap) =>
    if py_len to_attach >? 0
    then
      match py_pop_last to_attach with
      | Some (next_child, to_attach0) =>
        match rng with
        | [dv_i] :: rng0 =>
          match nth_error attachment_points dv_i with
          | Some dv_pick8 =>
            if dv_pick8 =? node
            then
              match Node_add_child HG node (next s1) (alloc None None None s1) with
              | MOk _ s2 =>
                match mfor (fun (c : Z) (_ : unit) (s3 : heap) =>
                              match Node_remove_child__suppress_unifurcations_False HG node c s3 with
                              | MOk _ s4 =>
                                match Node_add_child HG (next s1) c s4 with
                                | MOk _ s5 => MOk (LNext tt) s5
                                | MErr dv_e s5 => MErr dv_e s5
                                | MFuel => MFuel
                                end
                              | MErr dv_e s4 => MErr dv_e s4
                              | MFuel => MFuel
                              end) (kids (alloc None None None s1) node) tt s2 with
                | MOk _ s3 =>
                  match Node_add_child HG node next_child s3 with
                  | MOk _ s4 => MOk (LNext (to_attach0, rng0, (attachment_points ++ [next s1]) ++ [next_child]))
                                    (set_elen (next s1) (Some 0) s4)
                  | MErr dv_e s4 => MErr dv_e s4
                  | MFuel => MFuel
                  end
                | MErr dv_e s3 => MErr dv_e s3
                | MFuel => MFuel
                end
              | MErr dv_e s2 => MErr dv_e s2
              | MFuel => MFuel
              end
            else
              match parent (alloc None None None s1) dv_pick8 with
              | Some p0 =>
                match Node_add_child HG p0 (next s1) (alloc None None None s1) with
                | MOk _ s2 =>
                  match Node_remove_child__suppress_unifurcations_False HG p0 dv_pick8 s2 with
                  | MOk _ s3 =>
                    match Node_add_child HG (next s1) dv_pick8 s3 with
                    | MOk _ s4 =>
                      match Node_add_child HG (next s1) next_child s4 with
                      | MOk _ s5 => MOk (LNext (to_attach0, rng0, (attachment_points ++ [next s1]) ++ [next_child]))
                                        (set_elen (next s1) (Some 0) s5)
                      | MErr dv_e s5 => MErr dv_e s5
                      | MFuel => MFuel
                      end
                    | MErr dv_e s4 => MErr dv_e s4
                    | MFuel => MFuel
                    end
                  | MErr dv_e s3 => MErr dv_e s3
                  | MFuel => MFuel
                  end
                | MErr dv_e s2 => MErr dv_e s2
                | MFuel => MFuel
                end
              | None => MErr AttrErr (alloc None None None s1)
              end
          | None => MFuel
          end
        | _ => MFuel
        end
      | None => MErr IndexErr s1
      end
    else MOk (LBreak (to_attach, rng, attachment_points)) s1.

Lemma attach_body_next node ta x ci rng pts s :
  attach_body node (ta ++ [x], [ci] :: rng, pts) s =
  match nth_error pts ci with
  | None => MFuel
  | Some sib =>
    match attach_step node x sib s with
    | HOk h3 => MOk (LNext (ta, rng, pts ++ [next s; x])) h3
    | HErr e h' => MErr e h'
    | HFuel => MFuel
    end
  end.
Proof.
  unfold attach_body. rewrite py_len_snoc_pos, py_pop_last_snoc.
  destruct (nth_error pts ci) as [sib|]; [|reflexivity].
  unfold attach_step. cbv zeta. rewrite <- app_assoc. simpl app.
  destruct (Z.eqb sib node).
  - rewrite gen_add_child_lift. destruct (add_child node (next s) (alloc None None None s)) as [a1|e a1|];
      simpl lift; simpl hbind; cbv iota; try reflexivity.
    rewrite (mfor_hfold _ (fun c h => hdo b <- remove_child_plain node c h ;; add_child (next s) c b)).
    2:{ intros c s0. rewrite gen_remove_plain_lift. destruct (remove_child_plain node c s0); simpl; try reflexivity.
        rewrite gen_add_child_lift. destruct (add_child (next s) c h); reflexivity. }
    destruct (hfold _ (kids (alloc None None None s) node) a1) as [a2|e a2|]; simpl lift; simpl hbind; cbv iota; try reflexivity.
    rewrite gen_add_child_lift. destruct (add_child node x a2); reflexivity.
  - destruct (parent (alloc None None None s) sib) as [p|]; [|reflexivity].
    repeat (first [rewrite gen_remove_plain_lift | rewrite gen_add_child_lift];
            match goal with |- context [lift _ ?X] => destruct X; simpl lift; simpl hbind; cbv iota beta; try reflexivity end).
Qed.

Lemma attach_body_stop node rng pts s : attach_body node ([], rng, pts) s = MOk (LBreak ([], rng, pts)) s.
Proof. reflexivity. Qed.

(* ---------------------------------------------------------------- for node in polytomies *)
Definition rscript : Type := option (list (list nat)).

Lemma each_loop (fuel : nat) (limit : Z) (b : Z -> rscript -> heap -> mres heap (lctl rscript)) :
  (forall node s, (S (length (kids s node)) <= fuel)%nat -> det_ok (S (length (kids s node))) limit node s ->
     resolve_det (S (length (kids s node))) limit node s <> HFuel ->
     b node None s = lift (LNext None) (resolve_det (S (length (kids s node))) limit node s)) ->
  (forall node sm ch rest s, length ch = length sm -> (length sm < fuel)%nat ->
     b node (Some (sm :: map (fun c => [c]) ch ++ rest)) s = lift (LNext (Some rest)) (resolve_rng limit node sm ch s)) ->
  (forall node s, b node (Some []) s = MFuel) ->
  forall nodes script h, rp_ok fuel limit nodes script h -> resolve_each limit nodes script h <> HFuel ->
    exists v, mfor b nodes (option_map flat_script script) h = lift (LNext v) (resolve_each limit nodes script h).
Proof.
  intros HbN HbS HbE. induction nodes as [|node r IH]; intros script h Hok Hnf.
  - eexists. reflexivity.
  - destruct script as [[|[sm ch] sc]|]; cbn [resolve_each] in *; cbn [rp_ok] in Hok.
    + exfalso. apply Hnf. reflexivity.
    + destruct Hok as [Hf [Hl Hok]]. simpl option_map. simpl flat_script. simpl mfor.
      change (flat_map (fun p => fst p :: map (fun c => [c]) (snd p)) sc) with (flat_script sc).
      rewrite (HbS node sm ch (flat_script sc) h Hl Hf).
      destruct (resolve_rng limit node sm ch h) as [h1|e h1|]; simpl lift; simpl hbind in *.
      * apply (IH (Some sc) h1 Hok Hnf).
      * exists None. reflexivity.
      * exfalso. apply Hnf. reflexivity.
    + destruct Hok as [Hf [Hd Hok]]. simpl option_map. simpl mfor.
      assert (Hnf1 : resolve_det (S (length (kids h node))) limit node h <> HFuel).
      { intro E. apply Hnf. rewrite E. reflexivity. }
      rewrite (HbN node h Hf Hd Hnf1).
      destruct (resolve_det (S (length (kids h node))) limit node h) as [h1|e h1|]; simpl lift; simpl hbind in *.
      * apply (IH None h1 Hok Hnf).
      * exists None. reflexivity.
      * exfalso. apply Hnf1. reflexivity.
Qed.

Theorem gen_resolve_polytomies (fuel : nat) (limit : Z) (script : option (list (list nat * list nat))) (ub : bool) (h : heap) :
  1 <= limit ->
  (forall t, abs_at h (seed h) = Some t ->
             rp_ok fuel limit (filter (fun nd => limit <? len (kids h nd)) (post_ids t)) script h) ->
  resolve_polytomies limit script ub h <> HFuel ->
  to_hres (Tree_resolve_polytomies HG fuel limit ub (option_map flat_script script) h) = resolve_polytomies limit script ub h.
Proof.
  intros Hl Hok Hnf. unfold Tree_resolve_polytomies, resolve_polytomies, with_sub in *. hsimpm. cbv zeta.
  destruct (abs_at h (seed h)) as [t|]; [|reflexivity]. specialize (Hok t eq_refl).
  rewrite (collect_loop (fun s nd => limit <? len (kids s nd)))
    by (intros x acc s; rewrite gtb_ltb; change (py_len (kids s x)) with (len (kids s x));
        destruct (limit <? len (kids s x)); reflexivity).
  cbn [lctl_val app]. cbv beta.
  match goal with |- context [mfor ?b (filter _ (post_ids t)) (option_map flat_script script) h] =>
    destruct (each_loop fuel limit b) with (nodes := filter (fun nd => limit <? len (kids h nd)) (post_ids t))
                                           (script := script) (h := h) as [v E]
  end.
  - (* deterministic *)
    intros node s Hf Hd Hn1. cbv beta iota.
    match goal with |- context [mwhile fuel ?d tt s] =>
      rewrite (det_loop limit node d Hl) with (f := S (length (kids s node))); try assumption
    end.
    + destruct (resolve_det (S (length (kids s node))) limit node s); reflexivity.
    + intros u s0 Hn El. cbv beta. unfold Node__get_edge. hsimpm. cbv zeta. rewrite gtb_ltb.
      change (py_len (kids s0 node)) with (len (kids s0 node)). rewrite El.
      rewrite !kids_fresh_node by exact Hn. unfold det_step.
      assert (H2 : exists c1 c2 r, kids s0 node = c1 :: c2 :: r).
      { apply Z.ltb_lt in El. unfold len in El. destruct (kids s0 node) as [|c1 [|c2 r]]; simpl in El; try lia.
        exists c1, c2, r. reflexivity. }
      destruct H2 as [c1 [c2 [r E]]]. rewrite E. cbv zeta.
      change (py_index (c1 :: c2 :: r) 0) with (Some c1). change (py_index (c1 :: c2 :: r) 1) with (Some c2).
      cbv iota beta.
      repeat (first [rewrite gen_remove_plain_lift | rewrite gen_add_child_lift];
              match goal with |- context [lift _ ?X] => destruct X; simpl lift; simpl hbind; cbv iota beta; try reflexivity end).
    + intros u s0 El. cbv beta. hsimpm. cbv zeta. rewrite gtb_ltb.
      change (py_len (kids s0 node)) with (len (kids s0 node)). rewrite El. reflexivity.
  - intros node sm ch rest s Hlen Hf. cbv beta iota. unfold Node__get_edge. hsimpm. cbv zeta.
    rewrite py_nths_nths. unfold resolve_rng. destruct (nths (kids s node) sm) as [ta|] eqn:Et; [|reflexivity].
    rewrite (mfor_hfold _ (remove_child_plain node))
      by (intros x s0; rewrite gen_remove_plain_lift; destruct (remove_child_plain node x s0); reflexivity).
    destruct (hfold (remove_child_plain node) ta s) as [h1|e h1|]; simpl lift; simpl hbind; cbv iota; try reflexivity.
    match goal with |- context [mwhile fuel ?a _ h1] =>
      pose proof (attach_loop node a) as L
    end.
    specialize (L (attach_body_next node) (attach_body_stop node) (rev ta) ch rest (kids h1 node ++ [node]) h1 fuel).
    rewrite rev_involutive, rev_length, (nths_length _ _ _ Et) in L. specialize (L Hlen Hf).
    match goal with |- context [mwhile fuel ?a ?v0 h1] => set (R := mwhile fuel a v0 h1) in * end.
    match type of L with context [mwhile fuel ?a' ?v' h1] => change (mwhile fuel a' v' h1) with R in L end.
    clearbody R. destruct R as [[[ta' r'] p'] s'|e s'|];
      destruct (resolve_attach node (rev ta) ch (kids h1 node ++ [node]) h1); simpl in L; try discriminate;
      inversion L; subst; reflexivity.
  - intros node s. reflexivity.
  - exact Hok.
  - intro E. apply Hnf. rewrite E. reflexivity.
  - match goal with |- context [mfor ?b0 ?l0 ?r0 h] =>
      replace (mfor b0 l0 r0 h) with (lift (LNext v) (resolve_each limit (filter (fun nd => limit <? len (kids h nd)) (post_ids t)) script h))
        by (symmetry; exact E) end.
    destruct (resolve_each limit _ script h) as [h1|e h1|]; simpl lift; simpl hbind; cbv iota; try reflexivity.
    unfold ub_tail. destruct ub; [|reflexivity]. destruct (encode_structural true true h1); reflexivity.
Qed.
