(* C11: preservation of the closure invariant - readers, whole-list migrations, purge, matrices *)
From Coq Require Import List Bool Arith ZArith Lia.
From DV Require Import Model.PyPrims Model.C11Model Proofs.C11Base Proofs.C11Inv Proofs.C11Ops.
Import ListNotations.
Open Scope nat_scope.

Lemma alloc_tree_lframe : forall st t n, lframe st (fst (alloc_tree st t)) n.
Proof.
  intros. split; [split; [simpl; lia | intros j L' H; right; exact H]|].
  simpl. split; [reflexivity|]. split; [reflexivity|].
  split; [rewrite app_length; lia | intros k x H; exact H].
Qed.

Lemma set_tree_lframe : forall st i t n, lframe st (set_tree st i t) n.
Proof. intros. apply frame_lframe; [apply set_tree_frame | intros k x H; exact H]. Qed.

Lemma grows_lframe : forall st st' n, grows st st' -> lframe st st' n.
Proof. intros st st' n G. apply frame_lframe; [apply grows_frame; exact G | apply G]. Qed.

Section WithLower.
Variable lower : lbl -> lbl.

(* ---- readers ---- *)
Lemma read_refs_spec : forall n cs labels st seen st' refs ok,
  read_refs lower st n cs labels seen = (st', refs, ok) ->
  (forall y, In y seen -> In y (members st n)) ->
  grows st st' /\ (forall y, In y refs -> In y (members st' n)).
Proof.
  intros n cs labels. induction labels as [|l r IH]; intros st seen st' refs ok H Hs; simpl in H.
  - inv H. split; [apply grows_refl | exact Hs].
  - destruct (match last_match lower st n cs l with Some t => (st, t) | None => new_taxon st n l end)
      as [st1 t] eqn:Q.
    assert (Q' : grows st st1 /\ In t (members st1 n)).
    { destruct (last_match lower st n cs l) as [t0|] eqn:E.
      - inv Q. split; [apply grows_refl|]. unfold last_match in E. apply find_some in E.
        apply in_rev. apply E.
      - eapply new_taxon_spec. exact Q. }
    destruct Q' as [G1 I1].
    destruct (memb t seen) eqn:M.
    + inv H. split; [exact G1|]. intros y Hy. apply G1, Hs, Hy.
    + destruct (IH _ _ _ _ _ H) as [G2 I2].
      * intros y Hy. apply in_app_or in Hy. destruct Hy as [Hy|[Hy|[]]]; [apply G1, Hs, Hy | subst; exact I1].
      * split; [eapply grows_trans; eassumption | exact I2].
Qed.

Lemma read_trees_spec : forall cs trees XL XD st l,
  ClosedX XL XD st -> l < length (s_lists st) ->
  let st' := fst (read_trees lower st l cs trees) in
  ClosedX XL XD st' /\ lframe st st' (l_ns (getlist st l)).
Proof.
  intros cs trees. induction trees as [|labels r IH]; intros XL XD st l C V; cbn [read_trees].
  - split; [exact C | apply lframe_refl].
  - set (n := l_ns (getlist st l)).
    pose proof (alloc_tree_closedX XL XD st (mkTree n []) C) as C1.
    assert (C1' : ClosedX XL XD (fst (alloc_tree st (mkTree n [])))) by (apply C1; intros x []).
    clear C1. destruct (alloc_tree st (mkTree n [])) as [st1 tr] eqn:A.
    assert (Etr : tr = length (s_trees st)) by (unfold alloc_tree in A; inv A; reflexivity).
    assert (T1 : s_trees st1 = s_trees st ++ [mkTree n []]) by (unfold alloc_tree in A; inv A; reflexivity).
    assert (L1 : s_lists st1 = s_lists st) by (unfold alloc_tree in A; inv A; reflexivity).
    assert (LF1 : lframe st st1 n).
    { pose proof (alloc_tree_lframe st (mkTree n []) n) as X. rewrite A in X. exact X. }
    cbn [fst snd] in *.
    assert (GL1 : getlist st1 l = getlist st l) by (unfold getlist; rewrite L1; reflexivity).
    destruct (list_push_spec XL XD st1 l tr C1') as [C2 LF2].
    { rewrite L1. exact V. }
    { rewrite T1, app_length. simpl. lia. }
    { intros _. rewrite GL1. unfold gettree. rewrite T1, Etr, app_nth2 by lia. rewrite Nat.sub_diag. reflexivity. }
    rewrite GL1 in LF2. fold n in LF2.
    set (st2 := list_push st1 l tr) in *.
    destruct (read_refs lower st2 n cs labels []) as [[st3 refs] ok] eqn:R.
    destruct (read_refs_spec _ _ _ _ _ _ _ _ R) as [G3 I3]; [intros y []|].
    assert (C3 : ClosedX XL XD st3) by (eapply grows_closedX; eassumption).
    assert (C4 : ClosedX XL XD (set_tree st3 tr (mkTree n refs))).
    { apply set_tree_closedX; [exact C3 | intros x Hx; apply I3, Hx |].
      simpl. intros i L Ei NX Hin.
      destruct G3 as [[_ [L3 _]] _]. rewrite L3 in Ei.
      destruct LF2 as [[_ A1] _]. destruct (A1 i L Ei) as [K|K]; [exact K|].
      (* an unchanged old list cannot hold the brand-new tree *)
      rewrite L1 in K. destruct C as [_ [_ [Cl _]]]. destruct (Cl i L K) as [W _]. specialize (W tr Hin). lia. }
    set (st4 := set_tree st3 tr (mkTree n refs)) in *.
    assert (LF4 : lframe st st4 n).
    { eapply lframe_trans; [exact LF1|]. eapply lframe_trans; [exact LF2|].
      eapply lframe_trans; [apply grows_lframe; exact G3 | apply set_tree_lframe]. }
    destruct ok.
    + assert (V4 : l < length (s_lists st4)).
      { destruct LF4 as [[A0 _] _]. apply Nat.lt_le_trans with (length (s_lists st)); [exact V | exact A0]. }
      assert (E4 : l_ns (getlist st4 l) = n) by (eapply lframe_getlist_ns; [exact LF4 | exact V | reflexivity]).
      destruct (IH XL XD st4 l C4 V4) as [C5 LF5]. rewrite E4 in LF5.
      split; [exact C5 | eapply lframe_trans; eassumption].
    + cbn [fst]. split; [exact C4 | exact LF4].
Qed.

(* ---- whole-list migrations ---- *)
Lemma migrate_tree_keeps : forall XL XD st tr n u memo x,
  ClosedX XL XD st -> Holders XL st tr n ->
  t_ns (gettree st x) = n -> t_ns (gettree (fst (migrate_tree lower st tr n u memo)) x) = n.
Proof.
  intros XL XD st tr n u memo x C H E.
  destruct (migrate_tree_spec lower XL XD st tr n u memo C H) as [_ [F [_ [N K]]]].
  destruct (Nat.eq_dec x tr) as [Eq|Ne]; [|rewrite K by exact Ne; exact E]. subst x.
  destruct (Nat.lt_ge_cases tr (length (s_trees st))) as [V|V]; [apply N, V|].
  destruct F as [_ [_ [_ FT]]].
  assert (X : gettree (fst (migrate_tree lower st tr n u memo)) tr = gettree st tr).
  { unfold gettree. rewrite !nth_overflow by lia. reflexivity. }
  rewrite X. exact E.
Qed.

Lemma migrate_trees_spec : forall trs XL XD st n u memo,
  ClosedX XL XD st -> (forall tr, In tr trs -> Holders XL st tr n) ->
  let st' := fst (migrate_trees lower st n u trs memo) in
  ClosedX XL XD st' /\ frame st st' /\ mono st st'
  /\ (forall x : oid, t_ns (gettree st x) = n -> t_ns (gettree st' x) = n)
  /\ (forall tr : oid, In tr trs -> tr < length (s_trees st) -> t_ns (gettree st' tr) = n)
  /\ (forall x : oid, ~ In x trs -> gettree st' x = gettree st x).
Proof.
  induction trs as [|tr r IH]; intros XL XD st n u memo C H; cbn [migrate_trees].
  - cbn [fst]. split; [exact C|]. split; [apply frame_refl|]. split; [intros k x Hx; exact Hx|].
    split; [intros x E; exact E|]. split; [intros tr []| reflexivity].
  - pose proof (H tr (or_introl eq_refl)) as Ht.
    destruct (migrate_tree_spec lower XL XD st tr n u memo C Ht) as [C1 [F1 [M1 [N1 K1]]]].
    pose proof (fun x => migrate_tree_keeps XL XD st tr n u memo x C Ht) as Keep1.
    destruct (migrate_tree lower st tr n u memo) as [st1 memo1] eqn:Q. cbn [fst] in *.
    destruct (IH XL XD st1 n u memo1 C1) as [C2 [F2 [M2 [Keep2 [N2 K2]]]]].
    + intros x Hx. eapply Holders_frame; [apply F1 | apply H; right; exact Hx].
    + split; [exact C2|]. split; [eapply frame_trans; eassumption|].
      split; [intros k x Hx; apply M2, M1, Hx|]. split; [intros x E; apply Keep2, Keep1, E|]. split.
      * intros x [Hx|Hx] Vx; [subst x; apply Keep2, N1, Vx|].
        apply N2; [exact Hx|]. destruct F1 as [_ [_ [_ FT]]]. lia.
      * intros x Hx. rewrite K2 by (intro Hr; apply Hx; right; exact Hr).
        apply K1. intro Eq. apply Hx. left. symmetry. exact Eq.
Qed.

Lemma update_trees_spec : forall trs XL XD st n,
  ClosedX XL XD st -> (forall tr, In tr trs -> Holders XL st tr n) ->
  ClosedX XL XD (update_trees st n trs).
Proof.
  induction trs as [|tr r IH]; intros XL XD st n C H; cbn [update_trees]; [exact C|].
  destruct (update_tree_spec XL XD st tr n C (H tr (or_introl eq_refl))) as [C1 [F1 _]].
  apply IH; [exact C1|]. intros x Hx. eapply Holders_frame; [apply F1 | apply H; right; exact Hx].
Qed.

Lemma ClosedX_unexempt : forall XL XD st l L,
  ClosedX (fun i => XL i \/ i = l) XD st -> nth_error (s_lists st) l = Some L -> list_ok st L ->
  ClosedX (fun i => XL i /\ i <> l) XD st.
Proof.
  intros XL XD st l L [C1 [C2 [C3 C4]]] E OK. closed_split; try assumption.
  intros i L0 E0. destruct (C3 i L0 E0) as [W K]. split; [exact W|]. intro NX.
  destruct (Nat.eq_dec i l) as [Eq|Ne].
  - subst i. rewrite E in E0. inv E0. exact OK.
  - apply K. intros [HX|HX]; [apply NX; split; assumption | contradiction].
Qed.

Lemma migrate_list_spec : forall XL XD st l n u memo,
  ClosedX XL XD st -> l < length (s_lists st) ->
  (forall tr i L, In tr (l_trees (getlist st l)) -> nth_error (s_lists st) i = Some L ->
                  ~ XL i -> i <> l -> In tr (l_trees L) -> l_ns L = n) ->
  (forall i d, nth_error (s_dss st) i = Some d -> ~ XD i -> In l (d_lists d) ->
               forall a, d_att d = Some a -> n = a) ->
  let st' := fst (migrate_list lower st l n u memo) in
  ClosedX (fun i => XL i /\ i <> l) XD st'
  /\ s_lists st' = upd (s_lists st) l (mkTL n (l_trees (getlist st l)))
  /\ s_mats st' = s_mats st /\ s_dss st' = s_dss st /\ length (s_trees st') = length (s_trees st)
  /\ mono st st'
  /\ (forall x : oid, t_ns (gettree st x) = n -> t_ns (gettree st' x) = n).
Proof.
  intros XL XD st l n u memo C V Hold DS. unfold migrate_list, reconstruct_list.
  set (trs := l_trees (getlist st l)).
  set (st0 := set_list st l (mkTL n trs)).
  pose proof (nth_nth_error _ (s_lists st) l dlist V) as G. fold (getlist st l) in G.
  assert (W : list_wf st (mkTL n trs)).
  { destruct C as [_ [_ [C3 _]]]. destruct (C3 _ _ G) as [W _]. exact W. }
  assert (C0 : ClosedX (fun i => XL i \/ i = l) XD st0).
  { apply set_list_closedX.
    - eapply ClosedX_weaken; [| |exact C]; [intros i Hi; left; exact Hi | intros i Hi; exact Hi].
    - exact W.
    - intro NX. exfalso. apply NX. right. reflexivity.
    - simpl. intros i d Ed NX Hin a Ha. eapply DS; eassumption. }
  assert (G0 : nth_error (s_lists st0) l = Some (mkTL n trs)).
  { unfold st0. simpl. eapply nth_error_upd_same. exact G. }
  assert (E0 : getlist st0 l = mkTL n trs) by (apply getlist_some; exact G0).
  rewrite E0. cbn [l_ns l_trees].
  destruct (migrate_trees_spec trs (fun i => XL i \/ i = l) XD st0 n u memo C0) as [C1 [F1 [M1 [Keep1 [N1 _]]]]].
  { intros tr Htr i L Ei NX Hin. unfold st0 in Ei. simpl in Ei.
    destruct (Nat.eq_dec i l) as [Eq|Ne]; [exfalso; apply NX; right; exact Eq|].
    rewrite nth_error_upd_other in Ei by exact Ne.
    eapply Hold; try eassumption. intro HX. apply NX. left. exact HX. }
  set (st1 := fst (migrate_trees lower st0 n u trs memo)) in *.
  destruct F1 as [FL [FM [FD FT]]].
  split; [|split; [exact FL|]; split; [exact FM|]; split; [exact FD|]; split; [exact FT|]; split; [exact M1 | exact Keep1]].
  apply ClosedX_unexempt with (L := mkTL n trs); [exact C1 | rewrite FL; exact G0 |].
  intros tr Htr. cbn [l_trees l_ns] in *.
  assert (Vt : tr < length (s_trees st0)) by (apply W, Htr).
  exists (gettree st1 tr). split; [apply lt_tree_get; lia | apply N1; assumption].
Qed.

(* ---- purge ---- *)
Lemma purge_closed : forall st n polled,
  Closed st -> purge_ok st n polled = true -> Closed (purge_ns st n polled).
Proof.
  intros st n polled [C1 [C2 [C3 C4]]] P. unfold purge_ok in P. apply andb_true_iff in P. destruct P as [P1 P2].
  unfold Closed, purge_ns. closed_split; simpl; try assumption.
  - intros i t E x Hx. pose proof (C1 i t E x Hx) as Old.
    rewrite members_set_members. destruct (Nat.eqb (t_ns t) n) eqn:En; [|exact Old].
    apply Nat.eqb_eq in En. rewrite En in Old. apply filter_In. split; [exact Old|].
    assert (Q : negb (Nat.eqb (t_ns t) n) || forallb (fun x => memb x polled) (t_refs t) = true).
    { apply (forallb_In _ _ _ t P1). eapply nth_error_In. exact E. }
    rewrite En, Nat.eqb_refl in Q. simpl in Q. apply (forallb_In _ _ _ x Q Hx).
  - intros i m E x Hx. pose proof (C2 i m E x Hx) as Old.
    rewrite members_set_members. destruct (Nat.eqb (m_ns m) n) eqn:En; [|exact Old].
    apply Nat.eqb_eq in En. rewrite En in Old. apply filter_In. split; [exact Old|].
    assert (Q : negb (Nat.eqb (m_ns m) n) || forallb (fun x => memb x polled) (m_rows m) = true).
    { apply (forallb_In _ _ _ m P2). eapply nth_error_In. exact E. }
    rewrite En, Nat.eqb_refl in Q. simpl in Q. apply (forallb_In _ _ _ x Q Hx).
Qed.

(* ---- matrices ---- *)
Lemma recon_rows_spec : forall n u orig st rows memo st' rows' memo' ok,
  recon_rows lower st n u orig rows memo = (st', rows', memo', ok) ->
  grows st st' /\
  (ok = true -> (forall y, In y rows -> In y (members st n) \/ In y orig) ->
   forall y, In y rows' -> In y (members st' n)).
Proof.
  intros n u orig. induction orig as [|x r IH]; intros st rows memo st' rows' memo' ok H; cbn [recon_rows] in H.
  - inv H. split; [apply grows_refl|]. intros _ Hr y Hy. destruct (Hr y Hy) as [K|[]]. exact K.
  - destruct (u || negb (memb x (members st n))) eqn:Cnd.
    + destruct (match alookup x memo with
                | Some t => (add_member st n t, t, memo)
                | None => let '(s1, t) := if u then require_taxon lower st n (label st x) (ns_cs st n)
                                          else new_taxon st n (label st x) in (s1, t, (x, t) :: memo)
                end) as [[st1 t] memo1] eqn:Q.
      assert (Q' : grows st st1 /\ In t (members st1 n)).
      { destruct (alookup x memo) as [t0|].
        - inv Q. split; [apply add_member_grows | apply add_member_In].
        - destruct (if u then require_taxon lower st n (label st x) (ns_cs st n) else new_taxon st n (label st x))
            as [s1 t1] eqn:Q2. inv Q.
          destruct u; [eapply require_taxon_spec; exact Q2 | eapply new_taxon_spec; exact Q2]. }
      destruct Q' as [G1 I1].
      assert (H' : (if memb t rows then (st1, rows, memo1, false)
                    else recon_rows lower st1 n u r (remove_id x rows ++ [t]) memo1) = (st', rows', memo', ok)).
      { rewrite <- H. destruct (alookup x memo); [inv Q; reflexivity|].
        destruct (if u then require_taxon lower st n (label st x) (ns_cs st n) else new_taxon st n (label st x)).
        inv Q. reflexivity. }
      clear H Q. destruct (memb t rows).
      * inv H'. split; [exact G1|]. intro D. discriminate.
      * destruct (IH _ _ _ _ _ _ _ H') as [G2 I2]. split; [eapply grows_trans; eassumption|].
        intros Ok Hr. apply I2; [exact Ok|]. intros y Hy. apply in_app_or in Hy. destruct Hy as [Hy|[Hy|[]]].
        -- apply In_remove_id in Hy. destruct Hy as [Hy Ne]. destruct (Hr y Hy) as [K|[K|K]].
           ++ left. apply G1, K.
           ++ congruence.
           ++ right. exact K.
        -- subst y. left. exact I1.
    + destruct (IH _ _ _ _ _ _ _ H) as [G2 I2]. split; [exact G2|].
      intros Ok Hr. apply I2; [exact Ok|]. intros y Hy. destruct (Hr y Hy) as [K|[K|K]].
      * left. exact K.
      * subst y. left. apply orb_false_iff in Cnd. destruct Cnd as [_ Cnd].
        apply negb_false_iff in Cnd. apply memb_In. exact Cnd.
      * right. exact K.
Qed.

Lemma migrate_mat_spec : forall XL XD st m n u memo,
  ClosedX XL XD st ->
  (forall i d, nth_error (s_dss st) i = Some d -> ~ XD i -> In m (d_mats d) ->
               forall a, d_att d = Some a -> n = a) ->
  snd (migrate_mat lower st m n u memo) = true ->
  let st' := fst (fst (migrate_mat lower st m n u memo)) in
  ClosedX XL XD st' /\ s_lists st' = s_lists st /\ s_trees st' = s_trees st /\ s_dss st' = s_dss st
  /\ length (s_mats st') = length (s_mats st) /\ mono st st'
  /\ (m < length (s_mats st) -> m_ns (getmat st' m) = n)
  /\ (forall j, j <> m -> nth_error (s_mats st') j = nth_error (s_mats st) j).
Proof.
  intros XL XD st m n u memo C DS Ok. unfold migrate_mat in *.
  destruct (recon_rows lower st n u (m_rows (getmat st m)) (m_rows (getmat st m)) memo) as [[[st1 rows'] memo'] ok] eqn:R.
  cbn [fst snd] in *. subst ok.
  destruct (recon_rows_spec _ _ _ _ _ _ _ _ _ _ R) as [G I].
  assert (I' : forall y, In y rows' -> In y (members st1 n)).
  { apply I; [reflexivity|]. intros y Hy. right. exact Hy. }
  pose proof (grows_closedX XL XD st st1 G C) as C1.
  destruct G as [[T [L [M D]]] Mo].
  split; [|split; [exact L|]; split; [exact T|]; split; [exact D|]; split; [|split; [|split]]].
  - apply set_mat_closedX; [exact C1 | exact I' |]. simpl. rewrite D. intros i d Ed NX Hin a Ha.
    eapply DS; eassumption.
  - simpl. rewrite upd_length, M. reflexivity.
  - intros k x Hx. simpl. apply Mo, Hx.
  - intro V. unfold getmat. simpl.
    assert (X : nth_error (upd (s_mats st1) m (mkMat n rows')) m = Some (mkMat n rows')).
    { destruct (nth_error (s_mats st1) m) eqn:E; [eapply nth_error_upd_same; exact E|].
      apply nth_error_None in E. rewrite M in E. lia. }
    rewrite (nth_error_some_nth _ _ _ dmat _ X). reflexivity.
  - intros j Ne. simpl. rewrite nth_error_upd_other by exact Ne. rewrite M. reflexivity.
Qed.

Lemma read_rows_spec : forall rows XL XD st m,
  ClosedX XL XD st -> m < length (s_mats st) ->
  ClosedX XL XD (fst (read_rows lower st m rows)).
Proof.
  induction rows as [|l r IH]; intros XL XD st m C V; cbn [read_rows]; [exact C|].
  set (n := m_ns (getmat st m)).
  destruct (require_taxon lower st n l (ns_cs st n)) as [st1 t] eqn:Q.
  destruct (require_taxon_spec lower _ _ _ _ _ _ Q) as [G I].
  pose proof (grows_closedX XL XD st st1 G C) as C1.
  assert (M1 : s_mats st1 = s_mats st) by apply G.
  assert (GM : getmat st1 m = getmat st m) by (unfold getmat; rewrite M1; reflexivity).
  rewrite GM. destruct (memb t (m_rows (getmat st m))); [exact C1|].
  apply IH; [|simpl; rewrite upd_length, M1; exact V].
  pose proof (nth_nth_error _ (s_mats st1) m dmat) as Gm. rewrite M1 in Gm. specialize (Gm V).
  rewrite <- M1 in Gm. fold (getmat st1 m) in Gm. rewrite GM in Gm.
  apply set_mat_closedX; [exact C1 | |].
  - intros x Hx. cbn [m_rows m_ns] in *. apply in_app_or in Hx. destruct Hx as [Hx|[Hx|[]]]; [|subst; exact I].
    apply G. apply (closed_mat_ok XL XD st m C). exact Hx.
  - cbn [m_ns]. eapply ds_clause_mat; eassumption.
Qed.

End WithLower.
