(* C14 translator tie: the generated summary kernels _calculate_mean_pairwise_distance and
   _calculate_mean_nearest_taxon_distance (Gen/Pdm.v, one copy per value of is_weighted_edge_distances)
   compute the hand model's mean_pairwise_distance / mean_nearest_taxon_distance: same exception, or
   equal rationals (the source adds machine numbers and divides once; the model adds the rationals). *)
From Coq Require Import ZArith QArith List Bool Lia.
From DV Require Import Model.PyPrims Model.Tree Model.C14Model Model.C14GenPrims Gen.Pdm
  Proofs.C14Dict Proofs.C14Pdm Proofs.C14GenBase.
Import ListNotations.
Open Scope Z_scope.

Definition res_qeq (r1 r2 : res Q) : Prop :=
  match r1, r2 with
  | Ok a, Ok b => (a == b)%Q
  | Err e1, Err e2 => e1 = e2
  | OutOfFuel, OutOfFuel => True
  | _, _ => False
  end.

(* the kernels of the hand model, as functions of the comparison regime *)
Definition mpd_kernel (p : pdm) (w n : bool) (regime : list (Z * Z)) : res Q :=
  do ds <- res_map (fun ab => dmatrix p w (fst ab) (snd ab)) regime ;;
  mean_of p w n ds.

Definition mntd_kernel (p : pdm) (w n : bool) (cr : dict (list Z)) : res Q :=
  do mins <- res_map (fun ao : Z * list Z =>
                        do ds <- res_map (fun b => dmatrix p w (fst ao) b) (snd ao) ;;
                        match ds with
                        | [] => Err IndexErr
                        | d0 :: r => Ok (min_from d0 r)
                        end) cr ;;
  mean_of p w n mins.

Lemma res_map_map {A B C} (f : B -> res C) (g : A -> B) l : res_map f (map g l) = res_map (fun x => f (g x)) l.
Proof. induction l as [|x l IH]; cbn [map res_map]; [reflexivity|]. rewrite IH. reflexivity. Qed.

Lemma res_map_ext {A B} (f g : A -> res B) l : (forall x, In x l -> f x = g x) -> res_map f l = res_map g l.
Proof.
  induction l as [|x l IH]; intro H; cbn [res_map]; [reflexivity|].
  rewrite (H x (or_introl eq_refl)), IH; [reflexivity|]. intros y Hy. apply H. right. exact Hy.
Qed.

Lemma mean_pairwise_distance_kernel p filt w n :
  mean_pairwise_distance p filt w n =
  if existsb (fun ab => Z.eqb (fst ab) (snd ab)) (p_pairs p) then Err ValueErr
  else mpd_kernel p w n (filter (fun ab => passes filt (fst ab) && passes filt (snd ab)) (p_pairs p)).
Proof. reflexivity. Qed.

Lemma mean_nearest_taxon_distance_kernel p filt w n :
  mean_nearest_taxon_distance p filt w n =
  let others a := filter (fun b => negb (Z.eqb a b) && passes filt b) (p_mapped p) in
  mntd_kernel p w n
    (map (fun a => (a, others a))
         (filter (fun a => match others a with [] => false | _ => true end)
                 (filter (fun a => passes filt a) (p_mapped p)))).
Proof. unfold mean_nearest_taxon_distance, mntd_kernel. cbv zeta. rewrite res_map_map. reflexivity. Qed.

Section Kernels.
Variables (T : tbl Z) (cv : Z -> Q).
Hypothesis cv_add : forall a b, (cv (a + b) == cv a + cv b)%Q.
Hypothesis cv_0 : (cv 0 == 0)%Q.
Hypothesis cv_lt : forall a b, (cv a < cv b)%Q <-> a < b.

Definition zget (a b : Z) : res Z := key_get a b T.

Lemma lookup2 a b :
  (do row <- (match dget a T with Some r => Ok r | None => Err KeyErr end) ;;
   match dget b row with Some r => Ok r | None => Err KeyErr end) = zget a b.
Proof. unfold zget, key_get, tget2. destruct (dget a T) as [row|]; [|reflexivity]. cbn [bind]. reflexivity. Qed.

(* for taxon1, taxon2 in comparison_regime: distances.append(dmatrix[taxon1][taxon2]) *)
Definition k_mpd_body (x : Z * Z) (acc : list Z) : res (list Z) :=
  let '(taxon1, taxon2) := x in
  do row_2 <- (match dget taxon1 T with Some r => Ok r | None => Err KeyErr end) ;;
  do ent_3 <- (match dget taxon2 row_2 with Some r => Ok r | None => Err KeyErr end) ;;
  Ok (acc ++ [ent_3]).

Lemma k_mpd_body_eq a b acc : k_mpd_body (a, b) acc = do v <- zget a b ;; Ok (acc ++ [v]).
Proof.
  unfold k_mpd_body, zget, key_get, tget2. destruct (dget a T) as [row|]; [|reflexivity]. cbn [bind].
  destruct (dget b row); reflexivity.
Qed.

Lemma k_mpd_loop regime : forall acc,
  py_for regime k_mpd_body acc = rmap (fun zs => acc ++ zs) (res_map (fun ab => zget (fst ab) (snd ab)) regime).
Proof.
  induction regime as [|[a b] r IH]; intro acc.
  - cbn. rewrite app_nil_r. reflexivity.
  - rewrite py_for_cons, k_mpd_body_eq. cbn [res_map fst snd].
    destruct (zget a b) as [v|e|]; cbn [bind rmap]; try reflexivity.
    rewrite IH. destruct (res_map _ r); cbn [bind rmap]; try reflexivity. rewrite <- app_assoc. reflexivity.
Qed.

(* sums *)
Lemma cv_sum l : forall a, (cv (fold_left Z.add l a) == cv a + qsum (map cv l))%Q.
Proof.
  induction l as [|x l IH]; intro a; cbn [fold_left map qsum fold_right].
  - ring.
  - rewrite IH, cv_add. unfold qsum. ring.
Qed.

Lemma cv_py_sum l : (cv (py_sum l) == qsum (map cv l))%Q.
Proof. unfold py_sum. rewrite cv_sum, cv_0. ring. Qed.

(* the final division *)
Lemma mean_final (zs : list Z) (num nf : Q) : zs <> [] -> (num == qsum (map cv zs))%Q ->
  res_qeq (do quo_5 <- py_div num nf ;; do quo_6 <- py_div quo_5 (inject_Z (py_len zs) * (1 # 1))%Q ;; Ok quo_6)
          (if Qeq_bool nf 0 then Err OtherErr
           else Ok ((qsum (map cv zs) / nf) / inject_Z (Z.of_nat (length (map cv zs))))%Q).
Proof.
  intros Hne Hs. unfold py_div. destruct (Qeq_bool nf 0); [reflexivity|]. cbn [bind].
  assert (Hl : Qeq_bool (inject_Z (py_len zs) * (1 # 1)) 0 = false).
  { destruct (Qeq_bool _ 0) eqn:E; [|reflexivity]. exfalso. apply Qeq_bool_eq in E.
    rewrite Qmult_1_r in E. change 0%Q with (inject_Z 0) in E. apply (proj1 (inject_Z_injective _ _)) in E.
    unfold py_len in E. destruct zs; [congruence|]. cbn [length] in E. lia. }
  rewrite Hl. cbn [bind res_qeq]. rewrite map_length. unfold py_len. rewrite Hs, Qmult_1_r. reflexivity.
Qed.

(* minima *)
Fixpoint zmin_from (m : Z) (l : list Z) : Z :=
  match l with [] => m | d :: r => zmin_from (if d <? m then d else m) r end.

Lemma min_from_cv l : forall m, min_from (cv m) (map cv l) = cv (zmin_from m l).
Proof.
  induction l as [|d r IH]; intro m; cbn [map min_from zmin_from]; [reflexivity|].
  destruct (Qlt_le_dec (cv d) (cv m)) as [H|H]; destruct (Z.ltb_spec d m) as [H'|H']; try apply IH.
  - apply (proj1 (cv_lt _ _)) in H. lia.
  - exfalso. apply (proj2 (cv_lt _ _)) in H'. apply (Qlt_not_le _ _ H' H).
Qed.

(* for taxon2 in comparison_regime[taxon1][1:]: d = dmatrix[taxon1][taxon2]; if d < min_distance: ... *)
Definition k_min_body (taxon1 : Z) (taxon2 : Z) (min_distance : Z) : res Z :=
  do row_7 <- (match dget taxon1 T with Some r => Ok r | None => Err KeyErr end) ;;
  do ent_8 <- (match dget taxon2 row_7 with Some r => Ok r | None => Err KeyErr end) ;;
  Ok (if ent_8 <? min_distance then ent_8 else min_distance).

Lemma k_min_loop t1 l : forall m,
  py_for l (k_min_body t1) m = rmap (zmin_from m) (res_map (zget t1) l).
Proof.
  induction l as [|b r IH]; intro m; [reflexivity|].
  rewrite py_for_cons. cbn [res_map].
  assert (E : k_min_body t1 b m = do d <- zget t1 b ;; Ok (if d <? m then d else m)).
  { unfold k_min_body, zget, key_get, tget2. destruct (dget t1 T) as [row|]; [|reflexivity]. cbn [bind].
    destruct (dget b row); reflexivity. }
  rewrite E. destruct (zget t1 b) as [d|e|]; cbn [bind rmap]; try reflexivity.
  rewrite IH. destruct (res_map (zget t1) r); reflexivity.
Qed.

(* one row of the nearest-taxon computation, on machine numbers *)
Definition zrow (t1 : Z) (os : list Z) : res Z :=
  do zs <- res_map (zget t1) os ;;
  match zs with [] => Err IndexErr | z0 :: r => Ok (zmin_from z0 r) end.

Definition k_mntd_body (cr : dict (list Z)) (taxon1 : Z) (acc : list Z) : res (list Z) :=
  do row_2 <- (match dget taxon1 T with Some r => Ok r | None => Err KeyErr end) ;;
  do ent_3 <- (match dget taxon1 cr with Some r => Ok r | None => Err KeyErr end) ;;
  do item_4 <- py_index ent_3 0 ;;
  do ent_5 <- (match dget item_4 row_2 with Some r => Ok r | None => Err KeyErr end) ;;
  do ent_6 <- (match dget taxon1 cr with Some r => Ok r | None => Err KeyErr end) ;;
  do st_9 <- py_for (py_slice_from ent_6 1) (k_min_body taxon1) ent_5 ;;
  Ok (acc ++ [st_9]).

Lemma k_mntd_body_eq cr t1 os acc : dget t1 cr = Some os -> os <> [] ->
  k_mntd_body cr t1 acc = do m <- zrow t1 os ;; Ok (acc ++ [m]).
Proof.
  intros E Hne. destruct os as [|b0 r]; [congruence|].
  unfold k_mntd_body, zrow. rewrite E. cbn [res_map].
  unfold zget at 1, key_get, tget2. destruct (dget t1 T) as [row|]; [|reflexivity]. cbn [bind].
  unfold py_index. cbn [Z.to_nat nth_error bind].
  destruct (dget b0 row) as [z0|]; [|reflexivity]. cbn [bind].
  unfold py_slice_from. change (Z.to_nat 1) with 1%nat. cbn [skipn].
  rewrite k_min_loop. destruct (res_map (zget t1) r); reflexivity.
Qed.

Lemma k_mntd_loop cr : NoDup (dkeys cr) -> (forall a os, In (a, os) cr -> os <> []) ->
  forall l acc, incl l cr ->
  py_for (map fst l) (k_mntd_body cr) acc
  = rmap (fun zs => acc ++ zs) (res_map (fun ao : Z * list Z => zrow (fst ao) (snd ao)) l).
Proof.
  intros N NE. induction l as [|[a os] l IH]; intros acc Hi.
  - cbn. rewrite app_nil_r. reflexivity.
  - cbn [map fst]. rewrite py_for_cons.
    assert (Hin : In (a, os) cr) by (apply Hi; left; reflexivity).
    rewrite (k_mntd_body_eq cr a os acc (In_dget _ _ _ N Hin) (NE _ _ Hin)).
    cbn [res_map fst snd]. destruct (zrow a os) as [m|e|]; cbn [bind rmap]; try reflexivity.
    rewrite IH by (intros x Hx; apply Hi; right; exact Hx).
    destruct (res_map _ l); cbn [bind rmap]; try reflexivity. rewrite <- app_assoc. reflexivity.
Qed.

End Kernels.

(* ---------- the two number types ---------- *)
Lemma uq_q z : (uq z == z # 1024)%Q.
Proof. unfold uq. apply Qred_correct. Qed.

Lemma uq_add a b : (uq (a + b) == uq a + uq b)%Q.
Proof. rewrite !uq_q. unfold Qeq, Qplus. cbn. lia. Qed.

Lemma uq_0 : (uq 0 == 0)%Q.
Proof. reflexivity. Qed.

Lemma uq_lt a b : (uq a < uq b)%Q <-> a < b.
Proof. rewrite !uq_q. unfold Qlt. cbn. lia. Qed.

Lemma inj_add a b : (inject_Z (a + b) == inject_Z a + inject_Z b)%Q.
Proof. rewrite inject_Z_plus. reflexivity. Qed.

Lemma inj_lt a b : (inject_Z a < inject_Z b)%Q <-> a < b.
Proof. rewrite <- Zlt_Qlt. reflexivity. Qed.

Lemma res_map_rmap {A B C} (f : A -> res B) (g : B -> C) l :
  res_map (fun x => rmap g (f x)) l = rmap (map g) (res_map f l).
Proof.
  induction l as [|x l IH]; cbn [res_map]; [reflexivity|].
  rewrite IH. destruct (f x); cbn [rmap bind]; try reflexivity. destruct (res_map f l); reflexivity.
Qed.

Lemma dmatrix_w p a b : dmatrix p true a b = rmap uq (zget (p_dist p) a b).
Proof. unfold dmatrix, zget. destruct (key_get a b (p_dist p)); reflexivity. Qed.

Lemma dmatrix_u p a b : dmatrix p false a b = rmap inject_Z (zget (p_steps p) a b).
Proof. unfold dmatrix, zget. destruct (key_get a b (p_steps p)); reflexivity. Qed.

(* the model's kernels over machine numbers *)
Lemma mpd_kernel_z p w n regime (T : tbl Z) (cv : Z -> Q) :
  (forall a b, dmatrix p w a b = rmap cv (zget T a b)) ->
  mpd_kernel p w n regime =
  do zs <- res_map (fun ab => zget T (fst ab) (snd ab)) regime ;; mean_of p w n (map cv zs).
Proof.
  intro H. unfold mpd_kernel.
  rewrite (res_map_ext _ (fun ab => rmap cv (zget T (fst ab) (snd ab)))) by (intros; apply H).
  rewrite res_map_rmap. destruct (res_map _ regime); reflexivity.
Qed.

Lemma mntd_kernel_z p w n cr (T : tbl Z) (cv : Z -> Q) :
  (forall a b, (cv a < cv b)%Q <-> a < b) ->
  (forall a b, dmatrix p w a b = rmap cv (zget T a b)) ->
  mntd_kernel p w n cr =
  do zs <- res_map (fun ao : Z * list Z => zrow T (fst ao) (snd ao)) cr ;; mean_of p w n (map cv zs).
Proof.
  intros Hlt H. unfold mntd_kernel.
  rewrite (res_map_ext _ (fun ao => rmap cv (zrow T (fst ao) (snd ao)))).
  - rewrite res_map_rmap. destruct (res_map _ cr); reflexivity.
  - intros [a os] _. cbn [fst snd]. unfold zrow.
    rewrite (res_map_ext _ (fun b => rmap cv (zget T a b))) by (intros; apply H).
    rewrite res_map_rmap. destruct (res_map (zget T a) os) as [zs|e|]; cbn [rmap bind]; try reflexivity.
    destruct zs as [|z0 r]; cbn [map rmap]; [reflexivity|]. rewrite (min_from_cv cv Hlt). reflexivity.
Qed.

Lemma mean_of_nonempty p w n ds : ds <> [] ->
  mean_of p w n ds = if Qeq_bool (norm_factor p w n) 0 then Err OtherErr
                     else Ok ((qsum ds / norm_factor p w n) / inject_Z (Z.of_nat (length ds)))%Q.
Proof. destruct ds; [congruence | reflexivity]. Qed.

Lemma nf_w p (n : bool) : uq (if n then p_tree_length p else 1024) = norm_factor p true n.
Proof. destruct n; reflexivity. Qed.

Lemma nf_u p (n : bool) : (if n then inject_Z (p_num_edges p) else 1 # 1) = norm_factor p false n.
Proof. destruct n; reflexivity. Qed.

Theorem gen_mpd_weighted_eq p regime n :
  res_qeq (PDM__calculate_mean_pairwise_distance_weighted p regime n) (mpd_kernel p true n regime).
Proof.
  rewrite (mpd_kernel_z p true n regime (p_dist p) uq (dmatrix_w p)).
  unfold PDM__calculate_mean_pairwise_distance_weighted, PDM__get_distance_matrix_and_normalization_factor_weighted.
  cbv zeta. cbn [bind].
  change (PDM__calculate_mean_pairwise_distance_weighted_for1 (p_dist p)) with (k_mpd_body (p_dist p)).
  rewrite k_mpd_loop. cbn [app].
  destruct (res_map _ regime) as [zs|e|]; cbn [rmap bind]; try reflexivity.
  destruct zs as [|z0 zr]; [reflexivity|]. cbn [negb].
  rewrite mean_of_nonempty by discriminate. rewrite nf_w.
  apply (mean_final uq); [discriminate | apply (cv_py_sum uq uq_add uq_0)].
Qed.

Theorem gen_mpd_unweighted_eq p regime n :
  res_qeq (PDM__calculate_mean_pairwise_distance_unweighted p regime n) (mpd_kernel p false n regime).
Proof.
  rewrite (mpd_kernel_z p false n regime (p_steps p) inject_Z (dmatrix_u p)).
  unfold PDM__calculate_mean_pairwise_distance_unweighted, PDM__get_distance_matrix_and_normalization_factor_unweighted.
  cbv zeta. cbn [bind].
  change (PDM__calculate_mean_pairwise_distance_unweighted_for1 (p_steps p)) with (k_mpd_body (p_steps p)).
  rewrite k_mpd_loop. cbn [app].
  destruct (res_map _ regime) as [zs|e|]; cbn [rmap bind]; try reflexivity.
  destruct zs as [|z0 zr]; [reflexivity|]. cbn [negb].
  rewrite mean_of_nonempty by discriminate. rewrite nf_u.
  apply (mean_final inject_Z); [discriminate | apply (cv_py_sum inject_Z inj_add); reflexivity].
Qed.

Theorem gen_mntd_weighted_eq p cr n :
  NoDup (dkeys cr) -> (forall a os, In (a, os) cr -> os <> []) ->
  res_qeq (PDM__calculate_mean_nearest_taxon_distance_weighted p cr n) (mntd_kernel p true n cr).
Proof.
  intros N NE. rewrite (mntd_kernel_z p true n cr (p_dist p) uq uq_lt (dmatrix_w p)).
  unfold PDM__calculate_mean_nearest_taxon_distance_weighted, PDM__get_distance_matrix_and_normalization_factor_weighted.
  cbv zeta. cbn [bind].
  change (PDM__calculate_mean_nearest_taxon_distance_weighted_for2 cr (p_dist p)) with (k_mntd_body (p_dist p) cr).
  unfold dict_keys. rewrite (k_mntd_loop (p_dist p) cr N NE cr [] (incl_refl _)). cbn [app].
  destruct (res_map _ cr) as [zs|e|]; cbn [rmap bind]; try reflexivity.
  destruct zs as [|z0 zr]; [reflexivity|]. cbn [negb].
  rewrite mean_of_nonempty by discriminate. rewrite nf_w.
  apply (mean_final uq); [discriminate | apply (cv_py_sum uq uq_add uq_0)].
Qed.

Theorem gen_mntd_unweighted_eq p cr n :
  NoDup (dkeys cr) -> (forall a os, In (a, os) cr -> os <> []) ->
  res_qeq (PDM__calculate_mean_nearest_taxon_distance_unweighted p cr n) (mntd_kernel p false n cr).
Proof.
  intros N NE. rewrite (mntd_kernel_z p false n cr (p_steps p) inject_Z inj_lt (dmatrix_u p)).
  unfold PDM__calculate_mean_nearest_taxon_distance_unweighted, PDM__get_distance_matrix_and_normalization_factor_unweighted.
  cbv zeta. cbn [bind].
  change (PDM__calculate_mean_nearest_taxon_distance_unweighted_for2 cr (p_steps p)) with (k_mntd_body (p_steps p) cr).
  unfold dict_keys. rewrite (k_mntd_loop (p_steps p) cr N NE cr [] (incl_refl _)). cbn [app].
  destruct (res_map _ cr) as [zs|e|]; cbn [rmap bind]; try reflexivity.
  destruct zs as [|z0 zr]; [reflexivity|]. cbn [negb].
  rewrite mean_of_nonempty by discriminate. rewrite nf_u.
  apply (mean_final inject_Z); [discriminate | apply (cv_py_sum inject_Z inj_add); reflexivity].
Qed.
