(* C08 - path lengths between surviving nodes are unchanged by `restrict`; single survivor. *)
From Coq Require Import ZArith List Bool Lia.
From DV Require Import Model.PyPrims Model.Tree Model.C08Model Proofs.C08Base Proofs.C08InPlace Proofs.C08Prune Proofs.C08Spec.
Import ListNotations.
Open Scope Z_scope.

(* ---------------------------------------------------------------------------------------- *)
(* first_some                                                                               *)
(* ---------------------------------------------------------------------------------------- *)

Lemma first_some_none {A B} (f : A -> option B) l :
  first_some (map f l) = None <-> (forall x, In x l -> f x = None).
Proof.
  induction l as [|a r IH]; simpl; [split; [intros _ x [] | reflexivity]|].
  destruct (f a) eqn:E; split.
  - discriminate.
  - intro H. rewrite (H a (or_introl eq_refl)) in E. discriminate E.
  - intros H x [<-|Hx]; [exact E | apply IH; assumption].
  - intro H. apply IH. intros x Hx. apply H. right. exact Hx.
Qed.

Lemma first_some_some {A B} (f : A -> option B) l d :
  first_some (map f l) = Some d -> exists x, In x l /\ f x = Some d.
Proof.
  induction l as [|a r IH]; simpl; [discriminate|].
  destruct (f a) eqn:E.
  - intro H. inversion H; subst. exists a. split; [left; reflexivity | exact E].
  - intro H. destruct (IH H) as [x [Hx Hf]]. exists x. split; [right; exact Hx | exact Hf].
Qed.

(* among children with disjoint ids, the one containing `a` decides *)
Lemma first_some_kid {B} (f : tree -> option B) a : forall ks k0,
  NoDup (idsF ks) -> In k0 ks -> In a (ids k0) ->
  (forall x, ~ In a (ids x) -> f x = None) ->
  first_some (map f ks) = f k0.
Proof.
  induction ks as [|x r IH]; intros k0 Hnd Hk Ha Hf; [destruct Hk|].
  rewrite idsF_cons in Hnd. simpl. destruct Hk as [->|Hk].
  - destruct (f k0) eqn:E; [reflexivity|].
    apply first_some_none. intros y Hy. apply Hf. intro Hay.
    apply (NoDup_app_disj _ _ a Hnd Ha). unfold idsF. apply in_flat_map. exists y. split; assumption.
  - assert (Hx : ~ In a (ids x)).
    { intro Hax. apply (NoDup_app_disj _ _ a Hnd Hax). unfold idsF. apply in_flat_map. exists k0. split; assumption. }
    rewrite (Hf x Hx). apply IH; [exact (NoDup_app_r _ _ Hnd) | exact Hk | exact Ha | exact Hf].
Qed.

Lemma kid_unique a : forall ks k1 k2, NoDup (idsF ks) -> In k1 ks -> In k2 ks ->
  In a (ids k1) -> In a (ids k2) -> k1 = k2.
Proof.
  induction ks as [|x r IH]; intros k1 k2 Hnd H1 H2 A1 A2; [destruct H1|].
  rewrite idsF_cons in Hnd.
  assert (D : forall y, In y r -> In a (ids y) -> In a (ids x) -> False).
  { intros y Hy Hay Hax. apply (NoDup_app_disj _ _ a Hnd Hax). unfold idsF. apply in_flat_map. exists y. split; assumption. }
  destruct H1 as [->|H1], H2 as [->|H2].
  - reflexivity.
  - exfalso. exact (D k2 H2 A2 A1).
  - exfalso. exact (D k1 H1 A1 A2).
  - exact (IH k1 k2 (NoDup_app_r _ _ Hnd) H1 H2 A1 A2).
Qed.

(* ---------------------------------------------------------------------------------------- *)
(* ids and lengths of a restriction                                                         *)
(* ---------------------------------------------------------------------------------------- *)

Lemma ids_in_iff t a : In a (ids t) <-> exists n, In n (preorder t) /\ t_id n = a.
Proof. unfold ids. rewrite in_map_iff. split; intros [n [H1 H2]]; exists n; tauto. Qed.

Lemma ids_restrict_sub sup kl ki ke t r a : restrictG sup kl ki ke t = Some r -> In a (ids r) -> In a (ids t).
Proof.
  intros Hr Ha. apply ids_in_iff in Ha. destruct Ha as [n' [Hn' <-]].
  destruct (nodes_from_source sup kl ki ke t r Hr n' Hn') as [n [Hn [E _]]].
  apply ids_in_iff. exists n. split; assumption.
Qed.

Lemma NoDup_omap (g : tree -> option tree) : forall ks,
  (forall k c, In k ks -> g k = Some c -> NoDup (ids c) /\ (forall a, In a (ids c) -> In a (ids k))) ->
  NoDup (idsF ks) -> NoDup (idsF (omap_list g ks)).
Proof.
  induction ks as [|k r IH]; intros H Hnd; [constructor|].
  rewrite idsF_cons in Hnd. simpl omap_list.
  assert (Hr : NoDup (idsF (omap_list g r))).
  { apply IH; [|exact (NoDup_app_r _ _ Hnd)]. intros k1 c Hk1. apply H. right. exact Hk1. }
  destruct (g k) as [c|] eqn:E; [|exact Hr].
  simpl app. rewrite idsF_cons. destruct (H k c (or_introl eq_refl) E) as [Nc Sc].
  apply NoDup_app_intro; [exact Nc | exact Hr|].
  intros a Ha Hb. unfold idsF in Hb. apply in_flat_map in Hb. destruct Hb as [c2 [Hc2 Hb]].
  apply in_omap in Hc2. destruct Hc2 as [k2 [Hk2 E2]].
  destruct (H k2 c2 (or_intror Hk2) E2) as [_ S2].
  apply (NoDup_app_disj _ _ a Hnd (Sc a Ha)). unfold idsF. apply in_flat_map. exists k2. split; [exact Hk2 | exact (S2 a Hb)].
Qed.

Lemma NoDup_restrict sup kl ki ke : forall t r, NoDup (ids t) -> restrictG sup kl ki ke t = Some r -> NoDup (ids r).
Proof.
  induction t as [i x l e ks IH] using tree_ind'. intros r Hnd Hr.
  destruct ks as [|k r0].
  - rewrite restrictG_leaf in Hr. destruct (kl i x); [|discriminate Hr]. inversion Hr; subst. exact Hnd.
  - pose proof Hr as Hr0. rewrite restrictG_node in Hr. destruct (ki i x); [|discriminate Hr].
    destruct (NoDup_ids_kids _ _ _ _ _ Hnd) as [Hk Hi].
    assert (NA : NoDup (idsF (omap_list (restrictG sup kl ki ke) (k :: r0)))).
    { apply NoDup_omap; [|exact Hk]. intros k1 c Hk1 Ec. rewrite Forall_forall in IH. split.
      - apply (IH k1 Hk1 c); [exact (NoDup_idsF_kid _ _ Hk Hk1) | exact Ec].
      - intros a Ha. exact (ids_restrict_sub sup kl ki ke k1 c a Ec Ha). }
    assert (IA : ~ In i (idsF (omap_list (restrictG sup kl ki ke) (k :: r0)))).
    { intro H. apply Hi. unfold idsF in *. apply in_flat_map in H. destruct H as [c [Hc H]].
      apply in_omap in Hc. destruct Hc as [k1 [Hk1 Ec]]. apply in_flat_map. exists k1. split; [exact Hk1|].
      exact (ids_restrict_sub sup kl ki ke k1 c i Ec H). }
    revert Hr NA IA. generalize (omap_list (restrictG sup kl ki ke) (k :: r0)). intros A Hr NA IA.
    destruct A as [|c [|c2 r2]].
    + destruct (ke i x); [|discriminate Hr]. inversion Hr; subst. rewrite ids_T. constructor; [intros [] | constructor].
    + destruct sup; inversion Hr; subst.
      * rewrite ids_set_len. rewrite idsF_single in NA. exact NA.
      * rewrite ids_T. constructor; assumption.
    + inversion Hr; subst. rewrite ids_T. constructor; assumption.
Qed.

Lemma all_len_T i x l e ks : all_len (T i x l e ks) = (match e with Some _ => true | None => false end) && forallb all_len ks.
Proof. reflexivity. Qed.

Lemma all_len_restrict sup kl ki ke : forall t r, all_len t = true -> restrictG sup kl ki ke t = Some r -> all_len r = true.
Proof.
  induction t as [i x l e ks IH] using tree_ind'. intros r Hal Hr.
  destruct ks as [|k r0].
  - rewrite restrictG_leaf in Hr. destruct (kl i x); [|discriminate Hr]. inversion Hr; subst. exact Hal.
  - rewrite restrictG_node in Hr. destruct (ki i x); [|discriminate Hr].
    rewrite all_len_T in Hal. apply andb_true_iff in Hal. destruct Hal as [He Hks].
    assert (AA : forallb all_len (omap_list (restrictG sup kl ki ke) (k :: r0)) = true).
    { apply forallb_forall. intros c Hc. apply in_omap in Hc. destruct Hc as [k1 [Hk1 Ec]].
      rewrite Forall_forall in IH. apply (IH k1 Hk1 c); [|exact Ec]. rewrite forallb_forall in Hks. exact (Hks k1 Hk1). }
    revert Hr AA. generalize (omap_list (restrictG sup kl ki ke) (k :: r0)). intros A Hr AA.
    destruct A as [|c [|c2 r2]].
    + destruct (ke i x); [|discriminate Hr]. inversion Hr; subst. rewrite all_len_T, He. reflexivity.
    + destruct sup; inversion Hr; subst.
      * simpl in AA. rewrite andb_true_r in AA. destruct c as [ci cx cl ce cks]. rewrite all_len_T in AA.
        apply andb_true_iff in AA. destruct AA as [A1 A2]. simpl set_len. rewrite all_len_T, A2.
        destruct e; [|discriminate He]. destruct ce; [|discriminate A1]. reflexivity.
      * rewrite all_len_T, He, AA. reflexivity.
    + inversion Hr; subst. rewrite all_len_T, He, AA. reflexivity.
Qed.

(* ---------------------------------------------------------------------------------------- *)
(* rd, dist                                                                                 *)
(* ---------------------------------------------------------------------------------------- *)

Definition rdk (a : Z) (k : tree) : option Z :=
  match rd a k, t_len k with Some d, Some e => Some (e + d) | _, _ => None end.

Lemma rd_T a i x l e ks : rd a (T i x l e ks) = if Z.eqb i a then Some 0 else first_some (map (rdk a) ks).
Proof. reflexivity. Qed.

Lemma rd_set_len a c e : rd a (set_len c e) = rd a c.
Proof. destruct c. reflexivity. Qed.

Lemma rd_notin a : forall t, ~ In a (ids t) -> rd a t = None.
Proof.
  induction t as [i x l e ks IH] using tree_ind'. intro H. rewrite ids_T in H. rewrite rd_T.
  destruct (Z.eqb_spec i a) as [E|_]; [exfalso; apply H; left; exact E|].
  apply first_some_none. intros k Hk. unfold rdk. rewrite Forall_forall in IH. rewrite (IH k Hk); [reflexivity|].
  intro Hi. apply H. right. unfold idsF. apply in_flat_map. exists k. split; assumption.
Qed.

Lemma rdk_notin a k : ~ In a (ids k) -> rdk a k = None.
Proof. intro H. unfold rdk. rewrite (rd_notin a k H). reflexivity. Qed.

Lemma rd_in a : forall t, all_len t = true -> In a (ids t) -> exists d, rd a t = Some d.
Proof.
  induction t as [i x l e ks IH] using tree_ind'. intros Hal Ha. rewrite rd_T.
  destruct (Z.eqb_spec i a) as [_|Hne]; [exists 0; reflexivity|].
  rewrite ids_T in Ha. destruct Ha as [E|Ha]; [contradiction|].
  unfold idsF in Ha. apply in_flat_map in Ha. destruct Ha as [k [Hk Ha]].
  rewrite all_len_T in Hal. apply andb_true_iff in Hal. destruct Hal as [_ Hks]. rewrite forallb_forall in Hks.
  destruct (first_some (map (rdk a) ks)) as [d|] eqn:E; [exists d; reflexivity|].
  exfalso. rewrite first_some_none in E. specialize (E k Hk). unfold rdk in E.
  rewrite Forall_forall in IH. destruct (IH k Hk (Hks k Hk) Ha) as [d Hd]. rewrite Hd in E.
  pose proof (Hks k Hk) as Hk'. destruct k as [ki kx kl ke kks]. rewrite all_len_T in Hk'. simpl in E.
  destruct ke; [discriminate E | discriminate Hk'].
Qed.

Lemma dist_T a b i x l e ks :
  dist a b (T i x l e ks) =
  match first_some (map (dist a b) ks) with
  | Some d => Some d
  | None => match rd a (T i x l e ks), rd b (T i x l e ks) with Some u, Some v => Some (u + v) | _, _ => None end
  end.
Proof. reflexivity. Qed.

Lemma dist_set_len a b c e : dist a b (set_len c e) = dist a b c.
Proof. destruct c. reflexivity. Qed.

Lemma rd_some_in a : forall t d, rd a t = Some d -> In a (ids t).
Proof.
  intros t d H. destruct (in_dec Z.eq_dec a (ids t)) as [Hi|Hn]; [exact Hi|].
  rewrite (rd_notin a t Hn) in H. discriminate H.
Qed.

Lemma dist_some_in a b : forall t d, dist a b t = Some d -> In a (ids t) /\ In b (ids t).
Proof.
  induction t as [i x l e ks IH] using tree_ind'. intros d H. rewrite dist_T in H.
  destruct (first_some (map (dist a b) ks)) as [d'|] eqn:E.
  - apply first_some_some in E. destruct E as [k [Hk Hd]]. rewrite Forall_forall in IH.
    destruct (IH k Hk d' Hd) as [A B]. split; apply (ids_sub_kid i x l e ks k); assumption.
  - destruct (rd a (T i x l e ks)) as [u|] eqn:Ea; [|discriminate H].
    destruct (rd b (T i x l e ks)) as [v|] eqn:Eb; [|discriminate H].
    split; [exact (rd_some_in a _ _ Ea) | exact (rd_some_in b _ _ Eb)].
Qed.

Lemma dist_notin a b t : ~ In a (ids t) -> dist a b t = None.
Proof.
  intro H. destruct (dist a b t) as [d|] eqn:E; [|reflexivity].
  exfalso. apply H. exact (proj1 (dist_some_in a b t d E)).
Qed.

Lemma dist_in a b t : all_len t = true -> In a (ids t) -> In b (ids t) -> exists d, dist a b t = Some d.
Proof.
  intros Hal Ha Hb. destruct t as [i x l e ks]. rewrite dist_T.
  destruct (first_some (map (dist a b) ks)) as [d|]; [exists d; reflexivity|].
  destruct (rd_in a _ Hal Ha) as [u Hu]. destruct (rd_in b _ Hal Hb) as [v Hv]. rewrite Hu, Hv. eexists. reflexivity.
Qed.

(* ---------------------------------------------------------------------------------------- *)
(* path from above the root to a surviving node is preserved                                *)
(* ---------------------------------------------------------------------------------------- *)

Section Paths.
  Variables (sup : bool) (p : npred).
  Notation R := (restrictG sup p np_true np_false).

  Lemma kids_setup i x l e k r0 : NoDup (ids (T i x l e (k :: r0))) ->
    NoDup (idsF (k :: r0)) /\ ~ In i (idsF (k :: r0)) /\
    NoDup (idsF (omap_list R (k :: r0))) /\ ~ In i (idsF (omap_list R (k :: r0))).
  Proof.
    intro Hnd. destruct (NoDup_ids_kids _ _ _ _ _ Hnd) as [Hk Hi]. split; [exact Hk|]. split; [exact Hi|]. split.
    - apply NoDup_omap; [|exact Hk]. intros k1 c Hk1 Ec. split.
      + exact (NoDup_restrict sup p np_true np_false k1 c (NoDup_idsF_kid _ _ Hk Hk1) Ec).
      + intros a Ha. exact (ids_restrict_sub _ _ _ _ k1 c a Ec Ha).
    - intro H. apply Hi. unfold idsF in *. apply in_flat_map in H. destruct H as [c [Hc H]].
      apply in_omap in Hc. destruct Hc as [k1 [Hk1 Ec]]. apply in_flat_map. exists k1. split; [exact Hk1|].
      exact (ids_restrict_sub _ _ _ _ k1 c i Ec H).
  Qed.

  Lemma find_kid a (F : list tree) : In a (idsF (omap_list R F)) ->
    exists k c, In k F /\ R k = Some c /\ In c (omap_list R F) /\ In a (ids c) /\ In a (ids k).
  Proof.
    intro H. unfold idsF in H. apply in_flat_map in H. destruct H as [c [Hc Ha]].
    pose proof Hc as Hc'. apply in_omap in Hc. destruct Hc as [k [Hk Ec]].
    exists k, c. repeat split; try assumption. exact (ids_restrict_sub _ _ _ _ k c a Ec Ha).
  Qed.

  Lemma first_some_single {B} (o : option B) : first_some [o] = o.
  Proof. destruct o; reflexivity. Qed.

  Lemma path_preserved a : forall t r, R t = Some r -> all_len t = true -> NoDup (ids t) ->
    In a (ids r) -> rdk a r = rdk a t.
  Proof.
    induction t as [i x l e ks IH] using tree_ind'. intros r Hr Hal Hnd Ha.
    destruct ks as [|k r0].
    - rewrite restrictG_leaf in Hr. destruct (p i x); [|discriminate Hr]. inversion Hr; subst. reflexivity.
    - rewrite restrictG_node in Hr. unfold np_true at 1 in Hr. cbv iota in Hr.
      destruct (kids_setup i x l e k r0 Hnd) as [Hk [Hi [NA IA]]].
      rewrite all_len_T in Hal. apply andb_true_iff in Hal. destruct Hal as [He Hks]. rewrite forallb_forall in Hks.
      destruct e as [e0|]; [|discriminate He]. rewrite Forall_forall in IH.
      remember (omap_list R (k :: r0)) as A eqn:HA.
      assert (Below : In a (idsF A) -> first_some (map (rdk a) A) = first_some (map (rdk a) (k :: r0))).
      { subst A. intro HaA. destruct (find_kid a _ HaA) as [k1 [c [Hk1 [Ec [Hc [Hac Hak]]]]]].
        rewrite (first_some_kid (rdk a) a _ c NA Hc Hac (rdk_notin a)).
        rewrite (first_some_kid (rdk a) a _ k1 Hk Hk1 Hak (rdk_notin a)).
        apply (IH k1 Hk1 c Ec (Hks k1 Hk1) (NoDup_idsF_kid _ _ Hk Hk1) Hac). }
      assert (AllA : forall c, In c A -> all_len c = true).
      { subst A. intros c Hc. apply in_omap in Hc. destruct Hc as [k1 [Hk1 Ec]].
        exact (all_len_restrict _ _ _ _ k1 c (Hks k1 Hk1) Ec). }
      assert (NotMerged : r = T i x l (Some e0) A -> rdk a r = rdk a (T i x l (Some e0) (k :: r0))).
      { intros ->. unfold rdk. rewrite !rd_T. simpl t_len. rewrite ids_T in Ha.
        destruct (Z.eqb_spec i a) as [_|Hne]; [reflexivity|].
        destruct Ha as [E|Ha]; [contradiction|]. rewrite (Below Ha). reflexivity. }
      destruct A as [|c [|c2 r2]].
      + discriminate Hr.
      + destruct sup; injection Hr as Hr'; [|apply NotMerged; symmetry; exact Hr'].
        (* merged *)
        clear NotMerged. subst r. rewrite ids_set_len in Ha.
        assert (HaA : In a (idsF [c])) by (rewrite idsF_single; exact Ha).
        pose proof (Below HaA) as B. simpl map in B at 1. rewrite first_some_single in B.
        unfold rdk at 2. rewrite rd_T.
        destruct (Z.eqb_spec i a) as [E|_]; [exfalso; apply IA; rewrite idsF_single; rewrite E; exact Ha|].
        rewrite <- B. simpl t_len.
        unfold rdk. rewrite rd_set_len.
        pose proof (AllA c (or_introl eq_refl)) as Halc.
        destruct c as [ci cx cl ce cks]. rewrite all_len_T in Halc. apply andb_true_iff in Halc. destruct Halc as [Hce _].
        destruct ce as [ec|]; [|discriminate Hce]. simpl set_len. simpl t_len.
        destruct (rd a (T ci cx cl (Some ec) cks)) as [d|]; [|reflexivity]. f_equal. lia.
      + injection Hr as Hr'. apply NotMerged. symmetry. exact Hr'.
  Qed.
End Paths.

(* ---------------------------------------------------------------------------------------- *)
(* distances between surviving nodes                                                        *)
(* ---------------------------------------------------------------------------------------- *)

Section Dist.
  Variables (sup : bool) (p : npred).
  Notation R := (restrictG sup p np_true np_false).

  Lemma rd_root_preserved a t r e0 : R t = Some r -> all_len t = true -> NoDup (ids t) ->
    In a (ids r) -> t_len r = Some e0 -> t_len t = Some e0 -> rd a r = rd a t.
  Proof.
    intros Hr Hal Hnd Ha Lr Lt.
    pose proof (path_preserved sup p a t r Hr Hal Hnd Ha) as P. unfold rdk in P. rewrite Lr, Lt in P.
    destruct (rd_in a r (all_len_restrict _ _ _ _ t r Hal Hr) Ha) as [u Hu].
    destruct (rd_in a t Hal (ids_restrict_sub _ _ _ _ t r a Hr Ha)) as [v Hv].
    rewrite Hu, Hv in *. inversion P. f_equal. lia.
  Qed.

  Theorem dist_preserved_thm a b : forall t r, R t = Some r -> all_len t = true -> NoDup (ids t) ->
    In a (ids r) -> In b (ids r) -> dist a b r = dist a b t.
  Proof.
    induction t as [i x l e ks IH] using tree_ind'. intros r Hr Hal Hnd Ha Hb.
    destruct ks as [|k r0].
    - rewrite restrictG_leaf in Hr. destruct (p i x); [|discriminate Hr]. inversion Hr; subst. reflexivity.
    - pose proof Hr as Hr0. pose proof Hal as Hal0.
      rewrite restrictG_node in Hr. unfold np_true at 1 in Hr. cbv iota in Hr.
      destruct (kids_setup sup p i x l e k r0 Hnd) as [Hk [Hi [NA IA]]].
      rewrite all_len_T in Hal. apply andb_true_iff in Hal. destruct Hal as [He Hks]. rewrite forallb_forall in Hks.
      destruct e as [e0|]; [|discriminate He]. rewrite Forall_forall in IH.
      remember (omap_list R (k :: r0)) as A eqn:HA.
      assert (AllA : forall c, In c A -> all_len c = true).
      { subst A. intros c Hc. apply in_omap in Hc. destruct Hc as [k1 [Hk1 Ec]].
        exact (all_len_restrict _ _ _ _ k1 c (Hks k1 Hk1) Ec). }
      (* both in one restricted child: that child decides in both trees *)
      assert (Same : forall c, In c A -> In a (ids c) -> In b (ids c) ->
                first_some (map (dist a b) A) = first_some (map (dist a b) (k :: r0)) /\
                exists d, first_some (map (dist a b) A) = Some d).
      { subst A. intros c Hc Hac Hbc. pose proof Hc as Hc'. apply in_omap in Hc'. destruct Hc' as [k1 [Hk1 Ec]].
        rewrite (first_some_kid (dist a b) a _ c NA Hc Hac (dist_notin a b)).
        rewrite (first_some_kid (dist a b) a _ k1 Hk Hk1 (ids_restrict_sub _ _ _ _ k1 c a Ec Hac) (dist_notin a b)).
        split.
        - apply (IH k1 Hk1 c Ec (Hks k1 Hk1) (NoDup_idsF_kid _ _ Hk Hk1) Hac Hbc).
        - apply dist_in; [exact (all_len_restrict _ _ _ _ k1 c (Hks k1 Hk1) Ec) | exact Hac | exact Hbc]. }
      (* not in one restricted child: not in one original child either *)
      assert (Split : first_some (map (dist a b) A) = None -> In a (ids r) -> In b (ids r) ->
                (forall y, In y (ids r) -> y = i \/ In y (idsF A)) ->
                first_some (map (dist a b) (k :: r0)) = None).
      { subst A. intros FA Har Hbr Cover.
        destruct (first_some (map (dist a b) (k :: r0))) as [d|] eqn:FK; [|reflexivity]. exfalso.
        apply first_some_some in FK. destruct FK as [k1 [Hk1 Hd]].
        destruct (dist_some_in a b k1 d Hd) as [Hak Hbk].
        assert (Ka : forall y, In y (ids r) -> In y (ids k1) ->
                     exists c, In c (omap_list R (k :: r0)) /\ R k1 = Some c /\ In y (ids c)).
        { intros y Hy Hyk. destruct (Cover y Hy) as [->|HyA].
          - exfalso. apply Hi. unfold idsF. apply in_flat_map. exists k1. split; assumption.
          - destruct (find_kid sup p y _ HyA) as [k2 [c [Hk2 [Ec [Hc [Hyc Hyk2]]]]]].
            assert (k2 = k1) by (apply (kid_unique y (k :: r0)); assumption). subst k2.
            exists c. repeat split; assumption. }
        destruct (Ka a Har Hak) as [c [Hc [Ec Hac]]]. destruct (Ka b Hbr Hbk) as [c' [_ [Ec' Hbc]]].
        rewrite Ec in Ec'. inversion Ec'; subst c'.
        destruct (Same c Hc Hac Hbc) as [_ [d' Hd']]. rewrite FA in Hd'. discriminate Hd'. }
      assert (NotMerged : r = T i x l (Some e0) A -> dist a b r = dist a b (T i x l (Some e0) (k :: r0))).
      { intro Er. rewrite Er, !dist_T.
        destruct (first_some (map (dist a b) A)) as [d|] eqn:FA.
        - pose proof FA as FA'. apply first_some_some in FA. destruct FA as [c [Hc Hd]].
          destruct (dist_some_in a b c d Hd) as [Hac Hbc].
          destruct (Same c Hc Hac Hbc) as [E _]. rewrite <- E. reflexivity.
        - rewrite Split; [| reflexivity | exact Ha | exact Hb |].
          2:{ intros y Hy. rewrite Er, ids_T in Hy. destruct Hy as [->|Hy]; [left; reflexivity | right; exact Hy]. }
          rewrite <- Er.
          rewrite (rd_root_preserved a _ r e0 Hr0 Hal0 Hnd Ha); [|rewrite Er; reflexivity | reflexivity].
          rewrite (rd_root_preserved b _ r e0 Hr0 Hal0 Hnd Hb); [|rewrite Er; reflexivity | reflexivity].
          reflexivity. }
      destruct A as [|c [|c2 r2]].
      + discriminate Hr.
      + destruct sup; injection Hr as Hr'; [|apply NotMerged; symmetry; exact Hr'].
        clear NotMerged. subst r. rewrite ids_set_len in Ha, Hb. rewrite dist_set_len, dist_T.
        destruct (Same c (or_introl eq_refl) Ha Hb) as [E [d Hd]]. rewrite <- E, Hd.
        simpl in Hd. destruct (dist a b c); [exact Hd | discriminate Hd].
      + injection Hr as Hr'. apply NotMerged. symmetry. exact Hr'.
  Qed.
End Dist.

(* ---------------------------------------------------------------------------------------- *)
(* single survivor                                                                          *)
(* ---------------------------------------------------------------------------------------- *)

Lemma acc_T a i x l e ks :
  acc_len a (T i x l e ks) =
  if Z.eqb i a then Some e
  else match first_some (map (acc_len a) ks) with Some ce => Some (merge_len e ce) | None => None end.
Proof. reflexivity. Qed.

Lemma acc_notin a : forall t, ~ In a (ids t) -> acc_len a t = None.
Proof.
  induction t as [i x l e ks IH] using tree_ind'. intro H. rewrite ids_T in H. rewrite acc_T.
  destruct (Z.eqb_spec i a) as [E|_]; [exfalso; apply H; left; exact E|].
  assert (F : first_some (map (acc_len a) ks) = None).
  { apply first_some_none. intros k Hk. rewrite Forall_forall in IH. apply IH; [exact Hk|].
    intro Hi. apply H. right. unfold idsF. apply in_flat_map. exists k. split; assumption. }
  rewrite F. reflexivity.
Qed.

Lemma filter_flat_map_single {A B} (q : B -> bool) (f : A -> list B) b : forall F,
  filter q (flat_map f F) = [b] ->
  exists F1 k F2, F = F1 ++ k :: F2 /\ filter q (f k) = [b] /\
                  (forall k', In k' (F1 ++ F2) -> filter q (f k') = []).
Proof.
  induction F as [|k r IH]; intro H; [discriminate H|].
  simpl in H. rewrite filter_app in H. apply app_eq_unit in H. destruct H as [[H1 H2]|[H1 H2]].
  - destruct (IH H2) as [F1 [k0 [F2 [E [Hk Ho]]]]]. exists (k :: F1), k0, F2. split; [rewrite E; reflexivity|].
    split; [exact Hk|]. intros k' [<-|Hk']; [exact H1 | exact (Ho k' Hk')].
  - exists [], k, r. split; [reflexivity|]. split; [exact H1|]. intros k' Hk'. simpl in Hk'.
    exact (filter_flat_map_nil q f r H2 k' Hk').
Qed.

Lemma omap_all_none {A B} (f : A -> option B) F : (forall k, In k F -> f k = None) -> omap_list f F = [].
Proof.
  induction F as [|k r IH]; intro H; [reflexivity|]. simpl. rewrite (H k (or_introl eq_refl)). simpl.
  apply IH. intros k' Hk'. apply H. right. exact Hk'.
Qed.

Theorem single_survivor_thm p : forall t a, NoDup (ids t) -> filter (app_np p) (leaves t) = [a] ->
  exists L, restrict true p t = Some (T (t_id a) (t_taxon a) (t_label a) L []) /\
            acc_len (t_id a) t = Some L.
Proof.
  induction t as [i x l e ks IH] using tree_ind'. intros a Hnd Hf.
  destruct ks as [|k r0].
  - simpl in Hf. unfold app_np in Hf. simpl in Hf. unfold restrict. rewrite restrictG_leaf.
    destruct (p i x); [|discriminate Hf]. inversion Hf; subst a. exists e. simpl. rewrite Z.eqb_refl. split; reflexivity.
  - rewrite leaves_T_cons in Hf.
    destruct (filter_flat_map_single _ _ _ _ Hf) as [F1 [k0 [F2 [EF [Hk0 Ho]]]]].
    destruct (NoDup_ids_kids _ _ _ _ _ Hnd) as [Hk Hi]. rewrite Forall_forall in IH.
    assert (Hk0in : In k0 (k :: r0)) by (rewrite EF; apply in_or_app; right; left; reflexivity).
    destruct (IH k0 Hk0in a (NoDup_idsF_kid _ _ Hk Hk0in) Hk0) as [Lk [Rk Ak]].
    assert (None' : forall k', In k' (F1 ++ F2) -> restrictG true p np_true np_false k' = None).
    { intros k' Hk'. apply (restrict_none_iff true p k'). unfold kept_ids. rewrite (Ho k' Hk'). reflexivity. }
    assert (OM : omap_list (restrictG true p np_true np_false) (k :: r0) = [T (t_id a) (t_taxon a) (t_label a) Lk []]).
    { rewrite EF, omap_olist, flat_map_app'. simpl flat_map. rewrite <- !omap_olist.
      rewrite (omap_all_none _ F1), (omap_all_none _ F2).
      - unfold restrict in Rk. rewrite Rk. reflexivity.
      - intros k' Hk'. apply None'. apply in_or_app. right. exact Hk'.
      - intros k' Hk'. apply None'. apply in_or_app. left. exact Hk'. }
    unfold restrict. rewrite restrictG_node, OM. unfold np_true at 1. cbv iota. simpl set_len. simpl t_len.
    exists (merge_len e Lk). split; [reflexivity|].
    assert (Hain : In (t_id a) (ids k0)).
    { assert (Hal : In a (filter (app_np p) (leaves k0))) by (rewrite Hk0; left; reflexivity).
      apply filter_In in Hal. destruct Hal as [Hal _]. apply leaves_in_preorder in Hal. destruct Hal as [Hal _].
      apply preorder_in_ids. exact Hal. }
    rewrite acc_T. destruct (Z.eqb_spec i (t_id a)) as [E|_].
    + exfalso. apply Hi. rewrite E. unfold idsF. apply in_flat_map. exists k0. split; assumption.
    + rewrite (first_some_kid (acc_len (t_id a)) (t_id a) (k :: r0) k0 Hk Hk0in Hain (acc_notin (t_id a))).
      rewrite Ak. reflexivity.
Qed.

(* with all lengths defined the accumulated length is the sum along the path, seed edge included *)
Lemma acc_all_len a : forall t, all_len t = true -> NoDup (ids t) -> In a (ids t) ->
  exists d e0, rd a t = Some d /\ t_len t = Some e0 /\ acc_len a t = Some (Some (e0 + d)).
Proof.
  induction t as [i x l e ks IH] using tree_ind'. intros Hal Hnd Ha.
  pose proof Hal as Hal0. rewrite all_len_T in Hal. apply andb_true_iff in Hal. destruct Hal as [He Hks].
  destruct e as [e0|]; [|discriminate He]. rewrite forallb_forall in Hks.
  rewrite rd_T, acc_T. simpl t_len.
  destruct (Z.eqb_spec i a) as [_|Hne].
  - exists 0, e0. repeat split. rewrite Z.add_0_r. reflexivity.
  - rewrite ids_T in Ha. destruct Ha as [E|Ha]; [contradiction|].
    unfold idsF in Ha. apply in_flat_map in Ha. destruct Ha as [k [Hk Ha]].
    destruct (NoDup_ids_kids _ _ _ _ _ Hnd) as [Hkn Hi]. rewrite Forall_forall in IH.
    destruct (IH k Hk (Hks k Hk) (NoDup_idsF_kid _ _ Hkn Hk) Ha) as [d [ek [Rd [Lk Ac]]]].
    rewrite (first_some_kid (rdk a) a ks k Hkn Hk Ha (rdk_notin a)).
    rewrite (first_some_kid (acc_len a) a ks k Hkn Hk Ha (acc_notin a)).
    unfold rdk. rewrite Rd, Lk, Ac. simpl merge_len.
    exists (ek + d), e0. repeat split. f_equal. f_equal. lia.
Qed.
