(* C14, wave 10, third part: (b) the branch lengths assigned by nj_step are non-negative.
   Class of pools: non-strict four-point condition + triangle inequality + non-negative distances
   (tm_pool: the stored distances are a tree pseudo-metric).  It is closed under the NJ reduction for
   ANY Q-minimal pair (tm_closed), the two lengths given to the joined nodes are >= 0 (tn_step), hence
   every edge length of nj_tree's output is >= 0 (nj_lengths_nonneg_l). *)
From Coq Require Import ZArith QArith Qabs List Bool Lia Lqa.
From DV Require Import Model.PyPrims Model.Tree Model.C14Model Model.C14Spec Model.C14Spec2 Model.C14Spec3
     Proofs.C14Dict Proofs.C14Clu Proofs.C14Upgma Proofs.C14Nj Proofs.C14Qcrit Proofs.C14NjQ
     Proofs.C14Split Proofs.C14SplitTree Proofs.C14NjUniq Proofs.C14W10Q.
Import ListNotations.
Open Scope Z_scope.

Definition ptri (pool : list jnode) : Prop :=
  forall u v w, In u pool -> In v pool -> In w pool ->
    j_id u <> j_id v -> j_id u <> j_id w -> j_id v <> j_id w -> (jd u w <= jd u v + jd v w)%Q.
Definition pnn (pool : list jnode) : Prop :=
  forall u v, In u pool -> In v pool -> j_id u <> j_id v -> (0 <= jd u v)%Q.
Definition tm_pool (pool : list jnode) : Prop := four_point_ns pool /\ ptri pool /\ pnn pool.
(* every edge length inside the trees of the pool is >= 0 *)
Definition TN (pool : list jnode) : Prop := forall u, In u pool -> forall m, In m (qnodes (j_tree u)) -> (0 <= qlen0 m)%Q.

(* the new pool seen in the old one: every new node u is the image of an old node uo, and the new
   distances are the old ones minus the shifts (a0 for the joined node, 0 otherwise) *)
Lemma nj_step_view_ns pool next pool' :
  four_point_ns pool -> jwf pool -> (3 <= length pool)%nat -> ~ In next (jids pool) ->
  nj_step pool (Z.of_nat (length pool)) next = Ok pool' ->
  exists (j0 j1 : jnode) (a0 a1 : Q) (mv : jnode -> Q) (R : jnode -> jnode -> Prop) (sh : jnode -> Q),
    In j0 pool /\ In j1 pool /\ j_id j0 <> j_id j1 /\
    (jd j0 j1 == a0 + a1)%Q /\
    (forall k, In k pool -> j_id k <> j_id j0 -> j_id k <> j_id j1 ->
       (jd j0 k == a0 + mv k)%Q /\ (jd j1 k == a1 + mv k)%Q) /\
    (forall u, In u pool' -> exists uo, R u uo) /\
    (forall u uo, R u uo -> In uo pool /\ j_id uo <> j_id j1 /\ ((sh u == 0)%Q \/ (uo = j0 /\ (sh u == a0)%Q))) /\
    (forall u v uo vo, R u uo -> R v vo -> j_id u <> j_id v -> j_id uo <> j_id vo) /\
    (forall u v uo vo, R u uo -> R v vo -> j_id u <> j_id v -> (jd u v == jd uo vo - (sh u + sh v))%Q).
Proof.
  intros FP W L3 Nn E.
  destruct (nj_step_sound_l pool (Z.of_nat (length pool)) next W eq_refl) as
      [j0 [j1 [rest [newn [l0 [l1 [E' [Hab [Min [Ht [_ [_ [Hids [Htrees [Hothers [W' Hcherry]]]]]]]]]]]]]]]]; [lia | exact Nn|].
  rewrite E in E'. inversion E'. subst pool'. clear E'.
  destruct (fp_cherry_ns pool j0 j1 FP W L3 Hab Min) as [a0 [a1 [mv C]]].
  destruct (Hcherry a0 a1 mv C) as [Cm _]. destruct C as [C01 Ck].
  destruct W as [N [D [Sy Xs]]]. destruct (pairs_of_In _ _ _ Hab) as [H0 H1].
  pose proof (pairs_of_distinct j_id _ _ _ N Hab) as Nd.
  pose proof (others_length j_id pool j0 j1 N H0 H1 Nd) as Lo.
  set (others := remove_id j_id (j_id j1) (remove_id j_id (j_id j0) pool)) in *.
  assert (N0 : NoDup (map j_id (remove_id j_id (j_id j0) pool))) by (apply remove_id_NoDup; exact N).
  assert (No : NoDup (map j_id others)) by (apply remove_id_NoDup; exact N0).
  assert (Io : forall k, In k others <-> In k pool /\ j_id k <> j_id j0 /\ j_id k <> j_id j1).
  { intro k. unfold others. rewrite (remove_id_In j_id _ _ _ N0), (remove_id_In j_id _ _ _ N). tauto. }
  assert (Hnew : j_id newn = next) by (unfold j_id; rewrite Ht; reflexivity).
  assert (Lr : length rest = length others) by (rewrite <- (map_length j_id rest), Hids, map_length; reflexivity).
  (* view of the new pool in the old one *)
  set (R := fun (u uo : jnode) => (In u rest /\ In uo others /\ j_id u = j_id uo) \/ (u = newn /\ uo = j0)).
  set (sh := fun u : jnode => if Z.eqb (j_id u) next then a0 else 0%Q).
  assert (RX : forall u, In u (rest ++ [newn]) -> exists uo, R u uo).
  { intros u Hu. apply in_app_iff in Hu. destruct Hu as [Hu|[<-|[]]]; [|exists j0; right; auto].
    destruct (map2_in j_id j_tree rest others Hids Htrees u Hu) as [k [Hk [Ek _]]]. exists k. left. auto. }
  assert (Rpool : forall u uo, R u uo -> In uo pool).
  { intros u uo [[_ [H _]]|[_ ->]]; [apply Io in H; tauto | exact H0]. }
  assert (Rnext : forall u uo, R u uo -> In u rest -> j_id u <> next).
  { intros u uo _ Hu Eq. apply Nn. rewrite <- Eq. destruct (map2_in j_id j_tree rest others Hids Htrees u Hu) as [k [Hk [Ek _]]].
    rewrite Ek. apply in_map. apply Io in Hk. tauto. }
  assert (Rid : forall u v uo vo, R u uo -> R v vo -> j_id u <> j_id v -> j_id uo <> j_id vo).
  { intros u v uo vo [[Hu [Huo Eu]]|[-> ->]] [[Hv [Hvo Ev]]|[-> ->]] Hn; try congruence.
    - apply Io in Huo. tauto.
    - apply Io in Hvo. intro X. symmetry in X. tauto. }
  assert (Rjd : forall u v uo vo, R u uo -> R v vo -> j_id u <> j_id v ->
                (jd u v == jd uo vo - (sh u + sh v))%Q).
  { intros u v uo vo Ru Rv Hn. destruct Ru as [[Hu [Huo Eu]]|[-> ->]]; destruct Rv as [[Hv [Hvo Ev]]|[-> ->]].
    - unfold sh. assert (Z.eqb (j_id u) next = false) as -> by (apply Z.eqb_neq; eapply Rnext; [left|]; eauto).
      assert (Z.eqb (j_id v) next = false) as -> by (apply Z.eqb_neq; eapply Rnext; [left|]; eauto).
      destruct (Hothers uo Huo) as [u2 [Hu2 [Eu2 [Hsame _]]]].
      assert (u2 = u) by (apply (same_id_eq j_id rest); auto; [rewrite Hids; exact No | congruence]). subst u2.
      rewrite (Hsame vo v Hvo Hv Ev) by congruence. ring.
    - unfold sh. assert (Z.eqb (j_id u) next = false) as -> by (apply Z.eqb_neq; eapply Rnext; [left|]; eauto).
      rewrite Hnew, Z.eqb_refl. rewrite (Cm uo u Huo Hu Eu). destruct (Ck uo Huo) as [C0 _].
      pose proof Huo as Huo2. apply Io in Huo2. destruct Huo2 as [Hp [K0 K1]].
      rewrite (Sy uo j0 Hp H0 K0), C0. ring.
    - unfold sh. assert (Z.eqb (j_id v) next = false) as -> by (apply Z.eqb_neq; eapply Rnext; [left|]; eauto).
      rewrite Hnew, Z.eqb_refl.
      destruct (Hothers vo Hvo) as [v2 [Hv2 [Ev2 [_ [_ Hsw]]]]].
      assert (v2 = v) by (apply (same_id_eq j_id rest); auto; [rewrite Hids; exact No | congruence]). subst v2.
      rewrite Hsw, (Cm vo v Hvo Hv Ev). destruct (Ck vo Hvo) as [C0 _]. rewrite C0. ring.
    - congruence. }
  exists j0, j1, a0, a1, mv, R, sh.
  split; [exact H0|]. split; [exact H1|]. split; [exact Nd|]. split; [exact C01|].
  split; [intros k Hk K0 K1; apply Ck; apply Io; auto|].
  split; [exact RX|]. split; [|split; [exact Rid | exact Rjd]].
  intros u uo Ru. split; [exact (Rpool u uo Ru)|].
  destruct Ru as [[Hu [Huo Eu]]|[-> ->]].
  - split; [apply Io in Huo; tauto|]. left. unfold sh.
    assert (Z.eqb (j_id u) next = false) as -> by (apply Z.eqb_neq; apply (Rnext u uo); [left; auto | exact Hu]). reflexivity.
  - split; [exact Nd|]. right. split; [reflexivity|]. unfold sh. rewrite Hnew, Z.eqb_refl. reflexivity.
Qed.

Lemma tm_cherry : qcrit_cherry tm_pool.
Proof. intros pool j0 j1 [FP _] W L3 Hab Min. exact (fp_cherry_ns pool j0 j1 FP W L3 Hab Min). Qed.

(* the reduced pool is again a tree pseudo-metric, whichever Q-minimal pair was joined *)
Theorem tm_closed : qcrit_closed tm_pool.
Proof.
  intros pool next pool' [FP [PT PN]] W L3 Nn E.
  split; [exact (fp_closed_ns pool next pool' FP W L3 Nn E)|].
  destruct (nj_step_view_ns pool next pool' FP W L3 Nn E) as
      [j0 [j1 [a0 [a1 [mv [R [sh [H0 [H1 [Nd [C01 [Ck [RX [Rp [Rid Rjd]]]]]]]]]]]]]]].
  destruct W as [N [D [Sy Xs]]].
  assert (MV : forall k, In k pool -> j_id k <> j_id j0 -> j_id k <> j_id j1 -> (0 <= mv k)%Q).
  { intros k Hk K0 K1. destruct (Ck k Hk K0 K1) as [E0 E1].
    pose proof (PT j0 k j1 H0 Hk H1 (not_eq_sym K0) Nd K1) as T.
    pose proof (Sy k j1 Hk H1 K1) as S1. lra. }
  split.
  - intros u v w Hu Hv Hw Nuv Nuw Nvw.
    destruct (RX u Hu) as [uo Ru]. destruct (RX v Hv) as [vo Rv]. destruct (RX w Hw) as [wo Rw].
    pose proof (Rjd u w uo wo Ru Rw Nuw) as Euw. pose proof (Rjd u v uo vo Ru Rv Nuv) as Euv.
    pose proof (Rjd v w vo wo Rv Rw Nvw) as Evw.
    pose proof (Rid u v uo vo Ru Rv Nuv) as Iuv. pose proof (Rid u w uo wo Ru Rw Nuw) as Iuw.
    pose proof (Rid v w vo wo Rv Rw Nvw) as Ivw.
    destruct (Rp u uo Ru) as [Puo [U1 _]]. destruct (Rp v vo Rv) as [Pvo [V1 Sv]]. destruct (Rp w wo Rw) as [Pwo [W1 _]].
    destruct Sv as [Sv|[-> Sv]].
    + pose proof (PT uo vo wo Puo Pvo Pwo Iuv Iuw Ivw) as T. lra.
    + destruct (Ck uo Puo Iuv U1) as [Eu0 Eu1]. destruct (Ck wo Pwo (not_eq_sym Ivw) W1) as [Ew0 Ew1].
      pose proof (Sy uo j0 Puo H0 Iuv) as S1.
      pose proof (FP j0 j1 uo wo H0 H1 Puo Pwo Nd (not_eq_sym Iuv) Ivw (not_eq_sym U1) (not_eq_sym W1) Iuw) as F.
      unfold fp3w in F. destruct F as [[A B]|[[A B]|[A B]]]; lra.
  - intros u v Hu Hv Nuv.
    destruct (RX u Hu) as [uo Ru]. destruct (RX v Hv) as [vo Rv].
    pose proof (Rjd u v uo vo Ru Rv Nuv) as Euv. pose proof (Rid u v uo vo Ru Rv Nuv) as Iuv.
    destruct (Rp u uo Ru) as [Puo [U1 Su]]. destruct (Rp v vo Rv) as [Pvo [V1 Sv]].
    destruct Su as [Su|[Eu Su]]; destruct Sv as [Sv|[Ev Sv]].
    + pose proof (PN uo vo Puo Pvo Iuv). lra.
    + subst vo. destruct (Ck uo Puo Iuv U1) as [E0 _]. pose proof (MV uo Puo Iuv U1).
      pose proof (Sy uo j0 Puo H0 Iuv) as S1. lra.
    + subst uo. destruct (Ck vo Pvo (not_eq_sym Iuv) V1) as [E0 _]. pose proof (MV vo Pvo (not_eq_sym Iuv) V1). lra.
    + exfalso. apply Iuv. congruence.
Qed.

(* (b) one step: the two lengths given to the joined nodes are >= 0 (pools of two nodes included) *)
Lemma tn_step pool next pool' :
  jwf pool -> tm_pool pool -> TN pool -> (2 <= length pool)%nat -> ~ In next (jids pool) ->
  nj_step pool (Z.of_nat (length pool)) next = Ok pool' -> TN pool'.
Proof.
  intros W [FP [PT PN]] Tn L2 Nn E.
  destruct (nj_step_sound_l pool (Z.of_nat (length pool)) next W eq_refl L2 Nn)
    as [j0 [j1 [rest [newn [l0 [l1 [E' [Hab [Min [Ht [H2 [Hsum [Hids [Htrees [_ [_ Hcherry]]]]]]]]]]]]]]]].
  rewrite E in E'. inversion E'. subst pool'. clear E'.
  pose proof W as W0. destruct W as [N [D [Sy Xs]]].
  destruct (pairs_of_In _ _ _ Hab) as [H0 H1]. pose proof (pairs_of_distinct j_id _ _ _ N Hab) as Nd.
  assert (LL : (0 <= l0)%Q /\ (0 <= l1)%Q).
  { destruct (Nat.eq_dec (length pool) 2) as [E2|N2].
    - destruct H2 as [A0 A1]; [rewrite E2; reflexivity|]. pose proof (PN j0 j1 H0 H1 Nd) as P.
      assert (X : (0 <= jd j0 j1 / 2)%Q) by (apply Qle_shift_div_l; lra). split; lra.
    - assert (L3 : (3 <= length pool)%nat) by lia.
      destruct (fp_cherry_ns pool j0 j1 FP W0 L3 Hab Min) as [a0 [a1 [mv C]]].
      destruct (Hcherry a0 a1 mv C) as [_ Hl]. destruct Hl as [A0 A1]; [lia|]. destruct C as [C01 Ck].
      pose proof (others_length j_id pool j0 j1 N H0 H1 Nd) as Lo.
      assert (N0 : NoDup (map j_id (remove_id j_id (j_id j0) pool))) by (apply remove_id_NoDup; exact N).
      destruct (remove_id j_id (j_id j1) (remove_id j_id (j_id j0) pool)) as [|k others'] eqn:Eo; [simpl in Lo; lia|].
      assert (Hk : In k (remove_id j_id (j_id j1) (remove_id j_id (j_id j0) pool))) by (rewrite Eo; left; reflexivity).
      destruct (Ck k (or_introl eq_refl)) as [E0 E1].
      apply (remove_id_In j_id _ _ _ N0) in Hk. destruct Hk as [Hk K1].
      apply (remove_id_In j_id _ _ _ N) in Hk. destruct Hk as [Hk K0].
      pose proof (PT j1 j0 k H1 H0 Hk (not_eq_sym Nd) (not_eq_sym K1) (not_eq_sym K0)) as T1.
      pose proof (PT j0 j1 k H0 H1 Hk Nd (not_eq_sym K0) (not_eq_sym K1)) as T2.
      pose proof (Sy j1 j0 H1 H0 (not_eq_sym Nd)) as S1. split; lra. }
  destruct LL as [P0 P1].
  intros u Hu m Hm. apply in_app_iff in Hu. destruct Hu as [Hu|[<-|[]]].
  - assert (Hin : In (j_tree u) (map j_tree rest)) by (apply in_map; exact Hu). rewrite Htrees in Hin.
    apply in_map_iff in Hin. destruct Hin as [k [Ek Hk]].
    apply (remove_id_In j_id) in Hk; [|apply remove_id_NoDup; exact N]. destruct Hk as [Hk _].
    apply (remove_id_In j_id) in Hk; [|exact N]. destruct Hk as [Hk _]. rewrite <- Ek in Hm. exact (Tn k Hk m Hm).
  - rewrite Ht in Hm. rewrite qnodes_node in Hm. apply in_knodes in Hm. destruct Hm as [c [[<-|[<-|[]]] Dm]].
    + destruct Dm as [->|Dm].
      * destruct (j_tree j0). simpl. exact P0.
      * rewrite qnodes_setlen in Dm. exact (Tn j0 H0 m Dm).
    + destruct Dm as [->|Dm].
      * destruct (j_tree j1). simpl. exact P1.
      * rewrite qnodes_setlen in Dm. exact (Tn j1 H1 m Dm).
Qed.

Section LoopTN.
Variable Mf : Z -> Z -> Q.
Variable order : list Z.

Lemma nj_loop_tn : forall fuel pool next,
  NI Mf order pool -> TN pool -> tm_pool pool ->
  (length pool <= fuel)%nat -> (1 <= length pool)%nat ->
  (forall i, In i (jids pool) -> i < next) ->
  exists x, nj_loop fuel pool (Z.of_nat (length pool)) next = Ok (j_tree x) /\ TN [x].
Proof.
  induction fuel as [|f IH]; intros pool next I Tn HP Lf L1 Fr; [lia|].
  cbn [nj_loop]. destruct (1 <? Z.of_nat (length pool)) eqn:E1.
  - apply Z.ltb_lt in E1. assert (L2 : (2 <= length pool)%nat) by lia.
    assert (Nn : ~ In next (jids pool)) by (intro H; apply Fr in H; lia).
    destruct (ni_step Mf order pool next I L2 Fr) as [pool' [E [I' [Ln Fr']]]].
    { intros L3 j0 j1 Hab Min. apply (tm_cherry pool j0 j1 HP (ni_wf Mf order pool I) L3 Hab Min). }
    pose proof (tn_step pool next pool' (ni_wf Mf order pool I) HP Tn L2 Nn E) as Tn'.
    rewrite E. cbn [bind].
    replace (Z.of_nat (length pool) - 1) with (Z.of_nat (length pool')) by lia.
    apply IH; auto; try lia.
    destruct (le_lt_dec 3 (length pool)) as [L3|L3].
    + apply (tm_closed pool next pool'); auto. apply (ni_wf Mf order pool I).
    + (* two nodes were joined into one: nothing to check *)
      destruct pool' as [|x [|y r]]; simpl in Ln; try lia.
      destruct (ni_wf Mf order [x] I') as [N' _].
      assert (One : forall u v, In u [x] -> In v [x] -> j_id u = j_id v) by (intros u v [<-|[]] [<-|[]]; reflexivity).
      split; [|split].
      * intros i j k l Hi Hj _ _ Nij. exfalso. apply Nij. apply One; assumption.
      * intros u v w Hu Hv _ Nuv. exfalso. apply Nuv. apply One; assumption.
      * intros u v Hu Hv Nuv. exfalso. apply Nuv. apply One; assumption.
  - apply Z.ltb_ge in E1. destruct pool as [|x [|y pool]]; simpl in *; try lia. exists x. auto.
Qed.
End LoopTN.

Lemma nj_init_tm M order pool :
  NoDup order -> mcomplete M order -> mfour_point_ns M order -> mtriangle M order -> mnonneg M order ->
  nj_init M order = Ok pool -> tm_pool pool /\ TN pool.
Proof.
  intros N Hc FP Tri Pos Ei. split; [split; [exact (nj_init_FP_ns M order pool N Hc FP Ei)|]|].
  - destruct (ids_facts order) as [F [S0 [Nf [Li Fr]]]].
    set (ids := combine (map Z.of_nat (seq 0 (length order))) order) in *.
    assert (Ns : NoDup (map snd ids)) by (rewrite S0; exact N).
    assert (Hc' : mcomplete M (map snd ids)) by (rewrite S0; exact Hc).
    rewrite (nj_init_eval M ids Ns Hc' order eq_refl) in Ei. inversion Ei. subst pool. clear Ei.
    assert (In_o : forall p, In p ids -> In (snd p) order) by (intros p Hp; rewrite <- S0; apply in_map; exact Hp).
    split.
    + intros u v w Hu Hv Hw Nuv Nuw Nvw.
      apply in_map_iff in Hu. destruct Hu as [ia [<- Hia]]. apply in_map_iff in Hv. destruct Hv as [jb [<- Hjb]].
      apply in_map_iff in Hw. destruct Hw as [kc [<- Hkc]].
      change (fst ia <> fst jb) in Nuv. change (fst ia <> fst kc) in Nuw. change (fst jb <> fst kc) in Nvw.
      rewrite !(nmk_jd M ids Nf) by assumption.
      apply Tri; auto; apply (ids_snd_neq ids Ns); assumption.
    + intros u v Hu Hv Nuv.
      apply in_map_iff in Hu. destruct Hu as [ia [<- Hia]]. apply in_map_iff in Hv. destruct Hv as [jb [<- Hjb]].
      change (fst ia <> fst jb) in Nuv. rewrite !(nmk_jd M ids Nf) by assumption.
      apply Pos; auto; apply (ids_snd_neq ids Ns); assumption.
  - destruct (ids_facts order) as [F [S0 [Nf [Li Fr]]]].
    set (ids := combine (map Z.of_nat (seq 0 (length order))) order) in *.
    assert (Ns : NoDup (map snd ids)) by (rewrite S0; exact N).
    assert (Hc' : mcomplete M (map snd ids)) by (rewrite S0; exact Hc).
    rewrite (nj_init_eval M ids Ns Hc' order eq_refl) in Ei. inversion Ei. subst pool. clear Ei.
    intros u Hu m Hm. apply in_map_iff in Hu. destruct Hu as [ia [<- Hia]].
    change (j_tree (nmk M ids ia)) with (QT (fst ia) (Some (snd ia)) None []) in Hm. destruct Hm.
Qed.

(* (b) for the whole run: every edge length of nj_tree's output is >= 0 when the matrix satisfies the
   non-strict four-point condition, the triangle inequality and has no negative entry *)
Theorem nj_lengths_nonneg_l M order :
  NoDup order -> order <> [] -> mcomplete M order -> msymmetric M order ->
  mfour_point_ns M order -> mtriangle M order -> mnonneg M order ->
  exists T, nj_tree M order = Ok T /\ forall m, In m (qnodes T) -> (0 <= qlen0 m)%Q.
Proof.
  intros N Ne Hc Hs FP Tri Pos. destruct (ids_facts order) as [F [S0 [Nf [Li Fr]]]].
  set (ids := combine (map Z.of_nat (seq 0 (length order))) order) in *.
  assert (Ns : NoDup (map snd ids)) by (rewrite S0; exact N).
  assert (Hc' : mcomplete M (map snd ids)) by (rewrite S0; exact Hc).
  assert (Hs' : msymmetric M (map snd ids)) by (rewrite S0; exact Hs).
  pose proof (nj_init_eval M ids Ns Hc' order eq_refl) as Ei.
  destruct (nj_init_tm M order _ N Hc FP Tri Pos Ei) as [TM Tn].
  unfold nj_tree. rewrite Ei. cbn [bind].
  assert (I : NI (mval M) (map snd ids) (map (nmk M ids) ids)) by (apply nj_init_NI; assumption).
  rewrite S0 in I.
  assert (Lp : length (map (nmk M ids) ids) = length order) by (rewrite map_length; exact Li).
  rewrite <- Lp.
  destruct (nj_loop_tn (mval M) order (length (map (nmk M ids) ids)) (map (nmk M ids) ids)
              (Z.of_nat (length (map (nmk M ids) ids))) I Tn TM) as [x [E Tx]].
  - lia.
  - rewrite Lp. destruct order; [congruence | simpl; lia].
  - intros i Hi. unfold jids in Hi. rewrite map_map in Hi. rewrite Lp. apply Fr. exact Hi.
  - exists (j_tree x). split; [exact E|]. intros m Hm. exact (Tx x (or_introl eq_refl) m Hm).
Qed.
