(* C13: every sub-parser only moves forward in the token sequence (what is left to read afterwards
   is a suffix of what was left before), provided the statement parser does. *)
From Coq Require Import ZArith List Bool Lia.
From DV Require Import Model.PyPrims Model.C13Model.
Import ListNotations.

Definition suf (a b : list token) : Prop := exists pre, b = pre ++ a.

Lemma suf_refl : forall a, suf a a.
Proof. intros a. exists []. reflexivity. Qed.
Lemma suf_trans : forall a b c, suf a b -> suf b c -> suf a c.
Proof. intros a b c [p1 E1] [p2 E2]. exists (p2 ++ p1). subst. rewrite app_assoc. reflexivity. Qed.
Lemma suf_tail : forall t r, suf r (t :: r).
Proof. intros. exists [t]. reflexivity. Qed.
Lemma suf_Forall : forall P a b, suf a b -> Forall P b -> Forall P a.
Proof. intros P a b [pre E] H. subst. apply Forall_app in H. tauto. Qed.
Lemma suf_length : forall a b, suf a b -> (length a <= length b)%nat.
Proof. intros a b [pre E]. subst. rewrite app_length. lia. Qed.

Ltac inv_ok :=
  repeat match goal with
  | H : Ok _ = Ok _ |- _ => inversion H; subst; clear H
  | H : Err _ = Ok _ |- _ => discriminate H
  | H : OutOfFuel = Ok _ |- _ => discriminate H
  | H : bind ?r _ = Ok _ |- _ => let E := fresh "E" in destruct r eqn:E; cbn [bind] in H; try discriminate H
  | H : (if ?b then _ else _) = Ok _ |- _ => let E := fresh "B" in destruct b eqn:E; try discriminate H
  | H : (let '(_, _) := ?p in _) = Ok _ |- _ => let E := fresh "P" in destruct p eqn:E
  | H : match ?x with _ => _ end = Ok _ |- _ => let E := fresh "M" in destruct x eqn:E; try discriminate H
  end.

Ltac suf_chain :=
  cbn [z_toks set_cur set_com clear_comments k_z set_z set_ntax set_ns_taxa after_tree] in *;
  repeat first
    [ assumption
    | apply suf_refl
    | match goal with H : suf ?x ?b |- suf ?a ?b => apply (suf_trans a x b); [|exact H] end ].

Section Suffix.
Variable T : Type.
Variables lower upper : str -> str.
Variable parse_tree : mapper -> tz -> res (option T * mapper * tz).
Variable set_label : T -> option str -> T.
Variable add_comments : T -> list str -> T.
Variable vl : bool.
Variable c : nscfg.
Variable et : bool.

(* the statement parser consumes a prefix of what is left *)
Hypothesis parse_tree_suf : forall m z ot m' z',
  parse_tree m z = Ok (ot, m', z') -> suf (z_toks z') (z_toks z).

Lemma fetch_suf : forall z b z', fetch z = Ok (b, z') -> suf (z_toks z') (z_toks z).
Proof.
  intros z b z' H. unfold fetch in H. destruct (z_toks z) as [|t r] eqn:E.
  - destruct (z_end z); inv_ok. simpl. apply suf_refl.
  - inv_ok. simpl. apply suf_tail.
Qed.

Lemma next_token_suf : forall z z', next_token z = Ok z' -> suf (z_toks z') (z_toks z).
Proof.
  intros z z' H. unfold next_token in H. inv_ok. apply fetch_suf in E.
  destruct b; inv_ok; simpl; assumption.
Qed.
Lemma require_next_token_suf : forall z z', require_next_token z = Ok z' -> suf (z_toks z') (z_toks z).
Proof. intros z z' H. unfold require_next_token in H. inv_ok. apply fetch_suf in E. assumption. Qed.
Lemma next_token_ucase_suf : forall z z', next_token_ucase upper z = Ok z' -> suf (z_toks z') (z_toks z).
Proof.
  intros z z' H. unfold next_token_ucase in H. inv_ok. apply fetch_suf in E.
  destruct b; inv_ok; simpl; assumption.
Qed.
Lemma require_next_token_ucase_suf : forall z z',
  require_next_token_ucase upper z = Ok z' -> suf (z_toks z') (z_toks z).
Proof. intros z z' H. unfold require_next_token_ucase in H. inv_ok. apply fetch_suf in E. simpl. assumption. Qed.

Lemma cast_toks : forall z, z_toks (cast_ucase upper z) = z_toks z.
Proof. intros z. unfold cast_ucase. destruct (cur_falsy z); reflexivity. Qed.

Ltac fwd :=
  repeat match goal with
  | H : next_token _ = Ok _ |- _ => apply next_token_suf in H
  | H : require_next_token _ = Ok _ |- _ => apply require_next_token_suf in H
  | H : next_token_ucase _ _ = Ok _ |- _ => apply next_token_ucase_suf in H
  | H : require_next_token_ucase _ _ = Ok _ |- _ => apply require_next_token_ucase_suf in H
  end; rewrite ?cast_toks in *.

Lemma skip_loop_suf : forall fuel z z', skip_loop fuel z = Ok z' -> suf (z_toks z') (z_toks z).
Proof.
  induction fuel as [|f IH]; intros z z' H; simpl in H; [discriminate|].
  inv_ok; [|apply suf_refl]. apply IH in H. fwd. suf_chain.
Qed.
Lemma skip_to_semicolon_suf : forall fuel z z', skip_to_semicolon fuel z = Ok z' -> suf (z_toks z') (z_toks z).
Proof. intros fuel z z' H. unfold skip_to_semicolon in H. inv_ok. apply skip_loop_suf in H. fwd. suf_chain. Qed.

Lemma consume_loop_suf : forall fuel tok z z', consume_loop upper fuel tok z = Ok z' -> suf (z_toks z') (z_toks z).
Proof.
  induction fuel as [|f IH]; intros tok z z' H; [discriminate|].
  cbn [consume_loop] in H. inv_ok; [|apply suf_refl].
  apply IH in H. apply skip_to_semicolon_suf in E. fwd. suf_chain.
Qed.
Lemma consume_suf : forall fuel tok z z', consume_to_end_of_block upper fuel tok z = Ok z' -> suf (z_toks z') (z_toks z).
Proof. intros. eapply consume_loop_suf; eassumption. Qed.

Lemma scan_begin_suf : forall fuel z z', scan_begin upper fuel z = Ok z' -> suf (z_toks z') (z_toks z).
Proof.
  induction fuel as [|f IH]; intros z z' H; simpl in H; [discriminate|].
  inv_ok; [|apply suf_refl]. apply IH in H. fwd. suf_chain.
Qed.

Lemma parse_title_suf : forall z t z', parse_title upper z = Ok (t, z') -> suf (z_toks z') (z_toks z).
Proof. intros z t z' H. unfold parse_title in H. inv_ok. fwd. suf_chain. Qed.

Lemma link_loop_suf : forall fuel z v r z', link_loop upper vl fuel z v = Ok (r, z') -> suf (z_toks z') (z_toks z).
Proof.
  induction fuel as [|f IH]; intros z v r z' H; simpl in H; [discriminate|].
  inv_ok; try apply suf_refl; apply IH in H; fwd; suf_chain.
Qed.
Lemma parse_link_suf : forall fuel z r z', parse_link upper vl fuel z = Ok (r, z') -> suf (z_toks z') (z_toks z).
Proof. intros fuel z r z' H. unfold parse_link in H. inv_ok. apply link_loop_suf in H. fwd. suf_chain. Qed.

Lemma dimensions_loop_suf : forall fuel z n r z',
  dimensions_loop upper fuel z n = Ok (r, z') -> suf (z_toks z') (z_toks z).
Proof.
  induction fuel as [|f IH]; intros z n r z' H; simpl in H; [discriminate|].
  inv_ok; try apply suf_refl; apply IH in H; fwd; suf_chain.
Qed.
Lemma parse_dimensions_suf : forall fuel z n r z',
  parse_dimensions upper fuel z n = Ok (r, z') -> suf (z_toks z') (z_toks z).
Proof. intros fuel z n r z' H. unfold parse_dimensions in H. inv_ok. apply dimensions_loop_suf in H. fwd. suf_chain. Qed.

Lemma taxlabels_loop_suf : forall fuel z taxa n r z',
  taxlabels_loop lower c fuel z taxa n = Ok (r, z') -> suf (z_toks z') (z_toks z).
Proof.
  induction fuel as [|f IH]; intros z taxa n r z' H; simpl in H; [discriminate|].
  destruct (z_cur z) as [label|]; [|discriminate].
  destruct (str_eqb label K_SEMI); [inv_ok; apply suf_refl|].
  destruct (match ns_get_taxon lower taxa label with Some _ => _ | None => _ end) as [taxa1|e|]; cbn [bind] in H; try discriminate.
  inv_ok. apply IH in H. fwd. suf_chain.
Qed.

Definition ksuf (k' k : core) : Prop := suf (z_toks (k_z k')) (z_toks (k_z k)).

Lemma zstep_suf : forall k f k', (forall z z', f z = Ok z' -> suf (z_toks z') (z_toks z)) ->
  zstep k f = Ok k' -> ksuf k' k.
Proof. intros k f k' Hf H. unfold zstep in H. inv_ok. apply Hf in E. unfold ksuf. simpl. assumption. Qed.

Lemma parse_taxlabels_suf : forall fuel k ns k', parse_taxlabels lower c fuel k ns = Ok k' -> ksuf k' k.
Proof.
  intros fuel k ns k' H. unfold parse_taxlabels in H. inv_ok. apply taxlabels_loop_suf in E0.
  unfold ksuf. fwd. suf_chain.
Qed.

Lemma new_tns_z : forall k g t i k' g', new_tns c k g t = (i, k', g') -> k_z k' = k_z k.
Proof.
  intros k g t i k' g' H. unfold new_tns in H.
  destruct (c_attached c); [inversion H; reflexivity|].
  destruct (c_fac c); inversion H; reflexivity.
Qed.

Lemma get_tns_z : forall k g t i k' g', get_tns upper c k g t = Ok (i, k', g') -> k_z k' = k_z k.
Proof.
  intros k g t i k' g' H. unfold get_tns in H.
  destruct (c_attached c); [inversion H; reflexivity|].
  destruct t as [t|].
  - destruct (filter _ (g_reg g)) as [|x [|y r]]; inversion H; reflexivity.
  - destruct (g_reg g) as [|x [|y r]]; inversion H; try reflexivity.
    eapply new_tns_z. eassumption.
Qed.

Lemma loc_get_ns_z : forall k g l i k' g', loc_get_ns upper c k g l = Ok (i, k', g') -> k_z k' = k_z k.
Proof.
  intros k g l i k' g' H. unfold loc_get_ns in H. destruct (l_ns l); [inversion H; reflexivity|].
  eapply get_tns_z; eassumption.
Qed.

Lemma taxa_loop_suf : forall fuel k g tok tns k' g',
  taxa_loop lower upper c fuel k g tok tns = Ok (k', g') -> ksuf k' k.
Proof.
  unfold ksuf.
  induction fuel as [|f IH]; intros k g tok tns k' g' H; [discriminate|].
  cbn [taxa_loop] in H.
  destruct (str_eqb tok K_END || str_eqb tok K_ENDBLOCK); [inv_ok; apply suf_refl|].
  destruct (require_next_token_ucase upper (k_z k)) as [z1|e|] eqn:E1; cbn [bind] in H; try discriminate.
  match type of H with bind ?r _ = _ => destruct r as [[[[token2 k2] g2] tns2]|e|] eqn:E2 end; cbn [bind] in H; try discriminate.
  assert (S2 : suf (z_toks (k_z k2)) (z_toks z1)).
  { destruct (str_eqb (cur_text z1) K_TITLE).
    - destruct (parse_title upper (k_z (set_z k z1))) as [[title z2]|e|] eqn:E3; cbn [bind] in E2; try discriminate.
      destruct (new_tns c (set_z (set_z k z1) z2) g (Some title)) as [[i k2'] g2'] eqn:E4.
      inversion E2; subst. apply new_tns_z in E4. rewrite E4. apply parse_title_suf in E3. simpl in *. assumption.
    - inversion E2; subst. simpl. apply suf_refl. }
  match type of H with bind ?r _ = _ => destruct r as [k3|e|] eqn:E5 end; cbn [bind] in H; try discriminate.
  assert (S3 : suf (z_toks (k_z k3)) (z_toks (k_z k2))).
  { destruct (str_eqb token2 K_DIMENSIONS).
    - destruct (parse_dimensions upper (S f) (k_z k2) (k_ntax k2)) as [[n z3]|e|] eqn:E6; cbn [bind] in E5; try discriminate.
      inversion E5; subst. apply parse_dimensions_suf in E6. simpl. assumption.
    - inversion E5; subst. apply suf_refl. }
  apply require_next_token_ucase_suf in E1.
  destruct (str_eqb token2 K_TAXLABELS).
  - destruct (match tns2 with Some i => (i, k3, g2) | None => new_tns c k3 g2 None end) as [[i k4] g4] eqn:E7.
    assert (Z4 : k_z k4 = k_z k3).
    { destruct tns2; [inversion E7; reflexivity | eapply new_tns_z; eassumption]. }
    destruct (parse_taxlabels lower c (S f) (set_z k4 (clear_comments (k_z k4))) i) as [k5|e|] eqn:E8; cbn [bind] in H; try discriminate.
    apply IH in H. apply parse_taxlabels_suf in E8. unfold ksuf in E8. simpl in E8. rewrite Z4 in E8.
    suf_chain.
  - apply IH in H. suf_chain.
Qed.

Lemma parse_taxa_block_suf : forall fuel k g k' g',
  parse_taxa_block lower upper c fuel k g = Ok (k', g') -> ksuf k' k.
Proof.
  intros fuel k g k' g' H. unfold parse_taxa_block in H. inv_ok.
  apply zstep_suf in E; [|apply skip_to_semicolon_suf].
  apply zstep_suf in E1; [|apply skip_to_semicolon_suf].
  apply taxa_loop_suf in E0. unfold ksuf in *. suf_chain.
Qed.

Lemma translate_loop_suf : forall fuel z m n m' z',
  translate_loop lower fuel z m n = Ok (m', z') -> suf (z_toks z') (z_toks z).
Proof.
  induction fuel as [|f IH]; intros z m n m' z' H; simpl in H; [discriminate|].
  destruct (next_token z) as [z1|e|] eqn:E1; cbn [bind] in H; try discriminate.
  destruct (tok_is z1 K_SEMI && negb (z_quoted z1)); [discriminate|].
  destruct (next_token z1) as [z2|e|] eqn:E2; cbn [bind] in H; try discriminate.
  destruct (z_cur z2) as [tl|]; [|discriminate].
  match type of H with bind ?r _ = _ => destruct r as [[i taxa]|e|] end; cbn [bind] in H; try discriminate.
  destruct (next_token z2) as [z3|e|] eqn:E3; cbn [bind] in H; try discriminate.
  fwd.
  destruct (cur_falsy z3 || tok_is z3 K_SEMI); [inv_ok; suf_chain|].
  destruct (negb (tok_is z3 K_COMMA)); [discriminate|].
  apply IH in H. suf_chain.
Qed.

Lemma parse_translate_suf : forall fuel k ns m k', parse_translate lower fuel k ns = Ok (m, k') -> ksuf k' k.
Proof.
  intros fuel k ns m k' H. unfold parse_translate in H. inv_ok. apply translate_loop_suf in E.
  unfold ksuf. simpl. assumption.
Qed.

Lemma parse_tree_stmt_suf : forall m z t m' z',
  parse_tree_stmt T parse_tree set_label add_comments m z = Ok (t, m', z') -> suf (z_toks z') (z_toks z).
Proof.
  intros m z t m' z' H. unfold parse_tree_stmt in H.
  destruct (next_token z) as [z1|e|] eqn:E1; cbn [bind] in H; try discriminate.
  match type of H with bind ?r _ = _ => destruct r as [z2|e|] eqn:E2 end; cbn [bind] in H; try discriminate.
  destruct (next_token z2) as [z3|e|] eqn:E3; cbn [bind] in H; try discriminate.
  unfold pull_comments in H.
  destruct (negb (tok_is (set_com z3 []) K_EQ)); [discriminate|].
  destruct (next_token (set_com z3 [])) as [z5|e|] eqn:E5; cbn [bind] in H; try discriminate.
  destruct (parse_tree m z5) as [[[ot m1] z6]|e|] eqn:E6; cbn [bind] in H; try discriminate.
  destruct ot; [|discriminate]. inversion H; subst.
  apply parse_tree_suf in E6.
  assert (S2 : suf (z_toks z2) (z_toks z1)).
  { destruct (tok_is z1 K_STAR); [apply next_token_suf; assumption | inversion E2; apply suf_refl]. }
  fwd. suf_chain.
Qed.

(* the iterator's loops *)
Lemma y_tree_loop_suf : forall fuel k ns m out k' m' tk,
  y_tree_loop T upper parse_tree set_label add_comments fuel k ns m = (out, Ok (k', m', tk)) -> ksuf k' k.
Proof.
  unfold ksuf.
  induction fuel as [|f IH]; intros k ns m out k' m' tk H; simpl in H; [inversion H|].
  destruct (parse_tree_stmt T parse_tree set_label add_comments m (k_z k)) as [[[t m1] z1]|e|] eqn:E; try (inversion H; fail).
  apply parse_tree_stmt_suf in E.
  destruct (z_eof z1 || cur_falsy z1); [inversion H; subst; simpl; assumption|].
  destruct (negb (tok_is (cast_ucase upper z1) K_TREE)).
  - inversion H; subst. simpl. rewrite cast_toks. assumption.
  - destruct (y_tree_loop T upper parse_tree set_label add_comments f _ ns m1) as [out' r] eqn:E2.
    inversion H; subst. apply IH in E2. simpl in E2. rewrite cast_toks in E2. suf_chain.
Qed.

End Suffix.
