(* C07 link, part 1: the rose-tree specifications of the statement-level heap model
   (Model/C03Spec.v: spec_su, spec_collapse_basal, spec_encode, rr / spec_reseed, and the
   context-based `reroot` of Proofs/C03Reseed.v) are the SAME functions as the C07 model functions
   (Model/C07Model.v: suppress, collapse_basal, post_reseed, rot).
   C03 names are used qualified; nothing of C03 is modified. *)
From Coq Require Import ZArith List Bool Lia Permutation.
From DV Require Import Model.PyPrims Model.Tree.
From DV Require Model.C03Spec Proofs.C03Base Proofs.C03Reseed Proofs.C03SpecLinks.
From DV Require Import Model.C07Model Model.C07Spec
     Proofs.C07Base Proofs.C07Equiv Proofs.C07Rot Proofs.C07Blocks Proofs.C07Ops Proofs.C07Mid.
Import ListNotations.
Open Scope Z_scope.

(* ---------- suppress_unifurcations ---------- *)
Lemma bump_len_supp b e : C03Spec.bump_len b e = addlen_supp e b.
Proof. destruct b, e; reflexivity. Qed.

Lemma bump_set_len b k : C03Spec.bump b k = set_len (addlen_supp (t_len k) b) k.
Proof. destruct k as [i x l e ks]. simpl. rewrite bump_len_supp. reflexivity. Qed.

Lemma map_ext_forall {A B} (f g : A -> B) l : Forall (fun a => f a = g a) l -> map f l = map g l.
Proof. induction 1 as [|a r Ha _ IH]; simpl; [reflexivity|]. rewrite Ha, IH. reflexivity. Qed.

Lemma spec_su_eq : forall t, C03Spec.spec_su t = suppress t.
Proof.
  induction t as [i x l e ks IH] using tree_ind'.
  assert (E : map C03Spec.spec_su ks = map suppress ks) by (apply map_ext_forall; assumption).
  change (C03Spec.spec_su (T i x l e ks)) with
    (match map C03Spec.spec_su ks with [k] => C03Spec.bump e k | ks' => T i x l e ks' end).
  change (suppress (T i x l e ks)) with
    (match map suppress ks with [c] => set_len (addlen_supp (t_len c) e) c | ks' => T i x l e ks' end).
  rewrite E. destruct (map suppress ks) as [|k [|k2 r]]; try reflexivity. apply bump_set_len.
Qed.

(* ---------- collapse_basal_bifurcation ---------- *)
Lemma bump_len_try del keep : C03Spec.bump_len del keep = addlen_try keep del.
Proof. destruct del, keep; reflexivity. Qed.

Lemma leb_nat_Z n : (2 <=? Z.of_nat n) = (2 <=? n)%nat.
Proof.
  destruct (2 <=? n)%nat eqn:E.
  - apply Nat.leb_le in E. apply Z.leb_le. lia.
  - apply Nat.leb_gt in E. apply Z.leb_gt. lia.
Qed.

Lemma spec_collapse_basal_eq t : C03Spec.spec_collapse_basal t = fst (collapse_basal t).
Proof.
  destruct t as [i x l e ks]. destruct ks as [|c0 [|c1 [|c2 r]]]; try reflexivity.
  - destruct c0; reflexivity.
  - destruct c0 as [i0 x0 l0 e0 k0], c1 as [i1 x1 l1 e1 k1].
    rewrite collapse_basal_two. cbn [t_kids t_len set_len]. simpl C03Spec.spec_collapse_basal.
    rewrite !leb_nat_Z, !bump_len_try.
    destruct (2 <=? length k1)%nat; [reflexivity|]. destruct (2 <=? length k0)%nat; reflexivity.
  - destruct c0, c1; reflexivity.
Qed.

Lemma collapse_basal_not_two t : length (t_kids t) <> 2%nat -> fst (collapse_basal t) = t.
Proof.
  destruct t as [i x l e ks]. destruct ks as [|c0 [|c1 [|c2 r]]]; cbn [t_kids length]; intros H; try reflexivity.
  exfalso. apply H. reflexivity.
Qed.

(* ---------- the clean-up passes of reseed_at / encode_bipartitions ---------- *)
Lemma spec_encode_eq su cb r t :
  C03Spec.spec_encode su cb (not_rooted r) t = fst (post_reseed t r cb su).
Proof.
  unfold C03Spec.spec_encode, post_reseed.
  assert (E : (if cb && not_rooted r && (Z.of_nat (length (t_kids t)) =? 2)
               then C03Spec.spec_collapse_basal t else t)
              = (if cb && not_rooted r then fst (collapse_basal t) else t)).
  { destruct (cb && not_rooted r); [|reflexivity]. cbn [andb].
    destruct (Z.of_nat (length (t_kids t)) =? 2) eqn:E2.
    - apply spec_collapse_basal_eq.
    - symmetry. apply collapse_basal_not_two. apply Z.eqb_neq in E2. lia. }
  rewrite E. destruct (cb && not_rooted r).
  - destruct (collapse_basal t) as [t1 did]. cbn [fst]. destruct su; [apply spec_su_eq | reflexivity].
  - cbn [fst]. destruct su; [apply spec_su_eq | reflexivity].
Qed.

(* ---------- re-rooting: rr = rot ---------- *)
Lemma first_ctx_rev {A B} (f : list A -> A -> list A -> option B) (g : list A -> list A -> option B) :
  (forall lft k r, g lft (k :: r) = match f (rev lft) k r with Some b => Some b | None => g (k :: lft) r end) ->
  (forall lft, g lft [] = None) ->
  forall rgt lft, g lft rgt = first_ctx f (rev lft) rgt.
Proof.
  intros Hc Hn. induction rgt as [|k r IH]; intro lft.
  - rewrite Hn. reflexivity.
  - rewrite Hc, first_ctx_cons. destruct (f (rev lft) k r); [reflexivity|]. rewrite IH. reflexivity.
Qed.

Lemma rr_rot n : forall t upk rl, C03Spec.rr n t upk rl = rot rl n t (upk (t_len t)).
Proof.
  induction t as [i x l e ks IH] using tree_ind'. intros upk rl.
  rewrite C03SpecLinks.rr_eq. cbn [t_len]. simpl rot. destruct (i =? n); [reflexivity|].
  rewrite Forall_forall in IH.
  assert (G : forall rgt lft, (forall k, In k rgt -> In k ks) ->
     C03SpecLinks.rr_go n i x l e upk rl lft rgt =
     first_ctx (fun pre k post => rot rl n k [T i x l (t_len k) (pre ++ post ++ upk e)]) (rev lft) rgt).
  { induction rgt as [|k r IHr]; intros lft Hsub.
    - reflexivity.
    - rewrite C03SpecLinks.rr_go_cons, first_ctx_cons.
      rewrite (IH k (Hsub k (or_introl eq_refl))). cbn beta.
      destruct (rot rl n k [T i x l (t_len k) (rev lft ++ r ++ upk e)]); [reflexivity|].
      rewrite IHr by (intros c Hc; apply Hsub; right; assumption). reflexivity. }
  apply (G ks []). auto.
Qed.

Lemma spec_reseed_eq n t : C03Spec.spec_reseed n t = rot (t_len t) n t [].
Proof. unfold C03Spec.spec_reseed. apply rr_rot. Qed.

(* the context form used by the heap proofs *)
Lemma rot_plug c s :
  NoDup (ids (C03Base.plug c s)) ->
  rot (t_len (C03Base.plug c s)) (t_id s) (C03Base.plug c s) [] = Some (C03Reseed.reroot c s).
Proof. intro N. rewrite <- spec_reseed_eq. apply C03SpecLinks.rr_plug. assumption. Qed.
