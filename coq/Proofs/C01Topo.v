(* C01, topology level: the SET of clade masks determines the rooted topology and vice versa. *)
From Coq Require Import ZArith List Bool Lia ZifyBool Permutation Sorted.
From DV Require Import Model.PyPrims Model.Tree Gen.BitFns Model.C01Model Proofs.C01Bits Proofs.C01Enc.
Import ListNotations.
Open Scope Z_scope.

(* ------------------------------------------------------------------------------------------ *)
(* vocabulary                                                                                  *)

(* clade masks of all nodes (post-order, as the encoding lists them) *)
Definition clades (acc : Z -> Z) (t : tree) : list Z := map (cmask acc) (postorder t).

(* canonical form of the rooted topology: ids, labels, lengths and internal taxa erased,
   unifurcations suppressed, children sorted by clade mask *)
Fixpoint insert_by (key : tree -> Z) (c : tree) (l : list tree) : list tree :=
  match l with
  | [] => [c]
  | d :: r => if key c <=? key d then c :: d :: r else d :: insert_by key c r
  end.

Definition sort_by (key : tree -> Z) (l : list tree) : list tree := fold_right (insert_by key) [] l.

Fixpoint canon (acc : Z -> Z) (t : tree) : tree :=
  match t with
  | T _ x _ _ ks =>
    match ks with
    | [] => T 0 x None None []
    | _ => match map (canon acc) ks with
           | [c] => c
           | cs => T 0 None None None (sort_by (cmask acc) cs)
           end
    end
  end.

(* leaves carry pairwise distinct taxa (and every leaf has one): boolean predicate *)
Definition has_taxon (x : option Z) : bool := match x with Some _ => true | None => false end.

Fixpoint distinct_b (l : list (option Z)) : bool :=
  match l with
  | [] => true
  | x :: r => negb (existsb (oz_eqb x) r) && distinct_b r
  end.

Definition leaves_ok (t : tree) : bool :=
  forallb has_taxon (leaf_taxa t) && distinct_b (leaf_taxa t).

Lemma distinct_b_NoDup l : distinct_b l = true -> NoDup l.
Proof.
  induction l as [|x r IH]; intro H; [constructor|].
  simpl in H. apply andb_true_iff in H. destruct H as [H1 H2]. constructor; [| apply IH; exact H2].
  intro Hin. apply negb_true_iff in H1.
  assert (existsb (oz_eqb x) r = true); [| congruence].
  apply existsb_exists. exists x. split; [exact Hin | apply oz_eqb_eq; reflexivity].
Qed.

(* ------------------------------------------------------------------------------------------ *)
(* sorting                                                                                     *)

Lemma insert_by_perm key c l : Permutation (insert_by key c l) (c :: l).
Proof.
  induction l as [|d r IH]; simpl; [reflexivity|].
  destruct (key c <=? key d); [reflexivity|].
  rewrite IH. apply perm_swap.
Qed.

Lemma sort_by_perm key l : Permutation (sort_by key l) l.
Proof.
  induction l as [|c r IH]; simpl; [reflexivity|].
  rewrite insert_by_perm. constructor. exact IH.
Qed.

Lemma insert_by_sorted key c l :
  StronglySorted (fun a b => key a <= key b) l ->
  StronglySorted (fun a b => key a <= key b) (insert_by key c l).
Proof.
  induction l as [|d r IH]; intro H; simpl.
  - constructor; [constructor | constructor].
  - inversion H as [|? ? Hr Hd]; subst.
    destruct (Z.leb_spec (key c) (key d)) as [L | L].
    + constructor; [exact H|]. constructor; [exact L|].
      rewrite Forall_forall in *. intros y Hy. specialize (Hd y Hy). lia.
    + constructor; [apply IH; exact Hr|].
      rewrite Forall_forall in *. intros y Hy.
      apply (Permutation_in _ (insert_by_perm key c r)) in Hy. destruct Hy as [<- | Hy]; [lia | apply Hd; exact Hy].
Qed.

Lemma sort_by_sorted key l : StronglySorted (fun a b => key a <= key b) (sort_by key l).
Proof. induction l as [|c r IH]; simpl; [constructor | apply insert_by_sorted; exact IH]. Qed.

(* two strictly sorted lists with the same elements are equal *)
Lemma strict_sorted_unique (key : tree -> Z) l1 l2 :
  StronglySorted (fun a b => key a < key b) l1 ->
  StronglySorted (fun a b => key a < key b) l2 ->
  (forall c, In c l1 <-> In c l2) -> l1 = l2.
Proof.
  revert l2. induction l1 as [|a r IH]; intros l2 H1 H2 E.
  - destruct l2 as [|b q]; [reflexivity|]. exfalso. apply (E b). left. reflexivity.
  - destruct l2 as [|b q]; [exfalso; apply (E a); left; reflexivity|].
    inversion H1 as [|? ? Hr Ha]; subst. inversion H2 as [|? ? Hq Hb]; subst.
    rewrite Forall_forall in Ha, Hb.
    assert (AB : a = b).
    { assert (Ia : In a (b :: q)) by (apply E; left; reflexivity).
      assert (Ib : In b (a :: r)) by (apply E; left; reflexivity).
      destruct Ia as [-> | Ia]; [reflexivity|]. destruct Ib as [-> | Ib]; [reflexivity|].
      specialize (Ha b Ib). specialize (Hb a Ia). lia. }
    subst b. f_equal. apply IH; [exact Hr | exact Hq |].
    intro c. split; intro Hc.
    + assert (I : In c (a :: q)) by (apply E; right; exact Hc).
      destruct I as [<- | I]; [| exact I]. specialize (Ha a Hc). lia.
    + assert (I : In c (a :: r)) by (apply E; right; exact Hc).
      destruct I as [<- | I]; [| exact I]. specialize (Hb a Hc). lia.
Qed.

(* ------------------------------------------------------------------------------------------ *)
(* masks under permutation                                                                     *)

Lemma mask_of_perm acc l1 l2 : Permutation l1 l2 -> mask_of acc l1 = mask_of acc l2.
Proof.
  induction 1 as [| x l l' _ IH | x y l | l l' l'' _ IH1 _ IH2]; cbn [mask_of fold_right].
  - reflexivity.
  - fold (mask_of acc l) (mask_of acc l'). rewrite IH. reflexivity.
  - fold (mask_of acc l). rewrite !Z.lor_assoc, (Z.lor_comm (leaf_mask acc y)). reflexivity.
  - congruence.
Qed.

Lemma flat_map_perm {A B} (f : A -> list B) l1 l2 :
  Permutation l1 l2 -> Permutation (flat_map f l1) (flat_map f l2).
Proof.
  induction 1 as [| x l l' _ IH | x y l | l l' l'' _ IH1 _ IH2]; simpl.
  - reflexivity.
  - apply Permutation_app_head. exact IH.
  - rewrite !app_assoc. apply Permutation_app_tail. apply Permutation_app_comm.
  - etransitivity; eassumption.
Qed.

Lemma flat_map_perm_pointwise {A B} (f g : A -> list B) l :
  (forall a, In a l -> Permutation (f a) (g a)) -> Permutation (flat_map f l) (flat_map g l).
Proof.
  induction l as [|a r IH]; intro H; simpl; [reflexivity|].
  apply Permutation_app; [apply H; left; reflexivity | apply IH; intros b Hb; apply H; right; exact Hb].
Qed.

Lemma leaf_taxa_canon_perm acc t : Permutation (leaf_taxa (canon acc t)) (leaf_taxa t).
Proof.
  induction t as [i x l e ks IH] using tree_ind'.
  assert (M : Permutation (flat_map leaf_taxa (map (canon acc) ks)) (flat_map leaf_taxa ks)).
  { rewrite flat_map_concat_map, map_map, <- flat_map_concat_map.
    apply flat_map_perm_pointwise. rewrite Forall_forall in IH. exact IH. }
  destruct ks as [|k1 [|k2 r]].
  - reflexivity.
  - cbn [canon map]. simpl in M. rewrite !app_nil_r in M. rewrite leaf_taxa_node. simpl. rewrite app_nil_r. exact M.
  - set (ks := k1 :: k2 :: r) in *.
    assert (C : canon acc (T i x l e ks) = T 0 None None None (sort_by (cmask acc) (map (canon acc) ks))) by reflexivity.
    rewrite C.
    assert (N : exists a b, sort_by (cmask acc) (map (canon acc) ks) = a :: b).
    { destruct (sort_by (cmask acc) (map (canon acc) ks)) as [|a b] eqn:E; [| eauto].
      pose proof (Permutation_length (sort_by_perm (cmask acc) (map (canon acc) ks))) as L.
      rewrite E in L. unfold ks in L. simpl in L. discriminate. }
    destruct N as (a & b & N). unfold ks at 2. rewrite leaf_taxa_node. fold ks.
    transitivity (flat_map leaf_taxa (map (canon acc) ks)); [| exact M].
    rewrite N, leaf_taxa_node, <- N. apply flat_map_perm. apply sort_by_perm.
Qed.

Lemma cmask_canon acc t : cmask acc (canon acc t) = cmask acc t.
Proof. unfold cmask. apply mask_of_perm, leaf_taxa_canon_perm. Qed.

(* ------------------------------------------------------------------------------------------ *)
(* clades of canon t = clades of t, as sets: child order and unifurcations do not matter        *)

Lemma clades_node acc i x l e ks :
  clades acc (T i x l e ks) = flat_map (clades acc) ks ++ [cmask acc (T i x l e ks)].
Proof.
  unfold clades. rewrite postorder_unfold, map_app. f_equal.
  induction ks as [|k r IH]; [reflexivity|]. simpl. rewrite map_app, IH. reflexivity.
Qed.

Lemma cmask_in_clades acc t : In (cmask acc t) (clades acc t).
Proof. destruct t as [i x l e ks]. rewrite clades_node. apply in_or_app. right. left. reflexivity. Qed.

Lemma clades_canon acc t : set_eq (clades acc (canon acc t)) (clades acc t).
Proof.
  induction t as [i x l e ks IH] using tree_ind'.
  destruct ks as [|k1 [|k2 r]].
  - intro m. reflexivity.
  - inversion IH as [|? ? H1 _]; subst. cbn [canon map]. intro m. rewrite (H1 m).
    rewrite clades_node. cbn [flat_map]. rewrite app_nil_r. split.
    + intro H. apply in_or_app. left. exact H.
    + intro H. apply in_app_or in H. destruct H as [H | [<- | []]]; [exact H|].
      replace (cmask acc (T i x l e [k1])) with (cmask acc k1); [apply cmask_in_clades|].
      unfold cmask. rewrite leaf_taxa_node. simpl. rewrite app_nil_r. reflexivity.
  - set (ks := k1 :: k2 :: r) in *.
    assert (C : canon acc (T i x l e ks) = T 0 None None None (sort_by (cmask acc) (map (canon acc) ks))) by reflexivity.
    rewrite C. intro m. rewrite !clades_node, !in_app_iff.
    assert (CM : cmask acc (T 0 None None None (sort_by (cmask acc) (map (canon acc) ks))) = cmask acc (T i x l e ks)).
    { rewrite <- C. apply cmask_canon. }
    rewrite CM. apply or_iff_compat_r.
    rewrite !in_flat_map. split.
    + intros (c & Hc & Hm). apply (Permutation_in _ (sort_by_perm _ _)) in Hc.
      apply in_map_iff in Hc. destruct Hc as (k & <- & Hk). exists k. split; [exact Hk|].
      rewrite Forall_forall in IH. apply (IH k Hk m). exact Hm.
    + intros (k & Hk & Hm). exists (canon acc k). split.
      * apply (Permutation_in _ (Permutation_sym (sort_by_perm _ _))). apply in_map. exact Hk.
      * rewrite Forall_forall in IH. apply (IH k Hk m). exact Hm.
Qed.

(* <- direction and invariance: same canonical form => same set of clade masks *)
Lemma canon_eq_clades acc t1 t2 :
  canon acc t1 = canon acc t2 -> set_eq (clades acc t1) (clades acc t2).
Proof.
  intros E m. rewrite <- (clades_canon acc t1 m), <- (clades_canon acc t2 m), E. reflexivity.
Qed.

(* ------------------------------------------------------------------------------------------ *)
(* elementary moves that do not change the rooted topology                                     *)

Inductive tequiv : tree -> tree -> Prop :=
| te_refl t : tequiv t t
| te_sym a b : tequiv a b -> tequiv b a
| te_trans a b c : tequiv a b -> tequiv b c -> tequiv a c
(* ids, labels, edge lengths (and taxa of internal nodes) are not topology *)
| te_leaf i x l e i' l' e' : tequiv (T i x l e []) (T i' x l' e' [])
(* child order *)
| te_perm i x l e i' x' l' e' k ks ks' :
    Permutation (k :: ks) ks' -> tequiv (T i x l e (k :: ks)) (T i' x' l' e' ks')
(* a unifurcation inserted above any node *)
| te_unif i x l e k : tequiv (T i x l e [k]) k
(* the same moves inside a subtree *)
| te_cong i x l e pre k k' post :
    tequiv k k' -> tequiv (T i x l e (pre ++ k :: post)) (T i x l e (pre ++ k' :: post)).

Lemma cmask_single acc i x l e k : cmask acc (T i x l e [k]) = cmask acc k.
Proof. unfold cmask. rewrite leaf_taxa_node. simpl. rewrite app_nil_r. reflexivity. Qed.

Lemma cmask_nonleaf acc i x l e ks : ks <> [] ->
  cmask acc (T i x l e ks) = fold_right Z.lor 0 (map (cmask acc) ks).
Proof. destruct ks as [|k r]; [congruence | intros _; apply cmask_node]. Qed.

Lemma tequiv_clades acc a b :
  tequiv a b -> cmask acc a = cmask acc b /\ set_eq (clades acc a) (clades acc b).
Proof.
  intro H. induction H.
  - split; [reflexivity | intro m; reflexivity].
  - destruct IHtequiv as [IH1 IH2]. split; [symmetry; exact IH1 | intro m; symmetry; apply IH2].
  - destruct IHtequiv1 as [IH1 IH2], IHtequiv2 as [IH3 IH4].
    split; [congruence | intro m; rewrite (IH2 m); apply IH4].
  - split; [reflexivity | intro m; reflexivity].
  - rename H into P. assert (N : exists k' q, ks' = k' :: q).
    { destruct ks' as [|k' q]; [apply Permutation_length in P; discriminate | eauto]. }
    destruct N as (k' & q & ->).
    assert (CM : cmask acc (T i x l e (k :: ks)) = cmask acc (T i' x' l' e' (k' :: q))).
    { unfold cmask. rewrite !leaf_taxa_node. apply mask_of_perm, flat_map_perm, P. }
    split; [exact CM|]. intro m. rewrite !clades_node, CM, !in_app_iff. apply or_iff_compat_r.
    rewrite !in_flat_map. split; intros (c & Hc & Hm); exists c; split; try exact Hm.
    + apply (Permutation_in _ P). exact Hc.
    + apply (Permutation_in _ (Permutation_sym P)). exact Hc.
  - split; [apply cmask_single|]. intro m. rewrite clades_node. cbn [flat_map]. rewrite app_nil_r, in_app_iff.
    rewrite cmask_single. split; [intros [H | [<- | []]]; [exact H | apply cmask_in_clades] | intro H; left; exact H].
  - destruct IHtequiv as [IH1 IH2].
    assert (CM : cmask acc (T i x l e (pre ++ k :: post)) = cmask acc (T i x l e (pre ++ k' :: post))).
    { rewrite !cmask_nonleaf by (destruct pre; discriminate).
      rewrite !map_app. cbn [map]. rewrite IH1. reflexivity. }
    split; [exact CM|]. intro m. rewrite !clades_node, CM, !in_app_iff. apply or_iff_compat_r.
    rewrite !flat_map_app. cbn [flat_map]. rewrite !in_app_iff, (IH2 m). reflexivity.
Qed.

(* ------------------------------------------------------------------------------------------ *)
(* -> direction: hierarchy uniqueness                                                          *)

Lemma msubset_antisym a b : msubset a b -> msubset b a -> a = b.
Proof.
  intros H1 H2. apply eq_bits. intros i Hi.
  destruct (Z.testbit a i) eqn:Ea, (Z.testbit b i) eqn:Eb; try reflexivity.
  - specialize (H1 i Hi Ea). unfold mem in H1. congruence.
  - specialize (H2 i Hi Eb). unfold mem in H2. congruence.
Qed.

Lemma msubset_refl a : msubset a a.
Proof. intros i _ H. exact H. Qed.

Lemma msubset_trans a b c : msubset a b -> msubset b c -> msubset a c.
Proof. intros H1 H2 i Hi H. apply H2; [exact Hi|]. apply H1; assumption. Qed.

Lemma sub_both_disjoint_zero m c d : msubset m c -> msubset m d -> mdisjoint c d -> m = 0.
Proof.
  intros H1 H2 D. apply eq0_bits. intros i Hi. destruct (Z.testbit m i) eqn:E; [| reflexivity].
  exfalso. apply (D i Hi); [apply H1 | apply H2]; assumption.
Qed.

Lemma mdisjoint_sym a b : mdisjoint a b -> mdisjoint b a.
Proof. intros H i Hi A B. exact (H i Hi B A). Qed.

Lemma clades_sub acc t m : In m (clades acc t) -> msubset m (cmask acc t).
Proof.
  unfold clades. intro H. apply in_map_iff in H. destruct H as (n & <- & Hn).
  apply postorder_cmask_subset. exact Hn.
Qed.

Lemma child_in_postorder i x l e ks c : In c ks -> In c (postorder (T i x l e ks)).
Proof.
  intro H. rewrite postorder_unfold. apply in_or_app. left. apply in_flat_map. exists c. split; [exact H|].
  destruct c as [i' x' l' e' ks']. rewrite postorder_unfold. apply in_or_app. right. left. reflexivity.
Qed.

Lemma child_subset acc i x l e ks c : In c ks -> msubset (cmask acc c) (cmask acc (T i x l e ks)).
Proof. intro H. apply postorder_cmask_subset. apply child_in_postorder. exact H. Qed.

Lemma child_clades_incl acc i x l e ks c m :
  In c ks -> In m (clades acc c) -> In m (clades acc (T i x l e ks)).
Proof.
  intros Hc Hm. rewrite clades_node. apply in_or_app. left. apply in_flat_map. exists c. split; assumption.
Qed.

Section Unique.
  Variable acc : Z -> Z.
  Hypothesis Hnn : forall x, 0 <= acc x.
  Hypothesis Hinj : forall x y, acc x = acc y -> x = y.

  (* canonical, well-formed hierarchy: leaves carry a taxon, inner nodes have >= 2 children with
     pairwise disjoint clade masks, listed in strictly increasing order of mask *)
  Inductive good : tree -> Prop :=
  | good_leaf tx : good (T 0 (Some tx) None None [])
  | good_node ks :
      (2 <= length ks)%nat -> Forall good ks ->
      ForallOrdPairs (fun a b => mdisjoint (cmask acc a) (cmask acc b)) ks ->
      StronglySorted (fun a b => cmask acc a < cmask acc b) ks ->
      good (T 0 None None None ks).

  Lemma cmask_leaf x i l e : cmask acc (T i x l e []) = leaf_mask acc x.
  Proof. unfold cmask. cbn [leaf_taxa mask_of fold_right]. apply Z.lor_0_r. Qed.

  Lemma good_nonzero t : good t -> cmask acc t <> 0.
  Proof.
    induction t as [i x l e ks IH] using tree_ind'. intro G. inversion G as [tx | ks0 L F D S]; subst.
    - rewrite cmask_leaf. cbn [leaf_mask]. rewrite taxon_bitmask_pow2 by apply Hnn.
      pose proof (Z.pow_pos_nonneg 2 (acc tx) ltac:(lia) (Hnn tx)). lia.
    - destruct ks as [|k r]; [simpl in L; lia|].
      inversion IH as [|? ? IHk _]; subst. inversion F as [|? ? Gk _]; subst.
      specialize (IHk Gk). intro E0. apply IHk. apply msubset_0. rewrite <- E0.
      apply child_subset. left. reflexivity.
  Qed.

  Lemma good_sub t n : good t -> In n (postorder t) -> good n.
  Proof.
    induction t as [i x l e ks IH] using tree_ind'. intros G Hn. rewrite postorder_unfold in Hn.
    apply in_app_or in Hn. destruct Hn as [Hn | [<- | []]]; [| exact G].
    apply in_flat_map in Hn. destruct Hn as (k & Hk & Hn).
    inversion G as [tx | ks0 L F D S]; subst; [destruct Hk|].
    rewrite Forall_forall in IH, F. apply (IH k Hk); [apply F; exact Hk | exact Hn].
  Qed.

  Lemma clades_nonzero t m : good t -> In m (clades acc t) -> m <> 0.
  Proof.
    intros G H. unfold clades in H. apply in_map_iff in H. destruct H as (n & <- & Hn).
    apply good_nonzero. apply (good_sub t n G Hn).
  Qed.

  Lemma good_children_pairwise i x l e ks c d :
    good (T i x l e ks) -> In c ks -> In d ks ->
    c = d \/ mdisjoint (cmask acc c) (cmask acc d).
  Proof.
    intros G Hc Hd. inversion G as [tx | ks0 L F D S]; subst; [destruct Hc|].
    destruct (ForallOrdPairs_In D c d Hc Hd) as [E | [R | R]]; [left; exact E | right; exact R |].
    right. apply mdisjoint_sym. exact R.
  Qed.

  Lemma child_proper i x l e ks c :
    good (T i x l e ks) -> In c ks -> cmask acc c <> cmask acc (T i x l e ks).
  Proof.
    intros G Hc E. inversion G as [tx | ks0 L F D S]; subst; [destruct Hc|].
    destruct ks as [|a [|b q]]; try (simpl in L; lia).
    assert (Hab : cmask acc a < cmask acc b).
    { inversion S as [|? ? _ Ha]; subst. inversion Ha; subst. assumption. }
    assert (X : exists c', In c' (a :: b :: q) /\ c' <> c).
    { destruct (Z.eq_dec (cmask acc c) (cmask acc a)) as [Ea | Na].
      - exists b. split; [right; left; reflexivity|]. intro; subst. lia.
      - exists a. split; [left; reflexivity|]. intro; subst. lia. }
    destruct X as (c' & Hc' & Ne).
    destruct (good_children_pairwise _ _ _ _ _ c' c G Hc' Hc) as [E' | Dj]; [contradiction|].
    assert (Z0 : cmask acc c' = 0).
    { apply (sub_both_disjoint_zero _ (cmask acc c') (cmask acc c)); [apply msubset_refl | | exact Dj].
      rewrite E. apply child_subset. exact Hc'. }
    rewrite Forall_forall in F. apply (good_nonzero c' (F c' Hc')). exact Z0.
  Qed.

  Lemma clades_restrict i x l e ks c m :
    good (T i x l e ks) -> In c ks -> In m (clades acc (T i x l e ks)) -> m <> 0 ->
    msubset m (cmask acc c) -> In m (clades acc c).
  Proof.
    intros G Hc Hm Hm0 Hsub. rewrite clades_node in Hm. apply in_app_or in Hm.
    destruct Hm as [Hm | [<- | []]].
    - apply in_flat_map in Hm. destruct Hm as (d & Hd & Hmd).
      destruct (good_children_pairwise _ _ _ _ _ c d G Hc Hd) as [<- | Dj]; [exact Hmd|].
      exfalso. apply Hm0. apply (sub_both_disjoint_zero m (cmask acc c) (cmask acc d)); [exact Hsub | | exact Dj].
      apply clades_sub. exact Hmd.
    - exfalso. apply (child_proper _ _ _ _ _ c G Hc).
      apply msubset_antisym; [apply child_subset; exact Hc | exact Hsub].
  Qed.

  Lemma root_mask_eq a b : set_eq (clades acc a) (clades acc b) -> cmask acc a = cmask acc b.
  Proof.
    intro E. apply msubset_antisym; apply clades_sub.
    - apply E. apply cmask_in_clades.
    - apply E. apply cmask_in_clades.
  Qed.

  Lemma child_match i x l e ka i' x' l' e' kb :
    good (T i x l e ka) -> good (T i' x' l' e' kb) ->
    set_eq (clades acc (T i x l e ka)) (clades acc (T i' x' l' e' kb)) ->
    forall c, In c ka -> exists d, In d kb /\ cmask acc c = cmask acc d /\ set_eq (clades acc c) (clades acc d).
  Proof.
    intros GA GB E c Hc.
    pose proof (root_mask_eq _ _ E) as RM.
    set (A := T i x l e ka) in *. set (B := T i' x' l' e' kb) in *.
    assert (GAf : forall k, In k ka -> good k).
    { inversion GA; subst; [destruct Hc|]. rewrite <- Forall_forall. assumption. }
    assert (GBf : forall k, In k kb -> good k).
    { intros k Hk. apply (good_sub B k GB). apply child_in_postorder. exact Hk. }
    (* the mask of c is a clade of B, inside some child d *)
    assert (H1 : In (cmask acc c) (clades acc B)).
    { apply E. apply (child_clades_incl acc i x l e ka c); [exact Hc | apply cmask_in_clades]. }
    unfold B in H1. rewrite clades_node in H1. apply in_app_or in H1.
    destruct H1 as [H1 | [H1 | []]].
    2:{ exfalso. apply (child_proper _ _ _ _ _ c GA Hc). fold A. rewrite RM. symmetry. exact H1. }
    apply in_flat_map in H1. destruct H1 as (d & Hd & Hcd).
    (* and the mask of d is a clade of A, inside some child c' *)
    assert (H2 : In (cmask acc d) (clades acc A)).
    { apply E. apply (child_clades_incl acc i' x' l' e' kb d); [exact Hd | apply cmask_in_clades]. }
    unfold A in H2. rewrite clades_node in H2. apply in_app_or in H2.
    destruct H2 as [H2 | [H2 | []]].
    2:{ exfalso. apply (child_proper _ _ _ _ _ d GB Hd). fold B. rewrite <- RM. symmetry. exact H2. }
    apply in_flat_map in H2. destruct H2 as (c' & Hc' & Hdc').
    assert (S1 : msubset (cmask acc c) (cmask acc d)) by (apply clades_sub; exact Hcd).
    assert (S2 : msubset (cmask acc d) (cmask acc c')) by (apply clades_sub; exact Hdc').
    assert (CC : c = c').
    { destruct (good_children_pairwise _ _ _ _ _ c c' GA Hc Hc') as [EE | Dj]; [exact EE|].
      exfalso. apply (good_nonzero c (GAf c Hc)).
      apply (sub_both_disjoint_zero _ (cmask acc c) (cmask acc c')); [apply msubset_refl | | exact Dj].
      apply (msubset_trans _ _ _ S1 S2). }
    subst c'.
    assert (EM : cmask acc c = cmask acc d) by (apply msubset_antisym; assumption).
    exists d. split; [exact Hd|]. split; [exact EM|].
    intro m. split; intro Hm.
    - apply (clades_restrict i' x' l' e' kb d m GB Hd).
      + apply E. apply (child_clades_incl acc i x l e ka c); assumption.
      + apply (clades_nonzero c m (GAf c Hc) Hm).
      + rewrite <- EM. apply clades_sub. exact Hm.
    - apply (clades_restrict i x l e ka c m GA Hc).
      + apply E. apply (child_clades_incl acc i' x' l' e' kb d); assumption.
      + apply (clades_nonzero d m (GBf d Hd) Hm).
      + rewrite EM. apply clades_sub. exact Hm.
  Qed.

  Lemma set_eq_sym l1 l2 : set_eq l1 l2 -> set_eq l2 l1.
  Proof. intros E m. symmetry. apply E. Qed.

  (* hierarchy_unique *)
  Lemma good_unique : forall a, good a -> forall b, good b ->
    set_eq (clades acc a) (clades acc b) -> a = b.
  Proof.
    induction a as [i x l e ka IH] using tree_ind'. intros GA b GB E.
    pose proof (root_mask_eq _ _ E) as RM.
    destruct b as [i' x' l' e' kb].
    inversion GA as [tx | ks0 LA FA DA SA]; inversion GB as [ty | ks1 LB FB DB SB]; subst.
    - rewrite !cmask_leaf in RM. cbn [leaf_mask] in RM.
      rewrite !taxon_bitmask_pow2 in RM by apply Hnn.
      apply Z.pow_inj_r in RM; [| lia | apply Hnn | apply Hnn].
      apply Hinj in RM. subst. reflexivity.
    - exfalso. destruct kb as [|c q]; [simpl in LB; lia|].
      assert (Hc : In c (c :: q)) by (left; reflexivity).
      apply (child_proper _ _ _ _ _ c GB Hc). rewrite <- RM.
      assert (H : In (cmask acc c) (clades acc (T 0 (Some tx) None None []))).
      { apply E. apply (child_clades_incl acc 0 None None None (c :: q) c _ Hc). apply cmask_in_clades. }
      rewrite clades_node in H. cbn [flat_map app] in H. destruct H as [H | []]. symmetry. exact H.
    - exfalso. destruct ka as [|c q]; [simpl in LA; lia|].
      assert (Hc : In c (c :: q)) by (left; reflexivity).
      apply (child_proper _ _ _ _ _ c GA Hc). rewrite RM.
      assert (H : In (cmask acc c) (clades acc (T 0 (Some ty) None None []))).
      { apply E. apply (child_clades_incl acc 0 None None None (c :: q) c _ Hc). apply cmask_in_clades. }
      rewrite clades_node in H. cbn [flat_map app] in H. destruct H as [H | []]. symmetry. exact H.
    - f_equal. apply (strict_sorted_unique (cmask acc)); [exact SA | exact SB|].
      rewrite Forall_forall in IH, FA, FB.
      intro c. split; intro Hc.
      + destruct (child_match _ _ _ _ _ _ _ _ _ _ GA GB E c Hc) as (d & Hd & _ & Ecd).
        rewrite (IH c Hc (FA c Hc) d (FB d Hd) Ecd). exact Hd.
      + destruct (child_match _ _ _ _ _ _ _ _ _ _ GB GA (set_eq_sym _ _ E) c Hc) as (d & Hd & _ & Ecd).
        rewrite <- (IH d Hd (FA d Hd) c (FB c Hc) (set_eq_sym _ _ Ecd)). exact Hd.
  Qed.
End Unique.

(* ------------------------------------------------------------------------------------------ *)
(* canon t is a well-formed hierarchy when the leaves carry pairwise distinct taxa             *)

Lemma NoDup_app_disjoint {A} (l1 l2 : list A) x : NoDup (l1 ++ l2) -> In x l1 -> In x l2 -> False.
Proof.
  induction l1 as [|a r IH]; intros N H1 H2; [destruct H1|].
  simpl in N. inversion N as [|? ? Na Nr]; subst. destruct H1 as [-> | H1].
  - apply Na. apply in_or_app. right. exact H2.
  - apply (IH Nr H1 H2).
Qed.

Lemma NoDup_app_l {A} (l1 l2 : list A) : NoDup (l1 ++ l2) -> NoDup l1.
Proof.
  induction l1 as [|a r IH]; intro N; [constructor|].
  simpl in N. inversion N as [|? ? Na Nr]; subst. constructor; [| apply IH; exact Nr].
  intro H. apply Na. apply in_or_app. left. exact H.
Qed.

Lemma NoDup_app_r {A} (l1 l2 : list A) : NoDup (l1 ++ l2) -> NoDup l2.
Proof. induction l1 as [|a r IH]; intro N; [exact N|]. simpl in N. inversion N; subst. apply IH. assumption. Qed.

Lemma FOP_perm {A} (R : A -> A -> Prop) l l' :
  (forall a b, R a b -> R b a) -> Permutation l l' -> ForallOrdPairs R l -> ForallOrdPairs R l'.
Proof.
  intros Rs P. induction P as [| x l l' P IH | x y l | l l' l'' _ IH1 _ IH2]; intro F.
  - exact F.
  - inversion F as [|? ? Fx Fl]; subst. constructor; [| apply IH; exact Fl].
    rewrite Forall_forall in *. intros b Hb. apply Fx. apply (Permutation_in _ (Permutation_sym P)). exact Hb.
  - inversion F as [|? ? Fy Fl]; subst. inversion Fl as [|? ? Fx Fl']; subst.
    inversion Fy as [|? ? Ryx Fy']; subst.
    constructor; [constructor; [apply Rs; exact Ryx | exact Fx] |]. constructor; [exact Fy' | exact Fl'].
  - apply IH2, IH1, F.
Qed.

Section GoodCanon.
  Variable acc : Z -> Z.
  Hypothesis Hnn : forall x, 0 <= acc x.
  Hypothesis Hinj : forall x y, acc x = acc y -> x = y.

  Lemma masks_disjoint l1 l2 :
    (forall x, In x l1 -> In x l2 -> False) -> mdisjoint (mask_of acc l1) (mask_of acc l2).
  Proof.
    intros D i Hi H1 H2. unfold mem in *.
    apply (mask_of_testbit acc l1 i (fun x _ => Hnn x) Hi) in H1.
    apply (mask_of_testbit acc l2 i (fun x _ => Hnn x) Hi) in H2.
    destruct H1 as (x1 & I1 & E1), H2 as (x2 & I2 & E2).
    assert (x1 = x2) by (apply Hinj; congruence). subst x2. exact (D _ I1 I2).
  Qed.

  Lemma canon_children_disjoint ks :
    NoDup (flat_map leaf_taxa ks) ->
    ForallOrdPairs (fun a b => mdisjoint (cmask acc a) (cmask acc b)) (map (canon acc) ks).
  Proof.
    induction ks as [|k r IH]; intro N; [constructor|].
    cbn [flat_map] in N. cbn [map]. constructor; [| apply IH; apply (NoDup_app_r _ _ N)].
    apply Forall_forall. intros c Hc. apply in_map_iff in Hc. destruct Hc as (k' & <- & Hk').
    rewrite !cmask_canon. unfold cmask. apply masks_disjoint. intros x H1 H2.
    apply (NoDup_app_disjoint _ _ x N H1). apply in_flat_map. exists k'. split; assumption.
  Qed.

  Lemma sorted_strict (l : list tree) :
    StronglySorted (fun a b => cmask acc a <= cmask acc b) l ->
    ForallOrdPairs (fun a b => mdisjoint (cmask acc a) (cmask acc b)) l ->
    Forall (fun a => cmask acc a <> 0) l ->
    StronglySorted (fun a b => cmask acc a < cmask acc b) l.
  Proof.
    induction l as [|a r IH]; intros S F NZ; [constructor|].
    inversion S as [|? ? Sr Sa]; subst. inversion F as [|? ? Fa Fr]; subst. inversion NZ as [|? ? Na Nr]; subst.
    constructor; [apply IH; assumption|].
    rewrite Forall_forall in *. intros b Hb. specialize (Sa b Hb). specialize (Fa b Hb).
    assert (cmask acc a <> cmask acc b); [| lia].
    intro E. apply Na. apply (sub_both_disjoint_zero _ (cmask acc a) (cmask acc b)); [apply msubset_refl | | exact Fa].
    rewrite E. apply msubset_refl.
  Qed.

  Lemma forallb_flat_map_part {A B} (p : B -> bool) (f : A -> list B) l a :
    forallb p (flat_map f l) = true -> In a l -> forallb p (f a) = true.
  Proof.
    intros H Ha. rewrite forallb_forall in *. intros x Hx. apply H. apply in_flat_map. exists a. split; assumption.
  Qed.

  Lemma NoDup_flat_map_part {A B} (f : A -> list B) l a : NoDup (flat_map f l) -> In a l -> NoDup (f a).
  Proof.
    induction l as [|b r IH]; intros N Ha; [destruct Ha|].
    cbn [flat_map] in N. destruct Ha as [-> | Ha]; [apply (NoDup_app_l _ _ N) | apply IH; [apply (NoDup_app_r _ _ N) | exact Ha]].
  Qed.

  Lemma good_canon t :
    forallb has_taxon (leaf_taxa t) = true -> NoDup (leaf_taxa t) -> good acc (canon acc t).
  Proof.
    induction t as [i x l e ks IH] using tree_ind'. intros HT ND.
    destruct ks as [|k1 [|k2 r]].
    - cbn [leaf_taxa forallb] in HT. destruct x as [tx|]; [| discriminate]. apply good_leaf.
    - cbn [canon map]. inversion IH as [|? ? IHk _]; subst.
      rewrite leaf_taxa_node in HT, ND. cbn [flat_map] in HT, ND. rewrite app_nil_r in HT, ND.
      apply IHk; assumption.
    - set (ks := k1 :: k2 :: r) in *.
      assert (C : canon acc (T i x l e ks) = T 0 None None None (sort_by (cmask acc) (map (canon acc) ks))) by reflexivity.
      rewrite C. unfold ks in HT, ND. rewrite leaf_taxa_node in HT, ND. fold ks in HT, ND.
      set (cs := map (canon acc) ks).
      pose proof (sort_by_perm (cmask acc) cs) as P.
      assert (GC : forall c, In c cs -> good acc c).
      { intros c Hc. apply in_map_iff in Hc. destruct Hc as (k & <- & Hk).
        rewrite Forall_forall in IH. apply (IH k Hk).
        - apply (forallb_flat_map_part _ _ _ _ HT Hk).
        - apply (NoDup_flat_map_part _ _ _ ND Hk). }
      assert (FP : ForallOrdPairs (fun a b => mdisjoint (cmask acc a) (cmask acc b)) (sort_by (cmask acc) cs)).
      { apply (FOP_perm _ cs); [intros a b; apply mdisjoint_sym | apply Permutation_sym; exact P |].
        apply canon_children_disjoint. exact ND. }
      apply good_node.
      + rewrite (Permutation_length P). unfold cs, ks. rewrite map_length. simpl. lia.
      + apply Forall_forall. intros c Hc. apply GC. apply (Permutation_in _ P). exact Hc.
      + exact FP.
      + apply sorted_strict; [apply sort_by_sorted | exact FP |].
        apply Forall_forall. intros c Hc. apply (good_nonzero acc Hnn). apply GC. apply (Permutation_in _ P). exact Hc.
  Qed.

  Lemma leaves_ok_parts t : leaves_ok t = true ->
    forallb has_taxon (leaf_taxa t) = true /\ NoDup (leaf_taxa t).
  Proof.
    unfold leaves_ok. intro H. apply andb_true_iff in H. destruct H as [H1 H2].
    split; [exact H1 | apply distinct_b_NoDup; exact H2].
  Qed.

  (* splits_iff_topology, rooted: equal SETS of clade masks <-> equal canonical form *)
  Lemma clades_iff_canon t1 t2 : leaves_ok t1 = true -> leaves_ok t2 = true ->
    (set_eq (clades acc t1) (clades acc t2) <-> canon acc t1 = canon acc t2).
  Proof.
    intros L1 L2. split; [| apply canon_eq_clades].
    intro E. destruct (leaves_ok_parts t1 L1) as [A1 B1]. destruct (leaves_ok_parts t2 L2) as [A2 B2].
    apply (good_unique acc Hnn Hinj); [apply good_canon; assumption | apply good_canon; assumption |].
    intro m. rewrite (clades_canon acc t1 m), (clades_canon acc t2 m). apply E.
  Qed.
End GoodCanon.

(* the rooted encoding lists exactly the clade masks of the tree (as a set: of the input tree) *)
Lemma clades_suppress acc t : set_eq (clades acc (suppress t)) (clades acc t).
Proof.
  induction t as [i x l e ks IH] using tree_ind'.
  destruct ks as [|k1 [|k2 r]].
  - intro m. reflexivity.
  - inversion IH as [|? ? H1 _]; subst. cbn [suppress map]. intro m.
    assert (SL : clades acc (set_len (merge_len e (t_len (suppress k1))) (suppress k1)) = clades acc (suppress k1)).
    { destruct (suppress k1) as [i' x' l' e' ks']. cbn [set_len]. rewrite !clades_node.
      unfold cmask. destruct ks'; reflexivity. }
    rewrite SL, (H1 m), clades_node. cbn [flat_map]. rewrite app_nil_r, in_app_iff, cmask_single.
    split; [intro H; left; exact H | intros [H | [<- | []]]; [exact H | apply cmask_in_clades]].
  - set (ks := k1 :: k2 :: r) in *.
    change (suppress (T i x l e ks)) with (T i x l e (map suppress ks)).
    intro m. rewrite !clades_node, !in_app_iff.
    assert (CM : cmask acc (T i x l e (map suppress ks)) = cmask acc (T i x l e ks)).
    { change (T i x l e (map suppress ks)) with (suppress (T i x l e ks)). apply cmask_suppress. }
    rewrite CM. apply or_iff_compat_r. rewrite !in_flat_map. rewrite Forall_forall in IH. split.
    + intros (c & Hc & Hm). apply in_map_iff in Hc. destruct Hc as (k & <- & Hk).
      exists k. split; [exact Hk | apply (IH k Hk m); exact Hm].
    + intros (k & Hk & Hm). exists (suppress k). split; [apply in_map; exact Hk | apply (IH k Hk m); exact Hm].
Qed.

Definition enc_splits (r : enc_result) : list Z := map (fun e => snd (snd e)) (r_edges r).

Lemma rooted_splits_are_clades acc rooted t : is_true rooted = true ->
  set_eq (enc_splits (encode acc rooted t)) (clades acc t).
Proof.
  intro HR. destruct (split_mask_rooted_l acc rooted t HR) as [F _].
  assert (E : enc_splits (encode acc rooted t) = clades acc (suppress t)).
  { unfold enc_splits. rewrite (map_ext_in _ (fun e => fst (snd e))).
    - rewrite encode_spec. cbv zeta. rewrite (pre_collapse_rooted rooted t HR). cbn [fst snd r_edges].
      unfold spec_edges, clades. rewrite map_map. reflexivity.
    - rewrite Forall_forall in F. exact F. }
  rewrite E. apply clades_suppress.
Qed.

Lemma splits_iff_topology_rooted_l acc rooted t1 t2 :
  (forall x, 0 <= acc x) -> (forall x y, acc x = acc y -> x = y) ->
  is_true rooted = true -> leaves_ok t1 = true -> leaves_ok t2 = true ->
  (set_eq (enc_splits (encode acc rooted t1)) (enc_splits (encode acc rooted t2))
   <-> canon acc t1 = canon acc t2).
Proof.
  intros Hnn Hinj HR L1 L2. rewrite <- (clades_iff_canon acc Hnn Hinj t1 t2 L1 L2).
  split; intros E m.
  - rewrite <- (rooted_splits_are_clades acc rooted t1 HR m), <- (rooted_splits_are_clades acc rooted t2 HR m). apply E.
  - rewrite (rooted_splits_are_clades acc rooted t1 HR m), (rooted_splits_are_clades acc rooted t2 HR m). apply E.
Qed.

(* canon is invariant under child order, unifurcation insertion, relabelling of ids/lengths *)
Lemma tequiv_leaf_taxa a b : tequiv a b -> Permutation (leaf_taxa a) (leaf_taxa b).
Proof.
  intro H. induction H.
  - reflexivity.
  - symmetry. assumption.
  - etransitivity; eassumption.
  - reflexivity.
  - destruct ks' as [|k' q]; [apply Permutation_length in H; discriminate|].
    rewrite !leaf_taxa_node. apply flat_map_perm. exact H.
  - rewrite leaf_taxa_node. simpl. rewrite app_nil_r. reflexivity.
  - assert (N : forall q, leaf_taxa (T i x l e (pre ++ q :: post)) = flat_map leaf_taxa (pre ++ q :: post)).
    { intro q. destruct pre; reflexivity. }
    rewrite !N, !flat_map_app. cbn [flat_map]. apply Permutation_app_head, Permutation_app_tail. exact IHtequiv.
Qed.

Lemma distinct_b_complete l : NoDup l -> distinct_b l = true.
Proof.
  induction 1 as [|x r Hx _ IH]; [reflexivity|]. simpl. rewrite IH, andb_true_r.
  apply negb_true_iff. destruct (existsb (oz_eqb x) r) eqn:E; [| reflexivity].
  apply existsb_exists in E. destruct E as (y & Hy & Ey). apply oz_eqb_eq in Ey. subst y. contradiction.
Qed.

Lemma leaves_ok_perm a b : Permutation (leaf_taxa a) (leaf_taxa b) -> leaves_ok a = true -> leaves_ok b = true.
Proof.
  intros P H. unfold leaves_ok in *. apply andb_true_iff in H. destruct H as [H1 H2].
  apply andb_true_iff. split.
  - rewrite forallb_forall in *. intros x Hx. apply H1. apply (Permutation_in _ (Permutation_sym P)). exact Hx.
  - apply distinct_b_complete. apply (Permutation_NoDup P). apply distinct_b_NoDup. exact H2.
Qed.

Lemma canon_invariant acc a b :
  (forall x, 0 <= acc x) -> (forall x y, acc x = acc y -> x = y) ->
  leaves_ok a = true -> tequiv a b -> canon acc a = canon acc b.
Proof.
  intros Hnn Hinj La E.
  assert (Lb : leaves_ok b = true) by (apply (leaves_ok_perm a b); [apply tequiv_leaf_taxa; exact E | exact La]).
  apply (clades_iff_canon acc Hnn Hinj a b La Lb). apply (tequiv_clades acc a b E).
Qed.

(* ------------------------------------------------------------------------------------------ *)
(* unrooted trees: the set of normalised splits                                                *)

Definition norm (S m : Z) : Z := py_normalize_bitmask m S (py_least_significant_set_bit S).

(* the split set of t read as an unrooted tree: every clade mask normalised within the tree's mask *)
Definition uset (acc : Z -> Z) (t : tree) : list Z := map (norm (cmask acc t)) (clades acc t).

Lemma set_eq_map (f : Z -> Z) l1 l2 : set_eq l1 l2 -> set_eq (map f l1) (map f l2).
Proof.
  intros E m. rewrite !in_map_iff. split; intros (x & Hx & Hin); exists x; (split; [exact Hx | apply E; exact Hin]).
Qed.

Lemma set_eq_refl l : set_eq l l.
Proof. intro m. reflexivity. Qed.

Lemma set_eq_trans l1 l2 l3 : set_eq l1 l2 -> set_eq l2 l3 -> set_eq l1 l3.
Proof. intros A B m. rewrite (A m). apply B. Qed.

(* complement inside a disjoint union *)
Lemma complement_in_union a b : mdisjoint a b -> Z.land (Z.lnot a) (Z.lor a b) = b.
Proof.
  intro D. apply eq_bits. intros i Hi. rewrite Z.land_spec, Z.lnot_spec, Z.lor_spec by lia.
  destruct (Z.testbit a i) eqn:Ea, (Z.testbit b i) eqn:Eb; try reflexivity.
  exfalso. exact (D i Hi Ea Eb).
Qed.

Lemma norm_complement S a b : S <> 0 -> mdisjoint a b -> Z.lor a b = S -> norm S a = norm S b.
Proof.
  intros HS D U. unfold norm. destruct (lsb_pow2 S HS) as (k & (Hk0 & Hk1 & _) & EL). rewrite EL.
  rewrite <- (complement_in_union a b D), U. symmetry. apply normalize_complement; [exact Hk0 | exact Hk1].
Qed.

Section Unrooted.
  Variable acc : Z -> Z.
  Hypothesis Hnn : forall x, 0 <= acc x.
  Hypothesis Hinj : forall x y, acc x = acc y -> x = y.

  Lemma leaves_ok_nonzero t : leaves_ok t = true -> cmask acc t <> 0.
  Proof.
    intro L. destruct (leaves_ok_parts t L) as [HT ND].
    rewrite <- (cmask_canon acc t). apply (good_nonzero acc Hnn). apply good_canon; assumption.
  Qed.

  Lemma uset_of_set_eq a b : cmask acc a = cmask acc b -> set_eq (clades acc a) (clades acc b) ->
    set_eq (uset acc a) (uset acc b).
  Proof. intros E C. unfold uset. rewrite E. apply set_eq_map. exact C. Qed.

  Lemma in_clades_node i x l e ks m :
    In m (clades acc (T i x l e ks)) <->
    ((exists k, In k ks /\ In m (clades acc k)) \/ m = cmask acc (T i x l e ks)).
  Proof.
    rewrite clades_node, in_app_iff, in_flat_map. cbn [In]. split.
    - intros [H | [H | []]]; [left; exact H | right; symmetry; exact H].
    - intros [H | H]; [left; exact H | right; left; symmetry; exact H].
  Qed.

  (* moving the seed along an edge: the child c becomes the seed, the old seed (without c) becomes
     its last child.  One clade changes: c's clade is replaced by its complement. *)
  Lemma uset_rotate i x l e pre ic xc lc ec kc post i2 x2 l2 e2 i3 x3 l3 e3 :
    kc <> [] -> pre ++ post <> [] ->
    let t := T i x l e (pre ++ T ic xc lc ec kc :: post) in
    let t' := T i2 x2 l2 e2 (kc ++ [T i3 x3 l3 e3 (pre ++ post)]) in
    leaves_ok t = true ->
    Permutation (leaf_taxa t) (leaf_taxa t') /\ set_eq (uset acc t) (uset acc t').
  Proof.
    intros Hkc Hpp t t' L.
    set (c := T ic xc lc ec kc) in *. set (r' := T i3 x3 l3 e3 (pre ++ post)) in *.
    assert (LTc : leaf_taxa c = flat_map leaf_taxa kc) by (unfold c; destruct kc; [congruence | reflexivity]).
    assert (LTr : leaf_taxa r' = flat_map leaf_taxa (pre ++ post)).
    { unfold r'. destruct (pre ++ post); [congruence | reflexivity]. }
    assert (LTt : leaf_taxa t = flat_map leaf_taxa pre ++ leaf_taxa c ++ flat_map leaf_taxa post).
    { unfold t. destruct pre; cbn [app]; rewrite leaf_taxa_node; [reflexivity|].
      cbn [flat_map]. rewrite flat_map_app. cbn [flat_map]. rewrite <- app_assoc. reflexivity. }
    assert (LTt' : leaf_taxa t' = leaf_taxa c ++ flat_map leaf_taxa pre ++ flat_map leaf_taxa post).
    { unfold t'. destruct kc as [|k0 kr]; [congruence|]. rewrite <- app_comm_cons, leaf_taxa_node.
      rewrite app_comm_cons, flat_map_app. cbn [flat_map]. rewrite app_nil_r, LTr, LTc, flat_map_app. reflexivity. }
    assert (P : Permutation (leaf_taxa t) (leaf_taxa t')).
    { rewrite LTt, LTt'. rewrite app_assoc, app_assoc. apply Permutation_app_tail. apply Permutation_app_comm. }
    split; [exact P|].
    assert (CMt : cmask acc t' = cmask acc t) by (unfold cmask; symmetry; apply mask_of_perm, P).
    pose proof (leaves_ok_nonzero t L) as SN. destruct (leaves_ok_parts t L) as [HT ND].
    unfold uset. rewrite CMt. set (S := cmask acc t) in *.
    (* c's clade and the new node's clade are complementary within S *)
    assert (DJ : mdisjoint (cmask acc c) (cmask acc r')).
    { unfold cmask. apply (masks_disjoint acc Hnn Hinj). intros y H0 H1. rewrite LTr, flat_map_app in H1.
      rewrite LTt in ND. apply in_app_or in H1. destruct H1 as [H1 | H1].
      - apply (NoDup_app_disjoint _ _ y ND H1). apply in_or_app. left. exact H0.
      - apply (NoDup_app_disjoint _ _ y (NoDup_app_r _ _ ND) H0 H1). }
    assert (US : Z.lor (cmask acc c) (cmask acc r') = S).
    { unfold S, cmask. rewrite <- mask_of_app. apply mask_of_perm. rewrite LTt, LTr, flat_map_app.
      rewrite app_assoc, app_assoc. apply Permutation_app_tail. apply Permutation_app_comm. }
    pose proof (norm_complement S _ _ SN DJ US) as NC.
    assert (Ec : forall m, In m (clades acc c) <-> ((exists k, In k kc /\ In m (clades acc k)) \/ m = cmask acc c)).
    { intro m. unfold c. apply in_clades_node. }
    assert (Er : forall m, In m (clades acc r') <-> ((exists k, In k (pre ++ post) /\ In m (clades acc k)) \/ m = cmask acc r')).
    { intro m. unfold r'. apply in_clades_node. }
    intro m. rewrite !in_map_iff. split.
    - intros (y & <- & Hy). unfold t in Hy. apply in_clades_node in Hy. fold t in Hy. fold S in Hy.
      destruct Hy as [(k & Hk & Hy) | ->].
      + apply in_app_or in Hk. destruct Hk as [Hk | [<- | Hk]].
        * exists y. split; [reflexivity|]. unfold t'. apply in_clades_node. left. exists r'. split; [apply in_or_app; right; left; reflexivity|].
          apply Er. left. exists k. split; [apply in_or_app; left; exact Hk | exact Hy].
        * apply Ec in Hy. destruct Hy as [(k & Hk & Hy) | ->].
          -- exists y. split; [reflexivity|]. unfold t'. apply in_clades_node. left. exists k. split; [apply in_or_app; left; exact Hk | exact Hy].
          -- exists (cmask acc r'). split; [symmetry; exact NC|]. unfold t'. apply in_clades_node. left.
             exists r'. split; [apply in_or_app; right; left; reflexivity | apply cmask_in_clades].
        * exists y. split; [reflexivity|]. unfold t'. apply in_clades_node. left. exists r'. split; [apply in_or_app; right; left; reflexivity|].
          apply Er. left. exists k. split; [apply in_or_app; right; exact Hk | exact Hy].
      + exists S. split; [reflexivity|]. unfold t'. apply in_clades_node. right. fold t'. symmetry. exact CMt.
    - intros (y & <- & Hy). unfold t' in Hy. apply in_clades_node in Hy. fold t' in Hy. rewrite CMt in Hy. fold S in Hy.
      destruct Hy as [(k & Hk & Hy) | ->].
      + apply in_app_or in Hk. destruct Hk as [Hk | [<- | []]].
        * exists y. split; [reflexivity|]. unfold t. apply in_clades_node. left. exists c. split; [apply in_or_app; right; left; reflexivity|].
          apply Ec. left. exists k. split; assumption.
        * apply Er in Hy. destruct Hy as [(k & Hk & Hy) | ->].
          -- exists y. split; [reflexivity|]. unfold t. apply in_clades_node. left. exists k. split; [| exact Hy].
             apply in_app_or in Hk. apply in_or_app. destruct Hk as [Hk | Hk]; [left; exact Hk | right; right; exact Hk].
          -- exists (cmask acc c). split; [exact NC|]. unfold t. apply in_clades_node. left.
             exists c. split; [apply in_or_app; right; left; reflexivity | apply cmask_in_clades].
      + exists S. split; [reflexivity|]. unfold t. apply in_clades_node. right. reflexivity.
  Qed.
End Unrooted.

(* ------------------------------------------------------------------------------------------ *)
(* same unrooted topology: rooted moves + moving the seed along an edge                        *)

Inductive uequiv : tree -> tree -> Prop :=
| ue_t a b : tequiv a b -> uequiv a b
| ue_sym a b : uequiv a b -> uequiv b a
| ue_trans a b c : uequiv a b -> uequiv b c -> uequiv a c
| ue_rot i x l e pre ic xc lc ec kc post i2 x2 l2 e2 i3 x3 l3 e3 :
    kc <> [] -> pre ++ post <> [] ->
    uequiv (T i x l e (pre ++ T ic xc lc ec kc :: post))
           (T i2 x2 l2 e2 (kc ++ [T i3 x3 l3 e3 (pre ++ post)])).

Lemma rotate_leaf_taxa i x l e pre ic xc lc ec kc post i2 x2 l2 e2 i3 x3 l3 e3 :
  kc <> [] -> pre ++ post <> [] ->
  Permutation (leaf_taxa (T i x l e (pre ++ T ic xc lc ec kc :: post)))
              (leaf_taxa (T i2 x2 l2 e2 (kc ++ [T i3 x3 l3 e3 (pre ++ post)]))).
Proof.
  intros Hkc Hpp.
  set (c := T ic xc lc ec kc) in *. set (r' := T i3 x3 l3 e3 (pre ++ post)) in *.
  assert (LTc : leaf_taxa c = flat_map leaf_taxa kc) by (unfold c; destruct kc; [congruence | reflexivity]).
  assert (LTr : leaf_taxa r' = flat_map leaf_taxa (pre ++ post)).
  { unfold r'. destruct (pre ++ post); [congruence | reflexivity]. }
  assert (LTt : leaf_taxa (T i x l e (pre ++ c :: post)) = flat_map leaf_taxa pre ++ leaf_taxa c ++ flat_map leaf_taxa post).
  { destruct pre; cbn [app]; rewrite leaf_taxa_node; [reflexivity|].
    cbn [flat_map]. rewrite flat_map_app. cbn [flat_map]. rewrite <- app_assoc. reflexivity. }
  assert (LTt' : leaf_taxa (T i2 x2 l2 e2 (kc ++ [r'])) = leaf_taxa c ++ flat_map leaf_taxa pre ++ flat_map leaf_taxa post).
  { destruct kc as [|k0 kr]; [congruence|]. rewrite <- app_comm_cons, leaf_taxa_node.
    rewrite app_comm_cons, flat_map_app. cbn [flat_map]. rewrite app_nil_r, LTr, LTc, flat_map_app. reflexivity. }
  rewrite LTt, LTt'. rewrite app_assoc, app_assoc. apply Permutation_app_tail. apply Permutation_app_comm.
Qed.

Lemma uequiv_leaf_taxa a b : uequiv a b -> Permutation (leaf_taxa a) (leaf_taxa b).
Proof.
  intro H. induction H.
  - apply tequiv_leaf_taxa. assumption.
  - symmetry. assumption.
  - etransitivity; eassumption.
  - apply rotate_leaf_taxa; assumption.
Qed.

Lemma uequiv_uset acc a b :
  (forall x, 0 <= acc x) -> (forall x y, acc x = acc y -> x = y) ->
  uequiv a b -> leaves_ok a = true -> set_eq (uset acc a) (uset acc b).
Proof.
  intros Hnn Hinj H. induction H; intro L.
  - destruct (tequiv_clades acc a b H) as [E C]. apply uset_of_set_eq; assumption.
  - apply set_eq_sym. apply IHuequiv. apply (leaves_ok_perm b a); [apply uequiv_leaf_taxa, ue_sym; exact H | exact L].
  - apply (set_eq_trans _ (uset acc b)); [apply IHuequiv1; exact L|].
    apply IHuequiv2. apply (leaves_ok_perm a b); [apply uequiv_leaf_taxa; exact H | exact L].
  - apply (uset_rotate acc Hnn Hinj); assumption.
Qed.

Lemma tequiv_set_len e' t : tequiv t (set_len e' t).
Proof.
  destruct t as [i x l e ks]. cbn [set_len]. destruct ks as [|k r]; [apply te_leaf|].
  apply te_perm. reflexivity.
Qed.

(* collapse_basal_bifurcation is such a move *)
Lemma collapse_basal_uequiv t : uequiv t (fst (collapse_basal t)).
Proof.
  destruct t as [i x l e ks]. destruct ks as [|c0 [|c1 [|c2 r]]]; try (apply ue_t, te_refl).
  cbn [collapse_basal]. destruct (2 <=? nkids c1) eqn:E1.
  - cbn [fst]. destruct c1 as [i1 x1 l1 e1 k1]. unfold nkids in E1. cbn [t_kids t_len] in *.
    destruct k1 as [|a b]; [simpl in E1; lia|].
    set (c0' := set_len (add_len (t_len c0) e1) c0).
    apply (ue_trans _ (T i x l e ((a :: b) ++ [T 0 None None None ([c0] ++ [])]))).
    { apply (ue_rot i x l e [c0] i1 x1 l1 e1 (a :: b) [] i x l e 0 None None None); discriminate. }
    apply ue_t. apply (te_trans _ (T i x l e ((a :: b) ++ [c0']))).
    + apply te_cong. apply (te_trans _ c0); [apply te_unif | apply tequiv_set_len].
    + rewrite <- app_comm_cons. apply te_perm. rewrite app_comm_cons.
      apply Permutation_sym. apply Permutation_cons_append.
  - destruct (2 <=? nkids c0) eqn:E0; [| apply ue_t, te_refl].
    cbn [fst]. destruct c0 as [i0 x0 l0 e0 k0]. unfold nkids in E0. cbn [t_kids t_len] in *.
    destruct k0 as [|a b]; [simpl in E0; lia|].
    set (c1' := set_len (add_len (t_len c1) e0) c1).
    apply (ue_trans _ (T i x l e ((a :: b) ++ [T 0 None None None ([] ++ [c1])]))).
    { apply (ue_rot i x l e [] i0 x0 l0 e0 (a :: b) [c1] i x l e 0 None None None); discriminate. }
    apply ue_t. apply te_cong. apply (te_trans _ c1); [apply te_unif | apply tequiv_set_len].
Qed.

(* the unrooted encoding lists exactly the normalised splits of the input tree (as a set) *)
Lemma unrooted_splits_are_uset acc rooted t :
  (forall x, 0 <= acc x) -> (forall x y, acc x = acc y -> x = y) ->
  is_true rooted = false -> leaves_ok t = true ->
  set_eq (enc_splits (encode acc rooted t)) (uset acc t).
Proof.
  intros Hnn Hinj HR L.
  pose proof (leaves_ok_nonzero acc Hnn Hinj t L) as SN.
  pose proof (pre_collapse_unrooted rooted t HR) as HR1.
  assert (E : enc_splits (encode acc rooted t) = uset acc (suppress (fst (pre_collapse rooted t)))).
  { unfold enc_splits. rewrite encode_spec. cbv zeta. cbn [r_edges]. unfold spec_edges, uset, clades.
    rewrite !map_map. cbn [snd]. rewrite cmask_suppress.
    replace (cmask acc (fst (pre_collapse rooted t))) with (cmask acc t)
      by (unfold cmask; rewrite leaf_taxa_pre_collapse; reflexivity).
    apply map_ext. intro n. unfold compile_split. rewrite HR1.
    destruct (Z.eqb_spec (cmask acc t) 0) as [E0 | _]; [contradiction | reflexivity]. }
  rewrite E.
  apply (set_eq_trans _ (uset acc (fst (pre_collapse rooted t)))).
  - apply uset_of_set_eq; [apply cmask_suppress | apply clades_suppress].
  - apply set_eq_sym. apply (uequiv_uset acc _ _ Hnn Hinj); [| exact L].
    unfold pre_collapse. destruct (negb (is_true rooted) && (nkids t =? 2)); cbn [fst].
    + apply collapse_basal_uequiv.
    + apply ue_t, te_refl.
Qed.

(* invariance of the split set under child order, unifurcations and the position of the seed *)
Lemma usplits_invariant_l acc r1 r2 t1 t2 :
  (forall x, 0 <= acc x) -> (forall x y, acc x = acc y -> x = y) ->
  is_true r1 = false -> is_true r2 = false -> leaves_ok t1 = true -> uequiv t1 t2 ->
  set_eq (enc_splits (encode acc r1 t1)) (enc_splits (encode acc r2 t2)).
Proof.
  intros Hnn Hinj R1 R2 L U.
  assert (L2 : leaves_ok t2 = true) by (apply (leaves_ok_perm t1 t2); [apply uequiv_leaf_taxa; exact U | exact L]).
  apply (set_eq_trans _ (uset acc t1)); [apply unrooted_splits_are_uset; assumption|].
  apply (set_eq_trans _ (uset acc t2)); [apply uequiv_uset; assumption|].
  apply set_eq_sym. apply unrooted_splits_are_uset; assumption.
Qed.

Lemma rooted_splits_invariant_l acc r1 r2 t1 t2 :
  is_true r1 = true -> is_true r2 = true -> tequiv t1 t2 ->
  set_eq (enc_splits (encode acc r1 t1)) (enc_splits (encode acc r2 t2)).
Proof.
  intros R1 R2 E.
  apply (set_eq_trans _ (clades acc t1)); [apply rooted_splits_are_clades; assumption|].
  apply (set_eq_trans _ (clades acc t2)); [apply (tequiv_clades acc t1 t2 E)|].
  apply set_eq_sym. apply rooted_splits_are_clades; assumption.
Qed.
