(* C12, fifth wave: the recorded correspondence, extended by the rebuilt annotation-set containers and the
   shared objects, is a graph isomorphism between what the source root reaches and what the copy reaches
   (Props/C12.v: deepcopy_isomorphism).  Everything here is derived from the final-state facts of the
   earlier passes (bisimulation, annotation sets, single-valuedness, Inv2.j_priv, Inv3.own_cont). *)
From Coq Require Import ZArith List Bool Lia.
From DV Require Import Model.PyPrims Model.C12Model Model.C12Spec2 Model.C12Spec3 Proofs.C12Heap Proofs.C12Inv Proofs.C12Copy
  Proofs.C12Wf Proofs.C12Proofs Proofs.C12Iso Proofs.C12Wf2 Proofs.C12IsoTop Proofs.C12Own Proofs.C12AnnDef Proofs.C12Own2
  Proofs.C12Fun Proofs.C12Wf3 Proofs.C12AnnTop Proofs.C12FunTop Proofs.C12Image.
Import ListNotations.
Open Scope Z_scope.

(* ---- small list facts ---------------------------------------------------------------------------------- *)

Lemma allrefs_map : forall vs, (forall v, In v vs -> exists o, v = R o) -> vs = map R (refs_of vs).
Proof.
  induction vs as [|v r IH]; intro H; [reflexivity|].
  destruct (H v (or_introl eq_refl)) as [o E]. subst v. unfold refs_of. simpl. f_equal.
  apply IH. intros w I. apply H. right. exact I.
Qed.

Lemma ibody_nth : forall done i n p, nth_error done n = Some p ->
  nth_error (ibody i done) n = Some (pidx (i + Z.of_nat n), R (snd p)).
Proof.
  induction done as [|q r IH]; intros i n p N; [destruct n; discriminate|].
  destruct n as [|n]; simpl in *.
  - inversion N; subst. rewrite Z.add_0_r. reflexivity.
  - rewrite (IH (i + 1) n p N). do 3 f_equal. lia.
Qed.

Lemma body_eqb_eq : forall b1 b2, body_eqb b1 b2 = true -> b1 = b2.
Proof.
  induction b1 as [|[k1 v1] r1 IH]; intros [|[k2 v2] r2] H; simpl in H; try discriminate; [reflexivity|].
  apply andb_true_iff in H. destruct H as [H H3]. apply andb_true_iff in H. destruct H as [H1 H2].
  apply val_eqb_eq in H1. apply val_eqb_eq in H2. subst. f_equal. apply IH. exact H3.
Qed.

Lemma ann_items_ne : forall h ox, ann_items h ox <> [] -> exists sx, bget (obody ox) NM_ANN = Some (R sx).
Proof.
  intros h ox H. unfold ann_items in H. destruct (bget (obody ox) NM_ANN) as [[p|sx]|]; try congruence. eauto.
Qed.

(* ---- wf_heap4, as propositions -------------------------------------------------------------------------- *)

Definition Exact (h : heap) : Prop :=
  forall x ob, hget h x = Some ob -> is_annk (okind ob) = true ->
    match bget (obody ob) NM_ANN with
    | None => True
    | Some (P _) => False
    | Some (R sx) =>
      exists sxo lx zx l z, hget h sx = Some sxo
        /\ bget (obody sxo) NM_ILIST = Some (R lx) /\ bget (obody sxo) NM_ISET = Some (R zx)
        /\ bget (obody sxo) NM_TARGET = Some (R x) /\ ocls sxo = CLS_ANNSET /\ okind sxo = KAnnSet
        /\ hget h lx = Some l /\ hget h zx = Some z /\ ocls l = CLS_LIST /\ okind l = KList
        /\ (forall v, In v (values (obody l)) -> exists o, v = R o)
        /\ ocls z = CLS_SET /\ okind z = KSet /\ obody z = map (fun e => (snd e, PNone)) (obody l)
    end.

Lemma wf4_exact : forall h, wf_heap4 h = true -> Exact h.
Proof.
  intros h W x ob G AK. unfold wf_heap4 in W. apply andb_true_iff in W. destruct W as [W _].
  destruct (hget_nth _ _ _ G) as [N P0].
  assert (F := forallbi_spec _ _ _ _ W _ _ N). simpl in F. rewrite Z2Nat.id in F by lia. rewrite AK in F. simpl in F.
  unfold owned_exact in F.
  destruct (bget (obody ob) NM_ANN) as [[p|sx]|]; [discriminate| |exact I].
  destruct (hget h sx) as [sxo|] eqn:GS; [|discriminate].
  destruct (bget (obody sxo) NM_ILIST) as [[?|lx]|] eqn:BL; try discriminate.
  destruct (bget (obody sxo) NM_ISET) as [[?|zx]|] eqn:BZ; try discriminate.
  destruct (bget (obody sxo) NM_TARGET) as [[?|t]|] eqn:BT; try discriminate.
  destruct (hget h lx) as [l|] eqn:GL; [|rewrite andb_false_r in F; discriminate].
  destruct (hget h zx) as [z|] eqn:GZ; [|rewrite andb_false_r in F; discriminate].
  repeat match goal with
  | H : (_ && _) = true |- _ => apply andb_true_iff in H; destruct H
  end.
  repeat match goal with
  | H : Z.eqb _ _ = true |- _ => apply Z.eqb_eq in H
  | H : kind_eqb _ _ = true |- _ => apply kind_eqb_eq in H
  | H : body_eqb _ _ = true |- _ => apply body_eqb_eq in H
  end.
  subst t. match goal with H : forallb _ _ = true |- _ => rename H into F3 end.
  exists sxo, lx, zx, l, z. repeat split; auto.
  intros v Iv. apply In_values in Iv. destruct Iv as [k Iv]. rewrite forallb_forall in F3. specialize (F3 _ Iv). simpl in F3.
  destruct v as [p|o]; [discriminate | eauto].
Qed.

Lemma wf4_nodup : forall h, wf_heap4 h = true -> NoDup (owned_conts h).
Proof. intros h W. unfold wf_heap4 in W. apply andb_true_iff in W. apply nodup_z_spec. exact (proj2 W). Qed.

Section IsoFull.
Variable h : heap.
Variable s' : st.
Variable root y : Z.
Notation n0 := (hlen h).
Notation c := (sc s').
Notation h' := (sh s').
Notation rho := (iso_rel h s' root y).

Hypothesis OLD : forall o, o < n0 -> hget h' o = hget h o.
Hypothesis CLOSED : forall o ob k v, hget h o = Some ob -> In (k, v) (obody ob) -> vsrc h k /\ vsrc h v.
Hypothesis ROOT : 0 <= root < n0.
Hypothesis ROOTREL : vrel n0 c (R root) (R y).
Hypothesis PAIR : forall a b, In (a, b) c ->
  0 <= a < n0 /\ n0 <= b < hlen h' /\
  exists oa ob, hget h a = Some oa /\ hget h' b = Some ob /\ ocls oa = ocls ob /\ okind oa = okind ob
    /\ (forall k' v', In (k', v') (obody ob) ->
          rebuilt (okind oa) k' \/ exists k v, In (k, v) (obody oa) /\ vrel n0 c k k' /\ vrel n0 c v v')
    /\ (forall k v, In (k, v) (obody oa) ->
          not_carried (okind oa) k \/ exists k' v', In (k', v') (obody ob) /\ vrel n0 c k k' /\ vrel n0 c v v').
Hypothesis ANN : forall a b oa, In (a, b) c -> hget h a = Some oa -> is_annk (okind oa) = true ->
  exists done, AnnState s' b done /\ map fst done = refs_of (ann_items h oa) /\ (forall p, In p done -> In p c).
Hypothesis FRESHND : forall o ob, n0 <= o -> hget h' o = Some ob -> NoDup (map fst (obody ob)).
Hypothesis NOSRC : forall a b, In (a, b) c -> ~ owned h a.
Hypothesis SRCND : forall o ob, hget h o = Some ob -> NoDup (map fst (obody ob)).
Hypothesis SETSOWNED : forall o ob, hget h o = Some ob -> okind ob = KAnnSet -> owned h o.
Hypothesis SHAPE : forall x ob sx sxo, hget h x = Some ob -> is_annk (okind ob) = true ->
  bget (obody ob) NM_ANN = Some (R sx) -> hget h sx = Some sxo ->
  (forall k v, In (k, v) (obody sxo) ->
     (exists p, k = P p) /\ (k = NM_ILIST \/ k = NM_ISET \/ (k = NM_TARGET /\ ((exists p, v = P p) \/ v = R x)))).
Hypothesis LISTKEYS : forall o ob n e, hget h o = Some ob -> (okind ob = KList \/ okind ob = KTuple) ->
  nth_error (obody ob) n = Some e -> fst e = pidx (Z.of_nat n).
Hypothesis INJ : forall a a' b, In (a, b) c -> In (a', b) c -> a = a'.
Hypothesis FUN : forall a b b', In (a, b) c -> In (a, b') c -> b = b' \/ kind_at h a = Some KTuple.
Hypothesis PRIV : forall yy ob, n0 <= yy -> hget h' yy = Some ob ->
  (is_annk (okind ob) = true -> forall sy, bget (obody ob) NM_ANN = Some (R sy) -> ~ in_range c sy)
  /\ (okind ob = KAnnSet -> forall k l, (k = NM_ILIST \/ k = NM_ISET) ->
      bget (obody ob) k = Some (R l) -> ~ in_range c l).
Hypothesis OWNC : forall s1 s2 ob1 ob2 k1 k2 l, n0 <= s1 -> n0 <= s2 ->
  hget h' s1 = Some ob1 -> hget h' s2 = Some ob2 ->
  okind ob1 = KAnnSet -> okind ob2 = KAnnSet -> is_cont_key k1 -> is_cont_key k2 ->
  bget (obody ob1) k1 = Some (R l) -> bget (obody ob2) k2 = Some (R l) -> s1 = s2.
Hypothesis EXACT : Exact h.
Hypothesis CONTND : NoDup (owned_conts h).

(* ---- the container correspondence, spelled out ---------------------------------------------------------- *)

Inductive CP (a b : Z) : Prop :=
| CP_intro : forall x yy ox oy sx sxo lx zx l z done sy ly zy,
    In (x, yy) c -> hget h x = Some ox -> is_annk (okind ox) = true -> bget (obody ox) NM_ANN = Some (R sx) ->
    hget h sx = Some sxo -> bget (obody sxo) NM_ILIST = Some (R lx) -> bget (obody sxo) NM_ISET = Some (R zx) ->
    bget (obody sxo) NM_TARGET = Some (R x) -> okind sxo = KAnnSet -> ocls sxo = CLS_ANNSET ->
    hget h lx = Some l -> hget h zx = Some z -> ocls l = CLS_LIST -> okind l = KList ->
    ocls z = CLS_SET -> okind z = KSet ->
    values (obody l) = map R (map fst done) ->
    obody z = map (fun e => (snd e, PNone)) (obody l) ->
    done <> [] -> (forall p, In p done -> In p c) ->
    hget h' yy = Some oy -> bget (obody oy) NM_ANN = Some (R sy) ->
    hget h' sy = Some (mkObj CLS_ANNSET KAnnSet [(NM_ILIST, R ly); (NM_ISET, R zy); (NM_TARGET, R yy)]) ->
    hget h' ly = Some (mkObj CLS_LIST KList (ibody 0 done)) ->
    hget h' zy = Some (mkObj CLS_SET KSet (zbody done)) ->
    ((a = sx /\ b = sy) \/ (a = lx /\ b = ly) \/ (a = zx /\ b = zy)) -> CP a b.

(* every recorded annotable pair whose copy has an annotation set yields the three container pairs *)
Lemma cp_build : forall x yy ox oy sy, In (x, yy) c -> hget h x = Some ox -> is_annk (okind ox) = true ->
  hget h' yy = Some oy -> bget (obody oy) NM_ANN = Some (R sy) ->
  exists sx sxo lx zx syo ly zy, bget (obody ox) NM_ANN = Some (R sx) /\ hget h sx = Some sxo
    /\ bget (obody sxo) NM_ILIST = Some (R lx) /\ bget (obody sxo) NM_ISET = Some (R zx)
    /\ hget h' sy = Some syo /\ bget (obody syo) NM_ILIST = Some (R ly) /\ bget (obody syo) NM_ISET = Some (R zy)
    /\ CP sx sy /\ CP lx ly /\ CP zx zy.
Proof.
  intros x yy ox oy sy I G AK GY B.
  destruct (ANN x yy ox I G AK) as [done [AS [E D]]].
  unfold AnnState, body_of in AS. rewrite GY in AS. destruct done as [|p0 r]; [congruence|].
  destruct AS as [sy0 [ly [zy [B0 [GS [GL GZ]]]]]]. assert (sy0 = sy) by congruence. subst sy0.
  assert (NE : ann_items h ox <> []).
  { intro C. rewrite C in E. discriminate E. }
  destruct (ann_items_ne h ox NE) as [sx BA].
  assert (EX := EXACT x ox G AK). rewrite BA in EX.
  destruct EX as [sxo [lx [zx [l [z [GSX [BL [BZ [BT [CS [KS [GLX [GZX [CL [KL [AR [CZ [KZ EZ]]]]]]]]]]]]]]]]]].
  assert (AI : ann_items h ox = values (obody l)).
  { unfold ann_items. rewrite BA, GSX, BL, GLX. reflexivity. }
  assert (VM : values (obody l) = map R (map fst (p0 :: r))).
  { rewrite E, AI. apply allrefs_map. exact AR. }
  assert (MK : forall a b, ((a = sx /\ b = sy) \/ (a = lx /\ b = ly) \/ (a = zx /\ b = zy)) -> CP a b).
  { intros a b W. eapply (CP_intro a b x yy ox oy sx sxo lx zx l z (p0 :: r) sy ly zy); eauto. discriminate. }
  exists sx, sxo, lx, zx. eexists. exists ly, zy.
  split; [exact BA|]. split; [exact GSX|]. split; [exact BL|]. split; [exact BZ|]. split; [exact GS|].
  split; [reflexivity|]. split; [reflexivity|].
  split; [apply MK; auto|]. split; apply MK; auto.
Qed.

Lemma cp_of : forall a b, cont_pair h s' a b -> CP a b.
Proof.
  intros a b [x [yy [ox [oy [sx [sy [sxo [syo [I [G [AK [GY [BA [BY [GSX [GSY W]]]]]]]]]]]]]]]].
  destruct (cp_build x yy ox oy sy I G AK GY BY) as [sx1 [sxo1 [lx [zx [syo1 [ly [zy [BA1 [GS1 [BL [BZ [GS2 [BL2 [BZ2 [C1 [C2 C3]]]]]]]]]]]]]]]].
  assert (sx1 = sx) by congruence. subst sx1. assert (sxo1 = sxo) by congruence. subst sxo1.
  assert (syo1 = syo) by congruence. subst syo1.
  destruct W as [[Ea Eb]|[[Ba Bb]|[Ba Bb]]].
  - subst. exact C1.
  - assert (a = lx) by congruence. assert (b = ly) by congruence. subst. exact C2.
  - assert (a = zx) by congruence. assert (b = zy) by congruence. subst. exact C3.
Qed.

Lemma cp_to : forall a b, CP a b -> cont_pair h s' a b.
Proof.
  intros a b [x yy ox oy sx sxo lx zx l z done sy ly zy I G AK BA GSX BL BZ BT KS CS GLX GZX CL KL CZ KZ VM EZ NE D GY BY GSY GLY GZY W].
  exists x, yy, ox, oy, sx, sy, sxo. eexists. split; [exact I|]. split; [exact G|]. split; [exact AK|]. split; [exact GY|].
  split; [exact BA|]. split; [exact BY|]. split; [exact GSX|]. split; [exact GSY|].
  destruct W as [[Ea Eb]|[[Ea Eb]|[Ea Eb]]]; subst.
  - left. auto.
  - right. left. split; [exact BL | reflexivity].
  - right. right. split; [exact BZ | reflexivity].
Qed.

Lemma pair_fresh : forall a b, In (a, b) c -> n0 <= b.
Proof. intros a b I. destruct (PAIR a b I) as [_ [Hb _]]. lia. Qed.

(* an object of the copy's heap with a reference to a fresh object is fresh *)
Lemma refers_fresh : forall o ob k v t, hget h' o = Some ob -> In (k, v) (obody ob) -> (k = R t \/ v = R t) -> n0 <= t -> n0 <= o.
Proof.
  intros o ob k v t G I KV Ht. destruct (Z_lt_le_dec o n0) as [Lt|Ge]; [|exact Ge].
  rewrite (OLD o Lt) in G. destruct (CLOSED o ob k v G I) as [Vk Vv]. destruct KV; subst; simpl in *; lia.
Qed.

Lemma cp_fresh : forall a b, CP a b -> n0 <= b.
Proof.
  intros a b [x yy ox oy sx sxo lx zx l z done sy ly zy I G AK BA GSX BL BZ BT KS CS GLX GZX CL KL CZ KZ VM EZ NE D GY BY GSY GLY GZY W].
  assert (Hyy := pair_fresh x yy I).
  destruct done as [|p r]; [congruence|]. assert (Hp : n0 <= snd p).
  { apply (pair_fresh (fst p)). rewrite <- surjective_pairing. apply D. left. reflexivity. }
  destruct W as [[Ea Eb]|[[Ea Eb]|[Ea Eb]]]; subst.
  - eapply (refers_fresh sy _ NM_TARGET (R yy) yy GSY); [simpl; auto | auto | exact Hyy].
  - eapply (refers_fresh ly _ (pidx 0) (R (snd p)) (snd p) GLY); [simpl; auto | auto | exact Hp].
  - eapply (refers_fresh zy _ (R (snd p)) PNone (snd p) GZY); [simpl; auto | auto | exact Hp].
Qed.

Lemma cp_norange : forall a b, CP a b -> ~ in_range c b.
Proof.
  intros a b CPab. assert (Fb := cp_fresh a b CPab). revert Fb.
  destruct CPab as [x yy ox oy sx sxo lx zx l z done sy ly zy I G AK BA GSX BL BZ BT KS CS GLX GZX CL KL CZ KZ VM EZ NE D GY BY GSY GLY GZY W].
  intro Fb.
  assert (Hyy := pair_fresh x yy I).
  assert (Hsy : n0 <= sy) by (eapply (refers_fresh sy _ NM_TARGET (R yy) yy GSY); [simpl; auto | auto | exact Hyy]).
  destruct (PAIR x yy I) as [_ [_ [oa [ob [Ga [Gb [_ [KD _]]]]]]]].
  assert (oa = ox) by congruence. subst oa. assert (ob = oy) by congruence. subst ob.
  destruct W as [[Ea Eb]|[[Ea Eb]|[Ea Eb]]]; subst.
  - destruct (PRIV yy oy Hyy GY) as [P1 _]. apply P1; [rewrite <- KD; exact AK | exact BY].
  - destruct (PRIV sy _ Hsy GSY) as [_ P2]. apply (P2 eq_refl NM_ILIST); [left; reflexivity | reflexivity].
  - destruct (PRIV sy _ Hsy GSY) as [_ P2]. apply (P2 eq_refl NM_ISET); [right; reflexivity | reflexivity].
Qed.

Lemma cp_in_conts : forall a b, CP a b -> In a (owned_conts h).
Proof.
  intros a b [x yy ox oy sx sxo lx zx l z done sy ly zy I G AK BA GSX BL BZ BT KS CS GLX GZX CL KL CZ KZ VM EZ NE D GY BY GSY GLY GZY W].
  unfold owned_conts. apply in_flat_map. exists ox. split; [eapply hget_In; exact G|].
  rewrite AK, BA, GSX, BL, BZ. simpl. destruct W as [[Ea _]|[[Ea _]|[Ea _]]]; subst; auto.
Qed.

(* ---- values ------------------------------------------------------------------------------------------------ *)

Lemma vrel_viso : forall v v', vrel n0 c v v' ->
  (forall a2, v = R a2 -> reach h root a2) -> (forall b2, v' = R b2 -> reach h' y b2) -> viso rho v v'.
Proof.
  intros [p|a] [q|b] V RA RB; simpl in *; try assumption.
  split; [apply RA; reflexivity|]. split; [apply RB; reflexivity|].
  destruct V as [V|V]; [left; exact V | right; left; exact V].
Qed.

Lemma viso_same : forall v, vsrc h v -> (forall a2, v = R a2 -> reach h root a2 /\ reach h' y a2) -> viso rho v v.
Proof.
  intros [p|a] V RA; simpl in *; [reflexivity|].
  destruct (RA a eq_refl) as [R1 R2]. split; [exact R1|]. split; [exact R2|]. right. left. split; [reflexivity | exact V].
Qed.

Lemma step_val : forall hh r a ob k v t, reach hh r a -> hget hh a = Some ob -> In (k, v) (obody ob) ->
  (k = R t \/ v = R t) -> reach hh r t.
Proof. intros hh r a ob k v t RE G I KV. eapply reach_step; [exact RE|]. exists ob, k, v. auto. Qed.

(* ---- edges commute, copy -> source ------------------------------------------------------------------------- *)

Theorem edges_back : forall a b ob k' v', rho a b -> hget h' b = Some ob -> In (k', v') (obody ob) ->
  exists oa k v, hget h a = Some oa /\ In (k, v) (obody oa) /\ viso rho k k' /\ viso rho v v'.
Proof.
  intros a b ob k' v' [RA [RB W]] Gb I. destruct W as [Iab|[[E Ha]|CC]].
  - (* recorded pair *)
    destruct (PAIR a b Iab) as [Ha [Hb [oa [ob0 [Ga [Gb0 [_ [KD [SND _]]]]]]]]].
    assert (ob0 = ob) by congruence. subst ob0.
    destruct (SND k' v' I) as [[[AK EK]|[KS _]]|[k [v [I0 [VK VV]]]]].
    + subst k'.
      assert (B : bget (obody ob) NM_ANN = Some v') by (apply nodup_In_bget; [apply (FRESHND b ob (proj1 Hb) Gb) | exact I]).
      destruct (ANN a b oa Iab Ga AK) as [done [AS _]]. unfold AnnState, body_of in AS. rewrite Gb in AS.
      destruct done as [|p0 r]; [congruence|]. destruct AS as [sy [ly [zy [B0 _]]]].
      assert (v' = R sy) by congruence. subst v'.
      destruct (cp_build a b oa ob sy Iab Ga AK Gb B0) as [sx [sxo [lx [zx [syo [ly1 [zy1 [BA [GS [_ [_ [_ [_ [_ [C1 _]]]]]]]]]]]]]]].
      exists oa, NM_ANN, (R sx). split; [exact Ga|]. split; [apply bget_In; exact BA|]. split; [reflexivity|].
      simpl. split; [eapply step_val; [exact RA | exact Ga | apply bget_In; exact BA | right; reflexivity]|].
      split; [eapply step_val; [exact RB | exact Gb | exact I | right; reflexivity]|].
      right. right. apply cp_to. exact C1.
    + exfalso. apply (NOSRC a b Iab). apply (SETSOWNED a oa Ga KS).
    + exists oa, k, v. split; [exact Ga|]. split; [exact I0|]. split.
      * apply vrel_viso; [exact VK | |].
        -- intros a2 E. eapply step_val; [exact RA | exact Ga | exact I0 | left; exact E].
        -- intros b2 E. eapply step_val; [exact RB | exact Gb | exact I | left; exact E].
      * apply vrel_viso; [exact VV | |].
        -- intros a2 E. eapply step_val; [exact RA | exact Ga | exact I0 | right; exact E].
        -- intros b2 E. eapply step_val; [exact RB | exact Gb | exact I | right; exact E].
  - (* shared object *)
    subst b. assert (Ga : hget h a = Some ob) by (rewrite <- (OLD a (proj2 Ha)); exact Gb).
    destruct (CLOSED a ob k' v' Ga I) as [Vk Vv].
    exists ob, k', v'. split; [exact Ga|]. split; [exact I|]. split.
    + apply viso_same; [exact Vk|]. intros a2 E. split; [eapply step_val; [exact RA | exact Ga | exact I | left; exact E]
                                                       | eapply step_val; [exact RB | exact Gb | exact I | left; exact E]].
    + apply viso_same; [exact Vv|]. intros a2 E. split; [eapply step_val; [exact RA | exact Ga | exact I | right; exact E]
                                                       | eapply step_val; [exact RB | exact Gb | exact I | right; exact E]].
  - (* rebuilt container *)
    assert (CPab := cp_of a b CC).
    destruct CPab as [x yy ox oy sx sxo lx zx l z done sy ly zy Ixy G AK BA GSX BL BZ BT KS CS GLX GZX CL KL CZ KZ VM EZ NE D GY BY GSY GLY GZY W].
    assert (MK : forall a1 b1, ((a1 = sx /\ b1 = sy) \/ (a1 = lx /\ b1 = ly) \/ (a1 = zx /\ b1 = zy)) -> CP a1 b1).
    { intros a1 b1 W1. eapply (CP_intro a1 b1 x yy ox oy sx sxo lx zx l z done sy ly zy); eauto. }
    destruct W as [[Ea Eb]|[[Ea Eb]|[Ea Eb]]]; subst a b.
    + assert (ob = mkObj CLS_ANNSET KAnnSet [(NM_ILIST, R ly); (NM_ISET, R zy); (NM_TARGET, R yy)]) by congruence. subst ob.
      simpl in I. destruct I as [I|[I|[I|[]]]]; inversion I; subst k' v'.
      * exists sxo, NM_ILIST, (R lx). split; [exact GSX|]. split; [apply bget_In; exact BL|]. split; [reflexivity|].
        simpl. split; [eapply step_val; [exact RA | exact GSX | apply bget_In; exact BL | right; reflexivity]|].
        split; [apply (step_val h' y sy _ NM_ILIST (R ly) ly RB GSY); [simpl; auto | right; reflexivity]|].
        right. right. apply cp_to. apply MK. auto.
      * exists sxo, NM_ISET, (R zx). split; [exact GSX|]. split; [apply bget_In; exact BZ|]. split; [reflexivity|].
        simpl. split; [eapply step_val; [exact RA | exact GSX | apply bget_In; exact BZ | right; reflexivity]|].
        split; [apply (step_val h' y sy _ NM_ISET (R zy) zy RB GSY); [simpl; auto | right; reflexivity]|].
        right. right. apply cp_to. apply MK. auto.
      * exists sxo, NM_TARGET, (R x). split; [exact GSX|]. split; [apply bget_In; exact BT|]. split; [reflexivity|].
        simpl. split; [eapply step_val; [exact RA | exact GSX | apply bget_In; exact BT | right; reflexivity]|].
        split; [apply (step_val h' y sy _ NM_TARGET (R yy) yy RB GSY); [simpl; auto | right; reflexivity]|].
        left. exact Ixy.
    + assert (ob = mkObj CLS_LIST KList (ibody 0 done)) by congruence. subst ob. simpl in I.
      destruct (In_nth_error _ _ I) as [n N].
      destruct (nth_error done n) as [p|] eqn:ND.
      2:{ apply nth_error_None in ND. assert (LT : (n < length (ibody 0 done))%nat) by (apply nth_error_Some; congruence).
          rewrite ibody_length in LT. lia. }
      rewrite (ibody_nth done 0 n p ND) in N. inversion N; subst k' v'.
      assert (NV : nth_error (values (obody l)) n = Some (R (fst p))).
      { rewrite VM. rewrite map_map. erewrite map_nth_error; [reflexivity | exact ND]. }
      unfold values in NV. destruct (nth_error (obody l) n) as [e|] eqn:NL.
      2:{ rewrite (proj2 (nth_error_None _ _)) in NV; [discriminate|]. rewrite map_length. apply nth_error_None. exact NL. }
      rewrite (map_nth_error snd n _ NL) in NV. destruct e as [ke ve]. simpl in NV. inversion NV as [SE]. subst ve.
      assert (FE := LISTKEYS lx l n (ke, R (fst p)) GLX (or_introl KL) NL). simpl in FE. subst ke.
      assert (IL : In (pidx (Z.of_nat n), R (fst p)) (obody l)) by (eapply nth_error_In; exact NL).
      assert (IB : In (pidx (0 + Z.of_nat n), R (snd p)) (ibody 0 done)) by (eapply nth_error_In; apply ibody_nth; exact ND).
      assert (Ip : In p done) by (eapply nth_error_In; exact ND).
      exists l, (pidx (Z.of_nat n)), (R (fst p)). split; [exact GLX|]. split; [exact IL|].
      split; [unfold viso, pidx; lia|]. simpl.
      split; [apply (step_val h root lx l _ _ (fst p) RA GLX IL); right; reflexivity|].
      split; [apply (step_val h' y ly _ _ _ (snd p) RB GLY IB); right; reflexivity|].
      left. rewrite <- surjective_pairing. apply D. exact Ip.
    + assert (ob = mkObj CLS_SET KSet (zbody done)) by congruence. subst ob. simpl in I.
      destruct (zbody_In_inv _ _ _ I) as [p [Ip [E1 E2]]]. subst k' v'.
      assert (IV : In (R (fst p)) (values (obody l))) by (rewrite VM; apply in_map; apply in_map; exact Ip).
      apply In_values in IV. destruct IV as [k0 IV].
      assert (IZ : In (R (fst p), PNone) (obody z)).
      { rewrite EZ. apply in_map_iff. exists (k0, R (fst p)). split; [reflexivity | exact IV]. }
      exists z, (R (fst p)), PNone. split; [exact GZX|]. split; [exact IZ|]. split; [|reflexivity]. simpl.
      split; [eapply step_val; [exact RA | exact GZX | exact IZ | left; reflexivity]|].
      split; [eapply step_val; [exact RB | exact GZY | exact I | left; reflexivity]|].
      left. rewrite <- surjective_pairing. apply D. exact Ip.
Qed.

(* ---- edges commute, source -> copy ------------------------------------------------------------------------- *)

Theorem edges_fwd : forall a b oa k v, rho a b -> hget h a = Some oa -> In (k, v) (obody oa) ->
  (exists ob k' v', hget h' b = Some ob /\ In (k', v') (obody ob) /\ viso rho k k' /\ viso rho v v')
  \/ (is_annk (okind oa) = true /\ k = NM_ANN /\ In (a, b) c /\ refs_of (ann_items h oa) = []
      /\ (exists sx, v = R sx) /\ (forall ob, hget h' b = Some ob -> bget (obody ob) NM_ANN = None)).
Proof.
  intros a b oa k v [RA [RB W]] Ga I. destruct W as [Iab|[[E Ha]|CC]].
  - destruct (PAIR a b Iab) as [Ha [Hb [oa0 [ob [Ga0 [Gb [_ [KD [_ PRS]]]]]]]]].
    assert (oa0 = oa) by congruence. subst oa0.
    destruct (PRS k v I) as [[[AK EK]|[KS _]]|[k' [v' [I' [VK VV]]]]].
    + subst k. assert (BA : bget (obody oa) NM_ANN = Some v) by (apply nodup_In_bget; [exact (SRCND a oa Ga) | exact I]).
      assert (EX := EXACT a oa Ga AK). rewrite BA in EX. destruct v as [p|sx]; [contradiction|].
      destruct (ANN a b oa Iab Ga AK) as [done [AS [EM _]]]. unfold AnnState, body_of in AS. rewrite Gb in AS.
      destruct done as [|p0 r].
      * right. split; [exact AK|]. split; [reflexivity|]. split; [exact Iab|]. split; [rewrite <- EM; reflexivity|].
        split; [eauto|]. intros ob1 G1. assert (ob1 = ob) by congruence. subst ob1. exact AS.
      * left. destruct AS as [sy [ly [zy [B0 _]]]].
        destruct (cp_build a b oa ob sy Iab Ga AK Gb B0) as [sx1 [sxo [lx [zx [syo [ly1 [zy1 [BA1 [GS [_ [_ [_ [_ [_ [C1 _]]]]]]]]]]]]]]].
        assert (sx1 = sx) by congruence. subst sx1.
        exists ob, NM_ANN, (R sy). split; [exact Gb|]. split; [apply bget_In; exact B0|]. split; [reflexivity|]. simpl.
        split; [eapply step_val; [exact RA | exact Ga | exact I | right; reflexivity]|].
        split; [eapply step_val; [exact RB | exact Gb | apply bget_In; exact B0 | right; reflexivity]|].
        right. right. apply cp_to. exact C1.
    + exfalso. apply (NOSRC a b Iab). apply (SETSOWNED a oa Ga KS).
    + left. exists ob, k', v'. split; [exact Gb|]. split; [exact I'|]. split.
      * apply vrel_viso; [exact VK | |].
        -- intros a2 E. eapply step_val; [exact RA | exact Ga | exact I | left; exact E].
        -- intros b2 E. eapply step_val; [exact RB | exact Gb | exact I' | left; exact E].
      * apply vrel_viso; [exact VV | |].
        -- intros a2 E. eapply step_val; [exact RA | exact Ga | exact I | right; exact E].
        -- intros b2 E. eapply step_val; [exact RB | exact Gb | exact I' | right; exact E].
  - subst b. left. assert (Gb : hget h' a = Some oa) by (rewrite (OLD a (proj2 Ha)); exact Ga).
    destruct (CLOSED a oa k v Ga I) as [Vk Vv].
    exists oa, k, v. split; [exact Gb|]. split; [exact I|]. split.
    + apply viso_same; [exact Vk|]. intros a2 E. split; [eapply step_val; [exact RA | exact Ga | exact I | left; exact E]
                                                       | eapply step_val; [exact RB | exact Gb | exact I | left; exact E]].
    + apply viso_same; [exact Vv|]. intros a2 E. split; [eapply step_val; [exact RA | exact Ga | exact I | right; exact E]
                                                       | eapply step_val; [exact RB | exact Gb | exact I | right; exact E]].
  - left. assert (CPab := cp_of a b CC).
    destruct CPab as [x yy ox oy sx sxo lx zx l z done sy ly zy Ixy G AK BA GSX BL BZ BT KS CS GLX GZX CL KL CZ KZ VM EZ NE D GY BY GSY GLY GZY W].
    assert (MK : forall a1 b1, ((a1 = sx /\ b1 = sy) \/ (a1 = lx /\ b1 = ly) \/ (a1 = zx /\ b1 = zy)) -> CP a1 b1).
    { intros a1 b1 W1. eapply (CP_intro a1 b1 x yy ox oy sx sxo lx zx l z done sy ly zy); eauto. }
    destruct W as [[Ea Eb]|[[Ea Eb]|[Ea Eb]]]; subst a b.
    + assert (oa = sxo) by congruence. subst oa.
      destruct (SHAPE x ox sx sxo G AK BA GSX k v I) as [_ KK].
      assert (B := nodup_In_bget _ _ _ (SRCND sx sxo GSX) I).
      eexists. destruct KK as [E|[E|[E _]]]; subst k.
      * assert (v = R lx) by congruence. subst v. exists NM_ILIST, (R ly). split; [exact GSY|]. split; [simpl; auto|].
        split; [reflexivity|]. simpl.
        split; [eapply step_val; [exact RA | exact GSX | exact I | right; reflexivity]|].
        split; [apply (step_val h' y sy _ NM_ILIST (R ly) ly RB GSY); [simpl; auto | right; reflexivity]|].
        right. right. apply cp_to. apply MK. auto.
      * assert (v = R zx) by congruence. subst v. exists NM_ISET, (R zy). split; [exact GSY|]. split; [simpl; auto|].
        split; [reflexivity|]. simpl.
        split; [eapply step_val; [exact RA | exact GSX | exact I | right; reflexivity]|].
        split; [apply (step_val h' y sy _ NM_ISET (R zy) zy RB GSY); [simpl; auto | right; reflexivity]|].
        right. right. apply cp_to. apply MK. auto.
      * assert (v = R x) by congruence. subst v. exists NM_TARGET, (R yy). split; [exact GSY|]. split; [simpl; auto|].
        split; [reflexivity|]. simpl.
        split; [eapply step_val; [exact RA | exact GSX | exact I | right; reflexivity]|].
        split; [apply (step_val h' y sy _ NM_TARGET (R yy) yy RB GSY); [simpl; auto | right; reflexivity]|].
        left. exact Ixy.
    + assert (oa = l) by congruence. subst oa.
      destruct (In_nth_error _ _ I) as [n N].
      assert (FE := LISTKEYS lx l n (k, v) GLX (or_introl KL) N). simpl in FE. subst k.
      assert (NV : nth_error (values (obody l)) n = Some v) by (unfold values; rewrite (map_nth_error snd n _ N); reflexivity).
      rewrite VM, map_map in NV.
      destruct (nth_error done n) as [p|] eqn:ND.
      2:{ rewrite (proj2 (nth_error_None _ _)) in NV; [discriminate|]. rewrite map_length. apply nth_error_None. exact ND. }
      rewrite (map_nth_error (fun x0 => R (fst x0)) n _ ND) in NV. inversion NV; subst v.
      assert (Ip : In p done) by (eapply nth_error_In; exact ND).
      assert (IB : In (pidx (0 + Z.of_nat n), R (snd p)) (ibody 0 done)) by (eapply nth_error_In; apply ibody_nth; exact ND).
      eexists. exists (pidx (0 + Z.of_nat n)), (R (snd p)). split; [exact GLY|]. split; [exact IB|].
      split; [simpl; f_equal; lia|]. simpl.
      split; [eapply step_val; [exact RA | exact GLX | exact I | right; reflexivity]|].
      split; [eapply step_val; [exact RB | exact GLY | exact IB | right; reflexivity]|].
      left. rewrite <- surjective_pairing. apply D. exact Ip.
    + assert (oa = z) by congruence. subst oa. rewrite EZ in I. apply in_map_iff in I. destruct I as [e [E1 Ie]].
      inversion E1; subst k v.
      assert (IV : In (snd e) (values (obody l))) by (unfold values; apply in_map; exact Ie).
      rewrite VM, map_map in IV. apply in_map_iff in IV. destruct IV as [p [E2 Ip]].
      assert (IZ : In (snd e, PNone) (obody z)) by (rewrite EZ; apply in_map_iff; exists e; auto).
      eexists. exists (R (snd p)), PNone. split; [exact GZY|]. split; [apply zbody_In; exact Ip|].
      split; [|reflexivity]. rewrite <- E2. simpl.
      split; [eapply step_val; [exact RA | exact GZX | exact IZ | left; rewrite <- E2; reflexivity]|].
      split; [eapply step_val; [exact RB | exact GZY | apply zbody_In; exact Ip | left; reflexivity]|].
      left. rewrite <- surjective_pairing. apply D. exact Ip.
Qed.

(* ---- root, onto, total --------------------------------------------------------------------------------------- *)

Theorem iso_root : rho root y.
Proof.
  split; [apply reach_refl|]. split; [apply reach_refl|]. simpl in ROOTREL.
  destruct ROOTREL as [I|[E Hr]]; [left; exact I | right; left; auto].
Qed.

Theorem iso_onto : forall b, reach h' y b -> exists a, rho a b.
Proof.
  intros b RE. induction RE as [|m b2 RE IH ED]; [exists root; exact iso_root|].
  destruct IH as [a RHO]. destruct ED as [ob [k' [v' [G [I KV]]]]].
  destruct (edges_back a m ob k' v' RHO G I) as [oa [k [v [Ga [I0 [VK VV]]]]]].
  destruct KV as [E|E]; subst.
  - destruct k as [p|a2]; simpl in VK; [contradiction | exists a2; exact VK].
  - destruct v as [p|a2]; simpl in VV; [contradiction | exists a2; exact VV].
Qed.

Theorem iso_total : forall a, reach h root a -> (exists b, rho a b) \/ empty_annset_part h a.
Proof.
  intros a RE.
  assert (STRONG : (exists b, rho a b) \/
     (exists x yy ox sx sxo, rho x yy /\ hget h x = Some ox /\ is_annk (okind ox) = true /\ bget (obody ox) NM_ANN = Some (R sx)
        /\ hget h sx = Some sxo /\ refs_of (ann_items h ox) = []
        /\ (a = sx \/ bget (obody sxo) NM_ILIST = Some (R a) \/ bget (obody sxo) NM_ISET = Some (R a)))).
  { induction RE as [|a a2 RE IH ED]; [left; exists y; exact iso_root|].
    destruct ED as [oa [k [v [Ga [I KV]]]]]. destruct IH as [[b RHO]|EMP].
    - destruct (edges_fwd a b oa k v RHO Ga I) as [[ob [k' [v' [Gb [I' [VK VV]]]]]]|[AK [EK [Iab [EM [[sx EV] _]]]]]].
      + left. destruct KV as [E|E]; subst.
        * destruct k' as [p|b2]; simpl in VK; [contradiction | exists b2; exact VK].
        * destruct v' as [p|b2]; simpl in VV; [contradiction | exists b2; exact VV].
      + subst k v. destruct KV as [E|E]; [discriminate E|]. inversion E; subst a2.
        assert (BA : bget (obody oa) NM_ANN = Some (R sx)) by (apply nodup_In_bget; [exact (SRCND a oa Ga) | exact I]).
        assert (EX := EXACT a oa Ga AK). rewrite BA in EX. destruct EX as [sxo [lx [zx [l [z [GSX _]]]]]].
        right. exists a, b, oa, sx, sxo. auto 10.
    - destruct EMP as [x [yy [ox [sx [sxo [RHO [G [AK [BA [GSX [EM WHO]]]]]]]]]]].
      assert (EX := EXACT x ox G AK). rewrite BA in EX.
      destruct EX as [sxo1 [lx [zx [l [z [GSX1 [BL [BZ [BT [CS [KS [GLX [GZX [CL [KL [AR [CZ [KZ EZ]]]]]]]]]]]]]]]]]].
      assert (sxo1 = sxo) by congruence. subst sxo1.
      assert (AI : ann_items h ox = values (obody l)) by (unfold ann_items; rewrite BA, GSX, BL, GLX; reflexivity).
      assert (LE : obody l = []).
      { assert (V0 : values (obody l) = []) by (rewrite (allrefs_map _ AR), <- AI, EM; reflexivity).
        unfold values in V0. destruct (obody l); [reflexivity | discriminate V0]. }
      destruct WHO as [E|[E|E]].
      + subst a. assert (oa = sxo) by congruence. subst oa.
        destruct (SHAPE x ox sx sxo G AK BA GSX k v I) as [[p EK] KK]. subst k.
        destruct KV as [C|C]; [discriminate C|]. subst v.
        assert (B := nodup_In_bget _ _ _ (SRCND sx sxo GSX) I).
        destruct KK as [E|[E|[E _]]]; rewrite E in B.
        * right. exists x, yy, ox, sx, sxo. auto 10.
        * right. exists x, yy, ox, sx, sxo. auto 10.
        * assert (a2 = x) by congruence. subst a2. left. exists yy. exact RHO.
      + assert (a = lx) by congruence. subst a. assert (oa = l) by congruence. subst oa. rewrite LE in I. contradiction.
      + assert (a = zx) by congruence. subst a. assert (oa = z) by congruence. subst oa. rewrite EZ, LE in I. contradiction. }
  destruct STRONG as [L|[x [yy [ox [sx [sxo [_ [G [AK [BA [GSX [EM WHO]]]]]]]]]]]]; [left; exact L|].
  right. exists x, ox, sx, sxo. auto 10.
Qed.

(* ---- labels ----------------------------------------------------------------------------------------------------- *)

Theorem iso_labels : forall a b, rho a b ->
  exists oa ob, hget h a = Some oa /\ hget h' b = Some ob /\ ocls oa = ocls ob /\ okind oa = okind ob.
Proof.
  intros a b [RA [RB W]]. destruct W as [Iab|[[E Ha]|CC]].
  - destruct (PAIR a b Iab) as [_ [_ [oa [ob [Ga [Gb [C1 [K1 _]]]]]]]]. exists oa, ob. auto.
  - subst b. destruct (hget_in_range h a Ha) as [oa Ga]. exists oa, oa. rewrite (OLD a (proj2 Ha)). auto.
  - destruct (cp_of a b CC) as [x yy ox oy sx sxo lx zx l z done sy ly zy Ixy G AK BA GSX BL BZ BT KS CS GLX GZX CL KL CZ KZ VM EZ NE D GY BY GSY GLY GZY W].
    destruct W as [[Ea Eb]|[[Ea Eb]|[Ea Eb]]]; subst a b.
    + exists sxo. eexists. split; [exact GSX|]. split; [exact GSY|]. simpl. auto.
    + exists l. eexists. split; [exact GLX|]. split; [exact GLY|]. simpl. auto.
    + exists z. eexists. split; [exact GZX|]. split; [exact GZY|]. simpl. auto.
Qed.

(* ---- injective ---------------------------------------------------------------------------------------------------- *)

Lemma cp_inj : forall a a' b, CP a b -> CP a' b -> a = a'.
Proof.
  intros a a' b C1 C2.
  destruct C1 as [x yy ox oy sx sxo lx zx l z done sy ly zy Ixy G AK BA GSX BL BZ BT KS CS GLX GZX CL KL CZ KZ VM EZ NE D GY BY GSY GLY GZY W].
  destruct C2 as [x' yy' ox' oy' sx' sxo' lx' zx' l' z' done' sy' ly' zy' Ixy' G' AK' BA' GSX' BL' BZ' BT' KS' CS' GLX' GZX' CL' KL' CZ' KZ' VM' EZ' NE' D' GY' BY' GSY' GLY' GZY' W'].
  assert (Hyy := pair_fresh x yy Ixy). assert (Hyy' := pair_fresh x' yy' Ixy').
  assert (Hsy : n0 <= sy) by (eapply (refers_fresh sy _ NM_TARGET (R yy) yy GSY); [simpl; auto | auto | exact Hyy]).
  assert (Hsy' : n0 <= sy') by (eapply (refers_fresh sy' _ NM_TARGET (R yy') yy' GSY'); [simpl; auto | auto | exact Hyy']).
  assert (SAME : sy = sy' -> sx = sx' /\ lx = lx' /\ zx = zx').
  { intro E. subst sy'. rewrite GSY in GSY'. inversion GSY'; subst yy' ly' zy'.
    assert (x = x') by (eapply INJ; eassumption). subst x'.
    assert (ox' = ox) by congruence. subst ox'. assert (sx' = sx) by congruence. subst sx'.
    assert (sxo' = sxo) by congruence. subst sxo'. split; [reflexivity|]. split; congruence. }
  assert (OC : forall k1 k2 t, is_cont_key k1 -> is_cont_key k2 ->
            bget [(NM_ILIST, R ly); (NM_ISET, R zy); (NM_TARGET, R yy)] k1 = Some (R t) ->
            bget [(NM_ILIST, R ly'); (NM_ISET, R zy'); (NM_TARGET, R yy')] k2 = Some (R t) -> sy = sy').
  { intros k1 k2 t K1 K2 B1 B2. eapply (OWNC sy sy' _ _ k1 k2 t Hsy Hsy' GSY GSY'); simpl; auto. }
  destruct W as [[Ea Eb]|[[Ea Eb]|[Ea Eb]]]; destruct W' as [[Ea' Eb']|[[Ea' Eb']|[Ea' Eb']]]; subst a a'; try subst b.
  - destruct (SAME Eb') as [E _]. exact E.
  - subst sy. rewrite GSY in GLY'. discriminate GLY'.
  - subst sy. rewrite GSY in GZY'. discriminate GZY'.
  - subst ly. rewrite GLY in GSY'. discriminate GSY'.
  - assert (E : sy = sy') by (apply (OC NM_ILIST NM_ILIST ly); [left; reflexivity | left; reflexivity | reflexivity | rewrite Eb'; reflexivity]).
    destruct (SAME E) as [_ [E2 _]]. exact E2.
  - subst ly. rewrite GLY in GZY'. discriminate GZY'.
  - subst zy. rewrite GZY in GSY'. discriminate GSY'.
  - subst zy. rewrite GZY in GLY'. discriminate GLY'.
  - assert (E : sy = sy') by (apply (OC NM_ISET NM_ISET zy); [right; reflexivity | right; reflexivity | reflexivity | rewrite Eb'; reflexivity]).
    destruct (SAME E) as [_ [_ E2]]. exact E2.
Qed.

Theorem iso_injective : forall a a' b, rho a b -> rho a' b -> a = a'.
Proof.
  intros a a' b [_ [_ W]] [_ [_ W']].
  destruct W as [I|[[E Ha]|CC]]; destruct W' as [I'|[[E' Ha']|CC']].
  - eapply INJ; eassumption.
  - assert (F := pair_fresh a b I). lia.
  - exfalso. apply (cp_norange a' b (cp_of _ _ CC')). exists a. exact I.
  - assert (F := pair_fresh a' b I'). lia.
  - lia.
  - assert (F := cp_fresh a' b (cp_of _ _ CC')). lia.
  - exfalso. apply (cp_norange a b (cp_of _ _ CC)). exists a'. exact I'.
  - assert (F := cp_fresh a b (cp_of _ _ CC)). lia.
  - exact (cp_inj a a' b (cp_of _ _ CC) (cp_of _ _ CC')).
Qed.

(* ---- functional (with the named exceptions) ------------------------------------------------------------------------ *)

Lemma conts_owner : forall x x' ox ox' a, hget h x = Some ox -> hget h x' = Some ox' ->
  In a (if is_annk (okind ox)
        then match bget (obody ox) NM_ANN with
             | Some (R sx) => sx :: match hget h sx with
                                    | Some sxo => refs_of (match bget (obody sxo) NM_ILIST with Some v => [v] | None => [] end)
                                                  ++ refs_of (match bget (obody sxo) NM_ISET with Some v => [v] | None => [] end)
                                    | None => []
                                    end
             | _ => []
             end
        else []) ->
  In a (if is_annk (okind ox')
        then match bget (obody ox') NM_ANN with
             | Some (R sx) => sx :: match hget h sx with
                                    | Some sxo => refs_of (match bget (obody sxo) NM_ILIST with Some v => [v] | None => [] end)
                                                  ++ refs_of (match bget (obody sxo) NM_ISET with Some v => [v] | None => [] end)
                                    | None => []
                                    end
             | _ => []
             end
        else []) -> x = x'.
Proof.
  intros x x' ox ox' a G G' I I'.
  destruct (hget_nth _ _ _ G) as [N P0]. destruct (hget_nth _ _ _ G') as [N' P0'].
  assert (E := flat_map_nodup_idx _ h _ _ ox ox' a CONTND N N' I I'). lia.
Qed.

Lemma cp_fun : forall a b b', CP a b -> CP a b' -> b = b'.
Proof.
  intros a b b' C1 C2.
  destruct C1 as [x yy ox oy sx sxo lx zx l z done sy ly zy Ixy G AK BA GSX BL BZ BT KS CS GLX GZX CL KL CZ KZ VM EZ NE D GY BY GSY GLY GZY W].
  destruct C2 as [x' yy' ox' oy' sx' sxo' lx' zx' l' z' done' sy' ly' zy' Ixy' G' AK' BA' GSX' BL' BZ' BT' KS' CS' GLX' GZX' CL' KL' CZ' KZ' VM' EZ' NE' D' GY' BY' GSY' GLY' GZY' W'].
  assert (IN1 : forall t, t = sx \/ t = lx \/ t = zx ->
     In t (if is_annk (okind ox) then match bget (obody ox) NM_ANN with
             | Some (R sx) => sx :: match hget h sx with
                                    | Some sxo => refs_of (match bget (obody sxo) NM_ILIST with Some v => [v] | None => [] end)
                                                  ++ refs_of (match bget (obody sxo) NM_ISET with Some v => [v] | None => [] end)
                                    | None => []
                                    end
             | _ => [] end else [])).
  { intros t T. rewrite AK, BA, GSX, BL, BZ. simpl. destruct T as [T|[T|T]]; subst; auto. }
  assert (IN2 : forall t, t = sx' \/ t = lx' \/ t = zx' ->
     In t (if is_annk (okind ox') then match bget (obody ox') NM_ANN with
             | Some (R sx) => sx :: match hget h sx with
                                    | Some sxo => refs_of (match bget (obody sxo) NM_ILIST with Some v => [v] | None => [] end)
                                                  ++ refs_of (match bget (obody sxo) NM_ISET with Some v => [v] | None => [] end)
                                    | None => []
                                    end
             | _ => [] end else [])).
  { intros t T. rewrite AK', BA', GSX', BL', BZ'. simpl. destruct T as [T|[T|T]]; subst; auto. }
  assert (XX : x = x').
  { apply (conts_owner x x' ox ox' a G G').
    - apply IN1. destruct W as [[E _]|[[E _]|[E _]]]; auto.
    - apply IN2. destruct W' as [[E _]|[[E _]|[E _]]]; auto. }
  subst x'. assert (ox' = ox) by congruence. subst ox'. assert (sx' = sx) by congruence. subst sx'.
  assert (sxo' = sxo) by congruence. subst sxo'. assert (lx' = lx) by congruence. subst lx'.
  assert (zx' = zx) by congruence. subst zx'. assert (l' = l) by congruence. subst l'. assert (z' = z) by congruence. subst z'.
  assert (YY : yy = yy').
  { destruct (FUN x yy yy' Ixy Ixy') as [E|T]; [exact E|]. unfold kind_at in T. rewrite G in T. inversion T as [T1].
    rewrite T1 in AK. discriminate AK. }
  subst yy'. assert (oy' = oy) by congruence. subst oy'. assert (sy' = sy) by congruence. subst sy'.
  rewrite GSY in GSY'. inversion GSY'; subst ly' zy'.
  destruct W as [[Ea Eb]|[[Ea Eb]|[Ea Eb]]]; destruct W' as [[Ea' Eb']|[[Ea' Eb']|[Ea' Eb']]]; subst; try reflexivity; exfalso.
  - rewrite GSX in GLX. inversion GLX; subst l. rewrite KS in KL. discriminate KL.
  - rewrite GSX in GZX. inversion GZX; subst z. rewrite KS in KZ. discriminate KZ.
  - rewrite GSX in GLX. inversion GLX; subst l. rewrite KS in KL. discriminate KL.
  - rewrite GLX in GZX. inversion GZX; subst z. rewrite KL in KZ. discriminate KZ.
  - rewrite GSX in GZX. inversion GZX; subst z. rewrite KS in KZ. discriminate KZ.
  - rewrite GLX in GZX. inversion GZX; subst z. rewrite KL in KZ. discriminate KZ.
Qed.

Theorem iso_functional : forall a b b', rho a b -> rho a b' ->
  b = b' \/ kind_at h a = Some KTuple \/ (reach h' y a /\ a < n0)
  \/ (In a (owned_conts h) /\ exists b0, In (a, b0) c).
Proof.
  intros a b b' [_ [RB W]] [_ [RB' W']].
  destruct W as [I|[[E Ha]|CC]]; destruct W' as [I'|[[E' Ha']|CC']].
  - destruct (FUN a b b' I I') as [E|T]; auto.
  - subst b'. right. right. left. split; [exact RB' | lia].
  - right. right. right. split; [exact (cp_in_conts a b' (cp_of _ _ CC')) | eauto].
  - subst b. right. right. left. split; [exact RB | lia].
  - left. congruence.
  - subst b. right. right. left. split; [exact RB | lia].
  - right. right. right. split; [exact (cp_in_conts a b (cp_of _ _ CC)) | eauto].
  - subst b'. right. right. left. split; [exact RB' | lia].
  - left. exact (cp_fun a b b' (cp_of _ _ CC) (cp_of _ _ CC')).
Qed.

(* ---- what is shared, what is fresh ---------------------------------------------------------------------------------- *)

Theorem iso_fresh_or_same : forall a b, rho a b -> (b < n0 -> a = b) /\ (n0 <= b -> 0 <= a < n0 /\ a <> b).
Proof.
  intros a b [RA [_ W]]. destruct W as [I|[[E Ha]|CC]].
  - destruct (PAIR a b I) as [Ha [Hb _]]. split; intros; lia.
  - subst b. split; intros; [reflexivity | lia].
  - assert (F := cp_fresh a b (cp_of _ _ CC)). assert (IC := cp_in_conts a b (cp_of _ _ CC)).
    destruct (cp_of a b CC) as [x yy ox oy sx sxo lx zx l z done sy ly zy Ixy G AK BA GSX BL BZ BT KS CS GLX GZX CL KL CZ KZ VM EZ NE D GY BY GSY GLY GZY W].
    assert (Ha : 0 <= a < n0).
    { destruct W as [[Ea _]|[[Ea _]|[Ea _]]]; subst a; eapply hget_Some_range; eassumption. }
    split; intros; lia.
Qed.

End IsoFull.
