(* C15 wave 9, part 2: the object graph WG s of a well-formed store IS the located-node graph of a
   rose tree, so the rose-tree theorems of Props/C15.v hold for the machines run on the store.

     wf_store s f seed     executable: the seed has no parent, every member of a child list reachable
                           from the seed has that node as its parent pointer, the unfolding from the seed
                           ends within f levels (acyclic), and no node id occurs twice in the unfolding
                           (no node in two child lists / twice in one)
     store_tree s f seed   the rose tree read off the store
     store_graph_is_located_graph   (a): l_id is a graph morphism LG -> WG s on the located nodes of
                           that tree: child lists, parent pointers, ages, `is`
     C15W9Sim              the generated machines commute with graph morphisms
     traversals_on_wellformed_store (b) *)
From Coq Require Import ZArith List Bool Arith Lia Permutation.
From DV Require Import Model.PyPrims Model.Tree Model.C15Prims Model.C15WorldPrims
     Gen.Traversals Gen.TraversalsObj Model.C15Model Model.C15World
     Proofs.C15Base Proofs.C15Proofs Proofs.C15Apply Proofs.C15Order Proofs.C15Edges Proofs.C15Final
     Proofs.C15WorldProofs Proofs.C15Refused Proofs.C15W9Sim.
Import ListNotations.
Open Scope nat_scope.

(* ---- reading a rose tree off a store ---- *)
Fixpoint store_tree (s : store) (f : nat) (x : Z) : tree :=
  match f with
  | O => T x None None None []
  | S f' => T x None None None (map (store_tree s f') (kids_of s x))
  end.

Definition optZ_eqb (a b : option Z) : bool :=
  match a, b with
  | None, None => true
  | Some x, Some y => Z.eqb x y
  | _, _ => false
  end.

(* x's parent pointer is p, and so on below x, within f levels *)
Fixpoint wf_from (s : store) (f : nat) (p : option Z) (x : Z) : bool :=
  match f with
  | O => false
  | S f' => optZ_eqb (parent_of s x) p && forallb (wf_from s f' (Some x)) (kids_of s x)
  end.

Definition wf_store (s : store) (f : nat) (seed : Z) : bool :=
  wf_from s f None seed && nodup_b (ids (store_tree s f seed)).

Lemma optZ_eqb_eq a b : optZ_eqb a b = true -> a = b.
Proof. destruct a, b; simpl; intro E; try discriminate; [apply Z.eqb_eq in E; subst|]; reflexivity. Qed.

Lemma store_tree_id s f x : t_id (store_tree s f x) = x.
Proof. destruct f; reflexivity. Qed.

Lemma memZ_In x l : memZ x l = true <-> In x l.
Proof.
  unfold memZ. rewrite existsb_exists. split.
  - intros [y [Hy E]]. apply Z.eqb_eq in E. subst. exact Hy.
  - intro Hx. exists x. split; [exact Hx|apply Z.eqb_refl].
Qed.

Lemma nodup_b_NoDup l : nodup_b l = true -> NoDup l.
Proof.
  induction l as [|x r IH]; simpl; intro E; [constructor|].
  apply andb_true_iff in E. destruct E as [E1 E2]. constructor; [|auto].
  intro Hx. apply memZ_In in Hx. rewrite Hx in E1. discriminate.
Qed.

(* ---- located nodes of one root ---- *)
Inductive loc (r : lnode) : lnode -> Prop :=
| loc_root : loc r r
| loc_kid : forall x k, loc r x -> In k (l_kids x) -> loc r k.

Lemma l_kids_from_In j0 t up ks k : In k (l_kids_from j0 t up ks) ->
  exists j k0, k = (k0, (t, j0 + j) :: up) /\ In k0 ks /\ nth_error (l_kids_from j0 t up ks) j = Some k.
Proof.
  revert j0. induction ks as [|a r IH]; intros j0 Hk; simpl in Hk; [contradiction|].
  destruct Hk as [E|Hk].
  - exists 0, a. rewrite Nat.add_0_r. subst k. repeat split. left; reflexivity.
  - destruct (IH (S j0) Hk) as [j [k0 [E [Hin Hn]]]]. exists (S j), k0.
    rewrite Nat.add_succ_r. repeat split; [exact E|right; exact Hin|exact Hn].
Qed.

Lemma loc_parent t x p : loc (t, []) x -> l_parent x = Some p -> loc (t, []) p.
Proof.
  intros L. destruct L as [|y k Ly Hk]; intro E; [discriminate|].
  pose proof (l_kids_parent y) as F. rewrite Forall_forall in F. destruct (F k Hk) as [Ep _].
  rewrite Ep in E. inversion E; subst. exact Ly.
Qed.

Lemma loc_kids r x : loc r x -> Forall (loc r) (l_kids x).
Proof. intro L. apply Forall_forall. intros k Hk. exact (loc_kid r x k L Hk). Qed.

(* ---- (a), part 1: child lists and parent pointers ---- *)
Definition Q (s : store) (x : lnode) : Prop :=
  exists g, here x = store_tree s g (l_id x) /\ wf_from s g (option_map l_id (l_parent x)) (l_id x) = true.

Lemma Q_kids s x k : Q s x -> In k (l_kids x) -> Q s k.
Proof.
  destruct x as [t up]. intros [g [Ht Hw]] Hk. unfold here, l_id in *. simpl fst in *.
  destruct g as [|g]; [discriminate|]. simpl in Ht, Hw.
  apply andb_true_iff in Hw. destruct Hw as [_ Hw]. rewrite forallb_forall in Hw.
  unfold l_kids in Hk. simpl fst in Hk. simpl snd in Hk.
  apply l_kids_from_In in Hk. destruct Hk as [j [k0 [E [Hin _]]]]. subst k.
  rewrite Ht in Hin. simpl in Hin. apply in_map_iff in Hin. destruct Hin as [z [Ez Hz]]. subst k0.
  exists g. unfold here, l_id, l_parent. simpl. rewrite store_tree_id. split; [reflexivity|].
  apply Hw. exact Hz.
Qed.

Lemma Q_graph s x : Q s x ->
  kids_of s (l_id x) = map l_id (l_kids x) /\ parent_of s (l_id x) = option_map l_id (l_parent x).
Proof.
  intros [g [Ht Hw]]. destruct g as [|g]; [discriminate|]. simpl in Hw.
  apply andb_true_iff in Hw. destruct Hw as [Hp _]. apply optZ_eqb_eq in Hp. split; [|exact Hp].
  unfold l_id at 2. rewrite <- (map_map here t_id), l_kids_here, Ht. simpl.
  rewrite map_map. rewrite <- (map_id (kids_of s (l_id x))) at 1. apply map_ext. intro z.
  rewrite store_tree_id. reflexivity.
Qed.

Lemma loc_Q s r x : Q s r -> loc r x -> Q s x.
Proof. intros Qr L. induction L as [|y k Ly IH Hk]; [exact Qr|]. exact (Q_kids s y k IH Hk). Qed.

Lemma Q_root s f seed : wf_from s f None seed = true -> Q s (store_tree s f seed, []).
Proof. intro W. exists f. unfold here, l_id, l_parent. simpl. rewrite store_tree_id. split; [reflexivity|exact W]. Qed.

(* ---- (a), part 2: `is` ---- *)
Lemma lpre_self x : In x (lpre x).
Proof. rewrite lpre_unfold. left. reflexivity. Qed.

Lemma lpre_incl : forall r x, In x (lpre r) -> incl (lpre x) (lpre r).
Proof.
  induction r as [r IH] using lnode_ind. intros x Hx. rewrite (lpre_unfold r) in Hx. destruct Hx as [E|Hx].
  - subst. apply incl_refl.
  - apply in_flat_map in Hx. destruct Hx as [k [Hk Hx]]. rewrite Forall_forall in IH.
    intros y Hy. rewrite (lpre_unfold r). right. apply in_flat_map. exists k. split; [exact Hk|].
    exact (IH k Hk x Hx y Hy).
Qed.

Lemma loc_lpre r x : loc r x -> In x (lpre r).
Proof.
  induction 1 as [|y k Ly IH Hk]; [apply lpre_self|].
  apply (lpre_incl r y IH). rewrite lpre_unfold. right. apply in_flat_map. exists k. split; [exact Hk|apply lpre_self].
Qed.

Lemma NoDup_map_inj {A B} (f : A -> B) l x y : NoDup (map f l) -> In x l -> In y l -> f x = f y -> x = y.
Proof.
  induction l as [|a r IH]; simpl; intros N Hx Hy E; [contradiction|].
  inversion N as [|? ? Na Nr]; subst.
  destruct Hx as [Hx|Hx], Hy as [Hy|Hy]; subst; try reflexivity.
  - exfalso. apply Na. rewrite E. apply in_map. exact Hy.
  - exfalso. apply Na. rewrite <- E. apply in_map. exact Hx.
  - apply IH; assumption.
Qed.

Lemma l_at_app p q n : l_at (p ++ q) n = match l_at p n with Some m => l_at q m | None => None end.
Proof.
  revert n. induction p as [|j p IH]; intro n; simpl; [reflexivity|].
  destruct (nth_error (l_kids n) j); [apply IH|reflexivity].
Qed.

Lemma loc_path t x : loc (t, []) x -> l_at (rev (l_path x)) (t, []) = Some x.
Proof.
  induction 1 as [|y k Ly IH Hk]; [reflexivity|].
  destruct y as [ty uy]. unfold l_kids in Hk. simpl fst in Hk. simpl snd in Hk.
  apply l_kids_from_In in Hk. destruct Hk as [j [k0 [E [_ Hn]]]]. subst k.
  unfold l_path in *. simpl map. simpl rev. rewrite l_at_app. simpl snd in IH. rewrite IH.
  simpl. unfold l_kids. simpl fst. simpl snd. rewrite Hn. reflexivity.
Qed.

Lemma loc_is t x y : NoDup (ids t) -> loc (t, []) x -> loc (t, []) y ->
  l_is x y = Z.eqb (l_id x) (l_id y).
Proof.
  intros N Lx Ly. destruct (Z.eqb (l_id x) (l_id y)) eqn:E.
  - apply Z.eqb_eq in E. apply l_is_same_path. f_equal.
    apply (NoDup_map_inj l_id (lpre (t, []))); auto using loc_lpre.
    rewrite lpre_ids. exact N.
  - destruct (l_is x y) eqn:I; [|reflexivity]. exfalso.
    unfold l_is in I. apply (list_eqb_eq Nat.eqb) in I; [|intros; apply Nat.eqb_eq].
    pose proof (loc_path t x Lx) as Px. pose proof (loc_path t y Ly) as Py.
    rewrite I in Px. rewrite Px in Py. inversion Py; subst. rewrite Z.eqb_refl in E. discriminate.
Qed.

(* ---- (a): the store graph is the located-node graph of store_tree ---- *)
Definition store_age (n : lnode) : Z := age_of (l_id n).

Theorem store_graph_is_located_graph (s : store) (f : nat) (seed : Z) :
  wf_store s f seed = true ->
  let r := (store_tree s f seed, []) in
  l_id r = seed /\
  forall x, loc r x ->
    attr_child_nodes (WG s) (l_id x) = map l_id (attr_child_nodes (LG store_age) x) /\
    attr_parent_node (WG s) (l_id x) = option_map l_id (attr_parent_node (LG store_age) x) /\
    attr_age (WG s) (l_id x) = attr_age (LG store_age) x /\
    attr_edge (WG s) (l_id x) = l_id (attr_edge (LG store_age) x) /\
    attr_head_node (WG s) (l_id x) = l_id (attr_head_node (LG store_age) x) /\
    Forall (loc r) (attr_child_nodes (LG store_age) x) /\
    (forall p, attr_parent_node (LG store_age) x = Some p -> loc r p) /\
    (forall y, loc r y -> obj_is (WG s) (l_id x) (l_id y) = obj_is (LG store_age) x y).
Proof.
  intro W. apply andb_true_iff in W. destruct W as [W N]. apply nodup_b_NoDup in N.
  cbv zeta. split; [apply store_tree_id|]. intros x Lx.
  pose proof (Q_graph s x (loc_Q s _ x (Q_root s f seed W) Lx)) as [Ek Ep].
  repeat split; try reflexivity.
  - exact Ek.
  - exact Ep.
  - apply loc_kids. exact Lx.
  - intros p E. exact (loc_parent _ x p Lx E).
  - intros y Ly. simpl. symmetry. apply (loc_is _ x y N Lx Ly).
Qed.

(* ---- (b): the machines on the store are the machines on the tree ---- *)
Definition lift (ff : option (Z -> bool)) : option (lnode -> bool) := lift_cb l_id ff.

Lemma height_le_size t : height t <= size t.
Proof.
  induction t as [i x l e ks IH] using tree_ind'.
  rewrite size_eq. simpl height. apply le_n_S.
  induction IH as [|k r Hk _ IHr]; simpl; [lia|]. unfold sizes in *. simpl. lia.
Qed.

Section OnStore.
  Variables (s : store) (f : nat) (seed : Z).
  Hypothesis W : wf_store s f seed = true.
  Let r : lnode := (store_tree s f seed, []).
  Notation GT := (LG store_age).
  Notation GS := (WG s).

  Let Mk : forall x, loc r x -> attr_child_nodes GS (l_id x) = map l_id (attr_child_nodes GT x).
  Proof. intros x Lx. apply (proj2 (store_graph_is_located_graph s f seed W) x Lx). Qed.
  Let Mp : forall x, loc r x -> attr_parent_node GS (l_id x) = option_map l_id (attr_parent_node GT x).
  Proof. intros x Lx. apply (proj2 (store_graph_is_located_graph s f seed W) x Lx). Qed.
  Let Dk : forall x, loc r x -> Forall (loc r) (attr_child_nodes GT x).
  Proof. intros x Lx. apply (proj2 (store_graph_is_located_graph s f seed W) x Lx). Qed.
  Let Dp : forall x p, loc r x -> attr_parent_node GT x = Some p -> loc r p.
  Proof. intros x p Lx. apply (proj2 (store_graph_is_located_graph s f seed W) x Lx). Qed.
  Let Ma : forall x, loc r x -> attr_age GS (l_id x) = attr_age GT x.
  Proof. intros x Lx. reflexivity. Qed.
  Let Mi : forall x y, loc r x -> loc r y -> obj_is GS (l_id x) (l_id y) = obj_is GT x y.
  Proof. intros x y Lx. apply (proj2 (store_graph_is_located_graph s f seed W) x Lx). Qed.

  Let FR : forall ff, frel GT GS l_id (loc r) ff (lift ff).
  Proof. intros ff x _. destruct ff; reflexivity. Qed.

  (* every machine, every fuel (running out of fuel included), every located start node *)
  Theorem machines_on_store_are_machines_on_tree :
    forall x, loc r x ->
    forall (ff : option (Z -> bool)) (b1 b2 : bool) (fuel : nat),
      Node_preorder_iter GS fuel ff (l_id x) = gmap l_id (Node_preorder_iter GT fuel (lift ff) x) /\
      Node_postorder_iter GS fuel ff (l_id x) = gmap l_id (Node_postorder_iter GT fuel (lift ff) x) /\
      Node_levelorder_iter GS fuel ff (l_id x) = gmap l_id (Node_levelorder_iter GT fuel (lift ff) x) /\
      Node_inorder_iter GS fuel ff (l_id x) = gmap l_id (Node_inorder_iter GT fuel (lift ff) x) /\
      Node_leaf_iter GS fuel ff (l_id x) = gmap l_id (Node_leaf_iter GT fuel (lift ff) x) /\
      Node_preorder_internal_node_iter GS fuel ff b1 (l_id x)
        = gmap l_id (Node_preorder_internal_node_iter GT fuel (lift ff) b1 x) /\
      Node_postorder_internal_node_iter GS fuel ff b1 (l_id x)
        = gmap l_id (Node_postorder_internal_node_iter GT fuel (lift ff) b1 x) /\
      Node_ancestor_iter GS fuel ff b1 (l_id x) = gmap l_id (Node_ancestor_iter GT fuel (lift ff) b1 x) /\
      Node_child_node_iter GS fuel ff (l_id x) = gmap l_id (Node_child_node_iter GT fuel (lift ff) x) /\
      Node_child_edge_iter GS fuel ff (l_id x) = gmap l_id (Node_child_edge_iter GT fuel (lift ff) x) /\
      Node_ageorder_iter GS fuel ff b1 b2 (l_id x) = gmap l_id (Node_ageorder_iter GT fuel (lift ff) b1 b2 x) /\
      Node_leaf_nodes GS fuel (l_id x) = gmap l_id (Node_leaf_nodes GT fuel x) /\
      Tree_nodes GS fuel ff (l_id x) = gmap l_id (Tree_nodes GT fuel (lift ff) x) /\
      Tree_leaf_nodes GS fuel (l_id x) = gmap l_id (Tree_leaf_nodes GT fuel x) /\
      Tree_internal_nodes GS fuel b1 (l_id x) = gmap l_id (Tree_internal_nodes GT fuel b1 x) /\
      Tree_dunder_len GS fuel (l_id x) = Tree_dunder_len GT fuel x /\
      (forall (ev : Type) (bf af lf : option (Z -> ev)),
         Node_apply GS fuel bf af lf (l_id x)
         = Node_apply GT fuel (lift_cb l_id bf) (lift_cb l_id af) (lift_cb l_id lf) x).
  Proof.
    intros x Lx ff b1 b2 fuel.
    pose proof (list_methods_sim GT GS l_id (loc r) Mk Mp Dk ff (lift ff) b1 (FR ff) fuel x Lx) as [L1 [L2 L3]].
    repeat split.
    - exact (preorder_sim GT GS l_id (loc r) Mk Dk ff (lift ff) (FR ff) fuel x Lx).
    - exact (postorder_sim GT GS l_id (loc r) Mk Dk ff (lift ff) (FR ff) fuel x Lx).
    - exact (levelorder_sim GT GS l_id (loc r) Mk Dk ff (lift ff) (FR ff) fuel x Lx).
    - exact (inorder_sim GT GS l_id (loc r) Mk Dk ff (lift ff) (FR ff) fuel x Lx).
    - exact (leaf_sim GT GS l_id (loc r) Mk Dk ff (lift ff) (FR ff) fuel x Lx).
    - exact (preorder_internal_sim GT GS l_id (loc r) Mk Mp Dk ff (lift ff) b1 (FR ff) fuel x Lx).
    - exact (postorder_internal_sim GT GS l_id (loc r) Mk Mp Dk ff (lift ff) b1 (FR ff) fuel x Lx).
    - exact (ancestor_sim GT GS l_id (loc r) Mp Dp ff (lift ff) b1 (FR ff) fuel x Lx).
    - exact (child_node_sim GT GS l_id (loc r) Mk Dk ff (lift ff) (FR ff) fuel x Lx).
    - exact (child_node_sim GT GS l_id (loc r) Mk Dk ff (lift ff) (FR ff) fuel x Lx).
    - exact (ageorder_sim GT GS l_id (loc r) Mk Dk Ma ff (lift ff) b1 b2 (FR ff) fuel x Lx).
    - exact (leaf_nodes_sim GT GS l_id (loc r) Mk Dk fuel x Lx).
    - exact L1.
    - exact L2.
    - exact L3.
    - exact (len_sim GT GS l_id (loc r) Mk Dk fuel x Lx).
    - intros ev bf af lf. exact (apply_sim GT GS l_id (loc r) Mk Mp Dk Dp Mi bf af lf fuel x Lx).
  Qed.
  (* (b) in specification form: each machine run on the store yields the ids of its structural order
     on the tree read off the store *)
  Theorem traversals_on_wellformed_store :
    forall x, loc r x ->
    forall (ff : option (Z -> bool)) (b1 b2 : bool) (fuel : nat),
      2 * size (here x) + l_depth x + 2 <= fuel ->
      Node_preorder_iter GS fuel ff (l_id x) = GDone (map l_id (filter (pyf (lift ff)) (lpre x))) /\
      Node_postorder_iter GS fuel ff (l_id x) = GDone (map l_id (filter (pyf (lift ff)) (lpost x))) /\
      Node_levelorder_iter GS fuel ff (l_id x) = GDone (map l_id (filter (pyf (lift ff)) (llevel x))) /\
      Node_inorder_iter GS fuel ff (l_id x) = gmap l_id (linorder (pyf (lift ff)) x) /\
      Node_leaf_iter GS fuel ff (l_id x) = GDone (map l_id (filter (pyf (lift ff)) (lleaves x))) /\
      Node_preorder_internal_node_iter GS fuel ff b1 (l_id x)
        = GDone (map l_id (filter (fun y => (if b1 then l_has_parent y else true) && l_is_internal y && pyf (lift ff) y)
                                  (lpre x))) /\
      Node_postorder_internal_node_iter GS fuel ff b1 (l_id x)
        = GDone (map l_id (filter (fun y => (if b1 then l_has_parent y else true) && l_is_internal y && pyf (lift ff) y)
                                  (lpost x))) /\
      Node_ancestor_iter GS fuel ff b1 (l_id x)
        = GDone (map l_id (filter (pyf (lift ff)) ((if b1 then [x] else []) ++ lancestors x))) /\
      Node_child_node_iter GS fuel ff (l_id x) = GDone (map l_id (filter (pyf (lift ff)) (l_kids x))) /\
      Node_child_edge_iter GS fuel ff (l_id x) = GDone (map l_id (filter (pyf (lift ff)) (l_kids x))) /\
      Node_ageorder_iter GS fuel ff b1 b2 (l_id x)
        = GDone (map l_id (filter (fun y => (b1 || l_is_internal y) && pyf (lift ff) y)
                                  (py_sort_by store_age b2 (lpre x)))) /\
      Node_leaf_nodes GS fuel (l_id x) = GDone (map l_id (lleaves x)) /\
      Tree_nodes GS fuel ff (l_id x) = GDone (map l_id (filter (pyf (lift ff)) (lpre x))) /\
      Tree_leaf_nodes GS fuel (l_id x) = GDone (map l_id (lleaves x)) /\
      Tree_internal_nodes GS fuel b1 (l_id x)
        = GDone (map l_id (filter (fun y => (if b1 then l_has_parent y else true) && l_is_internal y && true) (lpre x))) /\
      Tree_dunder_len GS fuel (l_id x) = Ok (Z.of_nat (length (leaves (here x)))) /\
      (forall (ev : Type) (bf af lf : option (Z -> ev)),
         Node_apply GS fuel bf af lf (l_id x)
         = GDone (flat_map (cb_emit (lift_cb l_id bf) (lift_cb l_id af) (lift_cb l_id lf)) (lbrackets x))).
  Proof.
    intros x Lx ff b1 b2 fuel Hf.
    pose proof (height_le_size (here x)) as Hh.
    destruct (machines_on_store_are_machines_on_tree x Lx ff b1 b2 fuel)
      as [E1 [E2 [E3 [E4 [E5 [E6 [E7 [E8 [E9 [E10 [E11 [E12 [E13 [E14 [E15 [E16 E17]]]]]]]]]]]]]]]].
    pose proof (@list_methods lnode (fun n => n) (fun e => e) store_age (lift ff) b1 x fuel ltac:(lia)) as [M1 [M2 [M3 M4]]].
    rewrite E1, E2, E3, E4, E5, E6, E7, E8, E9, E10, E11, E12, E13, E14, E15, E16.
    repeat split.
    - exact (f_equal (gmap l_id) (@preorder_iter_run lnode (fun n => n) (fun e => e) store_age (lift ff) x fuel ltac:(unfold lsize; lia))).
    - exact (f_equal (gmap l_id) (@postorder_iter_run lnode (fun n => n) (fun e => e) store_age (lift ff) x fuel ltac:(unfold lsize; lia))).
    - exact (f_equal (gmap l_id) (@levelorder_iter_run lnode (fun n => n) (fun e => e) store_age (lift ff) x fuel ltac:(unfold lsize; lia))).
    - exact (f_equal (gmap l_id) (@inorder_iter_run lnode (fun n => n) (fun e => e) store_age (lift ff) x fuel ltac:(lia))).
    - exact (f_equal (gmap l_id) (@leaf_iter_run lnode (fun n => n) (fun e => e) store_age (lift ff) x fuel ltac:(unfold lsize; lia))).
    - exact (f_equal (gmap l_id) (@preorder_internal_run lnode (fun n => n) (fun e => e) store_age (lift ff) b1 x fuel ltac:(unfold lsize; lia))).
    - exact (f_equal (gmap l_id) (@postorder_internal_run lnode (fun n => n) (fun e => e) store_age (lift ff) b1 x fuel ltac:(unfold lsize; lia))).
    - exact (f_equal (gmap l_id) (@ancestor_iter_run lnode (fun n => n) (fun e => e) store_age (lift ff) b1 x fuel ltac:(lia))).
    - exact (f_equal (gmap l_id) (@child_node_iter_run lnode (fun n => n) (fun e => e) store_age (lift ff) x fuel)).
    - pose proof (@child_edge_iter_run lnode (fun n => n) (fun e => e) store_age (lift ff) x fuel) as R.
      rewrite map_id in R. exact (f_equal (gmap l_id) R).
    - exact (f_equal (gmap l_id) (@ageorder_iter_run lnode (fun n => n) (fun e => e) store_age (lift ff) b1 b2 x fuel ltac:(unfold lsize; lia))).
    - exact (f_equal (gmap l_id) M3).
    - exact (f_equal (gmap l_id) M1).
    - exact (f_equal (gmap l_id) M2).
    - exact (f_equal (gmap l_id) M4).
    - exact (@len_run lnode (fun n => n) (fun e => e) store_age x fuel ltac:(unfold lsize; lia)).
    - intros ev bf af lf. rewrite E17. destruct x as [ts us].
      exact (@apply_run lnode (fun n => n) (fun e => e) store_age ev (lift_cb l_id bf) (lift_cb l_id af) (lift_cb l_id lf)
                        ts us fuel ltac:(unfold here in Hf; simpl in Hf; lia)).
  Qed.
End OnStore.

(* ---- edge iterators: on every store, each is its node counterpart (an edge is named by its head node) ---- *)
Theorem edge_iterators_on_store (s : store) (fuel : nat) (fe : option (Z -> bool)) (excl : bool) (seed : Z) :
  Tree_preorder_edge_iter (WG s) fuel fe seed = Tree_preorder_node_iter (WG s) fuel fe seed /\
  Tree_postorder_edge_iter (WG s) fuel fe seed = Tree_postorder_node_iter (WG s) fuel fe seed /\
  Tree_preorder_internal_edge_iter (WG s) fuel fe excl seed = Tree_preorder_internal_node_iter (WG s) fuel fe excl seed /\
  Tree_postorder_internal_edge_iter (WG s) fuel fe excl seed = Tree_postorder_internal_node_iter (WG s) fuel fe excl seed /\
  Tree_levelorder_edge_iter (WG s) fuel fe seed = Tree_levelorder_node_iter (WG s) fuel fe seed /\
  Tree_level_order_edge_iter (WG s) fuel fe seed = Tree_level_order_node_iter (WG s) fuel fe seed /\
  Tree_inorder_edge_iter (WG s) fuel fe seed = Tree_inorder_node_iter (WG s) fuel fe seed /\
  Tree_leaf_edge_iter (WG s) fuel fe seed = Tree_leaf_node_iter (WG s) fuel fe seed /\
  Tree_edges (WG s) fuel fe seed = Tree_nodes (WG s) fuel fe seed /\
  Tree_leaf_edges (WG s) fuel seed = Tree_leaf_nodes (WG s) fuel seed /\
  Tree_internal_edges (WG s) fuel excl seed = Tree_internal_nodes (WG s) fuel excl seed.
Proof.
  assert (EF : efilter (WG s) fe = fe) by (destruct fe; reflexivity).
  assert (EO : forall g, edges_of (WG s) g = g).
  { intro g. unfold edges_of. cbn [attr_edge WG]. apply gmap_id_flat. }
  pose proof (edge_iters (WG s) (fun n => eq_refl) fuel fe excl seed) as R.
  rewrite EF in R. rewrite !EO in R. exact R.
Qed.

(* ---- the fuel the correspondence check uses (store_fuel s) is enough at the seed ---- *)
Lemma lpre_length : forall n, length (lpre n) = lsize n.
Proof.
  induction n as [n IH] using lnode_ind. rewrite lpre_unfold, lsize_unfold. simpl. f_equal.
  induction IH as [|k q Hk _ IHq]; simpl; [reflexivity|]. rewrite app_length, Hk, IHq. reflexivity.
Qed.

Lemma lpre_loc r : forall x, loc r x -> forall y, In y (lpre x) -> loc r y.
Proof.
  induction x as [x IH] using lnode_ind. intros Lx y Hy. rewrite lpre_unfold in Hy. destruct Hy as [E|Hy].
  - subst. exact Lx.
  - apply in_flat_map in Hy. destruct Hy as [k [Hk Hy]]. rewrite Forall_forall in IH.
    exact (IH k Hk (loc_kid r x k Lx Hk) y Hy).
Qed.

Lemma alookup_In {A} k (l : list (Z * A)) v : alookup k l = Some v -> In k (map fst l).
Proof.
  induction l as [|[k' v'] q IH]; simpl; [discriminate|].
  destruct (Z.eqb k k') eqn:E; [apply Z.eqb_eq in E; subst; left; reflexivity|]. intro H. right. exact (IH H).
Qed.

Lemma wf_store_size s f seed : wf_store s f seed = true -> size (store_tree s f seed) <= S (length (s_nodes s)).
Proof.
  intro W. pose proof (store_graph_is_located_graph s f seed W) as [_ MOR]. cbv zeta in MOR.
  apply andb_true_iff in W. destruct W as [_ N]. apply nodup_b_NoDup in N.
  set (r := (store_tree s f seed, [])) in *.
  change (size (store_tree s f seed)) with (lsize r). rewrite <- lpre_length.
  rewrite <- (map_length l_id). change (store_tree s f seed) with (here r) in N. rewrite <- lpre_ids in N.
  rewrite lpre_unfold in *. simpl map in *. simpl length. apply le_n_S.
  inversion N as [|? ? _ N']; subst. rewrite <- (map_length fst (s_nodes s)).
  apply NoDup_incl_length; [exact N'|].
  intros z Hz. apply in_map_iff in Hz. destruct Hz as [y [Ey Hy]]. subst z.
  assert (Ly : loc r y).
  { apply in_flat_map in Hy. destruct Hy as [k [Hk Hy]].
    exact (lpre_loc r k (loc_kid r r k (loc_root r) Hk) y Hy). }
  assert (Py : exists p, l_parent y = Some p).
  { apply in_flat_map in Hy. destruct Hy as [k [Hk Hy]].
    pose proof (lpre_depth k) as F. rewrite Forall_forall in F. specialize (F y Hy).
    pose proof (l_kids_parent r) as P. rewrite Forall_forall in P. destruct (P k Hk) as [_ Dk].
    destruct y as [ty [|[p j] up]]; [unfold l_depth in *; simpl in *; lia|]. exists (p, up). reflexivity. }
  destruct Py as [p Ep]. destruct (MOR y Ly) as [_ [Hp _]]. cbn [attr_parent_node WG LG LGE] in Hp.
  rewrite Ep in Hp. simpl in Hp. unfold parent_of in Hp.
  destruct (node_of s (l_id y)) as [rec|] eqn:En; [|discriminate].
  exact (alookup_In _ _ _ En).
Qed.

Theorem store_fuel_suffices_at_seed s f seed : wf_store s f seed = true ->
  let r := (store_tree s f seed, []) in 2 * size (here r) + l_depth r + 2 <= store_fuel s.
Proof.
  intro W. pose proof (wf_store_size s f seed W) as Hs. cbv zeta. unfold here, l_depth, store_fuel. simpl. lia.
Qed.

(* ---- the hypotheses are satisfiable, and they bite ---- *)
Definition ex_world : store :=
  match build_world [C15Final.ex_tree] empty_store with Ok (_, s0) => s0 | _ => empty_store end.

(* after a history: reverse the children of the seed in place of a copy and assign it back, add a new child *)
Definition ex_world2 : store :=
  match do_step (SKids 0 [EReverse] true) ex_world with
  | Ok (_, s1) => match do_step (SNewChild 4 20) s1 with Ok (_, s2) => s2 | _ => empty_store end
  | _ => empty_store
  end.

Example wf_store_satisfiable :
  wf_store ex_world 11 0 = true /\ ids (store_tree ex_world 11 0) = ids C15Final.ex_tree /\
  wf_store ex_world2 12 0 = true /\ ids (store_tree ex_world2 12 0) = [0; 9; 8; 4; 5; 6; 7; 20; 1; 2; 3]%Z.
Proof. vm_compute. repeat split; reflexivity. Qed.

(* a node in two child lists (p.add_child(n) while n is still a child of another node, in the unchanged
   library) is NOT well formed, and there the traversal is not a tree order: node 2 is visited twice *)
Definition ex_shared : store :=
  match mbind (new_tree (T 0 None None None [ex_leaf 1; ex_leaf 2])) (fun _ => Node_add_child_obj 1 2) empty_store with
  | Ok (_, s1) => s1
  | _ => empty_store
  end.

Example shared_child_is_not_wellformed :
  wf_store ex_shared 10 0 = false /\
  Node_preorder_iter (WG ex_shared) 20 None 0%Z = GDone [0; 1; 2; 2]%Z.
Proof. vm_compute. split; reflexivity. Qed.

(* the hypotheses of traversals_on_wellformed_store hold at the seed with the fuel of the correspondence check *)
Theorem seed_is_located_with_probe_fuel s f seed : wf_store s f seed = true ->
  exists x, loc (store_tree s f seed, []) x /\ l_id x = seed /\ 2 * size (here x) + l_depth x + 2 <= store_fuel s.
Proof.
  intro W. exists (store_tree s f seed, []). split; [apply loc_root|]. split; [apply store_tree_id|].
  exact (store_fuel_suffices_at_seed s f seed W).
Qed.

(* ---- what the correspondence check evaluates (probe_run, with its own fuel store_fuel s) at the seed of a
   well-formed store is the structural order of the tree read off the store ---- *)
Definition probe_filter (filt : option (list Z)) : option (Z -> bool) :=
  match filt with None => None | Some ids => Some (fun n => memZ n ids) end.

Theorem probes_at_seed_are_tree_orders s f seed : wf_store s f seed = true ->
  forall (st : Z) (filt : option (list Z)) (out : list Z) (oe : option err),
  let r := (store_tree s f seed, []) in
  let keep := pyf (lift (probe_filter filt)) in
  probe_run s seed (mkProbe st KT_preorder_node_iter filt out oe) = Some (map l_id (filter keep (lpre r)), None) /\
  probe_run s seed (mkProbe st KT_postorder_node_iter filt out oe) = Some (map l_id (filter keep (lpost r)), None) /\
  probe_run s seed (mkProbe st KT_levelorder_node_iter filt out oe) = Some (map l_id (filter keep (llevel r)), None) /\
  probe_run s seed (mkProbe st KT_leaf_node_iter filt out oe) = Some (map l_id (filter keep (lleaves r)), None) /\
  probe_run s seed (mkProbe st KT_nodes filt out oe) = Some (map l_id (filter keep (lpre r)), None) /\
  probe_run s seed (mkProbe st KT_preorder_edge_iter filt out oe) = Some (map l_id (filter keep (lpre r)), None) /\
  probe_run s seed (mkProbe st KT_postorder_edge_iter filt out oe) = Some (map l_id (filter keep (lpost r)), None) /\
  probe_run s seed (mkProbe st KT_len filt out oe) = Some ([Z.of_nat (length (leaves (here r)))], None).
Proof.
  intros W st filt out oe. cbv zeta.
  pose proof (store_fuel_suffices_at_seed s f seed W) as Hf. cbv zeta in Hf.
  pose proof (traversals_on_wellformed_store s f seed W _ (loc_root _) (probe_filter filt) false false (store_fuel s) Hf)
    as [E1 [E2 [E3 [_ [E5 [_ [_ [_ [_ [_ [_ [_ [E13 [_ [_ [E16 _]]]]]]]]]]]]]]]].
  pose proof (edge_iterators_on_store s (store_fuel s) (probe_filter filt) false seed) as [X1 [X2 _]].
  change (l_id (store_tree s f seed, [])) with (t_id (store_tree s f seed)) in *. rewrite store_tree_id in *.
  unfold probe_run. cbn [p_kind p_filter p_start kind_is_tree_level kind_run].
  fold (probe_filter filt).
  rewrite X1, X2.
  unfold Tree_preorder_node_iter, Tree_postorder_node_iter, Tree_levelorder_node_iter, Tree_leaf_node_iter.
  rewrite E1, E2, E3, E5, E13, E16. cbn [gres_ids]. rewrite !map_id. repeat split.
Qed.

(* ---- well-formedness of every live tree, along a history (executable) ---- *)
Definition world_wf (s : store) : bool :=
  forallb (fun seed => wf_store s (S (length (s_nodes s))) seed) (s_trees s).

Fixpoint history_wf (s : store) (sts : list step) : bool :=
  world_wf s &&
  match sts with
  | [] => true
  | st :: rest =>
    match do_step st s with
    | Ok (_, s') => history_wf s' rest
    | Err _ => match st with SRefused _ _ _ => history_wf s rest | _ => false end
    | OutOfFuel => false
    end
  end.

Theorem world_wf_probes s seed : world_wf s = true -> In seed (s_trees s) ->
  wf_store s (S (length (s_nodes s))) seed = true.
Proof. unfold world_wf. rewrite forallb_forall. intros H Hs. exact (H seed Hs). Qed.

(* the two example histories of Props/C15.v (all public routes incl. Tree(seed_node=attached node), the seed setter,
   a kept private list; refused calls of every class and a real remove_child): every live tree of every
   intermediate store is well formed *)
Example example_histories_stay_wellformed :
  match build_world [C15WorldProofs.ex_tree] empty_store with
  | Ok (_, s0) => history_wf s0 C15WorldProofs.ex_steps && history_wf s0 C15Refused.ex_steps_r
  | _ => false
  end = true.
Proof. vm_compute. reflexivity. Qed.
