(* C03 proofs, second wave: randomly_reorient with any script (outside the to_outgroup_position
   failure class). *)
From Coq Require Import ZArith List Bool Lia Permutation.
From DV Require Import Model.PyPrims Model.Tree Model.Heap Model.HeapOps Model.C03Spec
  Proofs.C03Base Proofs.C03Abs Proofs.C03Local Proofs.C03Prims Proofs.C03Collapse Proofs.C03Suppress
  Proofs.C03Reseed Proofs.C03Order Proofs.C03Ops Proofs.C03Ops2 Proofs.C03PruneLoops Proofs.C03Hist
  Proofs.C03More2 Proofs.C03SetKids.
Import ListNotations.
Open Scope Z_scope.

(* the picked node is not a leaf that is the only child of the seed (there to_outgroup_position
   with unifurcation suppression is broken in the library) *)
Definition reorient_ok (h : heap) (pick : nat) : Prop :=
  forall t nd, abs h = Some t -> nth_error (pre_ids t) pick = Some nd ->
    kids h nd = [] -> parent h nd = Some (seed h) -> kids h (seed h) <> [nd].

Theorem randomly_reorient_finishes pick perms ub h :
  WF h -> reorient_ok h pick ->
  randomly_reorient pick perms ub h = HFuel \/ finishes (randomly_reorient pick perms ub h) WF [AssertErr].
Proof.
  intros [t W] OK. unfold randomly_reorient. rewrite (with_sub_seed h t _ W).
  destruct (nth_error (pre_ids t) pick) as [nd|] eqn:En; [|left; reflexivity].
  assert (Hn : In nd (ids t)) by (eapply nth_error_In; exact En).
  specialize (OK t nd (abs_WFt h t W) En).
  destruct (find_ctx t nd Hn) as [c [s [-> Es]]]. subst nd.
  pose proof W as [W0 S]. pose proof (kids_of_focus h c s W0) as K.
  assert (ROT : forall h1, WF h1 ->
     randomly_rotate perms h1 = HFuel \/ finishes (randomly_rotate perms h1) WF [AssertErr])
    by (intros h1 W1; apply randomly_rotate_finishes, W1).
  unfold is_internal. rewrite K.
  destruct (t_kids s) as [|k0 kr] eqn:Ek; simpl map; cbv iota.
  - (* a leaf: to_outgroup_position *)
    destruct c as [|c' p x l e lft rgt].
    + unfold to_outgroup_position. destruct W0 as [R _]. simpl in R. rewrite (rep_parent h None s R).
      right. right. exists AssertErr, h. split; [reflexivity|split; [left; reflexivity|exists s; exact W]].
    + simpl plug in W.
      destruct (to_outgroup_su_wf ub h c' p x l e lft s rgt W) as [h1 [E1 [W1 _]]].
      * unfold not_unary. rewrite Ek. discriminate.
      * destruct c' as [|c2 i y m f a b]; [|left; discriminate]. right.
        intro E. apply app_eq_nil in E. destruct E as [-> ->].
        simpl plug in *. simpl in S.
        destruct (wr_focus h CTop p x l e [s] W0) as [_ [Gp [Fk _]]].
        pose proof (Forall_inv Fk) as Rs.
        apply OK.
        -- rewrite K. reflexivity.
        -- rewrite <- S. apply (rep_parent h (Some p) s Rs).
        -- rewrite <- S. unfold kids. rewrite Gp. reflexivity.
      * rewrite E1. simpl hbind. apply ROT. eapply WFt_WF, W1.
  - destruct (reseed_at_any ub true true h c s W) as [h1 [t1 [E1 [W1 _]]]].
    rewrite E1. simpl hbind. apply ROT. eapply WFt_WF, W1.
Qed.
