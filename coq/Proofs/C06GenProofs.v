(* C06: the code generated from the current source (Gen/TreeArrayGen.v) equals the hand-written
   model (C06Model: update, add_tree_r, extend_r, plus_r, collate, new_cfg) on all inputs whose
   dictionaries are real dictionaries (no key twice) *)
From Coq Require Import ZArith List Bool Lia Permutation.
From DV Require Import Model.PyPrims Model.C06Model Model.C06Queue Model.C06GenPrims Gen.TreeArrayGen
     Proofs.C06Lemmas.
Import ListNotations.
Open Scope Z_scope.

(* a SplitDistribution / TreeArray whose split_counts has no key twice (every reachable one) *)
Definition sd_wf (s : sdist) : Prop := NoDup (keys (sd_counts s)).
Definition ta_wf (t : tarr) : Prop := sd_wf (ta_sd t).

(* ------------------------------------------------------------------ small facts *)

Lemma gen_len_eq t : gen_len t = Z.of_nat (length (ta_splits t)).
Proof. reflexivity. Qed.

Lemma len_eq0 t : Z.eqb (gen_len t) 0 = is_nil (ta_splits t).
Proof. unfold gen_len, py_len. destruct (ta_splits t); reflexivity. Qed.

Lemma len_gt0 t : Z.gtb (gen_len t) 0 = negb (is_nil (ta_splits t)).
Proof. unfold gen_len, py_len. destruct (ta_splits t); reflexivity. Qed.

Lemma zeqb_of_nat a b : Z.eqb (Z.of_nat a) (Z.of_nat b) = Nat.eqb a b.
Proof.
  destruct (Nat.eqb_spec a b) as [->|N]; [apply Z.eqb_refl|].
  apply Z.eqb_neq. intro E. apply Nat2Z.inj in E. contradiction.
Qed.

Lemma map_const_seq {A B} (c : B) (l : list A) s : map (fun _ => c) (seq s (length l)) = map (fun _ => c) l.
Proof. revert s; induction l as [|x l IH]; intro s; simpl; [reflexivity | f_equal; apply IH]. Qed.

Lemma map_const_range {A B} (c : B) (l : list A) :
  map (fun _ => c) (py_range (py_len l)) = map (fun _ => c) l.
Proof.
  unfold py_range, py_len. rewrite Nat2Z.id, map_map. apply map_const_seq.
Qed.

(* ------------------------------------------------------------------ validate_rooting *)

Lemma gen_validate_rooting_eq t r :
  gen_validate_rooting t r
  = match validate_rooting t r with inl t1 => (t1, None) | inr e => (t, Some e) end.
Proof.
  unfold gen_validate_rooting, validate_rooting, py_is_none, ob_is, ob_truthy, set_ta_rooting, set_rooting.
  destruct (ta_rooting t) as [[|]|]; destruct r as [[|]|]; reflexivity.
Qed.

(* ------------------------------------------------------------------ SplitDistribution.update *)

Lemma alook_app_notin {V} k (pre post : list (Z * V)) : ~ In k (keys pre) -> alook k (pre ++ post) = alook k post.
Proof.
  induction pre as [|[k' v] pre IH]; simpl; intro H; [reflexivity|].
  destruct (Z.eqb_spec k k') as [->|N]; [exfalso; apply H; left; reflexivity|].
  apply IH. intro I. apply H. right. exact I.
Qed.

Lemma merge_counts_by_keys pre b a :
  NoDup (keys (pre ++ b)) ->
  merge_counts a b = fold_left (fun m k => dict_add k (cnt k (pre ++ b)) m) (keys b) a.
Proof.
  unfold merge_counts. revert pre a; induction b as [|[k v] b IH]; intros pre a N; simpl; [reflexivity|].
  assert (E : cnt k (pre ++ (k, v) :: b) = v).
  { unfold cnt. rewrite alook_app_notin.
    - simpl. rewrite Z.eqb_refl. reflexivity.
    - unfold keys in N. rewrite map_app in N. simpl in N. apply NoDup_remove_2 in N.
      intro I. apply N. apply in_or_app. left. exact I. }
  rewrite E.
  replace (pre ++ (k, v) :: b) with ((pre ++ [(k, v)]) ++ b) in * by (rewrite <- app_assoc; reflexivity).
  apply IH. exact N.
Qed.

Lemma gen_sd_fold ks cb eb gb : forall s0,
  fold_left (fun self split =>
     let self := set_sd_counts self (dnum_iadd (sd_counts self) split (dnum_get cb split)) in
     let self := set_sd_elens self (dlist_iadd (sd_elens self) split (dlist_get eb split)) in
     let self := set_sd_ages self (dlist_iadd (sd_ages self) split (dlist_get gb split)) in
     self) ks s0
  = mkSd (sd_ign_el s0) (sd_ign_ages s0) (sd_use_w s0) (sd_total s0) (sd_sumw s0) (sd_rt s0) (sd_rf s0)
         (fold_left (fun m k => dict_add k (cnt k cb) m) ks (sd_counts s0))
         (merge_lists ks (sd_elens s0) eb) (merge_lists ks (sd_ages s0) gb).
Proof.
  unfold merge_lists. induction ks as [|k ks IH]; intro s0; simpl.
  - destruct s0; reflexivity.
  - rewrite IH. destruct s0; reflexivity.
Qed.

Lemma gen_sd_update_eq a b : sd_wf b -> gen_sd_update a b = sd_update a b.
Proof.
  intro N. unfold gen_sd_update, sd_update, dict_keys.
  rewrite gen_sd_fold. cbn.
  rewrite (merge_counts_by_keys [] (sd_counts b) (sd_counts a) N). reflexivity.
Qed.

(* ------------------------------------------------------------------ update *)

Lemma gen_update_eq a b : ta_wf b -> gen_update a b = update a b.
Proof.
  intro N. unfold gen_update, update. rewrite len_eq0, len_gt0.
  destruct (is_nil (ta_splits b)); [reflexivity|].
  unfold ob_is, b_is.
  destruct (is_nil (ta_splits a)); cbn [negb].
  - rewrite (gen_sd_update_eq _ _ N). destruct a, b; reflexivity.
  - destruct (obool_eqb (ta_rooting a) (ta_rooting b)); cbn [negb]; [|reflexivity].
    destruct (Bool.eqb (ta_ign_el a) (ta_ign_el b)); cbn [negb]; [|reflexivity].
    destruct (Bool.eqb (ta_ign_ages a) (ta_ign_ages b)); cbn [negb]; [|reflexivity].
    destruct (Bool.eqb (ta_use_w a) (ta_use_w b)); cbn [negb]; [|reflexivity].
    rewrite (gen_sd_update_eq _ _ N). destruct a, b; reflexivity.
Qed.

(* ------------------------------------------------------------------ extend / += / + *)

Lemma gen_extend_eq a b : ta_wf b -> gen_extend a b = extend_r a b.
Proof.
  intro N. unfold gen_extend, extend_r, extend, ns_is. rewrite !len_eq0.
  destruct (is_nil (ta_splits b)); [reflexivity|].
  unfold ob_is, b_is, py_is_none, is_none.
  destruct (is_nil (ta_splits a)); cbn [andb].
  - destruct (ta_rooting a) as [ra|] eqn:Ra.
    + rewrite Ra.
      destruct (obool_eqb (Some ra) (ta_rooting b)); cbn [negb]; [|reflexivity].
      destruct (Bool.eqb (ta_ign_el a) (ta_ign_el b)); cbn [negb]; [|reflexivity].
      destruct (Bool.eqb (ta_ign_ages a) (ta_ign_ages b)); cbn [negb]; [|reflexivity].
      destruct (Bool.eqb (ta_use_w a) (ta_use_w b)); cbn [negb]; [|reflexivity].
      rewrite (gen_sd_update_eq _ _ N). destruct a, b; cbn in *; subst; reflexivity.
    + cbn [set_ta_rooting set_rooting ta_rooting ta_ign_el ta_ign_ages ta_use_w].
      destruct (obool_eqb (ta_rooting b) (ta_rooting b)); cbn [negb]; [|reflexivity].
      destruct (Bool.eqb (ta_ign_el a) (ta_ign_el b)); cbn [negb]; [|reflexivity].
      destruct (Bool.eqb (ta_ign_ages a) (ta_ign_ages b)); cbn [negb]; [|reflexivity].
      destruct (Bool.eqb (ta_use_w a) (ta_use_w b)); cbn [negb]; [|reflexivity].
      rewrite (gen_sd_update_eq _ _ N). destruct a, b; reflexivity.
  - destruct (obool_eqb (ta_rooting a) (ta_rooting b)); cbn [negb]; [|reflexivity].
    destruct (Bool.eqb (ta_ign_el a) (ta_ign_el b)); cbn [negb]; [|reflexivity].
    destruct (Bool.eqb (ta_ign_ages a) (ta_ign_ages b)); cbn [negb]; [|reflexivity].
    destruct (Bool.eqb (ta_use_w a) (ta_use_w b)); cbn [negb]; [|reflexivity].
    rewrite (gen_sd_update_eq _ _ N). destruct a, b; reflexivity.
Qed.

Lemma gen_iadd_eq a b : ta_wf b -> gen_iadd a b = extend_r a b.
Proof. intro N. unfold gen_iadd. apply gen_extend_eq. exact N. Qed.

Lemma gen_add_eq a b : ta_wf a -> ta_wf b -> gen_add a b = plus_r a b.
Proof.
  intros Na Nb. unfold gen_add, plus_r, ta_new.
  rewrite (gen_iadd_eq _ a Na).
  destruct (extend_r (new_ta (ta_rooting a) (ta_ign_el a) (ta_ign_ages a) (ta_use_w a)) a) as [t1 [e|]]; [reflexivity|].
  rewrite (gen_iadd_eq _ b Nb).
  destruct (extend_r t1 b) as [t2 [e|]]; reflexivity.
Qed.

(* ------------------------------------------------------------------ add_tree *)

Lemma count_splits_norm sd x : count_splits_on_tree sd (norm_rooting x) = count_splits_on_tree sd x.
Proof.
  unfold count_splits_on_tree, norm_rooting, sd_weight, tr_rooted, tr_splits. cbn.
  destruct (tr_rooting x) as [[|]|]; reflexivity.
Qed.

Lemma weight_eq x uw :
  (if (negb (py_is_none (tr_weight x)) && uw)%bool then py_float (tr_weight x) else UNITW)
  = match tr_weight (norm_rooting x) with Some w' => if uw then w' else UNITW | None => UNITW end.
Proof. unfold norm_rooting. cbn. destruct (tr_weight x); cbn; [destruct uw|]; reflexivity. Qed.

(* everything after `rooting` has been determined *)
Lemma gen_add_tree_tail t x idx (r : option bool) :
  r = tr_rooting (norm_rooting x) ->
  match gen_validate_rooting t r with
  | (self, Some e) => (self, Some e)
  | (self, None) =>
    match count_splits_on_tree (ta_sd self) x with
    | (sd', Some e, _) => (set_ta_sd self sd', Some e)
    | (sd', None, (splits, edge_lengths, node_ages)) =>
      let self := set_ta_sd self sd' in
      let k3 := fun self edge_lengths =>
        let k4 := fun self weight_to_use =>
          if py_is_none idx then
            (set_ta_weights (set_ta_elens (set_ta_leafsets (set_ta_splits self (list_append (ta_splits self) splits))
               (list_append (ta_leafsets self) (tr_leafset x))) (list_append (ta_elens self) edge_lengths))
               (list_append (ta_weights self) weight_to_use), None)
          else
            (set_ta_weights (set_ta_elens (set_ta_leafsets (set_ta_splits self (list_insert (ta_splits self) (oint idx) splits))
               (list_insert (ta_leafsets self) (oint idx) (tr_leafset x))) (list_insert (ta_elens self) (oint idx) edge_lengths))
               (list_insert (ta_weights self) (oint idx) weight_to_use), None) in
        if (negb (py_is_none (tr_weight x)) && ta_use_w self)%bool then k4 self (py_float (tr_weight x)) else k4 self UNITW in
      if ta_ign_el self then k3 self (map (fun _ : Z => None) (py_range (py_len splits)))
      else if Z.eqb (py_len splits) (py_len edge_lengths) then k3 self edge_lengths
           else (self, Some (EPy AssertErr))
    end
  end = add_tree t (norm_rooting x) idx.
Proof.
  intros ->. unfold add_tree. rewrite gen_validate_rooting_eq.
  destruct (validate_rooting t (tr_rooting (norm_rooting x))) as [t1|e]; [|reflexivity].
  rewrite <- (count_splits_norm (ta_sd t1) x).
  unfold count_splits_on_tree.
  destruct (if sd_ign_ages (ta_sd t1) then None else tr_ages_err (norm_rooting x)) as [e|].
  { destruct t1; reflexivity. }
  destruct (count_items _ _ _ _ _ _ _) as [[c e] g].
  cbv zeta beta.
  cbn [set_ta_sd set_sd ta_ign_el ta_use_w ta_splits ta_elens ta_leafsets ta_weights ta_sd ta_rooting ta_ign_ages].
  destruct (ta_ign_el t1) eqn:Eiel.
  - rewrite map_const_range.
    pose proof (weight_eq x (ta_use_w t1)) as Ew.
    destruct ((negb (py_is_none (tr_weight x)) && ta_use_w t1)%bool); rewrite <- Ew;
      destruct idx as [i|]; cbn [py_is_none oint put]; destruct t1; cbn in *; subst; reflexivity.
  - unfold py_len. rewrite zeqb_of_nat.
    replace (length (if sd_ign_el (ta_sd t1) then [] else map (fun it : item => Some (it_elen it)) (tr_items (norm_rooting x))))
      with (length (if sd_ign_el (ta_sd t1) then [] else map it_elen (tr_items (norm_rooting x))))
      by (destruct (sd_ign_el (ta_sd t1)); [reflexivity | rewrite !map_length; reflexivity]).
    destruct (Nat.eqb (length (tr_splits (norm_rooting x))) _) eqn:El.
    + assert (Em : (if sd_ign_el (ta_sd t1) then [] else map (fun it : item => Some (it_elen it)) (tr_items (norm_rooting x)))
                   = map Some (if sd_ign_el (ta_sd t1) then [] else map it_elen (tr_items (norm_rooting x)))).
      { destruct (sd_ign_el (ta_sd t1)); [reflexivity | rewrite map_map; reflexivity]. }
      rewrite Em.
      pose proof (weight_eq x (ta_use_w t1)) as Ew.
      destruct ((negb (py_is_none (tr_weight x)) && ta_use_w t1)%bool); rewrite <- Ew;
        destruct idx as [i|]; cbn [py_is_none oint put]; destruct t1; cbn in *; subst; reflexivity.
    + destruct t1; reflexivity.
Qed.

Lemma gen_add_tree_eq t x upd idx : gen_add_tree t x upd idx = add_tree_r t x idx.
Proof.
  unfold gen_add_tree, add_tree_r, ns_is. cbv zeta beta. cbn [negb].
  destruct (tr_rooting x) as [[|]|] eqn:Er; cbn [py_is_none];
    (etransitivity; [|apply gen_add_tree_tail; unfold norm_rooting; cbn; rewrite Er; reflexivity]); reflexivity.
Qed.

(* ------------------------------------------------------------------ SumTrees: arrays and collation *)

Lemma gen_arrays_eq c :
  gen_worker_array c = new_cfg c /\ gen_serial_array c = new_cfg c /\ gen_master_array c = new_cfg c.
Proof. repeat split; reflexivity. Qed.

Lemma gen_collate_loop_eq : forall results m c,
  Forall (fun r => ta_wf (fst r)) results ->
  gen_collate_loop results m c (c + length results) = collate m results.
Proof.
  induction results as [|[r oe] results IH]; intros m c F; simpl.
  - rewrite Nat.add_0_r, Nat.ltb_irrefl. reflexivity.
  - assert (L : Nat.ltb c (c + S (length results)) = true) by (apply Nat.ltb_lt; lia).
    rewrite L. inversion F as [|? ? F1 F2]; subst. unfold is_exn, exn_of, result_array. cbn [fst snd].
    destruct oe as [e|]; cbn [orb]; [reflexivity|].
    rewrite (gen_update_eq m r F1).
    destruct (update m r) as [m' [e|]]; [reflexivity|].
    replace (c + S (length results))%nat with (S c + length results)%nat by lia.
    apply IH. exact F2.
Qed.

(* the collation of parallel_analyze_trees on the arrival sequence `results` of num_processes results *)
Definition gen_collate (c : cfg) (results : list (tarr * option terr)) : tarr * option terr :=
  gen_collate_loop results (gen_master_array c) 0 (length results).

Lemma gen_collate_eq c results :
  Forall (fun r => ta_wf (fst r)) results -> gen_collate c results = collate (new_cfg c) results.
Proof. intro F. unfold gen_collate. apply (gen_collate_loop_eq results (new_cfg c) 0 F). Qed.

(* ------------------------------------------------------------------ the hand-out protocol of the source *)

Lemma source_protocol : source_uses_marker_protocol = true.
Proof. reflexivity. Qed.

(* ------------------------------------------------------------------ well-formedness is an invariant *)

Lemma count_items_nodup iel iag w its : forall c e g c1 e1 g1,
  count_items iel iag w its c e g = (c1, e1, g1) -> NoDup (keys c) -> NoDup (keys c1).
Proof.
  induction its as [|it its IH]; intros c e g c1 e1 g1 H N; simpl in H.
  - inversion H; subst. exact N.
  - eapply IH; [exact H|]. apply NoDup_keys_dict_add. exact N.
Qed.

Lemma add_tree_wf t x idx : ta_wf t -> ta_wf (fst (add_tree t x idx)).
Proof.
  unfold ta_wf, sd_wf, add_tree. intro N.
  destruct (validate_rooting t (tr_rooting x)) as [t1|e] eqn:V; [|exact N].
  assert (N1 : NoDup (keys (sd_counts (ta_sd t1)))).
  { unfold validate_rooting in V. destruct (ta_rooting t); [destruct (obool_eqb _ _)|]; inversion V; subst; exact N. }
  destruct (if sd_ign_ages (ta_sd t1) then None else tr_ages_err x); [exact N1|].
  destruct (count_items _ _ _ _ _ _ _) as [[c e] g] eqn:CI.
  pose proof (count_items_nodup _ _ _ _ _ _ _ _ _ _ CI N1) as Nc.
  cbn [set_sd ta_ign_el ta_sd].
  destruct (ta_ign_el t1); [exact Nc|].
  destruct (Nat.eqb _ _); exact Nc.
Qed.

Lemma sd_update_wf a b : sd_wf a -> sd_wf (sd_update a b).
Proof. unfold sd_wf, sd_update. cbn. apply NoDup_keys_merge_counts. Qed.

Lemma update_wf a b : ta_wf a -> ta_wf (fst (update a b)).
Proof.
  unfold ta_wf, update. intro N.
  destruct (is_nil (ta_splits b)); [exact N|].
  destruct (negb (is_nil (ta_splits a))).
  - repeat (match goal with |- context [if ?c then _ else _] => destruct c end; try exact N).
    apply sd_update_wf. exact N.
  - apply sd_update_wf. exact N.
Qed.

Lemma extend_wf a b : ta_wf a -> ta_wf (fst (extend a b)).
Proof.
  unfold ta_wf, extend. intro N.
  repeat (match goal with |- context [if ?c then _ else _] => destruct c end; try exact N).
  apply sd_update_wf. exact N.
Qed.

Lemma extend_r_wf a b : ta_wf a -> ta_wf (fst (extend_r a b)).
Proof.
  unfold extend_r. intro N. destruct (is_nil (ta_splits b)); [exact N|].
  apply extend_wf. destruct (is_nil (ta_splits a) && is_none (ta_rooting a))%bool; exact N.
Qed.

Lemma plus_r_wf a b t : fst (plus_r a b) = Some t -> ta_wf t.
Proof.
  unfold plus_r.
  pose proof (extend_r_wf (new_ta (ta_rooting a) (ta_ign_el a) (ta_ign_ages a) (ta_use_w a)) a) as H1.
  destruct (extend_r (new_ta _ _ _ _) a) as [t1 [e|]]; cbn [fst] in *; [discriminate|].
  pose proof (extend_r_wf t1 b) as H2.
  destruct (extend_r t1 b) as [t2 [e|]]; cbn [fst] in *; [discriminate|].
  intro E; inversion E; subst. apply H2, H1. constructor.
Qed.

(* ------------------------------------------------------------------ whole histories *)

(* the operation histories of C06Model, executed by the GENERATED functions *)
Definition gen_step (w : list tarr) (o : op) : list tarr * option terr :=
  match o with
  | OAdd i x index =>
    match nth_error w i with
    | Some t => let '(t', e) := gen_add_tree t x false index in (set_nth i t' w, e)
    | None => (w, bad_slot)
    end
  | OUpdate i j =>
    match nth_error w i, nth_error w j with
    | Some a, Some b => let '(t', e) := gen_update a b in (set_nth i t' w, e)
    | _, _ => (w, bad_slot)
    end
  | OExtend i j =>
    match nth_error w i, nth_error w j with
    | Some a, Some b => let '(t', e) := gen_extend a b in (set_nth i t' w, e)
    | _, _ => (w, bad_slot)
    end
  | OIAdd i j =>
    match nth_error w i, nth_error w j with
    | Some a, Some b => let '(t', e) := gen_iadd a b in (set_nth i t' w, e)
    | _, _ => (w, bad_slot)
    end
  | OPlus k i j =>
    match nth_error w i, nth_error w j with
    | Some a, Some b =>
      match gen_add a b with
      | (Some t', e) => (set_nth k t' w, e)
      | (None, e) => (w, e)
      end
    | _, _ => (w, bad_slot)
    end
  end.

Lemma gen_step_eq w o : Forall ta_wf w -> gen_step w o = step_v true true w o.
Proof.
  intro F. destruct o as [i x idx | i j | i j | i j | k i j]; cbn [gen_step step_v step].
  - destruct (nth_error w i); [|reflexivity]. rewrite gen_add_tree_eq. reflexivity.
  - destruct (nth_error w i) as [a|]; [|reflexivity].
    destruct (nth_error w j) as [b|] eqn:Eb; [|reflexivity].
    rewrite (gen_update_eq a b (Forall_nth_error _ _ _ _ F Eb)). reflexivity.
  - destruct (nth_error w i) as [a|]; [|reflexivity].
    destruct (nth_error w j) as [b|] eqn:Eb; [|reflexivity].
    rewrite (gen_extend_eq a b (Forall_nth_error _ _ _ _ F Eb)). reflexivity.
  - destruct (nth_error w i) as [a|]; [|reflexivity].
    destruct (nth_error w j) as [b|] eqn:Eb; [|reflexivity].
    rewrite (gen_iadd_eq a b (Forall_nth_error _ _ _ _ F Eb)). reflexivity.
  - destruct (nth_error w i) as [a|] eqn:Ea; [|reflexivity].
    destruct (nth_error w j) as [b|] eqn:Eb; [|reflexivity].
    rewrite (gen_add_eq a b (Forall_nth_error _ _ _ _ F Ea) (Forall_nth_error _ _ _ _ F Eb)). reflexivity.
Qed.

Lemma step_v_wf w o : Forall ta_wf w -> Forall ta_wf (fst (step_v true true w o)).
Proof.
  intro F. destruct o as [i x idx | i j | i j | i j | k i j]; cbn [step_v step].
  - destruct (nth_error w i) as [t|] eqn:E; [|exact F].
    pose proof (add_tree_wf t (norm_rooting x) idx (Forall_nth_error _ _ _ _ F E)) as H.
    unfold add_tree_r. destruct (add_tree t (norm_rooting x) idx) as [t' e]. apply Forall_set_nth; assumption.
  - destruct (nth_error w i) as [a|] eqn:Ea; [|exact F].
    destruct (nth_error w j) as [b|] eqn:Eb; [|exact F].
    pose proof (update_wf a b (Forall_nth_error _ _ _ _ F Ea)) as H.
    destruct (update a b) as [t' e]. apply Forall_set_nth; assumption.
  - destruct (nth_error w i) as [a|] eqn:Ea; [|exact F].
    destruct (nth_error w j) as [b|] eqn:Eb; [|exact F].
    pose proof (extend_r_wf a b (Forall_nth_error _ _ _ _ F Ea)) as H.
    destruct (extend_r a b) as [t' e]. apply Forall_set_nth; assumption.
  - destruct (nth_error w i) as [a|] eqn:Ea; [|exact F].
    destruct (nth_error w j) as [b|] eqn:Eb; [|exact F].
    pose proof (extend_r_wf a b (Forall_nth_error _ _ _ _ F Ea)) as H.
    destruct (extend_r a b) as [t' e]. apply Forall_set_nth; assumption.
  - destruct (nth_error w i) as [a|] eqn:Ea; [|exact F].
    destruct (nth_error w j) as [b|] eqn:Eb; [|exact F].
    pose proof (plus_r_wf a b) as H.
    destruct (plus_r a b) as [[t'|] e]; cbn [fst] in *; [|exact F].
    apply Forall_set_nth; [exact F | apply H; reflexivity].
Qed.

Lemma new_world_wf cfgs : Forall ta_wf (map new_cfg cfgs).
Proof. induction cfgs; simpl; constructor; [constructor | assumption]. Qed.

(* running a history with the generated functions = running it with the hand model (repaired forms),
   step by step: same arrays, same exceptions *)
Lemma gen_history_eq : forall (cfgs : list cfg) (ops : list op),
  let run_with (stp : list tarr -> op -> list tarr * option terr) :=
      fix go (w : list tarr) (ops : list op) : list (option terr) * list tarr :=
        match ops with
        | [] => ([], w)
        | o :: r => let '(w', e) := stp w o in let '(es, wf) := go w' r in (e :: es, wf)
        end in
  run_with gen_step (map new_cfg cfgs) ops = run_with (step_v true true) (map new_cfg cfgs) ops.
Proof.
  intros cfgs ops. cbv zeta.
  generalize (new_world_wf cfgs). generalize (map new_cfg cfgs) as w.
  induction ops as [|o ops IH]; intros w F; [reflexivity|].
  cbn. rewrite (gen_step_eq w o F).
  pose proof (step_v_wf w o F) as F'.
  destruct (step_v true true w o) as [w' e]. cbn [fst] in F'.
  rewrite (IH w' F'). reflexivity.
Qed.
