(* C11: list / store lemmas used by the invariant proofs *)
From Coq Require Import List Bool Arith ZArith Lia.
From DV Require Import Model.PyPrims Model.C11Model.
Import ListNotations.
Open Scope nat_scope.

Lemma memb_In : forall x l, memb x l = true <-> In x l.
Proof.
  intros x l. unfold memb. rewrite existsb_exists. split.
  - intros [y [Hy E]]. apply Nat.eqb_eq in E. subst. exact Hy.
  - intro H. exists x. split; [exact H | apply Nat.eqb_refl].
Qed.

Lemma memb_false : forall x l, memb x l = false <-> ~ In x l.
Proof.
  intros x l. split.
  - intros E H. apply memb_In in H. congruence.
  - intro H. destruct (memb x l) eqn:E; [|reflexivity]. apply memb_In in E. contradiction.
Qed.

Lemma alookup_cons : forall V k k' (v : V) l,
  alookup k ((k', v) :: l) = if Nat.eqb k k' then Some v else alookup k l.
Proof. reflexivity. Qed.

Lemma upd_length : forall A (l : list A) i x, length (upd l i x) = length l.
Proof.
  intros A l. induction l as [|y r IH]; intros [|i] x; simpl; try reflexivity. rewrite IH. reflexivity.
Qed.

Lemma nth_error_upd : forall A (l : list A) i x j,
  nth_error (upd l i x) j =
  if Nat.eqb j i then match nth_error l i with Some _ => Some x | None => None end
  else nth_error l j.
Proof.
  intros A l. induction l as [|y r IH]; intros i x j.
  - destruct i, j; simpl; try reflexivity; destruct (Nat.eqb _ _); reflexivity.
  - destruct i as [|i], j as [|j]; simpl; try reflexivity. apply IH.
Qed.

Lemma nth_error_upd_same : forall A (l : list A) i x y,
  nth_error l i = Some y -> nth_error (upd l i x) i = Some x.
Proof. intros. rewrite nth_error_upd, Nat.eqb_refl, H. reflexivity. Qed.

Lemma nth_error_upd_other : forall A (l : list A) i x j, j <> i -> nth_error (upd l i x) j = nth_error l j.
Proof. intros. rewrite nth_error_upd. apply Nat.eqb_neq in H. rewrite H. reflexivity. Qed.

(* what an entry of an updated store can be *)
Lemma nth_error_upd_inv : forall A (l : list A) i x j y,
  nth_error (upd l i x) j = Some y -> (j = i /\ y = x) \/ (j <> i /\ nth_error l j = Some y).
Proof.
  intros A l i x j y H. rewrite nth_error_upd in H. destruct (Nat.eqb j i) eqn:E.
  - apply Nat.eqb_eq in E. left. destruct (nth_error l i); inversion H. auto.
  - apply Nat.eqb_neq in E. right. auto.
Qed.

Lemma nth_error_app_inv : forall A (l : list A) x j y,
  nth_error (l ++ [x]) j = Some y -> (j = length l /\ y = x) \/ (j < length l /\ nth_error l j = Some y).
Proof.
  intros A l x j y H. destruct (Nat.lt_ge_cases j (length l)) as [L|L].
  - rewrite nth_error_app1 in H by exact L. auto.
  - rewrite nth_error_app2 in H by exact L. destruct (j - length l) as [|k] eqn:E.
    + simpl in H. inversion H. left. split; [lia | reflexivity].
    + simpl in H. destruct k; discriminate.
Qed.

Lemma nth_error_app_old : forall A (l : list A) x j y,
  nth_error l j = Some y -> nth_error (l ++ [x]) j = Some y.
Proof.
  intros. rewrite nth_error_app1; [exact H|]. apply nth_error_Some. congruence.
Qed.

Lemma nth_error_app_new : forall A (l : list A) x, nth_error (l ++ [x]) (length l) = Some x.
Proof. intros. rewrite nth_error_app2 by lia. rewrite Nat.sub_diag. reflexivity. Qed.

Lemma nth_nth_error : forall A (l : list A) i d, i < length l -> nth_error l i = Some (nth i l d).
Proof. intros. apply nth_error_nth'. exact H. Qed.

Lemma ltb_lt' : forall i n, Nat.ltb i n = true -> i < n.
Proof. intros. apply Nat.ltb_lt. exact H. Qed.

Lemma nth_error_some_nth : forall A (l : list A) i d x, nth_error l i = Some x -> nth i l d = x.
Proof. intros. apply nth_error_nth. exact H. Qed.

Lemma In_firstn : forall A (l : list A) n x, In x (firstn n l) -> In x l.
Proof.
  intros A l. induction l as [|y r IH]; intros [|n] x H; simpl in *; try contradiction.
  destruct H as [H|H]; [left; exact H | right; eapply IH; exact H].
Qed.

Lemma In_skipn : forall A (l : list A) n x, In x (skipn n l) -> In x l.
Proof.
  intros A l. induction l as [|y r IH]; intros [|n] x H; simpl in *; try contradiction; try exact H.
  right. eapply IH. exact H.
Qed.

Lemma In_upd : forall A (l : list A) i x y, In y (upd l i x) -> y = x \/ In y l.
Proof.
  intros A l. induction l as [|z r IH]; intros [|i] x y H; simpl in *; try contradiction.
  - destruct H as [H|H]; [left; auto | right; right; exact H].
  - destruct H as [H|H]; [right; left; exact H|]. destruct (IH _ _ _ H); auto.
Qed.

Lemma In_remove_nth : forall A (l : list A) i x, In x (remove_nth l i) -> In x l.
Proof.
  intros A l. induction l as [|y r IH]; intros [|i] x H; simpl in *; try contradiction.
  - right. exact H.
  - destruct H as [H|H]; [left; exact H | right; eapply IH; exact H].
Qed.

Lemma remove_first_In : forall x l r y, remove_first x l = Some r -> In y r -> In y l.
Proof.
  intros x l. induction l as [|z t IH]; intros r y H Hy; simpl in H; [discriminate|].
  destruct (Nat.eqb x z).
  - inversion H. subst. right. exact Hy.
  - destruct (remove_first x t) as [r'|] eqn:E; [|discriminate]. inversion H. subst.
    destruct Hy as [Hy|Hy]; [left; exact Hy | right; eapply IH; [reflexivity | exact Hy]].
Qed.

Lemma In_remove_id : forall x l y, In y (remove_id x l) -> In y l /\ y <> x.
Proof.
  intros x l. induction l as [|z t IH]; intros y H; simpl in H; [contradiction|].
  destruct (Nat.eqb x z) eqn:E.
  - destruct (IH _ H). split; [right; assumption | assumption].
  - apply Nat.eqb_neq in E. destruct H as [H|H].
    + subst. split; [left; reflexivity | congruence].
    + destruct (IH _ H). split; [right; assumption | assumption].
Qed.

Lemma In_add_uniq : forall x l y, In y (add_uniq x l) -> y = x \/ In y l.
Proof.
  intros x l y H. unfold add_uniq in H. destruct (memb x l); [right; exact H|].
  apply in_app_or in H. destruct H as [H|[H|[]]]; auto.
Qed.

Lemma In_slice_get : forall A (l : list A) lo hi x, In x (slice_get l lo hi) -> In x l.
Proof. intros. unfold slice_get in H. apply In_firstn in H. apply In_skipn in H. exact H. Qed.

Lemma In_slice_set : forall A (l : list A) lo hi v x, In x (slice_set l lo hi v) -> In x l \/ In x v.
Proof.
  intros. unfold slice_set in H. apply in_app_or in H. destruct H as [H|H].
  - left. eapply In_firstn. exact H.
  - apply in_app_or in H. destruct H as [H|H]; [right; exact H | left; eapply In_skipn; exact H].
Qed.

Lemma In_insert_at : forall A (l : list A) i x y, In y (insert_at l i x) -> y = x \/ In y l.
Proof.
  intros. unfold insert_at in H. apply in_app_or in H. destruct H as [H|[H|H]].
  - right. eapply In_firstn. exact H.
  - left. auto.
  - right. eapply In_skipn. exact H.
Qed.

(* indexed lists *)
Lemma In_indexed_gen : forall A (l : list A) k i x, In (i, x) (combine (seq k (length l)) l) <-> (k <= i /\ nth_error l (i - k) = Some x).
Proof.
  intros A l. induction l as [|y r IH]; intros k i x; simpl.
  - split; [contradiction|]. intros [_ H]. destruct (i - k); discriminate.
  - split.
    + intros [H|H].
      * inversion H. subst. split; [lia|]. rewrite Nat.sub_diag. reflexivity.
      * apply IH in H. destruct H as [L H]. split; [lia|].
        replace (i - k) with (S (i - S k)) by lia. exact H.
    + intros [L H]. destruct (i - k) as [|j] eqn:E.
      * left. simpl in H. inversion H. f_equal. lia.
      * right. apply IH. split; [lia|]. simpl in H. replace (i - S k) with j by lia. exact H.
Qed.

Lemma In_indexed : forall A (l : list A) i x, In (i, x) (indexed l) <-> nth_error l i = Some x.
Proof.
  intros. unfold indexed. rewrite In_indexed_gen. rewrite Nat.sub_0_r. split; [intros [_ H]; exact H | intro H; split; [lia | exact H]].
Qed.

Lemma forallb_In : forall A (f : A -> bool) l x, forallb f l = true -> In x l -> f x = true.
Proof. intros. rewrite forallb_forall in H. apply H. exact H0. Qed.

Lemma nth_error_In' : forall A (l : list A) i x, nth_error l i = Some x -> In x l.
Proof. intros. eapply nth_error_In. exact H. Qed.

(* ---- the state's setters leave the other components alone ---- *)
Lemma members_set_members : forall st n ms n',
  members (set_members st n ms) n' = if Nat.eqb n' n then ms else members st n'.
Proof. intros. unfold members, set_members. simpl. destruct (Nat.eqb n' n); reflexivity. Qed.

Lemma members_set_members_same : forall st n ms, members (set_members st n ms) n = ms.
Proof. intros. rewrite members_set_members, Nat.eqb_refl. reflexivity. Qed.

Lemma members_set_members_other : forall st n ms n', n' <> n -> members (set_members st n ms) n' = members st n'.
Proof. intros. rewrite members_set_members. apply Nat.eqb_neq in H. rewrite H. reflexivity. Qed.
