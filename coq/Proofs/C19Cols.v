(* C19: sequences and columns: padding (fill/pack), column selection (export) *)
From Coq Require Import ZArith List Bool Lia.
From DV Require Import Model.PyPrims Model.C19Model Proofs.C19Alist Proofs.C19Rows.
Import ListNotations.
Open Scope Z_scope.

Lemma zlen_app {A} (a b : list A) : zlen (a ++ b) = zlen a + zlen b.
Proof. unfold zlen. rewrite app_length. lia. Qed.

Lemma zlen_repeat {A} (v : A) n : zlen (repeat v n) = Z.of_nat n.
Proof. unfold zlen. rewrite repeat_length. reflexivity. Qed.

Lemma zlen_nonneg {A} (l : list A) : 0 <= zlen l.
Proof. unfold zlen. lia. Qed.

Lemma zlen_cons {A} (x : A) l : zlen (x :: l) = zlen l + 1.
Proof. unfold zlen. simpl length. lia. Qed.

(* ---- padding ---- *)
Lemma pad_len v size app r : zlen (pad v size app r) = Z.max size (zlen r).
Proof.
  unfold pad. pose proof (zlen_nonneg r).
  destruct app; rewrite zlen_app, zlen_repeat; lia.
Qed.

Lemma pad_noop v size app r : size <= zlen r -> pad v size app r = r.
Proof.
  intros H. unfold pad. replace (Z.to_nat (size - zlen r)) with O by lia. simpl.
  destruct app; [apply app_nil_r | reflexivity].
Qed.

(* ---- iteration in namespace order ---- *)
Lemma items_In T rs t r : In (t, r) (items T rs) <-> In t T /\ aget t rs = Some r.
Proof.
  induction T as [|x T IH]; simpl.
  - split; [intros [] | intros [[] _]].
  - destruct (aget x rs) as [rx|] eqn:G; simpl; rewrite IH; split.
    + intros [H|H]; [inversion H; subst; split; [left; reflexivity | exact G] | split; [right|]; tauto].
    + intros [[H|H] H2]; [subst; left; congruence | right; tauto].
    + intros [H1 H2]. split; [right|]; assumption.
    + intros [[H|H] H2]; [subst; congruence | tauto].
Qed.

Lemma keys_items T rs : keys (items T rs) = filter (fun t => ahas t rs) T.
Proof.
  unfold ahas. induction T as [|x T IH]; simpl; [reflexivity|].
  destruct (aget x rs); simpl; rewrite IH; reflexivity.
Qed.

Definition mstep (mx : Z) (p : tid * row) : Z := if Z.gtb (zlen (snd p)) mx then zlen (snd p) else mx.

Lemma mstep_props mx p : mx <= mstep mx p /\ zlen (snd p) <= mstep mx p /\ (mstep mx p = mx \/ mstep mx p = zlen (snd p)).
Proof. unfold mstep. destruct (Z.gtb_spec (zlen (snd p)) mx); lia. Qed.

Lemma max_sequence_size_fold T rs : max_sequence_size T rs = fold_left mstep (items T rs) 0.
Proof. reflexivity. Qed.

Lemma fold_max_ge (l : list (tid * row)) : forall a,
  a <= fold_left mstep l a /\ (forall p, In p l -> zlen (snd p) <= fold_left mstep l a).
Proof.
  induction l as [|q l IH]; intros a; simpl.
  - split; [lia | intros p []].
  - destruct (IH (mstep a q)) as [H1 H2]. destruct (mstep_props a q) as [P1 [P2 _]].
    split; [lia|]. intros p [E|Hp]; [subst; lia | apply H2; exact Hp].
Qed.

Lemma fold_max_attained (l : list (tid * row)) : forall a,
  fold_left mstep l a = a \/ exists p, In p l /\ zlen (snd p) = fold_left mstep l a.
Proof.
  induction l as [|q l IH]; intros a; simpl; [left; reflexivity|].
  destruct (mstep_props a q) as [_ [_ P3]].
  destruct (IH (mstep a q)) as [H|[p [Hp E]]].
  - destruct P3 as [P3|P3].
    + left. rewrite H. exact P3.
    + right. exists q. split; [left; reflexivity|]. rewrite H. symmetry. exact P3.
  - right. exists p. split; [right; exact Hp | exact E].
Qed.

Lemma max_sequence_size_ge T rs t r : In t T -> aget t rs = Some r -> zlen r <= max_sequence_size T rs.
Proof.
  intros HT G. rewrite max_sequence_size_fold.
  destruct (fold_max_ge (items T rs) 0) as [_ H]. apply (H (t, r)). apply items_In. split; assumption.
Qed.

Lemma max_sequence_size_attained T rs :
  max_sequence_size T rs = 0 \/ exists t r, In t T /\ aget t rs = Some r /\ zlen r = max_sequence_size T rs.
Proof.
  rewrite max_sequence_size_fold. destruct (fold_max_attained (items T rs) 0) as [H|[[t r] [Hp E]]].
  - left. exact H.
  - right. exists t, r. apply items_In in Hp. tauto.
Qed.

(* ---- fill ---- *)
Lemma fill_rows_get T v s app rs t :
  aget t (fill_rows T v s app rs) =
  match aget t rs with
  | Some r => Some (if memb t T then pad v s app r else r)
  | None => None
  end.
Proof.
  unfold fill_rows. induction rs as [|[k r] rs IH]; simpl; [reflexivity|].
  destruct (Z.eqb_spec t k); [subst; reflexivity | exact IH].
Qed.

Lemma fill_rows_keys T v s app rs : keys (fill_rows T v s app rs) = keys rs.
Proof. unfold fill_rows, keys. rewrite map_map. reflexivity. Qed.

(* ---- export: exactly the selected columns, ascending ---- *)
Lemma zrange_cons a n : zrange a (Z.of_nat (S n)) = a :: zrange (a + 1) (Z.of_nat n).
Proof.
  unfold zrange. rewrite !Nat2Z.id. simpl. f_equal; [lia|].
  rewrite <- seq_shift, map_map. apply map_ext. intros i. lia.
Qed.

Lemma zrange_In a n x : In x (zrange a n) <-> a <= x < a + n.
Proof.
  unfold zrange. rewrite in_map_iff. split.
  - intros [i [E H]]. apply in_seq in H. lia.
  - intros H. exists (Z.to_nat (x - a)). split; [lia | apply in_seq; lia].
Qed.

Lemma zrange_length a n : length (zrange a n) = Z.to_nat n.
Proof. unfold zrange. rewrite map_length, seq_length. reflexivity. Qed.

Lemma select_from_spec idx (d : cell) : forall r i,
  select_from idx i r =
  map (fun j => nth (Z.to_nat (j - i)) r d) (filter (fun j => memb j idx) (zrange i (zlen r))).
Proof.
  induction r as [|c r IH]; intros i; [reflexivity|].
  unfold zlen. simpl length. rewrite zrange_cons. simpl.
  assert (T : map (fun j => nth (Z.to_nat (j - i)) (c :: r) d) (filter (fun j => memb j idx) (zrange (i + 1) (Z.of_nat (length r))))
              = select_from idx (i + 1) r).
  { rewrite IH. apply map_ext_in. intros j Hj. apply filter_In in Hj. destruct Hj as [Hj _].
    apply zrange_In in Hj. replace (Z.to_nat (j - i)) with (S (Z.to_nat (j - (i + 1)))) by lia. reflexivity. }
  destruct (memb i idx); simpl.
  - rewrite Z.sub_diag. simpl. f_equal. symmetry. exact T.
  - symmetry. exact T.
Qed.

Lemma export_rows_get T idx rs t :
  aget t (export_rows T idx rs) =
  match aget t rs with
  | Some r => Some (if memb t T then select_from idx 0 r else r)
  | None => None
  end.
Proof.
  unfold export_rows. induction rs as [|[k r] rs IH]; simpl; [reflexivity|].
  destruct (Z.eqb_spec t k); [subst; reflexivity | exact IH].
Qed.

Lemma export_rows_keys T idx rs : keys (export_rows T idx rs) = keys rs.
Proof. unfold export_rows, keys. rewrite map_map. reflexivity. Qed.

