(* C19 translator tie, part 2: remove / discard / keep, fill_taxa, fill, pack *)
From Coq Require Import ZArith List Bool Lia.
From DV Require Import Model.PyPrims Model.C19Model Model.C19Prims Gen.CharMatrix.
From DV Require Import Proofs.C19Alist Proofs.C19Rows Proofs.C19Cols Proofs.C19GenRows.
Import ListNotations.
Open Scope Z_scope.

Lemma blk_eta {St} (x : St * res unit) :
  match x with
  | (s, Ok _) => (s, Ok tt)
  | (s, Err e) => (s, Err e)
  | (s, OutOfFuel) => (s, OutOfFuel)
  end = x.
Proof. destruct x as [s [[]|e|]]; reflexivity. Qed.

Section G.
Variable taxa_of : nsid -> list tid.

Definition status_of (e : option err) : res unit := match e with None => Ok tt | Some x => Err x end.

Lemma gen_remove_sequences_eq : forall (taxa : list tid) (self : matrix),
  gen_remove_sequences self taxa
  = (set_rows self (fst (remove_rows (m_rows self) taxa)), status_of (snd (remove_rows (m_rows self) taxa))).
Proof.
  intros taxa self. unfold gen_remove_sequences. rewrite blk_eta. revert self.
  induction taxa as [|t ts IH]; intros self; simpl; [rewrite set_rows_id; reflexivity|].
  unfold py_dict_del. destruct (ahas t (m_rows self)); [|rewrite set_rows_id; reflexivity].
  rewrite IH. reflexivity.
Qed.

Lemma gen_discard_sequences_eq : forall (taxa : list tid) (self : matrix),
  gen_discard_sequences self taxa = (set_rows self (discard_rows (m_rows self) taxa), Ok tt).
Proof.
  intros taxa self. unfold gen_discard_sequences. rewrite blk_eta. unfold discard_rows. revert self.
  induction taxa as [|t ts IH]; intros self; simpl; [rewrite set_rows_id; reflexivity|].
  unfold py_dict_del. destruct (ahas t (m_rows self)); simpl; rewrite IH; reflexivity.
Qed.

(* keep: the keys are snapshotted (tuple(...keys())), then the unwanted ones deleted one by one *)
Lemma adel_app_r {V} k (a b : list (Z * V)) : ~ In k (keys a) -> adel k (a ++ b) = a ++ adel k b.
Proof.
  induction a as [|[k' v'] a IH]; simpl; intros H; [reflexivity|].
  destruct (Z.eqb_spec k k'); [exfalso; apply H; left; symmetry; assumption|].
  rewrite IH; [reflexivity|]. intro X. apply H. right. exact X.
Qed.

Lemma ahas_app {V} k (a b : list (Z * V)) : ahas k (a ++ b) = ahas k a || ahas k b.
Proof.
  unfold ahas. induction a as [|[k' v'] a IH]; simpl; [reflexivity|].
  destruct (Z.eqb k k'); [reflexivity | exact IH].
Qed.

Lemma keep_loop (ts : list tid) : forall (q p : rows) (self : matrix),
  NoDup (keys (p ++ q)) -> m_rows self = keep_rows p ts ++ q ->
  for_each (map fst q)
    (fun taxon self =>
       if negb (py_set_contains taxon (py_set ts))
       then match py_dict_del taxon (m_rows self) with
            | Ok d_1 => let self := set_rows self d_1 in (self, Ok tt)
            | Err e_ => (self, Err e_)
            | OutOfFuel => (self, OutOfFuel)
            end
       else (self, Ok tt)) self
  = (set_rows self (keep_rows (p ++ q) ts), Ok tt).
Proof.
  induction q as [|[k v] q IH]; intros p self ND E.
  - simpl. rewrite app_nil_r in *. rewrite <- E, set_rows_id. reflexivity.
  - assert (NK : ~ In k (keys (keep_rows p ts))).
    { unfold keep_rows. rewrite (keys_filter_key (fun x => memb x ts)). intro X. apply filter_In in X. destruct X as [X _].
      unfold keys in ND. rewrite map_app in ND. simpl in ND. apply NoDup_remove_2 in ND. apply ND. apply in_app_iff. left. exact X. }
    assert (ND' : NoDup (keys ((p ++ [(k, v)]) ++ q))) by (rewrite <- app_assoc; exact ND).
    replace (p ++ (k, v) :: q) with ((p ++ [(k, v)]) ++ q) by (rewrite <- app_assoc; reflexivity).
    cbn [map fst for_each].
    change (py_set_contains k (py_set ts)) with (memb k ts).
    destruct (memb k ts) eqn:M; cbn [negb].
    + apply IH; [exact ND'|]. rewrite E. unfold keep_rows. rewrite filter_app. simpl. rewrite M.
      rewrite <- app_assoc. reflexivity.
    + assert (Hk : ahas k (m_rows self) = true).
      { rewrite E. apply ahas_In. unfold keys. rewrite map_app. apply in_app_iff. right. left. reflexivity. }
      unfold py_dict_del at 1. rewrite Hk. cbv zeta iota beta.
      refine (eq_trans (IH (p ++ [(k, v)]) (set_rows self (adel k (m_rows self))) ND' _) _).
      * simpl. rewrite E. rewrite adel_app_r by exact NK. cbn [adel]. rewrite Z.eqb_refl.
        unfold keep_rows. rewrite filter_app. simpl. rewrite M. rewrite app_nil_r. reflexivity.
      * reflexivity.
Qed.

Lemma gen_keep_sequences_eq (self : matrix) (taxa : list tid) :
  NoDup (keys (m_rows self)) ->
  gen_keep_sequences self taxa = (set_rows self (keep_rows (m_rows self) taxa), Ok tt).
Proof.
  intros ND. unfold gen_keep_sequences. cbv zeta. rewrite blk_eta. unfold py_dict_keys.
  apply (keep_loop taxa (m_rows self) [] self ND). reflexivity.
Qed.

(* fill_taxa *)
Lemma fill_taxa_rows_cons t l (rs : rows) :
  fill_taxa_rows (t :: l) rs = fill_taxa_rows l (if ahas t rs then rs else aput t py_seq_empty rs).
Proof. reflexivity. Qed.

Lemma fill_taxa_loop (T : list tid) (ns : nsid) : taxa_of ns = T -> forall (l : list tid) (self : matrix),
  incl l T -> m_ns self = ns ->
  for_each l
    (fun taxon self =>
       if negb (mat_contains taxon self)
       then match setitem (taxa_of (m_ns self)) self (KTax taxon) py_seq_empty with
            | Ok self => (self, Ok tt)
            | Err e_ => (self, Err e_)
            | OutOfFuel => (self, OutOfFuel)
            end
       else (self, Ok tt)) self
  = (set_rows self (fill_taxa_rows l (m_rows self)), Ok tt).
Proof.
  intros ET. induction l as [|t l IH]; intros self Inc Ens; [simpl; rewrite set_rows_id; reflexivity|].
  assert (Inc' : incl l T) by (intros x Hx; apply Inc; right; exact Hx).
  cbn [for_each]. unfold mat_contains at 1. rewrite fill_taxa_rows_cons.
  destruct (ahas t (m_rows self)) eqn:H; cbn [negb].
  - apply (IH self Inc' Ens).
  - unfold setitem at 1. cbn [resolve_key]. rewrite Ens, ET.
    replace (memb t T) with true by (symmetry; apply memb_In; apply Inc; left; reflexivity). cbn [negb].
    refine (eq_trans (IH (set_rows self (aput t py_seq_empty (m_rows self))) Inc' Ens) _). reflexivity.
Qed.

Lemma gen_fill_taxa_eq (self : matrix) :
  gen_fill_taxa taxa_of self = (fill_taxa (taxa_of (m_ns self)) self, Ok tt).
Proof.
  unfold gen_fill_taxa. rewrite blk_eta. unfold fill_taxa.
  apply (fill_taxa_loop (taxa_of (m_ns self)) (m_ns self) eq_refl); [apply incl_refl | reflexivity].
Qed.

End G.
