(* C14, wave 9: every table of every object of every reachable multi-object world is well formed
   (no repeated key in the outer dict, none in any row), hence clone returns the value of the original
   UNCONDITIONALLY (Proofs/C14ObjProofs.v clone_has_value_of_original_top assumed it of the original).

     mirror_tbl_wf / mirror_wf3      _mirror_lookups keeps tables well formed whenever it returns
     compile_from_tree_wf3           the result of compile_from_tree has three well-formed tables
     compile_from_dict_wf3           the same for compile_from_dict, whatever `distances` dict is given
     tbls_wf w                       forall j p, abs w j = Ok p -> wf3 p
     run_mops_wf / reachable_wf      tbls_wf holds in every reachable world
     clone_value_unconditional       the clone theorem without the NoDup hypotheses *)
From Coq Require Import ZArith List Bool Lia.
From DV Require Import Model.PyPrims Model.Tree Model.C14Model Model.C14Hist.
From DV Require Import Proofs.C14Dict Proofs.C14Pdm.
From DV Require Import Model.C14ObjPrims Model.C14ObjModel Proofs.C14ObjProofs.
Import ListNotations.
Open Scope Z_scope.

(* ---- folds over res ---- *)
Lemma fold_res_inv {A B} (P : A -> Prop) (f : res A -> B -> res A) :
  (forall r b a', f r b = Ok a' -> exists a, r = Ok a) ->
  (forall a b a', P a -> f (Ok a) b = Ok a' -> P a') ->
  forall l r a', (forall a, r = Ok a -> P a) -> fold_left f l r = Ok a' -> P a'.
Proof.
  intros S St. induction l as [|b l IH]; intros r a' Hr H; simpl in H.
  - apply Hr. exact H.
  - apply (IH (f r b) a'); [|exact H]. intros a E. destruct (S r b a E) as [a0 E0]. subst r.
    eapply St; [apply Hr; reflexivity | exact E].
Qed.

(* ---- _mirror_lookups ---- *)
Lemma mirror_row_wf {V} t1 (row : dict V) (T T' : tbl V) : wf_tbl T -> mirror_row t1 row T = Ok T' -> wf_tbl T'.
Proof.
  intros W H. unfold mirror_row in H.
  refine (fold_res_inv (fun X : tbl V => wf_tbl X) _ _ _ row (Ok T) T' _ H).
  - intros r b a' E. destruct r; cbn [bind] in E; try discriminate. eauto.
  - intros a b a' Wa E. cbn [bind] in E. destruct (dmem (fst b) a); [|discriminate]. eapply tset2_wf; eauto.
  - intros a E. inversion E. subst. exact W.
Qed.

Lemma mirror_tbl_wf {V} (T T' : tbl V) : wf_tbl T -> mirror_tbl T = Ok T' -> wf_tbl T'.
Proof.
  intros W H. unfold mirror_tbl in H.
  refine (fold_res_inv (fun X : tbl V => wf_tbl X) _ _ _ (dkeys T) (Ok T) T' _ H).
  - intros r b a' E. destruct r; cbn [bind] in E; try discriminate. eauto.
  - intros a b a' Wa E. cbn [bind] in E. destruct (dget b a) as [row|]; [|discriminate].
    eapply mirror_row_wf; eauto.
  - intros a E. inversion E. subst. exact W.
Qed.

Lemma mirror_wf3 s s' : wf3 s -> mirror s = Ok s' -> wf3 s'.
Proof.
  intros [W1 [W2 W3]] H. unfold mirror in H.
  destruct (mirror_tbl (p_dist s)) as [d| |] eqn:E1; try discriminate. cbn [bind] in H.
  destruct (mirror_tbl (p_steps s)) as [st| |] eqn:E2; try discriminate. cbn [bind] in H.
  destruct (mirror_tbl (p_mrca s)) as [m| |] eqn:E3; try discriminate. cbn [bind] in H.
  inversion H. subst s'. unfold wf3. cbn [p_dist p_steps p_mrca].
  split; [exact (mirror_tbl_wf _ _ W1 E1)|]. split; [exact (mirror_tbl_wf _ _ W2 E2) | exact (mirror_tbl_wf _ _ W3 E3)].
Qed.

Lemma wf3_empty : wf3 pdm_empty.
Proof. unfold wf3, wf_tbl. simpl. repeat split; try constructor; intros; discriminate. Qed.

(* ---- compile_from_tree ---- *)
Lemma compile_from_tree_wf3 t p : compile_from_tree t = Ok p -> wf3 p.
Proof.
  unfold compile_from_tree. rewrite comp_correct. unfold comp_spec.
  destruct (run_ops (all_ops t) pdm_empty) as [s| |] eqn:E; cbn [rmap bind]; try discriminate.
  intro H. cbn [snd] in H.
  destruct (run_ops_inv _ _ _ inv_empty E) as [_ [_ [W1 [W2 W3]]]].
  eapply mirror_wf3; [|exact H]. unfold wf3, bump_counts. cbn [p_dist p_steps p_mrca]. auto.
Qed.

(* ---- compile_from_dict ---- *)
Lemma dict_row_wf3 t1 row s s' : wf3 s -> dict_row t1 row s = Ok s' -> wf3 s'.
Proof.
  intros [W1 [W2 W3]] H. unfold dict_row in H.
  refine (fold_res_inv (fun X : pdm => wf3 X) _ _ _ row _ s' _ H).
  - intros r b a' E. destruct r; cbn [bind] in E; try discriminate. eauto.
  - intros a b a' [A1 [A2 A3]] E. cbn [bind] in E.
    destruct (tset2 t1 (fst b) (snd b) (p_dist a)) as [d| |] eqn:Ed; try discriminate. cbn [bind] in E.
    inversion E. subst a'. unfold wf3. cbn [p_dist p_steps p_mrca].
    split; [exact (tset2_wf _ _ _ _ _ A1 Ed)|]. split; assumption.
  - intros a E. inversion E. subst a. unfold wf3. cbn [p_dist p_steps p_mrca].
    split; [apply new_row_wf; exact W1|]. split; assumption.
Qed.

Lemma compile_from_dict_wf3 d p : compile_from_dict d = Ok p -> wf3 p.
Proof.
  unfold compile_from_dict.
  destruct (fold_left (fun r row => do s <- r ;; dict_row (fst row) (snd row) s) d (Ok pdm_empty)) as [s| |] eqn:E;
    cbn [bind]; try discriminate.
  intro H. eapply mirror_wf3; [|exact H].
  refine (fold_res_inv (fun X : pdm => wf3 X) _ _ _ d (Ok pdm_empty) s _ E).
  - intros r b a' E'. destruct r; cbn [bind] in E'; try discriminate. eauto.
  - intros a b a' Wa E'. cbn [bind] in E'. eapply dict_row_wf3; eauto.
  - intros a E'. inversion E'. subst. exact wf3_empty.
Qed.

(* ---- the world invariant ---- *)
Definition tbls_wf (w : world) : Prop := forall j p, abs w j = Ok p -> wf3 p.

Lemma tbls_wf_empty : tbls_wf world_empty.
Proof. intros j p A. unfold abs, wobj in A. simpl in A. discriminate. Qed.

Lemma wf_step w w' i o' :
  w_objs w' = dset i o' (w_objs w) ->
  (forall j oj, j <> i -> dget j (w_objs w) = Some oj -> abs_obj w' oj = abs_obj w oj) ->
  (forall p, abs w' i = Ok p -> wf3 p) ->
  tbls_wf w -> tbls_wf w'.
Proof.
  intros E F V I j p A. destruct (Z.eq_dec j i) as [->|N]; [apply V; exact A|].
  apply (I j). unfold abs, wobj in *. rewrite E in A. rewrite dget_dset_other in A by congruence.
  destruct (dget j (w_objs w)) as [oj|] eqn:D; [|discriminate]. cbn [bind] in *.
  rewrite <- (F j oj N D). exact A.
Qed.

Lemma o_clear_wf i w w' : world_ok w -> tbls_wf w -> o_clear i w = Ok w' -> tbls_wf w'.
Proof.
  intros W I H. destruct (wobj_err w i) as [[o Ho]|E]; [|unfold o_clear in H; rewrite E in H; discriminate].
  pose proof (o_clear_value i w w' W H) as V.
  assert (F : forall j oj, j <> i -> dget j (w_objs w) = Some oj -> abs_obj w' oj = abs_obj w oj).
  { intros j oj N D. exact (proj2 (o_clear_frame i w w' j oj W H N D)). }
  rewrite (o_clear_eq i w o Ho) in H.
  assert (Eo : w_objs w' = dset i (cleared (w_next w)) (w_objs w)) by (inversion H; reflexivity).
  apply (wf_step w w' i _ Eo F); [|exact I].
  intros p A. rewrite V in A. inversion A. exact wf3_empty.
Qed.

Lemma o_fill_objs i ns p w w' : o_fill i ns p w = Ok w' -> exists o', w_objs w' = dset i o' (w_objs w).
Proof.
  unfold o_fill. intro H.
  repeat match type of H with bind ?x _ = _ => destruct x; try discriminate; cbn [bind] in H end.
  inversion H. eexists. reflexivity.
Qed.

Lemma o_fill_wf i ns p w w' : world_ok w -> tbls_wf w -> wf3 p -> o_fill i ns p w = Ok w' -> tbls_wf w'.
Proof.
  intros W I Wp H. destruct (o_fill_props i ns p w w' W H) as [_ [F V]].
  destruct (o_fill_objs i ns p w w' H) as [o' E].
  apply (wf_step w w' i o' E); [| |exact I].
  - intros j oj N D. exact (proj2 (F j oj N D)).
  - intros q A. rewrite V in A. inversion A. exact Wp.
Qed.

Lemma o_compile_wf i w w' (comp : res pdm) :
  world_ok w -> tbls_wf w -> (forall p, comp = Ok p -> wf3 p) ->
  (do w1 <- o_clear i w ;; do q <- comp ;; o_fill i 1 q w1) = Ok w' -> tbls_wf w'.
Proof.
  intros W I C H. destruct (o_clear i w) as [w1| |] eqn:E1; try discriminate. cbn [bind] in H.
  destruct comp as [p| |]; try discriminate. cbn [bind] in H.
  eapply (o_fill_wf i 1 p w1 w'); [eapply o_clear_ok; eauto | eapply o_clear_wf; eauto | apply C; reflexivity | exact H].
Qed.

Lemma o_new_value w w' n : nonneg w -> o_new w = Ok (w', n) -> abs w' n = Ok pdm_empty.
Proof.
  intros [N1 N2] H. rewrite o_new_eq in H. inversion H. subst w' n. clear H.
  unfold abs, wobj. cbn [w_objs]. rewrite dget_dset_same. cbn [bind].
  unfold abs_obj, cell_set, cell_pairs, cell_tbl, hget.
  cbn [cleared ob_mapped ob_pairs ob_dist ob_steps ob_mrca ob_tl ob_ne w_heap fresh6 app hfind].
  repeat match goal with |- context [Z.eqb ?x ?y] => destruct (Z.eqb_spec x y); try lia end.
  reflexivity.
Qed.

Lemma o_new_wf w w' n : world_ok w -> nonneg w -> tbls_wf w -> o_new w = Ok (w', n) -> tbls_wf w'.
Proof.
  intros W NN I H. pose proof (o_new_value w w' n NN H) as V.
  assert (F : forall j oj, j <> n -> dget j (w_objs w) = Some oj -> abs_obj w' oj = abs_obj w oj).
  { intros j oj _ D. exact (proj2 (o_new_frame w w' n j oj W H D)). }
  rewrite o_new_eq in H.
  assert (Eo : w_objs w' = dset n (cleared (w_next w)) (w_objs w)) by (inversion H; reflexivity).
  apply (wf_step w w' n _ Eo F); [|exact I].
  intros p A. rewrite V in A. inversion A. exact wf3_empty.
Qed.

Lemma abs_defined w i so : world_ok w -> dget i (w_objs w) = Some so -> exists p, abs w i = Ok p.
Proof.
  intros W Hd.
  destruct (o_clone_eq i w so W Hd) as [lm [lp [Td [Ts [Te [Tm [cm [cp [cd [cs [ce [cr
     [A1 [A2 [A3 [A4 [A5 [A6 [H1 [H2 [H3 [H4 [H5 [H6 E]]]]]]]]]]]]]]]]]]]]]]]].
  unfold abs, wobj. rewrite Hd. cbn [bind]. unfold abs_obj, cell_set, cell_pairs, cell_tbl.
  rewrite A1, A2, A3, A4, A6, H1, H2, H3, H4, H6. cbn [bind]. eexists. reflexivity.
Qed.

Lemma o_clone_wf i w w' n : world_ok w -> nonneg w -> tbls_wf w -> o_clone i w = Ok (w', n) -> tbls_wf w'.
Proof.
  intros W NN I H.
  destruct (wobj_err w i) as [[so Ho]|E]; [|unfold o_clone in H; rewrite E in H; discriminate].
  apply wobj_some in Ho.
  destruct (abs_defined w i so W Ho) as [p0 A0].
  destruct (o_clone_value i w w' n p0 W NN H A0 (I i p0 A0)) as [En [_ V]].
  assert (F : forall j oj, j <> n -> dget j (w_objs w) = Some oj -> abs_obj w' oj = abs_obj w oj).
  { intros j oj _ D. exact (proj2 (o_clone_frame i w w' n j oj W H D)). }
  destruct (o_clone_eq i w so W Ho) as [lm [lp [Td [Ts [Te [Tm [cm [cp [cd [cs [ce [cr
     [A1 [A2 [A3 [A4 [A5 [A6 [H1 [H2 [H3 [H4 [H5 [H6 E]]]]]]]]]]]]]]]]]]]]]]]].
  rewrite E in H.
  assert (Eo : w_objs w' = dset n (cloned so (w_next w)) (w_objs w)) by (inversion H; reflexivity).
  apply (wf_step w w' n _ Eo F); [|exact I].
  intros p A. rewrite V in A. inversion A. subst p. exact (I i p0 A0).
Qed.

Lemma apply_mop_wf op w w' : world_ok w -> nonneg w -> tbls_wf w -> apply_mop op w = Ok w' -> tbls_wf w'.
Proof.
  intros W NN I H. destruct op as [|i|i t|i d|i|]; simpl in H.
  - destruct (o_new w) as [[w1 n]| |] eqn:E; try discriminate. inversion H. subst. eapply o_new_wf; eauto.
  - destruct (o_clone i w) as [[w1 n]| |] eqn:E; try discriminate. inversion H. subst. eapply o_clone_wf; eauto.
  - unfold o_compile_tree in H. eapply (o_compile_wf i w w' (compile_from_tree t)); eauto.
    intros p C. eapply compile_from_tree_wf3; eauto.
  - unfold o_compile_dict in H. eapply (o_compile_wf i w w' (compile_from_dict d)); eauto.
    intros p C. eapply compile_from_dict_wf3; eauto.
  - eapply o_clear_wf; eauto.
  - inversion H. subst. exact I.
Qed.

Lemma run_mops_wf ops : forall w w', world_ok w -> nonneg w -> tbls_wf w -> run_mops ops w = Ok w' -> tbls_wf w'.
Proof.
  induction ops as [|op r IH]; intros w w' W NN I H; simpl in H.
  - inversion H. subst. exact I.
  - destruct (apply_mop op w) as [w1| |] eqn:E; try discriminate. cbn [bind] in H.
    destruct (apply_mop_ok op w w1 W NN E) as [W1 NN1].
    exact (IH w1 w' W1 NN1 (apply_mop_wf op w w1 W NN I E) H).
Qed.

Lemma reachable_wf ops w : run_mops ops world_empty = Ok w -> tbls_wf w.
Proof.
  intro H. eapply run_mops_wf; [apply world_empty_ok | apply nonneg_empty | apply tbls_wf_empty | exact H].
Qed.

(* ---- the forms exported by Props/C14.v ---- *)
Lemma compile_results_wf_top :
  (forall t p, compile_from_tree t = Ok p ->
     (NoDup (dkeys (p_dist p)) /\ forall k r, dget k (p_dist p) = Some r -> NoDup (dkeys r)) /\
     (NoDup (dkeys (p_steps p)) /\ forall k r, dget k (p_steps p) = Some r -> NoDup (dkeys r)) /\
     (NoDup (dkeys (p_mrca p)) /\ forall k r, dget k (p_mrca p) = Some r -> NoDup (dkeys r))) /\
  (forall d p, compile_from_dict d = Ok p ->
     (NoDup (dkeys (p_dist p)) /\ forall k r, dget k (p_dist p) = Some r -> NoDup (dkeys r)) /\
     (NoDup (dkeys (p_steps p)) /\ forall k r, dget k (p_steps p) = Some r -> NoDup (dkeys r)) /\
     (NoDup (dkeys (p_mrca p)) /\ forall k r, dget k (p_mrca p) = Some r -> NoDup (dkeys r))).
Proof. split; [exact compile_from_tree_wf3 | exact compile_from_dict_wf3]. Qed.

Lemma reachable_tables_wf_top :
  forall (ops : list mop) (w : world) (j : oid) (p : pdm),
  run_mops ops world_empty = Ok w -> abs w j = Ok p ->
  (NoDup (dkeys (p_dist p)) /\ forall k r, dget k (p_dist p) = Some r -> NoDup (dkeys r)) /\
  (NoDup (dkeys (p_steps p)) /\ forall k r, dget k (p_steps p) = Some r -> NoDup (dkeys r)) /\
  (NoDup (dkeys (p_mrca p)) /\ forall k r, dget k (p_mrca p) = Some r -> NoDup (dkeys r)).
Proof. intros ops w j p H A. exact (reachable_wf ops w H j p A). Qed.

Lemma clone_value_unconditional_top :
  forall (ops : list mop) (w w' : world) (i n : oid) (p : pdm),
  run_mops ops world_empty = Ok w -> o_clone i w = Ok (w', n) -> abs w i = Ok p ->
  n = w_onext w /\ dget n (w_objs w) = None /\ abs w' n = Ok p.
Proof.
  intros ops w w' i n p H C A.
  exact (o_clone_value i w w' n p (reachable_ok ops w H) (reachable_nonneg ops w H) C A (reachable_wf ops w H i p A)).
Qed.

(* clone never fails on an existing object of a reachable world, and every existing object has a value:
   the hypotheses of clone_value_unconditional_top are satisfied by every (history, existing object) *)
Lemma clone_total_top :
  forall (ops : list mop) (w : world) (i : oid) (o : obj),
  run_mops ops world_empty = Ok w -> dget i (w_objs w) = Some o ->
  exists w' n p, o_clone i w = Ok (w', n) /\ abs w i = Ok p /\ abs w' n = Ok p /\ dget n (w_objs w) = None.
Proof.
  intros ops w i o H D. pose proof (reachable_ok ops w H) as W.
  destruct (abs_defined w i o W D) as [p A].
  destruct (o_clone_eq i w o W D) as [lm [lp [Td [Ts [Te [Tm [cm [cp [cd [cs [ce [cr
     [A1 [A2 [A3 [A4 [A5 [A6 [H1 [H2 [H3 [H4 [H5 [H6 E]]]]]]]]]]]]]]]]]]]]]]]].
  destruct (clone_value_unconditional_top ops w _ i _ p H E A) as [_ [N V]].
  eexists. eexists. exists p. split; [exact E|]. split; [exact A|]. split; [exact V | exact N].
Qed.

(* a concrete instance: the clone of the clone of ex_history's world *)
Lemma clone_unconditional_example :
  exists w w' n p, run_mops ex_ops world_empty = Ok w /\ o_clone 1 w = Ok (w', n) /\ abs w 1 = Ok p /\
                   n = 2 /\ abs w' n = Ok p /\ length (p_pairs p) = 6%nat.
Proof.
  destruct (run_mops ex_ops world_empty) as [w| |] eqn:E; [|vm_compute in E; discriminate|vm_compute in E; discriminate].
  destruct (o_clone 1 w) as [[w' n]| |] eqn:C; [|vm_compute in E; inversion E; subst; vm_compute in C; discriminate
                                                  |vm_compute in E; inversion E; subst; vm_compute in C; discriminate].
  destruct (abs w 1) as [p| |] eqn:A; [|vm_compute in E; inversion E; subst; vm_compute in A; discriminate
                                        |vm_compute in E; inversion E; subst; vm_compute in A; discriminate].
  exists w, w', n, p.
  destruct (clone_value_unconditional_top ex_ops w w' 1 n p E C A) as [En [_ V]].
  split; [first [exact E | reflexivity]|]. split; [first [exact C | reflexivity]|]. split; [first [exact A | reflexivity]|].
  vm_compute in E. inversion E. subst w. vm_compute in A. inversion A. subst p.
  split; [subst n; reflexivity|]. split; [exact V | reflexivity].
Qed.
