(* C11: translated methods = model - part H: new_tree, purge_taxon_namespace (up to the representation of the
   member map: the code removes the taxa one by one, the model filters once) *)
From Coq Require Import String.
From Coq Require Import List Bool Arith ZArith Lia.
From DV Require Import Model.PyPrims Model.C11Model Model.C11Prims Gen.Containers Proofs.C11Base Proofs.C11GenA Proofs.C11GenB.
Import ListNotations.
Open Scope nat_scope.

(* same objects, same taxa, same namespaces with the same members: indistinguishable for `dump` and `step` *)
Definition state_eqv (a b : state) : Prop :=
  s_lab a = s_lab b /\ s_cs a = s_cs b /\ s_nns a = s_nns b /\ s_trees a = s_trees b /\ s_lists a = s_lists b
  /\ s_mats a = s_mats b /\ s_dss a = s_dss b /\ forall k, members a k = members b k.

Lemma state_eqv_dump : forall a b, state_eqv a b -> dump a = dump b.
Proof.
  intros a b [E1 [E2 [E3 [E4 [E5 [E6 [E7 E8]]]]]]]. unfold dump. rewrite E1, E3, E4, E5, E6, E7.
  f_equal. f_equal. f_equal. f_equal. f_equal. apply map_ext. intro n. unfold ns_cs. rewrite E2, E8. reflexivity.
Qed.

Lemma remove_id_filter : forall x l, remove_id x l = filter (fun y => negb (Nat.eqb x y)) l.
Proof. intros x l. induction l as [|y r IH]; simpl; [reflexivity|]. destruct (Nat.eqb x y); simpl; rewrite IH; reflexivity. Qed.

Lemma filter_filter : forall A (p q : A -> bool) l, filter p (filter q l) = filter (fun x => q x && p x) l.
Proof.
  intros A p q l. induction l as [|y r IH]; simpl; [reflexivity|]. destruct (q y); simpl; [|exact IH].
  destruct (p y); rewrite IH; reflexivity.
Qed.

Lemma NoDup_filter' : forall A (p : A -> bool) l, NoDup l -> NoDup (filter p l).
Proof.
  intros A p l H. induction H as [|x l Nin ND IH]; simpl; [constructor|]. destruct (p x); [|exact IH].
  constructor; [|exact IH]. intro Hx. apply filter_In in Hx. apply Nin, Hx.
Qed.

Section WithLower.
Variable lower : lbl -> lbl.

Theorem step_NewTreeIn_gen : forall st l nsarg refs,
  valid_list st l && valid_nsopt st nsarg && forallb (valid_taxon st) refs = true ->
  step lower st (NewTreeIn l nsarg refs) = obs_id (py_TreeList_new_tree st l (nsarg, refs)).
Proof.
  intros st l nsarg refs V. cbn [step]. rewrite V. unfold py_TreeList_new_tree. cbn [fst snd]. cbv zeta.
  unfold kw_pop_ns. destruct nsarg as [a|].
  - destruct (Nat.eqb a (l_ns (getlist st l))); cbn [negb]; [|reflexivity].
    unfold new_tree_from_seed. destruct (alloc_tree (add_members st (l_ns (getlist st l)) refs) (mkTree (l_ns (getlist st l)) refs)) as [s1 t].
    reflexivity.
  - rewrite Nat.eqb_refl. cbn [negb].
    unfold new_tree_from_seed. destruct (alloc_tree (add_members st (l_ns (getlist st l)) refs) (mkTree (l_ns (getlist st l)) refs)) as [s1 t].
    reflexivity.
Qed.

(* removing the taxa of xs one after the other *)
Lemma purge_loop : forall (nsof : state -> oid) (xs : list nat) st n,
  (forall s, s_trees s = s_trees st -> s_lists s = s_lists st -> s_mats s = s_mats st -> nsof s = n) ->
  NoDup (members st n) -> NoDup xs -> (forall x, In x xs -> In x (members st n)) ->
  exists s',
    for_each xs (fun stb (x : nat) (_ : unit) => bindR (ns_remove_taxon stb (nsof stb) x) (fun s u => (s, Ok tt))) st tt = (s', Ok tt)
    /\ s_lab s' = s_lab st /\ s_cs s' = s_cs st /\ s_nns s' = s_nns st /\ s_trees s' = s_trees st /\ s_lists s' = s_lists st
    /\ s_mats s' = s_mats st /\ s_dss s' = s_dss st
    /\ members s' n = filter (fun y => negb (memb y xs)) (members st n)
    /\ forall k, k <> n -> members s' k = members st k.
Proof.
  intros nsof xs. induction xs as [|x r IH]; intros st n NS ND NDx Sub; cbn [for_each].
  - exists st. repeat split; try reflexivity. clear. induction (members st n) as [|y t IHt]; simpl; [reflexivity | rewrite <- IHt at 1; reflexivity].
  - rewrite (NS st eq_refl eq_refl eq_refl). unfold ns_remove_taxon.
    assert (Mx : memb x (members st n) = true) by (apply memb_In; apply Sub; left; reflexivity). rewrite Mx. cbn [bindR].
    apply NoDup_cons_iff in NDx. destruct NDx as [Nin NDr].
    set (s1 := set_members st n (remove_id x (members st n))).
    assert (M1 : members s1 n = remove_id x (members st n)) by apply members_set_members_same.
    destruct (IH s1 n) as [s' [E [A1 [A2 [A3 [A4 [A5 [A6 [A7 [A8 A9]]]]]]]]]].
    + intros s T L M. apply NS; assumption.
    + rewrite M1, remove_id_filter. apply NoDup_filter'. exact ND.
    + exact NDr.
    + intros y Hy. rewrite M1, remove_id_filter. apply filter_In. split; [apply Sub; right; exact Hy|].
      apply negb_true_iff, Nat.eqb_neq. intro Q. subst y. contradiction.
    + exists s'. split; [exact E|]. repeat split; try assumption.
      * rewrite A8, M1, remove_id_filter, filter_filter. apply filter_ext. intro y. unfold memb. cbn [existsb].
        rewrite (Nat.eqb_sym y x). rewrite negb_orb. reflexivity.
      * intros k Hk. rewrite (A9 k Hk). unfold s1. apply members_set_members_other. exact Hk.
Qed.


Lemma purge_generic : forall (nsof : state -> oid) (polled : list oid) st n,
  (forall s, s_trees s = s_trees st -> s_lists s = s_lists st -> s_mats s = s_mats st -> nsof s = n) ->
  NoDup (members st n) ->
  exists s',
    for_each (filter (fun t : nat => negb (memb t polled)) (members st n))
             (fun stb (x : nat) (_ : unit) => bindR (ns_remove_taxon stb (nsof stb) x) (fun s u => (s, Ok tt))) st tt = (s', Ok tt)
    /\ state_eqv s' (purge_ns st n polled).
Proof.
  intros nsof polled st n NS ND.
  destruct (purge_loop nsof (filter (fun t : nat => negb (memb t polled)) (members st n)) st n NS ND) as [s' [E [A1 [A2 [A3 [A4 [A5 [A6 [A7 [A8 A9]]]]]]]]]].
  - apply NoDup_filter'. exact ND.
  - intros x Hx. apply filter_In in Hx. apply Hx.
  - exists s'. split; [exact E|]. unfold state_eqv, purge_ns. simpl. repeat split; try assumption.
    intro k. rewrite members_set_members. destruct (Nat.eqb k n) eqn:Ek.
    + apply Nat.eqb_eq in Ek. subst k. rewrite A8. apply filter_ext_in. intros y Hy.
      destruct (memb y polled) eqn:My.
      * apply negb_true_iff. apply memb_false. intro Q. apply filter_In in Q. destruct Q as [_ Q]. rewrite My in Q. discriminate.
      * apply negb_false_iff. apply memb_In. apply filter_In. split; [exact Hy | rewrite My; reflexivity].
    + apply Nat.eqb_neq in Ek. apply A9. exact Ek.
Qed.

Theorem step_PurgeTree_gen : forall st tr,
  valid_tree st tr = true -> NoDup (members st (t_ns (gettree st tr))) ->
  snd (py_Tree_purge_taxon_namespace st tr) = Ok tt
  /\ snd (step lower st (PurgeTree tr)) = OUnit
  /\ state_eqv (fst (py_Tree_purge_taxon_namespace st tr)) (fst (step lower st (PurgeTree tr))).
Proof.
  intros st tr V ND. cbn [step]. rewrite V. unfold py_Tree_purge_taxon_namespace. cbv zeta.
  destruct (purge_generic (fun s => t_ns (gettree s tr)) (t_refs (gettree st tr)) st (t_ns (gettree st tr))) as [s' [E Q]].
  - intros s T _ _. unfold gettree. rewrite T. reflexivity.
  - exact ND.
  - rewrite E. cbn [bindR fst snd]. split; [reflexivity|]. split; [reflexivity | exact Q].
Qed.

Theorem step_PurgeList_gen : forall st l,
  valid_list st l = true -> NoDup (members st (l_ns (getlist st l))) ->
  snd (py_TreeList_purge_taxon_namespace st l) = Ok tt
  /\ snd (step lower st (PurgeList l)) = OUnit
  /\ state_eqv (fst (py_TreeList_purge_taxon_namespace st l)) (fst (step lower st (PurgeList l))).
Proof.
  intros st l V ND. cbn [step]. rewrite V. unfold py_TreeList_purge_taxon_namespace. cbv zeta.
  destruct (purge_generic (fun s => l_ns (getlist s l)) (poll_list st l) st (l_ns (getlist st l))) as [s' [E Q]].
  - intros s _ L _. unfold getlist. rewrite L. reflexivity.
  - exact ND.
  - rewrite E. cbn [bindR fst snd]. split; [reflexivity|]. split; [reflexivity | exact Q].
Qed.

Theorem step_PurgeMat_gen : forall st m,
  valid_mat st m = true -> NoDup (members st (m_ns (getmat st m))) ->
  snd (py_CharacterMatrix_purge_taxon_namespace st m) = Ok tt
  /\ snd (step lower st (PurgeMat m)) = OUnit
  /\ state_eqv (fst (py_CharacterMatrix_purge_taxon_namespace st m)) (fst (step lower st (PurgeMat m))).
Proof.
  intros st m V ND. cbn [step]. rewrite V. unfold py_CharacterMatrix_purge_taxon_namespace. cbv zeta.
  destruct (purge_generic (fun s => m_ns (getmat s m)) (m_rows (getmat st m)) st (m_ns (getmat st m))) as [s' [E Q]].
  - intros s _ _ M. unfold getmat. rewrite M. reflexivity.
  - exact ND.
  - rewrite E. cbn [bindR fst snd]. split; [reflexivity|]. split; [reflexivity | exact Q].
Qed.

End WithLower.
