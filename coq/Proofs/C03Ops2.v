(* C03 proofs: reroot_at_edge and to_outgroup_position (without unifurcation suppression). *)
From Coq Require Import ZArith List Bool Lia Permutation.
From DV Require Import Model.PyPrims Model.Tree Model.Heap Model.HeapOps Model.C03Spec
  Proofs.C03Base Proofs.C03Abs Proofs.C03Local Proofs.C03Prims
  Proofs.C03Collapse Proofs.C03Suppress Proofs.C03Reseed Proofs.C03Order Proofs.C03Ops.
Import ListNotations.
Open Scope Z_scope.

(* the detached child is disjoint from what remains *)
Lemma detached_facts h c p x l e lft tc rgt :
  Wr h (plug c (T p x l e (lft ++ tc :: rgt))) ->
  NoDup (ids tc) /\
  (forall j, In j (ids tc) -> ~ In j (ids (plug c (T p x l e (lft ++ rgt))))) /\
  (forall j, In j (ids tc) -> j < next h).
Proof.
  intros [_ [N B]]. apply nodup_plug in N. destruct N as [N1 [N2 N3]].
  pose proof (focus_facts _ _ _ _ _ _ _ N1) as F. split; [exact (fn_tc _ _ _ _ F)|split].
  - intros j Hj H. apply in_plug in H. destruct H as [H|H].
    + rewrite ids_eq, flat_map_app in H. destruct H as [<-|H]; [exact (fn_p_tc _ _ _ _ F Hj)|].
      apply in_app_iff in H. destruct H as [H|H];
        [exact (fn_tc_lft _ _ _ _ F j Hj H)|exact (fn_tc_rgt _ _ _ _ F j Hj H)].
    + apply (N3 j); [|exact H]. rewrite ids_focus. right. apply in_app_iff. right. apply in_app_iff. left. exact Hj.
  - intros j Hj. apply B, in_plug. left. rewrite ids_focus. right. apply in_app_iff. right. apply in_app_iff. left. exact Hj.
Qed.

(* ---------- to_outgroup_position, suppress_unifurcations=False ---------- *)

Lemma to_outgroup_wf ub h c p x l e lft s rgt :
  WFt h (plug c (T p x l e (lft ++ s :: rgt))) ->
  exists h', to_outgroup_position (t_id s) ub false h = HOk h' /\
    WFt h' (T p x l (root_len c e) (s :: lft ++ rgt ++ olist (up c e))) /\
    next h' = next h /\ rooted_ok h h'.
Proof.
  intro W. unfold to_outgroup_position.
  pose proof W as [W0 _]. destruct (wr_focus _ _ _ _ _ _ _ W0) as [_ [_ [Fk _]]].
  apply Forall_app in Fk. destruct Fk as [_ Fk]. inversion Fk as [|? ? Rs _]; subst.
  rewrite (rep_parent h (Some p) s Rs).
  destruct (reseed_at_wf ub false false h c (T p x l e (lft ++ s :: rgt)) W) as [h1 [E1 [W1 [N1 R1]]]].
  { left. simpl. destruct lft; discriminate. }
  simpl t_id in E1. rewrite E1. simpl hbind.
  unfold spec_encode in W1. simpl in W1. rewrite <- app_assoc in W1. simpl in W1.
  destruct W1 as [W1 S1].
  destruct (remove_child_plain_wf h1 CTop p x l (root_len c e) lft s (rgt ++ olist (up c e)) W1)
    as [h2 [E2 [W2 [R2 [_ [_ [P1 [P2 P3]]]]]]]].
  rewrite E2. simpl hbind. simpl plug in W2.
  destruct (detached_facts h1 CTop p x l (root_len c e) lft s (rgt ++ olist (up c e)) W1) as [Ns [Ds Bs]].
  pose proof (insert_child_attach h2 CTop p x l (root_len c e) (lft ++ rgt ++ olist (up c e)) 0 None s W2 R2 Ns) as W3.
  simpl plug in W3. simpl firstn in W3. simpl skipn in W3. simpl app in W3.
  destruct (insert_child_frame p 0 (t_id s) h2) as [_ [_ [Q1 [Q2 Q3]]]].
  eexists. split; [reflexivity|]. split; [split|split].
  - apply W3; [exact Ds|]. intros j Hj. rewrite P1. apply Bs, Hj.
  - simpl. rewrite Q3, P3. exact S1.
  - rewrite Q1, P1. exact N1.
  - unfold rooted_ok in *. rewrite Q2, P2. exact R1.
Qed.

(* ---------- reroot_at_edge ---------- *)

Lemma reroot_at_edge_wf l1 l2 ub su h c ot x l e lft ci xs ls es ks rgt :
  WFt h (plug c (T ot x l e (lft ++ T ci xs ls es ks :: rgt))) ->
  exists h', reroot_at_edge ci l1 l2 ub su h = HOk h' /\
    WFt h' ((if ub then spec_encode su true false else (fun t => t))
              (spec_encode su false true
                 (reroot (CNode c ot x l e (lft ++ rgt) [])
                         (T (next h) None None l1 [T ci xs ls l2 ks])))) /\
    next h' = next h + 1 /\ rooted h' = Some true.
Proof.
  intros [W S]. unfold reroot_at_edge. set (s := T ci xs ls es ks) in *.
  destruct (wr_focus _ _ _ _ _ _ _ W) as [_ [_ [Fk _]]].
  apply Forall_app in Fk. destruct Fk as [_ Fk]. inversion Fk as [|? ? Rs _]; subst.
  pose proof (rep_parent h (Some ot) s Rs) as Pc. simpl in Pc. rewrite Pc.
  (* new_seed_node = old_tail.new_child(edge_length=length1) *)
  destruct (new_child_wf h c ot x l e (lft ++ s :: rgt) None None l1 W) as [h1 [E1 [W1 [N1 [R1 S1]]]]].
  rewrite E1. simpl hbind. set (ns := next h) in *. set (nl := T ns None None l1 []) in *.
  rewrite <- app_assoc in W1. simpl in W1.
  (* old_tail.remove_child(old_head) *)
  destruct (remove_child_plain_wf h1 c ot x l e lft s (rgt ++ [nl]) W1) as [h2 [E2 [W2 [R2 [_ [_ [P1 [P2 P3]]]]]]]].
  simpl t_id in E2. rewrite E2. simpl hbind.
  destruct (detached_facts h1 c ot x l e lft s (rgt ++ [nl]) W1) as [Ns [Ds Bs]].
  (* new_seed_node.add_child(old_head) *)
  assert (W2' : Wr h2 (plug (CNode c ot x l e (lft ++ rgt) []) nl)).
  { simpl plug. rewrite <- app_assoc. exact W2. }
  destruct (add_child_attach h2 (CNode c ot x l e (lft ++ rgt) []) ns None None l1 [] None s W2' R2 Ns)
    as [h3 [E3 [W3 [_ [_ [Q1 [Q2 Q3]]]]]]].
  { intros j Hj H. apply (Ds j Hj). simpl plug in H. rewrite <- app_assoc in H. exact H. }
  { intros j Hj. rewrite P1. apply Bs, Hj. }
  simpl t_id in E3. rewrite E3. simpl hbind. simpl app in W3.
  (* old_head.edge.length = length2 *)
  pose proof (set_elen_wf h3 (CNode (CNode c ot x l e (lft ++ rgt) []) ns None None l1 [] []) ci xs ls es ks l2 W3) as W4.
  change (plug (CNode (CNode c ot x l e (lft ++ rgt) []) ns None None l1 [] []) (T ci xs ls l2 ks))
    with (plug (CNode c ot x l e (lft ++ rgt) []) (T ns None None l1 [T ci xs ls l2 ks])) in W4.
  assert (W4' : WFt (set_elen ci l2 h3) (plug (CNode c ot x l e (lft ++ rgt) []) (T ns None None l1 [T ci xs ls l2 ks]))).
  { split; [exact W4|]. simpl seed. rewrite Q3, P3, S1, <- S. simpl plug. rewrite !plug_id. reflexivity. }
  destruct (reroot_at_node_wf ub su true _ _ _ W4') as [h5 [E5 [W5 [N5 R5]]]].
  { left. discriminate. }
  simpl t_id in E5. exists h5. split; [exact E5|split; [exact W5|split; [|exact R5]]].
  rewrite N5. simpl next. rewrite Q1, P1, N1. reflexivity.
Qed.

(* ---------- reseed_at at a LEAF with suppress_unifurcations=True (outside the documented domain,
   F19: the leaf's old parent is spliced out and the leaf's edge length is lost) ---------- *)

Lemma set_seed_wf h t :
  Wr h t ->
  let h2 := set_seed_node (t_id t) (set_parent (t_id t) None h) in
  WFt h2 t /\ next h2 = next h /\ rooted h2 = rooted h.
Proof.
  intros W1 h2. pose proof W1 as [R1 [N1 B1]]. set (ns := t_id t) in *.
  assert (Pr : parent h ns = None) by (apply (rep_parent h None _ R1)).
  assert (E : h2 = set_parent ns None (set_seed ns (set_parent ns None h))).
  { unfold h2, set_seed_node, set_parent_node.
    assert (Q : parent (set_seed ns (set_parent ns None h)) ns = None).
    { unfold parent. rewrite get_set_seed, get_set_parent, Z.eqb_refl. reflexivity. }
    rewrite Q. reflexivity. }
  assert (A : same_off [ns] h h2) by (rewrite E; unfold set_parent; frame_solve).
  assert (G : grows h h2) by (rewrite E; unfold set_parent; frame_solve).
  assert (Gs : get h2 ns = get h ns).
  { rewrite E. rewrite get_set_parent, Z.eqb_refl. unfold kids, elen, taxon, label.
    rewrite !get_set_seed, !get_set_parent, !Z.eqb_refl. simpl.
    symmetry. rewrite (get_eta h ns), Pr. reflexivity. }
  split; [split|split].
  - split; [|split; [exact N1|]].
    + apply (rep_frame h h2 None _); [| |exact R1].
      * intros j Hj. destruct (Z.eq_dec j ns) as [->|D]; [exact Gs|].
        apply A. intros [H|[]]. congruence.
      * intros j _. apply G.
    + intros j Hj. rewrite E. simpl. apply B1, Hj.
  - rewrite E. reflexivity.
  - rewrite E. reflexivity.
  - rewrite E. reflexivity.
Qed.

Lemma add_children_wf c p x l e par0 : forall todo dn h,
  Wr h (plug c (T p x l e dn)) ->
  Forall (rep h par0) todo -> NoDup (flat_map ids todo) ->
  (forall j, In j (flat_map ids todo) -> ~ In j (ids (plug c (T p x l e dn)))) ->
  (forall j, In j (flat_map ids todo) -> j < next h) ->
  exists h', hfold (add_child p) (map t_id todo) h = HOk h' /\
    Wr h' (plug c (T p x l e (dn ++ todo))) /\ pres h h' /\ grows h h'.
Proof.
  induction todo as [|k r IH]; intros dn h W F N D B.
  - exists h. simpl. rewrite app_nil_r. split; [reflexivity|split; [exact W|split; [apply pres_refl|apply grows_refl]]].
  - simpl map. simpl hfold. inversion F as [|? ? Rk Fr]; subst.
    simpl in N. apply NoDup_app_iff in N. destruct N as [Nk [Nr Dkr]].
    destruct (add_child_attach h c p x l e dn par0 k W Rk Nk) as [h1 [E1 [W1 [A1 [G1 P1]]]]].
    { intros j Hj. apply D. simpl. apply in_app_iff. left. exact Hj. }
    { intros j Hj. apply B. simpl. apply in_app_iff. left. exact Hj. }
    rewrite E1. simpl hbind.
    destruct (IH (dn ++ [k]) h1 W1) as [h2 [E2 [W2 [P2 G2]]]].
    + eapply Forall_rep_frame_off; eauto. intros j Hj [<-|[<-|[]]].
      * apply (D p); [simpl; apply in_app_iff; right; exact Hj|].
        apply in_plug. left. apply (ids_root (T p x l e dn)).
      * eapply Dkr; [apply ids_root|exact Hj].
    + exact Nr.
    + intros j Hj H. apply in_plug in H. destruct H as [H|H].
      * rewrite ids_eq, flat_map_app in H. simpl in H. rewrite app_nil_r in H.
        destruct H as [<-|H].
        -- apply (D p); [simpl; apply in_app_iff; right; exact Hj|]. apply in_plug. left. apply (ids_root (T p x l e dn)).
        -- apply in_app_iff in H. destruct H as [H|H]; [|eapply Dkr; eauto].
           apply (D j); [simpl; apply in_app_iff; right; exact Hj|]. apply in_plug. left. rewrite ids_eq. right. exact H.
      * apply (D j); [simpl; apply in_app_iff; right; exact Hj|]. apply in_plug. right. exact H.
    + intros j Hj. destruct P1 as [P1 _]. rewrite P1. apply B. simpl. apply in_app_iff. right. exact Hj.
    + exists h2. split; [exact E2|]. rewrite <- app_assoc in W2. simpl in W2.
      split; [exact W2|split; [eapply pres_trans; eauto|eapply grows_trans; eauto]].
Qed.

Lemma reseed_at_leaf_wf ub cb h c' i x l e lft rgt ns xs ls es :
  WFt h (plug (CNode c' i x l e lft rgt) (T ns xs ls es [])) ->
  exists h', reseed_at ns ub cb true h = HOk h' /\
    WFt h' (spec_encode true cb (not_rooted h)
              (T ns xs ls (root_len c' e) (lft ++ rgt ++ olist (up c' e)))) /\
    next h' = next h /\ rooted_ok h h'.
Proof.
  intro W. unfold reseed_at. set (c := CNode c' i x l e lft rgt) in *. set (s := T ns xs ls es []) in *.
  pose proof W as [W0 S].
  assert (Dseed : seed h <> ns).
  { rewrite <- S, plug_id. intro E0.
    eapply (wr_focus_notin _ _ _ W0 ns (ids_root s)). rewrite <- E0. apply croot_in_cids. }
  rewrite (eqb_neq_l _ _ Dseed).
  pose proof W0 as [R0 _]. apply rep_plug in R0. destruct R0 as [_ Rs]. simpl cpar in Rs.
  pose proof (rep_parent h (Some i) s Rs) as Pn. simpl in Pn. rewrite Pn.
  pose proof (chain_ctx h c s W0) as Ch. simpl t_id in Ch. rewrite Ch.
  destruct (invert_chain c h s W0) as [h1 [E1 [W1 [[P1 [P2 P3]] G1]]]]. simpl t_id in E1. rewrite E1. simpl hbind.
  pose proof (rep_kids h (Some i) s Rs) as Kn. simpl in Kn.
  unfold is_internal. rewrite Kn. simpl negb. simpl andb. cbv iota.
  (* after the chain the leaf is the root with the single child i *)
  simpl reroot in W1. set (U := T i x l es (lft ++ rgt ++ olist (up c' e))) in *.
  pose proof W1 as [R1 _]. pose proof (rep_kids h1 None _ R1) as K1. simpl in K1. rewrite K1.
  destruct (remove_child_plain_wf h1 CTop ns xs ls (root_len c' e) [] U [] W1) as [h2 [E2 [W2 [R2 [_ [_ [Q1 [Q2 Q3]]]]]]]].
  simpl t_id in E2. rewrite E2. simpl hbind. simpl plug in W2. simpl app in W2.
  destruct (detached_facts h1 CTop ns xs ls (root_len c' e) [] U [] W1) as [NU [DU BU]].
  pose proof (rep_kids h2 None U R2) as KU. simpl in KU. rewrite KU.
  apply rep_eq in R2. destruct R2 as [_ [_ FU]].
  apply nodup_root in NU. destruct NU as [NU1 NU2].
  destruct (add_children_wf CTop ns xs ls (root_len c' e) (Some i) (lft ++ rgt ++ olist (up c' e)) [] h2 W2 FU NU2)
    as [h3 [E3 [W3 [[T1 [T2 T3]] _]]]].
  { intros j Hj. apply DU. unfold U. rewrite ids_eq. right. exact Hj. }
  { intros j Hj. rewrite Q1. apply BU. unfold U. rewrite ids_eq. right. exact Hj. }
  rewrite E3. simpl hbind. simpl plug in W3. simpl app in W3.
  destruct (set_seed_wf h3 _ W3) as [W4 [N4 R4]]. simpl t_id in W4, N4, R4.
  destruct (encode_structural_wf true cb _ _ W4) as [h5 [E5 [W5 [N5 R5]]]].
  exists h5. split; [exact E5|]. unfold not_rooted, rooted_ok in *.
  rewrite R4, T2, Q2, P2 in *. split; [exact W5|split; [congruence|exact R5]].
Qed.

(* ---------- reroot_at_node from any successful reseed_at ---------- *)

Lemma reroot_at_node_from_reseed ub su cb h n h1 t1 :
  reseed_at n false false su h = HOk h1 -> WFt h1 t1 -> next h1 = next h ->
  exists h', reroot_at_node n ub su cb h = HOk h' /\
    WFt h' ((if ub then spec_encode su cb false else (fun t => t)) t1) /\
    next h' = next h /\ rooted h' = Some true.
Proof.
  intros E1 W1 N1. unfold reroot_at_node. rewrite E1. simpl hbind.
  pose proof (WFt_set_rooted (Some true) h1 _ W1) as W2.
  destruct ub.
  - assert (NR : not_rooted (set_rooted (Some true) h1) = false) by reflexivity.
    unfold encode_structural. rewrite NR, andb_false_r. simpl hbind.
    unfold spec_encode. rewrite andb_false_r. cbv zeta. simpl andb. cbv iota.
    destruct su.
    + destruct (suppress_unifurcations_wf _ _ W2) as [h4 [E4 [W4 [N4 [R4 _]]]]].
      exists h4. split; [exact E4|split; [exact W4|split; [simpl in N4; congruence|exact R4]]].
    + exists (set_rooted (Some true) h1). split; [reflexivity|split; [exact W2|split; [exact N1|reflexivity]]].
  - exists (set_rooted (Some true) h1). split; [reflexivity|split; [exact W2|]].
    split; [exact N1|reflexivity].
Qed.

(* reseed_at at ANY live node, all flags *)
Lemma reseed_at_any ub cb su h c s :
  WFt h (plug c s) ->
  exists h' t', reseed_at (t_id s) ub cb su h = HOk h' /\ WFt h' t' /\ next h' = next h /\ rooted_ok h h'.
Proof.
  intro W. destruct s as [ns xs ls es ks].
  destruct ks as [|k0 kr]; [destruct su|].
  - destruct c as [|c' i x l e lft rgt].
    + unfold reseed_at. pose proof W as [_ S]. simpl in S. simpl t_id. rewrite S, Z.eqb_refl.
      destruct (encode_structural_wf true cb h _ W) as [h' [E [W' [N R]]]].
      exists h'. eexists. split; [exact E|split; [exact W'|split; [exact N|exact R]]].
    + destruct (reseed_at_leaf_wf ub cb h c' i x l e lft rgt ns xs ls es W) as [h' [E [W' [N R]]]].
      exists h'. eexists. split; [exact E|split; [exact W'|split; [exact N|exact R]]].
  - destruct (reseed_at_wf ub cb false h c _ W (or_intror eq_refl)) as [h' [E [W' [N R]]]].
    exists h'. eexists. split; [exact E|split; [exact W'|split; [exact N|exact R]]].
  - destruct (reseed_at_wf ub cb su h c _ W) as [h' [E [W' [N R]]]]; [left; discriminate|].
    exists h'. eexists. split; [exact E|split; [exact W'|split; [exact N|exact R]]].
Qed.

Lemma reroot_at_node_any ub su cb h c s :
  WFt h (plug c s) ->
  exists h' t', reroot_at_node (t_id s) ub su cb h = HOk h' /\ WFt h' t' /\ next h' = next h /\ rooted h' = Some true.
Proof.
  intro W. destruct (reseed_at_any false false su h c s W) as [h1 [t1 [E1 [W1 [N1 _]]]]].
  destruct (reroot_at_node_from_reseed ub su cb h (t_id s) h1 t1 E1 W1 N1) as [h' [E [W' [N R]]]].
  exists h'. eexists. split; [exact E|split; [exact W'|split; [exact N|exact R]]].
Qed.
