(* C07: a seed with a single child.  The theorems of Props/C07.v assume a seed with >= 2 children
   because re-seeding turns a unifurcating seed into a LEAF.  Here that behaviour is characterised
   instead: re-seeding T i x l e [k] at a node below the seed is literally the same as re-seeding
   the tree t1 in which the seed already hangs as a leaf (taxon x, length = k's edge length) below
   k; t1's seed has >= 2 children, so all theorems apply to it.
   Also: re-seeding AT the seed needs no hypothesis on the number of children, and the tie-break of
   reroot_at_midpoint does not matter on the example tree. *)
From Coq Require Import ZArith List Bool Lia Permutation.
From DV Require Import Model.PyPrims Model.Tree Model.C07Model Model.C07Spec
     Proofs.C07Base Proofs.C07Equiv Proofs.C07Rot Proofs.C07Blocks Proofs.C07Ops Proofs.C07Mid Proofs.C07Thms.
Import ListNotations.
Open Scope Z_scope.

Lemma first_ctx_ext {A B} (f g : list A -> A -> list A -> option B) l :
  (forall pre a post, f pre a post = g pre a post) -> forall pre, first_ctx f pre l = first_ctx g pre l.
Proof.
  intros H. induction l as [|a l IH]; intro pre; [reflexivity|].
  rewrite !first_ctx_cons, H, IH. reflexivity.
Qed.

Lemma first_ctx_snoc {A B} (f : list A -> A -> list A -> option B) p : forall X pre,
  first_ctx f pre (X ++ [p]) =
  match first_ctx (fun pre c post => f pre c (post ++ [p])) pre X with
  | Some b => Some b
  | None => f (pre ++ X) p []
  end.
Proof.
  induction X as [|a X IH]; intro pre.
  - cbn [app]. rewrite first_ctx_cons, app_nil_r. destruct (f pre p []); reflexivity.
  - rewrite <- app_comm_cons, !first_ctx_cons. destruct (f pre a (X ++ [p])); [reflexivity|].
    rewrite IH, <- app_assoc. reflexivity.
Qed.

(* the tree in which the unifurcating seed (i) hangs as a leaf below its only child *)
Definition seed_as_leaf (i : Z) (x l e : option Z) (k : tree) : tree :=
  match k with
  | T i' x' l' e' ks' => T i' x' l' e (ks' ++ [T i x l e' []])
  end.

Lemma rot_eq e0 n i x l e ks above :
  rot e0 n (T i x l e ks) above =
  if i =? n then Some (T i x l e0 (ks ++ above))
  else first_ctx (fun pre k post => rot e0 n k [T i x l (t_len k) (pre ++ post ++ above)]) [] ks.
Proof. reflexivity. Qed.

Lemma rot_unif_seed i x l e k n :
  i <> n -> rot e n (T i x l e [k]) [] = rot e n (seed_as_leaf i x l e k) [].
Proof.
  intros Hne. destruct k as [i' x' l' e' ks']. cbn [seed_as_leaf].
  assert (Ei : (i =? n) = false) by (apply Z.eqb_neq; assumption).
  rewrite (rot_eq e n i). rewrite Ei, first_ctx_cons. cbn [first_ctx app t_len].
  set (P := T i x l e' []).
  assert (E : rot e n (T i' x' l' e' ks') [P] = rot e n (T i' x' l' e (ks' ++ [P])) []).
  { rewrite !rot_eq. destruct (i' =? n); [rewrite app_nil_r; reflexivity|].
    rewrite first_ctx_snoc.
    assert (EP : rot e n P [T i' x' l' (t_len P) (([] ++ ks') ++ [] ++ [])] = None).
    { unfold P. rewrite rot_eq, Ei. reflexivity. }
    rewrite EP.
    rewrite (first_ctx_ext
               (fun pre c post => rot e n c [T i' x' l' (t_len c) (pre ++ (post ++ [P]) ++ [])])
               (fun pre c post => rot e n c [T i' x' l' (t_len c) (pre ++ post ++ [P])]) ks').
    - destruct (first_ctx _ [] ks'); reflexivity.
    - intros pre a post. rewrite app_nil_r. reflexivity. }
  rewrite E. destruct (rot e n (T i' x' l' e (ks' ++ [P])) []); reflexivity.
Qed.

Lemma find_node_unif_seed i x l e k n :
  i <> n -> t_kids k <> [] ->
  match find_node n (T i x l e [k]), find_node n (seed_as_leaf i x l e k) with
  | Some X, Some Y => is_leaf X = is_leaf Y
  | None, None => True
  | _, _ => False
  end.
Proof.
  intros Hne Hk. destruct k as [i' x' l' e' ks']. cbn [seed_as_leaf t_kids] in *.
  rewrite (find_node_eq n (T i x l e _)). cbn [t_id t_kids].
  replace (i =? n) with false by (symmetry; apply Z.eqb_neq; assumption).
  rewrite first_some_cons. rewrite !(find_node_eq n (T i' _ _ _ _)). cbn [t_id t_kids].
  destruct (i' =? n).
  - unfold is_leaf. cbn [t_kids]. destruct ks'; [congruence|reflexivity].
  - rewrite first_some_app. destruct (first_some (find_node n) ks'); [reflexivity|].
    cbn. replace (i =? n) with false by (symmetry; apply Z.eqb_neq; assumption). exact I.
Qed.

Lemma reseed_at_unif_seed i x l e k r n upd coll supp :
  i <> n -> t_kids k <> [] ->
  reseed_at (T i x l e [k]) r n upd coll supp = reseed_at (seed_as_leaf i x l e k) r n upd coll supp.
Proof.
  intros Hne Hk. unfold reseed_at.
  assert (Hi' : t_id (seed_as_leaf i x l e k) = t_id k) by (destruct k; reflexivity).
  assert (Hl : t_len (seed_as_leaf i x l e k) = e) by (destruct k; reflexivity).
  cbn [t_id t_len]. replace (i =? n) with false by (symmetry; apply Z.eqb_neq; assumption).
  rewrite Hl, <- (rot_unif_seed i x l e k n Hne).
  assert (F := find_node_unif_seed i x l e k n Hne Hk).
  destruct (t_id (seed_as_leaf i x l e k) =? n) eqn:E.
  - (* the target is the only child of the seed *)
    rewrite Hi' in E. destruct k as [i' x' l' e' ks']. cbn [t_id] in E. cbn [seed_as_leaf].
    rewrite (find_node_eq n (T i x l e _)). cbn [t_id t_kids].
    replace (i =? n) with false by (symmetry; apply Z.eqb_neq; assumption).
    rewrite first_some_cons, (find_node_eq n (T i' _ _ _ _)). cbn [t_id]. rewrite E.
    rewrite (rot_eq e n i). replace (i =? n) with false by (symmetry; apply Z.eqb_neq; assumption).
    rewrite first_ctx_cons, (rot_eq e n i'), E. cbn [app t_len].
    unfold is_leaf. cbn [t_kids] in *. destruct ks'; [congruence|]. reflexivity.
  - destruct (find_node n (T i x l e [k])) as [X|], (find_node n (seed_as_leaf i x l e k)) as [Y|];
      try contradiction; [|reflexivity].
    rewrite F. reflexivity.
Qed.

(* the characterisation: all invariants, relative to the tree with the seed counted as a leaf *)
Lemma reseed_at_unifurcating_seed_l i x l e k r n upd coll supp t' r' :
  reseed_at (T i x l e [k]) r n upd coll supp = Ok (t', r') ->
  i <> n -> is_internal_node n (T i x l e [k]) -> NoDup (leaf_taxa k ++ [x]) ->
  Permutation (leaf_taxa k ++ [x]) (leaf_taxa t')
  /\ total_length t' = total_length (T i x l e [k])
  /\ (forall a b, In a (leaf_taxa k) -> In b (leaf_taxa k) -> dist a b t' = dist a b (T i x l e [k]))
  /\ (forall a, In a (leaf_taxa k) -> dist a x t' = downT a k)
  /\ (forall S, is_usplit (seed_as_leaf i x l e k) S <-> is_usplit t' S).
Proof.
  intros H Hne [X [HX HXk]] ND.
  assert (Hk : t_kids k <> []).
  { rewrite find_node_eq in HX. cbn [t_id t_kids] in HX.
    replace (i =? n) with false in HX by (symmetry; apply Z.eqb_neq; assumption).
    rewrite first_some_cons in HX. destruct (find_node n k) as [Y|] eqn:EY; [|discriminate].
    inversion HX; subst Y. eapply find_node_kids; eauto. }
  rewrite (reseed_at_unif_seed i x l e k r n upd coll supp Hne Hk) in H.
  destruct k as [i' x' l' e' ks']. cbn [seed_as_leaf t_kids] in *.
  set (P := T i x l e' []) in *. set (t1 := T i' x' l' e (ks' ++ [P])) in *.
  assert (Hn1 : ks' ++ [P] <> []) by (destruct ks'; discriminate).
  assert (L1 : leaf_taxa t1 = leaf_taxa (T i' x' l' e' ks') ++ [x]).
  { unfold t1. rewrite !leaf_taxa_node by assumption. rewrite flat_map_app. reflexivity. }
  assert (HI1 : is_internal_node n t1).
  { assert (F := find_node_unif_seed i x l e (T i' x' l' e' ks') n Hne Hk). cbn [seed_as_leaf] in F. fold P t1 in F.
    rewrite HX in F. destruct (find_node n t1) as [Y|] eqn:EY; [|contradiction].
    exists Y. split; [exact EY|]. unfold is_leaf in F. destruct (t_kids X); [congruence|].
    destruct (t_kids Y); [discriminate | discriminate]. }
  assert (TK1 : (2 <= length (t_kids t1))%nat).
  { unfold t1. cbn [t_kids]. rewrite app_length. cbn [length]. destruct ks'; [congruence | cbn [length]; lia]. }
  assert (ND1 : NoDup (leaf_taxa t1)) by (rewrite L1; assumption).
  destruct (equivU_unfold _ _ (reseed_at_equivU _ _ _ _ _ _ _ _ H HI1 TK1 ND1)) as [A [B [C D]]].
  rewrite L1 in A.
  assert (T1 : total_length t1 = total_length (T i x l e [T i' x' l' e' ks'])).
  { unfold t1, P. rewrite !total_node, map_app. cbn [map]. rewrite zsum_app, !zsum_cons, !total_node. cbn [map].
    change (zsum []) with 0. lia. }
  assert (DK : forall a, downT a (T i' x' l' e' ks') = oadd (len0 e') (downF a ks')) by (intro; apply downT_node; assumption).
  split; [assumption|]. split; [rewrite C; assumption|]. split; [|split; [|assumption]].
  - intros a b Ha Hb. rewrite D. unfold t1. rewrite !dist_node by (assumption || discriminate).
    rewrite distF_cons, distF_nil, !downF_nil, distF_app.
    rewrite leaf_taxa_node in Ha, Hb by assumption.
    destruct (in_downF a ks' Ha) as [da Eda]. destruct (in_downF b ks' Hb) as [db Edb].
    rewrite Eda, Edb, !DK, Eda, Edb. cbn [oadd option_map]. symmetry. apply dist_node. assumption.
  - intros a Ha. rewrite D. unfold t1. rewrite dist_node by assumption. rewrite distF_app.
    rewrite leaf_taxa_node in Ha by assumption.
    destruct (in_downF a ks' Ha) as [da Eda]. rewrite Eda.
    assert (Nx : downF x ks' = None).
    { apply downF_none. intro C'. rewrite leaf_taxa_node in ND by assumption.
      eapply (nodup_app_disj _ _ x ND); [exact C' | left; reflexivity]. }
    rewrite Nx, downF_cons, downF_nil. unfold P at 1. unfold downT at 1. cbn [t_len down].
    replace (oz_eqb x x) with true by (symmetry; apply oz_eqb_true; reflexivity).
    rewrite DK, Eda. cbn [oadd option_map]. f_equal. lia.
Qed.

(* re-seeding at the seed itself: no hypothesis on the number of children *)
Lemma reseed_at_seed_itself_l t r upd coll supp t' r' :
  reseed_at t r (t_id t) upd coll supp = Ok (t', r') -> NoDup (leaf_taxa t) ->
  Permutation (leaf_taxa t) (leaf_taxa t')
  /\ (forall S, is_usplit t S <-> is_usplit t' S)
  /\ total_length t' = total_length t
  /\ (forall a b, dist a b t' = dist a b t).
Proof.
  intros H ND. unfold reseed_at in H. rewrite Z.eqb_refl in H. cbn [bind] in H. apply ok_inj in H.
  apply equivU_unfold. eapply post_reseed_equivU; eauto.
Qed.

(* reroot_at_midpoint: all four pairs of ex_t at the maximal distance 4 (and both orders) give the
   same result: whichever pair the library's set iteration happens to yield first *)
Lemma midpoint_tie_example :
  forall pr, In pr [(Some 0, Some 2); (Some 0, Some 3); (Some 1, Some 2); (Some 1, Some 3);
                    (Some 2, Some 0); (Some 3, Some 0); (Some 2, Some 1); (Some 3, Some 1)] ->
  reroot_at_midpoint ex_t None (Some pr) false true true 100 = Ok (dbl ex_t, Some true).
Proof.
  intros pr H. simpl in H.
  repeat (destruct H as [<-|H]; [vm_compute; reflexivity|]). contradiction.
Qed.
