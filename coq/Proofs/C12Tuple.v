(* C12, sixth wave: tuples whose members are all UNCHANGED by the copy - immutable values, memo seeds, atomic
   objects - get a recorded copy with IDENTICAL content (same class, same kind, the same value at every index):
   the case in which CPython's _deepcopy_tuple hands back the very same tuple object.  General form of the
   witness tuple_unchanged_same_content. *)
From Coq Require Import ZArith List Bool Lia.
From DV Require Import Model.PyPrims Model.C12Model Model.C12Spec2 Model.C12Spec3 Model.C12Spec4 Proofs.C12Heap Proofs.C12Inv
  Proofs.C12Copy Proofs.C12Wf Proofs.C12Proofs Proofs.C12Iso Proofs.C12Wf2 Proofs.C12IsoTop Proofs.C12Own Proofs.C12AnnDef
  Proofs.C12Own2 Proofs.C12Fun Proofs.C12Wf3 Proofs.C12AnnTop Proofs.C12FunTop Proofs.C12Image Proofs.C12ImageTop
  Proofs.C12IsoFull Proofs.C12IsoFullTop Proofs.C12NoAtom Proofs.C12Strict Proofs.C12StrictTop.
Import ListNotations.
Open Scope Z_scope.

Definition unchanged_val (h : heap) (seeds : list Z) (v : val) : Prop :=
  match v with P _ => True | R a => In a seeds \/ is_atomic h a = true end.

Lemma bget_same_of_In : forall b1 b2, NoDup (map fst b1) -> NoDup (map fst b2) ->
  (forall k v, In (k, v) b1 <-> In (k, v) b2) -> forall k, bget b1 k = bget b2 k.
Proof.
  intros b1 b2 N1 N2 EQ k.
  destruct (bget b1 k) as [v|] eqn:B1.
  - symmetry. apply nodup_In_bget; [exact N2|]. apply EQ. apply bget_In. exact B1.
  - destruct (bget b2 k) as [v|] eqn:B2; [|reflexivity].
    assert (X : bget b1 k = Some v) by (apply nodup_In_bget; [exact N1|]; apply EQ; apply bget_In; exact B2).
    congruence.
Qed.

Theorem tuple_unchanged_identical_l : forall nf h seeds root fuel s' y,
  wf_heap h seeds = true -> wf_heap2 h = true -> wf_heap3 h = true -> root_seeds_ok h seeds root = true ->
  memz root (owned_list h) = false -> 0 <= root < hlen h -> (length h < fuel)%nat ->
  run_seeded nf fuel h seeds root = Ok (s', R y) ->
  forall t t' ot, In (t, t') (sc s') -> hget h t = Some ot -> okind ot = KTuple ->
    (forall k v, In (k, v) (obody ot) -> unchanged_val h seeds v) ->
    exists ot', hget (sh s') t' = Some ot' /\ hlen h <= t' /\ ocls ot' = ocls ot /\ okind ot' = KTuple
      /\ (forall k v, In (k, v) (obody ot') <-> In (k, v) (obody ot))
      /\ (forall k, bget (obody ot') k = bget (obody ot) k)
      /\ length (obody ot') = length (obody ot).
Proof.
  intros nf h seeds root fuel s' y WF WF2 WF3 RS NO Hr Hf E t t' ot I G KT UN.
  destruct (deepcopy_bisimulation_l nf h seeds root fuel s' y WF WF2 NO Hr Hf E) as [_ [PAIR _]].
  destruct (deepcopy_single_valued_l nf h seeds root fuel s' y WF WF2 WF3 RS NO Hr Hf E) as [_ [SRC FND]].
  assert (NOATOM := recorded_not_atomic_l nf h seeds root fuel s' y WF WF2 NO Hr Hf E).
  assert (SND := wf2_nodup h WF2). assert (LK := wf2_listkeys h WF2).
  destruct (PAIR t t' I) as [Ht [Ht' [oa [ob [Ga [Gb [CE [KE [BACK FWD]]]]]]]]].
  assert (oa = ot) by congruence. subst oa.
  assert (KEYP : forall k v, In (k, v) (obody ot) -> exists p, k = P p).
  { intros k v Ikv. destruct (In_nth_error _ _ Ikv) as [n N].
    assert (X := LK t ot n (k, v) G (or_intror KT) N). simpl in X. subst k. unfold pidx. eauto. }
  assert (SAME : forall v v', unchanged_val h seeds v -> vrel (hlen h) (sc s') v v' -> v' = v).
  { intros [p|a] [q|b] U V; simpl in *; try contradiction; [congruence|].
    destruct V as [V|[V _]]; [|congruence]. exfalso.
    destruct U as [S|A]; [exact (proj2 (SRC a b V) S) | rewrite (NOATOM a b V) in A; discriminate]. }
  assert (SAMEK : forall k k', (exists p, k = P p) -> vrel (hlen h) (sc s') k k' -> k' = k).
  { intros k k' [p Ek] V. subst k. apply (SAME (P p) k'); [exact Logic.I | exact V]. }
  assert (NR : forall k, ~ rebuilt (okind ot) k).
  { intros k [[A _]|[A _]]; rewrite KT in A; discriminate. }
  assert (NC : forall k, ~ not_carried (okind ot) k).
  { intros k [[A _]|[A _]]; rewrite KT in A; discriminate. }
  assert (EQ : forall k v, In (k, v) (obody ob) <-> In (k, v) (obody ot)).
  { intros k v. split.
    - intro Ib. destruct (BACK k v Ib) as [RB|[k0 [v0 [I0 [VK VV]]]]]; [exfalso; exact (NR k RB)|].
      rewrite (SAMEK k0 k (KEYP k0 v0 I0) VK), (SAME v0 v (UN k0 v0 I0) VV). exact I0.
    - intro Ia. destruct (FWD k v Ia) as [RB|[k1 [v1 [I1 [VK VV]]]]]; [exfalso; exact (NC k RB)|].
      rewrite <- (SAMEK k k1 (KEYP k v Ia) VK), <- (SAME v v1 (UN k v Ia) VV). exact I1. }
  assert (N1 : NoDup (map fst (obody ob))) by (apply (FND t' ob); [lia | exact Gb]).
  assert (N2 := SND t ot G).
  exists ob. split; [exact Gb|]. split; [lia|]. split; [congruence|]. split; [congruence|]. split; [exact EQ|].
  split; [exact (bget_same_of_In _ _ N1 N2 EQ)|].
  assert (ND1 : NoDup (obody ob)) by (eapply NoDup_map_inv; exact N1).
  assert (ND2 : NoDup (obody ot)) by (eapply NoDup_map_inv; exact N2).
  apply Nat.le_antisymm; apply NoDup_incl_length; auto; intros [k v] Ikv; apply EQ; exact Ikv.
Qed.
