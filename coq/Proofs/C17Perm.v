(* C17: the statistics do not depend on the order of the children *)
From Coq Require Import ZArith QArith List Bool Lia ZifyBool Setoid Permutation.
From DV Require Import Model.PyPrims Model.Tree Model.C17Model Proofs.C17Ages Proofs.C17Depth Proofs.C17Stats.
Import ListNotations.
Open Scope Z_scope.

(* induction principle for the nested relation *)
Section TpermInd.
  Variable P : tree -> tree -> Prop.
  Hypothesis H : forall i x l e ks ks' ks'',
      Forall2 tperm ks ks' -> Forall2 P ks ks' -> Permutation ks' ks'' -> P (T i x l e ks) (T i x l e ks'').
  Fixpoint tperm_ind' (t t' : tree) (d : tperm t t') {struct d} : P t t' :=
    match d in tperm a b return P a b with
    | tperm_node i x l e ks ks' ks'' f p =>
      H i x l e ks ks' ks'' f
        ((fix go (a b : list tree) (f : Forall2 tperm a b) {struct f} : Forall2 P a b :=
            match f in Forall2 _ a0 b0 return Forall2 P a0 b0 with
            | Forall2_nil _ => Forall2_nil P
            | Forall2_cons u v hab hr => Forall2_cons u v (tperm_ind' u v hab) (go _ _ hr)
            end) ks ks' f) p
    end.
End TpermInd.

Lemma tperm_refl t : tperm t t.
Proof.
  induction t as [i x l e ks IH] using tree_ind'. apply tperm_node with (ks' := ks); [|apply Permutation_refl].
  induction IH; constructor; assumption.
Qed.

(* a reversed child list is a permutation *)
Lemma tperm_example :
  tperm (T 0 None None None [T 1 None None (Some 1) []; T 2 None None (Some 2) [T 3 None None None []; T 4 None None None []]])
        (T 0 None None None [T 2 None None (Some 2) [T 4 None None None []; T 3 None None None []]; T 1 None None (Some 1) []]).
Proof.
  eapply tperm_node.
  - constructor; [apply tperm_refl|]. constructor; [|constructor].
    eapply tperm_node; [|apply perm_swap]. constructor; [apply tperm_refl|]. constructor; [apply tperm_refl | constructor].
  - apply perm_swap.
Qed.

(* ------------------------------------------------------------------------------------------ *)
(* helpers                                                                                     *)

Lemma Forall2_length {X Y} (P : X -> Y -> Prop) l l' : Forall2 P l l' -> length l = length l'.
Proof. induction 1; cbn; congruence. Qed.

Lemma Forall2_map_eq {X} (g : tree -> X) (P : tree -> tree -> Prop) ks ks' :
  (forall a b, P a b -> g a = g b) -> Forall2 P ks ks' -> map g ks = map g ks'.
Proof. intros Hg H. induction H as [|a b r r' Hab _ IH]; [reflexivity|]. cbn. rewrite (Hg a b Hab), IH. reflexivity. Qed.

Lemma Forall2_sumQ (g : tree -> Q) (P : tree -> tree -> Prop) ks ks' :
  (forall a b, P a b -> (g a == g b)%Q) -> Forall2 P ks ks' -> (sumQ (map g ks) == sumQ (map g ks'))%Q.
Proof. intros Hg H. induction H as [|a b r r' Hab _ IH]; [reflexivity|]. cbn [map]. rewrite !sumQ_cons, (Hg a b Hab), IH. reflexivity. Qed.

Lemma perm_sumQ (l l' : list Q) : Permutation l l' -> (sumQ l == sumQ l')%Q.
Proof.
  induction 1 as [|a l l' _ IH|a b l|l l' l'' _ IH1 _ IH2]; [reflexivity| | |].
  - rewrite !sumQ_cons, IH. reflexivity.
  - rewrite !sumQ_cons. ring.
  - rewrite IH1. exact IH2.
Qed.

Lemma perm_sumZ (l l' : list Z) : Permutation l l' -> sumZ l = sumZ l'.
Proof.
  induction 1 as [|a l l' _ IH|a b l|l l' l'' _ IH1 _ IH2]; [reflexivity| | |].
  - rewrite !sumZ_cons, IH. reflexivity.
  - rewrite !sumZ_cons. lia.
  - rewrite IH1. exact IH2.
Qed.

Lemma maxl_perm x r y s : Permutation (x :: r) (y :: s) -> maxl x r = maxl y s.
Proof.
  intro Hp. destruct (maxl_spec x r) as [Hin Hle]. destruct (maxl_spec y s) as [Hin' Hle'].
  assert (maxl x r <= maxl y s) by (apply Hle'; eapply Permutation_in; [exact Hp | exact Hin]).
  assert (maxl y s <= maxl x r) by (apply Hle; eapply Permutation_in; [apply Permutation_sym; exact Hp | exact Hin']).
  lia.
Qed.

Lemma Forall2_perm_flat {Y} (f : tree -> list Y) (P : tree -> tree -> Prop) ks ks' :
  (forall a b, P a b -> Permutation (f a) (f b)) -> Forall2 P ks ks' -> Permutation (flat_map f ks) (flat_map f ks').
Proof.
  intros Hf H. induction H as [|a b r r' Hab _ IH]; [constructor|]. cbn [flat_map]. apply Permutation_app; [apply Hf; exact Hab | exact IH].
Qed.

Lemma rseq_ok_inv {X} (l : list (res X)) rs : rsequence l = Ok rs -> l = map Ok rs.
Proof.
  revert rs. induction l as [|a l IH]; intros rs H.
  - cbn in H. inversion H. reflexivity.
  - cbn [rsequence] in H. destruct a as [v| |]; try discriminate. destruct (rsequence l) as [vs| |]; try discriminate.
    inversion H. cbn. rewrite (IH vs eq_refl). reflexivity.
Qed.

Lemma rseq_ok_map {X} (rs : list X) : rsequence (map Ok rs) = Ok rs.
Proof. induction rs as [|a rs IH]; [reflexivity|]. cbn. rewrite IH. reflexivity. Qed.

(* the results of the children, up to the order *)
Lemma rseq_tperm {X} (g : tree -> res X) ks ks' ks'' rs :
  Forall2 (fun a b => forall v, g a = Ok v -> g b = Ok v) ks ks' -> Permutation ks' ks'' ->
  rsequence (map g ks) = Ok rs ->
  exists rs'', rsequence (map g ks'') = Ok rs'' /\ Permutation rs rs''.
Proof.
  intros HF HP E. apply rseq_ok_inv in E.
  assert (E' : map g ks' = map Ok rs).
  { clear HP. revert rs E. induction HF as [|a b r r' Hab _ IH]; intros rs E.
    - destruct rs; [reflexivity | discriminate].
    - destruct rs as [|v rs]; [discriminate|]. cbn in E. inversion E as [[E1 E2]]. cbn. rewrite (Hab v E1), (IH rs E2). reflexivity. }
  assert (HP' : Permutation (map Ok rs) (map g ks'')).
  { rewrite <- E'. apply Permutation_map. exact HP. }
  apply Permutation_sym in HP'. apply Permutation_map_inv in HP'. destruct HP' as [rs'' [E'' HP'']].
  exists rs''. split; [rewrite E''; apply rseq_ok_map | exact HP''].
Qed.

Lemma tperm_root t t' : tperm t t' ->
  t_id t = t_id t' /\ t_len t = t_len t' /\ is_leaf t = is_leaf t' /\ length (t_kids t) = length (t_kids t').
Proof.
  intro H. destruct H as [i x l e ks ks' ks'' HF HP]. cbn.
  pose proof (Forall2_length _ _ _ HF) as L1. pose proof (Permutation_length HP) as L2.
  repeat split; try lia. unfold is_leaf. cbn. destruct ks, ks''; cbn in *; try reflexivity; lia.
Qed.

(* ------------------------------------------------------------------------------------------ *)
(* B1                                                                                          *)

Lemma mi_b1_tperm t t' : tperm t t' -> mi t = mi t' /\ (b1_sub t == b1_sub t')%Q.
Proof.
  intro H. induction H as [i x l e ks ks' ks'' HF IH HP] using tperm_ind'.
  assert (Emi : map mi ks = map mi ks') by (apply (Forall2_map_eq mi _ _ _ (fun a b H => proj1 H) IH)).
  assert (Pmi : Permutation (map mi ks) (map mi ks'')) by (rewrite Emi; apply Permutation_map; exact HP).
  assert (Hmi : mi (T i x l e ks) = mi (T i x l e ks'')).
  { destruct ks as [|k r]; destruct ks'' as [|k2 r2].
    - reflexivity.
    - apply Permutation_length in Pmi. discriminate.
    - apply Permutation_length in Pmi. discriminate.
    - cbn [mi]. cbn [map] in Pmi. rewrite (maxl_perm _ _ _ _ Pmi). reflexivity. }
  split; [exact Hmi|].
  assert (Hs : (sumQ (map b1_sub ks) == sumQ (map b1_sub ks''))%Q).
  { rewrite (Forall2_sumQ b1_sub _ ks ks' (fun a b H => proj2 H) IH). apply perm_sumQ. apply Permutation_map. exact HP. }
  destruct ks as [|k r]; destruct ks'' as [|k2 r2].
  - reflexivity.
  - apply Permutation_length in Pmi. discriminate.
  - apply Permutation_length in Pmi. discriminate.
  - change (b1_sub (T i x l e (k :: r))) with (sumQ (map b1_sub (k :: r)) + (1 # Z.to_pos (mi (T i x l e (k :: r)))))%Q.
    change (b1_sub (T i x l e (k2 :: r2))) with (sumQ (map b1_sub (k2 :: r2)) + (1 # Z.to_pos (mi (T i x l e (k2 :: r2)))))%Q.
    rewrite Hmi, Hs. reflexivity.
Qed.

Lemma B1_tperm t t' : tperm t t' -> (B1 t == B1 t')%Q.
Proof.
  intro H. destruct H as [i x l e ks ks' ks'' HF HP]. unfold B1. cbn [t_kids].
  rewrite (Forall2_sumQ b1_sub _ ks ks' (fun a b H => proj2 (mi_b1_tperm a b H)) HF).
  apply perm_sumQ. apply Permutation_map. exact HP.
Qed.

(* ------------------------------------------------------------------------------------------ *)
(* Sackin, N_bar                                                                               *)

Lemma leaf_depths_tperm t t' : tperm t t' -> forall d, Permutation (leaf_depths d t) (leaf_depths d t').
Proof.
  intro H. induction H as [i x l e ks ks' ks'' HF IH HP] using tperm_ind'. intro d.
  pose proof (Forall2_length _ _ _ HF) as L1. pose proof (Permutation_length HP) as L2.
  destruct ks as [|k r]; destruct ks'' as [|k2 r2]; try (cbn in *; destruct ks'; cbn in *; lia).
  - apply Permutation_refl.
  - change (leaf_depths d (T i x l e (k :: r))) with (flat_map (leaf_depths (d + 1)) (k :: r)).
    change (leaf_depths d (T i x l e (k2 :: r2))) with (flat_map (leaf_depths (d + 1)) (k2 :: r2)).
    eapply Permutation_trans.
    + apply (Forall2_perm_flat (leaf_depths (d + 1)) (fun a b => forall d0, Permutation (leaf_depths d0 a) (leaf_depths d0 b)) _ _ (fun a b H => H (d + 1)) IH).
    + apply Permutation_flat_map. exact HP.
Qed.

Lemma sackin_tperm w nm t t' : tperm t t' -> sackin_index w nm t = sackin_index w nm t' /\ N_bar t = N_bar t'.
Proof.
  intro H. pose proof (leaf_depths_tperm t t' H 0) as Hp.
  unfold sackin_index, N_bar. rewrite (perm_sumZ _ _ Hp), (Permutation_length Hp). split; reflexivity.
Qed.

(* ------------------------------------------------------------------------------------------ *)
(* Tree.length                                                                                 *)

Lemma tree_length_tperm t t' : tperm t t' -> tree_length t = tree_length t'.
Proof.
  intro H. induction H as [i x l e ks ks' ks'' HF IH HP] using tperm_ind'. cbn [tree_length]. f_equal.
  change (fold_right Z.add 0 (map tree_length ks)) with (sumZ (map tree_length ks)).
  change (fold_right Z.add 0 (map tree_length ks'')) with (sumZ (map tree_length ks'')).
  rewrite (Forall2_map_eq tree_length _ ks ks' (fun a b H => H) IH). apply perm_sumZ. apply Permutation_map. exact HP.
Qed.

(* ------------------------------------------------------------------------------------------ *)
(* Colless                                                                                     *)

Lemma colless_sub_tperm t t' : tperm t t' -> forall v, colless_sub t = Ok v -> colless_sub t' = Ok v.
Proof.
  intro H. induction H as [i x l e ks ks' ks'' HF IH HP] using tperm_ind'. intros v E.
  pose proof (Forall2_length _ _ _ HF) as L1. pose proof (Permutation_length HP) as L2.
  destruct ks as [|k0 r].
  { destruct ks'; [|discriminate]. apply Permutation_nil in HP. subst ks''. exact E. }
  change (colless_sub (T i x l e (k0 :: r))) with
    (match rsequence (map colless_sub (k0 :: r)) with
     | Ok [(cl, nl); (cr, nr)] => Ok ((cl + cr + Z.abs (nr - nl))%Z, (nl + nr)%Z)
     | Ok [_] => Err IndexErr
     | Ok _ => Err TypeErr
     | Err e => Err e
     | OutOfFuel => OutOfFuel
     end) in E.
  destruct (rsequence (map colless_sub (k0 :: r))) as [rs| |] eqn:Er; try discriminate.
  destruct (rseq_tperm colless_sub _ _ _ _ IH HP Er) as [rs'' [Er'' Hp]].
  destruct ks'' as [|k2 r2]; [destruct ks'; cbn in *; lia|].
  change (colless_sub (T i x l e (k2 :: r2))) with
    (match rsequence (map colless_sub (k2 :: r2)) with
     | Ok [(cl, nl); (cr, nr)] => Ok ((cl + cr + Z.abs (nr - nl))%Z, (nl + nr)%Z)
     | Ok [_] => Err IndexErr
     | Ok _ => Err TypeErr
     | Err e => Err e
     | OutOfFuel => OutOfFuel
     end).
  rewrite Er''.
  destruct rs as [|[cl n1] rs]; [discriminate|]. destruct rs as [|[cr n2] rs]; [discriminate|].
  destruct rs as [|? rs]; [|discriminate].
  apply Permutation_length_2_inv in Hp. destruct Hp as [-> | ->].
  - exact E.
  - inversion E. f_equal. f_equal; lia.
Qed.

Lemma colless_tperm w nm t t' : tperm t t' -> forall q, colless_tree_imbalance w nm t = Ok q -> colless_tree_imbalance w nm t' = Ok q.
Proof.
  intros H q. unfold colless_tree_imbalance. destruct (colless_sub t) as [[c n]| |] eqn:E; try discriminate.
  rewrite (colless_sub_tperm t t' H _ E). intro Hq. exact Hq.
Qed.

(* ------------------------------------------------------------------------------------------ *)
(* treeness                                                                                    *)

Lemma tre_sub_tperm t t' : tperm t t' -> forall v, tre_sub t = Ok v -> tre_sub t' = Ok v.
Proof.
  intro H. induction H as [i x l e ks ks' ks'' HF IH HP] using tperm_ind'. intros v E.
  pose proof (Forall2_length _ _ _ HF) as L1. pose proof (Permutation_length HP) as L2.
  cbn [tre_sub] in *.
  destruct (rsequence (map tre_sub ks)) as [rs| |] eqn:Er; try discriminate.
  destruct (rseq_tperm tre_sub _ _ _ _ IH HP Er) as [rs'' [Er'' Hp]]. rewrite Er''.
  destruct e as [len|]; [|discriminate].
  rewrite <- (perm_sumZ _ _ (Permutation_map fst Hp)), <- (perm_sumZ _ _ (Permutation_map snd Hp)).
  destruct ks as [|k0 r]; destruct ks'' as [|k2 r2]; try (destruct ks'; cbn in *; lia); exact E.
Qed.

Lemma treeness_tperm t t' : tperm t t' -> forall q, treeness t = Ok q -> treeness t' = Ok q.
Proof.
  intros H q. destruct H as [i x l e ks ks' ks'' HF HP]. unfold treeness. cbn [t_kids].
  destruct (rsequence (map tre_sub ks)) as [rs| |] eqn:Er; try discriminate.
  assert (IH : Forall2 (fun a b => forall v, tre_sub a = Ok v -> tre_sub b = Ok v) ks ks').
  { clear - HF. induction HF; constructor; [apply tre_sub_tperm; assumption | assumption]. }
  destruct (rseq_tperm tre_sub _ _ _ _ IH HP Er) as [rs'' [Er'' Hp]]. rewrite Er''.
  rewrite <- (perm_sumZ _ _ (Permutation_map fst Hp)), <- (perm_sumZ _ _ (Permutation_map snd Hp)). intro E. exact E.
Qed.

(* ------------------------------------------------------------------------------------------ *)

Lemma stats_child_order_invariant_l : forall t t', tperm t t' ->
  (B1 t == B1 t')%Q
  /\ (forall w nm q, colless_tree_imbalance w nm t = Ok q -> colless_tree_imbalance w nm t' = Ok q)
  /\ (forall w nm, sackin_index w nm t = sackin_index w nm t')
  /\ N_bar t = N_bar t'
  /\ (forall q, treeness t = Ok q -> treeness t' = Ok q)
  /\ tree_length t = tree_length t'.
Proof.
  intros t t' H. split; [apply B1_tperm; exact H|]. split; [intros w nm; apply colless_tperm; exact H|].
  split; [intros w nm; apply (sackin_tperm w nm t t' H)|]. split; [apply (sackin_tperm (mkTr 0 0 0 0 0) NNone t t' H)|].
  split; [apply treeness_tperm; exact H | apply tree_length_tperm; exact H].
Qed.
