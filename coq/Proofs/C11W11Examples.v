(* C11, wave 11: the hypotheses of the matrix history corollary and of the DataSet.read theorems are satisfiable
   (history 3 of wave 8: namespace 1 is case-insensitive; the matrix 0 is migrated into it by label at step 22). *)
From Coq Require Import List Bool Arith ZArith.
From DV Require Import Model.PyPrims Model.C11Model Model.C11W7Model Model.C11W8Model Proofs.C11W8Examples
  Proofs.C11W9First Proofs.C11W9Step Proofs.C11W9Examples Proofs.C11W9Hist Proofs.C11W9Read Proofs.C11Final
  Proofs.C11W11Mat Proofs.C11W11Read.
Import ListNotations.
Open Scope nat_scope.

Definition w11_x : xstate := run_state8 w8_lower x_init (firstn 23 w8_history3).
Definition w11_ops : list op8 := firstn 7 (skipn 23 w8_history3).
Definition w11_y : xstate := run_state8 w8_lower w11_x w11_ops.
Definition w11_rd : op := DsReadTrees 0 Newick false None [[3; 2]; [2; 1]].
Definition w11_rf : op := DsReadFasta 0 None [2; 4].

(* the by-label migration of matrix 0 into namespace 1 (step 22) makes it resolved; tree 1 was made under namespace 1;
   the next seven operations (a data set is made and attached to namespace 1, the matrix is added to it, two tree
   lists are made, a refused and a successful FASTA read into namespace 1) neither purge nor
   re-write them *)
Lemma w11_mat_history_example_l :
  taxa_wfb w9_xm = true /\ imports8 w9_xm (Op7 (Base (MigrateMat 0 1 true))) = Some (RMat 1 [] 0)
  /\ step8 w8_lower w9_xm (Op7 (Base (MigrateMat 0 1 true))) = (w11_x, OUnit)
  /\ taxa_wfb w11_x = true
  /\ canon_mat w8_lower (x_st w11_x) 0 /\ canon w8_lower (x_st w11_x) 1
  /\ m_ns (getmat (x_st w11_x) 0) = t_ns (gettree (x_st w11_x) 1)
  /\ w11_ops = [Op7 (Base NewDs); Op7 (Base (Attach 0 1)); Op7 (Base (DsAdd 0 (ObjMat 0))); Op7 (Base (DsNewList 0 (Some 0)));
                Op7 (Base (DsNewList 0 (Some 1))); Op7 (Base (DsReadFasta 0 (Some 2) [0; 1]));
                Op7 (Base (DsReadFasta 0 None [0; 1]))]
  /\ quiet_hist_mat w8_lower w11_x w11_ops 0 /\ quiet_hist w8_lower w11_x w11_ops 1
  /\ members (x_st w11_y) 1 = [2; 3; 6]
  /\ m_rows (getmat (x_st w11_y) 0) = [2] /\ t_refs (gettree (x_st w11_y) 1) = [2; 3]
  /\ canon_matb w8_lower (x_st w11_y) 1 = true.
Proof.
  split; [vm_compute; reflexivity|]. split; [vm_compute; reflexivity|]. split; [vm_compute; reflexivity|].
  split; [vm_compute; reflexivity|]. split; [apply canon_matb_sound; vm_compute; reflexivity|].
  split; [apply canonb_sound; vm_compute; reflexivity|]. split; [vm_compute; reflexivity|]. split; [vm_compute; reflexivity|].
  split; [cbn; repeat split; auto|]. split; [cbn; repeat split; auto|]. vm_compute. repeat split.
Qed.

(* DataSet.read into the attached namespace 1 (a C b, no duplicate labels): trees 4 and 5 / matrix 2 are made over
   the existing members *)
Lemma w11_ds_read_example_l :
  let st := x_st w11_y in
  closedb st = true /\ taxa_wfb w11_y = true /\ uniqb w8_lower st 1 = true
  /\ valid_ds st 0 && valid_nsopt st None = true /\ ds_read_ns st 0 None = Some (st, 1) /\ s_nns st = 3
  /\ length (s_trees st) = 4 /\ length (s_mats st) = 2
  /\ snd (step w8_lower st w11_rd) = OUnit
  /\ map (fun t => (t_ns (gettree (fst (step w8_lower st w11_rd)) t), t_refs (gettree (fst (step w8_lower st w11_rd)) t))) [4; 5]
     = [(1, [2; 3]); (1, [3; 6])]
  /\ snd (step w8_lower st w11_rf) = OUnit
  /\ getmat (fst (step w8_lower st w11_rf)) 2 = mkMat 1 [3; 6].
Proof. vm_compute. repeat split. Qed.

(* why new_sequence / []= count as re-writing the matrix: namespace 0 of history 0 holds  A B a C A a ; a new matrix
   under it is (vacuously) resolved; new_sequence(taxon 2 = the first "a") succeeds - the taxon is a member - and the
   matrix is no longer resolved, because the first member matching "a" is taxon 0 = "A" *)
Definition w11_z : xstate := fst (step8 w8_lower w9_xb (Op7 (Base (NewMat 0)))).
Definition w11_m : oid := length (s_mats (x_st w9_xb)).

Lemma w11_touched_needed_l :
  exists (x : xstate) (o : op8) (m : oid),
    taxa_wf x /\ is_purge8 o = false /\ o = Op7 (Base (NewSeq m 2)) /\ snd (step8 w8_lower x o) = OUnit
    /\ canon_mat w8_lower (x_st x) m /\ ~ canon_mat w8_lower (x_st (fst (step8 w8_lower x o))) m.
Proof.
  exists w11_z, (Op7 (Base (NewSeq w11_m 2))), w11_m.
  split; [apply taxa_wfb_sound; vm_compute; reflexivity|]. split; [reflexivity|]. split; [reflexivity|].
  split; [vm_compute; reflexivity|]. split; [apply canon_matb_sound; vm_compute; reflexivity|].
  intros [_ [_ C]]. specialize (C 2). vm_compute in C. specialize (C (or_introl eq_refl)). discriminate C.
Qed.
