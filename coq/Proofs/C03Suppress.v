(* C03 proofs: Tree.suppress_unifurcations keeps well-formedness and refines spec_su. *)
From Coq Require Import ZArith List Bool Lia Permutation.
From DV Require Import Model.PyPrims Model.Tree Model.Heap Model.HeapOps Model.C03Spec
  Proofs.C03Base Proofs.C03Abs Proofs.C03Local Proofs.C03Prims.
Import ListNotations. Open Scope Z_scope.

(* ---------- small facts ---------- *)

Lemma ids_bump b t : ids (bump b t) = ids t.
Proof. destruct t. reflexivity. Qed.

Lemma t_id_bump b t : t_id (bump b t) = t_id t.
Proof. destruct t. reflexivity. Qed.

Lemma t_kids_bump b t : t_kids (bump b t) = t_kids t.
Proof. destruct t. reflexivity. Qed.

Lemma pres_upd_cell i f h : pres h (upd_cell i f h).
Proof. repeat split. Qed.

(* a well-formed tree is not affected by writes to cells outside it *)
Lemma wr_frame S h h' t :
  Wr h t -> same_off S h h' -> grows h h' -> (forall j, In j (ids t) -> ~ In j S) -> Wr h' t.
Proof.
  intros [R [N B]] A G D. split; [|split].
  - eapply rep_frame_off; eauto.
  - exact N.
  - intros i Hi. specialize (B i Hi). destruct G as [_ G]. lia.
Qed.

Lemma add_len_none_frame p b h :
  pres h (add_len_none p b h) /\ grows h (add_len_none p b h).
Proof.
  unfold add_len_none. destruct b as [z|].
  - split; [apply pres_upd_cell|unfold set_elen; frame_solve].
  - split; [apply pres_refl|apply grows_refl].
Qed.

Lemma add_len_none_wf h c p x l e ks b :
  Wr h (plug c (T p x l e ks)) ->
  Wr (add_len_none p b h) (plug c (T p x l (bump_len b e) ks)).
Proof.
  intro W. destruct (wr_focus _ _ _ _ _ _ _ W) as [_ [Gp _]].
  unfold add_len_none, bump_len. destruct b as [z|]; [|exact W].
  replace (elen h p) with e by (unfold elen; rewrite Gp; reflexivity).
  apply (set_elen_wf h c p x l e ks). exact W.
Qed.

Lemma firstn_length_app {A} (a b : list A) : firstn (length a) (a ++ b) = a.
Proof. rewrite firstn_app, Nat.sub_diag, firstn_all. simpl. apply app_nil_r. Qed.

Lemma skipn_length_app {A} (a b : list A) : skipn (length a) (a ++ b) = b.
Proof. rewrite skipn_app, Nat.sub_diag, skipn_all. reflexivity. Qed.

(* ---------- one step on a unary node with a parent ---------- *)

Lemma su_step_unary h c q xq lq eq lft nd xn ln en k rgt :
  Wr h (plug c (T q xq lq eq (lft ++ T nd xn ln en [k] :: rgt))) ->
  exists h', su_step nd h = HOk h' /\
    Wr h' (plug c (T q xq lq eq (lft ++ bump en k :: rgt))) /\ pres h h' /\ grows h h'.
Proof.
  intro W. destruct k as [ck xk lk ek kk].
  change (bump en (T ck xk lk ek kk)) with (T ck xk lk (bump_len en ek) kk).
  set (k' := T ck xk lk (bump_len en ek) kk).
  (* facts about the cell of nd in h *)
  assert (Wn : Wr h (plug (CNode c q xq lq eq lft rgt) (T nd xn ln en [T ck xk lk ek kk]))) by exact W.
  destruct (wr_focus _ _ _ _ _ _ _ Wn) as [_ [Gn _]]. simpl in Gn.
  (* step A: the length moves down *)
  assert (W0 : Wr h (plug (CNode (CNode c q xq lq eq lft rgt) nd xn ln en [] []) (T ck xk lk ek kk)))
    by exact W.
  pose proof (add_len_none_wf h _ ck xk lk ek kk en W0) as W1.
  destruct (add_len_none_frame ck en h) as [P1 G1].
  set (h1 := add_len_none ck en h) in *. fold k' in W1.
  assert (W1n : Wr h1 (plug (CNode c q xq lq eq lft rgt) (T nd xn ln en [k']))) by exact W1.
  assert (W1q : Wr h1 (plug c (T q xq lq eq (lft ++ T nd xn ln en [k'] :: rgt)))) by exact W1.
  destruct (wr_focus _ _ _ _ _ _ _ W1n) as [_ [Gn1 _]]. simpl in Gn1.
  destruct (wr_focus _ _ _ _ _ _ _ W1q) as [_ [Gq1 _]]. rewrite map_app in Gq1. simpl in Gq1.
  (* disjointness *)
  pose proof W1 as [_ [N1 B1]]. apply nodup_plug in N1. destruct N1 as [Nk [Nc Dkc]].
  assert (Dkc' : forall j, In j (ids k') ->
            In j (nd :: q :: flat_map ids lft ++ flat_map ids rgt ++ cids c) -> False) by exact Dkc.
  clear Dkc. rename Dkc' into Dkc.
  assert (Nc' : NoDup (nd :: q :: flat_map ids lft ++ flat_map ids rgt ++ cids c)) by exact Nc.
  clear Nc. rename Nc' into Nc.
  apply NoDup_cons_iff in Nc. destruct Nc as [Nnd Nc]. simpl in Nnd.
  assert (Ncl : ~ In nd (map t_id lft)).
  { apply notin_map_of_flat. intro H. apply Nnd. right. apply in_app_iff. left. exact H. }
  (* step B: nd leaves the child list of q *)
  destruct (remove_child_plain_wf h1 c q xq lq eq lft (T nd xn ln en [k']) rgt W1q)
    as [h2 [E2 [W2 [R2 [A2 [G2 P2]]]]]]. simpl in E2.
  apply rep_eq in R2. destruct R2 as [_ [_ Fk2]]. inversion Fk2 as [|? ? Rk2 _]; subst.
  (* step C: the child takes its place *)
  assert (W3 : Wr (insert_child q (length lft) ck h2) (plug c (T q xq lq eq (lft ++ k' :: rgt)))).
  { pose proof (insert_child_attach h2 c q xq lq eq (lft ++ rgt) (length lft) (Some nd) k' W2 Rk2 Nk) as W3.
    rewrite firstn_length_app, skipn_length_app in W3. apply W3.
    - intros j Hj Hp. apply in_plug in Hp. apply (Dkc j Hj). right.
      rewrite ids_eq, flat_map_app in Hp. simpl in Hp. simpl. rewrite !in_app_iff in *. tauto.
    - intros j Hj. destruct P2 as [P2 _]. rewrite P2. apply B1. apply in_plug. left. exact Hj. }
  destruct (insert_child_frame q (length lft) ck h2) as [A3 [G3 P3]].
  set (h3 := insert_child q (length lft) ck h2) in *.
  (* step D: the stale parent pointer of nd is cleared *)
  set (h4 := set_parent nd None h3).
  assert (W4 : Wr h4 (plug c (T q xq lq eq (lft ++ k' :: rgt)))).
  { apply (wr_frame [nd] h3 h4 _ W3).
    - unfold h4, set_parent. frame_solve.
    - unfold h4, set_parent. frame_solve.
    - intros j Hj [<-|[]]. apply in_plug in Hj. rewrite ids_focus in Hj.
      destruct Hj as [Hj|Hj].
      + destruct Hj as [Hj|Hj]; [apply Nnd; left; auto|].
        rewrite !in_app_iff in Hj. destruct Hj as [Hj|[Hj|Hj]].
        * apply Nnd. right. rewrite !in_app_iff. tauto.
        * apply (Dkc _ Hj). left. reflexivity.
        * apply Nnd. right. rewrite !in_app_iff. tauto.
      + apply Nnd. right. rewrite !in_app_iff. tauto. }
  exists h4. split; [|split; [exact W4|split]].
  - unfold su_step.
    replace (kids h nd) with [ck] by (unfold kids; rewrite Gn; reflexivity).
    cbv beta iota zeta.
    replace (elen h nd) with en by (unfold elen; rewrite Gn; reflexivity).
    fold h1.
    replace (parent h1 nd) with (Some q) by (unfold parent; rewrite Gn1; reflexivity).
    cbv beta iota.
    replace (kids h1 q) with (map t_id lft ++ nd :: map t_id rgt) by (unfold kids; rewrite Gq1; reflexivity).
    rewrite index_of_app_notin by exact Ncl. cbv beta iota.
    rewrite E2, map_length. reflexivity.
  - eapply pres_trans; [exact P1|]. eapply pres_trans; [exact P2|]. eapply pres_trans; [exact P3|].
    apply pres_upd_cell.
  - eapply grows_trans; [exact G1|]. eapply grows_trans; [exact G2|]. eapply grows_trans; [exact G3|].
    apply grows_upd_cell.
Qed.

(* ---------- one step on a unary root: the seed moves to the child ---------- *)

Lemma su_step_root_unary h nd xn ln en k :
  WFt h (T nd xn ln en [k]) ->
  exists h', su_step nd h = HOk h' /\ WFt h' (bump en k) /\ next h' = next h /\ rooted h' = rooted h /\ grows h h'.
Proof.
  intros [W Sd]. destruct k as [ck xk lk ek kk].
  change (bump en (T ck xk lk ek kk)) with (T ck xk lk (bump_len en ek) kk).
  set (k' := T ck xk lk (bump_len en ek) kk).
  assert (Wn : Wr h (plug CTop (T nd xn ln en [T ck xk lk ek kk]))) by exact W.
  destruct (wr_focus _ _ _ _ _ _ _ Wn) as [_ [Gn _]]. simpl in Gn.
  assert (W0 : Wr h (plug (CNode CTop nd xn ln en [] []) (T ck xk lk ek kk))) by exact W.
  pose proof (add_len_none_wf h _ ck xk lk ek kk en W0) as W1.
  destruct (add_len_none_frame ck en h) as [P1 G1].
  set (h1 := add_len_none ck en h) in *. fold k' in W1.
  assert (W1n : Wr h1 (plug CTop (T nd xn ln en [k']))) by exact W1.
  destruct (wr_focus _ _ _ _ _ _ _ W1n) as [_ [Gn1 _]]. simpl in Gn1.
  pose proof W1 as [R1 [N1 B1]].
  apply rep_plug in R1. destruct R1 as [_ Rk1]. simpl in Rk1.
  apply nodup_plug in N1. destruct N1 as [Nk _].
  set (h' := set_parent ck None (set_seed ck (set_parent ck None h1))).
  assert (G' : grows h1 h') by (unfold h', set_parent; frame_solve).
  exists h'. split; [|split; [split; [split; [|split]|]|split; [|split]]].
  - unfold su_step.
    replace (kids h nd) with [ck] by (unfold kids; rewrite Gn; reflexivity).
    cbv beta iota zeta.
    replace (elen h nd) with en by (unfold elen; rewrite Gn; reflexivity).
    fold h1.
    replace (parent h1 nd) with (@None Z) by (unfold parent; rewrite Gn1; reflexivity).
    cbv beta iota. unfold set_seed_node, set_parent_node. cbv zeta.
    replace (parent (set_seed ck (set_parent ck None h1)) ck) with (@None Z)
      by (unfold parent; rewrite get_set_seed, get_set_parent, Z.eqb_refl; reflexivity).
    reflexivity.
  - apply (rep_reparent h1 h' (Some nd) None k' Rk1 Nk (proj1 G')).
    + simpl t_id. unfold h'. rewrite get_set_parent, Z.eqb_refl.
      unfold kids, elen, taxon, label. rewrite !get_set_seed, !get_set_parent, !Z.eqb_refl. reflexivity.
    + simpl t_id. intros j Hj Dj. unfold h'.
      rewrite get_set_parent, (eqb_neq_l _ _ Dj), get_set_seed, get_set_parent, (eqb_neq_l _ _ Dj).
      reflexivity.
  - exact Nk.
  - intros j Hj. change (next h') with (next h1). apply B1. apply in_plug. left. exact Hj.
  - reflexivity.
  - change (next h') with (next h1). apply P1.
  - change (rooted h') with (rooted h1). apply P1.
  - eapply grows_trans; [exact G1|exact G'].
Qed.

Lemma su_step_other h nd : (forall ch, kids h nd <> [ch]) -> su_step nd h = HOk h.
Proof.
  intro H. unfold su_step. destruct (kids h nd) as [|a [|b r]] eqn:E; try reflexivity.
  exfalso. apply (H a). reflexivity.
Qed.

(* ---------- the postorder loop ---------- *)

Lemma post_ids_eq j x l e ks : post_ids (T j x l e ks) = flat_map post_ids ks ++ [j].
Proof.
  unfold post_ids. simpl. rewrite map_app. simpl. f_equal.
  induction ks as [|k r IH]; simpl; [reflexivity|]. rewrite map_app, IH. reflexivity.
Qed.

Lemma hfold_app f a b h : hfold f (a ++ b) h = hbind (hfold f a h) (hfold f b).
Proof.
  revert h. induction a as [|y r IH]; intro h; simpl; [reflexivity|].
  destruct (f y h) as [h1|er h1|]; simpl; [apply IH|reflexivity|reflexivity].
Qed.

Lemma spec_su_eq i x l e ks :
  spec_su (T i x l e ks) =
  match map spec_su ks with
  | [k] => bump e k
  | ks' => T i x l e ks'
  end.
Proof. reflexivity. Qed.

Definition su_P (s : tree) : Prop :=
  forall h c i x l e lft rgt,
  Wr h (plug (CNode c i x l e lft rgt) s) ->
  exists h', hfold su_step (post_ids s) h = HOk h' /\
    Wr h' (plug (CNode c i x l e lft rgt) (spec_su s)) /\ pres h h' /\ grows h h'.

(* the children of the focused node j, left to right; dn = the already processed ones *)
Lemma su_kids_loop c j xj lj ej : forall todo, Forall su_P todo -> forall dn h,
  Wr h (plug c (T j xj lj ej (dn ++ todo))) ->
  exists h', hfold su_step (flat_map post_ids todo) h = HOk h' /\
    Wr h' (plug c (T j xj lj ej (dn ++ map spec_su todo))) /\ pres h h' /\ grows h h'.
Proof.
  induction 1 as [|k r Pk Pr IH]; intros dn h W.
  - exists h. simpl. split; [reflexivity|split; [exact W|split; [apply pres_refl|apply grows_refl]]].
  - simpl flat_map. rewrite hfold_app.
    destruct (Pk h c j xj lj ej dn r W) as [h1 [E1 [W1 [P1 G1]]]].
    rewrite E1. cbn [hbind].
    assert (W1' : Wr h1 (plug c (T j xj lj ej ((dn ++ [spec_su k]) ++ r)))).
    { rewrite <- app_assoc. exact W1. }
    destruct (IH (dn ++ [spec_su k]) h1 W1') as [h2 [E2 [W2 [P2 G2]]]].
    exists h2. split; [exact E2|split; [|split]].
    + rewrite <- app_assoc in W2. exact W2.
    + eapply pres_trans; eauto.
    + eapply grows_trans; eauto.
Qed.

(* the step at the node itself, once its children are final *)
Lemma su_self_step h c i x l e lft rgt j xj lj ej ks' :
  Wr h (plug (CNode c i x l e lft rgt) (T j xj lj ej ks')) ->
  exists h', su_step j h = HOk h' /\
    Wr h' (plug (CNode c i x l e lft rgt)
                (match ks' with [k] => bump ej k | _ => T j xj lj ej ks' end)) /\
    pres h h' /\ grows h h'.
Proof.
  intro W. destruct (wr_focus _ _ _ _ _ _ _ W) as [_ [Gj _]].
  assert (Kj : kids h j = map t_id ks') by (unfold kids; rewrite Gj; reflexivity).
  destruct ks' as [|k [|k2 r]].
  - exists h. split; [|split; [exact W|split; [apply pres_refl|apply grows_refl]]].
    apply su_step_other. intro ch. rewrite Kj. discriminate.
  - exact (su_step_unary h c i x l e lft j xj lj ej k rgt W).
  - exists h. split; [|split; [exact W|split; [apply pres_refl|apply grows_refl]]].
    apply su_step_other. intro ch. rewrite Kj. discriminate.
Qed.

Lemma su_fold_sub_P : forall s, su_P s.
Proof.
  induction s as [j xj lj ej ks IH] using tree_ind'. intros h c i x l e lft rgt W.
  rewrite post_ids_eq, hfold_app.
  destruct (su_kids_loop (CNode c i x l e lft rgt) j xj lj ej ks IH [] h W) as [h1 [E1 [W1 [P1 G1]]]].
  rewrite E1. cbn [hbind].
  assert (W1' : Wr h1 (plug (CNode c i x l e lft rgt) (T j xj lj ej (map spec_su ks)))) by exact W1.
  destruct (su_self_step h1 c i x l e lft rgt j xj lj ej (map spec_su ks) W1') as [h2 [E2 [W2 [P2 G2]]]].
  exists h2. split; [|split; [|split]].
  - simpl. rewrite E2. reflexivity.
  - rewrite spec_su_eq. destruct (map spec_su ks) as [|k [|k2 r]]; exact W2.
  - eapply pres_trans; eauto.
  - eapply grows_trans; eauto.
Qed.

Lemma su_fold_sub : forall s h c i x l e lft rgt,
  Wr h (plug (CNode c i x l e lft rgt) s) ->
  exists h', hfold su_step (post_ids s) h = HOk h' /\
    Wr h' (plug (CNode c i x l e lft rgt) (spec_su s)) /\ pres h h' /\ grows h h'.
Proof. exact su_fold_sub_P. Qed.

Theorem suppress_unifurcations_wf h t :
  WFt h t -> exists h', suppress_unifurcations h = HOk h' /\ WFt h' (spec_su t) /\
    next h' = next h /\ rooted h' = rooted h /\ grows h h'.
Proof.
  intro WF0. pose proof (abs_WFt _ _ WF0) as EA. destruct WF0 as [W Sd].
  unfold suppress_unifurcations, with_sub. change (abs_at h (seed h)) with (abs h). rewrite EA.
  destruct t as [i x l e ks]. simpl in Sd.
  rewrite post_ids_eq, hfold_app.
  assert (FP : Forall su_P ks) by (apply Forall_forall; intros k _; apply su_fold_sub_P).
  destruct (su_kids_loop CTop i x l e ks FP [] h W) as [h1 [E1 [W1 [P1 G1]]]].
  rewrite E1. cbn [hbind].
  assert (W1' : Wr h1 (T i x l e (map spec_su ks))) by exact W1.
  destruct P1 as [Pn [Pr Ps]].
  assert (WF1 : WFt h1 (T i x l e (map spec_su ks))).
  { split; [exact W1'|]. simpl. congruence. }
  rewrite spec_su_eq.
  assert (Kj : kids h1 i = map t_id (map spec_su ks)).
  { assert (Wt : Wr h1 (plug CTop (T i x l e (map spec_su ks)))) by exact W1'.
    destruct (wr_focus _ _ _ _ _ _ _ Wt) as [_ [Gj _]]. unfold kids. rewrite Gj. reflexivity. }
  destruct (map spec_su ks) as [|k [|k2 r]].
  - exists h1. split; [|split; [exact WF1|split; [exact Pn|split; [exact Pr|exact G1]]]].
    simpl. rewrite su_step_other; [reflexivity|]. intro ch. rewrite Kj. discriminate.
  - destruct (su_step_root_unary h1 i x l e k WF1) as [h2 [E2 [W2 [N2 [R2 G2]]]]].
    exists h2. split; [|split; [exact W2|split; [congruence|split; [congruence|]]]].
    + simpl. rewrite E2. reflexivity.
    + eapply grows_trans; eauto.
  - exists h1. split; [|split; [exact WF1|split; [exact Pn|split; [exact Pr|exact G1]]]].
    simpl. rewrite su_step_other; [reflexivity|]. intro ch. rewrite Kj. discriminate.
Qed.

(* ---------- tree-level facts about spec_su ---------- *)

Lemma leaf_taxa_bump b t : leaf_taxa (bump b t) = leaf_taxa t.
Proof. destruct t as [i x l e [|k r]]; reflexivity. Qed.

Lemma leaf_taxa_cons i x l e k r : leaf_taxa (T i x l e (k :: r)) = flat_map leaf_taxa (k :: r).
Proof. reflexivity. Qed.

Lemma leaf_taxa_spec_su t : leaf_taxa (spec_su t) = leaf_taxa t.
Proof.
  induction t as [i x l e ks IH] using tree_ind'. rewrite spec_su_eq.
  assert (FM : flat_map leaf_taxa (map spec_su ks) = flat_map leaf_taxa ks).
  { induction IH as [|k r Hk Hr IHr]; simpl; [reflexivity|]. rewrite Hk, IHr. reflexivity. }
  destruct ks as [|k [|k2 r]].
  - reflexivity.
  - simpl map. cbv beta iota. rewrite leaf_taxa_bump, leaf_taxa_cons. simpl. rewrite app_nil_r.
    inversion IH; subst. assumption.
  - change (map spec_su (k :: k2 :: r)) with (spec_su k :: spec_su k2 :: map spec_su r) in *.
    rewrite !leaf_taxa_cons. exact FM.
Qed.

Lemma preorder_eq i x l e ks : preorder (T i x l e ks) = T i x l e ks :: flat_map preorder ks.
Proof. reflexivity. Qed.

Lemma preorder_root t : In t (preorder t).
Proof. destruct t. rewrite preorder_eq. left. reflexivity. Qed.

Lemma preorder_kids t : preorder t = t :: flat_map preorder (t_kids t).
Proof. destruct t. reflexivity. Qed.

(* no node of the result has exactly one child *)
Lemma spec_su_no_unary : forall t, forall s, In s (preorder (spec_su t)) -> forall k, t_kids s <> [k].
Proof.
  induction t as [i x l e ks IH] using tree_ind'. intros s Hs k0.
  rewrite spec_su_eq in Hs. rewrite Forall_forall in IH.
  assert (Sub : forall s', In s' (flat_map preorder (map spec_su ks)) -> t_kids s' <> [k0]).
  { intros s' H. apply in_flat_map in H. destruct H as [u [Hu Hs']].
    apply in_map_iff in Hu. destruct Hu as [k [<- Hk]]. apply (IH k Hk s' Hs'). }
  destruct ks as [|k [|k2 r]].
  - simpl in Hs. destruct Hs as [<-|[]]. simpl. discriminate.
  - simpl map in Hs, Sub. cbv beta iota in Hs.
    rewrite preorder_kids, t_kids_bump in Hs. destruct Hs as [<-|Hs].
    + rewrite t_kids_bump. apply (IH k (or_introl eq_refl) (spec_su k)). apply preorder_root.
    + apply Sub. simpl. rewrite app_nil_r, preorder_kids. right. exact Hs.
  - change (map spec_su (k :: k2 :: r)) with (spec_su k :: spec_su k2 :: map spec_su r) in *.
    cbv beta iota in Hs. rewrite preorder_eq in Hs. destruct Hs as [<-|Hs].
    + simpl. discriminate.
    + apply Sub. exact Hs.
Qed.
