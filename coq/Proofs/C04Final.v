(* C04: the lemmas in the form quoted by Props/C04.v (hypotheses on the trees as given) *)
From Coq Require Import ZArith List Bool Lia Permutation Relations.
From DV Require Import Model.PyPrims Model.Tree Model.C04Model Proofs.C04Lists Proofs.C04Loops Proofs.C04Enc
  Proofs.C04Main Proofs.C04Redraw Proofs.C04WF Proofs.C04Witness.
Import ListNotations.
Open Scope Z_scope.

Ltac wfs := repeat match goal with H : well_formed _ _ = true |- _ => apply well_formed_wf in H end.

Lemma F_rf_is_symdiff_card acc s1 s2 S1 S2 :
  well_formed acc s1 = true -> well_formed acc s2 = true ->
  NoDup S1 -> NoDup S2 ->
  (forall m, In m S1 <-> In m (splits acc s1)) -> (forall m, In m S2 <-> In m (splits acc s2)) ->
  rf acc s1 s2 = Ok (Z.of_nat (length (filter (fun m => negb (memz m S2)) S1))
                     + Z.of_nat (length (filter (fun m => negb (memz m S1)) S2))).
Proof. intros W1 W2. wfs. destruct W1 as [K1 [F1 _]], W2 as [K2 [F2 _]]. apply rf_is_symdiff_card_l; assumption. Qed.

Lemma F_fp_fn_are_one_sided acc s1 s2 S1 S2 :
  well_formed acc s1 = true -> well_formed acc s2 = true ->
  NoDup S1 -> NoDup S2 ->
  (forall m, In m S1 <-> In m (splits acc s1)) -> (forall m, In m S2 <-> In m (splits acc s2)) ->
  fpfn acc s1 s2 = Ok (Z.of_nat (length (filter (fun m => negb (memz m S1)) S2)),
                      Z.of_nat (length (filter (fun m => negb (memz m S2)) S1))).
Proof. intros W1 W2. wfs. destruct W1 as [K1 [F1 _]], W2 as [K2 [F2 _]]. apply fp_fn_are_one_sided_l; assumption. Qed.

Lemma F_wrf_is_L1 p acc s1 s2 v U :
  well_formed acc s1 = true -> well_formed acc s2 = true ->
  NoDup (splits acc s1) -> NoDup (splits acc s2) ->
  wrf p acc s1 s2 = Ok v ->
  NoDup U -> incl (splits acc s1) U -> incl (splits acc s2) U ->
  v = fold_right Z.add 0 (map (fun m => Z.abs (split_len acc s1 m - split_len acc s2 m)) U).
Proof. intros W1 W2. wfs. apply wrf_is_L1_l; assumption. Qed.

Lemma F_euclid_is_L2 p acc s1 s2 v U :
  well_formed acc s1 = true -> well_formed acc s2 = true ->
  NoDup (splits acc s1) -> NoDup (splits acc s2) ->
  euclid_sq p acc s1 s2 = Ok v ->
  NoDup U -> incl (splits acc s1) U -> incl (splits acc s2) U ->
  v = fold_right Z.add 0
        (map (fun m => (split_len acc s1 m - split_len acc s2 m) * (split_len acc s1 m - split_len acc s2 m)) U).
Proof. intros W1 W2. wfs. apply euclid_is_L2_l; assumption. Qed.

Lemma F_rf_sym acc s1 s2 :
  well_formed acc s1 = true -> well_formed acc s2 = true ->
  rf acc s1 s2 = rf acc s2 s1 /\ exists d, rf acc s1 s2 = Ok d /\ 0 <= d.
Proof.
  intros W1 W2. wfs. destruct W1 as [K1 [F1 _]], W2 as [K2 [F2 _]].
  rewrite !rf_sd by assumption. rewrite sd_sym. split; [reflexivity|]. eexists. split; [reflexivity|].
  unfold sd, diff_count. lia.
Qed.

Lemma F_rf_zero_self acc s : well_formed acc s = true -> rf acc s s = Ok 0 /\ fpfn acc s s = Ok (0, 0).
Proof.
  intros W. wfs. destruct W as [K [F _]]. rewrite rf_sd, fpfn_pure by assumption.
  pose proof (sd_self (splits acc s)) as H. unfold sd in H.
  assert (0 <= diff_count (splits acc s) (splits acc s)) by (unfold diff_count; lia).
  rewrite sd_self. split; [reflexivity|]. f_equal. f_equal; lia.
Qed.

Lemma F_rf_triangle acc s1 s2 s3 d13 d12 d23 :
  well_formed acc s1 = true -> well_formed acc s2 = true -> well_formed acc s3 = true ->
  rf acc s1 s3 = Ok d13 -> rf acc s1 s2 = Ok d12 -> rf acc s2 s3 = Ok d23 ->
  d13 <= d12 + d23.
Proof.
  intros W1 W2 W3. wfs. destruct W1 as [K1 [F1 _]], W2 as [K2 [F2 _]], W3 as [K3 [F3 _]].
  rewrite !rf_sd by assumption. intros H13 H12 H23. inversion H13; inversion H12; inversion H23; subst.
  apply sd_triangle.
Qed.

Lemma F_wrf_sym p acc s1 s2 v v' :
  well_formed acc s1 = true -> well_formed acc s2 = true ->
  wrf p acc s1 s2 = Ok v -> wrf p acc s2 s1 = Ok v' -> v = v'.
Proof. intros W1 W2. wfs. apply wrf_sym_l; assumption. Qed.

Lemma F_euclid_sq_sym p acc s1 s2 v v' :
  well_formed acc s1 = true -> well_formed acc s2 = true ->
  euclid_sq p acc s1 s2 = Ok v -> euclid_sq p acc s2 s1 = Ok v' -> v = v'.
Proof. intros W1 W2. wfs. apply euclid_sq_sym_l; assumption. Qed.

Lemma F_wrf_triangle p acc s1 s2 s3 d13 d12 d23 :
  well_formed acc s1 = true -> well_formed acc s2 = true -> well_formed acc s3 = true ->
  wrf p acc s1 s3 = Ok d13 -> wrf p acc s1 s2 = Ok d12 -> wrf p acc s2 s3 = Ok d23 ->
  d13 <= d12 + d23.
Proof. intros W1 W2 W3. wfs. apply wrf_triangle_l; assumption. Qed.

Lemma F_euclid_triangle p acc s1 s2 s3 d13 d12 d23 :
  well_formed acc s1 = true -> well_formed acc s2 = true -> well_formed acc s3 = true ->
  euclid_sq p acc s1 s3 = Ok d13 -> euclid_sq p acc s1 s2 = Ok d12 -> euclid_sq p acc s2 s3 = Ok d23 ->
  0 <= d13 /\ 0 <= d12 /\ 0 <= d23 /\
  (d13 - d12 - d23 <= 0 \/ (d13 - d12 - d23) * (d13 - d12 - d23) <= 4 * d12 * d23).
Proof.
  intros W1 W2 W3 H13 H12 H23. wfs.
  assert (NN : forall s s' d, wf acc s -> wf acc s' -> euclid_sq p acc s s' = Ok d -> 0 <= d).
  { intros s s' d Ws Ws' H. rewrite (euclid_pure p acc s s' Ws Ws') in H.
    destruct (ld_pure p acc s s'); try discriminate. inversion H; subst. clear.
    induction l as [|x r IH]; simpl; [lia|]. assert (0 <= (fst x - snd x) * (fst x - snd x)) by apply Z.square_nonneg. lia. }
  split; [apply (NN s1 s3 d13 W1 W3 H13)|]. split; [apply (NN s1 s2 d12 W1 W2 H12)|].
  split; [apply (NN s2 s3 d23 W2 W3 H23)|].
  apply (euclid_triangle_l p acc s1 s2 s3); assumption.
Qed.

Lemma F_self_weighted_zero p acc s v :
  well_formed acc s = true ->
  (wrf p acc s s = Ok v -> v = 0) /\ (euclid_sq p acc s s = Ok v -> v = 0).
Proof.
  intros W. wfs. split; intro H.
  - apply (wrf_zero_l p acc s s v W W); [reflexivity | exact H].
  - apply (euclid_zero_l p acc s s v W W); [reflexivity | exact H].
Qed.

Lemma F_defined_sym p acc s1 s2 :
  p <> Current ->
  well_formed acc s1 = true -> well_formed acc s2 = true ->
  ((exists v, wrf p acc s1 s2 = Ok v) <-> (exists v, wrf p acc s2 s1 = Ok v)) /\
  ((exists v, euclid_sq p acc s1 s2 = Ok v) <-> (exists v, euclid_sq p acc s2 s1 = Ok v)) /\
  ((exists v, wrf p acc s1 s2 = Ok v) \/ wrf p acc s1 s2 = Err ValueErr).
Proof.
  intros Hp W1 W2. wfs. destruct (defined_sym_l p acc s1 s2 Hp W1 W2) as [A B].
  repeat split; try apply A; try apply B. apply wrf_only_value_error; assumption.
Qed.

(* the current code refuses exactly when a split of the first tree is also a split of the second
   and the edge that carries it there (the last one in post-order) has no length and is not the
   seed edge *)
Lemma F_refusal_current acc s1 s2 :
  well_formed acc s1 = true -> well_formed acc s2 = true ->
  NoDup (splits acc s2) ->
  ((exists v, wrf Current acc s1 s2 = Ok v) <->
   (forall m x, In (m, x) (entries acc s2) -> In m (splits acc s1) -> fst x = None -> snd x = true)).
Proof.
  intros W1 W2 N2. wfs. rewrite (wrf_current_defined acc s1 s2 W1 W2). unfold kd. rewrite dict_of_id by exact N2.
  split; intros H m x Hin Hm.
  - intro Hx. specialize (H m x Hin Hm). unfold refusable in H. rewrite Hx in H. destruct (snd x); [reflexivity|discriminate].
  - unfold refusable. destruct (fst x) eqn:E; [reflexivity|]. rewrite (H m x Hin Hm E). reflexivity.
Qed.

Lemma F_namespace_mismatch p w a b sa sb upd :
  get_t w a = Ok sa -> get_t w b = Ok sb -> ts_ns sa <> ts_ns sb ->
  do_fpfn w a b upd = (Err ValueErr, w) /\
  do_symdiff w a b upd = (Err ValueErr, w) /\
  do_missing w a b upd = (Err ValueErr, w) /\
  do_wrf p w a b upd = (Err ValueErr, w) /\
  do_euclid_sq p w a b upd = (Err ValueErr, w).
Proof. apply namespace_mismatch_l. Qed.

Lemma F_default_args_fresh p w a b sa sb :
  a <> b -> get_t w a = Ok sa -> get_t w b = Ok sb -> ts_ns sa = ts_ns sb ->
  well_formed (w_acc w) (ts_struct sa) = true -> well_formed (w_acc w) (ts_struct sb) = true ->
  fst (do_fpfn w a b false) = fpfn (w_acc w) (ts_struct sa) (ts_struct sb) /\
  fst (do_symdiff w a b false) = rf (w_acc w) (ts_struct sa) (ts_struct sb) /\
  fst (do_missing w a b false) = missing (w_acc w) (ts_struct sa) (ts_struct sb) /\
  fst (do_wrf p w a b false) = wrf p (w_acc w) (ts_struct sa) (ts_struct sb) /\
  fst (do_euclid_sq p w a b false) = euclid_sq p (w_acc w) (ts_struct sa) (ts_struct sb) /\
  (forall w', w' = snd (do_fpfn w a b false) \/ w' = snd (do_symdiff w a b false) \/ w' = snd (do_missing w a b false)
              \/ w' = snd (do_wrf p w a b false) \/ w' = snd (do_euclid_sq p w a b false) ->
     (exists sa' sb', get_t w' a = Ok sa' /\ get_t w' b = Ok sb' /\
        ts_struct sa' = normalise (ts_struct sa) /\ ts_struct sb' = normalise (ts_struct sb)) /\
     (forall c, c <> a -> c <> b -> get_t w' c = get_t w c)).
Proof. intros Hab Ha Hb Hns W1 W2. wfs. apply (default_args_fresh_l p w a b sa sb); assumption. Qed.

Lemma no_basal_iff t r : (r = Some true \/ length (t_kids t) <> 2%nat) -> no_basal (t, r).
Proof. intros [H|H]; [left; subst; reflexivity | right; exact H]. Qed.

Lemma F_child_order_invariant acc r t t' :
  redraw t t' ->
  (r = Some true \/ length (t_kids t) <> 2%nat) ->
  well_formed acc (t, r) = true -> NoDup (splits acc (t, r)) ->
  forall p s2, well_formed acc s2 = true ->
    fpfn acc (t, r) s2 = fpfn acc (t', r) s2 /\ fpfn acc s2 (t, r) = fpfn acc s2 (t', r) /\
    rf acc (t, r) s2 = rf acc (t', r) s2 /\ rf acc s2 (t, r) = rf acc s2 (t', r) /\
    wrf p acc (t, r) s2 = wrf p acc (t', r) s2 /\ wrf p acc s2 (t, r) = wrf p acc s2 (t', r) /\
    euclid_sq p acc (t, r) s2 = euclid_sq p acc (t', r) s2 /\ euclid_sq p acc s2 (t, r) = euclid_sq p acc s2 (t', r).
Proof.
  intros H NB W HN p s2 W2. wfs. apply no_basal_iff in NB.
  apply (child_order_invariant_l acc r t t' H NB W HN p s2 W2).
Qed.

Lemma F_zero_on_redrawing p acc r t t' :
  redraw t t' ->
  (r = Some true \/ length (t_kids t) <> 2%nat) ->
  well_formed acc (t, r) = true -> NoDup (splits acc (t, r)) ->
  rf acc (t, r) (t', r) = Ok 0 /\
  fpfn acc (t, r) (t', r) = Ok (0, 0) /\
  (forall v, wrf p acc (t, r) (t', r) = Ok v -> v = 0) /\
  (forall v, euclid_sq p acc (t, r) (t', r) = Ok v -> v = 0).
Proof.
  intros H NB W HN. wfs. apply no_basal_iff in NB. apply zero_on_redrawing_l; assumption.
Qed.

(* the encoding list returned by encode_bipartitions() is `splits` *)
Lemma F_encode_is_splits w a st :
  get_t w a = Ok st -> taxa_known (w_acc w) (ts_tree st) = true ->
  fst (step Current w (OpEncode a)) = OMasks (splits (w_acc w) (ts_struct st)).
Proof.
  intros Ha K. unfold step. rewrite (encode_at_ok w a st Ha K). cbn [fst].
  unfold enc_at. rewrite (get_set_same w a (enc_state (w_acc w) st) st Ha).
  cbn [ts_enc enc_state to_out fst]. unfold splits, entries. rewrite enc_pairs_fst. reflexivity.
Qed.
