(* C09: lemmas about the string primitives of Model/C09Model.v *)
From Coq Require Import ZArith List Bool Lia NArith DecimalN DecimalPos.
From DV Require Import Model.PyPrims Model.C09AlphaTypes Model.C09Model.
Import ListNotations.
Open Scope Z_scope.

(* ---- equality tests ---- *)

Lemma text_eqb_eq : forall a b : text, text_eqb a b = true <-> a = b.
Proof. intros. unfold text_eqb. apply list_eqb_eq. intros; apply Z.eqb_eq. Qed.

Lemma text_eqb_refl : forall a, text_eqb a a = true.
Proof. intro. apply text_eqb_eq. reflexivity. Qed.

Lemma text_eqb_neq : forall a b : text, text_eqb a b = false <-> a <> b.
Proof.
  intros. split; intro H.
  - intro E. apply text_eqb_eq in E. congruence.
  - destruct (text_eqb a b) eqn:E; [apply text_eqb_eq in E; contradiction | reflexivity].
Qed.

Lemma text_mem_In : forall t l, text_mem t l = true <-> In t l.
Proof.
  intros t l. induction l as [|x r IH]; simpl.
  - split; [discriminate | tauto].
  - rewrite orb_true_iff, IH, text_eqb_eq. split; intros [H|H]; auto.
Qed.

Lemma text_mem_false : forall t l, text_mem t l = false <-> ~ In t l.
Proof.
  intros. rewrite <- text_mem_In. destruct (text_mem t l); split; intro H.
  - discriminate.
  - exfalso; apply H; reflexivity.
  - intro; discriminate.
  - reflexivity.
Qed.

Lemma texts_distinct_NoDup : forall l, texts_distinct l = true <-> NoDup l.
Proof.
  induction l as [|x r IH]; simpl.
  - split; [constructor | reflexivity].
  - rewrite andb_true_iff, negb_true_iff, text_mem_false, IH. split.
    + intros [A B]. constructor; assumption.
    + intro H. inversion H; subst. split; assumption.
Qed.

(* ---- strip ---- *)

Definition nospace (l : text) : Prop := forall c, In c l -> is_space c = false.

Lemma rstrip_app_keep : forall x y, rstrip y <> [] -> rstrip (x ++ y) = x ++ rstrip y.
Proof.
  induction x as [|c x IH]; intros y H; simpl; [reflexivity|].
  rewrite (IH y H). destruct (x ++ rstrip y) eqn:E.
  - destruct x; simpl in E; [contradiction | discriminate].
  - reflexivity.
Qed.

Lemma rstrip_last_nonspace : forall l c, is_space c = false -> rstrip (l ++ [c]) = l ++ [c].
Proof.
  intros. rewrite rstrip_app_keep; simpl; rewrite H; [reflexivity | discriminate].
Qed.

Lemma rstrip_nospace : forall l, nospace l -> rstrip l = l.
Proof.
  induction l as [|c r IH]; intro H; simpl; [reflexivity|].
  rewrite IH by (intros d Hd; apply H; right; exact Hd).
  destruct r; [rewrite (H c (or_introl eq_refl)); reflexivity | reflexivity].
Qed.

Lemma rstrip_spaces : forall k, rstrip (repeat 32 k) = [].
Proof. induction k; simpl; [reflexivity | rewrite IHk; reflexivity]. Qed.

Lemma rstrip_app_spaces : forall x k, rstrip (x ++ repeat 32 k) = rstrip x.
Proof.
  induction x as [|c x IH]; intro k; simpl.
  - apply rstrip_spaces.
  - rewrite IH. reflexivity.
Qed.

Lemma rstrip_length : forall l, (length (rstrip l) <= length l)%nat.
Proof.
  induction l as [|c r IH]; simpl; [lia|].
  destruct (rstrip r); [destruct (is_space c); simpl; lia | simpl in *; lia].
Qed.

Lemma lstrip_length : forall l, (length (lstrip l) <= length l)%nat.
Proof.
  induction l as [|c r IH]; simpl; [lia|]. destruct (is_space c); simpl; lia.
Qed.

Lemma strip_fix : forall l, strip l = l -> lstrip l = l /\ rstrip l = l.
Proof.
  intros l H. unfold strip in H.
  assert (L : lstrip l = l).
  { destruct l as [|c r]; [reflexivity|]. simpl in *. destruct (is_space c); [|reflexivity].
    exfalso. pose proof (rstrip_length (lstrip r)). pose proof (lstrip_length r).
    rewrite H in H0. simpl in H0. lia. }
  split; [exact L | rewrite L in H; exact H].
Qed.

Lemma lstrip_head : forall c r, lstrip (c :: r) = c :: r -> is_space c = false.
Proof.
  intros c r H. simpl in H. destruct (is_space c) eqn:E; [|reflexivity].
  exfalso. pose proof (lstrip_length r). rewrite H in H0. simpl in H0. lia.
Qed.

Lemma rstrip_nonempty_fix : forall l, l <> [] -> rstrip l = l -> rstrip l <> [].
Proof. intros l H E. rewrite E. exact H. Qed.

(* a trimmed non-empty string followed by padding: strip gives it back *)
Lemma strip_padded : forall c k, c <> [] -> strip c = c -> strip (c ++ repeat 32 k) = c.
Proof.
  intros c k N H. apply strip_fix in H. destruct H as [L R].
  unfold strip. destruct c as [|x r]; [contradiction|].
  pose proof (lstrip_head _ _ L) as Hx.
  change ((x :: r) ++ repeat 32 k) with (x :: (r ++ repeat 32 k)).
  simpl lstrip. rewrite Hx.
  change (x :: r ++ repeat 32 k) with ((x :: r) ++ repeat 32 k).
  rewrite rstrip_app_spaces. exact R.
Qed.

(* ---- splitting into lines ---- *)

Lemma split_nl_aux_app : forall a cur b,
  split_nl_aux cur (a ++ 10 :: b) = split_nl_aux cur a ++ split_nl_aux [] b.
Proof.
  induction a as [|c a IH]; intros cur b; simpl.
  - reflexivity.
  - destruct (c =? 10); simpl; rewrite IH; reflexivity.
Qed.

Lemma split_nl_app : forall a b, split_nl (a ++ 10 :: b) = split_nl a ++ split_nl b.
Proof. intros. apply split_nl_aux_app. Qed.

Definition no_nl (l : text) : Prop := forall c, In c l -> c <> 10.
Definition no_nlcr (l : text) : Prop := forall c, In c l -> c <> 10 /\ c <> 13.

Lemma split_nl_aux_plain : forall a cur, no_nl a -> split_nl_aux cur a = [rev cur ++ a].
Proof.
  induction a as [|c a IH]; intros cur H; simpl.
  - rewrite List.app_nil_r. reflexivity.
  - destruct (c =? 10) eqn:E; [apply Z.eqb_eq in E; exfalso; exact (H c (or_introl eq_refl) E)|].
    rewrite IH by (intros d Hd; apply H; right; exact Hd).
    simpl. rewrite <- app_assoc. reflexivity.
Qed.

Lemma split_nl_plain : forall a, no_nl a -> split_nl a = [a].
Proof. intros. unfold split_nl. rewrite split_nl_aux_plain by assumption. reflexivity. Qed.

Lemma split3_aux_plain_nl : forall a cur b, no_nlcr a ->
  split3_aux cur (a ++ 10 :: b) = (rev cur ++ a) :: split3_aux [] b.
Proof.
  induction a as [|c a IH]; intros cur b H; simpl.
  - rewrite List.app_nil_r. reflexivity.
  - destruct (H c (or_introl eq_refl)) as [H1 H2].
    destruct (c =? 10) eqn:E1; [apply Z.eqb_eq in E1; contradiction|].
    destruct (c =? 13) eqn:E2; [apply Z.eqb_eq in E2; contradiction|].
    rewrite IH by (intros d Hd; apply H; right; exact Hd).
    simpl. rewrite <- app_assoc. reflexivity.
Qed.

Lemma split3_plain_nl : forall a b, no_nlcr a -> split_lines3 (a ++ 10 :: b) = a :: split_lines3 b.
Proof. intros. unfold split_lines3. rewrite split3_aux_plain_nl by assumption. reflexivity. Qed.

Lemma split3_lines : forall ls, (forall l, In l ls -> no_nlcr l) ->
  split_lines3 (concat (map (fun l => l ++ [10]) ls)) = ls ++ [[]].
Proof.
  induction ls as [|l ls IH]; intro H; simpl.
  - reflexivity.
  - rewrite <- app_assoc. simpl. rewrite split3_plain_nl by (apply H; left; reflexivity).
    rewrite IH by (intros x Hx; apply H; right; exact Hx). reflexivity.
Qed.

(* ---- decimal numerals ---- *)

Lemma digits_uint_digits : forall u, digits_uint (uint_digits u) = Some u.
Proof. induction u; simpl; try rewrite IHu; reflexivity. Qed.

Lemma uint_digits_all_digits : forall u, forallb is_digit (uint_digits u) = true.
Proof. induction u; simpl; try rewrite IHu; reflexivity. Qed.

Lemma uint_digits_nonnil : forall u, u <> Decimal.Nil -> uint_digits u <> [].
Proof. destruct u; simpl; intros; try discriminate. contradiction. Qed.

Lemma render_nat_nonnil : forall n, render_nat n <> [].
Proof.
  intro n. unfold render_nat. apply uint_digits_nonnil.
  destruct (Z.to_N n); simpl; [discriminate | apply DecimalPos.Unsigned.to_uint_nonnil].
Qed.

Lemma render_nat_digits : forall n, forallb is_digit (render_nat n) = true.
Proof. intro. apply uint_digits_all_digits. Qed.

Lemma parse_render_nat : forall n, 0 <= n -> parse_nat (render_nat n) = Some n.
Proof.
  intros n H. unfold parse_nat. pose proof (render_nat_nonnil n) as N.
  destruct (render_nat n) eqn:E; [contradiction|]. rewrite <- E. unfold render_nat.
  rewrite digits_uint_digits. rewrite DecimalN.Unsigned.of_to. rewrite Z2N.id by assumption. reflexivity.
Qed.

Lemma digit_not_space : forall c, is_digit c = true -> is_space c = false.
Proof.
  intros c H. unfold is_digit in H. apply andb_true_iff in H. destruct H as [A B].
  apply Z.leb_le in A. apply Z.leb_le in B.
  assert (E : c = 48 \/ c = 49 \/ c = 50 \/ c = 51 \/ c = 52 \/ c = 53 \/ c = 54 \/ c = 55 \/ c = 56 \/ c = 57) by lia.
  repeat (destruct E as [E|E]; [subst; reflexivity|]). subst. reflexivity.
Qed.

Lemma digit_not_nlcr : forall c, is_digit c = true -> c <> 10 /\ c <> 13.
Proof.
  intros c H. unfold is_digit in H. apply andb_true_iff in H. destruct H as [A B].
  apply Z.leb_le in A. lia.
Qed.

(* ---- span ---- *)

Lemma span_app : forall p a b, forallb p a = true ->
  (match b with [] => True | c :: _ => p c = false end) -> span p (a ++ b) = (a, b).
Proof.
  induction a as [|c a IH]; intros b H Hb; simpl.
  - destruct b; simpl; [reflexivity | rewrite Hb; reflexivity].
  - simpl in H. apply andb_true_iff in H. destruct H as [H1 H2]. rewrite H1. rewrite (IH b H2 Hb). reflexivity.
Qed.

Lemma span_none : forall p l, (match l with [] => True | c :: _ => p c = false end) -> span p l = ([], l).
Proof. intros p l H. destruct l; simpl; [reflexivity | rewrite H; reflexivity]. Qed.

Lemma parse_desc_render : forall n k, 0 <= n -> 0 <= k ->
  parse_desc (render_nat n ++ 32 :: render_nat k) = Some (n, k).
Proof.
  intros n k Hn Hk. unfold parse_desc.
  pose proof (render_nat_nonnil n) as Nn. pose proof (render_nat_nonnil k) as Nk.
  pose proof (render_nat_digits n) as Dn. pose proof (render_nat_digits k) as Dk.
  destruct (render_nat n) as [|a ra] eqn:En; [contradiction|].
  destruct (render_nat k) as [|b rb] eqn:Ek; [contradiction|].
  assert (Sa : is_space a = false) by (apply digit_not_space; simpl in Dn; apply andb_true_iff in Dn; tauto).
  assert (Sb : is_space b = false) by (apply digit_not_space; simpl in Dk; apply andb_true_iff in Dk; tauto).
  rewrite (span_none is_space ((a :: ra) ++ 32 :: b :: rb)) by (simpl; exact Sa).
  rewrite (span_app is_digit (a :: ra) (32 :: b :: rb) Dn) by reflexivity.
  change (32 :: b :: rb) with ([32] ++ b :: rb).
  rewrite (span_app is_space [32] (b :: rb)) by (simpl; try reflexivity; exact Sb).
  replace (b :: rb) with ((b :: rb) ++ []) by apply List.app_nil_r.
  rewrite (span_app is_digit (b :: rb) [] Dk) by exact I.
  simpl span.
  rewrite <- En, <- Ek. rewrite !parse_render_nat by assumption. reflexivity.
Qed.

(* ---- ljust, repeat ---- *)

Lemma ljust_shape : forall n l, exists k, ljust n l = l ++ repeat 32 k.
Proof. intros. eexists. reflexivity. Qed.

Lemma len_app : forall A (x y : list A), len (x ++ y) = len x + len y.
Proof. intros. unfold len. rewrite app_length. lia. Qed.

Lemma len_nonneg : forall A (x : list A), 0 <= len x.
Proof. intros. unfold len. lia. Qed.

Lemma zmax_list_const : forall (l : list Z) v, l <> [] -> (forall x, In x l -> x = v) -> zmax_list l = Some v.
Proof.
  induction l as [|x r IH]; intros v N H; [contradiction|].
  simpl. destruct r as [|y r'].
  - simpl. rewrite (H x (or_introl eq_refl)). reflexivity.
  - rewrite (IH v) by (try discriminate; intros z Hz; apply H; right; exact Hz).
    rewrite (H x (or_introl eq_refl)). rewrite Z.max_id. reflexivity.
Qed.

Lemma zmax_list_some : forall (l : list Z), l <> [] -> exists v, zmax_list l = Some v.
Proof.
  destruct l as [|x r]; intro N; [contradiction|]. simpl. destruct (zmax_list r); eexists; reflexivity.
Qed.
