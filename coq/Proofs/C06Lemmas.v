(* C06: list and dictionary lemmas for Model/C06Model.v *)
From Coq Require Import ZArith List Bool Lia Permutation.
From DV Require Import Model.PyPrims Model.C06Model.
Import ListNotations.
Open Scope Z_scope.

(* ---------------------------------------------------------------- lists *)

Lemma insert_at_length {A} n (x : A) l : length (insert_at n x l) = S (length l).
Proof.
  revert l; induction n as [|n IH]; intros [|y r]; simpl; try reflexivity.
  rewrite IH. reflexivity.
Qed.

Lemma py_insert_length {A} i (x : A) l : length (py_insert i x l) = S (length l).
Proof. unfold py_insert. apply insert_at_length. Qed.

Lemma put_length {A} idx (x : A) l : length (put idx x l) = S (length l).
Proof.
  destruct idx as [i|]; simpl.
  - apply py_insert_length.
  - rewrite app_length. simpl. lia.
Qed.

Lemma insert_at_perm {A} n (x : A) l : Permutation (insert_at n x l) (x :: l).
Proof.
  revert l; induction n as [|n IH]; intros [|y r]; simpl; try apply Permutation_refl.
  eapply perm_trans; [apply perm_skip, IH | apply perm_swap].
Qed.

Lemma put_perm {A} idx (x : A) l : Permutation (put idx x l) (x :: l).
Proof.
  destruct idx as [i|]; simpl.
  - apply insert_at_perm.
  - apply Permutation_sym, Permutation_cons_append.
Qed.

Lemma combine_insert_at {A B} n (x : A) (y : B) l m :
  length l = length m ->
  combine (insert_at n x l) (insert_at n y m) = insert_at n (x, y) (combine l m).
Proof.
  revert l m; induction n as [|n IH]; intros [|a l] [|b m] H; simpl in *; try discriminate; try reflexivity.
  f_equal. apply IH. lia.
Qed.

Lemma combine_app_eq {A B} (l1 l2 : list A) (m1 m2 : list B) :
  length l1 = length m1 -> combine (l1 ++ l2) (m1 ++ m2) = combine l1 m1 ++ combine l2 m2.
Proof.
  revert m1; induction l1 as [|a l1 IH]; intros [|b m1] H; simpl in *; try discriminate; try reflexivity.
  f_equal. apply IH. lia.
Qed.

Lemma combine_put {A B} idx (x : A) (y : B) l m :
  length l = length m -> combine (put idx x l) (put idx y m) = put idx (x, y) (combine l m).
Proof.
  intro H. destruct idx as [i|]; simpl.
  - unfold py_insert. rewrite combine_length, <- H, Nat.min_id.
    apply combine_insert_at. exact H.
  - rewrite combine_app_eq by exact H. reflexivity.
Qed.

Lemma combine_length_eq {A B} (l : list A) (m : list B) :
  length l = length m -> length (combine l m) = length l.
Proof. intro H. rewrite combine_length, <- H. apply Nat.min_id. Qed.

Lemma map_fst_combine {A B} (l : list A) (m : list B) :
  length l = length m -> map fst (combine l m) = l.
Proof.
  revert m; induction l as [|a l IH]; intros [|b m] H; simpl in *; try discriminate; try reflexivity.
  f_equal. apply IH. lia.
Qed.

Lemma map_snd_combine {A B} (l : list A) (m : list B) :
  length l = length m -> map snd (combine l m) = m.
Proof.
  revert m; induction l as [|a l IH]; intros [|b m] H; simpl in *; try discriminate; try reflexivity.
  f_equal. apply IH. lia.
Qed.

Lemma combine_map_map {A B C} (f : A -> B) (g : A -> C) l :
  combine (map f l) (map g l) = map (fun x => (f x, g x)) l.
Proof. induction l as [|a l IH]; simpl; [reflexivity | f_equal; exact IH]. Qed.

Lemma Forall2_insert_at {A B} (R : A -> B -> Prop) n x y l m :
  Forall2 R l m -> R x y -> Forall2 R (insert_at n x l) (insert_at n y m).
Proof.
  intros H Hxy. revert n. induction H as [|a b l m Hab H IH]; intros [|n]; simpl; repeat constructor; auto.
Qed.

Lemma Forall2_len {A B} (R : A -> B -> Prop) l m : Forall2 R l m -> length l = length m.
Proof. induction 1; simpl; congruence. Qed.

Lemma Forall2_put {A B} (R : A -> B -> Prop) idx x y l m :
  Forall2 R l m -> R x y -> Forall2 R (put idx x l) (put idx y m).
Proof.
  intros H Hxy. destruct idx as [i|]; simpl.
  - unfold py_insert. rewrite (Forall2_len _ _ _ H). apply Forall2_insert_at; assumption.
  - apply Forall2_app; [assumption | repeat constructor; assumption].
Qed.

Lemma set_nth_length {A} i (x : A) l : length (set_nth i x l) = length l.
Proof.
  revert i; induction l as [|y r IH]; intros [|i]; simpl; try reflexivity. rewrite IH. reflexivity.
Qed.

Lemma Forall_set_nth {A} (P : A -> Prop) i x l : Forall P l -> P x -> Forall P (set_nth i x l).
Proof.
  intros H Hx. revert i. induction H as [|y r Hy H IH]; intros [|i]; simpl; constructor; auto.
Qed.

Lemma Forall_nth_error {A} (P : A -> Prop) l i x : Forall P l -> nth_error l i = Some x -> P x.
Proof.
  intros H E. rewrite Forall_forall in H. apply H. eapply nth_error_In. exact E.
Qed.

Lemma Forall2_set_nth {A B} (R : A -> B -> Prop) i x y l m :
  Forall2 R l m -> R x y -> Forall2 R (set_nth i x l) (set_nth i y m).
Proof.
  intros H Hxy. revert i. induction H as [|a b l m Hab H IH]; intros [|i]; simpl; constructor; auto.
Qed.

Lemma Forall2_nth_error_l {A B} (R : A -> B -> Prop) l m i x :
  Forall2 R l m -> nth_error l i = Some x -> exists y, nth_error m i = Some y /\ R x y.
Proof.
  intros H. revert i. induction H as [|a b l m Hab H IH]; intros [|i] E; simpl in *; try discriminate.
  - inversion E; subst. eauto.
  - apply IH. exact E.
Qed.

Lemma existsb_perm {A} (f : A -> bool) l l' : Permutation l l' -> existsb f l = existsb f l'.
Proof.
  induction 1; simpl; try congruence.
  - rewrite !orb_assoc. f_equal. apply orb_comm.
Qed.

Definition zsum (l : list Z) : Z := fold_right Z.add 0 l.

Lemma zsum_app a b : zsum (a ++ b) = zsum a + zsum b.
Proof. induction a as [|x a IH]; simpl; [reflexivity | rewrite IH; lia]. Qed.

Lemma zsum_perm l l' : Permutation l l' -> zsum l = zsum l'.
Proof. induction 1; simpl; lia. Qed.

Lemma is_nil_app {A} (a b : list A) : is_nil (a ++ b) = is_nil a && is_nil b.
Proof. destruct a; reflexivity. Qed.

Lemma is_nil_length {A} (a : list A) : is_nil a = true <-> length a = 0%nat.
Proof. destruct a; simpl; split; intro; try reflexivity; discriminate. Qed.

(* ---------------------------------------------------------------- dictionaries *)

Definition odef (o : option Z) : Z := match o with Some c => c | None => 0 end.

(* "+= sum if present": how a batch of increments acts on one key *)
Definition oadd (o : option Z) (present : bool) (sum : Z) : option Z :=
  if present then Some (odef o + sum) else o.

Lemma oadd_comp o p1 s1 p2 s2 :
  (p1 = false -> s1 = 0) -> (p2 = false -> s2 = 0) ->
  oadd (oadd o p1 s1) p2 s2 = oadd o (p1 || p2) (s1 + s2).
Proof.
  intros H1 H2. destruct p1, p2; unfold oadd; simpl;
    try rewrite (H1 eq_refl); try rewrite (H2 eq_refl); try (f_equal; lia); reflexivity.
Qed.

Lemma cnt_alook k m : cnt k m = odef (alook k m).
Proof. reflexivity. Qed.

Lemma alook_dict_add s k w m :
  alook s (dict_add k w m) = if Z.eqb s k then Some (cnt k m + w) else alook s m.
Proof.
  induction m as [|[k' v] r IH]; simpl.
  - unfold cnt. simpl. destruct (Z.eqb s k); reflexivity.
  - destruct (Z.eqb_spec k k') as [E|N].
    + subst k'. simpl. unfold cnt. simpl. rewrite Z.eqb_refl.
      destruct (Z.eqb_spec s k); reflexivity.
    + simpl. rewrite IH. unfold cnt. simpl.
      destruct (Z.eqb_spec s k') as [E1|N1]; destruct (Z.eqb_spec s k) as [E2|N2]; subst; try reflexivity.
      * contradiction.
      * destruct (Z.eqb_spec k k'); [contradiction | reflexivity].
Qed.

Lemma alook_dict_add_oadd s k w m :
  alook s (dict_add k w m) = oadd (alook s m) (Z.eqb s k) (if Z.eqb s k then w else 0).
Proof.
  rewrite alook_dict_add. unfold oadd. destruct (Z.eqb_spec s k) as [->|N]; reflexivity.
Qed.

Lemma alook_dict_app {A} s k (l : list A) m :
  alook s (dict_app k l m) = if Z.eqb s k then Some (lst k m ++ l) else alook s m.
Proof.
  induction m as [|[k' v] r IH]; simpl.
  - unfold lst. simpl. destruct (Z.eqb s k); reflexivity.
  - destruct (Z.eqb_spec k k') as [E|N].
    + subst k'. simpl. unfold lst. simpl. rewrite Z.eqb_refl.
      destruct (Z.eqb_spec s k); reflexivity.
    + simpl. rewrite IH. unfold lst. simpl.
      destruct (Z.eqb_spec s k') as [E1|N1]; destruct (Z.eqb_spec s k) as [E2|N2]; subst; try reflexivity.
      * contradiction.
      * destruct (Z.eqb_spec k k'); [contradiction | reflexivity].
Qed.

Lemma lst_dict_app {A} s k (l : list A) m :
  lst s (dict_app k l m) = lst s m ++ (if Z.eqb s k then l else []).
Proof.
  unfold lst at 1. rewrite alook_dict_app. destruct (Z.eqb_spec s k) as [->|N].
  - reflexivity.
  - rewrite app_nil_r. reflexivity.
Qed.

Lemma alook_none_iff {V} s (m : list (Z * V)) : alook s m = None <-> ~ In s (keys m).
Proof.
  induction m as [|[k v] r IH]; simpl.
  - split; auto.
  - destruct (Z.eqb_spec s k) as [->|N].
    + split; [discriminate | intro H; exfalso; apply H; left; reflexivity].
    + rewrite IH. split; intros H; [intros [E|I]; [congruence | auto] | intro I; apply H; right; exact I].
Qed.

Lemma in_keys_dict_add s k w m : In s (keys (dict_add k w m)) <-> s = k \/ In s (keys m).
Proof.
  induction m as [|[k' v] r IH]; simpl.
  - split; [intros [E|[]]; left; congruence | intros [E|[]]; left; congruence].
  - destruct (Z.eqb_spec k k') as [E|N]; simpl.
    + subst k'. split; [intros [E|I]; auto | intros [E|[E|I]]; auto].
    + rewrite IH. split; [intros [E|[E|I]]; auto | intros [E|[E|I]]; auto].
Qed.

Lemma NoDup_keys_dict_add k w m : NoDup (keys m) -> NoDup (keys (dict_add k w m)).
Proof.
  induction m as [|[k' v] r IH]; simpl; intro H.
  - constructor; [intros [] | constructor].
  - destruct (Z.eqb_spec k k') as [E|N]; simpl.
    + exact H.
    + inversion H as [|? ? Hn Hr]; subst. constructor.
      * rewrite in_keys_dict_add. intros [E|I]; [congruence | contradiction].
      * apply IH. exact Hr.
Qed.

Lemma NoDup_keys_merge_counts a b : NoDup (keys a) -> NoDup (keys (merge_counts a b)).
Proof.
  unfold merge_counts. revert a; induction b as [|[k v] r IH]; intros a H; simpl; [exact H|].
  apply IH. apply NoDup_keys_dict_add. exact H.
Qed.

Definition is_some {V} (o : option V) : bool := match o with Some _ => true | None => false end.

Lemma alook_merge_counts s a b :
  NoDup (keys b) ->
  alook s (merge_counts a b) = oadd (alook s a) (is_some (alook s b)) (cnt s b).
Proof.
  unfold merge_counts. revert a; induction b as [|[k v] r IH]; intros a H; simpl.
  - reflexivity.
  - inversion H as [|? ? Hn Hr]; subst. rewrite IH by exact Hr.
    rewrite alook_dict_add_oadd. unfold cnt. simpl.
    destruct (Z.eqb_spec s k) as [->|N].
    + assert (E : alook k r = None) by (apply alook_none_iff; exact Hn).
      rewrite E. unfold oadd, odef. simpl. reflexivity.
    + unfold oadd at 2. simpl. reflexivity.
Qed.

Definition zmem (s : Z) (ks : list Z) : bool := existsb (Z.eqb s) ks.

Lemma zmem_in s ks : zmem s ks = true <-> In s ks.
Proof.
  unfold zmem. rewrite existsb_exists. split.
  - intros [x [I E]]. apply Z.eqb_eq in E. subst. exact I.
  - intro I. exists s. split; [exact I | apply Z.eqb_refl].
Qed.

Lemma zmem_keys {V} s (m : list (Z * V)) : zmem s (keys m) = is_some (alook s m).
Proof.
  induction m as [|[k v] r IH]; simpl; [reflexivity|].
  destruct (Z.eqb s k); simpl; [reflexivity | exact IH].
Qed.

Lemma lst_merge_lists {A} s ks (a b : list (Z * list A)) :
  NoDup ks ->
  lst s (merge_lists ks a b) = lst s a ++ (if zmem s ks then lst s b else []).
Proof.
  unfold merge_lists. revert a; induction ks as [|k r IH]; intros a H; simpl.
  - rewrite app_nil_r. reflexivity.
  - inversion H as [|? ? Hn Hr]; subst. rewrite IH by exact Hr. rewrite lst_dict_app.
    destruct (Z.eqb_spec s k) as [->|N]; simpl.
    + assert (E : zmem k r = false).
      { destruct (zmem k r) eqn:E; [|reflexivity]. apply zmem_in in E. contradiction. }
      rewrite E, app_nil_r. reflexivity.
    + rewrite app_nil_r. reflexivity.
Qed.
