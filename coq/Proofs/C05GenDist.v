(* C05: the SplitDistribution methods generated from treecollectionmodel.py (Gen/SplitDist.v)
   equal the hand-written model (x_sd projects the object onto the model's state) *)
From Coq Require Import ZArith QArith Qabs Qreduction List Bool Lia Permutation.
From DV Require Import Model.PyPrims Gen.BitFns Gen.Consts Model.C05Model Model.C05Spec Model.C05GenPrims Gen.SplitDist
     Proofs.C05Lists Proofs.C05Freq.
Import ListNotations.
Open Scope Z_scope.

(* ---------------------------------------------------------------- small facts *)
Lemma aupd_absent {V} k (d : V) (f : V -> V) l : ~ In k (keys l) -> aupd k d f l = l ++ [(k, f d)].
Proof.
  induction l as [|[k' v] r IH]; simpl; intro N; [reflexivity|].
  destruct (Z.eqb k k') eqn:E.
  - apply Z.eqb_eq in E. subst. exfalso. apply N. now left.
  - f_equal. apply IH. intro X. apply N. now right.
Qed.

Lemma fold_left_ext_in {A B} (f g : A -> B -> A) l : (forall a x, In x l -> f a x = g a x) ->
  forall a, fold_left f l a = fold_left g l a.
Proof.
  induction l as [|x r IH]; intros H a; simpl; [reflexivity|].
  rewrite (H a x (or_introl eq_refl)). apply IH. intros; apply H; now right.
Qed.

Lemma fold_left_map {A B C} (f : A -> B -> A) (g : C -> B) l : forall a,
  fold_left f (map g l) a = fold_left (fun a x => f a (g x)) l a.
Proof. induction l as [|x r IH]; intro a; simpl; [reflexivity | apply IH]. Qed.

Lemma aget_d_in_nodup {V} (l : list (Z * V)) k v d : NoDup (keys l) -> In (k, v) l -> aget_d k d l = v.
Proof. intros ND I. unfold aget_d. now rewrite (in_aget_nodup k v l ND I). Qed.

(* ---------------------------------------------------------------- add_split_count, predicates *)
Theorem gen_add_split_count_eq c x s q :
  gen_add_split_count c x s q = (upd_sd x (add_split_count (x_sd x) s q), tt).
Proof. destruct x as [[t w r cn el ag fr cf] ls as_ cs]. reflexivity. Qed.

Theorem gen_is_all_counted_trees_rooted_eq c x :
  gen_is_all_counted_trees_rooted c x = (x, is_all_rooted (x_sd x)).
Proof. reflexivity. Qed.
Theorem gen_is_all_counted_trees_strictly_unrooted_eq c x :
  gen_is_all_counted_trees_strictly_unrooted c x = (x, is_all_strictly_unrooted (x_sd x)).
Proof. reflexivity. Qed.
Theorem gen_is_all_counted_trees_treated_as_unrooted_eq c x :
  gen_is_all_counted_trees_treated_as_unrooted c x = (x, is_all_treated_as_unrooted (x_sd x)).
Proof. reflexivity. Qed.

(* ---------------------------------------------------------------- normalisation, frequencies *)
Theorem gen_calc_normalization_weight_eq c x :
  gen_calc_normalization_weight c x = (x, normalization_weight (x_sd x)).
Proof.
  unfold gen_calc_normalization_weight, normalization_weight, py_truth_float, a_sum_of_tree_weights.
  destruct (Qeq_bool (sum_w (x_sd x)) 0); reflexivity.
Qed.

(* the loop `for split in self.split_counts: self._split_freqs[split] = g(split)` *)
Lemma freqs_loop (g : list (Z * Q) -> Z -> Q) (body : Z -> sdx -> sdx) :
  (forall k self, body k self
                  = sa__split_freqs self (py_odict_set (a__split_freqs self) k (g (a_split_counts self) k))) ->
  forall ks x0,
  py_for ks body x0
  = sa__split_freqs x0 (fold_left (fun fo k => py_odict_set fo k (g (a_split_counts x0) k)) ks (a__split_freqs x0)).
Proof.
  intros Hb ks. induction ks as [|k ks IH]; intro x0.
  - destruct x0 as [[t w r cn el ag fr cf] ls as_ cs]. reflexivity.
  - unfold py_for in *. simpl. rewrite IH, Hb.
    destruct x0 as [[t w r cn el ag fr cf] ls as_ cs]. reflexivity.
Qed.

Lemma odict_fold (f : Z -> Q) ks : forall acc,
  fold_left (fun fo k => py_odict_set fo k (f k)) ks (Some acc)
  = Some (fold_left (fun a k => aupd k (f k) (fun _ => f k) a) ks acc).
Proof. induction ks as [|k ks IH]; intro acc; simpl; [reflexivity | apply IH]. Qed.

Lemma build_table (f : Z -> Q) ks : forall acc, NoDup ks -> (forall k, In k ks -> ~ In k (keys acc)) ->
  fold_left (fun a k => aupd k (f k) (fun _ => f k) a) ks acc = acc ++ map (fun k => (k, f k)) ks.
Proof.
  induction ks as [|k ks IH]; intros acc ND H; simpl; [now rewrite app_nil_r|].
  inversion ND as [|? ? Nk Nr]. subst.
  rewrite aupd_absent by (apply H; now left). rewrite IH; [now rewrite <- app_assoc | assumption |].
  intros k' I X. unfold keys in X. rewrite map_app in X. apply in_app_or in X. destruct X as [X | [X | []]].
  - apply (H k'); [now right | exact X].
  - simpl in X. subst. contradiction.
Qed.

Lemma table_of_keys (g : Q -> Q) (l : list (Z * Q)) : NoDup (keys l) ->
  map (fun k => (k, g (aget_d k 0%Q l))) (keys l) = map (fun kv => (fst kv, g (snd kv))) l.
Proof.
  intro ND. unfold keys. rewrite map_map. apply map_ext_in. intros [k v] I. simpl.
  now rewrite (aget_d_in_nodup l k v 0%Q ND I).
Qed.

Theorem gen_calc_freqs_eq c x :
  NoDup (keys (counts (x_sd x))) ->
  gen_calc_freqs c x
  = (mkSdx (fst (calc_freqs (x_sd x))) None None (x_counted_for_summ x), Some (snd (calc_freqs (x_sd x)))).
Proof.
  intro ND. unfold gen_calc_freqs.
  set (x0 := sa__split_freqs x (Some [])).
  assert (C0 : a_split_counts x0 = counts (x_sd x)) by (destruct x as [[t w r cn el ag fr cf] ls as_ cs]; reflexivity).
  assert (F0 : a__split_freqs x0 = Some []) by (destruct x as [[t w r cn el ag fr cf] ls as_ cs]; reflexivity).
  assert (T0 : a_total_trees_counted x0 = total (x_sd x)) by (destruct x as [[t w r cn el ag fr cf] ls as_ cs]; reflexivity).
  rewrite T0. unfold calc_freqs, freq_table.
  destruct (total (x_sd x) =? 0) eqn:TZ.
  - rewrite (freqs_loop (fun _ _ => (1 # 1)%Q)) by (intros; reflexivity).
    rewrite F0, C0, (odict_fold (fun _ => (1 # 1)%Q)).
    unfold py_dict_keys. fold (keys (counts (x_sd x))).
    rewrite (build_table (fun _ => (1 # 1)%Q)); [| exact ND | intros k _ []].
    simpl app. rewrite <- (table_of_keys (fun _ => 1%Q) _ ND).
    subst x0. destruct x as [[t w r cn el ag fr cf] ls as_ cs]. reflexivity.
  - rewrite gen_calc_normalization_weight_eq.
    assert (NW : normalization_weight (x_sd x0) = normalization_weight (x_sd x))
      by (destruct x as [[t w r cn el ag fr cf] ls as_ cs]; reflexivity).
    rewrite NW.
    rewrite (freqs_loop (fun cnts k => py_fdiv (py_dd_get_float cnts k) (normalization_weight (x_sd x))))
      by (intros; reflexivity).
    rewrite F0, C0, (odict_fold (fun k => py_fdiv (py_dd_get_float (counts (x_sd x)) k) (normalization_weight (x_sd x)))).
    unfold py_dict_keys. fold (keys (counts (x_sd x))).
    rewrite (build_table (fun k => py_fdiv (py_dd_get_float (counts (x_sd x)) k) (normalization_weight (x_sd x))));
      [| exact ND | intros k _ []].
    simpl app. unfold py_dd_get_float, py_fdiv.
    rewrite (table_of_keys (fun v => qdiv v (normalization_weight (x_sd x))) _ ND).
    subst x0. destruct x as [[t w r cn el ag fr cf] ls as_ cs]. reflexivity.
Qed.

Theorem gen_get_split_frequencies_eq c x :
  NoDup (keys (counts (x_sd x))) ->
  fst (gen_get_split_frequencies c x)
  = (let d' := fst (get_freqs (x_sd x)) in
     if py_is_none (freqs (x_sd x)) || negb (counted_for_freqs (x_sd x) =? total (x_sd x))
     then mkSdx d' None None (x_counted_for_summ x) else x)
  /\ snd (gen_get_split_frequencies c x) = Some (snd (get_freqs (x_sd x))).
Proof.
  intro ND. unfold gen_get_split_frequencies, get_freqs.
  unfold a__split_freqs at 1, a__trees_counted_for_freqs, a_total_trees_counted.
  destruct x as [[t w r cn el ag fr cf] ls as_ cs]. cbn [x_sd freqs counted_for_freqs total x_counted_for_summ].
  destruct fr as [tbl|].
  - simpl py_is_none. simpl orb. destruct (cf =? t) eqn:E; simpl negb; cbv iota.
    + split; reflexivity.
    + rewrite gen_calc_freqs_eq by exact ND. split; reflexivity.
  - simpl py_is_none. simpl orb. cbv iota. rewrite gen_calc_freqs_eq by exact ND. split; reflexivity.
Qed.

Theorem gen_getitem_eq c x s :
  NoDup (keys (counts (x_sd x))) ->
  x_sd (fst (gen_getitem c x s)) = fst (query (x_sd x) s) /\ snd (gen_getitem c x s) = snd (query (x_sd x) s).
Proof.
  intro ND. unfold gen_getitem, query.
  destruct (gen_get_split_frequencies_eq c x ND) as [E1 E2].
  destruct (gen_get_split_frequencies c x) as [x' r1]. simpl in E1, E2. subst r1.
  destruct (get_freqs (x_sd x)) as [d' tbl] eqn:G. simpl in *.
  split; [|reflexivity].
  rewrite E1. destruct (py_is_none (freqs (x_sd x)) || negb (counted_for_freqs (x_sd x) =? total (x_sd x))) eqn:B.
  - reflexivity.
  - (* cache served: the model's get_freqs leaves the state unchanged too *)
    unfold get_freqs in G. apply orb_false_iff in B. destruct B as [B1 B2].
    destruct (freqs (x_sd x)); [|discriminate]. rewrite B2 in G. now inversion G.
Qed.
