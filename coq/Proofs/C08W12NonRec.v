(* C08 wave 12 - prune_leaves_without_taxa(recursive=False): ONE pass over the leaves; an internal node emptied by
   the pass STAYS as a taxon-less leaf (restrictG with np_true as third predicate).  Specification level
   (copy of C08More.filter_nonrecursive_spec for the predicate `no_taxon` and the error of this method), pointer
   level (C08W11Leaf.heap_plwt_link for either value of `recursive`) and the code generated from _tree.py.
   Closes the leftover named after wave 11. *)
From Coq Require Import ZArith List Bool Lia.
From DV Require Import Model.PyPrims Model.Tree Model.Heap Model.HeapOps Model.C15Prims Model.MutPrims Gen.Mutators
     Model.C03GenInst Proofs.C03Base Proofs.C03GenPrims Proofs.C03GenPrune.
From DV Require Model.C08Model Proofs.C03Hist Proofs.C08Final Proofs.C08Base Proofs.C08InPlace Proofs.C08Prune Proofs.C08More
     Proofs.C08W10Prune Proofs.C08W11Leaf Proofs.C08W11LeafGen Proofs.C08W11NonRec.
Import ListNotations.
Open Scope Z_scope.

Module S.
Import C08Model C08Base C08InPlace C08Prune C08Final C08More.

Theorem plwt_nonrecursive_spec upd_bip sup t rooted : NoDup (ids t) ->
  prune_leaves_without_taxa false upd_bip sup (t, rooted) =
  match restrictG sup has_taxon np_true np_true t with
  | Some r => IOk (map t_id (filter (app_np no_taxon) (leaves t)),
                   fst (with_update upd_bip sup rooted r), snd (with_update upd_bip sup rooted r))
  | None => IErr EAttr t
  end.
Proof.
  intro Hnd. unfold prune_leaves_without_taxa. set (bad := no_taxon).
  rewrite lf_loop_S, (pass_eq bad EAttr t Hnd). simpl negb. rewrite orb_true_r.
  assert (X : restrictG sup has_taxon np_true np_true t = restrictG sup (nnot bad) np_true np_true t).
  { apply restrictG_ext. intros n _. unfold bad. rewrite nnot_no_taxon. repeat split. }
  rewrite X. clear X.
  pose proof (rmQ_badleaf_restrict bad t) as R0.
  pose proof (su_restrict (nnot bad) np_true t) as S.
  destruct t as [i x l e ks]. rewrite rmQ_T in R0.
  destruct (badleaf bad (T i x l e ks)) eqn:Hb; rewrite ?Hb in R0.
  - destruct (restrictG false (nnot bad) np_true np_true (T i x l e ks)) as [r0|] eqn:E0; [discriminate R0|].
    cbn [olist flat_map] in S.
    destruct sup; [|rewrite E0; reflexivity].
    destruct (restrictG true (nnot bad) np_true np_true (T i x l e ks)); [discriminate S | reflexivity].
  - destruct (restrictG false (nnot bad) np_true np_true (T i x l e ks)) as [r0|] eqn:E0; [|discriminate R0].
    cbn [olist] in R0. inversion R0 as [R0']. clear R0.
    simpl t_kids. simpl set_kids. rewrite finish_eq. simpl app.
    destruct sup.
    + cbn [olist] in S. rewrite flat_map_single, suL_root in S.
      destruct (restrictG true (nnot bad) np_true np_true (T i x l e ks)) as [r|]; [|discriminate S].
      cbn [olist] in S. inversion S; subst r. try rewrite <- R0'. rewrite su_run_eq; [reflexivity|].
      pose proof (NoDup_pass bad (T i x l e ks) Hnd) as N. exact N.
    + rewrite E0. try rewrite <- R0'. reflexivity.
Qed.
End S.

Theorem heap_plwt_nonrec_restrictG ub su h t :
  WF h -> abs h = Some t ->
  match C08Model.restrictG su C08Model.has_taxon C08Model.np_true C08Model.np_true t with
  | Some r => exists h', HeapOps.prune_leaves_without_taxa false ub su h = HOk h' /\ WF h' /\
                         abs h' = Some (fst (C08Prune.with_update ub su (rooted h) r))
  | None => exists h', HeapOps.prune_leaves_without_taxa false ub su h = HErr AttrErr h' /\ WF h'
  end.
Proof.
  intros W0 A. pose proof (Proofs.C03Hist.WF_abs_t h t W0 A) as W.
  assert (N : NoDup (ids t)). { destruct W as [[_ [N _]] _]. exact N. }
  pose proof (S.plwt_nonrecursive_spec ub su t (rooted h) N) as S.
  destruct (C08Model.restrictG su C08Model.has_taxon C08Model.np_true C08Model.np_true t) as [r|].
  - exact (C08W11Leaf.heap_plwt_link false ub su h t _ _ _ W0 A S).
  - exact (C08W11Leaf.heap_plwt_link_err false ub su h t _ _ W0 A S).
Qed.

Theorem gen_plwt_nonrec_restrictG (fuel : nat) ub su h t r :
  (fuel_of h <= fuel)%nat ->
  WF h -> abs h = Some t ->
  C08Model.restrictG su C08Model.has_taxon C08Model.np_true C08Model.np_true t = Some r ->
  exists h', to_hres (Tree_prune_leaves_without_taxa HG fuel false ub su h) = HOk h' /\ WF h' /\
             abs h' = Some (fst (C08Prune.with_update ub su (rooted h) r)).
Proof.
  intros Hf W A R. pose proof (heap_plwt_nonrec_restrictG ub su h t W A) as G. rewrite R in G.
  destruct G as [h' [E [W' A']]].
  exists h'. split; [|split; assumption].
  rewrite (gen_prune_leaves_without_taxa fuel false ub su h Hf);
    rewrite (C08W11LeafGen.plwt_op_ok _ _ _ _ _ E); [reflexivity|discriminate].
Qed.

(* the seed itself is a taxon-less leaf, or every leaf goes and nothing is left of the seed: the current source
   refuses (SeedNodeDeletionException = OtherErr; AttributeError before the repair) and the heap stays well formed *)
Theorem gen_plwt_nonrec_refuses (fuel : nat) ub su h t :
  (fuel_of h <= fuel)%nat ->
  WF h -> abs h = Some t ->
  C08Model.restrictG su C08Model.has_taxon C08Model.np_true C08Model.np_true t = None ->
  exists h', to_hres (Tree_prune_leaves_without_taxa HG fuel false ub su h) = HErr OtherErr h' /\ WF h'.
Proof.
  intros Hf W A R. pose proof (heap_plwt_nonrec_restrictG ub su h t W A) as G. rewrite R in G.
  destruct G as [h' [E W']].
  exists h'. split; [|assumption].
  rewrite (gen_prune_leaves_without_taxa fuel false ub su h Hf);
    rewrite (C08W11LeafGen.plwt_op_err _ _ _ _ _ E); [reflexivity|discriminate].
Qed.

(* ((_,_)X,C)R rooted, neither child of X has a taxon: one pass removes both, the emptied X STAYS as a taxon-less
   leaf (recursive=True would remove it in the second pass) *)
Definition w12_tree : tree :=
  T 0 None None None [T 1 None None (Some 2048) [T 2 None None (Some 1024) []; T 3 None None (Some 1024) []];
                      T 4 (Some 2) None (Some 1024) []].
Definition w12_heap : heap := of_tree w12_tree (Some true).

Example gen_plwt_nonrec_hyps :
  (fuel_of w12_heap <= 10)%nat /\
  WF w12_heap /\ abs w12_heap = Some w12_tree /\
  C08Model.restrictG false C08Model.has_taxon C08Model.np_true C08Model.np_true w12_tree =
    Some (T 0 None None None [T 1 None None (Some 2048) []; T 4 (Some 2) None (Some 1024) []]) /\
  C08Model.restrict false C08Model.has_taxon w12_tree =
    Some (T 0 None None None [T 4 (Some 2) None (Some 1024) []]).
Proof.
  split; [vm_compute; lia|split; [|split; [vm_compute; reflexivity|split; vm_compute; reflexivity]]].
  apply C03Abs.of_tree_WF. vm_compute. repeat constructor; simpl; intuition discriminate.
Qed.

Example gen_plwt_nonrec_run :
  match to_hres (Tree_prune_leaves_without_taxa HG 10 false false false w12_heap) with
  | HOk h' => abs h'
  | _ => None
  end = Some (T 0 None None None [T 1 None None (Some 2048) []; T 4 (Some 2) None (Some 1024) []]).
Proof. vm_compute. reflexivity. Qed.

(* companion for filter_leaf_nodes(recursive=False): the generated method refuses exactly where the one-pass
   specification is empty (the seed itself is a rejected leaf), and leaves a well-formed heap *)
Theorem gen_filter_nonrec_refuses (fuel : nat) keep ub su h t :
  (fuel_of h <= fuel)%nat ->
  WF h -> abs h = Some t ->
  C08Model.restrictG su (C08Model.keep_ids keep) C08Model.np_true C08Model.np_true t = None ->
  exists h', to_hres (Tree_filter_leaf_nodes HG fuel (fun nd => memz nd keep) false ub su h) = HErr OtherErr h' /\ WF h'.
Proof.
  intros Hf W A R. pose proof (C08W11NonRec.heap_filter_nonrec_restrictG keep ub su h t W A) as G. rewrite R in G.
  destruct G as [h' [E W']].
  exists h'. split; [|assumption].
  rewrite (gen_filter_leaf_nodes fuel keep false ub su h Hf); rewrite E; [reflexivity|discriminate].
Qed.

(* a single taxon-less node: both one-pass methods refuse *)
Definition w12_lone : heap := of_tree (T 0 None None None []) (Some true).
Example w12_lone_refused :
  to_hres (Tree_prune_leaves_without_taxa HG 10 false false false w12_lone) = HErr OtherErr w12_lone /\
  to_hres (Tree_filter_leaf_nodes HG 10 (fun nd => memz nd []) false false false w12_lone) = HErr OtherErr w12_lone.
Proof. split; vm_compute; reflexivity. Qed.
