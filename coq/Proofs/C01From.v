(* C01: Tree.from_split_bitmasks (Model/C01Model.v from_splits): greedy insertion of splits. *)
From Coq Require Import ZArith List Bool Lia ZifyBool Permutation.
From DV Require Import Model.PyPrims Model.Tree Gen.BitFns Model.C01Model
  Proofs.C01Bits Proofs.C01Enc Proofs.C01Topo Proofs.C01Bip.
Import ListNotations.
Open Scope Z_scope.

(* nested induction principle for mtree *)
Section MtreeInd.
  Variable P : mtree -> Prop.
  Hypothesis H : forall m x ks, Forall P ks -> P (M m x ks).
  Fixpoint mtree_ind' (t : mtree) : P t :=
    match t with
    | M m x ks =>
      H m x ks ((fix go (ks : list mtree) : Forall P ks :=
                   match ks with
                   | [] => Forall_nil P
                   | k :: r => Forall_cons k (mtree_ind' k) (go r)
                   end) ks)
    end.
End MtreeInd.

(* clade masks stored in a working tree (post-order) *)
Fixpoint mclades (t : mtree) : list Z :=
  match t with M m _ ks => flat_map mclades ks ++ [m] end.

Definition or_masks (l : list mtree) : Z := fold_right Z.lor 0 (map m_mask l).

(* two sets are laminar: disjoint or nested *)
Definition laminar (a b : Z) : Prop := mdisjoint a b \/ msubset a b \/ msubset b a.

Lemma laminar_sym a b : laminar a b -> laminar b a.
Proof. intros [H | [H | H]]; [left; apply mdisjoint_sym; exact H | right; right; exact H | right; left; exact H]. Qed.

(* well-formed working tree: a leaf holds one bit; an inner node holds the union of its children's
   masks, which are pairwise disjoint *)
Inductive mwf : mtree -> Prop :=
| mwf_leaf m x : (exists k, 0 <= k /\ m = 2 ^ k) -> mwf (M m x [])
| mwf_node m x ks :
    ks <> [] -> Forall mwf ks ->
    ForallOrdPairs (fun a b => mdisjoint (m_mask a) (m_mask b)) ks ->
    m = or_masks ks -> mwf (M m x ks).

Lemma or_masks_mem l i : mem (or_masks l) i <-> exists c, In c l /\ mem (m_mask c) i.
Proof.
  unfold or_masks, mem. induction l as [|c r IH]; cbn [map fold_right].
  - rewrite Z.bits_0. split; [discriminate | intros (c & [] & _)].
  - rewrite Z.lor_spec, orb_true_iff, IH. split.
    + intros [H | (d & Hd & H)]; [exists c; split; [left; reflexivity | exact H] | exists d; split; [right; exact Hd | exact H]].
    + intros (d & [<- | Hd] & H); [left; exact H | right; exists d; split; assumption].
Qed.

Lemma or_masks_fold l : fold_left Z.lor (map m_mask l) 0 = or_masks l.
Proof. rewrite fold_left_lor, Z.lor_0_l. reflexivity. Qed.

Lemma mwf_nonzero t : mwf t -> m_mask t <> 0.
Proof.
  induction t as [m x ks IH] using mtree_ind'. intro W. inversion W as [? ? (k & Hk & ->) | ? ? ? NE F D E]; subst; cbn [m_mask].
  - pose proof (Z.pow_pos_nonneg 2 k). lia.
  - destruct ks as [|c r]; [congruence|]. inversion IH as [|? ? IHc _]; subst. inversion F as [|? ? Wc _]; subst.
    specialize (IHc Wc). unfold or_masks. cbn [map fold_right]. intro E0. apply Z.lor_eq_0_iff in E0. tauto.
Qed.

Lemma mwf_child_subset m x ks c : mwf (M m x ks) -> In c ks -> msubset (m_mask c) m.
Proof.
  intros W Hc. inversion W as [| ? ? ? NE F D E]; subst; [destruct Hc|].
  intros i Hi H. apply or_masks_mem. exists c. split; assumption.
Qed.

Lemma root_in_mclades t : In (m_mask t) (mclades t).
Proof. destruct t as [m x ks]. cbn [mclades m_mask]. apply in_or_app. right. left. reflexivity. Qed.

Lemma in_mclades_node m x ks y :
  In y (mclades (M m x ks)) <-> ((exists c, In c ks /\ In y (mclades c)) \/ y = m).
Proof.
  cbn [mclades]. rewrite in_app_iff, in_flat_map. cbn [In]. split.
  - intros [H | [H | []]]; [left; exact H | right; symmetry; exact H].
  - intros [H | H]; [left; exact H | right; left; symmetry; exact H].
Qed.

Lemma FOP_map {A B} (R : B -> B -> Prop) (f : A -> B) l :
  ForallOrdPairs (fun a b => R (f a) (f b)) l <-> ForallOrdPairs R (map f l).
Proof.
  induction l as [|a r IH]; cbn [map].
  - split; intros _; constructor.
  - split; intro H; inversion H as [|? ? Fa Fr]; subst; constructor.
    + rewrite Forall_map. exact Fa.
    + apply IH. exact Fr.
    + rewrite Forall_map in Fa. exact Fa.
    + apply IH. exact Fr.
Qed.

Lemma FOP_filter {A} (R : A -> A -> Prop) (p : A -> bool) l :
  ForallOrdPairs R l -> ForallOrdPairs R (filter p l).
Proof.
  induction 1 as [|a r Fa Fr IH]; cbn [filter]; [constructor|].
  destruct (p a); [| exact IH]. constructor; [| exact IH].
  rewrite Forall_forall in *. intros b Hb. apply filter_In in Hb. apply Fa. tauto.
Qed.

Lemma FOP_app_single {A} (R : A -> A -> Prop) l z :
  ForallOrdPairs R l -> Forall (fun a => R a z) l -> ForallOrdPairs R (l ++ [z]).
Proof.
  induction 1 as [|a r Fa Fr IH]; intro Fz; cbn [app].
  - constructor; [constructor | constructor].
  - inversion Fz as [|? ? Raz Fz']; subst. constructor; [| apply IH; exact Fz'].
    apply Forall_app. split; [exact Fa | constructor; [exact Raz | constructor]].
Qed.

Lemma or_masks_partition (p : mtree -> bool) l :
  Z.lor (or_masks (filter (fun c => negb (p c)) l)) (or_masks (filter p l)) = or_masks l.
Proof.
  apply eq_bits. intros i Hi. apply eq_true_iff_eq. rewrite Z.lor_spec, orb_true_iff.
  change (mem (or_masks (filter (fun c => negb (p c)) l)) i \/ mem (or_masks (filter p l)) i <-> mem (or_masks l) i).
  rewrite !or_masks_mem. split.
  - intros [(c & Hc & H) | (c & Hc & H)]; apply filter_In in Hc; exists c; tauto.
  - intros (c & Hc & H). destruct (p c) eqn:E.
    + right. exists c. split; [apply filter_In; tauto | exact H].
    + left. exists c. split; [apply filter_In; rewrite E; tauto | exact H].
Qed.

Lemma or_masks_app_single l z : or_masks (l ++ [z]) = Z.lor (or_masks l) (m_mask z).
Proof.
  unfold or_masks. induction l as [|a r IH]; cbn [app map fold_right].
  - rewrite Z.lor_0_r, Z.lor_0_l. reflexivity.
  - rewrite IH, Z.lor_assoc. reflexivity.
Qed.

Lemma hits_spec s c : hits s c = true <-> ~ mdisjoint (m_mask c) s.
Proof.
  unfold hits. rewrite negb_true_iff, Z.eqb_neq, <- mdisjoint_land. reflexivity.
Qed.

Lemma hits_false s c : hits s c = false <-> mdisjoint (m_mask c) s.
Proof.
  unfold hits. rewrite negb_false_iff, Z.eqb_eq. apply mdisjoint_land.
Qed.

Lemma covers_spec s c : covers s c = true <-> msubset s (m_mask c).
Proof. unfold covers. rewrite Z.eqb_eq. apply msubset_land. Qed.

(* leaves of a working tree: (mask, taxon) left to right *)
Fixpoint mleaves (t : mtree) : list (Z * option Z) :=
  match t with
  | M m x [] => [(m, x)]
  | M _ _ ks => flat_map mleaves ks
  end.

Lemma mleaves_node m x k ks : mleaves (M m x (k :: ks)) = flat_map mleaves (k :: ks).
Proof. reflexivity. Qed.

Lemma mleaves_nonleaf m x ks : ks <> [] -> mleaves (M m x ks) = flat_map mleaves ks.
Proof. destruct ks; [congruence | reflexivity]. Qed.

Lemma flat_map_filter_perm {A B} (f : A -> list B) (p : A -> bool) l :
  Permutation (flat_map f (filter (fun c => negb (p c)) l) ++ flat_map f (filter p l)) (flat_map f l).
Proof.
  induction l as [|a r IH]; cbn [filter flat_map]; [reflexivity|].
  destruct (p a); cbn [negb flat_map].
  - rewrite <- IH. rewrite Permutation_app_comm. cbn [app]. rewrite <- app_assoc.
    apply Permutation_app_head. apply Permutation_app_comm.
  - rewrite <- app_assoc. apply Permutation_app_head. exact IH.
Qed.

Definition icond (s lb : Z) (c : mtree) : bool := hits lb c && covers s c.
Definition istep (s lb : Z) (c : mtree) : mtree := if icond s lb c then insert_split s lb c else c.

Lemma insert_split_unfold s lb m x ks :
  insert_split s lb (M m x ks) =
  if existsb (icond s lb) ks then M m x (map (istep s lb) ks)
  else if Z.eqb m s then M m x ks
  else if Z.eqb (fold_left Z.lor (map m_mask (filter (hits s) ks)) 0) s
       then M m x (filter (fun c => negb (hits s c)) ks
                   ++ [M (fold_left Z.lor (map m_mask (filter (hits s) ks)) 0) None (filter (hits s) ks)])
       else M m x ks.
Proof. reflexivity. Qed.

Section Insert.
  Variables (s k : Z).
  Hypothesis Hs0 : s <> 0.
  Hypothesis Hlow : lowest s k.

  Lemma lb_in_s : msubset (2 ^ k) s.
  Proof.
    destruct Hlow as (Hk0 & Hk1 & _). intros i Hi H. unfold mem in H. rewrite Z.pow2_bits_eqb in H by lia.
    apply Z.eqb_eq in H. subst i. exact Hk1.
  Qed.

  Lemma covers_hits_lb c : covers s c = true -> hits (2 ^ k) c = true.
  Proof.
    intro C. apply covers_spec in C. apply hits_spec. intro D.
    destruct Hlow as (Hk0 & Hk1 & _). apply (D k Hk0).
    - apply C; assumption.
    - unfold mem. apply Z.pow2_bits_true. exact Hk0.
  Qed.

  Definition ins_facts (t t' : mtree) : Prop :=
    mwf t' /\ m_mask t' = m_mask t /\
    (forall y, In y (mclades t') -> In y (mclades t) \/ y = s) /\
    (forall y, In y (mclades t) -> In y (mclades t')) /\
    Permutation (mleaves t') (mleaves t).

  Lemma ins_facts_refl t : mwf t -> ins_facts t t.
  Proof. intro W. repeat split; auto. Qed.

  Lemma insert_ok : forall t, mwf t -> msubset s (m_mask t) ->
    ins_facts t (insert_split s (2 ^ k) t) /\
    ((forall y, In y (mclades t) -> laminar s y) -> In s (mclades (insert_split s (2 ^ k) t))).
  Proof.
    induction t as [m x ks IH] using mtree_ind'. intros W Sub. cbn [m_mask] in Sub.
    rewrite insert_split_unfold.
    destruct (existsb (icond s (2 ^ k)) ks) eqn:EX.
    - (* descend into the children that contain (2 ^ k) and cover s *)
      set (g := istep s (2 ^ k)). set (cond := icond s (2 ^ k)) in *.
      inversion W as [| ? ? ? NE F D E]; subst; [discriminate EX|].
      assert (G : forall c, In c ks -> ins_facts c (g c)).
      { intros c Hc. unfold g, istep. fold cond. destruct (cond c) eqn:Ec.
        - rewrite Forall_forall in IH, F. unfold cond, icond in Ec. apply andb_true_iff in Ec. destruct Ec as [_ Ec].
          apply (IH c Hc (F c Hc)). apply covers_spec. exact Ec.
        - apply ins_facts_refl. rewrite Forall_forall in F. apply F. exact Hc. }
      assert (MM : map m_mask (map g ks) = map m_mask ks).
      { rewrite map_map. apply map_ext_in. intros c Hc. apply (G c Hc). }
      split; [split; [| split; [| split; [| split]]] |].
      + apply mwf_node.
        * destruct ks; [congruence | discriminate].
        * apply Forall_forall. intros c' Hc'. apply in_map_iff in Hc'. destruct Hc' as (c & <- & Hc). apply (G c Hc).
        * apply (proj2 (FOP_map mdisjoint m_mask (map g ks))). rewrite MM.
          apply (proj1 (FOP_map mdisjoint m_mask ks)). exact D.
        * unfold or_masks. rewrite MM. reflexivity.
      + reflexivity.
      + intros y Hy. apply in_mclades_node in Hy. destruct Hy as [(c' & Hc' & Hy) | ->].
        * apply in_map_iff in Hc'. destruct Hc' as (c & <- & Hc).
          destruct (G c Hc) as (_ & _ & G3 & _). destruct (G3 y Hy) as [Hy' | ->]; [left | right; reflexivity].
          apply in_mclades_node. left. exists c. split; assumption.
        * left. apply in_mclades_node. right. reflexivity.
      + intros y Hy. apply in_mclades_node in Hy. apply in_mclades_node. destruct Hy as [(c & Hc & Hy) | ->]; [left | right; reflexivity].
        exists (g c). split; [apply in_map; exact Hc|]. apply (G c Hc). exact Hy.
      + rewrite !mleaves_nonleaf by (destruct ks; [congruence | discriminate]).
        rewrite flat_map_concat_map, map_map, <- flat_map_concat_map.
        apply flat_map_perm_pointwise. intros c Hc. apply (G c Hc).
      + intro Lam. apply existsb_exists in EX. destruct EX as (c & Hc & Ec).
        apply in_mclades_node. left. exists (g c). split; [apply in_map; exact Hc|].
        unfold g, istep. fold cond. rewrite Ec. rewrite Forall_forall in IH, F.
        unfold cond, icond in Ec. apply andb_true_iff in Ec. destruct Ec as [_ Ec].
        apply (IH c Hc (F c Hc)); [apply covers_spec; exact Ec|].
        intros y Hy. apply Lam. apply in_mclades_node. left. exists c. split; assumption.
    - (* this node is the lowest one covering s *)
      destruct (Z.eqb_spec m s) as [Ems | Nms].
      { split; [apply ins_facts_refl; exact W|]. intros _. subst m. apply in_mclades_node. right. reflexivity. }
      rewrite or_masks_fold.
      set (sel := filter (hits s) ks). set (rest := filter (fun c => negb (hits s c)) ks).
      destruct (Z.eqb_spec (or_masks sel) s) as [Enew | Nnew].
      + (* compatible: the selected children move below a new node with mask s *)
        rewrite Enew.
        inversion W as [? ? (k0 & Hk0 & Em) | ? ? ? NE F D E]; subst.
        { exfalso. cbn in Enew. congruence. }
        assert (SelNE : sel <> []) by (intro E0; rewrite E0 in Enew; cbn in Enew; congruence).
        assert (Wnew : mwf (M s None sel)).
        { apply mwf_node; [exact SelNE | | apply FOP_filter; exact D | symmetry; exact Enew].
          apply Forall_forall. intros c Hc. apply filter_In in Hc. rewrite Forall_forall in F. apply F. tauto. }
        split; [split; [| split; [| split; [| split]]] |].
        * apply mwf_node.
          -- destruct rest; discriminate.
          -- apply Forall_app. split; [| constructor; [exact Wnew | constructor]].
             apply Forall_forall. intros c Hc. apply filter_In in Hc. rewrite Forall_forall in F. apply F. tauto.
          -- apply FOP_app_single; [apply FOP_filter; exact D|].
             apply Forall_forall. intros c Hc. apply filter_In in Hc. destruct Hc as [_ Hc].
             apply negb_true_iff in Hc. cbn [m_mask]. apply hits_false. exact Hc.
          -- rewrite or_masks_app_single. cbn [m_mask].
             transitivity (Z.lor (or_masks rest) (or_masks sel)); [| rewrite Enew; reflexivity].
             unfold rest, sel. symmetry. apply or_masks_partition.
        * reflexivity.
        * intros y Hy. apply in_mclades_node in Hy. destruct Hy as [(c & Hc & Hy) | ->].
          -- apply in_app_or in Hc. destruct Hc as [Hc | [<- | []]].
             ++ left. apply in_mclades_node. left. exists c. apply filter_In in Hc. tauto.
             ++ apply in_mclades_node in Hy. destruct Hy as [(c & Hc & Hy) | ->]; [| right; reflexivity].
                left. apply in_mclades_node. left. exists c. apply filter_In in Hc. tauto.
          -- left. apply in_mclades_node. right. reflexivity.
        * intros y Hy. apply in_mclades_node in Hy. apply in_mclades_node. destruct Hy as [(c & Hc & Hy) | ->]; [left | right; reflexivity].
          destruct (hits s c) eqn:Eh.
          -- exists (M s None sel). split; [apply in_or_app; right; left; reflexivity|].
             apply in_mclades_node. left. exists c. split; [apply filter_In; tauto | exact Hy].
          -- exists c. split; [| exact Hy]. apply in_or_app. left. apply filter_In. rewrite Eh. tauto.
        * rewrite (mleaves_nonleaf _ x ks NE). rewrite mleaves_nonleaf by (destruct rest; discriminate).
          rewrite flat_map_app. cbn [flat_map]. rewrite app_nil_r, (mleaves_nonleaf s None sel SelNE).
          apply flat_map_filter_perm.
        * intros _. apply in_mclades_node. left. exists (M s None sel). split; [apply in_or_app; right; left; reflexivity|].
          apply in_mclades_node. right. reflexivity.
      + (* incompatible: unchanged; under the laminarity hypothesis this case is impossible *)
        split; [apply ins_facts_refl; exact W|]. intro Lam. exfalso.
        inversion W as [? ? (k0 & Hk0 & Em) | ? ? ? NE F D E]; subst.
        { (* a leaf: s is a non-empty subset of one bit *)
          apply Nms. apply msubset_antisym; [| exact Sub].
          intros i Hi H. unfold mem in H. rewrite Z.pow2_bits_eqb in H by lia. apply Z.eqb_eq in H. subst i.
          destruct Hlow as (Hk & Hk1 & _). specialize (Sub k Hk Hk1). unfold mem in Sub.
          rewrite Z.pow2_bits_eqb in Sub by lia. apply Z.eqb_eq in Sub. subst k0. exact Hk1. }
        apply Nnew. apply msubset_antisym.
        * intros i Hi H. apply or_masks_mem in H. destruct H as (c & Hc & H). apply filter_In in Hc. destruct Hc as [Hc Hh].
          assert (L : laminar s (m_mask c)).
          { apply Lam. apply in_mclades_node. left. exists c. split; [exact Hc | apply root_in_mclades]. }
          destruct L as [L | [L | L]].
          -- exfalso. apply hits_spec in Hh. apply Hh. apply mdisjoint_sym. exact L.
          -- exfalso. assert (C : icond s (2 ^ k) c = true).
             { unfold icond. apply covers_spec in L. rewrite L, (covers_hits_lb c L). reflexivity. }
             assert (existsb (icond s (2 ^ k)) ks = true); [| congruence]. apply existsb_exists. exists c. split; assumption.
          -- apply L; assumption.
        * intros i Hi H. specialize (Sub i Hi H). apply or_masks_mem in Sub. destruct Sub as (c & Hc & Hm).
          apply or_masks_mem. exists c. split; [| exact Hm]. apply filter_In. split; [exact Hc|].
          apply hits_spec. intro Dj. exact (Dj i Hi Hm H).
  Qed.
End Insert.

(* ------------------------------------------------------------------------------------------ *)
(* one split, then a list of splits                                                            *)

Lemma add_split_ok t s : mwf t -> s <> 0 ->
  ins_facts s t (add_split t s) /\
  (msubset s (m_mask t) -> (forall y, In y (mclades t) -> laminar s y) -> In s (mclades (add_split t s))).
Proof.
  intros W Hs. unfold add_split.
  destruct (Z.eqb_spec (Z.land s (m_mask t)) s) as [E | N]; cbn [negb].
  - destruct (lsb_pow2 s Hs) as (k & Hk & EL). rewrite EL.
    assert (Sub : msubset s (m_mask t)) by (apply msubset_land; exact E).
    destruct (insert_ok s k Hs Hk t W Sub) as [A B]. split; [exact A | intros _; exact B].
  - split; [apply ins_facts_refl; exact W|]. intros Sub _. exfalso. apply N. apply msubset_land. exact Sub.
Qed.

Lemma fold_add_facts : forall l t, mwf t -> Forall (fun s => s <> 0) l ->
  mwf (fold_left add_split l t) /\ m_mask (fold_left add_split l t) = m_mask t /\
  (forall y, In y (mclades (fold_left add_split l t)) -> In y (mclades t) \/ In y l) /\
  (forall y, In y (mclades t) -> In y (mclades (fold_left add_split l t))) /\
  Permutation (mleaves (fold_left add_split l t)) (mleaves t).
Proof.
  induction l as [|s r IH]; intros t W NZ; cbn [fold_left].
  - repeat split; auto.
  - inversion NZ as [|? ? Hs NZr]; subst.
    destruct (add_split_ok t s W Hs) as [(W1 & M1 & A1 & B1 & P1) _].
    destruct (IH (add_split t s) W1 NZr) as (W2 & M2 & A2 & B2 & P2).
    split; [exact W2|]. split; [congruence|]. split; [| split].
    + intros y Hy. destruct (A2 y Hy) as [H | H]; [| right; right; exact H].
      destruct (A1 y H) as [H' | ->]; [left; exact H' | right; left; reflexivity].
    + intros y Hy. apply B2, B1, Hy.
    + etransitivity; eassumption.
Qed.

(* every split that lies inside the root mask and is laminar with the tree and with the other
   splits ends up as a clade, in whatever order the list is processed *)
Lemma fold_add_all : forall l t, mwf t -> Forall (fun s => s <> 0) l ->
  (forall s y, In s l -> In y (mclades t) -> laminar s y) -> ForallOrdPairs laminar l ->
  forall s, In s l -> msubset s (m_mask t) -> In s (mclades (fold_left add_split l t)).
Proof.
  induction l as [|s1 r IH]; intros t W NZ Lam FP s Hs Sub; [destruct Hs|].
  cbn [fold_left]. inversion NZ as [|? ? Hs1 NZr]; subst. inversion FP as [|? ? F1 FPr]; subst.
  destruct (add_split_ok t s1 W Hs1) as [(W1 & M1 & A1 & B1 & P1) C1].
  destruct Hs as [<- | Hs].
  - destruct (fold_add_facts r (add_split t s1) W1 NZr) as (_ & _ & _ & B2 & _).
    apply B2. apply C1; [exact Sub|]. intros y Hy. apply Lam; [left; reflexivity | exact Hy].
  - apply (IH (add_split t s1) W1 NZr); [| exact FPr | exact Hs | rewrite M1; exact Sub].
    intros s' y Hs' Hy. destruct (A1 y Hy) as [H | ->].
    + apply Lam; [right; exact Hs' | exact H].
    + apply laminar_sym. rewrite Forall_forall in F1. apply F1. exact Hs'.
Qed.

Lemma FOP_laminar_perm l l' : Permutation l l' -> ForallOrdPairs laminar l -> ForallOrdPairs laminar l'.
Proof. apply FOP_perm. intros a b. apply laminar_sym. Qed.

Lemma fold_add_clades l t : mwf t -> Forall (fun s => s <> 0) l ->
  (forall s y, In s l -> In y (mclades t) -> laminar s y) -> ForallOrdPairs laminar l ->
  forall y, In y (mclades (fold_left add_split l t)) <->
            (In y (mclades t) \/ (In y l /\ msubset y (m_mask t))).
Proof.
  intros W NZ Lam FP y. destruct (fold_add_facts l t W NZ) as (W2 & M2 & A2 & B2 & _). split.
  - intro Hy. destruct (A2 y Hy) as [H | H]; [left; exact H|].
    right. split; [exact H|]. rewrite <- M2. 
    (* every clade lies inside the root mask *)
    clear - Hy W2. revert y Hy. induction (fold_left add_split l t) as [m x ks IH] using mtree_ind'.
    intros y Hy. apply in_mclades_node in Hy. cbn [m_mask]. destruct Hy as [(c & Hc & Hy) | ->]; [| apply msubset_refl].
    rewrite Forall_forall in IH. inversion W2 as [| ? ? ? NE F D E]; subst; [destruct Hc|].
    rewrite Forall_forall in F. apply (msubset_trans _ (m_mask c)); [apply (IH c Hc (F c Hc) y Hy)|].
    apply (mwf_child_subset _ x ks c W2 Hc).
  - intros [H | [H Sub]]; [apply B2; exact H | apply fold_add_all; assumption].
Qed.

(* from_splits_order_irrelevant at the level of clade sets *)
Lemma fold_add_order_irrelevant l l' t : mwf t -> Permutation l l' ->
  Forall (fun s => s <> 0) l ->
  (forall s y, In s l -> In y (mclades t) -> laminar s y) -> ForallOrdPairs laminar l ->
  forall y, In y (mclades (fold_left add_split l t)) <-> In y (mclades (fold_left add_split l' t)).
Proof.
  intros W P NZ Lam FP y.
  rewrite (fold_add_clades l t W NZ Lam FP y).
  rewrite (fold_add_clades l' t W).
  - split; (intros [H | [H S]]; [left; exact H | right; split; [| exact S]]).
    + apply (Permutation_in _ P H).
    + apply (Permutation_in _ (Permutation_sym P) H).
  - apply Forall_forall. intros s Hs. rewrite Forall_forall in NZ. apply NZ. apply (Permutation_in _ (Permutation_sym P) Hs).
  - intros s z Hs Hz. apply Lam; [apply (Permutation_in _ (Permutation_sym P) Hs) | exact Hz].
  - apply (FOP_laminar_perm l l' P FP).
Qed.

(* ------------------------------------------------------------------------------------------ *)
(* working trees as rose trees                                                                 *)

Fixpoint to_tree (t : mtree) : tree :=
  match t with M _ x ks => T 0 x None None (map to_tree ks) end.

Definition mleaves_ok (acc : Z -> Z) (t : mtree) : Prop :=
  Forall (fun p => exists tx, snd p = Some tx /\ fst p = 2 ^ acc tx) (mleaves t).

Lemma leaf_taxa_to_tree t : leaf_taxa (to_tree t) = map snd (mleaves t).
Proof.
  induction t as [m x ks IH] using mtree_ind'. destruct ks as [|k r]; [reflexivity|].
  cbn [to_tree]. cbn [map]. rewrite leaf_taxa_node, mleaves_node. rewrite <- (map_cons to_tree k r).
  rewrite flat_map_concat_map, map_map, <- flat_map_concat_map.
  rewrite (flat_map_concat_map mleaves), concat_map, map_map, <- flat_map_concat_map.
  clear - IH. induction IH as [|c q Hc _ IHq]; [reflexivity|]. cbn [flat_map]. rewrite Hc, IHq. reflexivity.
Qed.

Section ToTree.
  Variable acc : Z -> Z.
  Hypothesis Hnn : forall x, 0 <= acc x.

  Lemma mleaves_ok_child m x ks c : ks <> [] -> mleaves_ok acc (M m x ks) -> In c ks -> mleaves_ok acc c.
  Proof.
    intros NE H Hc. unfold mleaves_ok in *. rewrite (mleaves_nonleaf m x ks NE) in H.
    rewrite Forall_forall in *. intros p Hp. apply H. apply in_flat_map. exists c. split; assumption.
  Qed.

  Lemma cmask_to_tree t : mwf t -> mleaves_ok acc t -> cmask acc (to_tree t) = m_mask t.
  Proof.
    induction t as [m x ks IH] using mtree_ind'. intros W L. cbn [m_mask].
    inversion W as [? ? (k0 & Hk0 & Em) | ? ? ? NE F D E]; subst.
    - cbn [to_tree map]. rewrite (cmask_leaf acc). unfold mleaves_ok in L. cbn [mleaves] in L.
      inversion L as [|? ? (tx & Hx & Hm) _]; subst. cbn [fst snd] in *. subst x. cbn [leaf_mask].
      rewrite taxon_bitmask_pow2 by apply Hnn. symmetry. exact Hm.
    - cbn [to_tree]. rewrite cmask_nonleaf by (destruct ks; [congruence | discriminate]).
      unfold or_masks. rewrite map_map. f_equal. apply map_ext_in. intros c Hc.
      rewrite Forall_forall in IH, F. apply (IH c Hc (F c Hc)). apply (mleaves_ok_child _ x ks c NE L Hc).
  Qed.

  Lemma clades_to_tree t : mwf t -> mleaves_ok acc t -> clades acc (to_tree t) = mclades t.
  Proof.
    induction t as [m x ks IH] using mtree_ind'. intros W L.
    assert (CM := cmask_to_tree (M m x ks) W L). cbn [to_tree] in *. rewrite clades_node, CM. cbn [mclades m_mask].
    f_equal. inversion W as [| ? ? ? NE F D E]; subst; [reflexivity|].
    rewrite flat_map_concat_map, map_map, <- flat_map_concat_map.
    assert (G : forall c, In c ks -> clades acc (to_tree c) = mclades c).
    { intros c Hc. rewrite Forall_forall in IH, F. apply (IH c Hc (F c Hc)). apply (mleaves_ok_child _ x ks c NE L Hc). }
    clear - G. induction ks as [|c q IHq]; [reflexivity|]. cbn [flat_map]. rewrite G by (left; reflexivity).
    rewrite IHq; [reflexivity|]. intros d Hd. apply G. right. exact Hd.
  Qed.
End ToTree.

(* ------------------------------------------------------------------------------------------ *)
(* clades of one tree are pairwise laminar (leaves carry pairwise distinct taxa)               *)

Lemma clades_laminar acc t :
  (forall x, 0 <= acc x) -> (forall x y, acc x = acc y -> x = y) ->
  NoDup (leaf_taxa t) -> forall a b, In a (clades acc t) -> In b (clades acc t) -> laminar a b.
Proof.
  intros Hnn Hinj. induction t as [i x l e ks IH] using tree_ind'. intros ND a b Ha Hb.
  apply (in_clades_node acc) in Ha. apply (in_clades_node acc) in Hb.
  destruct Hb as [(d & Hd & Hb) | ->].
  2:{ right. left. apply clades_sub. apply (in_clades_node acc). exact Ha. }
  destruct Ha as [(c & Hc & Ha) | ->].
  2:{ right. right. apply clades_sub. apply (in_clades_node acc). left. exists d. split; assumption. }
  destruct ks as [|k0 kr]; [destruct Hc|]. rewrite leaf_taxa_node in ND.
  rewrite Forall_forall in IH.
  (* same child or two children with disjoint leaf sets *)
  assert (X : c = d \/ mdisjoint (cmask acc c) (cmask acc d)).
  { clear - Hnn Hinj ND Hc Hd. revert ND Hc Hd. generalize (k0 :: kr). intro ks.
    induction ks as [|k r IHr]; intros ND Hc Hd; [destruct Hc|].
    cbn [flat_map] in ND.
    assert (DJ : forall k', In k' r -> mdisjoint (cmask acc k) (cmask acc k')).
    { intros k' Hk'. unfold cmask. apply (masks_disjoint acc Hnn Hinj). intros y H1 H2.
      apply (NoDup_app_disjoint _ _ y ND H1). apply in_flat_map. exists k'. split; assumption. }
    destruct Hc as [<- | Hc], Hd as [<- | Hd].
    - left. reflexivity.
    - right. apply DJ. exact Hd.
    - right. apply mdisjoint_sym. apply DJ. exact Hc.
    - apply IHr; [apply (NoDup_app_r _ _ ND) | exact Hc | exact Hd]. }
  destruct X as [<- | DJ].
  - apply (IH c Hc); [| exact Ha | exact Hb]. apply (NoDup_flat_map_part _ _ _ ND Hc).
  - left. intros j Hj H1 H2. apply (DJ j Hj); [apply (clades_sub acc c a Ha) | apply (clades_sub acc d b Hb)]; assumption.
Qed.

(* ------------------------------------------------------------------------------------------ *)
(* the initial star tree of from_split_bitmasks                                                *)

Definition ns_ok (acc : Z -> Z) (ns : list (Z * Z)) : Prop :=
  NoDup (map fst ns) /\ Forall (fun p => 0 <= fst p /\ snd p = acc (fst p)) ns.

Definition star_m (ns : list (Z * Z)) : mtree :=
  M (fold_right Z.lor 0 (map (fun p => 2 ^ snd p) ns)) None
    (map (fun p => M (2 ^ snd p) (Some (fst p)) []) ns).

Lemma lookup_app_notin l1 l2 k : ~ In k (map fst l1) -> lookup (l1 ++ l2) k = lookup l2 k.
Proof.
  induction l1 as [|[a b] r IH]; intro H; [reflexivity|]. cbn [app lookup].
  destruct (Z.eqb_spec a k) as [-> | _]; [exfalso; apply H; left; reflexivity|].
  apply IH. intro H'. apply H. right. exact H'.
Qed.

Lemma lookup_in l k v : NoDup (map fst l) -> In (k, v) l -> lookup l k = v.
Proof.
  induction l as [|[a b] r IH]; intros ND H; [destruct H|]. cbn [lookup].
  cbn [map fst] in ND. inversion ND as [|? ? Na Nr]; subst.
  destruct H as [H | H].
  - inversion H; subst. rewrite Z.eqb_refl. reflexivity.
  - destruct (Z.eqb_spec a k) as [-> | _]; [| apply IH; assumption].
    exfalso. apply Na. apply in_map_iff. exists (k, v). split; [reflexivity | exact H].
Qed.

Lemma lookup_app_in l1 l2 k v : NoDup (map fst l1) -> In (k, v) l1 -> lookup (l1 ++ l2) k = v.
Proof.
  induction l1 as [|[a b] r IH]; intros ND H; [destruct H|]. cbn [app lookup].
  cbn [map fst] in ND. inversion ND as [|? ? Na Nr]; subst.
  destruct H as [H | H].
  - inversion H; subst. rewrite Z.eqb_refl. reflexivity.
  - destruct (Z.eqb_spec a k) as [-> | _]; [| apply IH; assumption].
    exfalso. apply Na. apply in_map_iff. exists (k, v). split; [reflexivity | exact H].
Qed.

Section Star.
  Variable acc : Z -> Z.
  Hypothesis Hnn : forall x, 0 <= acc x.
  Hypothesis Hinj : forall x y, acc x = acc y -> x = y.
  Variable ns : list (Z * Z).
  Hypothesis Hns : ns_ok acc ns.
  Hypothesis Hlen : (2 <= length ns)%nat.

  Lemma lookup_ns p : In p ns -> lookup ns (fst p) = snd p.
  Proof. intro H. destruct Hns as [ND _]. apply lookup_in; [exact ND|]. destruct p; exact H. Qed.

  Lemma star_unif_free : unif_free (star ns) = true.
  Proof.
    unfold star. cbn [unif_free]. rewrite map_length. apply andb_true_iff. split.
    - destruct ns as [|a [|b q]]; simpl in *; try lia; reflexivity.
    - apply forallb_forall. intros c Hc. apply in_map_iff in Hc. destruct Hc as (p & <- & _). reflexivity.
  Qed.

  Lemma pre_collapse_star rooted : pre_collapse rooted (star ns) = (star ns, rooted).
  Proof.
    unfold pre_collapse. destruct (negb (is_true rooted) && (nkids (star ns) =? 2)) eqn:E; [| reflexivity].
    apply andb_true_iff in E. destruct E as [_ E]. unfold nkids, star in E. cbn [t_kids] in E. rewrite map_length in E.
    destruct ns as [|a [|b [|c q]]]; simpl in E; try lia; reflexivity.
  Qed.

  Lemma star_postorder :
    postorder (star ns) = map (fun p => T (1 + fst p) (Some (fst p)) None None []) ns ++ [star ns].
  Proof.
    assert (G : forall l : list (Z * Z),
               flat_map postorder (map (fun p => T (1 + fst p) (Some (fst p)) None None []) l)
               = map (fun p => T (1 + fst p) (Some (fst p)) None None []) l).
    { induction l as [|p r IH]; [reflexivity|]. cbn [map flat_map]. rewrite IH. reflexivity. }
    unfold star. rewrite postorder_unfold, G. reflexivity.
  Qed.

  Lemma star_cmask : cmask (lookup ns) (star ns) = fold_right Z.lor 0 (map (fun p => 2 ^ snd p) ns).
  Proof.
    unfold star. rewrite cmask_nonleaf by (destruct ns; [simpl in Hlen; lia | discriminate]).
    rewrite map_map. f_equal. apply map_ext_in. intros p Hp. rewrite (cmask_leaf (lookup ns)). cbn [leaf_mask].
    unfold taxon_bitmask. rewrite (lookup_ns p Hp). apply Z.shiftl_1_l.
  Qed.

  (* the encoded star tree, read back as a working tree *)
  Lemma from_splits_star count rooted splits :
    from_splits ns count rooted splits =
    fold_left add_split (splits_to_add rooted (all_taxa_bitmask count) splits) (star_m ns).
  Proof.
    unfold from_splits. f_equal. rewrite encode_spec. cbv zeta. rewrite pre_collapse_star. cbn [fst snd r_tree r_edges].
    rewrite (suppress_id _ star_unif_free). unfold spec_edges. rewrite map_map. cbn [fst snd].
    rewrite star_postorder, map_app. cbn [map]. rewrite map_map. cbn [t_id].
    set (L1 := map (fun p => (1 + fst p, cmask (lookup ns) (T (1 + fst p) (Some (fst p)) None None []))) ns).
    set (L2 := [(t_id (star ns), cmask (lookup ns) (star ns))]).
    destruct Hns as [ND FA]. rewrite Forall_forall in FA.
    assert (ND1 : NoDup (map fst L1)).
    { unfold L1. rewrite map_map. cbn [fst]. rewrite <- (map_map fst (fun k => 1 + k)).
      apply FinFun.Injective_map_NoDup; [intros a b; lia | exact ND]. }
    unfold star at 1. cbn [to_mtree]. unfold star_m.
    replace (match map (fun p : Z * Z => T (1 + fst p) (Some (fst p)) None None []) ns with [] => None | _ :: _ => None end) with (@None Z) by (destruct (map (fun p : Z * Z => T (1 + fst p) (Some (fst p)) None None []) ns); reflexivity).
    f_equal.
    - rewrite lookup_app_notin.
      + unfold L2, star. cbn [t_id lookup]. fold (star ns). rewrite star_cmask. reflexivity.
      + unfold L1. rewrite map_map. cbn [fst]. intro H. apply in_map_iff in H. destruct H as (p & Hp & Hin).
        destruct (FA p Hin) as [H0 _]. lia.
    - rewrite map_map. apply map_ext_in. intros p Hp. cbn [to_mtree map]. f_equal.
      apply (lookup_app_in L1 L2); [exact ND1|]. unfold L1. apply in_map_iff. exists p. split; [| exact Hp].
      f_equal. rewrite (cmask_leaf (lookup ns)). cbn [leaf_mask]. unfold taxon_bitmask. rewrite (lookup_ns p Hp).
      apply Z.shiftl_1_l.
  Qed.

  Lemma snd_nonneg p : In p ns -> 0 <= snd p.
  Proof. intro H. destruct Hns as [_ FA]. rewrite Forall_forall in FA. destruct (FA p H) as [_ ->]. apply Hnn. Qed.

  Lemma star_m_wf : mwf (star_m ns).
  Proof.
    unfold star_m. apply mwf_node.
    - destruct ns; [simpl in Hlen; lia | discriminate].
    - apply Forall_forall. intros c Hc. apply in_map_iff in Hc. destruct Hc as (p & <- & Hp).
      apply mwf_leaf. exists (snd p). split; [apply snd_nonneg; exact Hp | reflexivity].
    - apply (proj1 (FOP_map (fun a b => mdisjoint (m_mask a) (m_mask b)) (fun p : Z * Z => M (2 ^ snd p) (Some (fst p)) []) ns)).
      destruct Hns as [ND FA]. rewrite Forall_forall in FA.
      assert (G : forall l, NoDup (map fst l) -> (forall p, In p l -> 0 <= fst p /\ snd p = acc (fst p)) ->
                 ForallOrdPairs (fun a b : Z * Z => mdisjoint (m_mask (M (2 ^ snd a) (Some (fst a)) [])) (m_mask (M (2 ^ snd b) (Some (fst b)) []))) l).
      { induction l as [|p r IHr]; intros NDl FAl; [constructor|].
        cbn [map] in NDl. inversion NDl as [|? ? Np Nr]; subst. constructor.
        - apply Forall_forall. intros q Hq. cbn [m_mask]. intros i Hi H1 H2. unfold mem in *.
          destruct (FAl p (or_introl eq_refl)) as [_ Ep]. destruct (FAl q (or_intror Hq)) as [_ Eq].
          rewrite Z.pow2_bits_eqb in H1, H2 by (rewrite ?Ep, ?Eq; apply Hnn).
          apply Z.eqb_eq in H1, H2. assert (fst p = fst q) by (apply Hinj; congruence).
          apply Np. rewrite H. apply in_map. exact Hq.
        - apply IHr; [exact Nr|]. intros q Hq. apply FAl. right. exact Hq. }
      apply G; assumption.
    - unfold or_masks. rewrite map_map. reflexivity.
  Qed.

  Lemma star_m_leaves : mleaves (star_m ns) = map (fun p => (2 ^ snd p, Some (fst p))) ns.
  Proof.
    unfold star_m. rewrite mleaves_nonleaf by (destruct ns; [simpl in Hlen; lia | discriminate]).
    clear. induction ns as [|p r IH]; [reflexivity|]. cbn [map flat_map mleaves app]. rewrite IH. reflexivity.
  Qed.

  Lemma star_m_leaves_ok : mleaves_ok acc (star_m ns).
  Proof.
    unfold mleaves_ok. rewrite star_m_leaves. apply Forall_forall. intros q Hq. apply in_map_iff in Hq.
    destruct Hq as (p & <- & Hp). exists (fst p). cbn [fst snd]. split; [reflexivity|].
    destruct Hns as [_ FA]. rewrite Forall_forall in FA. destruct (FA p Hp) as [_ ->]. reflexivity.
  Qed.

  Lemma star_m_clades y : In y (mclades (star_m ns)) <-> ((exists p, In p ns /\ y = 2 ^ snd p) \/ y = m_mask (star_m ns)).
  Proof.
    unfold star_m at 1. rewrite in_mclades_node. cbn [m_mask star_m]. apply or_iff_compat_r. split.
    - intros (c & Hc & Hy). apply in_map_iff in Hc. destruct Hc as (p & <- & Hp). cbn in Hy. destruct Hy as [<- | []].
      exists p. split; [exact Hp | reflexivity].
    - intros (p & Hp & ->). exists (M (2 ^ snd p) (Some (fst p)) []). split; [apply in_map_iff; exists p; split; [reflexivity | exact Hp]|].
      cbn. left. reflexivity.
  Qed.
End Star.

(* ------------------------------------------------------------------------------------------ *)
(* from_split_bitmasks: order irrelevance and reconstruction                                   *)

Definition sub_b (root s : Z) : bool := Z.eqb (Z.land s root) s.

Lemma splits_to_add_nonzero rooted all l : Forall (fun s => s <> 0) (splits_to_add rooted all l).
Proof.
  unfold splits_to_add. apply Forall_forall. intros y Hy. apply in_flat_map in Hy. destruct Hy as (s & _ & Hy).
  cbv zeta in Hy. set (m := Z.land s all) in *.
  destruct (negb (m =? all) && negb (Z.land (m - 1) m =? 0)) eqn:E; [| destruct Hy].
  apply andb_true_iff in E. destruct E as [E1 E2]. apply negb_true_iff in E1, E2. apply Z.eqb_neq in E1, E2.
  assert (M0 : m <> 0) by (intro Z0; apply E2; rewrite Z0; reflexivity).
  destruct (is_true rooted); [destruct Hy as [<- | []]; exact M0|].
  destruct (negb (Z.land 1 m =? 0)); destruct Hy as [<- | []]; [| exact M0].
  intro Z0. apply E1. apply msubset_antisym.
  - unfold m. intros i Hi H. unfold mem in *. rewrite Z.land_spec in H. apply andb_true_iff in H. tauto.
  - intros i Hi H. unfold mem in *. apply (f_equal (fun z => Z.testbit z i)) in Z0.
    rewrite Z.land_spec, Z.lnot_spec, Z.bits_0, H in Z0 by lia. rewrite andb_true_r in Z0.
    apply negb_false_iff in Z0. exact Z0.
Qed.

Lemma fold_add_filter : forall l t, mwf t -> Forall (fun s => s <> 0) l ->
  fold_left add_split l t = fold_left add_split (filter (sub_b (m_mask t)) l) t.
Proof.
  induction l as [|s r IH]; intros t W NZ; [reflexivity|]. inversion NZ as [|? ? Hs NZr]; subst.
  cbn [fold_left filter]. destruct (sub_b (m_mask t) s) eqn:E.
  - cbn [fold_left]. destruct (add_split_ok t s W Hs) as [(W1 & M1 & _) _].
    rewrite (IH (add_split t s) W1 NZr), M1. reflexivity.
  - assert (A : add_split t s = t). { unfold add_split. unfold sub_b in E. rewrite E. reflexivity. }
    rewrite A. apply IH; assumption.
Qed.

Lemma filter_perm {A} (p : A -> bool) l l' : Permutation l l' -> Permutation (filter p l) (filter p l').
Proof.
  induction 1 as [| x l l' _ IH | x y l | l l' l'' _ IH1 _ IH2]; cbn [filter].
  - reflexivity.
  - destruct (p x); [constructor|]; exact IH.
  - destruct (p x), (p y); try reflexivity. apply perm_swap.
  - etransitivity; eassumption.
Qed.

Lemma laminar_single s k : 0 <= k -> laminar s (2 ^ k).
Proof.
  intro Hk. destruct (Z.testbit s k) eqn:E.
  - right. right. intros i Hi H. unfold mem in *. rewrite Z.pow2_bits_eqb in H by lia. apply Z.eqb_eq in H. subst i. exact E.
  - left. intros i Hi H1 H2. unfold mem in *. rewrite Z.pow2_bits_eqb in H2 by lia. apply Z.eqb_eq in H2. subst i. congruence.
Qed.

Lemma leaves_ok_of_perm t L0 :
  Permutation (leaf_taxa t) L0 -> forallb has_taxon L0 = true -> NoDup L0 -> leaves_ok t = true.
Proof.
  intros P H1 H2. unfold leaves_ok. apply andb_true_iff. split.
  - rewrite forallb_forall in *. intros x Hx. apply H1. apply (Permutation_in _ P Hx).
  - apply distinct_b_complete. apply (Permutation_NoDup (Permutation_sym P)). exact H2.
Qed.

Section FromSplits.
  Variable acc : Z -> Z.
  Hypothesis Hnn : forall x, 0 <= acc x.
  Hypothesis Hinj : forall x y, acc x = acc y -> x = y.
  Variable ns : list (Z * Z).
  Hypothesis Hns : ns_ok acc ns.
  Hypothesis Hlen : (2 <= length ns)%nat.

  Let t0 := star_m ns.
  Let R := m_mask (star_m ns).

  Lemma star_lam s y : sub_b R s = true -> In y (mclades t0) -> laminar s y.
  Proof.
    intros Hs Hy. apply (star_m_clades ns) in Hy. destruct Hy as [(p & Hp & ->) | ->].
    - apply laminar_single. apply (snd_nonneg acc Hnn ns Hns p Hp).
    - right. left. apply msubset_land. unfold sub_b in Hs. apply Z.eqb_eq in Hs. exact Hs.
  Qed.

  (* facts about the tree built from any list of non-zero splits *)
  Lemma built_facts L : Forall (fun s => s <> 0) L ->
    let t := fold_left add_split L t0 in
    mwf t /\ mleaves_ok acc t /\ leaves_ok (to_tree t) = true /\
    Permutation (leaf_taxa (to_tree t)) (map (fun p => Some (fst p)) ns).
  Proof.
    intros NZ t. destruct (fold_add_facts L t0 (star_m_wf acc Hnn Hinj ns Hns Hlen) NZ) as (W & _ & _ & _ & P).
    fold t in W, P.
    assert (LO : mleaves_ok acc t).
    { unfold mleaves_ok. apply Forall_forall. intros q Hq. apply (Permutation_in _ P) in Hq.
      pose proof (star_m_leaves_ok acc ns Hns Hlen) as S0. unfold mleaves_ok in S0. rewrite Forall_forall in S0.
      apply S0. exact Hq. }
    assert (PT : Permutation (leaf_taxa (to_tree t)) (map (fun p => Some (fst p)) ns)).
    { rewrite leaf_taxa_to_tree. transitivity (map snd (mleaves t0)); [apply Permutation_map; exact P|].
      unfold t0. rewrite (star_m_leaves acc ns Hns Hlen), map_map. reflexivity. }
    split; [exact W|]. split; [exact LO|]. split; [| exact PT].
    apply (leaves_ok_of_perm _ _ PT).
    - apply forallb_forall. intros x Hx. apply in_map_iff in Hx. destruct Hx as (p & <- & _). reflexivity.
    - destruct Hns as [ND _]. rewrite <- (map_map fst Some). apply FinFun.Injective_map_NoDup; [| exact ND].
      intros a b E. inversion E. reflexivity.
  Qed.

  Lemma built_clades L : Forall (fun s => s <> 0) L ->
    clades acc (to_tree (fold_left add_split L t0)) = mclades (fold_left add_split L t0).
  Proof. intro NZ. destruct (built_facts L NZ) as (W & LO & _). apply (clades_to_tree acc Hnn); assumption. Qed.

  (* from_splits_order_irrelevant: any two orders of the same splits give the same topology, provided
     the splits that lie within the namespace's bits are pairwise laminar (e.g. come from one tree) *)
  Lemma from_splits_order_irrelevant_l count rooted l l' :
    Permutation l l' ->
    ForallOrdPairs laminar (filter (sub_b R) (splits_to_add rooted (all_taxa_bitmask count) l)) ->
    canon acc (to_tree (from_splits ns count rooted l)) = canon acc (to_tree (from_splits ns count rooted l')).
  Proof.
    intros P FP. rewrite !(from_splits_star acc ns Hns Hlen). fold t0.
    set (L := splits_to_add rooted (all_taxa_bitmask count) l) in *.
    set (L' := splits_to_add rooted (all_taxa_bitmask count) l').
    assert (PL : Permutation L L') by (apply flat_map_perm; exact P).
    assert (NZ : Forall (fun s => s <> 0) L) by apply splits_to_add_nonzero.
    assert (NZ' : Forall (fun s => s <> 0) L') by apply splits_to_add_nonzero.
    destruct (built_facts L NZ) as (_ & _ & LK & _). destruct (built_facts L' NZ') as (_ & _ & LK' & _).
    apply (clades_iff_canon acc Hnn Hinj _ _ LK LK').
    rewrite (built_clades L NZ), (built_clades L' NZ').
    pose proof (star_m_wf acc Hnn Hinj ns Hns Hlen) as W0. fold t0 in W0.
    rewrite (fold_add_filter L t0 W0 NZ), (fold_add_filter L' t0 W0 NZ'). fold R.
    intro y. apply fold_add_order_irrelevant.
    - exact W0.
    - apply filter_perm. exact PL.
    - apply Forall_forall. intros s Hs. apply filter_In in Hs. rewrite Forall_forall in NZ. apply NZ. tauto.
    - intros s z Hs Hz. apply filter_In in Hs. apply star_lam; tauto.
    - exact FP.
  Qed.
End FromSplits.

Lemma FOP_of_all {A} (R : A -> A -> Prop) l : (forall a b, In a l -> In b l -> R a b) -> ForallOrdPairs R l.
Proof.
  induction l as [|x r IH]; intro H; constructor.
  - apply Forall_forall. intros b Hb. apply H; [left; reflexivity | right; exact Hb].
  - apply IH. intros a b Ha Hb. apply H; right; assumption.
Qed.

Lemma leaf_clade acc t x : (forall z, 0 <= acc z) -> In (Some x) (leaf_taxa t) -> In (2 ^ acc x) (clades acc t).
Proof.
  intro Hnn. induction t as [i y l e ks IH] using tree_ind'. intro H.
  destruct ks as [|k0 kr].
  - cbn [leaf_taxa] in H. destruct H as [-> | []]. rewrite clades_node. cbn [flat_map app]. left.
    rewrite (cmask_leaf acc). cbn [leaf_mask]. apply taxon_bitmask_pow2. apply Hnn.
  - rewrite leaf_taxa_node in H. apply in_flat_map in H. destruct H as (c & Hc & H).
    rewrite Forall_forall in IH. apply (child_clades_incl acc i y l e (k0 :: kr) c _ Hc). apply (IH c Hc H).
Qed.

Section Rebuild.
  Variable acc : Z -> Z.
  Hypothesis Hnn : forall x, 0 <= acc x.
  Hypothesis Hinj : forall x y, acc x = acc y -> x = y.
  Variable ns : list (Z * Z).
  Hypothesis Hns : ns_ok acc ns.
  Hypothesis Hlen : (2 <= length ns)%nat.

  Lemma root_bits k : mem (m_mask (star_m ns)) k -> exists p, In p ns /\ k = snd p.
  Proof.
    intro H. unfold star_m in H. cbn [m_mask] in H.
    change (fold_right Z.lor 0 (map (fun p : Z * Z => 2 ^ snd p) ns)) with
      (fold_right Z.lor 0 (map (fun p : Z * Z => m_mask (M (2 ^ snd p) (Some (fst p)) [])) ns)) in H.
    rewrite <- (map_map (fun p => M (2 ^ snd p) (Some (fst p)) []) m_mask) in H.
    apply (or_masks_mem (map (fun p => M (2 ^ snd p) (Some (fst p)) []) ns) k) in H.
    destruct H as (c & Hc & H). apply in_map_iff in Hc. destruct Hc as (p & <- & Hp). cbn [m_mask] in H.
    exists p. split; [exact Hp|]. unfold mem in H.
    rewrite Z.pow2_bits_eqb in H by (apply (snd_nonneg acc Hnn ns Hns p Hp)). apply Z.eqb_eq in H. symmetry. exact H.
  Qed.

  (* from_splits_rebuilds, rooted: the namespace's members are exactly the tree's leaf taxa (vacated
     accession indices allowed: count only has to exceed every index); the splits of the rooted
     encoding, in ANY order, rebuild the tree's topology *)
  Lemma from_splits_rebuilds_rooted_l count rooted t l :
    is_true rooted = true -> leaves_ok t = true ->
    Permutation (leaf_taxa t) (map (fun p => Some (fst p)) ns) ->
    (forall p, In p ns -> snd p < count) ->
    Permutation l (enc_splits (encode acc rooted t)) ->
    canon acc (to_tree (from_splits ns count rooted l)) = canon acc t.
  Proof.
    intros HR LK PT Hcount PL.
    rewrite (from_splits_star acc ns Hns Hlen).
    set (all := all_taxa_bitmask count). set (L := splits_to_add rooted all l).
    set (t0 := star_m ns). set (R := m_mask t0).
    assert (NZ : Forall (fun s => s <> 0) L) by apply splits_to_add_nonzero.
    destruct (built_facts acc Hnn Hinj ns Hns Hlen L NZ) as (_ & _ & LK' & _).
    apply (clades_iff_canon acc Hnn Hinj _ _ LK' LK).
    rewrite (built_clades acc Hnn Hinj ns Hns Hlen L NZ). fold t0.
    pose proof (star_m_wf acc Hnn Hinj ns Hns Hlen) as W0. fold t0 in W0.
    rewrite (fold_add_filter L t0 W0 NZ). fold R.
    destruct (leaves_ok_parts t LK) as [HT ND].
    (* the tree's mask is the root mask of the star tree *)
    assert (RM : cmask acc t = R).
    { unfold cmask. rewrite (mask_of_perm acc _ _ PT). unfold R, t0, star_m. cbn [m_mask].
      destruct Hns as [_ FA]. rewrite Forall_forall in FA. clear - FA Hnn.
      induction ns as [|p r IH]; [reflexivity|]. cbn [map mask_of fold_right leaf_mask].
      fold (mask_of acc (map (fun p => Some (fst p)) r)). rewrite IH by (intros q Hq; apply FA; right; exact Hq).
      rewrite taxon_bitmask_pow2 by apply Hnn. destruct (FA p (or_introl eq_refl)) as [_ ->]. reflexivity. }
    assert (RA : msubset R all).
    { intros i Hi H. apply root_bits in H. destruct H as (p & Hp & ->). unfold mem, all, all_taxa_bitmask.
      rewrite Z.shiftl_1_l. specialize (Hcount p Hp). pose proof (snd_nonneg acc Hnn ns Hns p Hp).
      replace (2 ^ count - 1) with (Z.ones count) by (rewrite Z.ones_equiv; lia).
      apply Z.ones_spec_low. lia. }
    assert (CL : forall y, In y l <-> In y (clades acc t)).
    { intro y. rewrite <- (rooted_splits_are_clades acc rooted t HR y). split; intro H.
      - apply (Permutation_in _ PL H).
      - apply (Permutation_in _ (Permutation_sym PL) H). }
    assert (CS : forall y, In y (clades acc t) -> Z.land y all = y).
    { intros y Hy. apply msubset_land. apply (msubset_trans _ R); [| exact RA]. rewrite <- RM. apply clades_sub. exact Hy. }
    assert (CNZ : forall y, In y (clades acc t) -> y <> 0).
    { intros y Hy. apply (clades_canon acc t y) in Hy.
      apply (clades_nonzero acc Hnn (canon acc t) y); [apply good_canon; assumption | exact Hy]. }
    assert (InL : forall y, In y L <-> (In y (clades acc t) /\ y <> all /\ Z.land (y - 1) y <> 0)).
    { intro y. unfold L, splits_to_add. rewrite in_flat_map. rewrite HR. split.
      - intros (s & Hs & Hy). apply CL in Hs. cbv zeta in Hy. rewrite (CS s Hs) in Hy.
        destruct (negb (s =? all) && negb (Z.land (s - 1) s =? 0)) eqn:E; [| destruct Hy].
        destruct Hy as [<- | []]. apply andb_true_iff in E. destruct E as [E1 E2].
        apply negb_true_iff in E1, E2. apply Z.eqb_neq in E1, E2. tauto.
      - intros (Hy & N1 & N2). exists y. split; [apply CL; exact Hy|]. cbv zeta. rewrite (CS y Hy).
        apply Z.eqb_neq in N1, N2. rewrite N1, N2. left. reflexivity. }
    assert (SubR : forall y, In y (clades acc t) -> sub_b R y = true).
    { intros y Hy. unfold sub_b. apply Z.eqb_eq. apply msubset_land. rewrite <- RM. apply clades_sub. exact Hy. }
    intro y. rewrite fold_add_clades.
    - split.
      + intros [H | [H _]].
        * apply (star_m_clades ns) in H. destruct H as [(p & Hp & ->) | ->].
          -- destruct Hns as [_ FA]. rewrite Forall_forall in FA. destruct (FA p Hp) as [_ ->].
             apply leaf_clade; [exact Hnn|]. apply (Permutation_in _ (Permutation_sym PT)).
             apply in_map_iff. exists p. split; [reflexivity | exact Hp].
          -- fold t0. fold R. rewrite <- RM. apply cmask_in_clades.
        * apply filter_In in H. destruct H as [H _]. apply InL in H. tauto.
      + intro Hy. destruct (Z.eq_dec y all) as [Ea | Na].
        { left. apply (star_m_clades ns). right. fold t0. fold R.
          apply msubset_antisym; [rewrite <- RM; apply clades_sub; exact Hy | rewrite Ea; exact RA]. }
        destruct (Z.eq_dec (Z.land (y - 1) y) 0) as [E1 | N1].
        { left. apply clear_lowest_eq0, at_most_one_cases in E1. destruct E1 as [E0 | (k & Hk & ->)].
          - exfalso. apply (CNZ y Hy E0).
          - apply (star_m_clades ns). left.
            assert (H : mem R k).
            { rewrite <- RM. apply (clades_sub acc t _ Hy k Hk). unfold mem. apply Z.pow2_bits_true. exact Hk. }
            apply root_bits in H. destruct H as (p & Hp & ->). exists p. split; [exact Hp | reflexivity]. }
        right. split; [apply filter_In; split; [apply InL; tauto | apply SubR; exact Hy]|].
        fold R. rewrite <- RM. apply clades_sub. exact Hy.
    - exact W0.
    - apply Forall_forall. intros s Hs. apply filter_In in Hs. rewrite Forall_forall in NZ. apply NZ. tauto.
    - intros s z Hs Hz. apply filter_In in Hs. apply (star_lam acc Hnn ns Hns); tauto.
    - apply FOP_of_all. intros a b Ha Hb. apply filter_In in Ha, Hb. destruct Ha as [Ha _], Hb as [Hb _].
      apply InL in Ha, Hb. apply (clades_laminar acc t Hnn Hinj ND); tauto.
  Qed.
End Rebuild.

(* ------------------------------------------------------------------------------------------ *)
(* Tree.is_compatible_with_bipartition on a rooted tree                                        *)

Lemma tree_compatible_rooted_spec_l acc rooted t s :
  (forall x, 0 <= acc x) -> (forall x y, acc x = acc y -> x = y) ->
  is_true rooted = true -> leaves_ok t = true ->
  let enc := enc_splits (encode acc rooted t) in
  let S := cmask acc t in
  Z.land S s = s ->
  (tree_is_compatible_with enc S s = true <->
   forall b, In b enc -> (mdisjoint b s \/ msubset b s \/ msubset s b)).
Proof.
  intros Hnn Hinj HR LK enc S Hs.
  pose proof (leaves_ok_nonzero acc Hnn Hinj t LK) as SN. fold S in SN.
  destruct (leaves_ok_parts t LK) as [_ ND].
  assert (EC : forall b, In b enc <-> In b (clades acc t)) by (intro b; apply rooted_splits_are_clades; exact HR).
  assert (BS : forall b, In b enc -> Z.land S b = b).
  { intros b Hb. rewrite Z.land_comm. apply msubset_land. apply clades_sub. apply EC. exact Hb. }
  assert (PC : forall b, In b enc ->
               (py_is_compatible_bitmasks b s S = true <-> (mdisjoint b s \/ msubset b s \/ msubset s b))).
  { intros b Hb. rewrite (is_compatible_rooted b s S SN). unfold clade_compatible. rewrite (BS b Hb), Hs. reflexivity. }
  rewrite tree_compatible_unfold. split.
  - intros [Hin | Hall] b Hb.
    + apply (clades_laminar acc t Hnn Hinj ND); apply EC; assumption.
    + apply (PC b Hb). apply Hall. exact Hb.
  - intro H. right. intros b Hb. apply (PC b Hb). apply H. exact Hb.
Qed.
