(* C02: assembly of the round-trip theorem, non-vacuity examples, refutation witnesses. *)
From Coq Require Import ZArith List Bool Lia.
From DV Require Import Model.PyPrims Gen.CharClasses Model.Tokenizer Model.Newick Model.C02Spec
     Proofs.C02Tok Proofs.C02Escape Proofs.C02Lex Proofs.C02Parse Proofs.C02Resolve.
Import ListNotations.
Open Scope Z_scope.

Lemma expected_rooting_consistent o r : rooting_consistent o r = true -> expected_rooting o r = r.
Proof.
  destruct o as [uu ps pu it sr dir bc]. unfold rooting_consistent, expected_rooting. cbn [rt_sr rt_dir].
  destruct sr, r as [[|]|], dir; intro H; try discriminate; reflexivity.
Qed.

Lemma newick_roundtrip_l :
  forall (L : Type) (render_len : L -> str) (parse_len : str -> option L) (lower : str -> str),
    (forall x, parse_len (render_len x) = Some x) ->
    (forall x, render_len x <> [] /\ forallb numeral_char (render_len x) = true) ->
  forall (o : rt_opts) (r : option bool) (t : ntree L),
    wf_tree L o t = true ->
    NoDup (map lower (taxa_order L o t)) ->
    rooting_consistent o r = true ->
    read_newick L parse_len lower (rt_ropts o) [] (write_tree_list L render_len (rt_wopts o) [(r, t)])
      = Ok ([mkPR r [] (fst (expect L o t 0))], taxa_order L o t)
    /\ resolve L (taxa_order L o t) (fst (expect L o t 0)) = Some (norm L t).
Proof.
  intros L render_len parse_len lower Hrt Hpl o r t Hwf Hnd Hroot. split.
  - rewrite (newick_roundtrip_expect L render_len parse_len lower Hrt o Hpl r t Hwf Hnd).
    rewrite (expected_rooting_consistent o r Hroot). reflexivity.
  - apply resolve_expect. exact Hwf.
Qed.

(* totality of the tokenizer model (for every configuration, every text) *)
Lemma tokenizer_total_l : forall (cfg : tok_cfg) (s : str),
  next_token cfg s <> TFuel /\ snd (tokenize cfg s) <> EndFuel /\
  (forall t q cs rest, next_token cfg s = TTok t q cs rest -> (length rest < length s)%nat).
Proof.
  intros cfg s. split; [apply next_token_no_fuel|]. split; [apply tokenize_total|].
  intros t q cs rest H. apply (next_token_progress cfg s t q cs rest H).
Qed.

(* a numeral parser for the examples: accepts exactly the non-empty strings of numeral characters
   (Python's float() rejects ":" "," ... with ValueError) *)
Definition parse_num (s : str) : option str :=
  if negb (is_nil s) && forallb numeral_char s then Some s else None.

(* ---------- non-vacuity ---------- *)
Definition rt_default : rt_opts := mkRtOpts false false false false false NoDirective false.

(* a tree with unifurcation, polytomy, quoted and underscore-converted labels, an internal label *)
Definition ex_tree : ntree str :=
  Nd None (Some [105; 110; 32; 116]) None                       (* "in t" *)
     [Nd (Some [97; 32; 98]) None (Some [49; 46; 53]) [];       (* "a b":1.5 *)
      Nd None None (Some [50]) [Nd (Some [120; 39; 121; 61; 92]) (Some [113]) None []];   (* (x'y=\):2 *)
      Nd (Some [40; 41]) None None [];                          (* "()" *)
      Nd None None (Some [48]) []].                             (* :0 *)

Example ex_tree_wf : wf_tree str rt_default ex_tree = true.
Proof. vm_compute. reflexivity. Qed.

Example ex_tree_roundtrip :
  read_newick str parse_num (fun s => s) (rt_ropts rt_default) []
              (write_tree_list str (fun x => x) (rt_wopts rt_default) [(Some true, ex_tree)])
  = Ok ([mkPR (Some true) [] (fst (expect str rt_default ex_tree 0))], taxa_order str rt_default ex_tree).
Proof. vm_compute. reflexivity. Qed.

(* repr(float)/str(int) numerals consist of these characters *)
Example numeral_chars_ok : forallb numeral_char [48;49;50;51;52;53;54;55;56;57;46;101;69;43;45;105;110;102;97] = true.
Proof. vm_compute. reflexivity. Qed.

(* ---------- refutation witnesses (the full-strength statement fails on the faithful model) ---------- *)

(* F5: the label ":" is written quoted ("':'") and re-read as structure *)
Definition f5_tree (c : Z) : ntree str :=
  Nd None None None [Nd (Some [c]) None (Some [49]) []; Nd (Some [122; 122]) None (Some [49]) []].

Lemma f5_colon : good_label [COLON] = true /\
  wf_tree str rt_default (f5_tree COLON) = false /\
  read_newick str parse_num (fun s => s) (rt_ropts rt_default) []
              (write_tree_list str (fun x => x) (rt_wopts rt_default) [(Some true, f5_tree COLON)])
  = Err ParseErr.
Proof. vm_compute. repeat split; reflexivity. Qed.

(* the label "," is silently re-read as two anonymous leaves *)
Lemma f5_comma : good_label [COMMA] = true /\
  read_newick str parse_num (fun s => s) (rt_ropts rt_default) []
              (write_tree_list str (fun x => x) (rt_wopts rt_default) [(Some true, f5_tree COMMA)])
  = Ok ([mkPR (Some true) []
           (PN None None None [] [PN None None None [] []; PN None None (Some [49]) [] []; PN (Some 0%nat) None (Some [49]) [] []])],
        [[122; 122]]).
Proof. vm_compute. repeat split; reflexivity. Qed.

(* a trailing anonymous leaf without edge length is dropped: (a,) comes back as (a) *)
Definition blank_tree : ntree str :=
  Nd None None None [Nd (Some [97]) None None []; Nd None None None []].

Lemma trailing_blank :
  write_tree_list str (fun x => x) (rt_wopts rt_default) [(None, blank_tree)] = [40; 97; 44; 41; 59; 10] /\
  read_newick str parse_num (fun s => s) (rt_ropts rt_default) []
              (write_tree_list str (fun x => x) (rt_wopts rt_default) [(None, blank_tree)])
  = Ok ([mkPR None [] (PN None None None [] [PN (Some 0%nat) None None [] []])], [[97]]).
Proof. vm_compute. repeat split; reflexivity. Qed.

(* statements in the exact form of Props/C02.v *)
Lemma escape_tokenize_roundtrip_p : forall (pu ps uu : bool) (l r : str),
  good_label l = true ->
  match r with [] => True | c :: _ => zmem c tok_captured_delimiters = true end ->
  consistent_opts uu pu ps l = true ->
  next_token (nexus_cfg pu) (escape_token newick_writer_protect ps (negb uu) l ++ r)
  = TTok l (escape_quotes newick_writer_protect ps (negb uu) l) [] r.
Proof.
  intros pu ps uu l r Hg Hr Hc. apply escape_tokenize_roundtrip_l; [exact Hg | | exact Hc].
  destruct r; [reflexivity | exact Hr].
Qed.

Lemma escape_single_punct_refuted_l :
  exists t : ntree str,
    good_label [COLON] = true /\
    wf_tree str rt_default t = false /\
    read_newick str parse_num (fun s => s) (rt_ropts rt_default) []
                (write_tree_list str (fun x => x) (rt_wopts rt_default) [(Some true, t)])
    = Err ParseErr.
Proof. exists (f5_tree COLON). exact f5_colon. Qed.

Lemma escape_single_punct_silent_refuted_l :
  exists t : ntree str,
    good_label [COMMA] = true /\
    read_newick str parse_num (fun s => s) (rt_ropts rt_default) []
                (write_tree_list str (fun x => x) (rt_wopts rt_default) [(Some true, t)])
    = Ok ([mkPR (Some true) []
             (PN None None None [] [PN None None None [] []; PN None None (Some [49]) [] [];
                                    PN (Some 0%nat) None (Some [49]) [] []])],
          [[122; 122]]).
Proof. exists (f5_tree COMMA). exact f5_comma. Qed.

Lemma trailing_blank_leaf_refuted_l :
  exists t : ntree str,
    write_tree_list str (fun x => x) (rt_wopts rt_default) [(None, t)] = [40; 97; 44; 41; 59; 10] /\
    read_newick str parse_num (fun s => s) (rt_ropts rt_default) []
                (write_tree_list str (fun x => x) (rt_wopts rt_default) [(None, t)])
    = Ok ([mkPR None [] (PN None None None [] [PN (Some 0%nat) None None [] []])], [[97]]).
Proof. exists blank_tree. exact trailing_blank. Qed.

(* with the repaired form of the reader's `,)` handling the same tree round-trips *)
Example trailing_blank_repaired :
  read_newick str parse_num (fun s => s) (rt_ropts (mkRtOpts false false false false false NoDirective true)) []
              (write_tree_list str (fun x => x) (rt_wopts rt_default) [(None, blank_tree)])
  = Ok ([mkPR None [] (PN None None None [] [PN (Some 0%nat) None None [] []; PN None None None [] []])], [[97]]).
Proof. vm_compute. reflexivity. Qed.
