(* C07 link: non-vacuity of the heap-level statements for randomly_rotate and reroot_at_midpoint *)
From Coq Require Import ZArith List Bool Lia Permutation.
From DV Require Import Model.PyPrims Model.Tree.
From DV Require Model.Heap Model.HeapOps Proofs.C03Base Proofs.C03Abs Proofs.C07LinkRot.
From DV Require Import Model.C07Model Model.C07Spec Proofs.C07Thms.
Import ListNotations.
Open Scope Z_scope.

Lemma ex_heap_rotate :
  C07LinkRot.perms_ok (C07LinkRot.rotate_nodes (Heap.of_tree ex_t None) ex_t)
                      [[1%nat; 0%nat]; [1%nat; 0%nat]; [0%nat; 1%nat]] (Heap.of_tree ex_t None)
  /\ exists h' t', HeapOps.randomly_rotate [[1%nat; 0%nat]; [1%nat; 0%nat]; [0%nat; 1%nat]] (Heap.of_tree ex_t None) = Heap.HOk h'
                   /\ Heap.abs h' = Some t' /\ t' <> ex_t.
Proof.
  split.
  - change (C07LinkRot.rotate_nodes (Heap.of_tree ex_t None) ex_t) with [0; 1; 4].
    cbn [C07LinkRot.perms_ok]. split; [apply perm_swap|].
    intros sel h1 E1 E2. vm_compute in E1. inversion E1; subst sel. vm_compute in E2. inversion E2; subst h1.
    split; [apply perm_swap|].
    intros sel h1 E3 E4. vm_compute in E3. inversion E3; subst sel. vm_compute in E4. inversion E4; subst h1.
    split; [apply Permutation_refl|].
    intros sel h1 E5 E6. exact I.
  - eexists. eexists. split; [vm_compute; reflexivity|]. split; [vm_compute; reflexivity | discriminate].
Qed.

(* taxa 0 (A) and 2 (C): a longest path; the midpoint is the seed *)
Lemma ex_heap_midpoint :
  exists h', HeapOps.reroot_at_midpoint 0 2 true true true (Heap.of_tree ex_t None) = Heap.HOk h'
             /\ Heap.abs h' = Some ex_t /\ Heap.rooted h' = Some true.
Proof. eexists. split; [vm_compute; reflexivity|]. split; vm_compute; reflexivity. Qed.
