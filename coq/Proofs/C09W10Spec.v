(* C09, wave 10 (d): what the value-level semantics of C09W10Val.v says, row by row (the walked matrix
   iter_rows depends on a dictionary only through rm_get): the merge operations, concatenate and
   export_character_indices in closed form. *)
From Coq Require Import ZArith List Bool Lia.
From DV Require Import Model.PyPrims Model.C09AlphaTypes Model.C09Model Model.C09Obj.
From DV Require Import Proofs.C09Text Proofs.C09ObjProofs Proofs.C09W10Val.
Import ListNotations.
Open Scope Z_scope.

Lemma rm_get_put : forall l l' c rm,
  rm_get l (rm_put l' c rm) = if text_eqb l l' then Some c else rm_get l rm.
Proof.
  intros l l' c rm. induction rm as [| [k x] t IH]; cbn.
  - reflexivity.
  - destruct (text_eqb l' k) eqn:E; cbn.
    + apply text_eqb_eq in E. subst k. destruct (text_eqb l l'); reflexivity.
    + rewrite IH. destruct (text_eqb l k) eqn:E2; [| reflexivity].
      apply text_eqb_eq in E2. subst k. destruct (text_eqb l l') eqn:E3; [| reflexivity].
      apply text_eqb_eq in E3. subst l'. rewrite text_eqb_refl in E. discriminate.
Qed.

(* the row of taxon l after receiver.op(argument), from the receiver's row x and the argument's row y *)
Definition merge (b : binop) (x y : option (list Z)) : option (list Z) :=
  match b with
  | BAdd => match x with Some c => Some c | None => y end
  | BReplace => match x, y with Some _, Some c' => Some c' | _, _ => x end
  | BUpdate => match y with Some c' => Some c' | None => x end
  | BExtend addnew => match x, y with
                      | Some c, Some c' => Some (c ++ c')
                      | Some c, None => Some c
                      | None, Some c' => if addnew then Some c' else None
                      | None, None => None
                      end
  | BExtendMatrix => match x, y with
                     | Some c, Some c' => Some (c ++ c')
                     | Some c, None => Some c
                     | None, y => y
                     end
  end.

Lemma merge_none : forall b x, merge b x None = x.
Proof. intros b x. destruct b as [| | | [|] |], x; reflexivity. Qed.

Lemma rm_get_v_step : forall b rm l l' c,
  rm_get l (v_step b rm (l', c)) = if text_eqb l l' then merge b (rm_get l' rm) (Some c) else rm_get l rm.
Proof.
  intros b rm l l' c. unfold v_step. cbn [fst snd].
  destruct (text_eqb l l') eqn:E.
  - apply text_eqb_eq in E. subst l'.
    destruct (rm_get l rm) as [c0 |] eqn:G; destruct b as [| | | [|] |]; cbn [merge];
      rewrite ?rm_get_put, ?text_eqb_refl; try reflexivity; exact G.
  - destruct (rm_get l' rm) as [c0 |]; destruct b as [| | | [|] |]; rewrite ?rm_get_put, ?E; reflexivity.
Qed.

Lemma rm_get_absent : forall l rm, ~ In l (map fst rm) -> rm_get l rm = None.
Proof.
  intros l rm. induction rm as [| [k x] t IH]; intro H; [reflexivity|].
  cbn. destruct (text_eqb l k) eqn:E.
  - apply text_eqb_eq in E. subst k. exfalso. apply H. left. reflexivity.
  - apply IH. intro Hin. apply H. right. exact Hin.
Qed.

(* receiver.op(argument), the argument a dictionary (keys distinct): every row by the merge rule *)
Lemma rm_get_v_bin : forall b arg rm l, NoDup (map fst arg) ->
  rm_get l (v_bin b rm arg) = merge b (rm_get l rm) (rm_get l arg).
Proof.
  intros b arg. unfold v_bin. induction arg as [| [l' c] t IH]; intros rm l ND.
  - cbn. symmetry. apply merge_none.
  - cbn [fold_left]. cbn in ND. inversion ND as [| ? ? Hn ND']. subst.
    rewrite (IH _ l ND'). rewrite rm_get_v_step. cbn [rm_get].
    destruct (text_eqb l l') eqn:E; [| reflexivity].
    apply text_eqb_eq in E. subst l'. rewrite (rm_get_absent l t Hn). apply merge_none.
Qed.

Definition row_of (l : text) (p : rowmap) : list Z := match rm_get l p with Some c => c | None => [] end.

Lemma concat_fold : forall l parts acc, Forall (fun p => NoDup (map fst p)) parts ->
  rm_get l (fold_left (v_bin BExtendMatrix) parts acc)
  = match rm_get l acc with
    | Some c => Some (c ++ concat (map (row_of l) parts))
    | None => if existsb (fun p => has_row p l) parts then Some (concat (map (row_of l) parts)) else None
    end.
Proof.
  intros l parts. induction parts as [| p parts IH]; intros acc F.
  - cbn. destruct (rm_get l acc); [rewrite app_nil_r|]; reflexivity.
  - inversion F as [| ? ? Hp F']. subst. cbn [fold_left map concat existsb].
    rewrite (IH _ F'). rewrite (rm_get_v_bin BExtendMatrix p acc l Hp). unfold has_row, row_of.
    destruct (rm_get l acc) as [c |]; destruct (rm_get l p) as [c' |]; cbn [merge orb app];
      rewrite ?app_assoc; try reflexivity.
Qed.

(* concatenate: taxon l has a row iff some part has one, and it is the parts' rows for l joined in order *)
Lemma rm_get_v_concat : forall l parts, Forall (fun p => NoDup (map fst p)) parts ->
  rm_get l (v_concat parts)
  = if existsb (fun p => has_row p l) parts then Some (concat (map (row_of l) parts)) else None.
Proof. intros l parts F. unfold v_concat. rewrite (concat_fold l parts [] F). reflexivity. Qed.

Lemma iter_rows_v_concat : forall ns parts, Forall (fun p => NoDup (map fst p)) parts ->
  iter_rows ns (v_concat parts)
  = flat_map (fun l => if existsb (fun p => has_row p l) parts then [(l, concat (map (row_of l) parts))] else []) ns.
Proof.
  intros ns parts F. unfold iter_rows. apply flat_map_ext. intro l. rewrite (rm_get_v_concat l parts F).
  destruct (existsb (fun p => has_row p l) parts); reflexivity.
Qed.

Lemma rm_get_v_export : forall idx l rm,
  rm_get l (v_export idx rm) = option_map (select_cols idx 0) (rm_get l rm).
Proof.
  intros idx l rm. induction rm as [| [k x] t IH]; [reflexivity|].
  cbn. destruct (text_eqb l k); [reflexivity | exact IH].
Qed.

(* export_character_indices: the same taxa in the same order, every row cut down to the selected columns *)
Lemma iter_rows_v_export : forall ns idx rm,
  iter_rows ns (v_export idx rm) = map (fun r => (fst r, select_cols idx 0 (snd r))) (iter_rows ns rm).
Proof.
  intros ns idx rm. unfold iter_rows. induction ns as [| l ns IH]; [reflexivity|].
  cbn [flat_map]. rewrite map_app, <- IH. f_equal. rewrite rm_get_v_export.
  destruct (rm_get l rm); reflexivity.
Qed.

(* a merge step on the walked matrix *)
Lemma iter_rows_v_bin : forall ns b rm arg, NoDup (map fst arg) ->
  iter_rows ns (v_bin b rm arg)
  = flat_map (fun l => match merge b (rm_get l rm) (rm_get l arg) with Some c => [(l, c)] | None => [] end) ns.
Proof.
  intros ns b rm arg ND. unfold iter_rows. apply flat_map_ext. intro l. rewrite (rm_get_v_bin b arg rm l ND). reflexivity.
Qed.

(* dictionaries delivered by a route keep distinct keys (so the closed forms apply along a route) *)
Lemma rm_put_keys : forall l c rm, NoDup (map fst rm) -> NoDup (map fst (rm_put l c rm)).
Proof.
  intros l c rm. induction rm as [| [k x] t IH]; intro ND.
  - cbn. constructor; [intros [] | constructor].
  - cbn in ND. inversion ND as [| ? ? Hn ND']. subst. cbn. destruct (text_eqb l k) eqn:E; cbn.
    + constructor; assumption.
    + constructor; [| exact (IH ND')]. intro Hin.
      assert (K : forall rm0, In k (map fst (rm_put l c rm0)) -> k = l \/ In k (map fst rm0)).
      { induction rm0 as [| [k0 x0] t0 IH0]; cbn.
        - intros [H | []]. left. symmetry. exact H.
        - destruct (text_eqb l k0); cbn; intros [H | H]; auto. destruct (IH0 H); auto. }
      destruct (K t Hin) as [H | H]; [| exact (Hn H)]. subst k. rewrite text_eqb_refl in E. discriminate.
Qed.

Lemma v_bin_keys : forall b arg rm, NoDup (map fst rm) -> NoDup (map fst (v_bin b rm arg)).
Proof.
  intros b arg. unfold v_bin. induction arg as [| p t IH]; intros rm ND; [exact ND|].
  cbn [fold_left]. apply IH. unfold v_step.
  destruct (rm_get (fst p) rm); destruct b as [| | | [|] |]; try exact ND; apply rm_put_keys; exact ND.
Qed.

Lemma v_concat_keys : forall parts, NoDup (map fst (v_concat parts)).
Proof.
  intro parts. unfold v_concat. assert (G : forall acc, NoDup (map fst acc) -> NoDup (map fst (fold_left (v_bin BExtendMatrix) parts acc))).
  { induction parts as [| p t IH]; intros acc ND; [exact ND|]. cbn. apply IH. apply v_bin_keys. exact ND. }
  apply G. constructor.
Qed.

Lemma v_export_keys : forall idx rm, NoDup (map fst rm) -> NoDup (map fst (v_export idx rm)).
Proof.
  intros idx rm ND. unfold v_export. rewrite map_map. cbn. exact ND.
Qed.

Lemma nth_error_set_nth_in : forall {A} (l : list A) k x i a, nth_error (set_nth k x l) i = Some a -> a = x \/ In a l.
Proof.
  intros A l. induction l as [| y l IH]; intros k x i a H; destruct k; cbn in H.
  - destruct i; discriminate.
  - destruct i; discriminate.
  - destruct i; cbn in H; [inversion H; left; reflexivity | right; right; exact (nth_error_In _ _ H)].
  - destruct i; cbn in H; [inversion H; right; left; reflexivity|].
    destruct (IH k x i a H) as [E | E]; [left; exact E | right; right; exact E].
Qed.

Lemma v_op_keys : forall cs o cs', Forall (fun p => NoDup (map fst p)) cs -> v_op cs o = Ok cs' ->
  Forall (fun p => NoDup (map fst p)) cs'.
Proof.
  intros cs o cs' F H. destruct o as [b k j | js | j idx]; cbn [v_op] in H.
  - destruct (Nat.eqb k j); [discriminate|].
    match type of H with match ?G with _ => _ end = _ => destruct G as [mk |] eqn:Ek; [| discriminate] end.
    match type of H with match ?G with _ => _ end = _ => destruct G as [mj |]; [| discriminate] end.
    inversion H. subst cs'.
    apply Forall_forall. intros a Ha. destruct (In_nth_error _ _ Ha) as [i Hi].
    destruct (nth_error_set_nth_in cs k _ i a Hi) as [E | E].
    + subst a. apply v_bin_keys. exact (proj1 (Forall_forall _ _) F mk (nth_error_In _ _ Ek)).
    + exact (proj1 (Forall_forall _ _) F a E).
  - destruct (forallb _ js); [| discriminate]. inversion H. subst cs'.
    apply Forall_app. split; [exact F|]. constructor; [apply v_concat_keys | constructor].
  - match type of H with match ?G with _ => _ end = _ => destruct G as [mj |] eqn:Ej; [| discriminate] end.
    inversion H. subst cs'.
    apply Forall_app. split; [exact F|]. constructor; [| constructor].
    apply v_export_keys. exact (proj1 (Forall_forall _ _) F mj (nth_error_In _ _ Ej)).
Qed.

Lemma v_run_keys : forall ops cs cs', Forall (fun p => NoDup (map fst p)) cs -> v_run cs ops = Ok cs' ->
  Forall (fun p => NoDup (map fst p)) cs'.
Proof.
  induction ops as [| o ops IH]; intros cs cs' F H; cbn in H.
  - inversion H. subst. exact F.
  - destruct (v_op cs o) as [cs1 | e |] eqn:E; try discriminate. exact (IH cs1 cs' (v_op_keys cs o cs1 F E) H).
Qed.

(* ---- a world of delivered matrices holds exactly those matrices ---- *)

From DV Require Import Proofs.C09W9Sep.

Lemma install_rows_deref : forall rm s s' out,
  install_rows s rm = (s', out) -> deref s' out = rm /\ forall r, r < s_next s -> hget s' r = hget s r.
Proof.
  induction rm as [| [l c] t IH]; intros s s' out H; cbn in H.
  - inversion H. subst. split; reflexivity.
  - destruct (install_rows (fst (alloc s c)) t) as [s2 o2] eqn:E.
    unfold alloc in H, E. cbn [fst] in E. cbn in H. rewrite E in H. inversion H. subst s' out.
    destruct (IH _ _ _ E) as [Hd Hk]. cbn [s_next] in Hk.
    change (deref s2 ((l, s_next s) :: o2)) with ((l, hget s2 (s_next s)) :: deref s2 o2). split.
    + rewrite Hd. f_equal. f_equal. rewrite Hk by lia. apply (hget_alloc_new s c).
    + intros r Hr. rewrite Hk by lia. apply (hget_alloc_other s c r). lia.
Qed.

Lemma install_all_deref : forall ms s s' os,
  install_all s ms = (s', os) -> map (deref s') os = ms /\ forall r, r < s_next s -> hget s' r = hget s r.
Proof.
  induction ms as [| m t IH]; intros s s' os H; cbn in H.
  - inversion H. subst. split; reflexivity.
  - destruct (install_rows s m) as [s1 rs] eqn:E1. destruct (install_all s1 t) as [s2 o2] eqn:E2.
    inversion H. subst s' os.
    destruct (install_rows_deref _ _ _ _ E1) as [Hd1 Hk1]. destruct (IH _ _ _ E2) as [Hd2 Hk2].
    destruct (install_rows_ids _ _ _ _ E1) as (Hn1 & _ & Hr1).
    cbn [map]. split.
    + rewrite Hd2. f_equal. rewrite <- Hd1. apply deref_ext. intros r Hr. apply Hk2. exact (proj2 (Hr1 r Hr)).
    + intros r Hr. rewrite Hk2 by lia. apply Hk1. exact Hr.
Qed.

Lemma o_init_contents : forall ms, contents (o_init ms) = ms.
Proof.
  intro ms. unfold o_init. destruct (install_all (mkS [] 0) ms) as [s os] eqn:E.
  unfold contents. cbn [ow_store ow_ms]. exact (proj1 (install_all_deref _ _ _ _ E)).
Qed.
