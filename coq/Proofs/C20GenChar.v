(* C20, translator tie, part C: the FASTA / PHYLIP readers GENERATED from the source (Gen/CharIO.v, regenerated on
   every run by py/dv/gen_chario.py over the primitives of Model/C09Prims.v) compute what the models of
   Model/C20Model.v compute, so `phylip_reader_total` / `fasta_reader_total` are statements about generated code.

   Instantiation of the models' parameters (the translator's primitives fix them):
     isspace := is_space, dval := ascii_dval, sym := state_of_symbol a, lower := the namespace's str.lower,
     po_case_sensitive = false, po_fix_fmt = po_fix_dims = true (the repaired form, which is the current source).
   The reader's objects are those of C09's world relation: namespace = the row labels, matrix = w_cm rows,
   processed set = p_proc rows. *)
From Coq Require Import ZArith List Bool Lia.
From DV Require Import Model.C20Model Proofs.C20Proofs Proofs.C20GenCharModel Proofs.C20GenCharPhylip.
From DV Require Import Model.PyPrims Model.C09AlphaTypes Model.C09Model Model.C09Prims Gen.CharIO
  Proofs.C09Text Proofs.C09GenFasta Proofs.C09GenPhylip.
Import ListNotations.
Open Scope Z_scope.

(* the options record of C20Model for the reader's five keyword arguments *)
Definition gopts (strict inter multi u2s ign : bool) : popts := mkPopts strict inter multi u2s ign false true true.

Lemma gopts_tie : forall s i m u g, tie_opts (gopts s i m u g).
Proof. intros. repeat split. Qed.

Section Tie.
Variable lower : text -> text.
Variable a : alphabet.

(* _parse_sequence_from_line: C20Model.parse_symbols, both values of ignore_invalid_chars *)
Lemma gen_parse_sequence_c20 : forall (ign : bool) line (rows : matrix) i l v ns proc,
  nth_error rows i = Some (l, v) ->
  PhylipReader_parse_sequence_from_line ign a ns (w_cm rows) proc i line
  = do states <- parse_symbols (state_of_symbol a) ign line ;;
    Ok (ns, w_cm (C20Model.append_at rows i states), proc).
Proof.
  intros ign line rows i l v ns proc H. rewrite (gen_parse_sequence_ig a ign line rows i l v ns proc H).
  rewrite parse_symbols_eq. destruct (phylip_states_ig a ign line); cbn [bind]; [|reflexivity|reflexivity].
  rewrite append_at_eq. reflexivity.
Qed.

Variables (strict inter multi u2s ign : bool).
Let o := gopts strict inter multi u2s ign.

(* _parse_taxon_from_line *)
Lemma gen_parse_taxon_c20 : forall ntax nchar (rows : matrix) line, len rows <= ntax ->
  PhylipReader_parse_taxon_from_line lower strict multi u2s ntax nchar (map fst rows) (w_cm rows) (p_proc rows) line
  = match parse_taxon_from_line is_space lower o ntax nchar rows line with
    | Ok (i, rest, rows') => Ok (map fst rows', w_cm rows', p_proc rows', i, rest)
    | Err e => Err e
    | OutOfFuel => OutOfFuel
    end.
Proof.
  intros ntax nchar rows line Hlen.
  rewrite (gen_parse_taxon lower strict inter multi u2s ntax nchar rows line Hlen).
  rewrite (parse_taxon_eq lower o ntax nchar rows line (gopts_tie _ _ _ _ _) Hlen).
  unfold o, gopts, ropts. cbn [po_strict po_interleaved po_multispace po_underscores].
  destruct (parse_taxon lower Z (mkPR strict inter multi u2s) ntax nchar rows line) as [[[rows' i] rest]| |]; reflexivity.
Qed.

(* _parse_sequential *)
Lemma gen_parse_sequential_c20 : forall ntax nchar lines (rows : matrix), len rows <= ntax ->
  PhylipReader_parse_sequential lower strict multi u2s ntax nchar ign a (map fst rows) (w_cm rows) (p_proc rows) lines
  = match parse_sequential is_space lower (state_of_symbol a) o ntax nchar lines None rows with
    | Ok rows' => Ok (map fst rows', w_cm rows', p_proc rows')
    | Err e => Err e
    | OutOfFuel => OutOfFuel
    end.
Proof.
  intros ntax nchar lines rows Hlen.
  rewrite (gen_parse_sequential_ig lower a strict inter multi u2s ign ntax nchar lines rows Hlen).
  rewrite (parse_sequential_eq lower a o (gopts_tie _ _ _ _ _) ntax nchar lines None rows Hlen)
    by (intros i H; discriminate).
  reflexivity.
Qed.

(* _parse_interleaved *)
Lemma gen_parse_interleaved_c20 : forall ntax nchar lines (rows : matrix), len rows <= ntax ->
  PhylipReader_parse_interleaved lower strict multi u2s ntax nchar ign a (map fst rows) (w_cm rows) (p_proc rows) lines
  = match parse_interleaved is_space lower (state_of_symbol a) o ntax nchar lines false (-1) rows with
    | Ok rows' => Ok (map fst rows', w_cm rows', p_proc rows')
    | Err e => Err e
    | OutOfFuel => OutOfFuel
    end.
Proof.
  intros ntax nchar lines rows Hlen.
  rewrite (gen_parse_interleaved_ig lower a strict inter multi u2s ign ntax nchar lines rows Hlen).
  rewrite (parse_interleaved_eq lower a o (gopts_tie _ _ _ _ _) ntax nchar lines false (-1) rows Hlen) by lia.
  reflexivity.
Qed.

(* PhylipReader._read on lines = filesys.get_lines(stream) *)
Lemma gen_phylip_read_c20 : forall t,
  match PhylipReader_read lower strict multi u2s ign inter a (split_lines t []) with
  | Ok (ns, cm, _) => Ok (to_matrix (ns, cm))
  | Err e => Err e
  | OutOfFuel => OutOfFuel
  end
  = phylip_read is_space ascii_dval lower (state_of_symbol a) o t.
Proof.
  intro t. rewrite split_lines_eq.
  rewrite (gen_phylip_read_ig lower a strict inter multi u2s ign t).
  rewrite (phylip_read_eq lower a o t (gopts_tie _ _ _ _ _)). reflexivity.
Qed.

(* FastaReader._read: the line loop on ANY list of lines, and on the lines of a text *)
Lemma gen_fasta_lines_c20 : forall lines,
  match FastaReader_read lower a lines with
  | Ok w => Ok (to_matrix w)
  | Err e => Err e
  | OutOfFuel => OutOfFuel
  end
  = C20Model.fasta_lines is_space lower (state_of_symbol a) false lines None [].
Proof.
  intro lines. rewrite (gen_fasta_reader_eq lower a lines). rewrite (fasta_lines_model_eq lower a lines). reflexivity.
Qed.

Lemma gen_fasta_read_c20 : forall t,
  match FastaReader_read lower a (C20Model.split_nl t []) with
  | Ok w => Ok (to_matrix w)
  | Err e => Err e
  | OutOfFuel => OutOfFuel
  end
  = fasta_read is_space lower (state_of_symbol a) false t.
Proof. intro t. exact (gen_fasta_lines_c20 (C20Model.split_nl t [])). Qed.

(* ---- the totality theorems, as statements about the generated code ---- *)

Lemma gen_phylip_reader_total_l : forall t,
  match PhylipReader_read lower strict multi u2s ign inter a (split_lines t []) with
  | Ok (ns, cm, _) =>
      exists ntax nchar,
        phylip_declared is_space ascii_dval t = Some (ntax, nchar)
        /\ zlen (to_matrix (ns, cm)) = ntax
        /\ Forall (fun r => zlen (snd r) = nchar) (to_matrix (ns, cm))
  | Err e => e = ParseErr
  | OutOfFuel => False
  end.
Proof.
  intro t. pose proof (gen_phylip_read_c20 t) as G.
  pose proof (phylip_reader_total_l is_space ascii_dval lower (state_of_symbol a) o t) as T.
  destruct (PhylipReader_read lower strict multi u2s ign inter a (split_lines t [])) as [[[ns cm] pr]| |];
    rewrite <- G in T.
  - destruct T as [ntax [nchar [D [L F]]]]. exists ntax, nchar. repeat split; try assumption. apply F. reflexivity.
  - destruct T as [T|[T _]]; [exact T | discriminate].
  - exact T.
Qed.

Lemma gen_fasta_reader_total_l : forall lines,
  match FastaReader_read lower a lines with
  | Ok w => NoDup (map (fun r : row => lower (fst r)) (to_matrix w))
  | Err e => e = ParseErr
  | OutOfFuel => False
  end.
Proof.
  intro lines. pose proof (gen_fasta_lines_c20 lines) as G.
  pose proof (fasta_lines_ok is_space lower (state_of_symbol a) false lines None [] (NoDup_nil _)) as T.
  unfold row_key in T.
  destruct (FastaReader_read lower a lines) as [w| |]; rewrite <- G in T; exact T.
Qed.

End Tie.
