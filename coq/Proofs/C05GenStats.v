(* C05: the functions generated from calculate/statistics.py (Gen/SplitDist.v) equal the
   hand-written model *)
From Coq Require Import ZArith QArith Qabs Qreduction List Bool Lia Permutation.
From DV Require Import Model.PyPrims Gen.BitFns Model.C05Model Model.C05Spec Model.C05GenPrims Gen.SplitDist
     Proofs.C05Lists Proofs.C05Stats.
Import ListNotations.
Open Scope Z_scope.

Lemma py_for_acc xs : forall n s ss,
  py_for xs (fun v '(n, s, ss) => (Z.add n 1, py_fadd s v, py_fadd ss (py_fmul v v))) (n, s, ss)
  = acc_n_s_ss xs n s ss.
Proof.
  induction xs as [|x r IH]; intros n s ss; [reflexivity|].
  unfold py_for in *. simpl. apply IH.
Qed.

Theorem gen_mean_and_variance_pop_n_eq xs :
  gen_mean_and_variance_pop_n xs = mean_and_variance_pop_n xs.
Proof.
  unfold gen_mean_and_variance_pop_n, mean_and_variance_pop_n.
  change (0 # 1)%Q with 0%Q.
  rewrite (py_for_acc xs 0 0%Q 0%Q).
  destruct (acc_n_s_ss xs 0 0%Q 0%Q) as [[n s] ss]. reflexivity.
Qed.

Theorem gen_mean_and_sample_variance_eq xs :
  gen_mean_and_sample_variance xs = mean_and_sample_variance xs.
Proof.
  unfold gen_mean_and_sample_variance, mean_and_sample_variance.
  rewrite gen_mean_and_variance_pop_n_eq.
  destruct (mean_and_variance_pop_n xs) as [[[m v] n]| |]; simpl; reflexivity.
Qed.

Lemma py_index_ok {A} (l : list A) (i : Z) (d : A) :
  0 <= i < py_len l -> py_index l i = Ok (nth (Z.to_nat i) l d).
Proof.
  intros [H0 H1]. unfold py_index. cbv zeta.
  assert (E1 : (i <? 0) = false) by (apply Z.ltb_ge; lia).
  assert (E2 : (py_len l <=? i) = false) by (apply Z.leb_gt; lia).
  rewrite E1. cbv iota. rewrite E1, E2. simpl orb. cbv iota.
  destruct (nth_error l (Z.to_nat i)) as [x|] eqn:E.
  - f_equal. symmetry. now apply nth_error_nth.
  - apply nth_error_None in E. unfold py_len in H1. lia.
Qed.

Theorem gen_median_eq xs : gen_median xs = median xs.
Proof.
  unfold gen_median, median, py_sorted_float.
  remember (qsorted xs) as copy eqn:Ec. clear Ec xs.
  change (py_len copy) with (Z.of_nat (length copy)).
  unfold py_imod, py_int_truediv.
  destruct copy as [|c0 cr].
  - reflexivity.
  - remember (c0 :: cr) as copy eqn:Ec.
    remember (Z.of_nat (length copy)) as size eqn:Es.
    assert (Hs : 1 <= size) by (subst; simpl length; lia).
    assert (Z0 : (size =? 0) = false) by (apply Z.eqb_neq; lia). rewrite Z0.
    assert (Len : py_len copy = size) by (subst; reflexivity).
    destruct (size mod 2 =? 1) eqn:M.
    + apply Z.eqb_eq in M. rewrite Z.quot_div_nonneg by lia.
      rewrite (py_index_ok copy _ 0%Q); [reflexivity|].
      rewrite Len. split; [apply Z.div_pos; lia|]. apply Z.div_lt_upper_bound; lia.
    + apply Z.eqb_neq in M.
      assert (M0 : size mod 2 = 0) by (pose proof (Z.mod_pos_bound size 2); lia).
      assert (S2 : 2 <= size).
      { destruct (Z.eq_dec size 1) as [E|E]; [rewrite E in M0; discriminate | lia]. }
      rewrite !Z.quot_div_nonneg by lia.
      assert (D : 1 <= size / 2) by (apply Z.div_le_lower_bound; lia).
      assert (D2 : size / 2 < size) by (apply Z.div_lt_upper_bound; lia).
      rewrite (py_index_ok copy (size / 2 - 1) 0%Q) by (rewrite Len; lia). simpl.
      rewrite (py_index_ok copy (size / 2) 0%Q) by (rewrite Len; lia). reflexivity.
Qed.

(* the summary dict, exact keys, in terms of the model's summary record *)
Definition gs_of (sm : summary) : gsummary :=
  mkGs (Some (s_min sm, s_max sm)) (Some (s_mean sm)) (Some (s_var sm)) (Some (s_median sm)).

Theorem gen_summarize_eq xs :
  gen_summarize xs = match summarize xs with Ok sm => Ok (gs_of sm) | Err e => Err e | OutOfFuel => OutOfFuel end.
Proof.
  destruct xs as [|x r]; [reflexivity|].
  assert (NE : x :: r <> []) by discriminate.
  destruct (mean_variance_exact_l (x :: r) NE) as [m [v [Emv _]]].
  destruct (median_exact_l (x :: r) NE) as [_ [_ [md [Emd _]]]].
  unfold gen_summarize, summarize.
  rewrite gen_mean_and_sample_variance_eq, gen_median_eq, Emv, Emd.
  reflexivity.
Qed.
