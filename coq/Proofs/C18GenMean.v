(* C18 - translator tie for mean_kingman_tree: the generated code equals the reference model
   Model/C18MeanModel.v, which meets the Kingman shape specification (one leaf per taxon, binary,
   ultrametric) and terminates; its only draws are the sampled pairs *)
From Coq Require Import QArith Lqa List Bool Arith Lia Permutation.
From DV Require Import Model.C18Model Model.C18Prims Model.C18MeanModel Proofs.C18Lists Proofs.C18Monad
  Proofs.C18Coal Proofs.C18GenCoal Gen.Sim.
From DV Require Model.PyPrims.
Import ListNotations.
Open Scope nat_scope.

Lemma gen_expected_tmrca_eq : forall n pop r, gen_expected_tmrca n pop r = Done (expected_tmrca n pop) r.
Proof. reflexivity. Qed.

Lemma gen_mean_loop : forall fuel pop nodes rem r, length nodes <= fuel ->
  py_while (S fuel) (gen_coalesce_nodes_mean_while2 pop) (nodes, rem) r =
  smap (fun s => CNext (R := Empty_set) s) (mean_loop fuel pop nodes rem r).
Proof.
  induction fuel as [|f IH]; intros pop nodes rem r Hl.
  - assert (E : length nodes <=? 1 = true) by (apply Nat.leb_le; lia).
    assert (E' : 1 <? length nodes = false) by (apply Nat.ltb_ge; lia).
    rewrite py_while_S. cbn [mean_loop]. unfold gen_coalesce_nodes_mean_while2. cbv beta iota. rewrite E, E'. reflexivity.
  - rewrite py_while_S. cbn [mean_loop]. unfold gen_coalesce_nodes_mean_while2 at 1. cbv beta iota.
    destruct (length nodes <=? 1) eqn:E.
    + assert (E' : 1 <? length nodes = false) by (apply Nat.ltb_ge; apply Nat.leb_le in E; lia).
      rewrite E'. reflexivity.
    + assert (E' : 1 <? length nodes = true) by (apply Nat.ltb_lt; apply Nat.leb_gt in E; lia).
      rewrite E'. unfold bnd. rewrite gen_expected_tmrca_eq.
      cbv beta iota zeta. set (tm := expected_tmrca (length nodes) pop).
      assert (Ec : (py_is_none rem || Qle_bool tm (py_unwrap rem)) =
                   match rem with Some rm => Qle_bool tm rm | None => true end)
        by (destruct rem; reflexivity).
      rewrite Ec. destruct (match rem with Some rm => Qle_bool tm rm | None => true end); [|reflexivity].
      change (gen_coalesce_nodes_mean_map1 tm) with (gen_coalesce_nodes_map1 tm).
      rewrite (map_ext _ _ (gen_stretch tm)).
      unfold py_sample2. rewrite map_length.
      destruct (d_sample2 (length nodes) r) as [[i j] r2| | | |] eqn:Es; try reflexivity.
      apply d_sample2_Done in Es. destruct Es as (Hi & Hj & Hne & _).
      cbn [fst snd].
      assert (Hlen : length (coal_step tm i j nodes) <= f).
      { pose proof (coal_step_length tm i j nodes Hi Hj Hne). lia. }
      specialize (IH pop (coal_step tm i j nodes) (option_map (fun rm => (rm - tm)%Q) rem) r2 Hlen).
      destruct rem as [rm|]; cbn [py_is_none negb py_unwrap lenq option_map] in *; exact IH.
Qed.

Theorem gen_coalesce_nodes_mean_eq : forall pop period nodes r,
  gen_coalesce_nodes_mean pop period nodes r = coalesce_nodes_mean pop period nodes r.
Proof.
  intros pop period nodes r. unfold gen_coalesce_nodes_mean, coalesce_nodes_mean.
  destruct nodes as [|n0 nr] eqn:En; [reflexivity|]. rewrite <- En.
  replace (length nodes =? 0) with false by (subst; reflexivity).
  cbv zeta. unfold bnd. rewrite gen_mean_loop by lia.
  destruct (mean_loop (length nodes) pop nodes period r) as [[nodes' rem'] r'| | | |]; try reflexivity.
  cbn [smap]. cbv beta iota zeta. unfold ret.
  destruct rem' as [rm|]; cbn [py_is_none negb andb py_unwrap lenq]; [|reflexivity].
  destruct (Qltb 0 rm); [|reflexivity].
  change (gen_coalesce_nodes_mean_map3 (Some rm)) with (gen_coalesce_nodes_map3 (Some rm)).
  rewrite (map_ext _ _ (gen_stretch_rem rm)). reflexivity.
Qed.

Theorem gen_mean_kingman_tree_eq : forall N pop r,
  gen_mean_kingman_tree (seq 0 N) pop r = mean_kingman_run N pop r.
Proof.
  intros N pop r. unfold gen_mean_kingman_tree, mean_kingman_run. cbv zeta.
  unfold bnd. rewrite gen_coalesce_nodes_mean_eq.
  unfold g_new.
  destruct (coalesce_nodes_mean pop None (map (fun i => G (Some i) None []) (seq 0 N)) r) as [res r'| | | |]; try reflexivity.
  destruct res as [|g rest]; reflexivity.
Qed.

(* ---------------- the reference model meets the Kingman shape specification ---------------- *)

Lemma mean_loop_inv (Inv : list gtree -> option Q -> Prop) (pop : Q) :
  (forall nodes rem tm i j, Inv nodes rem ->
      i < length nodes -> j < length nodes -> i <> j ->
      Inv (coal_step tm i j nodes) (option_map (fun rm => (rm - tm)%Q) rem)) ->
  forall fuel nodes rem r res r',
    Inv nodes rem -> mean_loop fuel pop nodes rem r = Done res r' -> Inv (fst res) (snd res).
Proof.
  intros Hstep. induction fuel as [|f IH]; intros nodes rem r res r' HI H; simpl in H.
  - destruct (length nodes <=? 1); [|discriminate]. inversion H; subst. exact HI.
  - destruct (length nodes <=? 1); [inversion H; subst; exact HI|].
    destruct (match rem with Some rm => Qle_bool (expected_tmrca (length nodes) pop) rm | None => true end).
    + step H. destruct a as [i j]. apply d_sample2_Done in Hs. destruct Hs as (Hi & Hj & Hne & _).
      eapply IH; [|exact H]. apply (Hstep nodes rem (expected_tmrca (length nodes) pop) i j); auto.
    + apply ret_Done in H. destruct H as [<- _]. exact HI.
Qed.

Lemma kinv_step_tm : forall taxa nodes rem tm i j, kinv taxa nodes rem ->
  i < length nodes -> j < length nodes -> i <> j ->
  kinv taxa (coal_step tm i j nodes) (option_map (fun rm => (rm - tm)%Q) rem).
Proof.
  intros taxa nodes rem tm i j (Ha & Hp & D & Hu) Hi Hj Hne.
  assert (Ha1 : Forall (garity bin2) (map (stretch tm) nodes)).
  { rewrite Forall_map. eapply Forall_impl; [|exact Ha]. intros g. apply stretch_arity. }
  assert (Hu1 : Forall (guni (D + tm)) (map (stretch tm) nodes)).
  { rewrite Forall_map. eapply Forall_impl; [|exact Hu]. intros g. apply stretch_guni. }
  split; [|split].
  - apply coal_step_Forall; auto. destruct (coal_step_elems _ tm i j nodes Hi Hj Ha1) as [A1 A2].
    constructor; [right; reflexivity|]. repeat constructor; assumption.
  - eapply Permutation_trans; [apply coal_step_taxa; assumption|exact Hp].
  - exists (D + tm)%Q. apply coal_step_Forall; auto.
    destruct (coal_step_elems _ tm i j nodes Hi Hj Hu1) as [U1 U2].
    constructor. simpl. repeat constructor; (eapply guni_compat; [|eassumption]); lra.
Qed.

Lemma mean_loop_None_single : forall fuel pop nodes r res r',
  mean_loop fuel pop nodes None r = Done res r' -> length (fst res) <= 1 /\ snd res = None.
Proof.
  induction fuel as [|f IH]; intros pop nodes r res r' H; simpl in H.
  - destruct (length nodes <=? 1) eqn:E; [|discriminate]. inversion H; subst. apply Nat.leb_le in E. auto.
  - destruct (length nodes <=? 1) eqn:E; [inversion H; subst; apply Nat.leb_le in E; auto|].
    step H. destruct a as [i j]. eapply IH. exact H.
Qed.

Theorem mean_kingman_spec_proved : forall N pop script t r,
  mean_kingman_sim N pop script = Done t r ->
  Permutation (gleaf_taxa t) (map Some (seq 0 N)) /\
  (forall s, In s (gsubtrees t) -> length (g_kids s) = 0 \/ length (g_kids s) = 2) /\
  (exists D, forall x h, In (x, h) (gtips t) -> h == D)%Q.
Proof.
  intros N pop script t r H. unfold mean_kingman_sim, mean_kingman_run in H. fold (kleaves N) in H. step H.
  unfold coalesce_nodes_mean in Hs. destruct (kleaves N) as [|n0 nr] eqn:En.
  - apply ret_Done in Hs. destruct Hs as [<- <-]. discriminate.
  - rewrite <- En in *. step Hs. destruct a0 as [nodes' rem'].
    destruct (mean_loop_None_single _ _ _ _ _ _ Hs0) as [Hlen Hrem]. simpl in Hlen, Hrem. subst rem'.
    apply ret_Done in Hs. destruct Hs as [<- <-].
    pose proof (mean_loop_inv (kinv (map Some (seq 0 N))) pop
                  (fun nodes rem tm i j HI Hi Hj Hne => kinv_step_tm _ nodes rem tm i j HI Hi Hj Hne)
                  _ _ _ _ _ _ (kinv_init N) Hs0) as (Ha & Hp & D & Hu).
    simpl in Ha, Hp, Hu. destruct nodes' as [|g [|g2 rest]]; [discriminate| |simpl in Hlen; lia].
    apply ret_Done in H. destruct H as [<- _].
    simpl in Hp. rewrite app_nil_r in Hp.
    split; [exact Hp|]. split.
    + apply (proj1 (garity_subtrees bin2 g)). inversion Ha; subst. assumption.
    + exists D. apply guni_tips. inversion Hu; subst. assumption.
Qed.

Lemma mean_loop_fuel : forall fuel pop nodes rem r, length nodes <= fuel -> mean_loop fuel pop nodes rem r <> NoFuel.
Proof.
  induction fuel as [|f IH]; intros pop nodes rem r Hl; simpl.
  - destruct (length nodes <=? 1) eqn:E; [discriminate|]. apply Nat.leb_gt in E. lia.
  - destruct (length nodes <=? 1) eqn:E; [discriminate|]. apply Nat.leb_gt in E.
    destruct (match rem with Some rm => Qle_bool (expected_tmrca (length nodes) pop) rm | None => true end); [|discriminate].
    intro H. apply bnd_NoFuel in H. destruct H as [H|([i j] & r2 & Hc & H)]; [eapply d_sample2_fuel; eauto|].
    apply d_sample2_Done in Hc. destruct Hc as (Hi & Hj & Hne & _).
    revert H. apply IH. pose proof (coal_step_length (expected_tmrca (length nodes) pop) i j nodes Hi Hj Hne).
    change (length (coal_step (expected_tmrca (length nodes) pop) i j nodes) <= f). lia.
Qed.

Theorem mean_kingman_fuel_proved : forall N pop script, mean_kingman_sim N pop script <> NoFuel.
Proof.
  intros N pop script H. unfold mean_kingman_sim, mean_kingman_run in H.
  apply bnd_NoFuel in H. destruct H as [H|(res & r1 & _ & H)].
  - unfold coalesce_nodes_mean in H. destruct (map _ (seq 0 N)) as [|n0 nr] eqn:En; [discriminate|].
    apply bnd_NoFuel in H. destruct H as [H|([nodes' rem'] & r1 & _ & H)].
    + revert H. apply mean_loop_fuel. lia.
    + destruct rem' as [rm|]; [destruct (Qltb 0 rm)|]; discriminate.
  - destruct res; discriminate.
Qed.

(* hence the specification holds of the translated code *)
Theorem gen_mean_kingman_spec_proved : forall N pop script t r,
  gen_mean_kingman_tree (seq 0 N) pop (script, []) = Done t r ->
  Permutation (gleaf_taxa t) (map Some (seq 0 N)) /\
  (forall s, In s (gsubtrees t) -> length (g_kids s) = 0 \/ length (g_kids s) = 2) /\
  (exists D, forall x h, In (x, h) (gtips t) -> h == D)%Q.
Proof.
  intros N pop script t r H. rewrite gen_mean_kingman_tree_eq in H. eapply mean_kingman_spec_proved. exact H.
Qed.

Theorem gen_mean_kingman_terminates_proved : forall N pop script,
  gen_mean_kingman_tree (seq 0 N) pop (script, []) <> NoFuel.
Proof. intros N pop script. rewrite gen_mean_kingman_tree_eq. apply mean_kingman_fuel_proved. Qed.
