(* C02 (NEXUS): NexusReader on the token sequence of a document written by NexusWriter. *)
From Coq Require Import ZArith List Bool Lia Arith DecimalN.
From DV Require Import Model.PyPrims Gen.CharClasses Model.Tokenizer Model.Newick Model.C02Spec Model.C02ListSpec
     Model.C02Nexus Model.C02NexusSpec
     Proofs.C02Tok Proofs.C02Escape Proofs.C02Lex Proofs.C02Parse Proofs.C02ListParse Proofs.C02ListMap Proofs.C02ListDoc
     Proofs.C02NexusMap Proofs.C02NexusLex Proofs.C02NexusDoc.
Import ListNotations.
Open Scope Z_scope.

(* characters str.upper leaves alone in an ASCII string: everything but a-z *)
Definition up_fixed (c : Z) : bool := (c <? 97) || ((122 <? c) && (c <? 128)).

Section NexusRead.
Variable L : Type.
Variable render_len : L -> str.
Variable parse_len : str -> option L.
Variable lower : str -> str.
Variable upper : str -> str.
Hypothesis len_roundtrip : forall x, parse_len (render_len x) = Some x.
Hypothesis len_plain : forall x, render_len x <> [] /\ forallb numeral_char (render_len x) = true.
Hypothesis lower_digits : forall n, lower (dec_of_nat n) = dec_of_nat n.
Hypothesis upper_fixed : forall s, forallb up_fixed s = true -> upper s = s.
Hypothesis upper_translate : upper wd_Translate = kw_TRANSLATE.
Variable o : rt_opts.
Variable tokn : nat -> nat.     (* TRANSLATE token numbering, see Proofs/C02NexusDoc.v *)

Notation ro := (rt_ropts o).
Notation ntree := (ntree L).
Notation ptree := (ptree L).
Notation next_ucase := (next_ucase upper).
Notation require_ucase := (require_ucase upper).

(* ---- single steps ---- *)
Lemma next_T c s q r e n b seen m :
  next_token_or_none (St c (T s q :: r) e n b seen m) = Ok (St s r e n b seen m).
Proof. reflexivity. Qed.

Lemma next_ucase_T c s q r e n b seen m :
  next_ucase (St c (T s q :: r) e n b seen m) = Ok (St (upper s) r e n b seen m).
Proof. reflexivity. Qed.

Lemma require_ucase_T c s q r e n b seen m :
  require_ucase (St c (T s q :: r) e n b seen m) = Ok (St (upper s) r e n b seen m).
Proof. reflexivity. Qed.

Lemma skip_semi F c r e n b seen m : (1 <= F)%nat ->
  skip_to_semicolon F (St c (T [SEMI] false :: r) e n b seen m) = Ok (St [SEMI] r e n b seen m).
Proof. intro H. destruct F as [|F]; [lia|]. reflexivity. Qed.

Lemma dec_up n : upper (dec_of_nat n) = dec_of_nat n.
Proof.
  apply upper_fixed. unfold dec_of_nat. induction (N.to_uint (N.of_nat n)); simpl; try reflexivity; exact IHu.
Qed.

(* ---- numerals ---- *)
Lemma uint_of_digits_inv : forall u, uint_of_digits (uint_digits u) = Some u.
Proof. induction u; simpl; try reflexivity; rewrite IHu; reflexivity. Qed.

Lemma parse_nat_dec n : parse_nat (dec_of_nat n) = Some n.
Proof.
  unfold parse_nat. pose proof (dec_nonempty n) as Hne. destruct (dec_of_nat n) eqn:E; [congruence|].
  rewrite <- E. unfold dec_of_nat. rewrite uint_of_digits_inv. simpl.
  rewrite DecimalN.Unsigned.of_to. rewrite Nnat.Nat2N.id. reflexivity.
Qed.

Lemma dec_digits n : forallb (fun c => (48 <=? c) && (c <=? 57)) (dec_of_nat n) = true.
Proof. unfold dec_of_nat. induction (N.to_uint (N.of_nat n)); simpl; try reflexivity; exact IHu. Qed.

Lemma cur_is_dec k c r e n b seen m : ((c <? 48) || (57 <? c))%bool = true ->
  cur_is (St (dec_of_nat k) r e n b seen m) c = false.
Proof.
  intro Hc. unfold cur_is, St. cbn [ps_cur]. pose proof (dec_digits k) as D.
  destruct (dec_of_nat k) as [|x [|y l]]; try reflexivity. simpl in D. rewrite andb_true_r in D.
  destruct (x =? c) eqn:E; [|reflexivity]. apply Z.eqb_eq in E. subst x. lia.
Qed.

(* ---- DIMENSIONS NTAX=k; ---- *)
Notation parse_dimensions := (parse_dimensions L upper).

Lemma read_dimensions F k r e n b seen m nt tns trs : (3 <= F)%nat ->
  parse_dimensions F (mkNx L (St kw_DIMENSIONS (W kw_NTAX :: T [EQUALS] false :: W (dec_of_nat k) :: T [SEMI] false :: r) e n b seen m) nt tns trs)
  = NOk (mkNx L (St [SEMI] r e n b seen m) (Some k) tns trs).
Proof.
  intro HF. destruct F as [|[|[|F]]]; try lia.
  unfold C02Nexus.parse_dimensions, set_ps. cbn [nx_ps nx_ntax nx_tns nx_trees]. unfold W.
  rewrite require_ucase_T. rewrite (upper_fixed kw_NTAX) by reflexivity. cbn [of_res nbind].
  cbn [dimensions_loop nx_ps nx_ntax nx_tns nx_trees].
  change (cur_is (St kw_NTAX (T [EQUALS] false :: T (dec_of_nat k) false :: T [SEMI] false :: r) e n b seen m) SEMI) with false.
  change (cur_eq (St kw_NTAX (T [EQUALS] false :: T (dec_of_nat k) false :: T [SEMI] false :: r) e n b seen m) kw_NTAX) with true.
  cbv iota. rewrite require_ucase_T. rewrite (upper_fixed [EQUALS]) by reflexivity. cbn [of_res nbind].
  change (cur_is (St [EQUALS] (T (dec_of_nat k) false :: T [SEMI] false :: r) e n b seen m) EQUALS) with true.
  cbv iota. rewrite require_ucase_T. rewrite dec_up. cbn [of_res nbind].
  change (cur_text (St (dec_of_nat k) (T [SEMI] false :: r) e n b seen m)) with (dec_of_nat k).
  rewrite parse_nat_dec. rewrite require_ucase_T. rewrite (upper_fixed [SEMI]) by reflexivity. cbn [of_res nbind].
  cbn [dimensions_loop nx_ps]. reflexivity.
Qed.

(* ---- TAXLABELS ---- *)
Notation ltok := (ltok o).
Notation taxlabels_loop := (taxlabels_loop lower).

Lemma has_key_false acc l : ~ In (lower l) (map lower acc) -> has_key lower acc l = false.
Proof.
  intro H. unfold has_key. destruct (existsb (fun x => str_eqb (lower x) (lower l)) acc) eqn:E; [|reflexivity].
  exfalso. apply existsb_exists in E. destruct E as [x [Hx Ex]]. apply str_eqb_eq in Ex. apply H. rewrite <- Ex. apply in_map. exact Hx.
Qed.

Lemma read_taxlabels : forall ls acc F rest e n b seen m k,
  (length ls < F)%nat -> (length acc + length ls <= k)%nat ->
  (forall l, In l ls -> not_struct l) ->
  NoDup (map lower (acc ++ ls)) ->
  taxlabels_loop F (Some k) (ST (map ltok ls ++ T [SEMI] false :: rest) e n b seen m) acc
  = NOk (St [SEMI] rest e n b seen m, acc ++ ls).
Proof.
  induction ls as [|l ls IH]; intros acc F rest e n b seen m k HF Hk Hns Hnd.
  - destruct F as [|F]; [simpl in HF; lia|]. simpl. rewrite app_nil_r. reflexivity.
  - destruct F as [|F]; [simpl in HF; lia|].
    cbn [map app ST t_text]. unfold C02NexusDoc.ltok at 1. cbn [T t_text].
    cbn [C02Nexus.taxlabels_loop].
    rewrite (cur_is_not_struct l _ e n b seen m SEMI (Hns l (or_introl eq_refl))) by (simpl; tauto).
    change (cur_text (St l (map ltok ls ++ T [SEMI] false :: rest) e n b seen m)) with l.
    rewrite has_key_false.
    2:{ rewrite map_app in Hnd. simpl in Hnd. apply NoDup_remove_2 in Hnd. intro Hi. apply Hnd. apply in_app_iff. left. exact Hi. }
    assert (Hleb : Nat.leb k (length acc) = false) by (apply Nat.leb_gt; simpl in Hk; lia).
    rewrite Hleb. cbn [nbind].
    assert (Hreq : require_next (St l (map ltok ls ++ T [SEMI] false :: rest) e n b seen m)
                   = Ok (ST (map ltok ls ++ T [SEMI] false :: rest) e n b seen m)).
    { destruct ls; reflexivity. }
    rewrite Hreq. cbn [of_res nbind].
    assert (Hpull : pull_comments (ST (map ltok ls ++ T [SEMI] false :: rest) e n b seen m)
                    = ([], ST (map ltok ls ++ T [SEMI] false :: rest) e n b seen m)).
    { destruct ls; reflexivity. }
    rewrite Hpull.
    rewrite (IH (acc ++ [l]) F rest e n b seen m k).
    + rewrite <- app_assoc. reflexivity.
    + simpl in HF. lia.
    + rewrite app_length. simpl in *. lia.
    + intros x Hx. apply Hns. right. exact Hx.
    + rewrite <- app_assoc. exact Hnd.
Qed.

(* ---- the TAXA block ---- *)
Notation parse_taxa_block := (parse_taxa_block L lower upper).
Notation taxa_block_loop := (taxa_block_loop L lower upper).

Definition taxa_body (ns : list str) (rest : list token) : list token :=
  T [SEMI] false :: W kw_DIMENSIONS :: W kw_NTAX :: T [EQUALS] false :: W (dec_of_nat (length ns)) :: T [SEMI] false ::
  W kw_TAXLABELS :: map ltok ns ++ T [SEMI] false :: W kw_END :: T [SEMI] false :: rest.

Lemma read_taxa_block F ns rest e n b seen m :
  (length ns + 5 <= F)%nat -> (forall l, In l ns -> not_struct l) -> NoDup (map lower ns) ->
  parse_taxa_block F (mkNx L (St kw_TAXA (taxa_body ns rest) e n b seen m) None [] [])
  = NOk (mkNx L (St [SEMI] rest e n b seen m) (Some (length ns)) [ns] []).
Proof.
  intros HF Hns Hnd. unfold C02Nexus.parse_taxa_block, taxa_body, set_ps. cbn [nx_ps nx_ntax nx_tns nx_trees].
  rewrite skip_semi by lia. cbn [of_res nbind].
  destruct F as [|[|[|F]]]; try lia.
  (* DIMENSIONS *)
  cbn [C02Nexus.taxa_block_loop nx_ps]. unfold W at 1. rewrite require_ucase_T.
  rewrite (upper_fixed kw_DIMENSIONS) by reflexivity. cbn [of_res nbind]. unfold set_ps. cbn [nx_ps nx_ntax nx_tns nx_trees].
  change (cur_eq (St kw_DIMENSIONS (W kw_NTAX :: T [EQUALS] false :: W (dec_of_nat (length ns)) :: T [SEMI] false ::
                  W kw_TAXLABELS :: map ltok ns ++ T [SEMI] false :: W kw_END :: T [SEMI] false :: rest) e n b seen m) kw_TITLE) with false.
  change (cur_eq (St kw_DIMENSIONS (W kw_NTAX :: T [EQUALS] false :: W (dec_of_nat (length ns)) :: T [SEMI] false ::
                  W kw_TAXLABELS :: map ltok ns ++ T [SEMI] false :: W kw_END :: T [SEMI] false :: rest) e n b seen m) kw_DIMENSIONS) with true.
  change (cur_eq (St kw_DIMENSIONS (W kw_NTAX :: T [EQUALS] false :: W (dec_of_nat (length ns)) :: T [SEMI] false ::
                  W kw_TAXLABELS :: map ltok ns ++ T [SEMI] false :: W kw_END :: T [SEMI] false :: rest) e n b seen m) kw_TAXLABELS) with false.
  change (cur_eq (St kw_DIMENSIONS (W kw_NTAX :: T [EQUALS] false :: W (dec_of_nat (length ns)) :: T [SEMI] false ::
                  W kw_TAXLABELS :: map ltok ns ++ T [SEMI] false :: W kw_END :: T [SEMI] false :: rest) e n b seen m) kw_END) with false.
  change (cur_eq (St kw_DIMENSIONS (W kw_NTAX :: T [EQUALS] false :: W (dec_of_nat (length ns)) :: T [SEMI] false ::
                  W kw_TAXLABELS :: map ltok ns ++ T [SEMI] false :: W kw_END :: T [SEMI] false :: rest) e n b seen m) kw_ENDBLOCK) with false.
  cbv iota.
  rewrite read_dimensions by lia. cbn [nbind orb].
  (* TAXLABELS *)
  cbn [C02Nexus.taxa_block_loop nx_ps]. unfold W at 1. rewrite require_ucase_T.
  rewrite (upper_fixed kw_TAXLABELS) by reflexivity. cbn [of_res nbind]. unfold set_ps. cbn [nx_ps nx_ntax nx_tns nx_trees].
  change (cur_eq (St kw_TAXLABELS (map ltok ns ++ T [SEMI] false :: W kw_END :: T [SEMI] false :: rest) e n b seen m) kw_TITLE) with false.
  change (cur_eq (St kw_TAXLABELS (map ltok ns ++ T [SEMI] false :: W kw_END :: T [SEMI] false :: rest) e n b seen m) kw_DIMENSIONS) with false.
  change (cur_eq (St kw_TAXLABELS (map ltok ns ++ T [SEMI] false :: W kw_END :: T [SEMI] false :: rest) e n b seen m) kw_TAXLABELS) with true.
  change (cur_eq (St kw_TAXLABELS (map ltok ns ++ T [SEMI] false :: W kw_END :: T [SEMI] false :: rest) e n b seen m) kw_END) with false.
  change (cur_eq (St kw_TAXLABELS (map ltok ns ++ T [SEMI] false :: W kw_END :: T [SEMI] false :: rest) e n b seen m) kw_ENDBLOCK) with false.
  cbv iota. cbn [nbind nx_tns nx_ps nx_ntax nx_trees length app].
  rewrite pull_St.
  assert (Hreq : require_next (St kw_TAXLABELS (map ltok ns ++ T [SEMI] false :: W kw_END :: T [SEMI] false :: rest) e n b seen m)
                 = Ok (ST (map ltok ns ++ T [SEMI] false :: W kw_END :: T [SEMI] false :: rest) e n b seen m)).
  { destruct ns; reflexivity. }
  rewrite Hreq. cbn [of_res nbind nth].
  rewrite (read_taxlabels ns [] (S F) _ e n b seen m (length ns)); [| lia | simpl; lia | exact Hns | exact Hnd].
  cbn [nbind fst snd app set_nth orb].
  (* END *)
  cbn [C02Nexus.taxa_block_loop nx_ps]. unfold W at 1. rewrite require_ucase_T.
  rewrite (upper_fixed kw_END) by reflexivity. cbn [of_res nbind]. unfold set_ps. cbn [nx_ps nx_ntax nx_tns nx_trees].
  change (cur_eq (St kw_END (T [SEMI] false :: rest) e n b seen m) kw_TITLE) with false.
  change (cur_eq (St kw_END (T [SEMI] false :: rest) e n b seen m) kw_DIMENSIONS) with false.
  change (cur_eq (St kw_END (T [SEMI] false :: rest) e n b seen m) kw_TAXLABELS) with false.
  change (cur_eq (St kw_END (T [SEMI] false :: rest) e n b seen m) kw_END) with true.
  cbv iota. cbn [nbind orb nx_ps].
  rewrite skip_semi by lia. reflexivity.
Qed.

(* ---- TRANSLATE ---- *)
Notation translate_loop := (translate_loop lower).
Notation tr_entries := (tr_entries o tokn).
Notation add_tokens := (add_tokens lower tokn).

Lemma add_tokens_ns : forall ils m, m_ns (add_tokens m ils) = m_ns m.
Proof.
  induction ils as [|il ils IH]; intro m; [reflexivity|].
  change (add_tokens m (il :: ils)) with (add_tokens (add_translate_token lower m (dec_of_nat (S (tokn (fst il)))) (fst il)) ils).
  rewrite IH. reflexivity.
Qed.

Lemma read_translate ns : NoDup (map lower ns) ->
  forall ls off F c rest e n b seen mp m k, ls <> [] ->
  (length ls < F)%nat -> m_ns m = ns ->
  (forall i l, nth_error ls i = Some l -> nth_error ns (off + i) = Some l) ->
  (forall l, In l ls -> not_struct l) ->
  translate_loop F (Some k) (St c (tr_entries (enum_from off ls) ++ T [SEMI] false :: rest) e n b seen mp) m
  = NOk (St [SEMI] rest e n b seen mp, add_tokens m (enum_from off ls)).
Proof.
  intro Hnd. induction ls as [|l ls IH]; intros off F c rest e n b seen mp m k Hne HF Hm Hpos Hns; [congruence|].
  destruct F as [|F]; [simpl in HF; lia|].
  assert (Hin : In l ns) by (apply (nth_error_In ns (off + 0)); apply Hpos; reflexivity).
  assert (Hp : pos ns l = off).
  { apply (nth_error_nodup_inj ns (pos ns l) off l (nodup_map_nodup lower ns Hnd) (pos_nth ns l Hin)).
    rewrite <- (Nat.add_0_r off). apply Hpos. reflexivity. }
  destruct ls as [|l2 ls].
  - cbn [enum_from C02NexusDoc.tr_entries fst snd app]. unfold W, C02NexusDoc.ltok.
    cbn [C02Nexus.translate_loop].
    rewrite next_T. cbn [of_res nbind]. rewrite cur_is_dec by reflexivity.
    change (ps_cur (St (dec_of_nat (S (tokn off))) (T l (dq o l) :: T [SEMI] false :: rest) e n b seen mp)) with (Some (dec_of_nat (S (tokn off)))).
    cbv iota. rewrite next_T. cbn [of_res nbind].
    change (ps_cur (St l (T [SEMI] false :: rest) e n b seen mp)) with (Some l). cbv iota.
    rewrite Hm. rewrite (find_key_pos lower ns l Hnd Hin). rewrite Hp. cbn [nbind fst snd].
    rewrite next_T. cbn [of_res nbind].
    change (cur_empty (St [SEMI] rest e n b seen mp)) with false.
    change (cur_is (St [SEMI] rest e n b seen mp) SEMI) with true. reflexivity.
  - cbn [enum_from C02NexusDoc.tr_entries fst snd app]. unfold W at 1. unfold C02NexusDoc.ltok at 1.
    cbn [C02Nexus.translate_loop].
    rewrite next_T. cbn [of_res nbind]. rewrite cur_is_dec by reflexivity.
    match goal with |- context [ps_cur (St (dec_of_nat (S (tokn off))) ?tl e n b seen mp)] =>
      change (ps_cur (St (dec_of_nat (S (tokn off))) tl e n b seen mp)) with (Some (dec_of_nat (S (tokn off)))) end.
    cbv iota. rewrite next_T. cbn [of_res nbind].
    match goal with |- context [ps_cur (St l ?tl e n b seen mp)] =>
      change (ps_cur (St l tl e n b seen mp)) with (Some l) end.
    cbv iota.
    rewrite Hm. rewrite (find_key_pos lower ns l Hnd Hin). rewrite Hp. cbn [nbind fst snd].
    rewrite next_T. cbn [of_res nbind].
    match goal with |- context [cur_empty (St [COMMA] ?tl e n b seen mp)] =>
      change (cur_empty (St [COMMA] tl e n b seen mp)) with false;
      change (cur_is (St [COMMA] tl e n b seen mp) SEMI) with false;
      change (cur_is (St [COMMA] tl e n b seen mp) COMMA) with true end.
    cbv iota. cbn [orb].
    change (W (dec_of_nat (S (tokn (S off)))) :: C02NexusDoc.ltok o l2 ::
            match enum_from (S (S off)) ls with [] => [] | _ :: _ => T [COMMA] false :: tr_entries (enum_from (S (S off)) ls) end)
      with (tr_entries (enum_from (S off) (l2 :: ls))).
    rewrite (IH (S off) F [COMMA] rest e n b seen mp _ k); [reflexivity | discriminate | simpl in HF; simpl; lia | exact Hm | |].
    + intros i x Hx. replace (S off + i)%nat with (off + S i)%nat by lia. apply Hpos. exact Hx.
    + intros x Hx. apply Hns. right. exact Hx.
Qed.

(* ---- one TREE statement ---- *)
Notation parse_tree_statement_nexus := (parse_tree_statement_nexus L parse_len lower).
Notation stmt_toks := (stmt_toks L render_len o).
Notation expectF := (expectF L o).
Notation taxa_order := (taxa_order L o).

Lemma read_tree_stmt F k r t R n b seen m ixs :
  wf_tree L o t = true -> (need L t <= F)%nat -> (1 <= F)%nat -> starts_ok R ->
  (forall s, In s (taxa_order t) -> require_taxon_for_symbol lower m s = (ixs s, m)) ->
  NoDup (map ixs (taxa_order t)) -> rooting_consistent o r = true ->
  parse_tree_statement_nexus F ro (St kw_TREE (W (dec_of_nat k) :: T [EQUALS] false :: stmt_toks r t ++ R) (EndEof []) n b seen m)
  = NOk (mkPR r [] (expectF ixs t), Bst R (rev (map ixs (taxa_order t))) m).
Proof.
  intros Hwf HF H1 HR Hreq Hnd Hroot.
  destruct (fix_node_all L lower o m ixs t [] Hreq Hnd (fun s _ H => H)) as [Hnc Hexp].
  destruct (wtoks_head L render_len lower o t Hwf) as [s [q [rest [Ew Hcur]]]].
  unfold C02Nexus.parse_tree_statement_nexus. unfold W.
  rewrite next_T. cbn [of_res nbind]. rewrite cur_is_dec by reflexivity.
  cbn [nbind]. rewrite next_T. cbn [of_res nbind]. rewrite pull_St.
  change (cur_is (St [EQUALS] (stmt_toks r t ++ R) (EndEof []) n b seen m) EQUALS) with true. cbn [negb].
  unfold C02ListDoc.stmt_toks. rewrite Ew. unfold add_comments. cbn [app t_text t_quoted t_comments t_eof T].
  rewrite app_nil_r.
  change (next_token_or_none (St [EQUALS] (mkTok s q (rooting_comments o r) false :: (rest ++ [T [SEMI] false]) ++ R) (EndEof []) n b seen m))
    with (Ok (mkPS (Some s) false (rooting_comments o r) ((rest ++ [T [SEMI] false]) ++ R) (EndEof []) n b seen m)).
  cbn [of_res nbind].
  rewrite (pts_core L render_len parse_len lower len_roundtrip o F _ r t s q rest R n b seen m Ew); try assumption.
  - rewrite Hexp. cbn [of_res nbind fst snd]. rewrite !app_nil_r. rewrite (expected_rooting_ok o r Hroot).
    cbn [pr_is_rooted pr_comments pr_tree app]. reflexivity.
  - unfold pull_comments, set_tok. cbn [fst snd ps_cur ps_eof ps_comments ps_toks ps_end ps_nesting ps_complete ps_seen ps_map].
    destruct F as [|F]; [lia|]. cbn [skip_semicolons].
    destruct (Hcur (EndEof []) n b seen m (rest ++ [T [SEMI] false] ++ R)) as [C1 [C2 [C3 C4]]].
    unfold St in C3. cbn [cur_is ps_cur ps_eof orb andb negb] in C3 |- *. rewrite C3. cbn [orb andb].
    rewrite <- app_assoc. reflexivity.
Qed.

(* ---- consecutive TREE statements ---- *)
Notation tree_statements_loop := (tree_statements_loop L parse_len lower upper).
Notation tree_stmt_toks := (tree_stmt_toks L render_len o).

Definition stmt_result (ixs : str -> nat) (it : nat * (option bool * ntree)) : ptree_result L :=
  mkPR (fst (snd it)) [] (expectF ixs (snd (snd it))).

Definition stmt_ok_n (m : mapper) (ixs : str -> nat) (F : nat) (slack : nat) (it : nat * (option bool * ntree)) : Prop :=
  wf_tree L o (snd (snd it)) = true /\ (need L (snd (snd it)) + slack <= F)%nat /\
  (forall s, In s (taxa_order (snd (snd it))) -> require_taxon_for_symbol lower m s = (ixs s, m)) /\
  NoDup (map ixs (taxa_order (snd (snd it)))) /\ rooting_consistent o (fst (snd it)) = true.

Lemma cast_ucase_kw kw r e n b seen m : forallb up_fixed kw = true -> kw <> [] ->
  cast_ucase upper (St kw r e n b seen m) = St kw r e n b seen m.
Proof.
  intros Hk Hne. unfold cast_ucase. cbn [ps_cur St]. destruct kw as [|c s]; [congruence|].
  rewrite (upper_fixed (c :: s) Hk). reflexivity.
Qed.

Lemma read_tree_stmts m ixs : forall its F acc rest n b seen,
  its <> [] ->
  (forall it, In it its -> stmt_ok_n m ixs F (length its + 1) it) ->
  exists seen',
  tree_statements_loop F ro (ST (flat_map tree_stmt_toks its ++ W kw_END :: T [SEMI] false :: rest) (EndEof []) n b seen m) acc
  = NOk (acc ++ map (stmt_result ixs) its, St kw_END (T [SEMI] false :: rest) (EndEof []) 0 true seen' m, true).
Proof.
  induction its as [|[i [r t]] its IH]; intros F acc rest n b seen Hne Hok; [congruence|].
  destruct (Hok _ (or_introl eq_refl)) as [Hwf [HF [Hreq [Hnd Hroot]]]]. cbn [fst snd] in *.
  destruct F as [|F]; [simpl in HF; lia|].
  cbn [flat_map]. unfold C02NexusDoc.tree_stmt_toks at 1. cbn [fst snd]. rewrite <- !app_assoc. cbn [app ST t_text W T].
  cbn [C02Nexus.tree_statements_loop].
  set (R := flat_map tree_stmt_toks its ++ W kw_END :: T [SEMI] false :: rest).
  assert (HR : starts_ok R).
  { unfold R. destruct its as [|[i2 [r2 t2]] its]; simpl; reflexivity. }
  change (mkTok (dec_of_nat (S i)) false [] false) with (W (dec_of_nat (S i))).
  change (mkTok [EQUALS] false [] false) with (T [EQUALS] false).
  rewrite (read_tree_stmt (S F) (S i) r t R n b seen m ixs Hwf); [| simpl in HF; lia | lia | exact HR | exact Hreq | exact Hnd | exact Hroot].
  cbn [nbind].
  destruct its as [|[i2 [r2 t2]] its].
  - (* the last statement: END follows *)
    unfold R. cbn [flat_map app Bst W T t_text t_eof t_comments].
    change (mkPS (Some kw_END) false [] (T [SEMI] false :: rest) (EndEof []) 0 true (rev (map ixs (taxa_order t))) m)
      with (St kw_END (T [SEMI] false :: rest) (EndEof []) 0 true (rev (map ixs (taxa_order t))) m).
    change (ps_eof (St kw_END (T [SEMI] false :: rest) (EndEof []) 0 true (rev (map ixs (taxa_order t))) m)) with false.
    change (cur_empty (St kw_END (T [SEMI] false :: rest) (EndEof []) 0 true (rev (map ixs (taxa_order t))) m)) with false.
    cbn [orb]. rewrite cast_ucase_kw by (reflexivity || discriminate).
    change (cur_eq (St kw_END (T [SEMI] false :: rest) (EndEof []) 0 true (rev (map ixs (taxa_order t))) m) kw_TREE) with false.
    cbv iota. eexists. reflexivity.
  - (* another TREE statement follows *)
    assert (EB : forall sn, Bst R sn m
                 = St kw_TREE (W (dec_of_nat (S i2)) :: T [EQUALS] false :: stmt_toks r2 t2 ++
                               flat_map tree_stmt_toks its ++ W kw_END :: T [SEMI] false :: rest) (EndEof []) 0 true sn m).
    { intro sn. unfold R. cbn [flat_map]. unfold C02NexusDoc.tree_stmt_toks at 1. cbn [fst snd]. rewrite <- !app_assoc. reflexivity. }
    rewrite EB.
    match goal with |- context [ps_eof (St kw_TREE ?tl (EndEof []) 0 true ?sn m)] =>
      change (ps_eof (St kw_TREE tl (EndEof []) 0 true sn m)) with false;
      change (cur_empty (St kw_TREE tl (EndEof []) 0 true sn m)) with false;
      cbn [orb]; rewrite cast_ucase_kw by (reflexivity || discriminate);
      change (cur_eq (St kw_TREE tl (EndEof []) 0 true sn m) kw_TREE) with true
    end.
    cbv iota.
    destruct (IH F (acc ++ [mkPR r [] (expectF ixs t)]) rest 0 true (rev (map ixs (taxa_order t)))) as [seen' E].
    + discriminate.
    + intros it Hit. destruct (Hok it (or_intror Hit)) as [A [B [C [D E]]]].
      repeat split; try assumption. simpl in B. simpl. lia.
    + exists seen'.
      assert (ES : forall n0 b0 sn, ST (flat_map tree_stmt_toks ((i2, (r2, t2)) :: its) ++ W kw_END :: T [SEMI] false :: rest) (EndEof []) n0 b0 sn m
                   = St kw_TREE (W (dec_of_nat (S i2)) :: T [EQUALS] false :: stmt_toks r2 t2 ++
                                 flat_map tree_stmt_toks its ++ W kw_END :: T [SEMI] false :: rest) (EndEof []) n0 b0 sn m).
      { intros. cbn [flat_map]. unfold C02NexusDoc.tree_stmt_toks at 1. cbn [fst snd]. rewrite <- !app_assoc. reflexivity. }
      rewrite ES in E. rewrite E. cbn [map]. unfold stmt_result. cbn [fst snd]. rewrite <- ?app_assoc. reflexivity.
Qed.

(* ---- the TREES block ---- *)
Notation parse_trees_block := (parse_trees_block L parse_len lower upper).
Notation trees_block_loop := (trees_block_loop L parse_len lower upper).
Notation translate_toks := (translate_toks o tokn).

Definition block_mapper (tr : bool) (ns : list str) : mapper := if tr then mT lower tokn ns else m0 lower ns.

Lemma read_trees_block tr ns ixs its F rest n b seen mp k :
  NoDup (map lower ns) -> (forall l, In l ns -> not_struct l) -> (tr = true -> ns <> []) ->
  its <> [] -> (length ns + 4 <= F)%nat ->
  (forall it, In it its -> stmt_ok_n (block_mapper tr ns) ixs F (length its + 4) it) ->
  exists seen',
  parse_trees_block F ro
    (mkNx L (St kw_TREES (T [SEMI] false :: translate_toks tr ns ++ flat_map tree_stmt_toks its ++ W kw_END :: T [SEMI] false :: rest)
                (EndEof []) n b seen mp) (Some k) [ns] [])
  = NOk (mkNx L (St [SEMI] rest (EndEof []) 0 true seen' (block_mapper tr ns)) (Some k) [ns] [(O, map (stmt_result ixs) its)]).
Proof.
  intros Hnd Hns Htr Hne HF Hok.
  unfold C02Nexus.parse_trees_block. cbn [nx_ps nx_ntax nx_tns nx_trees].
  rewrite cast_ucase_kw by (reflexivity || discriminate).
  change (cur_eq (St kw_TREES (T [SEMI] false :: translate_toks tr ns ++ flat_map tree_stmt_toks its ++ W kw_END :: T [SEMI] false :: rest)
                     (EndEof []) n b seen mp) kw_TREES) with true.
  cbn [negb]. rewrite skip_semi by lia. cbn [of_res nbind]. unfold set_ps. cbn [nx_ps nx_ntax nx_tns nx_trees ps_cur St].
  destruct F as [|[|[|F]]]; try lia.
  assert (ES : forall n0 b0 sn m1, exists c tl,
             ST (flat_map tree_stmt_toks its ++ W kw_END :: T [SEMI] false :: rest) (EndEof []) n0 b0 sn m1
             = St kw_TREE tl (EndEof []) n0 b0 sn m1 /\
             flat_map tree_stmt_toks its ++ W kw_END :: T [SEMI] false :: rest = W kw_TREE :: tl /\ c = tt).
  { intros. destruct its as [|[i [r t]] its]; [congruence|]. cbn [flat_map]. unfold C02NexusDoc.tree_stmt_toks at 1 3.
    cbn [fst snd]. rewrite <- !app_assoc. cbn [app ST t_text W T]. eexists tt, _. repeat split. }
  destruct tr.
  - (* TRANSLATE ... ; TREE ... *)
    unfold C02NexusDoc.translate_toks. cbn [app].
    cbn [C02Nexus.trees_block_loop nx_ps]. 
    change (ps_eof (St [SEMI] (W wd_Translate :: (tr_entries (enum_from O ns) ++ [T [SEMI] false]) ++
                    flat_map tree_stmt_toks its ++ W kw_END :: T [SEMI] false :: rest) (EndEof []) n b seen mp)) with false.
    change (str_eqb kw_TREES kw_END || str_eqb kw_TREES kw_ENDBLOCK)%bool with false. cbn [orb].
    unfold W at 1. rewrite next_ucase_T. rewrite upper_translate. cbn [of_res nbind]. unfold set_ps. cbn [nx_ps nx_ntax nx_tns nx_trees].
    match goal with |- context [cur_eq (St kw_TRANSLATE ?tl (EndEof []) n b seen mp) kw_LINK] =>
      change (cur_eq (St kw_TRANSLATE tl (EndEof []) n b seen mp) kw_LINK) with false;
      change (cur_eq (St kw_TRANSLATE tl (EndEof []) n b seen mp) kw_TITLE) with false;
      change (cur_eq (St kw_TRANSLATE tl (EndEof []) n b seen mp) kw_TRANSLATE) with true
    end.
    cbn [orb]. cbv iota. cbn [get_taxon_namespace nx_tns nbind nth nx_ps nx_ntax].
    change (ro_case_sensitive_taxon_labels ro) with false. fold (m0 lower ns).
    rewrite <- app_assoc. cbn [app].
    rewrite (read_translate ns Hnd ns O (S (S F)) kw_TRANSLATE _ (EndEof []) n b seen mp (m0 lower ns) k);
      [| exact (Htr eq_refl) | lia | reflexivity | intros i l Hi; exact Hi | exact Hns].
    cbn [nbind fst snd]. fold (mT lower tokn ns). unfold set_ps. cbn [nx_ps nx_ntax nx_tns nx_trees].
    (* TREE *)
    cbn [C02Nexus.trees_block_loop nx_ps].
    match goal with |- context [ps_eof (St [SEMI] ?tl (EndEof []) n b seen mp)] =>
      change (ps_eof (St [SEMI] tl (EndEof []) n b seen mp)) with false end.
    change (str_eqb [] kw_END || str_eqb [] kw_ENDBLOCK)%bool with false. cbn [orb].
    destruct (ES n b seen mp) as [_ [tl [_ [Etl _]]]]. rewrite Etl.
    unfold W at 1. rewrite next_ucase_T. rewrite (upper_fixed kw_TREE) by reflexivity. cbn [of_res nbind]. unfold set_ps. cbn [nx_ps nx_ntax nx_tns nx_trees].
    change (cur_eq (St kw_TREE tl (EndEof []) n b seen mp) kw_LINK) with false.
    change (cur_eq (St kw_TREE tl (EndEof []) n b seen mp) kw_TITLE) with false.
    change (cur_eq (St kw_TREE tl (EndEof []) n b seen mp) kw_TRANSLATE) with false.
    change (cur_eq (St kw_TREE tl (EndEof []) n b seen mp) kw_TREE) with true.
    cbn [orb]. cbv iota. cbn [nbind nth nx_tns nx_ps]. rewrite pull_St.
    change (set_seen_map (St kw_TREE tl (EndEof []) n b seen mp) (ps_seen (St kw_TREE tl (EndEof []) n b seen mp)) (mT lower tokn ns))
      with (St kw_TREE tl (EndEof []) n b seen (mT lower tokn ns)).
    destruct (read_tree_stmts (mT lower tokn ns) ixs its (S F) [] rest n b seen Hne) as [seen' E].
    { intros it Hit. destruct (Hok it Hit) as [A [B [C [D E]]]]. repeat split; try assumption. lia. }
    destruct (ES n b seen (mT lower tokn ns)) as [_ [tl' [E1 [E2 _]]]]. rewrite E2 in Etl. injection Etl as Etl. subst tl'.
    rewrite E1 in E. rewrite E. cbn [nbind app]. unfold set_ps. cbn [nx_ps nx_ntax nx_tns nx_trees ps_cur St].
    (* END *)
    cbn [C02Nexus.trees_block_loop nx_ps ps_eof].
    change (str_eqb kw_END kw_END || str_eqb kw_END kw_ENDBLOCK)%bool with true. rewrite orb_true_r.
    cbn [nbind nx_ps nx_tns nx_trees nx_ntax ps_map set_nth app].
    fold (St kw_END (T [SEMI] false :: rest) (EndEof []) 0 true seen' (mT lower tokn ns)).
    change (mkPS (Some kw_END) false [] (T [SEMI] false :: rest) (EndEof []) 0 true seen' (mT lower tokn ns))
      with (St kw_END (T [SEMI] false :: rest) (EndEof []) 0 true seen' (mT lower tokn ns)).
    rewrite skip_semi by lia. cbn [of_res nbind].
    exists seen'. unfold block_mapper.
    assert (Ens : m_ns (mT lower tokn ns) = ns) by (unfold mT; rewrite add_tokens_ns; reflexivity).
    change (ps_map (St kw_END (T [SEMI] false :: rest) (EndEof []) 0 true seen' (mT lower tokn ns))) with (mT lower tokn ns).
    rewrite Ens. reflexivity.
  - (* TREE ... *)
    unfold C02NexusDoc.translate_toks. cbn [app].
    cbn [C02Nexus.trees_block_loop nx_ps].
    match goal with |- context [ps_eof (St [SEMI] ?tl (EndEof []) n b seen mp)] =>
      change (ps_eof (St [SEMI] tl (EndEof []) n b seen mp)) with false end.
    change (str_eqb kw_TREES kw_END || str_eqb kw_TREES kw_ENDBLOCK)%bool with false. cbn [orb].
    destruct (ES n b seen mp) as [_ [tl [_ [Etl _]]]]. rewrite Etl.
    unfold W at 1. rewrite next_ucase_T. rewrite (upper_fixed kw_TREE) by reflexivity. cbn [of_res nbind]. unfold set_ps. cbn [nx_ps nx_ntax nx_tns nx_trees].
    change (cur_eq (St kw_TREE tl (EndEof []) n b seen mp) kw_LINK) with false.
    change (cur_eq (St kw_TREE tl (EndEof []) n b seen mp) kw_TITLE) with false.
    change (cur_eq (St kw_TREE tl (EndEof []) n b seen mp) kw_TRANSLATE) with false.
    change (cur_eq (St kw_TREE tl (EndEof []) n b seen mp) kw_TREE) with true.
    cbn [orb]. cbv iota. cbn [get_taxon_namespace nx_tns nbind nth nx_ps nx_ntax]. rewrite pull_St.
    change (ro_case_sensitive_taxon_labels ro) with false. fold (m0 lower ns).
    change (set_seen_map (St kw_TREE tl (EndEof []) n b seen mp) (ps_seen (St kw_TREE tl (EndEof []) n b seen mp)) (m0 lower ns))
      with (St kw_TREE tl (EndEof []) n b seen (m0 lower ns)).
    destruct (read_tree_stmts (m0 lower ns) ixs its (S (S F)) [] rest n b seen Hne) as [seen' E].
    { intros it Hit. destruct (Hok it Hit) as [A [B [C [D E]]]]. repeat split; try assumption. lia. }
    destruct (ES n b seen (m0 lower ns)) as [_ [tl' [E1 [E2 _]]]]. rewrite E2 in Etl. injection Etl as Etl. subst tl'.
    rewrite E1 in E. rewrite E. cbn [nbind app]. unfold set_ps. cbn [nx_ps nx_ntax nx_tns nx_trees ps_cur St].
    cbn [C02Nexus.trees_block_loop nx_ps ps_eof].
    change (str_eqb kw_END kw_END || str_eqb kw_END kw_ENDBLOCK)%bool with true. rewrite orb_true_r.
    cbn [nbind nx_ps nx_tns nx_trees nx_ntax ps_map set_nth app].
    change (mkPS (Some kw_END) false [] (T [SEMI] false :: rest) (EndEof []) 0 true seen' (m0 lower ns))
      with (St kw_END (T [SEMI] false :: rest) (EndEof []) 0 true seen' (m0 lower ns)).
    rewrite skip_semi by lia. cbn [of_res nbind].
    exists seen'. reflexivity.
Qed.

(* ---- the whole stream ---- *)
Notation stream_loop := (stream_loop L parse_len lower upper).
Notation read_nexus := (read_nexus L parse_len lower upper).
Notation nexus_toks := (nexus_toks L render_len o tokn).

Lemma taxa_toks_body ns X : taxa_toks o ns ++ X = W kw_BEGIN :: W kw_TAXA :: taxa_body ns X.
Proof. unfold taxa_toks, taxa_body. cbn [app]. rewrite <- !app_assoc. reflexivity. Qed.

Lemma read_stream tr ns ixs its F :
  NoDup (map lower ns) -> (forall l, In l ns -> not_struct l) -> (tr = true -> ns <> []) ->
  its <> [] -> (length ns + 5 <= F)%nat ->
  (forall it, In it its -> stmt_ok_n (block_mapper tr ns) ixs F (length its + 5) it) ->
exists ps, stream_loop F ro
    (mkNx L (St kw_HASHNEXUS (taxa_toks o ns ++ [W kw_BEGIN; W kw_TREES; T [SEMI] false] ++ translate_toks tr ns
                               ++ flat_map tree_stmt_toks its ++ end_toks)
                (EndEof []) 0 false [] (new_mapper lower [] false false)) None [] [])
  = NOk (mkNx L ps (Some (length ns)) [ns] [(O, map (stmt_result ixs) its)]).
Proof.
  intros Hnd Hns Htr Hne HF Hok.
  set (mI := new_mapper lower [] false false).
  rewrite taxa_toks_body.
  destruct F as [|[|[|[|F]]]]; try lia.
  (* BEGIN TAXA *)
  cbn [C02Nexus.stream_loop nx_ps].
  match goal with |- context [ps_eof (St kw_HASHNEXUS ?tl (EndEof []) 0 false [] mI)] =>
    change (ps_eof (St kw_HASHNEXUS tl (EndEof []) 0 false [] mI)) with false end.
  cbv iota. unfold W at 1. rewrite next_ucase_T. rewrite (upper_fixed kw_BEGIN) by reflexivity. cbn [of_res nbind].
  cbn [scan_begin].
  match goal with |- context [cur_none (St kw_BEGIN ?tl (EndEof []) 0 false [] mI)] =>
    change (cur_none (St kw_BEGIN tl (EndEof []) 0 false [] mI)) with false;
    change (cur_eq (St kw_BEGIN tl (EndEof []) 0 false [] mI) kw_BEGIN) with true end.
  cbn [negb andb of_res nbind]. rewrite pull_St.
  unfold W at 1. rewrite next_ucase_T. rewrite (upper_fixed kw_TAXA) by reflexivity. cbn [of_res nbind]. unfold set_ps. cbn [nx_ps nx_ntax nx_tns nx_trees].
  match goal with |- context [cur_eq (St kw_TAXA ?tl (EndEof []) 0 false [] mI) kw_TAXA] =>
    change (cur_eq (St kw_TAXA tl (EndEof []) 0 false [] mI) kw_TAXA) with true end.
  cbv iota.
  rewrite read_taxa_block; [| lia | exact Hns | exact Hnd]. cbn [nbind].
  (* BEGIN TREES *)
  cbn [C02Nexus.stream_loop nx_ps app].
  match goal with |- context [ps_eof (St [SEMI] ?tl (EndEof []) 0 false [] mI)] =>
    change (ps_eof (St [SEMI] tl (EndEof []) 0 false [] mI)) with false end.
  cbv iota. unfold W at 1. rewrite next_ucase_T. rewrite (upper_fixed kw_BEGIN) by reflexivity. cbn [of_res nbind].
  cbn [scan_begin].
  match goal with |- context [cur_none (St kw_BEGIN ?tl (EndEof []) 0 false [] mI)] =>
    change (cur_none (St kw_BEGIN tl (EndEof []) 0 false [] mI)) with false;
    change (cur_eq (St kw_BEGIN tl (EndEof []) 0 false [] mI) kw_BEGIN) with true end.
  cbn [negb andb of_res nbind]. rewrite pull_St.
  unfold W at 1. rewrite next_ucase_T. rewrite (upper_fixed kw_TREES) by reflexivity. cbn [of_res nbind]. unfold set_ps. cbn [nx_ps nx_ntax nx_tns nx_trees].
  match goal with |- context [cur_eq (St kw_TREES ?tl (EndEof []) 0 false [] mI) kw_TAXA] =>
    change (cur_eq (St kw_TREES tl (EndEof []) 0 false [] mI) kw_TAXA) with false;
    change (cur_eq (St kw_TREES tl (EndEof []) 0 false [] mI) kw_CHARACTERS) with false;
    change (cur_eq (St kw_TREES tl (EndEof []) 0 false [] mI) kw_DATA) with false;
    change (cur_eq (St kw_TREES tl (EndEof []) 0 false [] mI) kw_TREES) with true end.
  cbn [orb]. cbv iota.
  unfold end_toks.
  destruct (read_trees_block tr ns ixs its (S (S (S F))) [] 0 false [] mI (length ns) Hnd Hns Htr Hne) as [seen' E]; [lia | |].
  { intros it Hit. destruct (Hok it Hit) as [A [B [C [D E0]]]]. repeat split; try assumption. lia. }
  rewrite E. cbn [nbind].
  (* end of stream *)
  cbn [C02Nexus.stream_loop nx_ps].
  change (ps_eof (St [SEMI] [] (EndEof []) 0 true seen' (block_mapper tr ns))) with false. cbv iota.
  cbn [C02Nexus.next_ucase next_token_or_none advance St ps_toks ps_end bind of_res nbind set_tok set_cur ps_cur ps_eof ps_comments
       ps_nesting ps_complete ps_seen ps_map app scan_begin cur_none negb andb pull_comments].
  cbn [C02Nexus.next_ucase next_token_or_none advance ps_toks ps_end bind of_res nbind set_tok set_cur ps_cur ps_eof ps_comments
       ps_nesting ps_complete ps_seen ps_map app].
  unfold set_ps. cbn [nx_ps nx_ntax nx_tns nx_trees cur_eq ps_cur orb].
  cbn [consume_to_end_of_block consume_loop ps_eof].
  change (str_eqb kw_DUMMY kw_END || str_eqb kw_DUMMY kw_ENDBLOCK || true)%bool with true. cbv iota.
  cbn [of_res nbind C02Nexus.stream_loop nx_ps ps_eof]. unfold set_ps. cbn [nx_ps nx_ntax nx_tns nx_trees].
  eexists. reflexivity.
Qed.

(*NR7*)
End NexusRead.
