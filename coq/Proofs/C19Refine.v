(* C19: the object-level model REFINES the value-level model.
   In a separated, well-formed state every operation of the value-level language, run on row OBJECTS
   (Model/C19RowHeap.v o_step_base), yields - after dereferencing every row id (abs_w) - exactly the state
   and the result that Model/C19Model.v step yields on the dereferenced state. *)
From Coq Require Import ZArith List Bool Lia.
From DV Require Import Model.PyPrims Model.C19Model Model.C19RowHeap Proofs.C19Alist Proofs.C19Rows Proofs.C19Cols
                       Proofs.C19Concat Proofs.C19Proofs Proofs.C19Step Proofs.C19RowHeapSep Proofs.C19RowHeapFrame
                       Proofs.C19RefineRows.
Import ListNotations.
Open Scope Z_scope.

Definition idl : lbl -> lbl := fun x => x.
Definition ids2 : lbl -> Z -> lbl := fun l _ => l.
Definition idz : Z -> lbl := fun i => i.
Definition sgs := sep_good_start idl ids2 idz.
Definition sgs2 := sep_good2_start idl ids2 idz.

Lemma aget_map_snd {A B} (f : A -> B) j (l : list (Z * A)) :
  aget j (map (fun p => (fst p, f (snd p))) l) = option_map f (aget j l).
Proof.
  induction l as [|[k v] l IH]; simpl; [reflexivity|]. destruct (Z.eqb j k); [reflexivity | exact IH].
Qed.

Lemma get_all_abs s ms l :
  get_all (map (fun p => (fst p, abs_m s (snd p))) ms) l = option_map (map (abs_m s)) (oget_all ms l).
Proof.
  induction l as [|i l IH]; simpl; [reflexivity|]. rewrite aget_map_snd, IH.
  destruct (aget i ms); simpl; [|reflexivity]. destruct (oget_all ms l); reflexivity.
Qed.

Lemma abs_m_ext s s' m : (forall r, In r (ids (om_rows m)) -> hget s' r = hget s r) -> abs_m s' m = abs_m s m.
Proof. intros H. unfold abs_m. f_equal. apply deref_ext, H. Qed.

Lemma abs_ms_upd n0 s s' m mm' : forall ms mm,
  aget m ms = Some mm -> NoDup (mids ms) -> (forall r, In r (mids ms) -> r < n0) ->
  sframe n0 (ids (om_rows mm)) s s' ->
  map (fun p => (fst p, abs_m s' (snd p))) (aput m mm' ms)
  = aput m (abs_m s' mm') (map (fun p => (fst p, abs_m s (snd p))) ms).
Proof.
  induction ms as [|[k x] ms IH]; simpl; intros mm H N B F; [discriminate|].
  destruct (NoDup_app_inv _ _ N) as [N1 [N2 D]]. destruct (Z.eqb m k) eqn:E.
  - inversion H; subst x. simpl. f_equal. apply map_ext_in. intros [j y] I. simpl. f_equal.
    apply abs_m_ext. intros r Hr.
    assert (Ir : In r (mids ms)) by (unfold mids; apply in_flat_map; exists (j, y); auto).
    apply F; [apply B, in_or_app; auto|]. intros Hm. apply (D r Hm Ir).
  - simpl. f_equal.
    + f_equal. apply abs_m_ext. intros r Hr. apply F; [apply B, in_or_app; auto|].
      intros Hm. apply (D r Hr). apply (mids_aget m ms mm r H Hm).
    + apply (IH mm H N2); [|exact F]. intros r Hr. apply B, in_or_app. auto.
Qed.

Lemma abs_ms_same n0 s s' : forall ms, (forall r, In r (mids ms) -> r < n0) -> sframe n0 [] s s' ->
  map (fun p => (fst p, abs_m s' (snd p))) ms = map (fun p => (fst p, abs_m s (snd p))) ms.
Proof.
  intros ms B F. apply map_ext_in. intros [j y] I. simpl. f_equal. apply abs_m_ext. intros r Hr.
  apply F; [|intros []]. apply B. unfold mids. apply in_flat_map. exists (j, y). auto.
Qed.

Lemma abs_oupd w m mm mm' s' :
  sep w -> aget m (ow_ms w) = Some mm ->
  good2 (s_next (ow_store w)) (ids (om_rows mm)) (ow_store w) (s', om_rows mm') ->
  abs_w (oupd w s' m mm') = upd (abs_w w) m (abs_m s' mm').
Proof.
  intros [N B] H [_ F]. unfold abs_w, oupd, upd. cbn [ow_nss ow_store ow_ms ow_next w_nss w_ms w_next]. f_equal.
  apply (abs_ms_upd (s_next (ow_store w)) (ow_store w) s' m mm' (ow_ms w) mm H N B F).
Qed.

Lemma abs_oadd w s' mm :
  sep w -> good2 (s_next (ow_store w)) [] (ow_store w) (s', om_rows mm) ->
  abs_w (oadd_new w s' mm) = add_new (abs_w w) (abs_m s' mm).
Proof.
  intros [N B] [_ F]. unfold abs_w, oadd_new, add_new. cbn [ow_nss ow_store ow_ms ow_next w_nss w_ms w_next]. f_equal.
  rewrite map_app. simpl. f_equal. apply (abs_ms_same (s_next (ow_store w)) (ow_store w) s' (ow_ms w) B F).
Qed.

Lemma abs_store_same w s' : sep w -> sframe (s_next (ow_store w)) [] (ow_store w) s' ->
  abs_w (mkOW (ow_nss w) s' (ow_ms w) (ow_next w) (ow_generic w)) = abs_w w.
Proof.
  intros [N B] F. unfold abs_w. cbn [ow_nss ow_store ow_ms ow_next]. f_equal.
  apply (abs_ms_same (s_next (ow_store w)) (ow_store w) s' (ow_ms w) B F).
Qed.

(* the invariant: separation + the value-level well-formedness of the dereferenced state *)
Definition oinv (w : oworld) : Prop := sep w /\ wf_world (abs_w w).

Lemma oinv_matrix w m mm : oinv w -> aget m (ow_ms w) = Some mm ->
  NoDup (ids (om_rows mm)) /\ bnd (ow_store w) (om_rows mm) /\ NoDup (keys (om_rows mm)) /\
  NoDup (otaxa_of w (om_ns mm)).
Proof.
  intros [S W] H. destruct (sgs w m mm S H) as [_ [N [B _]]]. cbn [fst snd] in *. split; [exact N|]. split; [exact B|]. split.
  - destruct W as [_ W2]. specialize (W2 m (abs_m (ow_store w) mm)).
    cbn [abs_w w_ms] in W2. rewrite aget_map_snd, H in W2. destruct (W2 eq_refl) as [K _].
    cbn [abs_m m_rows] in K. rewrite keys_deref in K. exact K.
  - apply (taxa_of_NoDup (abs_w w) (om_ns mm) W).
Qed.

(* value-level binary operations, generically *)
Definition vbin (fv : rows -> rows -> rows) (self other : matrix) : res matrix :=
  if negb (same_ns self other) then Err ValueErr else Ok (set_rows self (fv (m_rows self) (m_rows other))).

Section L.
Variable lower : lbl -> lbl.
Variable suffix : lbl -> Z -> lbl.
Variable locus : Z -> lbl.

Lemma binary_ref f fv w m o mm mo :
  (forall st ol, J st ol -> dr (f st ol) = fv (dr st) (deref (fst st) ol)) ->
  (forall n0 old s0 st ol, good2 n0 old s0 st -> good2 n0 old s0 (f st ol)) ->
  oinv w -> aget m (ow_ms w) = Some mm -> aget o (ow_ms w) = Some mo ->
  (abs_w (fst (olift w m (o_binary f (ow_store w) mm mo) OUnit)), snd (olift w m (o_binary f (ow_store w) mm mo) OUnit))
  = lift (abs_w w) m (vbin fv (abs_m (ow_store w) mm) (abs_m (ow_store w) mo)) OUnit.
Proof.
  intros Hs Hg I Hm Ho. pose proof I as [S W].
  unfold o_binary, vbin, same_ns. cbn [abs_m m_ns]. destruct (negb (Z.eqb (om_ns mo) (om_ns mm))); [reflexivity|].
  pose proof (Hg _ _ _ _ (om_rows mo) (sgs2 w m mm S Hm)) as G.
  assert (JJ : J (ow_store w, om_rows mm) (om_rows mo)).
  { destruct (oinv_matrix w m mm I Hm) as [N1 [B1 [K1 _]]]. destruct (oinv_matrix w o mo I Ho) as [N2 [B2 _]].
    destruct (Z.eq_dec m o) as [->|Ne].
    - rewrite Hm in Ho. inversion Ho; subst mo. apply J_alias; assumption.
    - apply J_disjoint; try assumption. intros r I1. destruct S as [N _].
      apply (mids_disjoint (ow_ms w) m o mm mo r N Hm Ho Ne I1). }
  pose proof (Hs _ _ JJ) as E. unfold dr in E. cbn [fst snd] in E.
  destruct (f (ow_store w, om_rows mm) (om_rows mo)) as [s' sr'] eqn:Ef. cbn [fst snd] in *.
  cbn [olift lift fst snd]. f_equal.
  rewrite (abs_oupd w m mm (oset_rows mm sr') s' S Hm G). f_equal.
  unfold abs_m, oset_rows, set_rows. cbn [om_ns om_label om_rows om_subs m_ns m_label m_rows m_subs]. f_equal. exact E.
Qed.

(* ---- concatenate ---- *)
Definition res_abs (r : res (store * omatrix)) : res matrix :=
  match r with Ok (s, m) => Ok (abs_m s m) | Err e => Err e | OutOfFuel => OutOfFuel end.

Lemma forallb_ext_in {A} (f g : A -> bool) l : (forall x, In x l -> f x = g x) -> forallb f l = forallb g l.
Proof.
  induction l as [|x l IH]; intros H; [reflexivity|]. simpl. rewrite (H x) by (left; reflexivity).
  rewrite IH; [reflexivity|]. intros y Hy. apply H. right. exact Hy.
Qed.

Lemma forallb_map {A B} (f : B -> bool) (g : A -> B) l : forallb f (map g l) = forallb (fun x => f (g x)) l.
Proof. induction l as [|x l IH]; [reflexivity|]. simpl. rewrite IH. reflexivity. Qed.

Lemma forallb_deref (f : tid * row -> bool) s (l : orows) :
  forallb f (deref s l) = forallb (fun p => f (fst p, hget s (snd p))) l.
Proof. unfold deref. apply forallb_map. Qed.

Lemma concat_loop_ref T ns0 nseqs n0 s0 : forall cms cidx s acc pos,
  good2 n0 [] s0 (s, om_rows acc) ->
  Forall (fun cm => NoDup (ids (om_rows cm)) /\ forall r, In r (ids (om_rows cm)) -> r < n0) cms ->
  res_abs (o_concat_loop lower suffix locus T ns0 nseqs cms cidx s acc pos)
  = concat_loop lower suffix locus T ns0 nseqs (map (abs_m s0) cms) cidx (abs_m s acc) pos.
Proof.
  induction cms as [|cm rest IH]; intros cidx s acc pos G FA; [reflexivity|].
  inversion FA as [|? ? [Ncm Bcm] FA']; subst.
  assert (Fcm : forall r, In r (ids (om_rows cm)) -> hget s r = hget s0 r).
  { intros r Ir. destruct G as [_ F]. apply F; [apply Bcm, Ir | intros []]. }
  assert (Dcm : deref s (om_rows cm) = deref s0 (om_rows cm)) by (apply deref_ext, Fcm).
  cbn [o_concat_loop concat_loop map]. cbn [abs_m m_ns m_rows m_label].
  destruct (negb (Z.eqb (om_ns cm) ns0)); [reflexivity|].
  rewrite !zlen_deref.
  destruct (negb (Z.eqb (zlen (om_rows cm)) (zlen T))); [reflexivity|].
  destruct (negb (Z.eqb (zlen (om_rows cm)) nseqs)); [reflexivity|].
  destruct T as [|t0 T']; [reflexivity|].
  rewrite aget_deref. destruct (aget t0 (om_rows cm)) as [r0|] eqn:A0; cbn [option_map]; [|reflexivity].
  rewrite items_deref, forallb_deref. cbn [snd].
  assert (EF : forallb (fun p : tid * rid => Z.eqb (zlen (hget s (snd p))) (zlen (hget s r0))) (oitems (t0 :: T') (om_rows cm))
               = forallb (fun x : tid * rid => Z.eqb (zlen (hget s0 (snd x))) (zlen (hget s0 r0))) (oitems (t0 :: T') (om_rows cm))).
  { apply forallb_ext_in. intros p Ip. rewrite (Fcm (snd p)) by (apply (oitems_in _ _ _ Ip)).
    rewrite (Fcm r0) by (apply (aget_ids t0), A0). reflexivity. }
  rewrite EF. destruct (negb (forallb _ _)); [reflexivity|].
  unfold o_binary, extend_matrix, same_ns. cbn [abs_m m_ns].
  destruct (negb (Z.eqb (om_ns cm) (om_ns acc))); [reflexivity|].
  pose proof (good2_extend_matrix n0 [] s0 (s, om_rows acc) (om_rows cm) G) as G1.
  assert (JJ : J (s, om_rows acc) (om_rows cm)).
  { destruct G as [[L [Na [Ba Oa]]] _]. cbn [fst snd] in *. apply J_disjoint; try assumption.
    - intros r Ir. apply Bcm in Ir. lia.
    - intros r Ia Ic. apply Bcm in Ic. destruct (Oa r Ia) as [[]|Ge]. lia. }
  pose proof (extend_matrix_rows_sim (om_rows cm) _ JJ) as E. cbn [fst snd] in E. rewrite Dcm in E.
  destruct (o_extend_matrix_rows (s, om_rows acc) (om_rows cm)) as [s1 sr1] eqn:Ex. cbn [fst snd] in *.
  cbv beta iota zeta. cbn [abs_m set_rows m_subs m_ns m_label m_rows oset_rows om_subs om_label om_ns om_rows].
  destruct (free_name lower suffix (free_name_fuel (om_subs acc)) (om_subs acc) _ _ 2) as [cs| |]; try reflexivity.
  rewrite Dcm.
  unfold o_new_character_subset, new_character_subset. cbn [abs_m set_rows m_subs oset_rows om_subs].
  destruct (has_key lower cs (om_subs acc)); [reflexivity|].
  rewrite IH; [|exact G1 | exact FA'].
  f_equal. unfold abs_m, set_subs, oset_subs. cbn [om_ns om_label om_rows om_subs m_ns m_label m_rows m_subs]. f_equal. exact E.
Qed.

Lemma oget_all_In ms l cms : oget_all ms l = Some cms -> forall cm, In cm cms -> exists j, aget j ms = Some cm.
Proof.
  revert cms. induction l as [|i l IH]; simpl; intros cms H cm Hc.
  - inversion H; subst. destruct Hc.
  - destruct (aget i ms) as [m0|] eqn:A; [|discriminate]. destruct (oget_all ms l) as [l0|]; [|discriminate].
    inversion H; subst. destruct Hc as [<-|Hc]; [exists i; exact A | apply (IH l0 eq_refl cm Hc)].
Qed.

(* ---- the refinement, one step ---- *)
Theorem o_step_base_refines w b : oinv w ->
  (abs_w (fst (o_step_base lower suffix locus w b)), snd (o_step_base lower suffix locus w b))
  = step lower suffix locus (abs_w w) b.
Proof.
  intros I. pose proof I as [S W]. set (s := ow_store w).
  destruct b as [l|l|m idx|m l|m v size append|m|m v size append|m o|m o|m o|m o addnew|m o|m ts|m ts|m ts|m t vals|m k vals|m k|m l idx];
    cbn [o_step_base step]; unfold owith1, owith2, with1, with2; cbn [abs_w w_ms]; fold s;
    rewrite ?aget_map_snd, ?get_all_abs.
  - (* Concat *)
    destruct (oget_all (ow_ms w) l) as [cms|] eqn:GA; cbn [option_map]; [|reflexivity].
    change (taxa_of (abs_w w)) with (otaxa_of w).
    assert (FA : Forall (fun cm => NoDup (ids (om_rows cm)) /\ forall r, In r (ids (om_rows cm)) -> r < s_next s) cms).
    { rewrite Forall_forall. intros cm Hc. destruct (oget_all_In _ _ _ GA cm Hc) as [j Hj].
      destruct (oinv_matrix w j cm I Hj) as [N [B _]]. split; assumption. }
    assert (E : res_abs (o_concatenate lower suffix locus (otaxa_of w) s cms)
                = concatenate lower suffix locus (otaxa_of w) (map (abs_m s) cms)).
    { unfold o_concatenate, concatenate. destruct cms as [|c0 rest]; [reflexivity|].
      cbn [map abs_m m_ns m_rows]. rewrite zlen_deref.
      apply (concat_loop_ref _ _ _ (s_next s) s (c0 :: rest) 0 s (mkOM (om_ns c0) None [] []) 0); [|exact FA].
      split; [|intros r _ _; reflexivity]. split; [simpl; lia|]. split; [constructor|]. split; intros r []. }
    rewrite <- E. destruct (o_concatenate _ _ _ _ _ cms) as [[s' r]| |] eqn:EC; cbn [res_abs olift_new lift_new fst snd]; try reflexivity.
    f_equal. apply abs_oadd; [exact S|]. unfold o_concatenate in EC. destruct cms as [|c0 rest]; [discriminate|].
    eapply good2_concat_loop; [|exact EC]. split; [|intros r0 _ _; reflexivity].
    split; [unfold s; simpl; lia|]. split; [constructor|]. split; intros r0 [].
  - (* ConcatRead *)
    destruct (oget_all (ow_ms w) l) as [cms|] eqn:GA; cbn [option_map]; [|reflexivity].
    change (taxa_of (abs_w w)) with (otaxa_of w). rewrite map_map.
    destruct (concatenate _ _ _ _ _) as [vm| |]; cbn [olift_new lift_new fst snd]; try reflexivity.
    unfold o_install. pose proof (install_fresh (m_rows vm) s) as F. pose proof (install_old (m_rows vm) s) as O.
    pose proof (install_deref (m_rows vm) s) as D.
    destruct (o_install_rows s (m_rows vm)) as [s' sr]. cbn [fst snd] in *. f_equal.
    rewrite abs_oadd; [|exact S|cbn [om_rows]; eapply good2_fresh; [|exact F | exact O]; fold s; lia].
    f_equal. unfold abs_m. cbn [om_ns om_label om_rows om_subs]. rewrite D. destruct vm; reflexivity.
  - (* ExportIdx *)
    destruct (aget m (ow_ms w)) as [mm|] eqn:H; cbn [option_map]; [|reflexivity].
    change (taxa_of (abs_w w) (m_ns (abs_m s mm))) with (otaxa_of w (om_ns mm)).
    destruct (oinv_matrix w m mm I H) as [N [B [K NT]]].
    cbn [olift_new lift_new fst snd]. unfold o_export.
    pose proof (deepcopy_fresh (om_rows mm) s [] N (fun _ _ => eq_refl)) as F.
    pose proof (deepcopy_old (om_rows mm) s []) as O.
    pose proof (deepcopy_deref (om_rows mm) s [] (fun _ _ => eq_refl) N B) as D.
    destruct (o_deepcopy_rows s [] (om_rows mm)) as [s1 cr]. cbn [fst snd] in *. f_equal.
    assert (G : good2 (s_next s) [] s (s1, cr)) by (eapply good2_fresh; [|exact F | exact O]; lia).
    rewrite abs_oadd; [|exact S|cbn [om_rows]; apply good2_select_store; exact G].
    f_equal. unfold abs_m, export_character_indices. cbn [om_ns om_label om_rows om_subs m_ns m_label m_rows]. f_equal.
    assert (K' : NoDup (keys cr)) by (rewrite <- (keys_deref s1 cr), D, keys_deref; exact K).
    rewrite (select_store_sim _ idx s1 cr K' (proj1 (proj2 F)) NT). rewrite D. reflexivity.
  - (* ExportSub *)
    destruct (aget m (ow_ms w)) as [mm|] eqn:H; cbn [option_map]; [|reflexivity].
    change (taxa_of (abs_w w) (m_ns (abs_m s mm))) with (otaxa_of w (om_ns mm)).
    unfold export_character_subset. cbn [abs_m m_subs].
    destruct (find_sub lower l (om_subs mm)) as [idx|]; [|reflexivity].
    destruct (oinv_matrix w m mm I H) as [N [B [K NT]]].
    cbn [olift_new lift_new fst snd]. unfold o_export.
    pose proof (deepcopy_fresh (om_rows mm) s [] N (fun _ _ => eq_refl)) as F.
    pose proof (deepcopy_old (om_rows mm) s []) as O.
    pose proof (deepcopy_deref (om_rows mm) s [] (fun _ _ => eq_refl) N B) as D.
    destruct (o_deepcopy_rows s [] (om_rows mm)) as [s1 cr]. cbn [fst snd] in *. f_equal.
    assert (G : good2 (s_next s) [] s (s1, cr)) by (eapply good2_fresh; [|exact F | exact O]; lia).
    rewrite abs_oadd; [|exact S|cbn [om_rows]; apply good2_select_store; exact G].
    f_equal. unfold abs_m, export_character_indices. cbn [om_ns om_label om_rows om_subs m_ns m_label m_rows]. f_equal.
    assert (K' : NoDup (keys cr)) by (rewrite <- (keys_deref s1 cr), D, keys_deref; exact K).
    rewrite (select_store_sim _ idx s1 cr K' (proj1 (proj2 F)) NT). rewrite D. reflexivity.
  - (* Fill *)
    destruct (aget m (ow_ms w)) as [mm|] eqn:H; cbn [option_map]; [|reflexivity].
    change (taxa_of (abs_w w) (m_ns (abs_m s mm))) with (otaxa_of w (om_ns mm)).
    destruct (oinv_matrix w m mm I H) as [N [B [K NT]]].
    unfold o_fill, fill. cbn [fst snd]. f_equal.
    rewrite (abs_oupd w m mm mm _ S H); [|apply good2_fill_store; apply (sgs2 w m mm S H)].
    f_equal. unfold abs_m at 1. unfold set_rows. cbn [abs_m m_ns m_label m_rows m_subs]. f_equal.
    apply (fill_store_sim _ v _ append s (om_rows mm) K N NT).
  - (* FillTaxa *)
    destruct (aget m (ow_ms w)) as [mm|] eqn:H; cbn [option_map]; [|reflexivity].
    change (taxa_of (abs_w w) (m_ns (abs_m s mm))) with (otaxa_of w (om_ns mm)).
    pose proof (good2_fill_taxa (ow_generic w) (otaxa_of w (om_ns mm)) _ _ _ _ (sgs2 w m mm S H)) as G.
    pose proof (fill_taxa_sim (ow_generic w) (otaxa_of w (om_ns mm)) _ _ _ (sgs w m mm S H)) as E. unfold dr in E.
    fold s in G, E. destruct (o_fill_taxa_rows _ _ (s, om_rows mm)) as [s' sr]. cbn [fst snd] in *. f_equal.
    rewrite (abs_oupd w m mm (oset_rows mm sr) s' S H G). f_equal.
    unfold abs_m, oset_rows, fill_taxa, set_rows. cbn [om_ns om_label om_rows om_subs m_ns m_label m_rows m_subs]. f_equal. exact E.
  - (* Pack *)
    destruct (aget m (ow_ms w)) as [mm|] eqn:H; cbn [option_map]; [|reflexivity].
    change (taxa_of (abs_w w) (m_ns (abs_m s mm))) with (otaxa_of w (om_ns mm)).
    destruct (oinv_matrix w m mm I H) as [N [B [K NT]]].
    unfold o_pack, pack.
    pose proof (good2_fill_taxa (ow_generic w) (otaxa_of w (om_ns mm)) _ _ _ _ (sgs2 w m mm S H)) as G.
    pose proof (fill_taxa_sim (ow_generic w) (otaxa_of w (om_ns mm)) _ _ _ (sgs w m mm S H)) as E. unfold dr in E.
    fold s in G, E. destruct (o_fill_taxa_rows _ _ (s, om_rows mm)) as [s1 sr]. cbn [fst snd] in *.
    unfold o_fill, fill. cbn [fst snd]. f_equal.
    rewrite (abs_oupd w m mm (oset_rows mm sr) _ S H); [|cbn [oset_rows om_rows]; apply good2_fill_store; exact G].
    f_equal.
    assert (EA : abs_m s1 (oset_rows mm sr) = fill_taxa (otaxa_of w (om_ns mm)) (abs_m s mm)).
    { unfold abs_m, oset_rows, fill_taxa, set_rows. cbn [om_ns om_label om_rows om_subs m_ns m_label m_rows m_subs]. f_equal. exact E. }
    rewrite <- EA. unfold abs_m at 1. unfold set_rows. cbn [oset_rows abs_m om_ns om_label om_rows om_subs m_ns m_label m_rows m_subs]. f_equal.
    assert (K' : NoDup (keys sr)).
    { rewrite <- (keys_deref s1 sr), E. rewrite fill_taxa_rows_keys by exact NT. rewrite keys_deref.
      apply NoDup_app_intro; [exact K | apply NoDup_filter; exact NT|].
      intros x Hx Hf. apply filter_In in Hf. destruct Hf as [_ Hf]. rewrite ahas_deref in Hf.
      apply ahas_In in Hx. rewrite Hx in Hf. discriminate. }
    destruct G as [[_ [N' _]] _]. cbn [snd] in N'.
    apply (fill_store_sim _ v _ append s1 sr K' N' NT).
  - (* AddSeqs *)
    destruct (aget m (ow_ms w)) as [mm|] eqn:H; cbn [option_map]; [|reflexivity].
    destruct (aget o (ow_ms w)) as [mo|] eqn:Ho; cbn [option_map]; [|reflexivity].
    apply (binary_ref o_add_rows add_rows w m o mm mo); auto.
    + intros st ol JJ. apply add_rows_sim, JJ.
    + intros; apply good2_add; assumption.
  - destruct (aget m (ow_ms w)) as [mm|] eqn:H; cbn [option_map]; [|reflexivity].
    destruct (aget o (ow_ms w)) as [mo|] eqn:Ho; cbn [option_map]; [|reflexivity].
    apply (binary_ref o_replace_rows replace_rows w m o mm mo); auto.
    + intros st ol JJ. apply replace_rows_sim, JJ.
    + intros; apply good2_replace; assumption.
  - destruct (aget m (ow_ms w)) as [mm|] eqn:H; cbn [option_map]; [|reflexivity].
    destruct (aget o (ow_ms w)) as [mo|] eqn:Ho; cbn [option_map]; [|reflexivity].
    apply (binary_ref o_update_rows update_rows w m o mm mo); auto.
    + intros st ol JJ. apply update_rows_sim, JJ.
    + intros; apply good2_update; assumption.
  - destruct (aget m (ow_ms w)) as [mm|] eqn:H; cbn [option_map]; [|reflexivity].
    destruct (aget o (ow_ms w)) as [mo|] eqn:Ho; cbn [option_map]; [|reflexivity].
    apply (binary_ref (o_extend_rows addnew) (extend_rows addnew) w m o mm mo); auto.
    + intros st ol JJ. apply extend_rows_sim, JJ.
    + intros; apply good2_extend; assumption.
  - destruct (aget m (ow_ms w)) as [mm|] eqn:H; cbn [option_map]; [|reflexivity].
    destruct (aget o (ow_ms w)) as [mo|] eqn:Ho; cbn [option_map]; [|reflexivity].
    apply (binary_ref o_extend_matrix_rows extend_matrix_rows w m o mm mo); auto.
    + intros st ol JJ. apply extend_matrix_rows_sim, JJ.
    + intros; apply good2_extend_matrix; assumption.
  - (* RemoveSeqs *)
    destruct (aget m (ow_ms w)) as [mm|] eqn:H; cbn [option_map]; [|reflexivity].
    cbn [abs_m m_rows]. rewrite remove_rows_sim.
    pose proof (good_remove _ _ _ ts _ (sgs w m mm S H)) as G.
    destruct (o_remove_rows (om_rows mm) ts) as [rs e]. cbn [fst snd] in *. f_equal.
    rewrite (abs_oupd w m mm (oset_rows mm rs) s S H); [reflexivity|].
    split; [exact G | intros r _ _; reflexivity].
  - (* DiscardSeqs *)
    destruct (aget m (ow_ms w)) as [mm|] eqn:H; cbn [option_map]; [|reflexivity].
    cbn [abs_m m_rows fst snd]. rewrite discard_rows_sim. f_equal.
    rewrite (abs_oupd w m mm (oset_rows mm (o_discard_rows (om_rows mm) ts)) s S H); [reflexivity|].
    split; [apply good_discard, (sgs w m mm S H) | intros r _ _; reflexivity].
  - (* KeepSeqs *)
    destruct (aget m (ow_ms w)) as [mm|] eqn:H; cbn [option_map]; [|reflexivity].
    cbn [abs_m m_rows fst snd]. rewrite keep_rows_sim. f_equal.
    rewrite (abs_oupd w m mm (oset_rows mm (o_keep_rows (om_rows mm) ts)) s S H); [reflexivity|].
    split; [apply good_keep, (sgs w m mm S H) | intros r _ _; reflexivity].
  - (* NewSeq *)
    destruct (aget m (ow_ms w)) as [mm|] eqn:H; cbn [option_map]; [|reflexivity].
    change (taxa_of (abs_w w) (m_ns (abs_m s mm))) with (otaxa_of w (om_ns mm)).
    unfold o_new_sequence, new_sequence. cbn [abs_m m_rows]. rewrite ahas_deref.
    destruct (ahas t (om_rows mm)); [reflexivity|]. destruct (negb (memb t _)); [reflexivity|].
    cbn [alloc lift fst snd]. f_equal.
    destruct (sgs w m mm S H) as [_ [_ [B _]]]. cbn [fst snd] in B.
    change (mkS ((s_next s, vals) :: s_heap s) (s_next s + 1)) with (fst (alloc s vals)).
    rewrite (abs_oupd w m mm _ _ S H); [|apply (good2_put _ _ _ _ _ t vals (sgs2 w m mm S H))].
    f_equal. unfold abs_m, oset_rows, set_rows. cbn [om_ns om_label om_rows om_subs m_ns m_label m_rows m_subs]. f_equal.
    rewrite deref_aput, (deref_alloc s vals _ B). f_equal. apply (hget_alloc_new s vals).
  - (* SetItem *)
    destruct (aget m (ow_ms w)) as [mm|] eqn:H; cbn [option_map]; [|reflexivity].
    change (taxa_of (abs_w w) (m_ns (abs_m s mm))) with (otaxa_of w (om_ns mm)).
    unfold o_setitem_vals, setitem. destruct (resolve_key _ k) as [t| |]; try reflexivity.
    destruct (negb (memb t _)); [reflexivity|].
    cbn [alloc olift lift fst snd]. f_equal.
    destruct (sgs w m mm S H) as [_ [_ [B _]]]. cbn [fst snd] in B.
    change (mkS ((s_next s, vals) :: s_heap s) (s_next s + 1)) with (fst (alloc s vals)).
    rewrite (abs_oupd w m mm _ _ S H); [|apply (good2_put _ _ _ _ _ t vals (sgs2 w m mm S H))].
    f_equal. unfold abs_m, oset_rows, set_rows. cbn [om_ns om_label om_rows om_subs m_ns m_label m_rows m_subs]. f_equal.
    rewrite deref_aput, (deref_alloc s vals _ B). f_equal. apply (hget_alloc_new s vals).
  - (* GetItem *)
    destruct (aget m (ow_ms w)) as [mm|] eqn:H; cbn [option_map]; [|reflexivity].
    change (taxa_of (abs_w w) (m_ns (abs_m s mm))) with (otaxa_of w (om_ns mm)).
    unfold o_getitem, getitem. destruct (resolve_key _ k) as [t| |]; try reflexivity.
    cbn [abs_m m_rows]. rewrite aget_deref. destruct (aget t (om_rows mm)) as [r|] eqn:A; cbn [option_map].
    + cbn [fst snd]. f_equal. rewrite (abs_oupd w m mm mm s S H (sgs2 w m mm S H)). reflexivity.
    + unfold o_new_sequence, new_sequence. cbn [abs_m m_rows]. rewrite ahas_deref. unfold ahas. rewrite A.
      destruct (negb (memb t _)); [reflexivity|].
      cbn [alloc fst snd].
      destruct (sgs w m mm S H) as [_ [_ [B _]]]. cbn [fst snd] in B.
      change (mkS ((s_next s, []) :: s_heap s) (s_next s + 1)) with (fst (alloc s [])).
      replace (hget (fst (alloc s [])) (s_next s)) with (@nil cell) by (symmetry; apply (hget_alloc_new s [])).
      cbn [fst snd]. f_equal.
      rewrite (abs_oupd w m mm _ _ S H); [|apply (good2_put _ _ _ _ _ t [] (sgs2 w m mm S H))].
      f_equal. unfold abs_m, oset_rows, set_rows. cbn [om_ns om_label om_rows om_subs m_ns m_label m_rows m_subs]. f_equal.
      rewrite deref_aput, (deref_alloc s [] _ B). f_equal. apply (hget_alloc_new s []).
  - (* NewSubset *)
    destruct (aget m (ow_ms w)) as [mm|] eqn:H; cbn [option_map]; [|reflexivity].
    unfold o_new_character_subset, new_character_subset. cbn [abs_m m_subs].
    destruct (has_key lower l (om_subs mm)); [reflexivity|]. cbn [lift fst snd]. f_equal.
    rewrite (abs_oupd w m mm _ s S H); [reflexivity|]. apply (sgs2 w m mm S H).
Qed.

End L.
