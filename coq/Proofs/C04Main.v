(* C04: the distances equal their split-set definitions and satisfy the metric axioms *)
From Coq Require Import ZArith List Bool Lia Permutation.
From DV Require Import Model.PyPrims Model.Tree Model.C04Model Proofs.C04Lists Proofs.C04Loops Proofs.C04Enc.
Import ListNotations.
Open Scope Z_scope.

(* ------------------------------------------------------------------------------------------ *)
(* the client-level functions (two fresh trees) in pure form *)

Lemma fresh_struct ns s : ts_struct (fresh ns s) = s.
Proof. destruct s. reflexivity. Qed.

Lemma world2_get0 acc s1 s2 : get_t (world2 acc s1 s2) 0 = Ok (fresh 0 s1).
Proof. reflexivity. Qed.
Lemma world2_get1 acc s1 s2 : get_t (world2 acc s1 s2) 1 = Ok (fresh 0 s2).
Proof. reflexivity. Qed.

Lemma fpfn_pure acc s1 s2 :
  taxa_known acc (fst s1) = true -> taxa_known acc (fst s2) = true ->
  frozen_ok acc s1 -> frozen_ok acc s2 ->
  fpfn acc s1 s2 = Ok (diff_count (splits acc s2) (splits acc s1), diff_count (splits acc s1) (splits acc s2)).
Proof.
  intros K1 K2 F1 F2. unfold fpfn.
  rewrite (fpfn_fresh (world2 acc s1 s2) 0 1 (fresh 0 s1) (fresh 0 s2)); try reflexivity;
    try (rewrite ?fresh_struct; assumption); try discriminate.
  cbn [fst w_acc world2]. rewrite !fresh_struct. reflexivity.
Qed.

Lemma rf_pure acc s1 s2 :
  taxa_known acc (fst s1) = true -> taxa_known acc (fst s2) = true ->
  frozen_ok acc s1 -> frozen_ok acc s2 ->
  rf acc s1 s2 = Ok (diff_count (splits acc s2) (splits acc s1) + diff_count (splits acc s1) (splits acc s2)).
Proof.
  intros K1 K2 F1 F2. unfold rf.
  rewrite (symdiff_fresh (world2 acc s1 s2) 0 1 (fresh 0 s1) (fresh 0 s2)); try reflexivity;
    try (rewrite ?fresh_struct; assumption); try discriminate.
  cbn [fst w_acc world2]. rewrite !fresh_struct. reflexivity.
Qed.

Lemma missing_pure acc s1 s2 :
  taxa_known acc (fst s1) = true -> taxa_known acc (fst s2) = true ->
  missing acc s1 s2 = Ok (filter (fun m => negb (memz m (splits acc s2))) (splits acc s1)).
Proof.
  intros K1 K2. unfold missing.
  rewrite (missing_fresh (world2 acc s1 s2) 0 1 (fresh 0 s1) (fresh 0 s2)); try reflexivity;
    try (rewrite ?fresh_struct; assumption); try discriminate.
  cbn [fst w_acc world2]. rewrite !fresh_struct. reflexivity.
Qed.

Lemma wf_fresh acc s : wf acc s -> wf acc (ts_struct (fresh 0 s)).
Proof. rewrite fresh_struct. tauto. Qed.

Lemma wrf_pure p acc s1 s2 :
  wf acc s1 -> wf acc s2 ->
  wrf p acc s1 s2 = match ld_pure p acc s1 s2 with Ok l => Ok (sum_abs l) | Err e => Err e | OutOfFuel => OutOfFuel end.
Proof.
  intros W1 W2. unfold wrf, do_wrf.
  rewrite (length_diffs_fresh p (world2 acc s1 s2) 0 1 (fresh 0 s1) (fresh 0 s2));
    try reflexivity; try discriminate; try (apply wf_fresh; assumption).
  cbn [w_acc world2]. rewrite !fresh_struct. destruct (ld_pure p acc s1 s2); reflexivity.
Qed.

Lemma euclid_pure p acc s1 s2 :
  wf acc s1 -> wf acc s2 ->
  euclid_sq p acc s1 s2 = match ld_pure p acc s1 s2 with Ok l => Ok (sum_sq l) | Err e => Err e | OutOfFuel => OutOfFuel end.
Proof.
  intros W1 W2. unfold euclid_sq, do_euclid_sq.
  rewrite (length_diffs_fresh p (world2 acc s1 s2) 0 1 (fresh 0 s1) (fresh 0 s2));
    try reflexivity; try discriminate; try (apply wf_fresh; assumption).
  cbn [w_acc world2]. rewrite !fresh_struct. destruct (ld_pure p acc s1 s2); reflexivity.
Qed.

(* ------------------------------------------------------------------------------------------ *)
(* unweighted: cardinalities of the one-sided differences *)

Lemma fp_fn_are_one_sided_l acc s1 s2 S1 S2 :
  taxa_known acc (fst s1) = true -> taxa_known acc (fst s2) = true ->
  lmask acc (fst (normalise s1)) <> 0 -> lmask acc (fst (normalise s2)) <> 0 ->
  NoDup S1 -> NoDup S2 ->
  (forall m, In m S1 <-> In m (splits acc s1)) -> (forall m, In m S2 <-> In m (splits acc s2)) ->
  fpfn acc s1 s2 = Ok (Z.of_nat (length (filter (fun m => negb (memz m S1)) S2)),
                      Z.of_nat (length (filter (fun m => negb (memz m S2)) S1))).
Proof.
  intros K1 K2 F1 F2 N1 N2 E1 E2. rewrite (fpfn_pure acc s1 s2 K1 K2 F1 F2).
  rewrite (diff_count_spec (splits acc s2) (splits acc s1) S2 S1 N2 E2 E1).
  rewrite (diff_count_spec (splits acc s1) (splits acc s2) S1 S2 N1 E1 E2). reflexivity.
Qed.

Lemma rf_is_symdiff_card_l acc s1 s2 S1 S2 :
  taxa_known acc (fst s1) = true -> taxa_known acc (fst s2) = true ->
  lmask acc (fst (normalise s1)) <> 0 -> lmask acc (fst (normalise s2)) <> 0 ->
  NoDup S1 -> NoDup S2 ->
  (forall m, In m S1 <-> In m (splits acc s1)) -> (forall m, In m S2 <-> In m (splits acc s2)) ->
  rf acc s1 s2 = Ok (Z.of_nat (length (filter (fun m => negb (memz m S2)) S1))
                     + Z.of_nat (length (filter (fun m => negb (memz m S1)) S2))).
Proof.
  intros K1 K2 F1 F2 N1 N2 E1 E2. rewrite (rf_pure acc s1 s2 K1 K2 F1 F2).
  rewrite (diff_count_spec (splits acc s2) (splits acc s1) S2 S1 N2 E2 E1).
  rewrite (diff_count_spec (splits acc s1) (splits acc s2) S1 S2 N1 E1 E2). f_equal. lia.
Qed.

(* indicator sums *)
Definition ind (b : bool) : Z := if b then 1 else 0.

Lemma length_filter_ind {A} (f : A -> bool) l : Z.of_nat (length (filter f l)) = zsum (map (fun x => ind (f x)) l).
Proof.
  induction l as [|x r IH]; [reflexivity|]. simpl. unfold zsum in *. simpl. rewrite <- IH.
  destruct (f x); cbn [length ind]; rewrite ?Nat2Z.inj_succ; lia.
Qed.

Lemma diff_count_ind a b U :
  NoDup U -> incl a U ->
  diff_count a b = zsum (map (fun x => ind (memz x a && negb (memz x b))) U).
Proof.
  intros HU Ha. unfold diff_count. rewrite length_filter_ind.
  rewrite (zsum_support (fun x => ind (memz x a && negb (memz x b))) (dedup a) U).
  - apply zsum_map_ext. intros x Hx. apply (proj1 (dedup_In x a)) in Hx. apply (proj2 (memz_In x a)) in Hx. rewrite Hx. reflexivity.
  - apply dedup_NoDup.
  - exact HU.
  - intros x Hx. apply Ha. apply dedup_In. exact Hx.
  - intros x _ Hn. rewrite dedup_In in Hn. apply memz_false in Hn. rewrite Hn. reflexivity.
Qed.

Definition sd (a b : list Z) : Z := diff_count b a + diff_count a b.

Lemma sd_ind a b U :
  NoDup U -> incl a U -> incl b U ->
  sd a b = zsum (map (fun x => ind (xorb (memz x a) (memz x b))) U).
Proof.
  intros HU Ha Hb. unfold sd. rewrite (diff_count_ind b a U HU Hb), (diff_count_ind a b U HU Ha).
  rewrite <- zsum_map_add. apply zsum_map_ext. intros x _.
  destruct (memz x a), (memz x b); reflexivity.
Qed.

Lemma sd_sym a b : sd a b = sd b a.
Proof. unfold sd. lia. Qed.

Lemma sd_self a : sd a a = 0.
Proof.
  rewrite (sd_ind a a (dedup a)).
  - apply zsum_map_zero. intros x _. rewrite xorb_nilpotent. reflexivity.
  - apply dedup_NoDup.
  - intros x Hx. apply dedup_In. exact Hx.
  - intros x Hx. apply dedup_In. exact Hx.
Qed.

Lemma sd_triangle a b c : sd a c <= sd a b + sd b c.
Proof.
  set (U := dedup (a ++ b ++ c)).
  assert (HU : NoDup U) by apply dedup_NoDup.
  assert (Ia : incl a U) by (intros x Hx; apply dedup_In; rewrite !in_app_iff; tauto).
  assert (Ib : incl b U) by (intros x Hx; apply dedup_In; rewrite !in_app_iff; tauto).
  assert (Ic : incl c U) by (intros x Hx; apply dedup_In; rewrite !in_app_iff; tauto).
  rewrite (sd_ind a c U HU Ia Ic), (sd_ind a b U HU Ia Ib), (sd_ind b c U HU Ib Ic).
  rewrite <- zsum_map_add. apply zsum_map_le. intros x _.
  destruct (memz x a), (memz x b), (memz x c); simpl; lia.
Qed.

Lemma sd_zero_same_set a b : (forall x, In x a <-> In x b) -> sd a b = 0.
Proof.
  intro H. rewrite (sd_ind a b (dedup (a ++ b))).
  - apply zsum_map_zero. intros x _.
    assert (E : memz x a = memz x b).
    { destruct (memz x a) eqn:E1, (memz x b) eqn:E2; try reflexivity.
      - apply memz_In in E1. apply memz_false in E2. exfalso. apply E2, H, E1.
      - apply memz_In in E2. apply memz_false in E1. exfalso. apply E1, H, E2. }
    rewrite E, xorb_nilpotent. reflexivity.
  - apply dedup_NoDup.
  - intros x Hx. apply dedup_In. rewrite in_app_iff. tauto.
  - intros x Hx. apply dedup_In. rewrite in_app_iff. tauto.
Qed.

Lemma rf_sd acc s1 s2 :
  taxa_known acc (fst s1) = true -> taxa_known acc (fst s2) = true ->
  frozen_ok acc s1 -> frozen_ok acc s2 ->
  rf acc s1 s2 = Ok (sd (splits acc s1) (splits acc s2)).
Proof. intros. rewrite rf_pure by assumption. reflexivity. Qed.

(* ------------------------------------------------------------------------------------------ *)
(* weighted: norms over the union *)

Definition kd (acc : acc_map) (s : struct) := dict_of (entries acc s).

Lemma ld_norm (h : Z -> Z -> Z) p acc s1 s2 l U :
  h 0 0 = 0 -> ld_pure p acc s1 s2 = Ok l ->
  NoDup U -> incl (splits acc s1) U -> incl (splits acc s2) U ->
  sum_h h l = zsum (map (fun k => h (val (kd acc s1) k) (val (kd acc s2) k)) U).
Proof.
  intros h0 H HU I1 I2. unfold ld_pure in H.
  apply (length_diffs_norm h p (kd acc s1) (kd acc s2) l U h0); try exact H; try exact HU; try apply dict_of_nodup.
  - intros k Hk. apply I1. unfold kd in Hk. apply (proj1 (dict_of_keys _ k)) in Hk. exact Hk.
  - intros k Hk. apply I2. unfold kd in Hk. apply (proj1 (dict_of_keys _ k)) in Hk. exact Hk.
Qed.

Lemma val_split_len acc s m : NoDup (splits acc s) -> val (kd acc s) m = split_len acc s m.
Proof.
  intro H. unfold kd. rewrite dict_of_id by exact H. unfold val, split_len, ov.
  destruct (zlookup m (entries acc s)) as [[[v|] r]|]; reflexivity.
Qed.

Lemma wrf_is_L1_l p acc s1 s2 v U :
  wf acc s1 -> wf acc s2 ->
  NoDup (splits acc s1) -> NoDup (splits acc s2) ->
  wrf p acc s1 s2 = Ok v ->
  NoDup U -> incl (splits acc s1) U -> incl (splits acc s2) U ->
  v = zsum (map (fun m => Z.abs (split_len acc s1 m - split_len acc s2 m)) U).
Proof.
  intros W1 W2 N1 N2 H HU I1 I2. rewrite (wrf_pure p acc s1 s2 W1 W2) in H.
  destruct (ld_pure p acc s1 s2) as [l| |] eqn:E; try discriminate. inversion H; subst.
  rewrite sum_abs_h. rewrite (ld_norm (fun a b => Z.abs (a - b)) p acc s1 s2 l U eq_refl E HU I1 I2).
  apply zsum_map_ext. intros m _. rewrite !val_split_len by assumption. reflexivity.
Qed.

Lemma euclid_is_L2_l p acc s1 s2 v U :
  wf acc s1 -> wf acc s2 ->
  NoDup (splits acc s1) -> NoDup (splits acc s2) ->
  euclid_sq p acc s1 s2 = Ok v ->
  NoDup U -> incl (splits acc s1) U -> incl (splits acc s2) U ->
  v = zsum (map (fun m => (split_len acc s1 m - split_len acc s2 m) * (split_len acc s1 m - split_len acc s2 m)) U).
Proof.
  intros W1 W2 N1 N2 H HU I1 I2. rewrite (euclid_pure p acc s1 s2 W1 W2) in H.
  destruct (ld_pure p acc s1 s2) as [l| |] eqn:E; try discriminate. inversion H; subst.
  rewrite sum_sq_h. rewrite (ld_norm (fun a b => (a - b) * (a - b)) p acc s1 s2 l U eq_refl E HU I1 I2).
  apply zsum_map_ext. intros m _. rewrite !val_split_len by assumption. reflexivity.
Qed.

(* general form (no assumption on colliding masks): per split the LAST post-order edge counts *)
Definition U3 (acc : acc_map) (s1 s2 s3 : struct) : list Z := dedup (splits acc s1 ++ splits acc s2 ++ splits acc s3).

Lemma U3_nodup acc s1 s2 s3 : NoDup (U3 acc s1 s2 s3).
Proof. apply dedup_NoDup. Qed.
Lemma U3_1 acc s1 s2 s3 : incl (splits acc s1) (U3 acc s1 s2 s3).
Proof. intros x Hx. apply dedup_In. rewrite !in_app_iff. tauto. Qed.
Lemma U3_2 acc s1 s2 s3 : incl (splits acc s2) (U3 acc s1 s2 s3).
Proof. intros x Hx. apply dedup_In. rewrite !in_app_iff. tauto. Qed.
Lemma U3_3 acc s1 s2 s3 : incl (splits acc s3) (U3 acc s1 s2 s3).
Proof. intros x Hx. apply dedup_In. rewrite !in_app_iff. tauto. Qed.

Lemma wrf_sym_l p acc s1 s2 v v' :
  wf acc s1 -> wf acc s2 -> wrf p acc s1 s2 = Ok v -> wrf p acc s2 s1 = Ok v' -> v = v'.
Proof.
  intros W1 W2 H H'. rewrite (wrf_pure p acc s1 s2 W1 W2) in H. rewrite (wrf_pure p acc s2 s1 W2 W1) in H'.
  destruct (ld_pure p acc s1 s2) as [l| |] eqn:E; try discriminate.
  destruct (ld_pure p acc s2 s1) as [l'| |] eqn:E'; try discriminate.
  inversion H; inversion H'; subst. rewrite !sum_abs_h.
  rewrite (ld_norm _ p acc s1 s2 l (U3 acc s1 s2 s2) eq_refl E (U3_nodup _ _ _ _) (U3_1 _ _ _ _) (U3_2 _ _ _ _)).
  rewrite (ld_norm _ p acc s2 s1 l' (U3 acc s1 s2 s2) eq_refl E' (U3_nodup _ _ _ _) (U3_2 _ _ _ _) (U3_1 _ _ _ _)).
  apply zsum_map_ext. intros m _. lia.
Qed.

Lemma euclid_sq_sym_l p acc s1 s2 v v' :
  wf acc s1 -> wf acc s2 -> euclid_sq p acc s1 s2 = Ok v -> euclid_sq p acc s2 s1 = Ok v' -> v = v'.
Proof.
  intros W1 W2 H H'. rewrite (euclid_pure p acc s1 s2 W1 W2) in H. rewrite (euclid_pure p acc s2 s1 W2 W1) in H'.
  destruct (ld_pure p acc s1 s2) as [l| |] eqn:E; try discriminate.
  destruct (ld_pure p acc s2 s1) as [l'| |] eqn:E'; try discriminate.
  inversion H; inversion H'; subst. rewrite !sum_sq_h.
  rewrite (ld_norm _ p acc s1 s2 l (U3 acc s1 s2 s2) eq_refl E (U3_nodup _ _ _ _) (U3_1 _ _ _ _) (U3_2 _ _ _ _)).
  rewrite (ld_norm _ p acc s2 s1 l' (U3 acc s1 s2 s2) eq_refl E' (U3_nodup _ _ _ _) (U3_2 _ _ _ _) (U3_1 _ _ _ _)).
  apply zsum_map_ext. intros m _. lia.
Qed.

Lemma wrf_triangle_l p acc s1 s2 s3 d13 d12 d23 :
  wf acc s1 -> wf acc s2 -> wf acc s3 ->
  wrf p acc s1 s3 = Ok d13 -> wrf p acc s1 s2 = Ok d12 -> wrf p acc s2 s3 = Ok d23 ->
  d13 <= d12 + d23.
Proof.
  intros W1 W2 W3 H13 H12 H23.
  rewrite (wrf_pure p acc s1 s3 W1 W3) in H13. rewrite (wrf_pure p acc s1 s2 W1 W2) in H12.
  rewrite (wrf_pure p acc s2 s3 W2 W3) in H23.
  destruct (ld_pure p acc s1 s3) as [l13| |] eqn:E13; try discriminate.
  destruct (ld_pure p acc s1 s2) as [l12| |] eqn:E12; try discriminate.
  destruct (ld_pure p acc s2 s3) as [l23| |] eqn:E23; try discriminate.
  inversion H13; inversion H12; inversion H23; subst. rewrite !sum_abs_h.
  rewrite (ld_norm _ p acc s1 s3 l13 (U3 acc s1 s2 s3) eq_refl E13 (U3_nodup _ _ _ _) (U3_1 _ _ _ _) (U3_3 _ _ _ _)).
  rewrite (ld_norm _ p acc s1 s2 l12 (U3 acc s1 s2 s3) eq_refl E12 (U3_nodup _ _ _ _) (U3_1 _ _ _ _) (U3_2 _ _ _ _)).
  rewrite (ld_norm _ p acc s2 s3 l23 (U3 acc s1 s2 s3) eq_refl E23 (U3_nodup _ _ _ _) (U3_2 _ _ _ _) (U3_3 _ _ _ _)).
  rewrite <- zsum_map_add. apply zsum_map_le. intros m _. lia.
Qed.

Lemma wrf_zero_l p acc s1 s2 v :
  wf acc s1 -> wf acc s2 ->
  (forall m, val (kd acc s1) m = val (kd acc s2) m) ->
  wrf p acc s1 s2 = Ok v -> v = 0.
Proof.
  intros W1 W2 Hv H. rewrite (wrf_pure p acc s1 s2 W1 W2) in H.
  destruct (ld_pure p acc s1 s2) as [l| |] eqn:E; try discriminate. inversion H; subst. rewrite sum_abs_h.
  rewrite (ld_norm _ p acc s1 s2 l (U3 acc s1 s2 s2) eq_refl E (U3_nodup _ _ _ _) (U3_1 _ _ _ _) (U3_2 _ _ _ _)).
  apply zsum_map_zero. intros m _. rewrite Hv. lia.
Qed.

Lemma euclid_zero_l p acc s1 s2 v :
  wf acc s1 -> wf acc s2 ->
  (forall m, val (kd acc s1) m = val (kd acc s2) m) ->
  euclid_sq p acc s1 s2 = Ok v -> v = 0.
Proof.
  intros W1 W2 Hv H. rewrite (euclid_pure p acc s1 s2 W1 W2) in H.
  destruct (ld_pure p acc s1 s2) as [l| |] eqn:E; try discriminate. inversion H; subst. rewrite sum_sq_h.
  rewrite (ld_norm _ p acc s1 s2 l (U3 acc s1 s2 s2) eq_refl E (U3_nodup _ _ _ _) (U3_1 _ _ _ _) (U3_2 _ _ _ _)).
  apply zsum_map_zero. intros m _. rewrite Hv. lia.
Qed.

(* ------------------------------------------------------------------------------------------ *)
(* Minkowski without square roots: for A = |x-z|^2, B = |x-y|^2, C = |y-z|^2
   sqrt A <= sqrt B + sqrt C  <=>  A - B - C <= 0 \/ (A - B - C)^2 <= 4 B C *)

Lemma amgm_aux X Y T : 0 <= X -> 0 <= Y -> T * T <= X * Y -> 2 * T <= X + Y.
Proof.
  intros HX HY H. destruct (Z_le_gt_dec (2 * T) (X + Y)) as [|G]; [assumption|exfalso].
  assert (A1 : (X + Y) * (X + Y) < (2 * T) * (2 * T)) by (apply Z.mul_lt_mono_nonneg; lia).
  assert (A2 : (X + Y) * (X + Y) = (X - Y) * (X - Y) + 4 * (X * Y)) by ring.
  assert (A3 : 0 <= (X - Y) * (X - Y)) by apply Z.square_nonneg.
  assert (A4 : (2 * T) * (2 * T) = 4 * (T * T)) by ring. lia.
Qed.

Lemma cauchy_schwarz {A} (u v : A -> Z) l :
  zsum (map (fun x => u x * v x) l) * zsum (map (fun x => u x * v x) l)
  <= zsum (map (fun x => u x * u x) l) * zsum (map (fun x => v x * v x) l).
Proof.
  induction l as [|x r IH]; [simpl; lia|].
  unfold zsum in *. simpl.
  set (S := fold_right Z.add 0 (map (fun x => u x * v x) r)) in *.
  set (P := fold_right Z.add 0 (map (fun x => u x * u x) r)) in *.
  set (Q := fold_right Z.add 0 (map (fun x => v x * v x) r)) in *.
  assert (HP : 0 <= P) by (apply (zsum_map_nonneg (fun x => u x * u x) r); intro; nia).
  assert (HQ : 0 <= Q) by (apply (zsum_map_nonneg (fun x => v x * v x) r); intro; nia).
  set (a := u x). set (b := v x).
  assert (Ha : 0 <= a * a) by nia. assert (Hb : 0 <= b * b) by nia.
  assert (HX : 0 <= a * a * Q) by (apply Z.mul_nonneg_nonneg; assumption).
  assert (HY : 0 <= b * b * P) by (apply Z.mul_nonneg_nonneg; assumption).
  assert (HT : (a * b * S) * (a * b * S) <= (a * a * Q) * (b * b * P)).
  { replace ((a * b * S) * (a * b * S)) with ((a * a) * (b * b) * (S * S)) by ring.
    replace ((a * a * Q) * (b * b * P)) with ((a * a) * (b * b) * (P * Q)) by ring.
    apply Z.mul_le_mono_nonneg_l; [apply Z.mul_nonneg_nonneg; assumption | exact IH]. }
  pose proof (amgm_aux _ _ _ HX HY HT) as K.
  replace ((a * b + S) * (a * b + S)) with (a * a * (b * b) + 2 * (a * b * S) + S * S) by ring.
  replace ((a * a + P) * (b * b + Q)) with (a * a * (b * b) + (a * a * Q + b * b * P) + P * Q) by ring.
  lia.
Qed.

Lemma minkowski_sq {A} (x y z : A -> Z) l :
  let Aa := zsum (map (fun k => (x k - z k) * (x k - z k)) l) in
  let B := zsum (map (fun k => (x k - y k) * (x k - y k)) l) in
  let C := zsum (map (fun k => (y k - z k) * (y k - z k)) l) in
  Aa - B - C <= 0 \/ (Aa - B - C) * (Aa - B - C) <= 4 * B * C.
Proof.
  intros Aa B C. right.
  assert (E : Aa - B - C = 2 * zsum (map (fun k => (x k - y k) * (y k - z k)) l)).
  { unfold Aa, B, C. clear. induction l as [|k r IH]; unfold zsum in *; cbn [map fold_right]; [reflexivity|].
    assert (P : forall a b c, (a - c) * (a - c) - (a - b) * (a - b) - (b - c) * (b - c) = 2 * ((a - b) * (b - c)))
      by (intros; ring).
    specialize (P (x k) (y k) (z k)). lia. }
  rewrite E.
  pose proof (cauchy_schwarz (fun k => x k - y k) (fun k => y k - z k) l) as CS.
  set (S := zsum (map (fun k => (x k - y k) * (y k - z k)) l)) in *.
  assert (CS' : S * S <= B * C) by exact CS.
  replace (2 * S * (2 * S)) with (4 * (S * S)) by ring. lia.
Qed.

Lemma euclid_triangle_l p acc s1 s2 s3 d13 d12 d23 :
  wf acc s1 -> wf acc s2 -> wf acc s3 ->
  euclid_sq p acc s1 s3 = Ok d13 -> euclid_sq p acc s1 s2 = Ok d12 -> euclid_sq p acc s2 s3 = Ok d23 ->
  d13 - d12 - d23 <= 0 \/ (d13 - d12 - d23) * (d13 - d12 - d23) <= 4 * d12 * d23.
Proof.
  intros W1 W2 W3 H13 H12 H23.
  rewrite (euclid_pure p acc s1 s3 W1 W3) in H13. rewrite (euclid_pure p acc s1 s2 W1 W2) in H12.
  rewrite (euclid_pure p acc s2 s3 W2 W3) in H23.
  destruct (ld_pure p acc s1 s3) as [l13| |] eqn:E13; try discriminate.
  destruct (ld_pure p acc s1 s2) as [l12| |] eqn:E12; try discriminate.
  destruct (ld_pure p acc s2 s3) as [l23| |] eqn:E23; try discriminate.
  inversion H13; inversion H12; inversion H23; subst. rewrite !sum_sq_h.
  rewrite (ld_norm _ p acc s1 s3 l13 (U3 acc s1 s2 s3) eq_refl E13 (U3_nodup _ _ _ _) (U3_1 _ _ _ _) (U3_3 _ _ _ _)).
  rewrite (ld_norm _ p acc s1 s2 l12 (U3 acc s1 s2 s3) eq_refl E12 (U3_nodup _ _ _ _) (U3_1 _ _ _ _) (U3_2 _ _ _ _)).
  rewrite (ld_norm _ p acc s2 s3 l23 (U3 acc s1 s2 s3) eq_refl E23 (U3_nodup _ _ _ _) (U3_2 _ _ _ _) (U3_3 _ _ _ _)).
  apply (minkowski_sq (val (kd acc s1)) (val (kd acc s2)) (val (kd acc s3)) (U3 acc s1 s2 s3)).
Qed.

(* ------------------------------------------------------------------------------------------ *)
(* definedness *)

Lemma wrf_defined_iff p acc s1 s2 :
  wf acc s1 -> wf acc s2 ->
  ((exists v, wrf p acc s1 s2 = Ok v) <-> is_ok (ld_pure p acc s1 s2) = true).
Proof.
  intros W1 W2. rewrite (wrf_pure p acc s1 s2 W1 W2).
  destruct (ld_pure p acc s1 s2); simpl; split; try discriminate; try (intros [v H]; discriminate); eauto.
Qed.

Lemma euclid_defined_iff p acc s1 s2 :
  wf acc s1 -> wf acc s2 ->
  ((exists v, euclid_sq p acc s1 s2 = Ok v) <-> is_ok (ld_pure p acc s1 s2) = true).
Proof.
  intros W1 W2. rewrite (euclid_pure p acc s1 s2 W1 W2).
  destruct (ld_pure p acc s1 s2); simpl; split; try discriminate; try (intros [v H]; discriminate); eauto.
Qed.

Lemma ld_pure_sym_defined p acc s1 s2 :
  p <> Current -> is_ok (ld_pure p acc s1 s2) = is_ok (ld_pure p acc s2 s1).
Proof. intro Hp. unfold ld_pure. apply length_diffs_defined_sym; [exact Hp| |]; apply dict_of_nodup. Qed.

Lemma defined_sym_l p acc s1 s2 :
  p <> Current -> wf acc s1 -> wf acc s2 ->
  ((exists v, wrf p acc s1 s2 = Ok v) <-> (exists v, wrf p acc s2 s1 = Ok v)) /\
  ((exists v, euclid_sq p acc s1 s2 = Ok v) <-> (exists v, euclid_sq p acc s2 s1 = Ok v)).
Proof.
  intros Hp W1 W2.
  rewrite (wrf_defined_iff p acc s1 s2 W1 W2), (wrf_defined_iff p acc s2 s1 W2 W1).
  rewrite (euclid_defined_iff p acc s1 s2 W1 W2), (euclid_defined_iff p acc s2 s1 W2 W1).
  rewrite (ld_pure_sym_defined p acc s1 s2 Hp). tauto.
Qed.

(* when it is not defined it is a ValueError, never anything else *)
Lemma wrf_only_value_error p acc s1 s2 :
  wf acc s1 -> wf acc s2 ->
  (exists v, wrf p acc s1 s2 = Ok v) \/ wrf p acc s1 s2 = Err ValueErr.
Proof.
  intros W1 W2. rewrite (wrf_pure p acc s1 s2 W1 W2). unfold ld_pure.
  destruct (length_diffs p _ _ (dict_of (entries acc s1)) (dict_of (entries acc s2))) as [l|e|] eqn:E.
  - left. eauto.
  - right. apply length_diffs_err in E. subst. reflexivity.
  - exfalso. eapply length_diffs_no_fuel, E.
Qed.

(* the current code: exactly the shared splits whose edge on the SECOND tree has no length (and is
   not the seed edge) make it refuse *)
Lemma wrf_current_defined acc s1 s2 :
  wf acc s1 -> wf acc s2 ->
  ((exists v, wrf Current acc s1 s2 = Ok v) <->
   (forall m x, In (m, x) (kd acc s2) -> In m (splits acc s1) -> refusable x = false)).
Proof.
  intros W1 W2. rewrite (wrf_defined_iff Current acc s1 s2 W1 W2). unfold ld_pure.
  rewrite (length_diffs_defined Current _ _ (dict_of_nodup _) (dict_of_nodup _)). fold (kd acc s1) (kd acc s2). split.
  - intros [_ Hb] m x Hin Hm. specialize (Hb (m, x) Hin). cbn [fst snd] in Hb.
    assert (Em : memz m (keys (kd acc s1)) = true).
    { apply memz_In. unfold kd. apply dict_of_keys. exact Hm. }
    rewrite Em in Hb. unfold sok in Hb. rewrite strict_ok in Hb. destruct (refusable x); [discriminate|reflexivity].
  - intro H. split.
    + intros kx _. unfold lok. rewrite lenient_ok. reflexivity.
    + intros [m x] Hin. cbn [fst snd]. destruct (memz m (keys (kd acc s1))) eqn:Em.
      * unfold sok. rewrite strict_ok. apply (proj1 (memz_In _ _)) in Em. unfold kd in Em. apply (proj1 (dict_of_keys _ m)) in Em.
        rewrite (H m x Hin Em). reflexivity.
      * unfold lok. rewrite lenient_ok. reflexivity.
Qed.

(* ------------------------------------------------------------------------------------------ *)
(* namespaces *)

Lemma namespace_mismatch_l p w a b sa sb upd :
  get_t w a = Ok sa -> get_t w b = Ok sb -> ts_ns sa <> ts_ns sb ->
  do_fpfn w a b upd = (Err ValueErr, w) /\
  do_symdiff w a b upd = (Err ValueErr, w) /\
  do_missing w a b upd = (Err ValueErr, w) /\
  do_wrf p w a b upd = (Err ValueErr, w) /\
  do_euclid_sq p w a b upd = (Err ValueErr, w).
Proof.
  intros Ha Hb Hns.
  unfold do_symdiff, do_wrf, do_euclid_sq, do_length_diffs, do_fpfn, do_missing.
  rewrite (prologue_ns_mismatch w a b sa sb upd Ha Hb Hns). repeat split; reflexivity.
Qed.

(* ------------------------------------------------------------------------------------------ *)
(* default arguments: whatever was cached, the result is the one of two fresh trees with the
   current structures, and the trees are left normalised *)

Lemma structs_after w a b sa sb sa' sb' :
  a <> b -> get_t w a = Ok sa -> get_t w b = Ok sb ->
  let w' := set_t (set_t w a sa') b sb' in
  get_t w' a = Ok sa' /\ get_t w' b = Ok sb' /\ (forall c, c <> a -> c <> b -> get_t w' c = get_t w c).
Proof.
  intros Hab Ha Hb w'. unfold w'. repeat split.
  - rewrite get_set_other by congruence. eapply get_set_same, Ha.
  - eapply get_set_same. rewrite get_set_other by exact Hab. exact Hb.
  - intros c Ca Cb. rewrite !get_set_other by congruence. reflexivity.
Qed.

Lemma default_args_fresh_l p w a b sa sb :
  a <> b -> get_t w a = Ok sa -> get_t w b = Ok sb -> ts_ns sa = ts_ns sb ->
  wf (w_acc w) (ts_struct sa) -> wf (w_acc w) (ts_struct sb) ->
  let acc := w_acc w in
  let s1 := ts_struct sa in
  let s2 := ts_struct sb in
  fst (do_fpfn w a b false) = fpfn acc s1 s2 /\
  fst (do_symdiff w a b false) = rf acc s1 s2 /\
  fst (do_missing w a b false) = missing acc s1 s2 /\
  fst (do_wrf p w a b false) = wrf p acc s1 s2 /\
  fst (do_euclid_sq p w a b false) = euclid_sq p acc s1 s2 /\
  (forall w', w' = snd (do_fpfn w a b false) \/ w' = snd (do_symdiff w a b false) \/ w' = snd (do_missing w a b false)
              \/ w' = snd (do_wrf p w a b false) \/ w' = snd (do_euclid_sq p w a b false) ->
     (exists sa' sb', get_t w' a = Ok sa' /\ get_t w' b = Ok sb' /\
        ts_struct sa' = normalise s1 /\ ts_struct sb' = normalise s2) /\
     (forall c, c <> a -> c <> b -> get_t w' c = get_t w c)).
Proof.
  intros Hab Ha Hb Hns W1 W2 acc s1 s2.
  destruct W1 as [K1 [F1 I1]] eqn:EW1. destruct W2 as [K2 [F2 I2]] eqn:EW2.
  assert (W1' : wf acc s1) by (repeat split; assumption).
  assert (W2' : wf acc s2) by (repeat split; assumption).
  rewrite (fpfn_fresh w a b sa sb Hab Ha Hb Hns K1 K2 F1 F2).
  unfold do_symdiff, do_wrf, do_euclid_sq.
  rewrite (fpfn_fresh w a b sa sb Hab Ha Hb Hns K1 K2 F1 F2).
  rewrite (missing_fresh w a b sa sb Hab Ha Hb Hns K1 K2).
  rewrite (length_diffs_fresh p w a b sa sb Hab Ha Hb Hns W1' W2').
  cbn [wbind fst snd]. fold acc s1 s2.
  rewrite (fpfn_pure acc s1 s2 K1 K2 F1 F2), (rf_pure acc s1 s2 K1 K2 F1 F2), (missing_pure acc s1 s2 K1 K2).
  rewrite (wrf_pure p acc s1 s2 W1' W2'), (euclid_pure p acc s1 s2 W1' W2').
  repeat split; try reflexivity.
  - destruct (ld_pure p acc s1 s2); reflexivity.
  - destruct (ld_pure p acc s1 s2); reflexivity.
  - assert (G : w' = set_t (set_t w a (enc_state acc sa)) b (enc_state acc sb)
                \/ w' = set_t (set_t w a (bmap_state acc sa)) b (bmap_state acc sb)).
    { destruct H as [H|[H|[H|[H|H]]]]; try (left; exact H);
        destruct (ld_pure p acc s1 s2); right; exact H. }
    destruct G as [G|G]; subst w'.
    + destruct (structs_after w a b sa sb (enc_state acc sa) (enc_state acc sb) Hab Ha Hb) as [G1 [G2 _]].
      exists (enc_state acc sa), (enc_state acc sb). repeat split; try assumption; apply enc_state_struct.
    + destruct (structs_after w a b sa sb (bmap_state acc sa) (bmap_state acc sb) Hab Ha Hb) as [G1 [G2 _]].
      exists (bmap_state acc sa), (bmap_state acc sb). repeat split; try assumption; apply bmap_state_struct.
  - intros c Ca Cb.
    assert (G : w' = set_t (set_t w a (enc_state acc sa)) b (enc_state acc sb)
                \/ w' = set_t (set_t w a (bmap_state acc sa)) b (bmap_state acc sb)).
    { destruct H as [H|[H|[H|[H|H]]]]; try (left; exact H);
        destruct (ld_pure p acc s1 s2); right; exact H. }
    destruct G as [G|G]; subst w'; rewrite !get_set_other by congruence; reflexivity.
Qed.
