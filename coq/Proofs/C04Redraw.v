(* C04: re-drawings (children reordered at any nodes) leave every distance unchanged, as long as
   encode_bipartitions() does not have to collapse a basal bifurcation *)
From Coq Require Import ZArith List Bool Lia Permutation Relations.
From DV Require Import Model.PyPrims Model.Tree Model.C04Model Proofs.C04Lists Proofs.C04Loops Proofs.C04Enc Proofs.C04Main.
Import ListNotations.
Open Scope Z_scope.

(* one reordering step: the children of one node (anywhere in the tree) are permuted *)
Inductive redraw1 : tree -> tree -> Prop :=
| R_here i x l e ks ks' : Permutation ks ks' -> redraw1 (T i x l e ks) (T i x l e ks')
| R_below i x l e pre k k' post :
    redraw1 k k' -> redraw1 (T i x l e (pre ++ k :: post)) (T i x l e (pre ++ k' :: post)).

(* a re-drawing: any number of steps *)
Definition redraw : tree -> tree -> Prop := clos_refl_trans tree redraw1.

(* ------------------------------------------------------------------------------------------ *)

Definition body (acc : acc_map) (t : tree) : list (Z * (Z * (option Z * bool))) :=
  flat_map (pnodes acc false) (t_kids t).

Lemma pnodes_body acc b t : pnodes acc b t = body acc t ++ [(t_id t, (lmask acc t, (t_len t, b)))].
Proof. destruct t. reflexivity. Qed.

Lemma suppress_unfold i x l e ks :
  suppress (T i x l e ks)
  = match ks with
    | [k] => set_len (suppress k) (merge_len e (t_len (suppress k)))
    | _ => T i x l e (map suppress ks)
    end.
Proof. destruct ks as [|k [|k2 r]]; reflexivity. Qed.

Lemma lmask_set_len acc t e : lmask acc (set_len t e) = lmask acc t.
Proof. destruct t as [i x l e0 [|k r]]; reflexivity. Qed.

Lemma body_set_len acc t e : body acc (set_len t e) = body acc t.
Proof. destruct t. reflexivity. Qed.

Lemma id_set_len t e : t_id (set_len t e) = t_id t.
Proof. destruct t. reflexivity. Qed.

Lemma len_set_len t e : t_len (set_len t e) = e.
Proof. destruct t. reflexivity. Qed.

Lemma kids_set_len t e : t_kids (set_len t e) = t_kids t.
Proof. destruct t. reflexivity. Qed.

Definition lor_all (l : list Z) : Z := fold_right Z.lor 0 l.

Lemma lmask_node acc i x l e ks :
  ks <> [] -> lmask acc (T i x l e ks) = lor_all (map (lmask acc) ks).
Proof.
  intro H. destruct ks as [|k r]; [congruence|]. cbn [lmask]. unfold lor_all.
  generalize (k :: r). intro ks. induction ks as [|a b IH]; simpl; [reflexivity|]. rewrite IH. reflexivity.
Qed.

Lemma lor_all_perm l l' : Permutation l l' -> lor_all l = lor_all l'.
Proof.
  induction 1; unfold lor_all in *; simpl.
  - reflexivity.
  - rewrite IHPermutation. reflexivity.
  - rewrite !Z.lor_assoc, (Z.lor_comm y x). reflexivity.
  - congruence.
Qed.

(* what matters of a (sub)tree once unifurcations are suppressed *)
Record same_up_to_order (acc : acc_map) (a b : tree) : Prop := {
  so_id : t_id a = t_id b;
  so_len : t_len a = t_len b;
  so_mask : lmask acc a = lmask acc b;
  so_body : Permutation (body acc a) (body acc b)
}.

Lemma so_refl acc a : same_up_to_order acc a a.
Proof. constructor; try reflexivity. Qed.

Lemma so_pnodes acc b t t' : same_up_to_order acc t t' -> Permutation (pnodes acc b t) (pnodes acc b t').
Proof.
  intros [E1 E2 E3 E4]. rewrite !pnodes_body, E1, E2, E3. apply Permutation_app_tail. exact E4.
Qed.

Lemma so_set_len acc t t' e : same_up_to_order acc t t' -> same_up_to_order acc (set_len t e) (set_len t' e).
Proof.
  intros [E1 E2 E3 E4]. constructor.
  - rewrite !id_set_len. exact E1.
  - rewrite !len_set_len. reflexivity.
  - rewrite !lmask_set_len. exact E3.
  - rewrite !body_set_len. exact E4.
Qed.

Lemma Permutation_singleton_l {A} (a : A) l : Permutation [a] l -> l = [a].
Proof. intro H. apply Permutation_length_1_inv in H. exact H. Qed.

Lemma flat_map_perm {A B} (f : A -> list B) l l' : Permutation l l' -> Permutation (flat_map f l) (flat_map f l').
Proof.
  induction 1; simpl.
  - constructor.
  - apply Permutation_app_head. assumption.
  - rewrite !app_assoc. apply Permutation_app_tail. apply Permutation_app_comm.
  - eapply perm_trans; eassumption.
Qed.

Lemma suppress_many i x l e ks :
  (2 <= length ks)%nat -> suppress (T i x l e ks) = T i x l e (map suppress ks).
Proof. destruct ks as [|a [|b r]]; simpl; intro H; try lia; reflexivity. Qed.

(* the invariant of one reordering step *)
Lemma redraw1_suppress acc t t' : redraw1 t t' -> same_up_to_order acc (suppress t) (suppress t').
Proof.
  induction 1 as [i x l e ks ks' HP | i x l e pre k k' post Hr IH].
  - destruct ks as [|k1 [|k2 r]].
    + apply Permutation_nil in HP. subst. apply so_refl.
    + apply Permutation_singleton_l in HP. subst. apply so_refl.
    + assert (L : length ks' = length (k1 :: k2 :: r)) by (symmetry; apply Permutation_length, HP).
      rewrite !suppress_many by (rewrite ?L; simpl; lia).
      assert (HM : Permutation (map suppress (k1 :: k2 :: r)) (map suppress ks')) by (apply Permutation_map, HP).
      assert (N1 : map suppress (k1 :: k2 :: r) <> []) by discriminate.
      assert (N2 : map suppress ks' <> []).
      { intro E. apply map_eq_nil in E. subst. discriminate. }
      constructor; try reflexivity.
      * rewrite !lmask_node by assumption. apply lor_all_perm. apply Permutation_map. exact HM.
      * unfold body. cbn [t_kids]. apply flat_map_perm. exact HM.
  - destruct pre as [|p1 pre'], post as [|q1 post'].
    + cbn [app]. rewrite !suppress_unfold. rewrite (so_len _ _ _ IH). apply so_set_len. exact IH.
    + rewrite !suppress_many by (rewrite app_length; simpl; lia).
      constructor; try reflexivity.
      * rewrite !lmask_node by discriminate. cbn [app map]. unfold lor_all. cbn [fold_right]. rewrite (so_mask _ _ _ IH). reflexivity.
      * unfold body. cbn [t_kids app map flat_map]. apply Permutation_app_tail. apply so_pnodes. exact IH.
    + rewrite !suppress_many by (rewrite app_length; simpl; lia).
      constructor; try reflexivity.
      * rewrite !lmask_node by discriminate. rewrite !map_app. cbn [map].
        unfold lor_all. rewrite !fold_right_app. cbn [fold_right]. rewrite (so_mask _ _ _ IH). reflexivity.
      * unfold body. cbn [t_kids]. rewrite !map_app. cbn [map]. rewrite !flat_map_app. cbn [flat_map].
        apply Permutation_app_head. apply Permutation_app_tail. apply so_pnodes. exact IH.
    + rewrite !suppress_many by (rewrite app_length; simpl; lia).
      constructor; try reflexivity.
      * rewrite !lmask_node by discriminate. rewrite !map_app. cbn [map].
        unfold lor_all. rewrite !fold_right_app. cbn [fold_right]. rewrite (so_mask _ _ _ IH). reflexivity.
      * unfold body. cbn [t_kids]. rewrite !map_app. cbn [map]. rewrite !flat_map_app. cbn [flat_map].
        apply Permutation_app_head. apply Permutation_app_tail. apply so_pnodes. exact IH.
Qed.

(* ------------------------------------------------------------------------------------------ *)
(* one step, on structures whose basal bifurcation (if any) is not collapsed *)

Definition no_basal (s : struct) : Prop := is_true (snd s) = true \/ nkids (fst s) <> 2%nat.

Lemma normalise_no_basal s : no_basal s -> normalise s = (suppress (fst s), snd s).
Proof.
  destruct s as [t r]. unfold no_basal, normalise, basal_step. cbn [fst snd]. intros [H|H].
  - rewrite H. reflexivity.
  - apply Nat.eqb_neq in H. rewrite H, andb_false_r. reflexivity.
Qed.

Lemma nkids_redraw1 t t' : redraw1 t t' -> nkids t' = nkids t.
Proof.
  destruct 1 as [i x l e ks ks' HP | i x l e pre k k' post Hr]; unfold nkids; cbn [t_kids].
  - symmetry. apply Permutation_length, HP.
  - rewrite !app_length. reflexivity.
Qed.

Lemma leaf_taxa_node i x l e ks : ks <> [] -> leaf_taxa (T i x l e ks) = flat_map leaf_taxa ks.
Proof. destruct ks; [congruence|reflexivity]. Qed.

Lemma leaf_taxa_redraw1 t t' : redraw1 t t' -> Permutation (leaf_taxa t) (leaf_taxa t').
Proof.
  induction 1 as [i x l e ks ks' HP | i x l e pre k k' post Hr IH].
  - destruct ks as [|k1 r].
    + apply Permutation_nil in HP. subst. apply Permutation_refl.
    + assert (N : ks' <> []).
      { intro E. subst. apply Permutation_sym, Permutation_nil in HP. discriminate. }
      rewrite !leaf_taxa_node by (try exact N; discriminate). apply flat_map_perm, HP.
  - rewrite !leaf_taxa_node by (destruct pre; discriminate).
    rewrite !flat_map_app. cbn [flat_map]. apply Permutation_app_head, Permutation_app_tail, IH.
Qed.

Lemma forallb_perm {A} (f : A -> bool) l l' : Permutation l l' -> forallb f l = forallb f l'.
Proof.
  induction 1; simpl; try congruence.
  destruct (f x), (f y); reflexivity.
Qed.

Lemma taxa_known_redraw1 acc t t' : redraw1 t t' -> taxa_known acc t' = taxa_known acc t.
Proof. intro H. unfold taxa_known. symmetry. apply forallb_perm, leaf_taxa_redraw1, H. Qed.

Lemma entries_redraw1 acc r t t' :
  redraw1 t t' -> no_basal (t, r) ->
  no_basal (t', r) /\
  lmask acc (fst (normalise (t', r))) = lmask acc (fst (normalise (t, r))) /\
  Permutation (pnodes acc true (fst (normalise (t, r)))) (pnodes acc true (fst (normalise (t', r)))) /\
  Permutation (entries acc (t, r)) (entries acc (t', r)).
Proof.
  intros H NB.
  assert (NB' : no_basal (t', r)).
  { destruct NB as [NB|NB]; [left; exact NB|right]. cbn [fst] in *. rewrite (nkids_redraw1 t t' H). exact NB. }
  pose proof (redraw1_suppress acc t t' H) as SO.
  rewrite (normalise_no_basal _ NB), (normalise_no_basal _ NB'). cbn [fst snd].
  repeat split.
  - exact NB'.
  - symmetry. apply (so_mask _ _ _ SO).
  - apply so_pnodes, SO.
  - unfold entries. rewrite (normalise_no_basal _ NB), (normalise_no_basal _ NB'). unfold entries_n. cbn [fst snd].
    rewrite (so_mask _ _ _ SO). apply Permutation_map. apply so_pnodes, SO.
Qed.

(* ------------------------------------------------------------------------------------------ *)
(* structures with the same entries up to order are interchangeable *)

Lemma zlookup_perm {V} (l l' : list (Z * V)) k :
  Permutation l l' -> NoDup (keys l) -> zlookup k l = zlookup k l'.
Proof.
  intros HP HN.
  assert (HN' : NoDup (keys l')) by (eapply Permutation_NoDup; [apply Permutation_map, HP | exact HN]).
  destruct (zlookup k l) as [v|] eqn:E.
  - apply zlookup_In in E. symmetry. apply zlookup_nodup; [exact HN'|]. eapply Permutation_in; eassumption.
  - symmetry. apply zlookup_None. apply zlookup_None in E. intro H. apply E.
    eapply Permutation_in; [apply Permutation_sym, Permutation_map, HP | exact H].
Qed.

Definition same_dict (d d' : list (Z * einfo)) : Prop :=
  NoDup (keys d) /\ NoDup (keys d') /\ (forall x, In x d <-> In x d').

Lemma same_dict_keys d d' k : same_dict d d' -> (In k (keys d) <-> In k (keys d')).
Proof.
  intros [_ [_ H]]. unfold keys. rewrite !in_map_iff. split; intros [x [E Hx]]; exists x; split; try exact E; apply H, Hx.
Qed.

Lemma same_dict_memz d d' k : same_dict d d' -> memz k (keys d) = memz k (keys d').
Proof.
  intro H. destruct (memz k (keys d)) eqn:E1, (memz k (keys d')) eqn:E2; try reflexivity.
  - apply memz_In in E1. apply memz_false in E2. exfalso. apply E2. apply (same_dict_keys d d' k H), E1.
  - apply memz_In in E2. apply memz_false in E1. exfalso. apply E1. apply (same_dict_keys d d' k H), E2.
Qed.

Lemma same_dict_val d d' k : same_dict d d' -> val d k = val d' k.
Proof.
  intros [N [N' H]]. unfold val.
  destruct (zlookup k d) as [x|] eqn:E.
  - apply zlookup_In in E. apply H in E. rewrite (zlookup_nodup k x d' N' E). reflexivity.
  - destruct (zlookup k d') as [x'|] eqn:E'; [|reflexivity].
    apply zlookup_In in E'. apply H in E'. rewrite (zlookup_nodup k x' d N E') in E. discriminate.
Qed.

Lemma ld_same_dict (h : Z -> Z -> Z) p d1 d1' d2 d2' :
  h 0 0 = 0 -> same_dict d1 d1' -> same_dict d2 d2' ->
  match length_diffs p (fun x => Ok x) (fun x => Ok x) d1 d2 with
  | Ok l => Ok (sum_h h l) | Err e => Err e | OutOfFuel => OutOfFuel end
  = match length_diffs p (fun x => Ok x) (fun x => Ok x) d1' d2' with
    | Ok l => Ok (sum_h h l) | Err e => Err e | OutOfFuel => OutOfFuel end.
Proof.
  intros h0 S1 S2.
  pose proof S1 as [N1 [N1' H1]]. pose proof S2 as [N2 [N2' H2]].
  assert (D : is_ok (length_diffs p (fun x => Ok x) (fun x => Ok x) d1 d2) = true
              <-> is_ok (length_diffs p (fun x => Ok x) (fun x => Ok x) d1' d2') = true).
  { rewrite (length_diffs_defined p d1 d2 N1 N2), (length_diffs_defined p d1' d2' N1' N2'). split.
    - intros [A B]. split.
      + intros kx Hkx. apply A, H1, Hkx.
      + intros kx Hkx. rewrite <- (same_dict_memz d1 d1' (fst kx) S1). apply B, H2, Hkx.
    - intros [A B]. split.
      + intros kx Hkx. apply A, H1, Hkx.
      + intros kx Hkx. rewrite (same_dict_memz d1 d1' (fst kx) S1). apply B, H2, Hkx. }
  destruct (length_diffs p _ _ d1 d2) as [l|e|] eqn:E; destruct (length_diffs p _ _ d1' d2') as [l'|e'|] eqn:E'; simpl in D.
  - f_equal.
    set (U := dedup (keys d1 ++ keys d2)).
    assert (HU : NoDup U) by apply dedup_NoDup.
    assert (I1 : incl (keys d1) U) by (intros k Hk; apply dedup_In; rewrite in_app_iff; tauto).
    assert (I2 : incl (keys d2) U) by (intros k Hk; apply dedup_In; rewrite in_app_iff; tauto).
    assert (I1' : incl (keys d1') U) by (intros k Hk; apply I1, (same_dict_keys d1 d1' k S1), Hk).
    assert (I2' : incl (keys d2') U) by (intros k Hk; apply I2, (same_dict_keys d2 d2' k S2), Hk).
    rewrite (length_diffs_norm h p d1 d2 l U h0 N1 N2 E HU I1 I2).
    rewrite (length_diffs_norm h p d1' d2' l' U h0 N1' N2' E' HU I1' I2').
    apply zsum_map_ext. intros k _. rewrite (same_dict_val d1 d1' k S1), (same_dict_val d2 d2' k S2). reflexivity.
  - exfalso. destruct D as [D _]. specialize (D eq_refl). discriminate.
  - exfalso. destruct D as [D _]. specialize (D eq_refl). discriminate.
  - exfalso. destruct D as [_ D]. specialize (D eq_refl). discriminate.
  - apply length_diffs_err in E. apply length_diffs_err in E'. subst. reflexivity.
  - exfalso. eapply length_diffs_no_fuel, E'.
  - exfalso. eapply length_diffs_no_fuel, E.
  - exfalso. eapply length_diffs_no_fuel, E.
  - exfalso. eapply length_diffs_no_fuel, E.
Qed.

Lemma same_dict_refl d : NoDup (keys d) -> same_dict d d.
Proof. intro H. repeat split; try exact H; tauto. Qed.

Lemma same_dict_of_perm acc s s' :
  Permutation (entries acc s) (entries acc s') -> NoDup (splits acc s) -> same_dict (kd acc s) (kd acc s').
Proof.
  intros HP HN.
  assert (HN' : NoDup (splits acc s')) by (eapply Permutation_NoDup; [apply Permutation_map, HP | exact HN]).
  unfold kd. rewrite !dict_of_id by assumption. repeat split; try assumption.
  - intro H. eapply Permutation_in; eassumption.
  - intro H. eapply Permutation_in; [apply Permutation_sym, HP | exact H].
Qed.

(* all five functions agree on two structures with the same entries up to order *)
Definition interchangeable (acc : acc_map) (s s' : struct) : Prop :=
  forall p s2, wf acc s2 ->
    fpfn acc s s2 = fpfn acc s' s2 /\ fpfn acc s2 s = fpfn acc s2 s' /\
    rf acc s s2 = rf acc s' s2 /\ rf acc s2 s = rf acc s2 s' /\
    wrf p acc s s2 = wrf p acc s' s2 /\ wrf p acc s2 s = wrf p acc s2 s' /\
    euclid_sq p acc s s2 = euclid_sq p acc s' s2 /\ euclid_sq p acc s2 s = euclid_sq p acc s2 s'.

Lemma diff_count_same_sets a a' b b' :
  (forall x, In x a <-> In x a') -> (forall x, In x b <-> In x b') -> diff_count a b = diff_count a' b'.
Proof.
  intros Ha Hb.
  rewrite (diff_count_spec a b (dedup a) (dedup b) (dedup_NoDup a) (fun x => dedup_In x a) (fun x => dedup_In x b)).
  rewrite (diff_count_spec a' b' (dedup a) (dedup b) (dedup_NoDup a)).
  - reflexivity.
  - intro x. rewrite dedup_In. apply Ha.
  - intro x. rewrite dedup_In. apply Hb.
Qed.

Lemma interchangeable_of_perm acc s s' :
  wf acc s -> wf acc s' -> NoDup (splits acc s) ->
  Permutation (entries acc s) (entries acc s') -> interchangeable acc s s'.
Proof.
  intros W W' HN HP p s2 W2.
  pose proof (same_dict_of_perm acc s s' HP HN) as SD.
  pose proof (same_dict_refl (kd acc s2) (dict_of_nodup _)) as SR.
  assert (Hs : forall x, In x (splits acc s) <-> In x (splits acc s')).
  { intro x. split; intro H; [eapply Permutation_in; [apply Permutation_map, HP|exact H]
                            | eapply Permutation_in; [apply Permutation_sym, Permutation_map, HP|exact H]]. }
  assert (Hr : forall x, In x (splits acc s2) <-> In x (splits acc s2)) by tauto.
  destruct W as [K [F I]], W' as [K' [F' I']]. pose proof W2 as [K2 [F2 I2]].
  assert (Ws : wf acc s) by (repeat split; assumption).
  assert (Ws' : wf acc s') by (repeat split; assumption).
  rewrite !fpfn_pure, !rf_pure by assumption.
  rewrite !wrf_pure, !euclid_pure by assumption.
  rewrite (diff_count_same_sets (splits acc s2) (splits acc s2) (splits acc s) (splits acc s') Hr Hs).
  rewrite (diff_count_same_sets (splits acc s) (splits acc s') (splits acc s2) (splits acc s2) Hs Hr).
  unfold ld_pure. fold (kd acc s) (kd acc s') (kd acc s2).
  pose proof (ld_same_dict (fun a b => Z.abs (a - b)) p _ _ _ _ eq_refl SD SR) as A1.
  pose proof (ld_same_dict (fun a b => Z.abs (a - b)) p _ _ _ _ eq_refl SR SD) as A2.
  pose proof (ld_same_dict (fun a b => (a - b) * (a - b)) p _ _ _ _ eq_refl SD SR) as B1.
  pose proof (ld_same_dict (fun a b => (a - b) * (a - b)) p _ _ _ _ eq_refl SR SD) as B2.
  repeat split; try reflexivity.
  - destruct (length_diffs p _ _ (kd acc s) (kd acc s2)), (length_diffs p _ _ (kd acc s') (kd acc s2));
      rewrite ?sum_abs_h; exact A1.
  - destruct (length_diffs p _ _ (kd acc s2) (kd acc s)), (length_diffs p _ _ (kd acc s2) (kd acc s'));
      rewrite ?sum_abs_h; exact A2.
  - destruct (length_diffs p _ _ (kd acc s) (kd acc s2)), (length_diffs p _ _ (kd acc s') (kd acc s2));
      rewrite ?sum_sq_h; exact B1.
  - destruct (length_diffs p _ _ (kd acc s2) (kd acc s)), (length_diffs p _ _ (kd acc s2) (kd acc s'));
      rewrite ?sum_sq_h; exact B2.
Qed.

(* ------------------------------------------------------------------------------------------ *)
(* any number of steps *)

Lemma redraw1_transfer acc r t t' :
  redraw1 t t' -> no_basal (t, r) -> wf acc (t, r) -> NoDup (splits acc (t, r)) ->
  no_basal (t', r) /\ wf acc (t', r) /\ NoDup (splits acc (t', r)) /\
  Permutation (entries acc (t, r)) (entries acc (t', r)).
Proof.
  intros H NB [K [F I]] HN.
  destruct (entries_redraw1 acc r t t' H NB) as [NB' [EM [PN PE]]].
  repeat split.
  - exact NB'.
  - cbn [fst] in *. rewrite (taxa_known_redraw1 acc t t' H). exact K.
  - unfold frozen_ok in *. rewrite EM. exact F.
  - unfold ids_ok in *. eapply Permutation_NoDup; [apply Permutation_map, PN | exact I].
  - eapply Permutation_NoDup; [apply Permutation_map, PE | exact HN].
  - exact PE.
Qed.

Lemma redraw_transfer acc r t t' :
  redraw t t' -> no_basal (t, r) -> wf acc (t, r) -> NoDup (splits acc (t, r)) ->
  no_basal (t', r) /\ wf acc (t', r) /\ NoDup (splits acc (t', r)) /\
  Permutation (entries acc (t, r)) (entries acc (t', r)).
Proof.
  induction 1 as [t t' H | t | t t1 t' H1 IH1 H2 IH2]; intros NB W HN.
  - apply redraw1_transfer; assumption.
  - repeat split; try assumption; try apply W. apply Permutation_refl.
  - destruct (IH1 NB W HN) as [NB1 [W1 [HN1 P1]]]. destruct (IH2 NB1 W1 HN1) as [NB2 [W2 [HN2 P2]]].
    repeat split; try assumption; try apply W2. eapply perm_trans; eassumption.
Qed.

Theorem child_order_invariant_l acc r t t' :
  redraw t t' -> no_basal (t, r) -> wf acc (t, r) -> NoDup (splits acc (t, r)) ->
  interchangeable acc (t, r) (t', r).
Proof.
  intros H NB W HN. destruct (redraw_transfer acc r t t' H NB W HN) as [_ [W' [_ P]]].
  apply interchangeable_of_perm; assumption.
Qed.

(* the distance between a tree and a re-drawing of it is zero *)
Theorem zero_on_redrawing_l p acc r t t' :
  redraw t t' -> no_basal (t, r) -> wf acc (t, r) -> NoDup (splits acc (t, r)) ->
  rf acc (t, r) (t', r) = Ok 0 /\
  fpfn acc (t, r) (t', r) = Ok (0, 0) /\
  (forall v, wrf p acc (t, r) (t', r) = Ok v -> v = 0) /\
  (forall v, euclid_sq p acc (t, r) (t', r) = Ok v -> v = 0).
Proof.
  intros H NB W HN. destruct (redraw_transfer acc r t t' H NB W HN) as [_ [W' [HN' P]]].
  pose proof (same_dict_of_perm acc _ _ P HN) as SD.
  assert (Hs : forall x, In x (splits acc (t, r)) <-> In x (splits acc (t', r))).
  { intro x. split; intro Hx; [eapply Permutation_in; [apply Permutation_map, P|exact Hx]
                             | eapply Permutation_in; [apply Permutation_sym, Permutation_map, P|exact Hx]]. }
  pose proof W as [K [F I]]. pose proof W' as [K' [F' I']].
  assert (D0 : forall a b, (forall x, In x a <-> In x b) -> diff_count a b = 0).
  { intros a b Hab. unfold diff_count.
    rewrite (filter_ext_In' (fun x => negb (memz x b)) (fun _ => false)).
    - clear. induction (dedup a); simpl; [reflexivity|assumption].
    - intros x Hx. apply (proj1 (dedup_In x a)) in Hx. apply Hab in Hx. apply (proj2 (memz_In x b)) in Hx. rewrite Hx. reflexivity. }
  repeat split.
  - rewrite rf_pure by assumption. rewrite !D0; [reflexivity| |]; intro x; [apply Hs | symmetry; apply Hs].
  - rewrite fpfn_pure by assumption. rewrite !D0; [reflexivity| |]; intro x; [apply Hs | symmetry; apply Hs].
  - intros v Hv. apply (wrf_zero_l p acc (t, r) (t', r) v W W'); [|exact Hv].
    intro m. apply same_dict_val, SD.
  - intros v Hv. apply (euclid_zero_l p acc (t, r) (t', r) v W W'); [|exact Hv].
    intro m. apply same_dict_val, SD.
Qed.
