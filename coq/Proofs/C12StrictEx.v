(* C12, sixth wave: the privacy hypothesis is satisfiable (example heap of hypotheses_satisfiable, both routes) and
   NECESSARY: two witnesses that satisfy every other hypothesis of deepcopy_isomorphism and on which a source
   object has two images. *)
From Coq Require Import ZArith List Bool Lia.
From DV Require Import Model.PyPrims Model.C12Model Model.C12Spec2 Model.C12Spec3 Model.C12Spec4 Proofs.C12Examples.
Import ListNotations.
Open Scope Z_scope.

Example ex_wf5 :
  wf_heap5 ex_heap [] 0 = true /\ wf_heap5 ex_heap (ns_seeds ex_heap 1) 0 = true
  /\ seeded_region ex_heap (ns_seeds ex_heap 1) = [7; 2; 1] /\ seeded_region ex_heap [] = [].
Proof. vm_compute. repeat split. Qed.

(* 5(b): a list that both the tree and a taxon refer to.  The namespace-scoped copy copies it (attribute of the
   tree) AND reaches the original (through the shared taxon). *)
Definition shared_list_heap : heap := [
  mkObj 10 KAnnotable [(P 100, R 1); (P 101, R 4)];
  mkObj 11 KNamespace [(NM_TAXA, R 2)];
  mkObj 0 KList [(pidx 0, R 3)];
  mkObj 13 KTaxon [(P 103, R 4)];
  mkObj 0 KList [(pidx 0, P 60)]
].

Example copied_and_shared_refuted_l :
  let h := shared_list_heap in let seeds := ns_seeds h 1 in
  wf_heap h seeds = true /\ wf_heap2 h = true /\ wf_heap3 h = true /\ wf_heap3s h = true /\ wf_heap4 h = true
  /\ root_seeds_ok h seeds 0 = true /\ memz 0 (owned_list h) = false
  /\ conts_private_ok h = true /\ root_ok4 h 0 = true /\ private_ok h seeds 0 = false
  /\ exists s', run false 6 h 0 (RScoped 1) = Ok (s', R 5)
       /\ In (4, 6) (sc s') /\ kind_at h 4 = Some KList
       /\ memz 6 (reach_list (sh s') [5]) = true /\ memz 4 (reach_list (sh s') [5]) = true
       /\ memz 4 (reach_list h [0]) = true.
Proof.
  cbv zeta. repeat (split; [vm_compute; reflexivity|]). eexists. split; [vm_compute; reflexivity|].
  vm_compute. repeat split; auto.
Qed.

(* 5(c): the `_item_list` of the object's own annotation set is also the value of an attribute.  The deep copy
   copies it generically (for the attribute) AND rebuilds it (annotations.add). *)
Definition alias_ilist_heap : heap := [
  mkObj 10 KAnnotable [(P 101, R 2); (NM_ANN, R 1)];
  mkObj 4 KAnnSet [(NM_ILIST, R 2); (NM_ISET, R 3); (NM_TARGET, R 0)];
  mkObj 0 KList [(pidx 0, R 4)];
  mkObj 2 KSet [(R 4, P 0)];
  mkObj 12 KAnnotable [(NM_VALUE, P 50); (NM_ISATTR, P 1)]
].

Example container_copied_and_rebuilt_refuted_l :
  let h := alias_ilist_heap in
  wf_heap h [] = true /\ wf_heap2 h = true /\ wf_heap3 h = true /\ wf_heap3s h = true /\ wf_heap4 h = true
  /\ root_seeds_ok h [] 0 = true /\ memz 0 (owned_list h) = false
  /\ private_ok h [] 0 = true /\ root_ok4 h 0 = true /\ conts_private_ok h = false
  /\ exists s', run false 6 h 0 RDeep = Ok (s', R 5)
       /\ In (2, 6) (sc s') /\ bget (body_of s' 5) (P 101) = Some (R 6)
       /\ bget (body_of s' 5) NM_ANN = Some (R 8) /\ bget (body_of s' 8) NM_ILIST = Some (R 9)
       /\ body_of s' 6 = body_of s' 9
       /\ memz 6 (reach_list (sh s') [5]) = true /\ memz 9 (reach_list (sh s') [5]) = true.
Proof.
  cbv zeta. repeat (split; [vm_compute; reflexivity|]). eexists. split; [vm_compute; reflexivity|].
  vm_compute. repeat split; auto.
Qed.
