(* C13: the hypotheses of the theorems are satisfiable (the skeleton statement parser and ASCII
   upper-casing used by the correspondence run satisfy them), concrete non-trivial documents, and
   the machine-checked counter-examples to the full-strength statements (known findings). *)
From Coq Require Import ZArith List Bool Lia.
From Coq Require String. Import String.StringSyntax.
From DV Require Import Model.PyPrims Model.C13Model Proofs.C13Suffix Proofs.C13Blocks Proofs.C13Namespace.
Import ListNotations.
Open Scope Z_scope.

(* ---- ASCII upper-casing is idempotent ---- *)
Lemma upper_ascii_idem : forall s, upper_with [] (upper_with [] s) = upper_with [] s.
Proof.
  intros s. unfold upper_with. rewrite map_map. apply map_ext. intros c. unfold upper_char. simpl.
  destruct ((97 <=? c) && (c <=? 122)) eqn:E.
  - apply andb_true_iff in E. destruct E as [E1 E2]. apply Z.leb_le in E1. apply Z.leb_le in E2.
    assert (X : (97 <=? c - 32) && (c - 32 <=? 122) = false) by (apply andb_false_iff; left; apply Z.leb_gt; lia).
    rewrite X. reflexivity.
  - rewrite E. reflexivity.
Qed.

(* ---- the skeleton statement parser consumes a prefix and only appends to the namespace ---- *)
Section Sk.
Variable lower : str -> str.

Ltac fwd2 :=
  repeat match goal with
  | H : next_token _ = Ok _ |- _ => apply next_token_suf in H
  | H : require_next_token _ = Ok _ |- _ => apply require_next_token_suf in H
  end.

Lemma sk_skip_semis_suf : forall fuel z tc r z', sk_skip_semis fuel z tc = Ok (r, z') -> suf (z_toks z') (z_toks z).
Proof.
  induction fuel as [|f IH]; intros z tc r z' H; simpl in H; [discriminate|].
  destruct ((tok_is z K_SEMI || cur_none z) && negb (z_eof z)); [|inversion H; apply suf_refl].
  destruct (require_next_token z) as [z1|e|] eqn:E; cbn [bind] in H; try discriminate.
  apply IH in H. fwd2. suf_chain.
Qed.

Lemma sk_trailing_suf : forall fuel z z', sk_trailing fuel z = Ok z' -> suf (z_toks z') (z_toks z).
Proof.
  induction fuel as [|f IH]; intros z z' H; simpl in H; [discriminate|].
  destruct (tok_is z K_SEMI && negb (z_eof z)); [|inversion H; apply suf_refl].
  destruct (next_token (clear_comments z)) as [z1|e|] eqn:E; cbn [bind] in H; try discriminate.
  apply IH in H. fwd2. suf_chain.
Qed.

Lemma require_grows : forall m s i m', require_taxon_for_symbol lower m s = (i, m') -> prefix_of (m_ns m) (m_ns m').
Proof.
  intros m s i m' H. unfold require_taxon_for_symbol in H.
  destruct (assoc (lower s) (m_tokens m)); [inversion H; exists []; rewrite app_nil_r; reflexivity|].
  destruct (assoc (lower s) (m_labels m)); [inversion H; exists []; rewrite app_nil_r; reflexivity|].
  destruct (if m_by_number m then assoc s (m_numbers m) else None); [inversion H; exists []; rewrite app_nil_r; reflexivity|].
  unfold mapper_new_taxon in H. inversion H; subst. simpl. exists [s]. reflexivity.
Qed.

Lemma sk_body_props : forall fuel m z items ncs ac seen items' ncs' m' z',
  sk_body lower fuel m z items ncs ac seen = Ok (items', ncs', m', z') ->
  suf (z_toks z') (z_toks z) /\ prefix_of (m_ns m) (m_ns m').
Proof.
  induction fuel as [|f IH]; intros m z items ncs ac seen items' ncs' m' z' H; simpl in H; [discriminate|].
  assert (PR : prefix_of (m_ns m) (m_ns m)) by (exists []; rewrite app_nil_r; reflexivity).
  destruct (tok_is (set_com z []) K_SEMI).
  { destruct (next_token (set_com z [])) as [z1|e|] eqn:E; cbn [bind] in H; try discriminate.
    inversion H; subst. fwd2. split; [suf_chain | assumption]. }
  destruct (tok_is (set_com z []) P_OPEN).
  { destruct (require_next_token (set_com z [])) as [z1|e|] eqn:E; cbn [bind] in H; try discriminate.
    apply IH in H. destruct H as [H1 H2]. fwd2. split; [suf_chain | assumption]. }
  destruct (tok_is (set_com z []) P_CLOSE).
  { destruct (require_next_token (set_com z [])) as [z1|e|] eqn:E; cbn [bind] in H; try discriminate.
    apply IH in H. destruct H as [H1 H2]. fwd2. split; [suf_chain | assumption]. }
  destruct (tok_is (set_com z []) K_COMMA).
  { destruct (require_next_token (set_com z [])) as [z1|e|] eqn:E; cbn [bind] in H; try discriminate.
    apply IH in H. destruct H as [H1 H2]. fwd2. split; [suf_chain | assumption]. }
  destruct (tok_is (set_com z []) P_COLON).
  { destruct (require_next_token (set_com z [])) as [z1|e|] eqn:E; cbn [bind] in H; try discriminate.
    destruct (require_next_token (set_com z1 [])) as [z2|e|] eqn:E2; cbn [bind] in H; try discriminate.
    apply IH in H. destruct H as [H1 H2]. fwd2. split; [suf_chain | assumption]. }
  destruct ac.
  - destruct (require_next_token (set_com z [])) as [z1|e|] eqn:E; cbn [bind] in H; try discriminate.
    apply IH in H. destruct H as [H1 H2]. fwd2. split; [suf_chain | assumption].
  - destruct (require_taxon_for_symbol lower m (cur_text (set_com z []))) as [i m1] eqn:ER.
    destruct (existsb (Nat.eqb i) seen); [discriminate|].
    destruct (require_next_token (set_com z [])) as [z1|e|] eqn:E; cbn [bind] in H; try discriminate.
    apply IH in H. destruct H as [H1 H2]. apply require_grows in ER. fwd2. split; [suf_chain|].
    destruct ER as [r1 E1]. destruct H2 as [r2 E2]. exists (r1 ++ r2). rewrite E2, E1, app_assoc. reflexivity.
Qed.

Lemma sk_parse_tree_props : forall m z ot m' z',
  sk_parse_tree lower m z = Ok (ot, m', z') ->
  suf (z_toks z') (z_toks z) /\ prefix_of (m_ns m) (m_ns m').
Proof.
  intros m z ot m' z' H. unfold sk_parse_tree in H. unfold pull_comments in H.
  assert (PR : prefix_of (m_ns m) (m_ns m)) by (exists []; rewrite app_nil_r; reflexivity).
  destruct (sk_skip_semis (length (z_toks z) + 3) (set_com z []) (z_com z)) as [[tc z1]|e|] eqn:E1; cbn [bind] in H; try discriminate.
  apply sk_skip_semis_suf in E1. simpl in E1.
  destruct (z_eof z1); [inversion H; subst; split; assumption|].
  destruct (sk_tree_comments tc None []) as [rooted kept].
  destruct (sk_body lower (length (z_toks z) + 3) m z1 [] [] false []) as [[[[items ncs] m1] z2]|e|] eqn:E2; cbn [bind] in H; try discriminate.
  apply sk_body_props in E2. destruct E2 as [S2 P2].
  destruct (sk_trailing (length (z_toks z) + 3) z2) as [z3|e|] eqn:E3; cbn [bind] in H; try discriminate.
  apply sk_trailing_suf in E3. inversion H; subst. split; [suf_chain | assumption].
Qed.

End Sk.

(* ---- concrete documents (token sequences produced by the library's tokenizer) ---- *)
Definition d_two_trees : doc := ([(w (q "#NEXUS")); (w (q "BEGIN")); (w (q "TREES")); (w (q ";")); (w (q "TREE")); (w (q "foo")); (w (q "=")); (wc (q "(") [(q "&R")]); (w (q "a")); (w (q ",")); (w (q "b")); (w (q ")")); (w (q ";")); (w (q "TREE")); (w (q "bar")); (w (q "=")); (w (q "(")); (w (q "a")); (w (q ",")); (w (q "(")); (w (q "b")); (w (q ",")); (w (q "c")); (w (q ")")); (w (q ")")); (w (q ";")); (w (q "END")); (w (q ";"))], (EndEof [])).
Definition d_two_taxa : doc := ([(w (q "#NEXUS")); (w (q "BEGIN")); (w (q "TAXA")); (w (q ";")); (w (q "TITLE")); (w (q "T1")); (w (q ";")); (w (q "DIMENSIONS")); (w (q "NTAX")); (w (q "=")); (w (q "2")); (w (q ";")); (w (q "TAXLABELS")); (w (q "a")); (w (q "b")); (w (q ";")); (w (q "END")); (w (q ";")); (w (q "BEGIN")); (w (q "TAXA")); (w (q ";")); (w (q "TITLE")); (w (q "T2")); (w (q ";")); (w (q "DIMENSIONS")); (w (q "NTAX")); (w (q "=")); (w (q "2")); (w (q ";")); (w (q "TAXLABELS")); (w (q "c")); (w (q "d")); (w (q ";")); (w (q "END")); (w (q ";")); (w (q "BEGIN")); (w (q "TREES")); (w (q ";")); (w (q "LINK")); (w (q "TAXA")); (w (q "=")); (w (q "T1")); (w (q ";")); (w (q "TREE")); (w (q "x")); (w (q "=")); (w (q "(")); (w (q "a")); (w (q ",")); (w (q "b")); (w (q ")")); (w (q ";")); (w (q "END")); (w (q ";")); (w (q "BEGIN")); (w (q "TREES")); (w (q ";")); (w (q "LINK")); (w (q "TAXA")); (w (q "=")); (w (q "T2")); (w (q ";")); (w (q "TREE")); (w (q "y")); (w (q "=")); (w (q "(")); (w (q "c")); (w (q ",")); (w (q "d")); (w (q ")")); (w (q ";")); (w (q "END")); (w (q ";"))], (EndEof [])).
Definition d_blocks : doc := ([(w (q "#NEXUS")); (w (q "BEGIN")); (w (q "TREES")); (w (q ";")); (w (q "TRANSLATE")); (w (q "1")); (w (q "a")); (w (q ",")); (w (q "2")); (w (q "b")); (w (q ";")); (w (q "TREE")); (w (q "x")); (w (q "=")); (w (q "(")); (w (q "1")); (w (q ",")); (w (q "2")); (w (q ")")); (w (q ";")); (w (q "TREE")); (w (q "y")); (w (q "=")); (w (q "(")); (w (q "2")); (w (q ",")); (w (q "1")); (w (q ")")); (w (q ";")); (w (q "END")); (w (q ";")); (w (q "BEGIN")); (w (q "TREES")); (w (q ";")); (w (q "TREE")); (w (q "z")); (w (q "=")); (wc (q "(") [(q "&U")]); (w (q "1")); (w (q ",")); (w (q "2")); (w (q ",")); (w (q "c")); (w (q ")")); (w (q ";")); (w (q "END")); (w (q ";"))], (EndEof [])).
Definition d_newick : doc := ([(w (q "(")); (w (q "a")); (w (q ",")); (w (q "b")); (w (q ")")); (w (q ";")); (wc (q "(") [(q "&R")]); (w (q "c")); (w (q ",")); (w (q "(")); (w (q "d")); (w (q ",")); (w (q "a")); (w (q ")")); (w (q ")")); (w (q ";"))], (EndEof [])).

Definition LO := lower_with [].
Definition UP := upper_with [].
Definition PT := sk_parse_tree LO.

Notation tl_get sch d := (treelist_get sktree LO UP PT sk_set_label sk_add_comments false false false sch d).
Notation tl_get_repaired sch d := (treelist_get sktree LO UP PT sk_set_label sk_add_comments true false false sch d).
Notation tr_get sch c k d := (tree_get sktree LO UP PT sk_set_label sk_add_comments false false false false sch c k d).
Notation tr_get_repaired sch c k d := (tree_get sktree LO UP PT sk_set_label sk_add_comments true true false false sch c k d).
Notation yff sch d := (yield_from_files sktree LO UP PT sk_set_label sk_add_comments false sch [] d).
Notation ds_get sch a d := (dataset_get sktree LO UP PT sk_set_label sk_add_comments false false sch a d).

Definition res_len {A B} (r : res (list A * B)) : option nat :=
  match r with Ok (l, _) => Some (length l) | _ => None end.

Definition is_ok {A} (r : res A) : bool := match r with Ok _ => true | _ => false end.

Definition no_sets_b (d : doc) : bool :=
  forallb (fun t => negb (is_sets_kw (Some (UP (t_text t))))) (fst d).

Lemma no_sets_b_ok : forall d, no_sets_b d = true -> NoSets UP (fst d).
Proof.
  intros d H. unfold no_sets_b in H. rewrite forallb_forall in H. unfold NoSets. apply Forall_forall.
  intros t Ht. apply H in Ht. apply negb_true_iff in Ht. exact Ht.
Qed.

(* non-vacuity: documents satisfying the hypothesis on which the routes deliver several trees *)
Example ex_two_trees : no_sets_b d_two_trees = true /\ res_len (tl_get Nexus d_two_trees) = Some 2%nat
                       /\ length (fst (yff Nexus d_two_trees)) = 2%nat.
Proof. vm_compute. auto. Qed.

Example ex_blocks : no_sets_b d_blocks = true /\ res_len (tl_get Nexus d_blocks) = Some 3%nat
                    /\ (match ds_get Nexus true d_blocks with Ok bs => map (@length sktree) bs | _ => [] end) = [2; 1]%nat
                    /\ is_ok (tr_get Nexus (Some 1) (Some 0) d_blocks) = true
                    /\ tr_get Nexus (Some 1) (Some 1) d_blocks = Err IndexErr
                    /\ tr_get Nexus (Some 2) None d_blocks = Err IndexErr.
Proof. vm_compute. repeat split. Qed.

Example ex_newick : res_len (tl_get Newick d_newick) = Some 2%nat
                    /\ tr_get Newick None (Some 2) d_newick = Err IndexErr.
Proof. vm_compute. auto. Qed.

(* ---- counter-examples (known findings, replayed on the implementation by the harness) ---- *)

(* Tree.get assigns its `label` keyword (None) to the tree: the tree name read from the source,
   which every other route delivers, is lost *)
Lemma tree_get_label_refuted_l :
  exists (d : doc) t t',
    (exists ns, tl_get Nexus d = Ok ([t; t'], ns))
    /\ (exists u, tr_get Nexus None None d = Ok u
                  /\ sk_label t = Some (Some (q "foo")) /\ sk_label u = Some None
                  /\ sk_items u = sk_items t).
Proof.
  exists d_two_trees.
  destruct (tl_get Nexus d_two_trees) as [[ts ns]|e|] eqn:E; [|vm_compute in E; discriminate..].
  vm_compute in E. inversion E; subst. clear E.
  do 2 eexists. split; [eexists; reflexivity|].
  eexists. split; [vm_compute; reflexivity|]. vm_compute. auto.
Qed.

(* two TAXA blocks: the iterator (namespace attached) reads the file, TreeList.get (the same
   single namespace handed over through a factory) refuses it *)
Lemma attached_not_conversely_l :
  exists d : doc, no_sets_b d = true
    /\ (exists ns, snd (yff Nexus d) = Ok ns)
    /\ length (fst (yff Nexus d)) = 2%nat
    /\ tl_get Nexus d = Err ParseErr
    /\ is_ok (ds_get Nexus false d) = true.
Proof.
  exists d_two_taxa. split; [vm_compute; reflexivity|].
  split; [eexists; vm_compute; reflexivity|].
  vm_compute. auto.
Qed.

Lemma attached_not_conversely_x :
  exists d : doc,
    (forall t, In t (fst d) -> is_sets_kw (Some (upper_with [] (t_text t))) = false)
    /\ (exists ns, snd (yff Nexus d) = Ok ns)
    /\ length (fst (yff Nexus d)) = 2%nat
    /\ tl_get Nexus d = Err ParseErr
    /\ is_ok (ds_get Nexus false d) = true.
Proof.
  destruct attached_not_conversely_l as [d [A B]]. exists d. split; [|exact B].
  apply no_sets_b_ok in A. unfold NoSets in A. rewrite Forall_forall in A. exact A.
Qed.

(* in the repaired forms of the two sites the counter-examples disappear *)
Example repaired_forms :
  res_len (tl_get_repaired Nexus d_two_taxa) = Some 2%nat
  /\ (match tr_get_repaired Nexus None None d_two_trees with Ok u => sk_label u | _ => None end) = Some (Some (q "foo")).
Proof. vm_compute. auto. Qed.
