(* C18 - list lemmas used by the simulator proofs *)
From Coq Require Import QArith List Bool Arith Lia Permutation.
From DV Require Import Model.C18Model.
Import ListNotations.
Open Scope nat_scope.

Lemma memb_In : forall x l, memb x l = true <-> In x l.
Proof.
  induction l as [|y r IH]; simpl; [split; [discriminate|tauto]|].
  rewrite orb_true_iff, Nat.eqb_eq, IH. split; intros [H|H]; auto.
Qed.

Lemma memb_false : forall x l, memb x l = false <-> ~ In x l.
Proof.
  intros. rewrite <- memb_In. destruct (memb x l); split; intro H.
  - discriminate H.
  - exfalso; apply H; reflexivity.
  - intro; discriminate.
  - reflexivity.
Qed.

Lemma NoDup_app_iff {A} : forall (l l' : list A),
  NoDup (l ++ l') <-> NoDup l /\ NoDup l' /\ (forall x, In x l -> ~ In x l').
Proof.
  induction l as [|a l IH]; intros l'; simpl.
  - split; [intros H; repeat split; [constructor|assumption|tauto] | tauto].
  - split.
    + intros H. inversion H as [|? ? Hn Hd]; subst. apply IH in Hd. destruct Hd as (H1 & H2 & H3).
      repeat split; auto.
      * constructor; auto. intro Hi. apply Hn. apply in_or_app; auto.
      * intros x [->|Hx]; [intro Hi; apply Hn; apply in_or_app; auto | auto].
    + intros (H1 & H2 & H3). inversion H1 as [|? ? Hn Hd]; subst. constructor.
      * intro Hi. apply in_app_or in Hi. destruct Hi as [Hi|Hi]; [auto | apply (H3 a); auto].
      * apply IH. repeat split; auto.
Qed.

Lemma NoDup_flat_map_elem {A B} (f : A -> list B) : forall l a,
  NoDup (flat_map f l) -> In a l -> NoDup (f a).
Proof.
  induction l as [|k r IH]; intros a Hn Ha; simpl in *; [tauto|].
  apply NoDup_app_iff in Hn. destruct Hn as (H1 & H2 & H3).
  destruct Ha as [->|Ha]; auto.
Qed.

Lemma Permutation_flat_map_app {A B} (f g : A -> list B) : forall l,
  Permutation (flat_map (fun a => f a ++ g a) l) (flat_map f l ++ flat_map g l).
Proof.
  induction l as [|a l IH]; simpl; [constructor|].
  rewrite <- !app_assoc. apply Permutation_app_head.
  eapply Permutation_trans; [apply Permutation_app_head; exact IH|].
  apply Permutation_app_swap_app.
Qed.

Lemma Permutation_flat_map_pointwise {A B} (f g : A -> list B) : forall l,
  Forall (fun a => Permutation (f a) (g a)) l -> Permutation (flat_map f l) (flat_map g l).
Proof.
  induction 1; simpl; [constructor|]. apply Permutation_app; assumption.
Qed.

Lemma flat_map_ext_Forall {A B} (f g : A -> list B) : forall l,
  Forall (fun a => f a = g a) l -> flat_map f l = flat_map g l.
Proof. induction 1; simpl; congruence. Qed.

Lemma map_ext_Forall {A B} (f g : A -> B) : forall l,
  Forall (fun a => f a = g a) l -> map f l = map g l.
Proof. induction 1; simpl; congruence. Qed.

Lemma map_id_Forall {A} (f : A -> A) : forall l, Forall (fun a => f a = a) l -> map f l = l.
Proof. induction 1; simpl; congruence. Qed.

(* remove_first *)
Lemma remove_first_In : forall x y l, In y (remove_first x l) -> In y l.
Proof.
  induction l as [|z r IH]; simpl; [tauto|]. destruct (x =? z); simpl; intuition.
Qed.

Lemma remove_first_NoDup : forall x l, NoDup l -> NoDup (remove_first x l).
Proof.
  induction l as [|z r IH]; simpl; intros H; [constructor|]. inversion H; subst.
  destruct (x =? z); auto. constructor; auto. intro Hi. apply remove_first_In in Hi. auto.
Qed.

Lemma remove_first_spec : forall x y l, NoDup l -> (In y (remove_first x l) <-> In y l /\ y <> x).
Proof.
  induction l as [|z r IH]; simpl; intros H; [tauto|]. inversion H as [|? ? Hn Hd]; subst.
  destruct (x =? z) eqn:E.
  - apply Nat.eqb_eq in E. subst z. split.
    + intros Hy. split; auto. intro; subst; auto.
    + intros [[->|Hy] Hne]; [congruence|auto].
  - apply Nat.eqb_neq in E. simpl. rewrite (IH Hd). split.
    + intros [->|[Hy Hne]]; auto.
    + intros [[->|Hy] Hne]; auto.
Qed.

Lemma remove_first_length : forall x l, In x l -> S (length (remove_first x l)) = length l.
Proof.
  induction l as [|z r IH]; simpl; [tauto|]. intros H. destruct (x =? z) eqn:E; [reflexivity|].
  apply Nat.eqb_neq in E. destruct H as [->|H]; [congruence|]. simpl. rewrite IH; auto.
Qed.

(* remove_nth / nth *)
Lemma remove_nth_length {A} : forall i (l : list A), i < length l -> S (length (remove_nth i l)) = length l.
Proof.
  induction i as [|i IH]; intros [|x r] H; simpl in *; try lia. rewrite IH; lia.
Qed.

Lemma remove_nth_perm {A} (d : A) : forall i (l : list A), i < length l ->
  Permutation l (nth i l d :: remove_nth i l).
Proof.
  induction i as [|i IH]; intros [|x r] H; simpl in *; try lia; [reflexivity|].
  eapply Permutation_trans; [apply perm_skip; apply IH; lia|]. apply perm_swap.
Qed.

Lemma nth_remove_nth {A} (d : A) : forall i j (l : list A), i <> j ->
  nth j l d = nth (if i <? j then j - 1 else j) (remove_nth i l) d.
Proof.
  induction i as [|i IH]; intros j [|x r] Hne; simpl.
  - destruct (0 <? j); destruct (j - 1), j; reflexivity.
  - destruct j as [|j]; [lia|]. simpl. rewrite Nat.sub_0_r. reflexivity.
  - destruct (S i <? j); destruct (j - 1), j; reflexivity.
  - destruct j as [|j]; [reflexivity|]. simpl.
    assert (Hij : i <> j) by lia. rewrite (IH j r Hij).
    change (S i <? S j) with (i <? j). destruct (i <? j) eqn:E.
    + apply Nat.ltb_lt in E. rewrite Nat.sub_0_r. destruct j as [|j]; [lia|]. simpl. rewrite Nat.sub_0_r. reflexivity.
    + reflexivity.
Qed.

(* permutations given as index lists *)
Lemma forallb_memb_incl : forall n p, forallb (fun i => memb i p) (seq 0 n) = true -> incl (seq 0 n) p.
Proof.
  intros n p H x Hx. rewrite forallb_forall in H. apply memb_In. apply H. exact Hx.
Qed.

Lemma is_perm_Permutation : forall n p, is_perm n p = true -> Permutation (seq 0 n) p.
Proof.
  intros n p H. unfold is_perm in H. apply andb_true_iff in H. destruct H as [H1 H2].
  apply Nat.eqb_eq in H1. apply NoDup_Permutation_bis.
  - apply seq_NoDup.
  - rewrite seq_length. lia.
  - apply forallb_memb_incl. exact H2.
Qed.

Lemma map_nth_seq {A} (d : A) : forall l, map (fun i => nth i l d) (seq 0 (length l)) = l.
Proof.
  intros l. apply nth_ext with (d := d) (d' := d).
  - rewrite map_length, seq_length. reflexivity.
  - intros n Hn. rewrite map_length, seq_length in Hn.
    rewrite (nth_indep _ d (nth (length l) l d)) by (rewrite map_length, seq_length; exact Hn).
    change (nth (length l) l d) with ((fun i => nth i l d) (length l)).
    rewrite map_nth. rewrite seq_nth by exact Hn. reflexivity.
Qed.

Lemma apply_perm_Permutation {A} (d : A) : forall p l,
  is_perm (length l) p = true -> Permutation (apply_perm d p l) l.
Proof.
  intros p l H. unfold apply_perm. apply is_perm_Permutation in H.
  eapply Permutation_trans; [apply Permutation_map; apply Permutation_sym; exact H|].
  rewrite map_nth_seq. reflexivity.
Qed.

Lemma apply_perm_length {A} (d : A) : forall p (l : list A), length (apply_perm d p l) = length p.
Proof. intros. unfold apply_perm. apply map_length. Qed.

(* association lists *)
Lemma assoc_In {A} : forall x (m : list (nat * A)) a, assoc x m = Some a -> In (x, a) m.
Proof.
  induction m as [|[y b] r IH]; simpl; intros a H; [discriminate|].
  destruct (x =? y) eqn:E; [apply Nat.eqb_eq in E; inversion H; subst; auto | auto].
Qed.

Lemma assoc_None {A} : forall x (m : list (nat * A)), assoc x m = None <-> ~ In x (map fst m).
Proof.
  induction m as [|[y b] r IH]; simpl; [tauto|].
  destruct (x =? y) eqn:E.
  - apply Nat.eqb_eq in E. subst. split; [discriminate | intros H; exfalso; auto].
  - apply Nat.eqb_neq in E. rewrite IH. split; intros H; [intros [?|?]; [congruence|auto] | auto].
Qed.

Lemma assoc_NoDup_In {A} : forall x (m : list (nat * A)) a,
  NoDup (map fst m) -> In (x, a) m -> assoc x m = Some a.
Proof.
  induction m as [|[y b] r IH]; simpl; intros a Hn Hi; [tauto|]. inversion Hn as [|? ? Hn1 Hn2]; subst.
  destruct Hi as [Hi|Hi].
  - inversion Hi; subst. rewrite Nat.eqb_refl. reflexivity.
  - destruct (x =? y) eqn:E; [|auto]. apply Nat.eqb_eq in E. subst. exfalso. apply Hn1.
    apply in_map_iff. exists (y, a). auto.
Qed.

Lemma qsum_app : forall a b, (qsum (a ++ b) == qsum a + qsum b)%Q.
Proof.
  induction a as [|x r IH]; intros b; simpl; [ring|]. rewrite IH. ring.
Qed.
