(* C04: from the stateful model (worlds, caches, edges named by node ids) to the pure description
   (entries of the normalised structures), for calls with is_bipartitions_updated = False *)
From Coq Require Import ZArith List Bool Lia Permutation.
From DV Require Import Model.PyPrims Model.Tree Model.C04Model Proofs.C04Lists Proofs.C04Loops.
Import ListNotations.
Open Scope Z_scope.

(* ------------------------------------------------------------------------------------------ *)
(* worlds *)

Lemma list_set_nth_same {A} (l : list A) n x y : nth_error l n = Some y -> nth_error (list_set l n x) n = Some x.
Proof.
  revert n. induction l as [|z r IH]; intros [|n]; simpl; try discriminate; [reflexivity|]. apply IH.
Qed.

Lemma list_set_nth_other {A} (l : list A) n m x : n <> m -> nth_error (list_set l n x) m = nth_error l m.
Proof.
  revert n m. induction l as [|z r IH]; intros [|n] [|m] H; simpl; try reflexivity; try congruence.
  apply IH. congruence.
Qed.

Lemma list_set_length {A} (l : list A) n x : length (list_set l n x) = length l.
Proof. revert n. induction l as [|z r IH]; intros [|n]; simpl; try reflexivity. rewrite IH. reflexivity. Qed.

Lemma list_set_set_same {A} (l : list A) n x y : list_set (list_set l n x) n y = list_set l n y.
Proof. revert n. induction l as [|z r IH]; intros [|n]; simpl; try reflexivity. rewrite IH. reflexivity. Qed.

Lemma list_set_comm {A} (l : list A) n m x y :
  n <> m -> list_set (list_set l n x) m y = list_set (list_set l m y) n x.
Proof.
  revert n m. induction l as [|z r IH]; intros [|n] [|m] H; simpl; try reflexivity; try congruence.
  rewrite IH by congruence. reflexivity.
Qed.

Lemma get_set_same w a st st0 : get_t w a = Ok st0 -> get_t (set_t w a st) a = Ok st.
Proof.
  unfold get_t, set_t. simpl. destruct (nth_error (w_trees w) a) eqn:E; [|discriminate]. intros _.
  rewrite (list_set_nth_same _ _ _ _ E). reflexivity.
Qed.

Lemma get_set_other w a b st : a <> b -> get_t (set_t w a st) b = get_t w b.
Proof. intro H. unfold get_t, set_t. simpl. rewrite list_set_nth_other by exact H. reflexivity. Qed.

Lemma acc_set w a st : w_acc (set_t w a st) = w_acc w.
Proof. reflexivity. Qed.

(* ------------------------------------------------------------------------------------------ *)
(* the state encode_bipartitions() leaves behind *)

Definition enc_state (acc : acc_map) (st : tstate) : tstate :=
  let s' := normalise (ts_struct st) in
  let pairs := enc_pairs acc s' in
  mkTS (ts_ns st) (fst s') (snd s')
       (map (fun d => (fst d, (snd d, true))) (removed_by_encode (ts_struct st)) ++ ts_det st)
       (ebip_update pairs (ts_ebip st))
       (negb (Z.eqb (lmask acc (fst s')) 0))
       (Some (map fst pairs))
       None.

Lemma encode_st_ok acc st : taxa_known acc (ts_tree st) = true -> encode_st acc st = Ok (enc_state acc st).
Proof. intro H. unfold encode_st. rewrite H. reflexivity. Qed.

Lemma encode_st_unknown acc st : taxa_known acc (ts_tree st) = false -> encode_st acc st = Err KeyErr.
Proof. intro H. unfold encode_st. rewrite H. reflexivity. Qed.

Lemma encode_at_ok w a st :
  get_t w a = Ok st -> taxa_known (w_acc w) (ts_tree st) = true ->
  encode_at w a = (Ok tt, set_t w a (enc_state (w_acc w) st)).
Proof. intros H K. unfold encode_at. rewrite H, (encode_st_ok _ _ K). reflexivity. Qed.

Lemma enc_state_struct acc st : ts_struct (enc_state acc st) = normalise (ts_struct st).
Proof. unfold enc_state. cbv zeta. unfold ts_struct at 1. cbn [ts_tree ts_rooted]. symmetry. apply surjective_pairing. Qed.

Lemma enc_state_ns acc st : ts_ns (enc_state acc st) = ts_ns st.
Proof. reflexivity. Qed.

Lemma pnodes_not_nil acc r t : pnodes acc r t <> [].
Proof. destruct t. simpl. intro H. apply app_eq_nil in H. destruct H; discriminate. Qed.

Lemma enc_pairs_fst acc s : map fst (enc_pairs acc s) = map fst (entries_n acc s).
Proof. unfold enc_pairs, entries_n. rewrite !map_map. reflexivity. Qed.

Lemma enc_pairs_not_nil acc s : map fst (enc_pairs acc s) <> [].
Proof.
  unfold enc_pairs. rewrite map_map. intro H. apply map_eq_nil in H. eapply pnodes_not_nil, H.
Qed.

(* ------------------------------------------------------------------------------------------ *)
(* the prologue with the default argument *)

Lemma prologue_fresh w a b sa sb :
  a <> b -> get_t w a = Ok sa -> get_t w b = Ok sb -> ts_ns sa = ts_ns sb ->
  taxa_known (w_acc w) (ts_tree sa) = true -> taxa_known (w_acc w) (ts_tree sb) = true ->
  prologue w a b false
  = (Ok tt, set_t (set_t w a (enc_state (w_acc w) sa)) b (enc_state (w_acc w) sb)).
Proof.
  intros Hab Ha Hb Hns Ka Kb. unfold prologue. rewrite Ha, Hb, Hns, Z.eqb_refl. cbn [negb].
  rewrite (encode_at_ok w a sa Ha Ka). cbn [wbind].
  assert (Hb' : get_t (set_t w a (enc_state (w_acc w) sa)) b = Ok sb) by (rewrite get_set_other by exact Hab; exact Hb).
  exact (encode_at_ok _ b sb Hb' Kb).
Qed.

Lemma prologue_ns_mismatch w a b sa sb upd :
  get_t w a = Ok sa -> get_t w b = Ok sb -> ts_ns sa <> ts_ns sb ->
  prologue w a b upd = (Err ValueErr, w).
Proof.
  intros Ha Hb Hns. unfold prologue. rewrite Ha, Hb. apply Z.eqb_neq in Hns. rewrite Hns. reflexivity.
Qed.

(* ------------------------------------------------------------------------------------------ *)
(* false_positives_and_negatives / symmetric_difference / find_missing_bipartitions *)

Definition frozen_ok (acc : acc_map) (s : struct) : Prop := lmask acc (fst (normalise s)) <> 0.

Lemma fpfn_fresh w a b sa sb :
  a <> b -> get_t w a = Ok sa -> get_t w b = Ok sb -> ts_ns sa = ts_ns sb ->
  taxa_known (w_acc w) (ts_tree sa) = true -> taxa_known (w_acc w) (ts_tree sb) = true ->
  frozen_ok (w_acc w) (ts_struct sa) -> frozen_ok (w_acc w) (ts_struct sb) ->
  do_fpfn w a b false
  = (Ok (diff_count (splits (w_acc w) (ts_struct sb)) (splits (w_acc w) (ts_struct sa)),
         diff_count (splits (w_acc w) (ts_struct sa)) (splits (w_acc w) (ts_struct sb))),
     set_t (set_t w a (enc_state (w_acc w) sa)) b (enc_state (w_acc w) sb)).
Proof.
  intros Hab Ha Hb Hns Ka Kb Fa Fb. unfold do_fpfn.
  rewrite (prologue_fresh w a b sa sb Hab Ha Hb Hns Ka Kb). cbn [wbind].
  set (w1 := set_t (set_t w a (enc_state (w_acc w) sa)) b (enc_state (w_acc w) sb)).
  assert (Ga : get_t w1 a = Ok (enc_state (w_acc w) sa)).
  { unfold w1. rewrite get_set_other by congruence. eapply get_set_same, Ha. }
  assert (Gb : get_t w1 b = Ok (enc_state (w_acc w) sb)).
  { unfold w1. eapply get_set_same. rewrite get_set_other by exact Hab. exact Hb. }
  unfold enc_at. rewrite Ga, Gb. cbn [ts_enc ts_frozen enc_state].
  unfold frozen_ok in Fa, Fb. apply Z.eqb_neq in Fa. apply Z.eqb_neq in Fb. rewrite Fa, Fb. cbn [negb andb orb].
  unfold splits, entries. rewrite !enc_pairs_fst. reflexivity.
Qed.

Lemma symdiff_fresh w a b sa sb :
  a <> b -> get_t w a = Ok sa -> get_t w b = Ok sb -> ts_ns sa = ts_ns sb ->
  taxa_known (w_acc w) (ts_tree sa) = true -> taxa_known (w_acc w) (ts_tree sb) = true ->
  frozen_ok (w_acc w) (ts_struct sa) -> frozen_ok (w_acc w) (ts_struct sb) ->
  do_symdiff w a b false
  = (Ok (diff_count (splits (w_acc w) (ts_struct sb)) (splits (w_acc w) (ts_struct sa))
         + diff_count (splits (w_acc w) (ts_struct sa)) (splits (w_acc w) (ts_struct sb))),
     set_t (set_t w a (enc_state (w_acc w) sa)) b (enc_state (w_acc w) sb)).
Proof.
  intros. unfold do_symdiff. rewrite (fpfn_fresh w a b sa sb) by assumption. reflexivity.
Qed.

Lemma missing_fresh w a b sa sb :
  a <> b -> get_t w a = Ok sa -> get_t w b = Ok sb -> ts_ns sa = ts_ns sb ->
  taxa_known (w_acc w) (ts_tree sa) = true -> taxa_known (w_acc w) (ts_tree sb) = true ->
  do_missing w a b false
  = (Ok (filter (fun m => negb (memz m (splits (w_acc w) (ts_struct sb)))) (splits (w_acc w) (ts_struct sa))),
     set_t (set_t w a (enc_state (w_acc w) sa)) b (enc_state (w_acc w) sb)).
Proof.
  intros Hab Ha Hb Hns Ka Kb. unfold do_missing.
  rewrite (prologue_fresh w a b sa sb Hab Ha Hb Hns Ka Kb). cbn [wbind].
  set (w1 := set_t (set_t w a (enc_state (w_acc w) sa)) b (enc_state (w_acc w) sb)).
  assert (Ga : get_t w1 a = Ok (enc_state (w_acc w) sa)).
  { unfold w1. rewrite get_set_other by congruence. eapply get_set_same, Ha. }
  assert (Gb : get_t w1 b = Ok (enc_state (w_acc w) sb)).
  { unfold w1. eapply get_set_same. rewrite get_set_other by exact Hab. exact Hb. }
  unfold enc_at. rewrite Ga, Gb. cbn [ts_enc ts_frozen enc_state].
  unfold splits, entries. rewrite !enc_pairs_fst. reflexivity.
Qed.

(* ------------------------------------------------------------------------------------------ *)
(* bipartition_edge_map of a freshly encoded tree *)

Definition ids_ok (acc : acc_map) (s : struct) : Prop :=
  NoDup (map fst (pnodes acc true (fst (normalise s)))).

Lemma in_dict_set {V} k (v : V) l x : In x (dict_set k v l) -> x = (k, v) \/ In x l.
Proof.
  induction l as [|[k0 v0] r IH]; simpl.
  - intros [H|[]]. left. symmetry. exact H.
  - destruct (Z.eqb k k0) eqn:E.
    + apply Z.eqb_eq in E. subst. intros [H|H]; [left; symmetry; exact H | right; right; exact H].
    + intros [H|H]; [right; left; exact H|]. apply IH in H. tauto.
Qed.

Lemma in_fold_dict {V} (l d : list (Z * V)) x :
  In x (fold_left (fun d kv => dict_set (fst kv) (snd kv) d) l d) -> In x d \/ In x l.
Proof.
  revert d. induction l as [|[k v] r IH]; simpl; intro d; [tauto|].
  intro H. apply IH in H. destruct H as [H|H]; [|tauto]. apply in_dict_set in H. simpl in H.
  destruct H as [H|H]; [right; left; symmetry; exact H | tauto].
Qed.

Lemma in_dict_of {V} (l : list (Z * V)) x : In x (dict_of l) -> In x l.
Proof. intro H. apply in_fold_dict in H. destruct H as [[]|H]. exact H. Qed.

Lemma build_bmap_spec {N} (fid fm : N -> Z) ebip : forall (ns : list N) d,
  (forall n, In n ns -> zlookup (fid n) ebip = Some (fm n)) ->
  build_bmap ebip (map fid ns) d
  = Ok (fold_left (fun d kv => dict_set (fst kv) (snd kv) d) (map (fun n => (fm n, fid n)) ns) d).
Proof.
  induction ns as [|n r IH]; intros d H; [reflexivity|].
  simpl. rewrite (H n (or_introl eq_refl)). apply IH. intros m Hm. apply H. right. exact Hm.
Qed.

Lemma zlookup_map_key {N V} (fid : N -> Z) (fv : N -> V) (ns : list N) n :
  NoDup (map fid ns) -> In n ns -> zlookup (fid n) (map (fun n => (fid n, fv n)) ns) = Some (fv n).
Proof.
  intros H Hin. apply zlookup_nodup.
  - unfold keys. rewrite map_map. exact H.
  - apply in_map_iff. exists n. split; [reflexivity|exact Hin].
Qed.

(* the state after bipartition_edge_map has been built on a freshly encoded tree *)
Definition bmap_state (acc : acc_map) (st : tstate) : tstate :=
  let st1 := enc_state acc st in
  mkTS (ts_ns st1) (ts_tree st1) (ts_rooted st1) (ts_det st1) (ts_ebip st1) (ts_frozen st1) (ts_enc st1)
       (Some (dict_of (enc_pairs acc (ts_struct st1)))).

Lemma get_bmap_fresh acc st :
  frozen_ok acc (ts_struct st) -> ids_ok acc (ts_struct st) ->
  get_bmap acc (enc_state acc st)
  = (Ok (dict_of (enc_pairs acc (normalise (ts_struct st)))), bmap_state acc st).
Proof.
  intros F I. unfold get_bmap, bmap_state. cbv zeta.
  assert (E1 : falsy (ts_bmap (enc_state acc st)) = true) by reflexivity.
  rewrite E1. cbn [negb].
  assert (E2 : falsy (ts_enc (enc_state acc st)) = false).
  { cbn [ts_enc enc_state falsy]. destruct (map fst (enc_pairs acc (normalise (ts_struct st)))) eqn:E; [|reflexivity].
    exfalso. eapply enc_pairs_not_nil, E. }
  rewrite E2.
  assert (E3 : ts_frozen (enc_state acc st) = true).
  { cbn [ts_frozen enc_state]. unfold frozen_ok in F. apply Z.eqb_neq in F. rewrite F. reflexivity. }
  rewrite E3. cbn [negb].
  set (s' := normalise (ts_struct st)).
  assert (Et : ts_tree (enc_state acc st) = fst s') by reflexivity.
  rewrite Et.
  rewrite (build_bmap_spec (fun n : Z * (Z * (option Z * bool)) => fst n)
            (fun n => split_of (snd s') (lmask acc (fst s')) (fst (snd n)))).
  - rewrite enc_state_struct. fold s'. unfold dict_of, enc_pairs. reflexivity.
  - intros n Hn. cbn [ts_ebip enc_state]. fold s'. unfold ebip_update. rewrite zlookup_app.
    unfold enc_pairs. rewrite map_map. cbn [fst snd]. unfold ids_ok in I. fold s' in I.
    rewrite (zlookup_map_key (fun n : Z * (Z * (option Z * bool)) => fst n)
               (fun n => split_of (snd s') (lmask acc (fst s')) (fst (snd n))) _ n I Hn).
    reflexivity.
Qed.

Lemma bmap_state_struct acc st : ts_struct (bmap_state acc st) = normalise (ts_struct st).
Proof. unfold bmap_state, ts_struct. cbn [ts_tree ts_rooted]. apply enc_state_struct. Qed.

(* a second access returns the cached map *)
Lemma get_bmap_cached acc st :
  get_bmap acc (bmap_state acc st)
  = (Ok (dict_of (enc_pairs acc (ts_struct (enc_state acc st)))), bmap_state acc st).
Proof.
  unfold get_bmap. cbn [ts_bmap bmap_state].
  destruct (dict_of (enc_pairs acc (ts_struct (enc_state acc st)))) eqn:E; [|reflexivity].
  exfalso. assert (K : forall k, In k (keys (dict_of (enc_pairs acc (ts_struct (enc_state acc st))))) -> False).
  { rewrite E. intros k []. }
  destruct (map fst (enc_pairs acc (ts_struct (enc_state acc st)))) as [|k r] eqn:E2.
  - eapply enc_pairs_not_nil, E2.
  - apply (K k). apply dict_of_keys. unfold keys. rewrite E2. left. reflexivity.
Qed.

(* the edge information of the nodes of the normalised tree *)
Definition ginfo (acc : acc_map) (s' : struct) (i : Z) : option Z * bool :=
  match zlookup i (pnodes acc true (fst s')) with Some x => snd x | None => (None, false) end.

Lemma edge_info_tree acc st i x :
  zlookup i (pnodes acc true (ts_tree st)) = Some x -> edge_info acc st i = Ok (snd x).
Proof. intro H. unfold edge_info. rewrite H. reflexivity. Qed.

Lemma mapv_ginfo_pairs acc s' :
  NoDup (map fst (pnodes acc true (fst s'))) ->
  mapv (ginfo acc s') (enc_pairs acc s') = entries_n acc s'.
Proof.
  intro H. unfold mapv, enc_pairs, entries_n. rewrite map_map. apply map_ext_in.
  intros n Hn. cbn [fst snd]. f_equal. unfold ginfo.
  rewrite (zlookup_nodup (fst n) (snd n) (pnodes acc true (fst s'))).
  - reflexivity.
  - exact H.
  - destruct n. exact Hn.
Qed.

Lemma dict_values_are_ids acc s' k i :
  In (k, i) (dict_of (enc_pairs acc s')) -> In i (map fst (pnodes acc true (fst s'))).
Proof.
  intro H. apply in_dict_of in H. unfold enc_pairs in H. apply in_map_iff in H.
  destruct H as [n [E Hn]]. inversion E; subst. apply in_map. exact Hn.
Qed.

(* ------------------------------------------------------------------------------------------ *)
(* the loops read edges through node ids: same thing as reading the entries directly *)

Section Bridge.
Variable p : policy.
Variables (i1 i2 : Z -> res (option Z * bool)) (g1 g2 : Z -> option Z * bool).

Lemma loop1_bridge : forall (m1 m2 : list (Z * Z)) out,
  (forall kx, In kx m1 -> i1 (snd kx) = Ok (g1 (snd kx))) ->
  (forall kx, In kx m2 -> i2 (snd kx) = Ok (g2 (snd kx))) ->
  loop1 p (fun x => Ok x) (fun x => Ok x) (mapv g1 m1) (mapv g2 m2) out
  = match loop1 p i1 i2 m1 m2 out with
    | Ok (o, r) => Ok (o, mapv g2 r)
    | Err e => Err e
    | OutOfFuel => OutOfFuel
    end.
Proof.
  induction m1 as [|[k e1] r IH]; intros m2 out H1 H2; [reflexivity|].
  cbn [mapv map loop1 fst snd bind]. pose proof (H1 (k, e1) (or_introl eq_refl)) as Q1. cbn [snd] in Q1. rewrite Q1. cbn [bind].
  destruct (lenient_value p (g1 e1)) as [v1| |]; cbn [bind]; try reflexivity.
  fold (mapv g1 r). fold (mapv g2 m2). rewrite dict_pop_mapv.
  unfold dict_pop at 2. unfold dict_pop at 1.
  destruct (zlookup k m2) as [e2|] eqn:E2; cbn [option_map fst snd bind].
  - assert (Hin : In (k, e2) m2) by (apply zlookup_In, E2).
    pose proof (H2 (k, e2) Hin) as Q2. cbn [snd] in Q2. rewrite Q2. cbn [bind].
    destruct (strict_value p (g2 e2)) as [v2| |]; cbn [bind]; try reflexivity.
    apply IH.
    + intros kx Hkx. apply H1. right. exact Hkx.
    + intros kx Hkx. apply H2. eapply dict_remove_In, Hkx.
  - apply IH; [|exact H2]. intros kx Hkx. apply H1. right. exact Hkx.
Qed.

Lemma loop2_bridge : forall (m1 rest : list (Z * Z)) out,
  (forall kx, In kx m1 -> i1 (snd kx) = Ok (g1 (snd kx))) ->
  (forall kx, In kx rest -> i2 (snd kx) = Ok (g2 (snd kx))) ->
  loop2 p (fun x => Ok x) (fun x => Ok x) (mapv g1 m1) (mapv g2 rest) out
  = loop2 p i1 i2 m1 rest out.
Proof.
  intros m1 rest. induction rest as [|[k e2] r IH]; intros out H1 H2; [reflexivity|].
  cbn [mapv map loop2 fst snd bind]. pose proof (H2 (k, e2) (or_introl eq_refl)) as Q2. cbn [snd] in Q2. rewrite Q2. cbn [bind].
  destruct (lenient_value p (g2 e2)) as [v2| |]; cbn [bind]; try reflexivity.
  fold (mapv g1 m1). fold (mapv g2 r). rewrite zlookup_mapv.
  destruct (zlookup k m1) as [e1|] eqn:E1; cbn [option_map bind].
  - assert (Hin : In (k, e1) m1) by (apply zlookup_In, E1).
    pose proof (H1 (k, e1) Hin) as Q1. cbn [snd] in Q1. rewrite Q1. cbn [bind].
    destruct (strict_value p (g1 e1)) as [v1| |]; cbn [bind]; try reflexivity.
    apply IH; [exact H1|]. intros kx Hkx. apply H2. right. exact Hkx.
  - apply IH; [exact H1|]. intros kx Hkx. apply H2. right. exact Hkx.
Qed.

Lemma loop1_rest_sub : forall (m1 m2 : list (Z * Z)) out o r,
  loop1 p i1 i2 m1 m2 out = Ok (o, r) -> forall kx, In kx r -> In kx m2.
Proof.
  induction m1 as [|[k e1] r1 IH]; intros m2 out o r H kx Hkx.
  - simpl in H. inversion H; subst. exact Hkx.
  - cbn [loop1 bind] in H. destruct (i1 e1) as [x1| |]; cbn [bind] in H; try discriminate.
    destruct (lenient_value p x1); cbn [bind] in H; try discriminate.
    unfold dict_pop in H. destruct (zlookup k m2) as [e2|].
    + cbn [bind] in H. destruct (i2 e2) as [x2| |]; cbn [bind] in H; try discriminate.
      destruct (strict_value p x2); cbn [bind] in H; try discriminate.
      eapply dict_remove_In. eapply IH; [exact H|exact Hkx].
    + eapply IH; [exact H|exact Hkx].
Qed.

Lemma length_diffs_bridge (m1 m2 : list (Z * Z)) :
  (forall kx, In kx m1 -> i1 (snd kx) = Ok (g1 (snd kx))) ->
  (forall kx, In kx m2 -> i2 (snd kx) = Ok (g2 (snd kx))) ->
  length_diffs p i1 i2 m1 m2
  = length_diffs p (fun x => Ok x) (fun x => Ok x) (mapv g1 m1) (mapv g2 m2).
Proof.
  intros H1 H2. unfold length_diffs. rewrite (loop1_bridge m1 m2 [] H1 H2).
  destruct (loop1 p i1 i2 m1 m2 []) as [[o r]| |] eqn:E; cbn [bind fst snd]; try reflexivity.
  symmetry. apply loop2_bridge; [exact H1|].
  intros kx Hkx. apply H2. eapply loop1_rest_sub; [exact E|exact Hkx].
Qed.
End Bridge.

(* ------------------------------------------------------------------------------------------ *)
(* _get_length_diffs with the default argument *)

Definition ld_pure (p : policy) (acc : acc_map) (s1 s2 : struct) : res (list (Z * Z)) :=
  length_diffs p (fun x => Ok x) (fun x => Ok x) (dict_of (entries acc s1)) (dict_of (entries acc s2)).

Definition wf (acc : acc_map) (s : struct) : Prop :=
  taxa_known acc (fst s) = true /\ frozen_ok acc s /\ ids_ok acc s.

Lemma length_diffs_fresh p w a b sa sb :
  a <> b -> get_t w a = Ok sa -> get_t w b = Ok sb -> ts_ns sa = ts_ns sb ->
  wf (w_acc w) (ts_struct sa) -> wf (w_acc w) (ts_struct sb) ->
  do_length_diffs p w a b false
  = (ld_pure p (w_acc w) (ts_struct sa) (ts_struct sb),
     set_t (set_t w a (bmap_state (w_acc w) sa)) b (bmap_state (w_acc w) sb)).
Proof.
  intros Hab Ha Hb Hns [Ka [Fa Ia]] [Kb [Fb Ib]]. unfold do_length_diffs.
  set (acc := w_acc w) in *.
  rewrite (prologue_fresh w a b sa sb Hab Ha Hb Hns Ka Kb). cbn [wbind]. fold acc.
  set (w1 := set_t (set_t w a (enc_state acc sa)) b (enc_state acc sb)).
  assert (Ga : get_t w1 a = Ok (enc_state acc sa)).
  { unfold w1. rewrite get_set_other by congruence. eapply get_set_same, Ha. }
  assert (Gb : get_t w1 b = Ok (enc_state acc sb)).
  { unfold w1. eapply get_set_same. rewrite get_set_other by exact Hab. exact Hb. }
  unfold bmap_at at 1. rewrite Gb. change (w_acc w1) with acc.
  rewrite (get_bmap_fresh acc sb Fb Ib). cbn [wbind].
  set (w2 := set_t w1 b (bmap_state acc sb)).
  assert (Ga2 : get_t w2 a = Ok (enc_state acc sa)).
  { unfold w2. rewrite get_set_other by congruence. exact Ga. }
  unfold bmap_at. rewrite Ga2. change (w_acc w2) with acc.
  rewrite (get_bmap_fresh acc sa Fa Ia). cbn [wbind].
  set (w3 := set_t w2 a (bmap_state acc sa)).
  assert (Ga3 : get_t w3 a = Ok (bmap_state acc sa)).
  { unfold w3. eapply get_set_same, Ga2. }
  assert (Gb3 : get_t w3 b = Ok (bmap_state acc sb)).
  { unfold w3. rewrite get_set_other by exact Hab. unfold w2. eapply get_set_same, Gb. }
  assert (Ew : w3 = set_t (set_t w a (bmap_state acc sa)) b (bmap_state acc sb)).
  { unfold w3, w2, w1, set_t. cbn [w_acc w_trees]. f_equal.
    rewrite list_set_set_same.
    rewrite (list_set_comm (w_trees w) a b (enc_state acc sa) (bmap_state acc sb)) by congruence.
    rewrite list_set_set_same. apply list_set_comm. congruence. }
  rewrite <- Ew. f_equal.
  set (sa' := normalise (ts_struct sa)). set (sb' := normalise (ts_struct sb)).
  rewrite (length_diffs_bridge p (info_at w3 a) (info_at w3 b) (ginfo acc sa') (ginfo acc sb')).
  - unfold ld_pure, entries. fold sa' sb'.
    rewrite <- !dict_of_mapv, (mapv_ginfo_pairs acc sa' Ia), (mapv_ginfo_pairs acc sb' Ib). reflexivity.
  - intros [k i] Hin. cbn [snd]. apply dict_values_are_ids in Hin.
    unfold info_at. rewrite Ga3. cbn [bind]. change (w_acc w3) with acc.
    apply in_map_iff in Hin. destruct Hin as [n [En Hn]].
    assert (Z1 : zlookup i (pnodes acc true (fst sa')) = Some (snd n)).
    { subst i. apply zlookup_nodup; [exact Ia|]. destruct n; exact Hn. }
    unfold ginfo. rewrite Z1. apply edge_info_tree. exact Z1.
  - intros [k i] Hin. cbn [snd]. apply dict_values_are_ids in Hin.
    unfold info_at. rewrite Gb3. cbn [bind]. change (w_acc w3) with acc.
    apply in_map_iff in Hin. destruct Hin as [n [En Hn]].
    assert (Z1 : zlookup i (pnodes acc true (fst sb')) = Some (snd n)).
    { subst i. apply zlookup_nodup; [exact Ib|]. destruct n; exact Hn. }
    unfold ginfo. rewrite Z1. apply edge_info_tree. exact Z1.
Qed.
