(* C14: a rooted binary ultrametric tree with positive internal edge lengths is determined, up to
   child order, by its leaf-to-leaf path distances *)
From Coq Require Import ZArith QArith Qabs List Bool Lia Lqa.
From DV Require Import Model.PyPrims Model.Tree Model.C14Model Model.C14Spec Model.C14Spec2
     Proofs.C14Dict Proofs.C14Pdm Proofs.C14Upgma.
Import ListNotations.
Open Scope Z_scope.

Section QInd.
  Variable P : qtree -> Prop.
  Hypothesis H : forall i x l ks, Forall P ks -> P (QT i x l ks).
  Fixpoint qtree_ind' (t : qtree) : P t :=
    match t with
    | QT i x l ks =>
      H i x l ks ((fix go (ks : list qtree) : Forall P ks :=
                     match ks with
                     | [] => Forall_nil P
                     | k :: r => Forall_cons k (qtree_ind' k) (go r)
                     end) ks)
    end.
End QInd.

Lemma qhas_taxa a : forall t, qhas a t = true <-> In a (qtaxa t).
Proof.
  induction t as [i x l ks IH] using qtree_ind'. destruct ks as [|k r].
  - simpl. destruct x as [b|]; simpl.
    + rewrite Z.eqb_eq. split; [intros ->; left; reflexivity | intros [E|[]]; congruence].
    + split; [discriminate | tauto].
  - change (qhas a (QT i x l (k :: r))) with (existsb (qhas a) (k :: r)).
    change (qtaxa (QT i x l (k :: r))) with (flat_map qtaxa (k :: r)).
    rewrite existsb_exists, in_flat_map. rewrite Forall_forall in IH.
    split; intros [c [Hc Hh]]; exists c; split; auto; apply (IH c Hc); exact Hh.
Qed.

(* ---------- a node with two children ---------- *)
Section Node2.
Variables (i : Z) (x : option Z) (l : option Q) (A B : qtree).
Let N := QT i x l [A; B].

Lemma qhas_node2 a : qhas a N = qhas a A || qhas a B.
Proof. unfold N. simpl. rewrite orb_false_r. reflexivity. Qed.

Lemma qtaxa_node2 : qtaxa N = qtaxa A ++ qtaxa B.
Proof. unfold N. simpl. rewrite app_nil_r. reflexivity. Qed.

Lemma qdown_node2 a :
  qdown a N = match qdown a A with
              | Some d => Some (d + qlen0 A)%Q
              | None => match qdown a B with Some d => Some (d + qlen0 B)%Q | None => None end
              end.
Proof. unfold N. simpl. destruct (qdown a A); [reflexivity|]. destruct (qdown a B); reflexivity. Qed.

Lemma qlca_some a b t : qhas a t = true -> qhas b t = true -> qlca a b t <> None.
Proof.
  intros Ha Hb. destruct t as [j y e ks]. rewrite qlca_node, Ha, Hb. simpl.
  destruct (first_some (qlca a b) ks); discriminate.
Qed.

Lemma qdist_node2_l a b : qhas a A = true -> qhas b A = true -> qdist N a b = qdist A a b.
Proof.
  intros Ha Hb. unfold qdist, N. rewrite qlca_node. fold N. rewrite !qhas_node2, Ha, Hb. simpl andb. simpl first_some.
  pose proof (qlca_some a b A Ha Hb) as E. destruct (qlca a b A); [reflexivity | congruence].
Qed.

Lemma qdist_node2_r a b : qhas a A = false -> qhas b A = false -> qhas a B = true -> qhas b B = true ->
  qdist N a b = qdist B a b.
Proof.
  intros Na Nb Ha Hb. unfold qdist, N. rewrite qlca_node. fold N. rewrite !qhas_node2, Na, Nb, Ha, Hb. simpl andb. simpl first_some.
  rewrite (qlca_none a b A) by (rewrite Na; reflexivity).
  pose proof (qlca_some a b B Ha Hb) as E. destruct (qlca a b B); [reflexivity | congruence].
Qed.

Lemma qdist_node2_cross a b : qhas a N = true -> qhas b N = true ->
  qhas a A && qhas b A = false -> qhas a B && qhas b B = false ->
  qdist N a b = match qdown a N, qdown b N with Some p, Some q => Some (p + q)%Q | _, _ => None end.
Proof.
  intros Ha Hb NA NB. unfold qdist. unfold N at 1. rewrite qlca_node. fold N. rewrite Ha, Hb. simpl andb. simpl first_some.
  rewrite (qlca_none a b A NA), (qlca_none a b B NB). reflexivity.
Qed.
End Node2.

(* ---------- dendrograms ---------- *)
Lemma dendro_node s h i x l a b :
  dendro s h (QT i x l [a; b]) <->
  exists ha hb,
    dendro s ha a /\ dendro s hb b /\
    (h == ha + qlen0 a)%Q /\ (h == hb + qlen0 b)%Q /\ (0 <= qlen0 a)%Q /\ (0 <= qlen0 b)%Q /\
    (s = true -> (q_kids a <> [] -> (0 < qlen0 a)%Q) /\ (q_kids b <> [] -> (0 < qlen0 b)%Q)).
Proof. reflexivity. Qed.

Lemma dendro_node_inv s h i x l a b :
  dendro s h (QT i x l [a; b]) ->
  exists ha hb,
    dendro s ha a /\ dendro s hb b /\
    (h == ha + qlen0 a)%Q /\ (h == hb + qlen0 b)%Q /\ (0 <= qlen0 a)%Q /\ (0 <= qlen0 b)%Q /\
    (s = true -> (q_kids a <> [] -> (0 < qlen0 a)%Q) /\ (q_kids b <> [] -> (0 < qlen0 b)%Q)).
Proof. intro H. exact H. Qed.

Lemma dendro_shape s h t : dendro s h t ->
  (exists i a l, t = QT i (Some a) l []) \/ (exists i x l A B, t = QT i x l [A; B]).
Proof.
  destruct t as [i x l ks]. destruct ks as [|A [|B [|C r]]]; simpl; intro H.
  - left. destruct x as [a|]; [eauto | destruct H as [H _]; congruence].
  - destruct H.
  - right. eauto 10.
  - destruct H.
Qed.

Lemma dendro_nonneg s : forall t h, dendro s h t -> (0 <= h)%Q.
Proof.
  induction t as [i x l ks IH] using qtree_ind'. intros h D. destruct (dendro_shape s h _ D) as [[j [a [e E]]]|[j [y [e [A [B E]]]]]].
  - inversion E. subst. destruct D as [_ D]. rewrite D. apply Qle_refl.
  - inversion E. subst. apply dendro_node_inv in D. destruct D as [ha [hb [DA [DB [E1 [E2 [LA [LB _]]]]]]]].
    inversion IH as [|? ? IA _]. subst. specialize (IA ha DA). lra.
Qed.

Lemma dendro_down s a : forall t h, dendro s h t -> qhas a t = true -> exists q, qdown a t = Some q /\ (q == h)%Q.
Proof.
  induction t as [i x l ks IH] using qtree_ind'. intros h D Ha.
  destruct (dendro_shape s h _ D) as [[j [b [e E]]]|[j [y [e [A [B E]]]]]].
  - inversion E. subst. destruct D as [_ D]. simpl in Ha. exists 0%Q. simpl. rewrite Ha. split; [reflexivity | symmetry; exact D].
  - inversion E. subst. apply dendro_node_inv in D. destruct D as [ha [hb [DA [DB [E1 [E2 _]]]]]].
    inversion IH as [|? ? IA IH2]. inversion IH2 as [|? ? IB _]. subst.
    rewrite qhas_node2 in Ha. rewrite qdown_node2. destruct (qhas a A) eqn:HA.
    + destruct (IA ha DA eq_refl) as [q [Hq Eq]]. rewrite Hq. exists (q + qlen0 A)%Q. split; [reflexivity | lra].
    + simpl in Ha. rewrite (qdown_none a A HA). destruct (IB hb DB Ha) as [q [Hq Eq]]. rewrite Hq.
      exists (q + qlen0 B)%Q. split; [reflexivity | lra].
Qed.

Lemma dendro_inhabited s : forall t h, dendro s h t -> exists a, qhas a t = true.
Proof.
  induction t as [i x l ks IH] using qtree_ind'. intros h D.
  destruct (dendro_shape s h _ D) as [[j [b [e E]]]|[j [y [e [A [B E]]]]]].
  - inversion E. subst. exists b. simpl. apply Z.eqb_refl.
  - inversion E. subst. apply dendro_node_inv in D. destruct D as [ha [hb [DA _]]].
    inversion IH as [|? ? IA _]. subst. destruct (IA ha DA) as [a Ha]. exists a. rewrite qhas_node2, Ha. reflexivity.
Qed.

Lemma NoDup_app_disjoint {A} (l1 l2 : list A) x : NoDup (l1 ++ l2) -> In x l1 -> In x l2 -> False.
Proof. intros N H1 H2. exact (NoDup_app_disj l1 l2 x N H1 H2). Qed.

Lemma node2_disjoint A B a : NoDup (qtaxa A ++ qtaxa B) -> qhas a A = true -> qhas a B = false.
Proof.
  intros N Ha. destruct (qhas a B) eqn:E; [|reflexivity]. exfalso.
  apply qhas_taxa in Ha. apply qhas_taxa in E. eapply NoDup_app_disjoint; eassumption.
Qed.

Lemma leaf_taxa_unique t a b : q_kids t = [] -> qhas a t = true -> qhas b t = true -> a = b.
Proof.
  destruct t as [i x l ks]. simpl. intros ->. simpl. intros Ha Hb. apply oz_eqb_eq in Ha. apply oz_eqb_eq in Hb. congruence.
Qed.

(* distances inside a dendrogram: at most twice the height; exactly twice the height across the root;
   strictly less on one side when internal edges are positive *)
Lemma dendro_dist s x y : forall t h, dendro s h t -> NoDup (qtaxa t) -> qhas x t = true -> qhas y t = true ->
  exists q, qdist t x y = Some q /\ (q <= 2 * h)%Q.
Proof.
  induction t as [i x0 l ks IH] using qtree_ind'. intros h D N Hx Hy.
  destruct (dendro_shape s h _ D) as [[j [b [e E]]]|[j [y0 [e [A [B E]]]]]].
  - inversion E. subst. simpl in Hx, Hy. unfold qdist. rewrite qlca_node. simpl qhas. rewrite Hx, Hy. simpl.
    rewrite Hx, Hy. exists (0 + 0)%Q. split; [reflexivity|]. destruct D as [_ D]. lra.
  - inversion E. subst. pose proof D as D0. apply dendro_node_inv in D. destruct D as [ha [hb [DA [DB [E1 [E2 [LA [LB _]]]]]]]].
    inversion IH as [|? ? IA IH2]. inversion IH2 as [|? ? IB _]. subst.
    rewrite qtaxa_node2 in N. pose proof (NoDup_app_l _ _ N) as NA. pose proof (NoDup_app_r _ _ N) as NB.
    pose proof (dendro_nonneg s A ha DA) as PA. pose proof (dendro_nonneg s B hb DB) as PB.
    destruct (qhas x A) eqn:XA; destruct (qhas y A) eqn:YA.
    + rewrite qdist_node2_l by assumption. destruct (IA ha DA NA eq_refl eq_refl) as [q [Hq Lq]]. exists q. split; [exact Hq | lra].
    + (* cross *)
      pose proof (node2_disjoint A B x N XA) as XB. rewrite qhas_node2, YA in Hy. simpl in Hy.
      rewrite qdist_node2_cross; [| rewrite qhas_node2, XA; reflexivity | rewrite qhas_node2, Hy; apply orb_true_r
                                  | rewrite YA; apply andb_false_r | rewrite XB; reflexivity].
      destruct (dendro_down s x _ h D0) as [p [Hp Ep]]; [rewrite qhas_node2, XA; reflexivity|].
      destruct (dendro_down s y _ h D0) as [q [Hq Eq]]; [rewrite qhas_node2, Hy; apply orb_true_r|].
      rewrite Hp, Hq. exists (p + q)%Q. split; [reflexivity | lra].
    + pose proof (node2_disjoint A B y N YA) as YB. rewrite qhas_node2, XA in Hx. simpl in Hx.
      rewrite qdist_node2_cross; [| rewrite qhas_node2, Hx; apply orb_true_r | rewrite qhas_node2, YA; reflexivity
                                  | rewrite XA; reflexivity | rewrite YB; apply andb_false_r].
      destruct (dendro_down s x _ h D0) as [p [Hp Ep]]; [rewrite qhas_node2, Hx; apply orb_true_r|].
      destruct (dendro_down s y _ h D0) as [q [Hq Eq]]; [rewrite qhas_node2, YA; reflexivity|].
      rewrite Hp, Hq. exists (p + q)%Q. split; [reflexivity | lra].
    + rewrite qhas_node2, XA in Hx. rewrite qhas_node2, YA in Hy. simpl in Hx, Hy.
      rewrite qdist_node2_r by assumption. destruct (IB hb DB NB Hx Hy) as [q [Hq Lq]]. exists q. split; [exact Hq | lra].
Qed.

Lemma dendro_cross s h i x0 l A B x y :
  dendro s h (QT i x0 l [A; B]) -> NoDup (qtaxa A ++ qtaxa B) ->
  (qhas x A = true /\ qhas y B = true) \/ (qhas x B = true /\ qhas y A = true) ->
  exists q, qdist (QT i x0 l [A; B]) x y = Some q /\ (q == 2 * h)%Q.
Proof.
  intros D N Hs.
  assert (Hx : qhas x (QT i x0 l [A; B]) = true) by (rewrite qhas_node2; destruct Hs as [[H _]|[H _]]; rewrite H; auto using orb_true_r).
  assert (Hy : qhas y (QT i x0 l [A; B]) = true) by (rewrite qhas_node2; destruct Hs as [[_ H]|[_ H]]; rewrite H; auto using orb_true_r).
  rewrite qdist_node2_cross; try assumption.
  - destruct (dendro_down s x _ h D Hx) as [p [Hp Ep]]. destruct (dendro_down s y _ h D Hy) as [q [Hq Eq]].
    rewrite Hp, Hq. exists (p + q)%Q. split; [reflexivity | lra].
  - destruct Hs as [[H1 H2]|[H1 H2]].
    + assert (qhas y A = false) as ->; [|apply andb_false_r].
      destruct (qhas y A) eqn:E; [|reflexivity]. rewrite (node2_disjoint A B y N E) in H2. discriminate.
    + assert (qhas x A = false) as ->; [|reflexivity].
      destruct (qhas x A) eqn:E; [|reflexivity]. rewrite (node2_disjoint A B x N E) in H1. discriminate.
  - destruct Hs as [[H1 H2]|[H1 H2]].
    + rewrite (node2_disjoint A B x N H1). reflexivity.
    + rewrite (node2_disjoint A B y N H2). apply andb_false_r.
Qed.

Lemma dendro_same_side_lt h i x0 l A B x y :
  dendro true h (QT i x0 l [A; B]) -> NoDup (qtaxa A ++ qtaxa B) -> x <> y ->
  (qhas x A = true /\ qhas y A = true) \/ (qhas x B = true /\ qhas y B = true) ->
  exists q, qdist (QT i x0 l [A; B]) x y = Some q /\ (q < 2 * h)%Q.
Proof.
  intros D N Nxy Hs. apply dendro_node_inv in D. destruct D as [ha [hb [DA [DB [E1 [E2 [LA [LB St]]]]]]]].
  destruct (St eq_refl) as [SA SB].
  pose proof (NoDup_app_l _ _ N) as NA. pose proof (NoDup_app_r _ _ N) as NB.
  destruct Hs as [[Hx Hy]|[Hx Hy]].
  - rewrite qdist_node2_l by assumption. destruct (dendro_dist true x y A ha DA NA Hx Hy) as [q [Hq Lq]].
    exists q. split; [exact Hq|]. assert (0 < qlen0 A)%Q; [|lra]. apply SA. intro K. apply Nxy. eapply leaf_taxa_unique; eassumption.
  - assert (XA : qhas x A = false).
    { destruct (qhas x A) eqn:E; [|reflexivity]. rewrite (node2_disjoint A B x N E) in Hx. discriminate. }
    assert (YA : qhas y A = false).
    { destruct (qhas y A) eqn:E; [|reflexivity]. rewrite (node2_disjoint A B y N E) in Hy. discriminate. }
    rewrite qdist_node2_r by assumption. destruct (dendro_dist true x y B hb DB NB Hx Hy) as [q [Hq Lq]].
    exists q. split; [exact Hq|]. assert (0 < qlen0 B)%Q; [|lra]. apply SB. intro K. apply Nxy. eapply leaf_taxa_unique; eassumption.
Qed.

(* ---------- uniqueness ---------- *)
Fixpoint qsize (t : qtree) : nat :=
  match t with QT _ _ _ ks => S (fold_right (fun k n => (qsize k + n)%nat) O ks) end.

Definition deq (T1 T2 : qtree) : Prop :=
  forall x y, qhas x T1 = true -> qhas y T1 = true -> x <> y ->
    exists q1 q2, qdist T1 x y = Some q1 /\ qdist T2 x y = Some q2 /\ (q1 == q2)%Q.

Lemma olen_eq_qlen0 t t' : olen_eq (q_len t) (q_len t') <-> (qlen0 t == qlen0 t')%Q.
Proof. destruct t as [i x l ks], t' as [j y l' ks']. unfold olen_eq. simpl. reflexivity. Qed.

Lemma qsame_relen t t' : qsame (q_unroot t) (q_unroot t') -> (qlen0 t == qlen0 t')%Q -> qsame t t'.
Proof.
  intros H E. destruct t as [i x l ks], t' as [j y l' ks']. simpl in H.
  assert (O : olen_eq l l') by (apply (olen_eq_qlen0 (QT i x l ks) (QT j y l' ks')); exact E).
  inversion H; subst; [apply qs_leaf | apply qs_node | apply qs_swap]; assumption.
Qed.

Lemma node2_side A B x : NoDup (qtaxa A ++ qtaxa B) -> qhas x A || qhas x B = true ->
  qhas x B = negb (qhas x A).
Proof.
  intros N H. destruct (qhas x A) eqn:E; simpl in *.
  - apply (node2_disjoint A B x N E).
  - exact H.
Qed.

Section Unique2.
Variables (i j : Z) (x0 y0 : option Z) (l0 l0' : option Q) (A B A' B' : qtree) (h1 h2 : Q).
Let T1 := QT i x0 l0 [A; B].
Let T2 := QT j y0 l0' [A'; B'].
Hypothesis D1 : dendro true h1 T1.
Hypothesis D2 : dendro false h2 T2.
Hypothesis N1 : NoDup (qtaxa A ++ qtaxa B).
Hypothesis N2 : NoDup (qtaxa A' ++ qtaxa B').
Hypothesis HE : forall x, qhas x T1 = qhas x T2.
Hypothesis DE : deq T1 T2.

Lemma in1_in2 x : qhas x T1 = true -> qhas x A' || qhas x B' = true.
Proof. intro H. rewrite HE in H. unfold T2 in H. rewrite qhas_node2 in H. exact H. Qed.

Lemma u2_cross_val x y : qhas x T1 = true -> qhas y T1 = true -> x <> y ->
  qhas x A' <> qhas y A' -> exists q1, qdist T1 x y = Some q1 /\ (q1 == 2 * h2)%Q.
Proof.
  intros Hx Hy Nxy Hd. destruct (DE x y Hx Hy Nxy) as [q1 [q2 [E1 [E2 Eq]]]].
  pose proof (node2_side A' B' x N2 (in1_in2 x Hx)) as SX. pose proof (node2_side A' B' y N2 (in1_in2 y Hy)) as SY.
  destruct (dendro_cross false h2 j y0 l0' A' B' x y D2 N2) as [q [Hq Eqq]].
  { destruct (qhas x A') eqn:EX; destruct (qhas y A') eqn:EY; simpl in *; try congruence; [left | right]; auto. }
  fold T2 in Hq. rewrite E2 in Hq. inversion Hq. subst q. exists q1. split; [exact E1 | lra].
Qed.

Lemma u2_heights : (h1 == h2)%Q.
Proof.
  unfold T1 in D1. pose proof D1 as D1'. apply dendro_node_inv in D1'. destruct D1' as [ha [hb [DA [DB _]]]].
  unfold T2 in D2. pose proof D2 as D2'. apply dendro_node_inv in D2'. destruct D2' as [ha' [hb' [DA' [DB' _]]]].
  destruct (dendro_inhabited true A ha DA) as [xa Hxa]. destruct (dendro_inhabited true B hb DB) as [xb Hxb].
  destruct (dendro_inhabited false A' ha' DA') as [xa' Hxa']. destruct (dendro_inhabited false B' hb' DB') as [xb' Hxb'].
  assert (Nab : xa <> xb) by (intro E; subst; rewrite (node2_disjoint A B xb N1 Hxa) in Hxb; discriminate).
  assert (Nab' : xa' <> xb') by (intro E; subst; rewrite (node2_disjoint A' B' xb' N2 Hxa') in Hxb'; discriminate).
  assert (T1a : qhas xa T1 = true) by (unfold T1; rewrite qhas_node2, Hxa; reflexivity).
  assert (T1b : qhas xb T1 = true) by (unfold T1; rewrite qhas_node2, Hxb; apply orb_true_r).
  assert (T1a' : qhas xa' T1 = true) by (rewrite HE; unfold T2; rewrite qhas_node2, Hxa'; reflexivity).
  assert (T1b' : qhas xb' T1 = true) by (rewrite HE; unfold T2; rewrite qhas_node2, Hxb'; apply orb_true_r).
  apply Qle_antisym.
  - destruct (DE xa xb T1a T1b Nab) as [q1 [q2 [E1 [E2 Eq]]]].
    destruct (dendro_cross true h1 i x0 l0 A B xa xb D1 N1 (or_introl (conj Hxa Hxb))) as [q [Hq Eqq]].
    fold T1 in Hq. rewrite E1 in Hq. inversion Hq. subst q.
    destruct (dendro_dist false xa xb T2 h2 D2) as [q' [Hq' Lq']];
      [unfold T2; rewrite qtaxa_node2; exact N2 | rewrite <- HE; exact T1a | rewrite <- HE; exact T1b|].
    rewrite E2 in Hq'. inversion Hq'. subst q'. lra.
  - destruct (DE xa' xb' T1a' T1b' Nab') as [q1 [q2 [E1 [E2 Eq]]]].
    destruct (dendro_cross false h2 j y0 l0' A' B' xa' xb' D2 N2 (or_introl (conj Hxa' Hxb'))) as [q [Hq Eqq]].
    fold T2 in Hq. rewrite E2 in Hq. inversion Hq. subst q.
    destruct (dendro_dist true xa' xb' T1 h1 D1) as [q' [Hq' Lq']];
      [unfold T1; rewrite qtaxa_node2; exact N1 | exact T1a' | exact T1b'|].
    rewrite E1 in Hq'. inversion Hq'. subst q'. lra.
Qed.

(* two taxa are on the same side of the root in T1 iff they are in T2 *)
Lemma u2_sides x y : qhas x T1 = true -> qhas y T1 = true -> x <> y ->
  (qhas x A = qhas y A <-> qhas x A' = qhas y A').
Proof.
  intros Hx Hy Nxy. pose proof u2_heights as HH.
  assert (In1 : forall z, qhas z T1 = true -> qhas z A || qhas z B = true).
  { intros z Hz. unfold T1 in Hz. rewrite qhas_node2 in Hz. exact Hz. }
  assert (Same1 : forall u v, qhas u T1 = true -> qhas v T1 = true -> u <> v -> qhas u A = qhas v A ->
                  exists q, qdist T1 u v = Some q /\ (q < 2 * h1)%Q).
  { intros u v Hu Hv Nuv E. apply (dendro_same_side_lt h1 i x0 l0 A B u v D1 N1 Nuv).
    pose proof (node2_side A B u N1 (In1 u Hu)) as SU. pose proof (node2_side A B v N1 (In1 v Hv)) as SV.
    destruct (qhas u A) eqn:EU; destruct (qhas v A) eqn:EV; simpl in *; try congruence; [left | right]; auto. }
  split.
  - intro E. destruct (Bool.bool_dec (qhas x A') (qhas y A')) as [E'|E']; [exact E'|]. exfalso.
    destruct (Same1 x y Hx Hy Nxy E) as [q [Hq Lq]].
    destruct (u2_cross_val x y Hx Hy Nxy E') as [q' [Hq' Eq']]. rewrite Hq in Hq'. inversion Hq'. subst q'. lra.
  - intro E'. destruct (Bool.bool_dec (qhas x A) (qhas y A)) as [E|E]; [exact E|]. exfalso.
    (* a third taxon on the other side in T2 *)
    unfold T2 in D2. pose proof D2 as D2'. apply dendro_node_inv in D2'. destruct D2' as [ha' [hb' [DA' [DB' _]]]].
    assert (Hz : exists z, qhas z T1 = true /\ qhas z A' <> qhas x A').
    { destruct (qhas x A') eqn:EX.
      - destruct (dendro_inhabited false B' hb' DB') as [z Hz]. exists z. split.
        + rewrite HE. unfold T2. rewrite qhas_node2, Hz. apply orb_true_r.
        + assert (qhas z A' = false) as ->; [|discriminate].
          destruct (qhas z A') eqn:EZ; [|reflexivity]. rewrite (node2_disjoint A' B' z N2 EZ) in Hz. discriminate.
      - destruct (dendro_inhabited false A' ha' DA') as [z Hz]. exists z. split.
        + rewrite HE. unfold T2. rewrite qhas_node2, Hz. reflexivity.
        + rewrite Hz. discriminate. }
    destruct Hz as [z [Hz Dz]].
    assert (Nzx : z <> x) by (intro; subst; congruence).
    assert (Nzy : z <> y) by (intro; subst; congruence).
    assert (Dzy : qhas z A' <> qhas y A') by congruence.
    destruct (u2_cross_val z x Hz Hx Nzx Dz) as [q1 [Hq1 Eq1]].
    destruct (u2_cross_val z y Hz Hy Nzy Dzy) as [q2 [Hq2 Eq2]].
    assert (Dx : qhas z A <> qhas x A).
    { intro Ez. destruct (Same1 z x Hz Hx Nzx Ez) as [q [Hq Lq]]. rewrite Hq1 in Hq. inversion Hq. subst q. lra. }
    assert (Dy : qhas z A <> qhas y A).
    { intro Ez. destruct (Same1 z y Hz Hy Nzy Ez) as [q [Hq Lq]]. rewrite Hq2 in Hq. inversion Hq. subst q. lra. }
    destruct (qhas x A), (qhas y A), (qhas z A); congruence.
Qed.
End Unique2.

Lemma qsize_node2 i x l A B : qsize (QT i x l [A; B]) = S (qsize A + qsize B).
Proof. simpl. lia. Qed.

Theorem dendro_unique : forall n T1, (qsize T1 <= n)%nat -> forall T2 h1 h2,
  dendro true h1 T1 -> dendro false h2 T2 -> NoDup (qtaxa T1) -> NoDup (qtaxa T2) ->
  (forall x, qhas x T1 = qhas x T2) -> deq T1 T2 ->
  qsame (q_unroot T1) (q_unroot T2) /\ (h1 == h2)%Q.
Proof.
  induction n as [|n IH]; intros T1 Sz T2 h1 h2 D1 D2 N1 N2 HE DE.
  { destruct T1. simpl in Sz. lia. }
  destruct (dendro_shape true h1 T1 D1) as [[i [a [l E1]]]|[i [x0 [l [A [B E1]]]]]]; subst T1.
  - (* T1 is a leaf *)
    destruct (dendro_shape false h2 T2 D2) as [[j [b [l' E2]]]|[j [y0 [l' [A' [B' E2]]]]]]; subst T2.
    + assert (a = b).
      { pose proof (HE a) as H. simpl in H. rewrite Z.eqb_refl in H. symmetry in H. apply Z.eqb_eq in H. congruence. }
      subst b. split; [apply qs_leaf; unfold olen_eq; reflexivity|].
      destruct D1 as [_ D1]. destruct D2 as [_ D2]. rewrite D1, D2. reflexivity.
    + exfalso. pose proof D2 as D2'. apply dendro_node_inv in D2'. destruct D2' as [ha' [hb' [DA' [DB' _]]]].
      destruct (dendro_inhabited false A' ha' DA') as [xa Hxa]. destruct (dendro_inhabited false B' hb' DB') as [xb Hxb].
      rewrite qtaxa_node2 in N2.
      assert (xa <> xb) by (intro E; subst; rewrite (node2_disjoint A' B' xb N2 Hxa) in Hxb; discriminate).
      pose proof (HE xa) as Ha. pose proof (HE xb) as Hb. rewrite qhas_node2 in Ha, Hb.
      rewrite Hxa in Ha. rewrite Hxb, orb_true_r in Hb. simpl in Ha, Hb. apply Z.eqb_eq in Ha. apply Z.eqb_eq in Hb. congruence.
  - destruct (dendro_shape false h2 T2 D2) as [[j [b [l' E2]]]|[j [y0 [l' [A' [B' E2]]]]]]; subst T2.
    + exfalso. pose proof D1 as D1'. apply dendro_node_inv in D1'. destruct D1' as [ha [hb [DA [DB _]]]].
      destruct (dendro_inhabited true A ha DA) as [xa Hxa]. destruct (dendro_inhabited true B hb DB) as [xb Hxb].
      rewrite qtaxa_node2 in N1.
      assert (xa <> xb) by (intro E; subst; rewrite (node2_disjoint A B xb N1 Hxa) in Hxb; discriminate).
      pose proof (HE xa) as Ha. pose proof (HE xb) as Hb. rewrite qhas_node2 in Ha, Hb.
      rewrite Hxa in Ha. rewrite Hxb, orb_true_r in Hb. simpl in Ha, Hb. symmetry in Ha, Hb.
      apply Z.eqb_eq in Ha. apply Z.eqb_eq in Hb. congruence.
    + (* two internal roots *)
      rewrite qtaxa_node2 in N1, N2.
      pose proof (u2_heights i j x0 y0 l l' A B A' B' h1 h2 D1 D2 N1 N2 HE DE) as HH.
      pose proof (u2_sides i j x0 y0 l l' A B A' B' h1 h2 D1 D2 N1 N2 HE DE) as SS.
      pose proof D1 as D1'. apply dendro_node_inv in D1'. destruct D1' as [ha [hb [DA [DB [E1a [E1b _]]]]]].
      pose proof D2 as D2'. apply dendro_node_inv in D2'. destruct D2' as [ha' [hb' [DA' [DB' [E2a [E2b _]]]]]].
      destruct (dendro_inhabited true A ha DA) as [a0 Ha0].
      assert (Ta0 : qhas a0 (QT i x0 l [A; B]) = true) by (rewrite qhas_node2, Ha0; reflexivity).
      assert (In1 : forall z, qhas z (QT i x0 l [A; B]) = true -> qhas z B = negb (qhas z A)).
      { intros z Hz. rewrite qhas_node2 in Hz. apply (node2_side A B z N1 Hz). }
      assert (In2 : forall z, qhas z (QT i x0 l [A; B]) = true -> qhas z B' = negb (qhas z A')).
      { intros z Hz. rewrite HE, qhas_node2 in Hz. apply (node2_side A' B' z N2 Hz). }
      assert (Out : forall z, qhas z (QT i x0 l [A; B]) = false ->
                    qhas z A = false /\ qhas z B = false /\ qhas z A' = false /\ qhas z B' = false).
      { intros z Hz. pose proof Hz as Hz2. rewrite HE in Hz2. rewrite qhas_node2 in Hz, Hz2.
        apply orb_false_iff in Hz. apply orb_false_iff in Hz2. tauto. }
      (* the side of every taxon relative to a0 *)
      assert (Rel : forall z, qhas z (QT i x0 l [A; B]) = true -> (qhas z A = true <-> qhas z A' = qhas a0 A')).
      { intros z Hz. destruct (Z.eq_dec z a0) as [->|Nz]; [rewrite Ha0; tauto|].
        rewrite <- (SS z a0 Hz Ta0 Nz). rewrite Ha0. tauto. }
      assert (Sub : forall X X' hx hx' (DX : dendro true hx X) (DX' : dendro false hx' X'),
                 (qsize X <= n)%nat -> NoDup (qtaxa X) -> NoDup (qtaxa X') ->
                 (forall z, qhas z X = qhas z X') ->
                 (forall u v, qhas u X = true -> qhas v X = true -> qdist (QT i x0 l [A; B]) u v = qdist X u v) ->
                 (forall u v, qhas u X' = true -> qhas v X' = true -> qdist (QT j y0 l' [A'; B']) u v = qdist X' u v) ->
                 (forall u, qhas u X = true -> qhas u (QT i x0 l [A; B]) = true) ->
                 qsame (q_unroot X) (q_unroot X') /\ (hx == hx')%Q).
      { intros X X' hx hx' DX DX' SX NX NX' EX Q1 Q2 InT. apply (IH X SX X' hx hx' DX DX' NX NX' EX).
        intros u v Hu Hv Nuv. destruct (DE u v (InT u Hu) (InT v Hv) Nuv) as [q1 [q2 [G1 [G2 Gq]]]].
        exists q1, q2. rewrite <- (Q1 u v Hu Hv). rewrite <- (Q2 u v); [auto | rewrite <- EX; exact Hu | rewrite <- EX; exact Hv]. }
      assert (SzA : (qsize A <= n)%nat) by (rewrite qsize_node2 in Sz; lia).
      assert (SzB : (qsize B <= n)%nat) by (rewrite qsize_node2 in Sz; lia).
      pose proof (NoDup_app_l _ _ N1) as NA. pose proof (NoDup_app_r _ _ N1) as NB.
      pose proof (NoDup_app_l _ _ N2) as NA'. pose proof (NoDup_app_r _ _ N2) as NB'.
      assert (InA : forall u, qhas u A = true -> qhas u (QT i x0 l [A; B]) = true) by (intros u Hu; rewrite qhas_node2, Hu; reflexivity).
      assert (InB : forall u, qhas u B = true -> qhas u (QT i x0 l [A; B]) = true) by (intros u Hu; rewrite qhas_node2, Hu; apply orb_true_r).
      assert (NotA : forall u, qhas u B = true -> qhas u A = false).
      { intros u Hu. destruct (qhas u A) eqn:E; [|reflexivity]. rewrite (node2_disjoint A B u N1 E) in Hu. discriminate. }
      assert (NotA' : forall u, qhas u B' = true -> qhas u A' = false).
      { intros u Hu. destruct (qhas u A') eqn:E; [|reflexivity]. rewrite (node2_disjoint A' B' u N2 E) in Hu. discriminate. }
      destruct (qhas a0 A') eqn:Sa0.
      * (* A corresponds to A', B to B' *)
        assert (EA : forall z, qhas z A = qhas z A').
        { intro z. destruct (qhas z (QT i x0 l [A; B])) eqn:Hz.
          - pose proof (Rel z Hz) as R. destruct (qhas z A), (qhas z A'); try reflexivity; [destruct R as [R _]; specialize (R eq_refl); discriminate | destruct R as [_ R]; specialize (R eq_refl); discriminate].
          - destruct (Out z Hz) as [O1 [_ [O3 _]]]. congruence. }
        assert (EB : forall z, qhas z B = qhas z B').
        { intro z. destruct (qhas z (QT i x0 l [A; B])) eqn:Hz.
          - rewrite (In1 z Hz), (In2 z Hz), EA. reflexivity.
          - destruct (Out z Hz) as [_ [O2 [_ O4]]]. congruence. }
        destruct (Sub A A' ha ha' DA DA' SzA NA NA' EA) as [SA HA]; auto.
        { intros u v Hu Hv. apply qdist_node2_l; assumption. }
        { intros u v Hu Hv. apply qdist_node2_l; assumption. }
        destruct (Sub B B' hb hb' DB DB' SzB NB NB' EB) as [SB HB]; auto.
        { intros u v Hu Hv. apply qdist_node2_r; auto. }
        { intros u v Hu Hv. apply qdist_node2_r; auto. }
        split; [|exact HH]. simpl. apply qs_node; [unfold olen_eq; reflexivity | |].
        -- apply qsame_relen; [exact SA | lra].
        -- apply qsame_relen; [exact SB | lra].
      * (* A corresponds to B', B to A' *)
        assert (EA : forall z, qhas z A = qhas z B').
        { intro z. destruct (qhas z (QT i x0 l [A; B])) eqn:Hz.
          - rewrite (In2 z Hz). pose proof (Rel z Hz) as R.
            destruct (qhas z A), (qhas z A'); try reflexivity; simpl; [destruct R as [R _]; specialize (R eq_refl); discriminate | destruct R as [_ R]; specialize (R eq_refl); discriminate].
          - destruct (Out z Hz) as [O1 [_ [_ O4]]]. congruence. }
        assert (EB : forall z, qhas z B = qhas z A').
        { intro z. destruct (qhas z (QT i x0 l [A; B])) eqn:Hz.
          - pose proof (EA z) as E. rewrite (In1 z Hz). rewrite (In2 z Hz) in E. rewrite E. apply negb_involutive.
          - destruct (Out z Hz) as [_ [O2 [O3 _]]]. congruence. }
        destruct (Sub A B' ha hb' DA DB' SzA NA NB' EA) as [SA HA]; auto.
        { intros u v Hu Hv. apply qdist_node2_l; assumption. }
        { intros u v Hu Hv. apply qdist_node2_r; auto. }
        destruct (Sub B A' hb ha' DB DA' SzB NB NA' EB) as [SB HB]; auto.
        { intros u v Hu Hv. apply qdist_node2_r; auto. }
        { intros u v Hu Hv. apply qdist_node2_l; assumption. }
        split; [|exact HH]. simpl. apply qs_swap; [unfold olen_eq; reflexivity | |].
        -- apply qsame_relen; [exact SA | lra].
        -- apply qsame_relen; [exact SB | lra].
Qed.
