(* C09: NEXUS DATATYPE=STANDARD - the alphabet the reader builds from SYMBOLS="...", and the
   round trip "by symbol" for the standard, restriction-site and infinite-site alphabets *)
From Coq Require Import ZArith List Bool Lia FinFun.
From DV Require Import Model.PyPrims Model.C09AlphaTypes Model.C09Alphabets Model.C09Model Model.C09Spec
  Model.C09Nexus Model.C09Convert Proofs.C09Text Proofs.C09Fasta Proofs.C09NexusProofs.
Import ListNotations.
Open Scope Z_scope.
Arguments state_of_symbol : simpl never.
Arguments plain_symbol_char : simpl never.
Arguments is_space : simpl never.

(* ---- an alphabet of one-character symbols without synonyms ---- *)

Definition simple_state (s : state) : Prop := (exists c, s_symbol s = [c]) /\ s_synonyms s = [].

Lemma fullmap_simple : forall l, (forall s, In s l -> simple_state s) ->
  fullmap_of l = map (fun s => (s_symbol s, s_index s)) l.
Proof.
  induction l as [|s l IH]; intro H; [reflexivity|].
  unfold fullmap_of in *. simpl. destruct (H s (or_introl eq_refl)) as [[c E] Sy]. rewrite E, Sy. simpl.
  f_equal. apply IH. intros x Hx. apply H. right. exact Hx.
Qed.

Lemma tlookup_simple : forall l s, NoDup (map s_symbol l) -> In s l ->
  tlookup (s_symbol s) (map (fun x => (s_symbol x, s_index x)) l) = Some (s_index s).
Proof.
  induction l as [|x l IH]; intros s N Hs; [destruct Hs|].
  simpl in N. inversion N; subst. simpl. destruct Hs as [Hs|Hs].
  - subst. rewrite text_eqb_refl. reflexivity.
  - destruct (text_eqb (s_symbol s) (s_symbol x)) eqn:E.
    + apply text_eqb_eq in E. exfalso. apply H1. rewrite <- E. apply in_map. exact Hs.
    + apply IH; assumption.
Qed.

Lemma find_state_simple : forall l s, NoDup (map s_index l) -> In s l -> find_state (s_index s) l = Some s.
Proof.
  induction l as [|x l IH]; intros s N Hs; [destruct Hs|].
  simpl in N. inversion N; subst. simpl. destruct Hs as [Hs|Hs].
  - subst. rewrite Z.eqb_refl. reflexivity.
  - destruct (s_index s =? s_index x) eqn:E.
    + apply Z.eqb_eq in E. exfalso. apply H1. rewrite <- E. apply in_map. exact Hs.
    + apply IH; assumption.
Qed.

(* every state of such an alphabet is found under its symbol and written as its symbol *)
Lemma simple_alphabet_lookup : forall l cs g mi s c,
  (forall x, In x l -> simple_state x) -> NoDup (map s_symbol l) -> NoDup (map s_index l) ->
  In s l -> s_symbol s = [c] ->
  state_of_symbol (mkAlphabet l (fullmap_of l) cs g mi) c = Some (s_index s)
  /\ state_str (mkAlphabet l (fullmap_of l) cs g mi) (s_index s) = [c].
Proof.
  intros l cs g mi s c Hs Ns Ni Hin E. split.
  - unfold state_of_symbol. cbn [a_fullmap]. rewrite (fullmap_simple l Hs). rewrite <- E.
    apply tlookup_simple; assumption.
  - unfold state_str. cbn [a_states]. rewrite (find_state_simple l s Ni Hin). rewrite E. reflexivity.
Qed.

(* ---- what add_fundamentals builds for symbols without case variants ---- *)

Fixpoint fund_states (idx : Z) (syms : list text) : list state :=
  match syms with
  | [] => []
  | s :: r => mkState idx s Fundamental [] [] :: fund_states (idx + 1) r
  end.

Definition caseless (s : text) : Prop := s <> [] /\ case_synonyms s = [].

Lemma add_fundamentals_caseless : forall syms idx used acc,
  (forall s, In s syms -> caseless s) -> NoDup syms -> (forall s, In s syms -> ~ In s used) ->
  add_fundamentals syms idx used acc = Ok (acc ++ fund_states idx syms, used ++ syms, idx + len syms).
Proof.
  induction syms as [|s syms IH]; intros idx used acc Hc Nd Hu.
  - simpl. rewrite !List.app_nil_r. unfold len. simpl. rewrite Z.add_0_r. reflexivity.
  - destruct (Hc s (or_introl eq_refl)) as [Ne Cs]. inversion Nd; subst.
    cbn [add_fundamentals]. destruct s as [|c0 s0]; [contradiction|].
    assert (M : text_mem (c0 :: s0) used = false) by (apply text_mem_false; apply Hu; left; reflexivity).
    rewrite M. rewrite Cs. cbn [existsb app].
    rewrite IH.
    + cbn [fund_states]. rewrite <- !app_assoc. cbn [app].
      assert (E : idx + 1 + len syms = idx + len ((c0 :: s0) :: syms)).
      { unfold len. change (length ((c0 :: s0) :: syms)) with (S (length syms)). lia. }
      rewrite E. reflexivity.
    + intros x Hx. apply Hc. right. exact Hx.
    + assumption.
    + intros x Hx Hin. apply in_app_or in Hin. destruct Hin as [Hin|[Hin|[]]].
      * apply (Hu x); [right; exact Hx | exact Hin].
      * subst x. contradiction.
Qed.

Lemma fund_states_app : forall x y idx, fund_states idx (x ++ y) = fund_states idx x ++ fund_states (idx + len x) y.
Proof.
  induction x as [|s x IH]; intros y idx; simpl.
  - unfold len. simpl. rewrite Z.add_0_r. reflexivity.
  - rewrite IH. f_equal. f_equal. unfold len. simpl length. f_equal. lia.
Qed.

Lemma fund_states_symbols : forall syms idx, map s_symbol (fund_states idx syms) = syms.
Proof. induction syms as [|s r IH]; intro idx; simpl; [reflexivity | rewrite IH; reflexivity]. Qed.

Lemma fund_states_index_range : forall syms idx s, In s (fund_states idx syms) -> idx <= s_index s < idx + len syms.
Proof.
  induction syms as [|x r IH]; intros idx s H; [destruct H|].
  simpl in H. unfold len. cbn [length]. destruct H as [H|H].
  - subst. simpl. lia.
  - apply IH in H. unfold len in H. lia.
Qed.

Lemma fund_states_index_nodup : forall syms idx, NoDup (map s_index (fund_states idx syms)).
Proof.
  induction syms as [|x r IH]; intro idx; simpl; [constructor|].
  constructor; [|apply IH]. intro H. apply in_map_iff in H. destruct H as [s [E Hs]].
  apply fund_states_index_range in Hs. lia.
Qed.

Lemma fund_states_simple : forall syms idx s, (forall x, In x syms -> exists c, x = [c]) ->
  In s (fund_states idx syms) -> simple_state s.
Proof.
  induction syms as [|x r IH]; intros idx s H Hs; [destruct Hs|].
  simpl in Hs. destruct Hs as [Hs|Hs].
  - subst. split; [|reflexivity]. destruct (H x (or_introl eq_refl)) as [c E]. exists c. exact E.
  - apply (IH (idx + 1)); [intros y Hy; apply H; right; exact Hy | exact Hs].
Qed.

Lemma fund_states_in : forall syms idx x, In x syms -> exists s, In s (fund_states idx syms) /\ s_symbol s = x.
Proof.
  induction syms as [|y r IH]; intros idx x H; [destruct H|].
  destruct H as [H|H].
  - subst. eexists. split; [left; reflexivity | reflexivity].
  - destruct (IH (idx + 1) x H) as [s [A B]]. exists s. split; [right; exact A | exact B].
Qed.

(* ---- _build_state_alphabet for SYMBOLS="T", GAP "-" and MISSING "?" ---- *)

Definition single (c : Z) : text := [c].

Lemma is_infix_single : forall c T, is_infix [c] T = existsb (Z.eqb c) T.
Proof.
  intros c T. induction T as [|x T IH]; simpl; [reflexivity|].
  rewrite IH. destruct (c =? x); reflexivity.
Qed.

Definition nongap (T : text) : text := filter (fun c => negb (c =? 45)) T.

Lemma syms_without_gap : forall T,
  (if is_infix t_dash T then filter (fun s => negb (text_eqb s t_dash)) (map single T) else map single T)
  = map single (nongap T).
Proof.
  intro T. unfold t_dash. rewrite is_infix_single.
  assert (F : filter (fun s => negb (text_eqb s [45])) (map single T) = map single (nongap T)).
  { unfold nongap. induction T as [|x T IH]; simpl; [reflexivity|].
    unfold single at 1. unfold text_eqb at 1. simpl. rewrite andb_true_r.
    destruct (x =? 45); simpl; rewrite IH; reflexivity. }
  destruct (existsb (Z.eqb 45) T) eqn:E; [exact F|].
  rewrite <- F. symmetry.
  assert (forall x, In x T -> x <> 45).
  { intros x Hx Ex. subst. rewrite <- not_true_iff_false in E. apply E. apply existsb_exists. exists 45. split; [exact Hx | reflexivity]. }
  clear E F. induction T as [|x T IH]; simpl; [reflexivity|].
  unfold single at 1. unfold text_eqb at 1. simpl. rewrite andb_true_r.
  assert (x <> 45) by (apply H; left; reflexivity). apply Z.eqb_neq in H0. rewrite H0. simpl.
  f_equal. apply IH. intros y Hy. apply H. right. exact Hy.
Qed.

Definition caseless_char (c : Z) : Prop := ascii_upper c = c /\ ascii_lower c = c.

Lemma caseless_single : forall c, caseless_char c -> caseless (single c).
Proof.
  intros c [U L]. split; [discriminate|]. unfold case_synonyms, single, ucase, lcase. simpl.
  rewrite U, L. rewrite !text_eqb_refl. reflexivity.
Qed.

Definition built_states (T : text) : list state :=
  fund_states 0 (map single (nongap T) ++ [t_dash])
  ++ [mkState (len (nongap T) + 1) t_qm Ambiguous
              (map s_index (fund_states 0 (map single (nongap T) ++ [t_dash]))) []].

Lemma build_alphabet_ok : forall T,
  nongap T <> [] -> NoDup T -> (forall c, In c T -> caseless_char c /\ c <> 63) ->
  build_alphabet T t_dash t_qm
  = Ok (mkAlphabet (built_states T) (fullmap_of (built_states T)) false
                   (Some (len (nongap T))) (Some (len (nongap T) + 1))).
Proof.
  intros T Ne Nd Hc. unfold build_alphabet.
  change (match t_dash with [] => map (fun c => [c]) T | _ :: _ =>
            if is_infix t_dash T then filter (fun s => negb (text_eqb s t_dash)) (map (fun c => [c]) T)
            else map (fun c => [c]) T end)
    with (if is_infix t_dash T then filter (fun s => negb (text_eqb s t_dash)) (map single T) else map single T).
  rewrite syms_without_gap.
  destruct (map single (nongap T)) as [|s0 sr] eqn:Es; [destruct (nongap T); [contradiction | discriminate]|].
  rewrite <- Es.
  assert (NG : forall c, In c (nongap T) -> In c T /\ c <> 45).
  { intros c H. unfold nongap in H. apply filter_In in H. destruct H as [A B]. split; [exact A|].
    apply negb_true_iff in B. apply Z.eqb_neq in B. exact B. }
  assert (NdG : NoDup (nongap T)) by (apply NoDup_filter; exact Nd).
  rewrite add_fundamentals_caseless.
  - cbn [bind app]. unfold t_dash at 1. cbv iota.
    rewrite add_fundamentals_caseless.
    + cbn [bind]. unfold t_qm at 1. cbv iota.
      assert (M : text_mem t_qm ([] ++ map single (nongap T) ++ [t_dash]) = false).
      { apply text_mem_false. cbn [app]. intro H. apply in_app_or in H. destruct H as [H|[H|[]]].
        - apply in_map_iff in H. destruct H as [c [E Hc']]. unfold single, t_qm in E. inversion E. subst.
          destruct (NG 63 Hc') as [A _]. destruct (Hc 63 A) as [_ B]. contradiction.
        - discriminate. }
      cbn [app] in M. cbn [app]. rewrite M.
      change (case_synonyms t_qm) with (@nil text). cbn [existsb].
      unfold built_states.
      assert (L1 : len (map single (nongap T)) = len (nongap T)) by (unfold len; rewrite map_length; reflexivity).
      rewrite (fund_states_app (map single (nongap T)) [t_dash] 0).
      rewrite !L1. rewrite !Z.add_0_l. change (len [t_dash]) with 1. reflexivity.
    + intros s [H|[]]. subst. apply (caseless_single 45). split; reflexivity.
    + constructor; [intros [] | constructor].
    + intros s [H|[]]. subst. cbn [app]. intro X. apply in_map_iff in X. destruct X as [c [E Hc']].
      unfold single, t_dash in E. inversion E. subst. destruct (NG 45 Hc') as [_ B]. contradiction.
  - intros s H. apply in_map_iff in H. destruct H as [c [E Hc']]. subst. apply caseless_single.
    destruct (NG c Hc') as [A _]. apply (Hc c A).
  - apply Injective_map_NoDup; [intros x y E; inversion E; reflexivity | exact NdG].
  - intros s _ [].
Qed.

Lemma NoDup_app_intro : forall (A : Type) (l1 l2 : list A),
  NoDup l1 -> NoDup l2 -> (forall x, In x l1 -> In x l2 -> False) -> NoDup (l1 ++ l2).
Proof.
  induction l1 as [|a l1 IH]; intros l2 N1 N2 H; simpl; [exact N2|].
  inversion N1; subst. constructor.
  - intro X. apply in_app_or in X. destruct X as [X|X]; [contradiction | apply (H a); [left; reflexivity | exact X]].
  - apply IH; [assumption | assumption | intros x Hx1 Hx2; apply (H x); [right; exact Hx1 | exact Hx2]].
Qed.

Definition built_alphabet (T : text) : alphabet :=
  mkAlphabet (built_states T) (fullmap_of (built_states T)) false
             (Some (len (nongap T))) (Some (len (nongap T) + 1)).

Lemma built_lookup : forall T c,
  NoDup T -> (forall x, In x T -> x <> 63) ->
  In c T \/ c = 45 \/ c = 63 ->
  exists j, state_of_symbol (built_alphabet T) c = Some j /\ state_str (built_alphabet T) j = [c].
Proof.
  intros T c Nd H63 Hc. unfold built_alphabet.
  set (F := map single (nongap T) ++ [t_dash]).
  assert (NG : forall x, In x (nongap T) -> In x T /\ x <> 45).
  { intros x H. unfold nongap in H. apply filter_In in H. destruct H as [A B]. split; [exact A|].
    apply negb_true_iff in B. apply Z.eqb_neq in B. exact B. }
  assert (Fs : forall x, In x F -> exists d, x = [d]).
  { intros x H. unfold F in H. apply in_app_or in H. destruct H as [H|[H|[]]].
    - apply in_map_iff in H. destruct H as [d [E _]]. exists d. subst. reflexivity.
    - exists 45. subst. reflexivity. }
  assert (Simple : forall x, In x (built_states T) -> simple_state x).
  { intros x H. unfold built_states in H. fold F in H. apply in_app_or in H. destruct H as [H|[H|[]]].
    - apply (fund_states_simple F 0 x Fs H).
    - subst. split; [exists 63; reflexivity | reflexivity]. }
  assert (NdF : NoDup F).
  { unfold F. apply NoDup_app_intro.
    - apply Injective_map_NoDup; [intros x y E; inversion E; reflexivity | apply NoDup_filter; exact Nd].
    - constructor; [intros [] | constructor].
    - intros x H1 [H2|[]]. subst. apply in_map_iff in H1. destruct H1 as [d [E Hd]].
      unfold single, t_dash in E. inversion E. subst. destruct (NG 45 Hd) as [_ B]. contradiction. }
  assert (Nsym : NoDup (map s_symbol (built_states T))).
  { unfold built_states. fold F. rewrite map_app. rewrite fund_states_symbols. simpl.
    apply NoDup_app_intro; [exact NdF | constructor; [intros [] | constructor] |].
    intros x H1 [H2|[]]. subst. unfold F in H1. apply in_app_or in H1. destruct H1 as [H1|[H1|[]]].
    - apply in_map_iff in H1. destruct H1 as [d [E Hd]]. unfold single, t_qm in E. inversion E. subst.
      destruct (NG 63 Hd) as [A _]. apply (H63 63 A). reflexivity.
    - discriminate. }
  assert (Nidx : NoDup (map s_index (built_states T))).
  { unfold built_states. fold F. rewrite map_app. simpl.
    apply NoDup_app_intro; [apply fund_states_index_nodup | constructor; [intros [] | constructor] |].
    intros x H1 [H2|[]]. subst. apply in_map_iff in H1. destruct H1 as [s [E Hs]].
    apply fund_states_index_range in Hs. unfold F in Hs. rewrite len_app in Hs.
    unfold len in Hs, E. rewrite map_length in Hs. simpl in Hs. unfold len in E. lia. }
  assert (Find : exists s, In s (built_states T) /\ s_symbol s = [c]).
  { destruct Hc as [Hc|[Hc|Hc]].
    - destruct (Z.eq_dec c 45) as [E|E].
      + subst. destruct (fund_states_in F 0 t_dash) as [s [A B]]; [unfold F; apply in_or_app; right; left; reflexivity|].
        exists s. split; [unfold built_states; fold F; apply in_or_app; left; exact A | exact B].
      + destruct (fund_states_in F 0 (single c)) as [s [A B]].
        { unfold F. apply in_or_app. left. apply in_map. unfold nongap. apply filter_In. split; [exact Hc|].
          apply negb_true_iff. apply Z.eqb_neq. exact E. }
        exists s. split; [unfold built_states; fold F; apply in_or_app; left; exact A | exact B].
    - subst. destruct (fund_states_in F 0 t_dash) as [s [A B]]; [unfold F; apply in_or_app; right; left; reflexivity|].
      exists s. split; [unfold built_states; fold F; apply in_or_app; left; exact A | exact B].
    - subst. eexists. split; [unfold built_states; apply in_or_app; right; left; reflexivity | reflexivity]. }
  destruct Find as [s [Hin Es]]. exists (s_index s).
  apply (simple_alphabet_lookup (built_states T) false _ _ s c Simple Nsym Nidx Hin Es).
Qed.

(* ---- FORMAT DATATYPE=STANDARD SYMBOLS="T" [MISSING=?] ---- *)

Arguments parse_symbols : simpl never.
Arguments parse_format : simpl never.

Lemma parse_symbols_one : forall T r, is_eol T = false -> ucase T = T -> text_eqb T t_dq = false -> T <> [] ->
  parse_symbols false [] (T :: t_dq :: r) = Ok (T, r).
Proof.
  intros T r He Hu Hq Hn. unfold parse_symbols. cbn [negb andb]. rewrite He. rewrite Hu. rewrite Hq.
  assert (I : is_infix T [] = false) by (destruct T; [contradiction | reflexivity]).
  rewrite I. cbn [app]. fold parse_symbols. reflexivity.
Qed.

Lemma parse_format_eq : forall f st token toks,
  parse_format (S f) st token toks =
    let cap := x_cap st in
    let next st' r := do x <- req_tok cap r ;; let (t, r') := x in parse_format f st' (ucase t) r' in
    if text_eqb token t_semi then Ok (st, toks)
    else if text_eqb token kw_DATATYPE then
      do x <- req_tok cap toks ;;
      let (e, r) := x in
      if negb (text_eqb e t_eq) then Err ParseErr
      else
        do y <- req_tok cap r ;;
        let (v0, r1) := y in
        let v := ucase v0 in
        let st' :=
          if text_eqb v kw_DNA || text_eqb v kw_NUCLEOTIDES then set_dtype st DtDna
          else if text_eqb v kw_RNA then set_dtype st DtRna
          else if text_eqb v kw_NUCLEOTIDE then set_dtype st DtNucleotide
          else if text_eqb v kw_PROTEIN then set_dtype st DtProtein
          else if text_eqb v kw_CONTINUOUS then set_dtype st DtContinuous
          else set_symbols (set_dtype st DtStandard) digits09 in
        next st' r1
    else if text_eqb token kw_SYMBOLS then
      do x <- req_tok cap toks ;;
      let (e, r) := x in
      if negb (text_eqb e t_eq) then Err ParseErr
      else
        do y <- req_tok cap r ;;
        let (q, r1) := y in
        if negb (text_eqb q t_dq) then Err ParseErr
        else
          do z <- parse_symbols cap [] r1 ;;
          let (syms, r2) := z in
          next (set_symbols st syms) r2
    else if text_eqb token kw_GAP || text_eqb token kw_MISSING || text_eqb token kw_MATCHCHAR then
      do x <- req_tok cap toks ;;
      let (e, r) := x in
      if negb (text_eqb e t_eq) then Err ParseErr
      else
        do y <- req_tok cap r ;;
        let (v0, r1) := y in
        let v := ucase v0 in
        next (if text_eqb token kw_GAP then set_gap st v
              else if text_eqb token kw_MISSING then set_missing st v
              else set_match st [v; lcase v]) r1
    else if text_eqb token kw_INTERLEAVE then
      do x <- req_tok cap toks ;;
      let (e0, r) := x in
      let e := ucase e0 in
      if text_eqb e t_eq then
        do y <- req_tok cap r ;;
        let (v0, r1) := y in
        let v := ucase v0 in
        next (set_interleave st (negb (match v with 78 :: _ => true | _ => false end))) r1
      else parse_format f (set_interleave st true) e r
    else if text_eqb token kw_BEGIN then Err ParseErr
    else next st toks.
Proof. reflexivity. Qed.

Section StepsStd.
Variables (ns : list text) (ntax nchar0 : option Z) (dt0 : dtype) (sy : text)
          (mt : list tok) (il cs : bool) (ti lk : option tok).

Lemma pf_standard : forall f T (amb : list tok) rest,
  is_eol T = false -> ucase T = T -> text_eqb T t_dq = false -> T <> [] ->
  amb = [] \/ amb = [kw_MISSING; t_eq; t_qm] ->
  parse_format (S (S (S (S (S f))))) (mkNX ns ntax nchar0 dt0 sy t_dash t_qm mt il false cs ti lk) kw_DATATYPE
    (t_eq :: kw_STANDARD :: kw_SYMBOLS :: t_eq :: t_dq :: T :: t_dq :: amb ++ t_semi :: rest)
  = Ok (mkNX ns ntax nchar0 DtStandard T t_dash t_qm mt il false cs ti lk, rest).
Proof.
  intros f T amb rest He Hu Hq Hn [A|A]; subst amb.
  - rewrite parse_format_eq. cbn. norm_st.
    rewrite parse_format_eq. cbn. rewrite (parse_symbols_one T _ He Hu Hq Hn). cbn. norm_st.
    rewrite parse_format_eq. cbn. reflexivity.
  - rewrite parse_format_eq. cbn. norm_st.
    rewrite parse_format_eq. cbn. rewrite (parse_symbols_one T _ He Hu Hq Hn). cbn. norm_st.
    rewrite parse_format_eq. cbn. norm_st.
    rewrite parse_format_eq. cbn. reflexivity.
Qed.
End StepsStd.

(* ---- the whole block, DATATYPE=STANDARD ---- *)

Arguments is_eol !t.
Arguments all_digits : simpl never.
Arguments parse_nat : simpl never.
Arguments block_loop : simpl never.
Arguments parse_matrix : simpl never.
Arguments parse_dimensions : simpl never.
Arguments render_nat : simpl never.
Arguments matrix_loop : simpl never.
Arguments row_tokens : simpl never.
Arguments seq_tokens : simpl never.
Arguments built_alphabet : simpl never.

Section BlockStd.
Variable lower : text -> text.

Lemma parse_matrix_standard : forall fuel ns nt nchar T mt il cs ti lk R,
  nt <> 0 -> nchar <> 0 ->
  nongap T <> [] -> NoDup T -> (forall c, In c T -> caseless_char c /\ c <> 63) ->
  parse_matrix lower keep_ns fuel (mkNX ns (Some nt) (Some nchar) DtStandard T t_dash t_qm mt il false cs ti lk) R
  = do x <- matrix_loop lower fuel (mkNX ns (Some nt) (Some nchar) DtStandard T t_dash t_qm mt il false cs ti lk)
                        (built_alphabet T) nchar [] None R ;;
    let '(st', a', rows, rest) := x in
    Ok (st', mkBR DtStandard a' (map (fun r => (nth (fst r) (x_ns st') [], snd r)) rows) (x_ns st')
                  (x_title st') (x_link st'), rest).
Proof.
  intros. unfold parse_matrix, keep_ns. cbn [x_ntax x_nchar nonzero bind x_link x_ns]. norm_st. cbn [x_dtype x_symbols x_gap x_missing].
  apply Z.eqb_neq in H. apply Z.eqb_neq in H0. rewrite H, H0.
  rewrite build_alphabet_ok by assumption. reflexivity.
Qed.

(* a cell of a is re-read in the built alphabet as a state with the same symbol *)
Lemma reread_symbols : forall a T s,
  NoDup T -> (forall x, In x T -> x <> 63) ->
  (forall i, In i s -> exists ch, state_str a i = [ch] /\ plain_symbol_char ch = true /\ (In ch T \/ ch = 45 \/ ch = 63)) ->
  symtext (built_alphabet T) (symbols_as_string a s)
  /\ map (state_str (built_alphabet T)) (st_of (built_alphabet T) (symbols_as_string a s)) = map (state_str a) s
  /\ length (symbols_as_string a s) = length s.
Proof.
  intros a T s Nd H63. unfold symbols_as_string. induction s as [|i s IH]; intro H.
  - simpl. split; [intros c []|]. split; reflexivity.
  - destruct (H i (or_introl eq_refl)) as [ch [E [P Hc]]].
    destruct (IH (fun j Hj => H j (or_intror Hj))) as [A [B C0]].
    destruct (built_lookup T ch Nd H63 Hc) as [j [L S]].
    cbn [map concat]. rewrite E. cbn [app]. split; [|split].
    + intros c [Hc'|Hc']; [subst; split; [exact P | exists j; exact L] | apply A; exact Hc'].
    + unfold st_of in *. cbn [map]. rewrite L. rewrite S. f_equal. exact B.
    + cbn [length]. f_equal. exact C0.
Qed.

Lemma in_concat_singles : forall (l : list text) c, (forall t, In t l -> exists d, t = [d]) ->
  (In c (concat l) <-> In [c] l).
Proof.
  induction l as [|t l IH]; intros c H; simpl; [tauto|].
  destruct (H t (or_introl eq_refl)) as [d E]. subst t. simpl. rewrite IH by (intros t Ht; apply H; right; exact Ht).
  split; intros [A|A]; auto; left; congruence.
Qed.

Lemma concat_singles_nodup : forall (l : list text), (forall t, In t l -> exists d, t = [d]) -> NoDup l -> NoDup (concat l).
Proof.
  induction l as [|t l IH]; intros H N; simpl; [constructor|].
  destruct (H t (or_introl eq_refl)) as [d E]. subst t. inversion N; subst. simpl. constructor.
  - intro X. apply H2. apply (in_concat_singles l d); [intros t Ht; apply H; right; exact Ht | exact X].
  - apply IH; [intros t Ht; apply H; right; exact Ht | assumption].
Qed.

Theorem nexus_standard_roundtrip_l : forall (dt : dtype) (a : alphabet) (sym_order : list text)
    (simple cs : bool) (m : matrix) (nchar : Z),
  std_dtype dt = true -> std_alphabet_ok a = true ->
  same_set sym_order (fundamental_symbols [a]) = true -> texts_distinct sym_order = true ->
  m <> [] -> 1 <= nchar ->
  forallb label_token_ok (map fst m) = true ->
  NoDup (map (keyf lower cs) (map fst m)) ->
  forallb (fun r => forallb (valid_cell a) (snd r)) m = true ->
  rectangular nchar m = true ->
  exists toks st' b rows',
    write_chars_block dt [a] sym_order (mkNW simple None None) m = Ok toks
    /\ read_chars_block lower keep_ns
         (if simple then nx_init [] None cs else nx_init (map fst m) (Some (len m)) cs) toks
       = Ok (st', [mkBR DtStandard b rows' (map fst m) None None], [EOL; EOL; EOL])
    /\ map fst rows' = map fst m
    /\ map (fun r => map (state_str b) (snd r)) rows' = map (fun r => map (state_str a) (snd r)) m.
Proof.
  intros dt a sym_order simple cs m nchar Hdt Ha Hss Hsd Hm Hn Hl Hnd Hv Hr.
  unfold std_alphabet_ok in Ha.
  repeat (apply andb_true_iff in Ha; destruct Ha as [Ha ?]).
  rename Ha into Hkinds, H into Hamb, H0 into Hcells, H1 into Hfd, H2 into Hng, H3 into Hfund.
  set (F := fundamental_symbols [a]) in *.
  set (T := concat sym_order).
  (* facts about sym_order and T *)
  assert (SO : forall t, In t sym_order -> In t F).
  { unfold same_set in Hss. apply andb_true_iff in Hss. destruct Hss as [A _]. rewrite forallb_forall in A.
    intros t Ht. apply text_mem_In. apply A. exact Ht. }
  assert (FS : forall t, In t F -> In t sym_order).
  { unfold same_set in Hss. apply andb_true_iff in Hss. destruct Hss as [_ A]. rewrite forallb_forall in A.
    intros t Ht. apply text_mem_In. apply A. exact Ht. }
  assert (Ffacts : forall t, In t F -> exists c, t = [c] /\ ascii_upper c = c /\ ascii_lower c = c /\ c <> 63 /\ plain_symbol_char c = true).
  { rewrite forallb_forall in Hfund. intros t Ht. specialize (Hfund t Ht).
    destruct t as [|c [|? ?]]; try discriminate. exists c.
    repeat (apply andb_true_iff in Hfund; destruct Hfund as [Hfund ?]).
    apply Z.eqb_eq in Hfund. apply Z.eqb_eq in H1. apply negb_true_iff in H0. apply Z.eqb_neq in H0. tauto. }
  assert (Singles : forall t, In t sym_order -> exists d, t = [d]).
  { intros t Ht. destruct (Ffacts t (SO t Ht)) as [c [E _]]. exists c. exact E. }
  assert (Tin : forall c, In c T <-> In [c] sym_order) by (intro c; apply in_concat_singles; exact Singles).
  assert (Tfacts : forall c, In c T -> caseless_char c /\ c <> 63).
  { intros c Hc. apply Tin in Hc. destruct (Ffacts [c] (SO _ Hc)) as [c' [E [U [L [N6 _]]]]]. inversion E; subst. split; [split|]; assumption. }
  assert (Tplain : forall c, In c T -> plain_symbol_char c = true).
  { intros c Hc. apply Tin in Hc. destruct (Ffacts [c] (SO _ Hc)) as [c' [E [_ [_ [_ P]]]]]. inversion E; subst. exact P. }
  assert (Tnd : NoDup T) by (apply concat_singles_nodup; [exact Singles | apply texts_distinct_NoDup; exact Hsd]).
  assert (T63 : forall x, In x T -> x <> 63) by (intros x Hx; apply Tfacts; exact Hx).
  assert (Tng : nongap T <> []).
  { apply existsb_exists in Hng. destruct Hng as [t [Ht Nt]]. apply negb_true_iff in Nt. apply text_eqb_neq in Nt.
    destruct (Ffacts t Ht) as [c [E _]]. subst t.
    assert (In c (nongap T)).
    { unfold nongap. apply filter_In. split; [apply Tin; apply FS; exact Ht|].
      apply negb_true_iff. apply Z.eqb_neq. intro X. subst. apply Nt. reflexivity. }
    intro X. rewrite X in H. destruct H. }
  assert (Tne : T <> []) by (intro X; apply Tng; unfold nongap; rewrite X; reflexivity).
  assert (Tsym : symtext (built_alphabet T) T).
  { intros c Hc. split; [apply Tplain; exact Hc|].
    destruct (built_lookup T c Tnd T63 (or_introl Hc)) as [j [L _]]. exists j. exact L. }
  assert (Ttok : seq_tokens T = [T]) by (apply (seq_tokens_plain (built_alphabet T)); assumption).
  assert (Teol : is_eol T = false) by (apply (plain_token_tests (built_alphabet T) T); split; assumption).
  assert (Tuc : ucase T = T).
  { unfold ucase. rewrite <- (map_id T) at 2. apply map_ext_in. intros c Hc. apply Tfacts. exact Hc. }
  assert (Tdq : text_eqb T t_dq = false).
  { apply text_eqb_neq. intro X. assert (In 34 T) by (rewrite X; left; reflexivity).
    apply Tplain in H. apply (plain_not 34 34 H); [simpl; tauto | reflexivity]. }
  (* the cells *)
  assert (Cells : forall r, In r m -> forall i, In i (snd r) ->
            exists ch, state_str a i = [ch] /\ plain_symbol_char ch = true /\ (In ch T \/ ch = 45 \/ ch = 63)).
  { intros r Hin i Hi. rewrite forallb_forall in Hv. specialize (Hv r Hin). rewrite forallb_forall in Hv.
    specialize (Hv i Hi). unfold valid_cell in Hv. apply existsb_exists in Hv. destruct Hv as [s [Hs E]].
    apply Z.eqb_eq in E. subst i.
    unfold alphabet_cells_ok in Hcells. rewrite forallb_forall in Hcells. specialize (Hcells s Hs).
    destruct (cell_ok_inv a (s_index s) Hcells) as [ch [Es [P L]]]. exists ch. split; [exact Es|]. split; [exact P|].
    (* the state found at this index: fundamental or "?" *)
    unfold cell_ok in Hcells. unfold state_str in Es.
    destruct (find_state (s_index s) (a_states a)) as [s0|] eqn:Ef; [|discriminate].
    assert (In0 : In s0 (a_states a)).
    { clear - Ef. induction (a_states a) as [|z l IH]; simpl in Ef; [discriminate|].
      destruct (s_index s =? s_index z); [inversion Ef; subst; left; reflexivity | right; apply IH; exact Ef]. }
    destruct (s_symbol s0) as [|c0 [|? ?]] eqn:Es0; try discriminate. inversion Es; subst c0.
    rewrite forallb_forall in Hkinds. specialize (Hkinds s0 In0). apply orb_true_iff in Hkinds.
    destruct Hkinds as [K|K].
    - left. apply Tin. apply FS. unfold F, fundamental_symbols. simpl. rewrite List.app_nil_r.
      rewrite <- Es0. apply in_map. apply filter_In. split; assumption.
    - right. right. rewrite Es0 in K. apply text_eqb_eq in K. inversion K. reflexivity. }
  assert (Hrows : forall r, In r m -> nrow_ok2 a (built_alphabet T) nchar r).
  { intros r Hin. destruct (reread_symbols a T (snd r) Tnd T63 (Cells r Hin)) as [A [_ C0]].
    split; [|split].
    - rewrite forallb_forall in Hl. apply Hl. apply in_map. exact Hin.
    - exact A.
    - unfold rectangular in Hr. rewrite forallb_forall in Hr. specialize (Hr r Hin). apply Z.eqb_eq in Hr.
      unfold len in *. rewrite C0. exact Hr. }
  assert (Esites : zmax_list (map (fun r : text * list Z => len (snd r)) m) = Some nchar).
  { apply zmax_list_const; [destruct m; [contradiction | discriminate]|].
    intros x Hx. apply in_map_iff in Hx. destruct Hx as [r [E Hin]]. subst x.
    unfold rectangular in Hr. rewrite forallb_forall in Hr. apply Z.eqb_eq. apply (Hr r Hin). }
  assert (Lm : 1 <= len m) by (destruct m; [contradiction | unfold len; simpl; lia]).
  (* the writer *)
  assert (Efmt : exists amb, (amb = [] \/ amb = [kw_MISSING; t_eq; t_qm]) /\
            format_tokens dt [a] sym_order
            = Ok (kw_DATATYPE :: t_eq :: kw_STANDARD :: kw_SYMBOLS :: t_eq :: t_dq :: T :: t_dq :: amb)).
  { destruct (amb_terms_all [a]) as [amb| |] eqn:Ea; try discriminate.
    exists amb. split.
    - apply orb_true_iff in Hamb. destruct Hamb as [X|X]; apply (list_eqb_eq text_eqb text_eqb_eq) in X; auto.
    - unfold format_tokens. fold F. rewrite Hss, Hsd. cbn [andb]. rewrite Ea. cbn [bind]. fold T. rewrite Ttok.
      destruct dt; try discriminate; reflexivity. }
  destruct Efmt as [amb [Hamb' Efmt]].
  unfold write_chars_block. rewrite Esites. rewrite Efmt. cbn [bind nw_simple nw_title nw_link].
  set (b := built_alphabet T) in *.
  eexists. eexists. exists b. exists (map (reread a b) m).
  split; [reflexivity|].
  set (R := concat (map (row_tokens a) m) ++ [t_semi; EOL; kw_END; t_semi; EOL; EOL; EOL]).
  assert (LR : (length m <= length R)%nat).
  { unfold R. rewrite app_length. pose proof (rows_tokens_length a m). lia. }
  assert (NL : map (fun r : nat * list Z => (nth (fst r) (map fst m) [], snd r)) (numbered (map (reread a b) m)) = map (reread a b) m).
  { pose proof (numbered_labels (map (reread a b) m) []) as X. rewrite map_fst_reread in X. exact X. }
  split; [|split].
  2:{ apply map_fst_reread. }
  2:{ rewrite map_map. apply map_ext_in. intros r Hin. unfold reread. cbn [snd].
      destruct (reread_symbols a T (snd r) Tnd T63 (Cells r Hin)) as [_ [B _]]. exact B. }
  cbv zeta.
  destruct simple.
  - cbn [app]. unfold read_chars_block. cbn [nx_init x_cap next_tok negb andb].
    cbn.
    rewrite block_loop_eq. cbn. norm_st.
    rewrite pd_ntax_nchar with (n1 := len m) (n2 := nchar) by (try apply all_digits_render; apply parse_render_nat; lia).
    cbn [bind].
    rewrite block_loop_eq. cbn. norm_st.
    rewrite (pf_standard _ _ _ _ _ _ _ _ _ _ _ T amb) by assumption.
    cbn [bind].
    rewrite block_loop_eq. cbn. norm_st.
    rewrite parse_matrix_standard by (try assumption; lia).
    rewrite matrix_loop_skip_eol by reflexivity.
    unfold R. fold b.
    match goal with |- context [matrix_loop lower ?fuel ?st _ _ _ _ _] =>
      pose proof (matrix_loop_rows2 lower a b nchar true m [] st fuel None [EOL; kw_END; t_semi; EOL; EOL; EOL]) as ML
    end.
    change (numbered []) with (@nil (nat * list Z)) in ML. cbn [app] in ML.
    rewrite ML; clear ML.
    + cbn [bind]. norm_st.
      rewrite block_loop_eq. cbn. rewrite NL. reflexivity.
    + right; reflexivity.
    + reflexivity.
    + reflexivity.
    + exact Hn.
    + pose proof LR as LR'. unfold R in *. rewrite app_length. cbn [length]. lia.
    + reflexivity.
    + intros _. exists (len m). split; [reflexivity | unfold len; simpl; lia].
    + exact Hrows.
    + exact Hnd.
  - cbn [app]. unfold read_chars_block. cbn [nx_init x_cap next_tok negb andb].
    cbn.
    rewrite block_loop_eq. cbn. norm_st.
    rewrite pd_nchar with (n := nchar) by (try apply all_digits_render; apply parse_render_nat; lia).
    cbn [bind].
    rewrite block_loop_eq. cbn. norm_st.
    rewrite (pf_standard _ _ _ _ _ _ _ _ _ _ _ T amb) by assumption.
    cbn [bind].
    rewrite block_loop_eq. cbn. norm_st.
    rewrite parse_matrix_standard by (try assumption; lia).
    rewrite matrix_loop_skip_eol by reflexivity.
    unfold R. fold b.
    match goal with |- context [matrix_loop lower ?fuel ?st _ _ _ _ _] =>
      pose proof (matrix_loop_rows2 lower a b nchar false m [] st fuel None [EOL; kw_END; t_semi; EOL; EOL; EOL]) as ML
    end.
    change (numbered []) with (@nil (nat * list Z)) in ML. cbn [app] in ML.
    rewrite ML; clear ML.
    + cbn [bind]. norm_st.
      rewrite block_loop_eq. cbn. rewrite NL. reflexivity.
    + right; reflexivity.
    + reflexivity.
    + reflexivity.
    + exact Hn.
    + pose proof LR as LR'. unfold R in *. rewrite app_length. cbn [length]. lia.
    + reflexivity.
    + intro X. discriminate.
    + exact Hrows.
    + exact Hnd.
Qed.

End BlockStd.

Lemma standard_alphabets_ok_l :
  forallb std_alphabet_ok [alpha_standard; alpha_restriction; alpha_infinite] = true.
Proof. vm_compute. reflexivity. Qed.
