(* C02 (NEXUS): tokens of the text NexusWriter produces.  Words are followed by blanks/newlines
   here, so the Newick-level lemmas (continuation = captured delimiter) are generalised to any
   separator. *)
From Coq Require Import ZArith List Bool Lia Arith DecimalN.
From DV Require Import Model.PyPrims Gen.CharClasses Model.Tokenizer Model.Newick Model.C02Spec Model.C02Nexus
     Proofs.C02Tok Proofs.C02Escape Proofs.C02Lex.
Import ListNotations.
Open Scope Z_scope.

Section SepLex.
Variable pu : bool.
Notation cfg := (nexus_cfg pu).
Notation unc c := (zmem c tok_uncaptured_delimiters) (only parsing).
Notation cap c := (zmem c tok_captured_delimiters) (only parsing).
Notation quo c := (zmem c tok_quote_chars) (only parsing).

(* the continuation starts with a captured delimiter, or with a blank that is not the last character *)
Definition sep_ok (r : str) : bool :=
  match r with [] => false | c :: r' => cap c || (unc c && negb (is_nil r')) end.

(* what is left after an unquoted word *)
Definition after_sep (r : str) : str :=
  match r with c :: r' => if unc c then r' else r | [] => [] end.

Lemma sep_ok_nonempty r : sep_ok r = true -> r <> [].
Proof. destruct r; [discriminate | discriminate]. Qed.

Lemma unquoted_plain_sep : forall s r f, forallb plain s = true -> sep_ok r = true ->
  (length (s ++ r) < f)%nat ->
  unquoted_loop cfg f (s ++ r) = Some (map (conv pu) s, [], after_sep r).
Proof.
  induction s as [|c s IH]; intros r f Hp Hr Hf.
  - destruct f as [|f]; [simpl in Hf; lia|]. simpl app. destruct r as [|c r]; [discriminate|].
    cbn [unquoted_loop after_sep map].
    change (tc_uncaptured cfg) with tok_uncaptured_delimiters.
    change (tc_captured cfg) with tok_captured_delimiters.
    destruct (zmem c tok_uncaptured_delimiters) eqn:Eu; [reflexivity|].
    simpl in Hr. rewrite Eu in Hr. simpl in Hr. rewrite orb_false_r in Hr. rewrite Hr. reflexivity.
  - destruct f as [|f]; [simpl in Hf; lia|]. simpl in Hp. apply andb_true_iff in Hp. destruct Hp as [Hc Hp].
    unfold plain in Hc. rewrite !andb_true_iff, !negb_true_iff in Hc. destruct Hc as [[H1 H2] H3].
    simpl app. cbn [unquoted_loop].
    change (tc_uncaptured cfg) with tok_uncaptured_delimiters.
    change (tc_captured cfg) with tok_captured_delimiters.
    change (tc_cbegin cfg) with tok_comment_begin.
    change (tc_preserve_underscores cfg) with pu.
    rewrite H1, H2, H3.
    rewrite (IH r f Hp Hr); [reflexivity | simpl in Hf; lia].
Qed.

Lemma next_plain_sep s r : s <> [] -> forallb plain s = true -> quo (hd 0 s) = false -> sep_ok r = true ->
  next_token cfg (s ++ r) = TTok (map (conv pu) s) false [] (after_sep r).
Proof.
  intros Hne Hp Hq Hr. destruct s as [|c s]; [congruence|].
  unfold next_token. cbn [next_tok].
  pose proof Hp as Hp0. simpl in Hp. apply andb_true_iff in Hp. destruct Hp as [Hc Hp].
  unfold plain in Hc. rewrite !andb_true_iff, !negb_true_iff in Hc. destruct Hc as [[H1 H2] H3].
  assert (Hs : skip_ws cfg ((c :: s) ++ r) = c :: (s ++ r)).
  { simpl app. cbn [skip_ws]. change (tc_uncaptured cfg) with tok_uncaptured_delimiters. rewrite H1. reflexivity. }
  rewrite Hs.
  change (tc_captured cfg) with tok_captured_delimiters.
  change (tc_quotes cfg) with tok_quote_chars.
  rewrite H2. simpl in Hq. rewrite Hq.
  change (c :: s ++ r) with ((c :: s) ++ r).
  rewrite (unquoted_plain_sep (c :: s) r _ Hp0 Hr); [|lia].
  reflexivity.
Qed.

Lemma sep_not_quote r : sep_ok r = true -> match r with [] => True | c :: _ => c <> QUOTE end.
Proof.
  destruct r as [|c r]; [auto|]. simpl. intros H E. subst c.
  destruct (shape_quote) as [_ [_ [Hu Hc]]]. rewrite Hu, Hc in H. discriminate.
Qed.

Lemma next_quoted_sep l r : sep_ok r = true ->
  next_token cfg (QUOTE :: double_quotes l ++ QUOTE :: r) = TTok l true [] r.
Proof.
  intro Hr. destruct shape_quote as [Hq [Hd [Hu Hc]]].
  unfold next_token. cbn [next_tok].
  assert (Hs : skip_ws cfg (QUOTE :: double_quotes l ++ QUOTE :: r) = QUOTE :: double_quotes l ++ QUOTE :: r).
  { cbn [skip_ws]. change (tc_uncaptured cfg) with tok_uncaptured_delimiters. rewrite Hu. reflexivity. }
  rewrite Hs.
  change (tc_captured cfg) with tok_captured_delimiters.
  change (tc_quotes cfg) with tok_quote_chars.
  rewrite Hc, Hq.
  rewrite (quoted_loop_double pu); [reflexivity | apply sep_not_quote; exact Hr].
Qed.

(* escape_nexus_token in front of any separator *)
Section Class.
Variable protect : list Z.
Hypothesis Hprot : delims_protected_check protect = true.
Hypothesis Hcls : writer_class_check protect = true.

Lemma escape_tokenize_sep : forall ps uu l r,
  negb (is_nil l) = true -> forallb admissible l = true -> sep_ok r = true ->
  consistent_opts uu pu ps l = true ->
  next_token cfg (escape_token protect ps (negb uu) l ++ r)
  = TTok l (escape_quotes protect ps (negb uu) l) []
         (if escape_quotes protect ps (negb uu) l then r else after_sep r).
Proof.
  intros ps uu l r Hne Hadm Hr Hcons.
  pose proof Hcls as Hcls'. unfold writer_class_check in Hcls'. rewrite !andb_true_iff, !negb_true_iff in Hcls'.
  destruct Hcls' as [[Ctab Cus] Csp].
  unfold escape_token, escape_quotes.
  set (has_prot := existsb (fun c => zmem c protect) l).
  set (has_us := zmem UNDERSCORE l).
  set (has_sp := zmem SPACE l).
  destruct (negb ps && negb has_us && negb has_prot) eqn:EA.
  - rewrite !andb_true_iff, !negb_true_iff in EA. destruct EA as [[Eps Eus] Epr].
    assert (Hall : forall c, In c l -> zmem c protect = false /\ c <> UNDERSCORE /\ c <> TAB).
    { intros c Hi. assert (P : zmem c protect = false).
      { unfold has_prot in Epr. destruct (zmem c protect) eqn:E; [|reflexivity].
        assert (X : existsb (fun c => zmem c protect) l = true) by (apply existsb_exists; exists c; auto).
        congruence. }
      split; [exact P|]. split.
      - intro E. subst c. unfold has_us in Eus. apply zmem_In in Hi. congruence.
      - intro E. subst c. congruence. }
    assert (Hpl : forallb plain (map sp2us l) = true).
    { apply forallb_forall. intros x Hx. apply in_map_iff in Hx. destruct Hx as [c [Hx Hi]]. subst x.
      destruct (Hall c Hi) as [P [N1 N2]]. unfold sp2us.
      destruct (c =? SPACE) eqn:E1; [apply underscore_plain|].
      destruct (c =? TAB) eqn:E2; [apply underscore_plain|]. simpl.
      rewrite forallb_forall in Hadm. apply Z.eqb_neq in E1.
      apply (unprotected_plain protect Hprot c P (Hadm c Hi) E1). }
    assert (Hq : quo (hd 0 (map sp2us l)) = false).
    { destruct l as [|c l]; [discriminate|]. simpl. destruct (Hall c (or_introl eq_refl)) as [P [N1 N2]].
      unfold sp2us. destruct (c =? SPACE) eqn:E1; [apply underscore_plain|].
      destruct (c =? TAB) eqn:E2; [apply underscore_plain|]. simpl.
      rewrite forallb_forall in Hadm. apply Z.eqb_neq in E1.
      apply (unprotected_plain protect Hprot c P (Hadm c (or_introl eq_refl)) E1). }
    rewrite next_plain_sep; [| destruct l; [discriminate | simpl; discriminate] | exact Hpl | exact Hq | exact Hr].
    f_equal. rewrite map_map.
    rewrite <- (map_id l) at 2. apply map_ext_in. intros c Hi.
    destruct (Hall c Hi) as [P [N1 N2]]. unfold conv, sp2us.
    destruct (c =? SPACE) eqn:E1.
    + apply Z.eqb_eq in E1. subst c. simpl.
      unfold consistent_opts in Hcons. destruct pu; [|reflexivity].
      rewrite andb_false_r in Hcons. simpl in Hcons. rewrite Eps in Hcons. simpl in Hcons.
      apply andb_true_iff in Hcons. destruct Hcons as [_ Hc]. apply negb_true_iff in Hc.
      apply zmem_In in Hi. unfold has_sp in *. congruence.
    + apply Z.eqb_neq in N2. rewrite N2. simpl. apply Z.eqb_neq in N1. rewrite N1. reflexivity.
  - destruct (has_prot || has_sp || (negb uu && has_us)) eqn:EB.
    + replace ((QUOTE :: double_quotes l ++ [QUOTE]) ++ r) with (QUOTE :: double_quotes l ++ QUOTE :: r)
        by (simpl; rewrite <- app_assoc; reflexivity).
      apply next_quoted_sep. exact Hr.
    + rewrite !orb_false_iff in EB. destruct EB as [[Epr Esp] Eq].
      assert (Hall : forall c, In c l -> zmem c protect = false /\ c <> SPACE).
      { intros c Hi. split.
        - unfold has_prot in Epr. destruct (zmem c protect) eqn:E; [|reflexivity].
          assert (X : existsb (fun c => zmem c protect) l = true) by (apply existsb_exists; exists c; auto).
          congruence.
        - intro E. subst c. unfold has_sp in Esp. apply zmem_In in Hi. congruence. }
      assert (Hpl : forallb plain l = true).
      { apply forallb_forall. intros c Hi. destruct (Hall c Hi) as [P N].
        rewrite forallb_forall in Hadm. apply (unprotected_plain protect Hprot c P (Hadm c Hi) N). }
      assert (Hq : quo (hd 0 l) = false).
      { destruct l as [|c l]; [discriminate|]. simpl. destruct (Hall c (or_introl eq_refl)) as [P N].
        rewrite forallb_forall in Hadm. apply (unprotected_plain protect Hprot c P (Hadm c (or_introl eq_refl)) N). }
      rewrite next_plain_sep; [| destruct l; [discriminate | discriminate] | exact Hpl | exact Hq | exact Hr].
      f_equal. rewrite <- (map_id l) at 2. apply map_ext_in. intros c Hi. unfold conv.
      destruct (c =? UNDERSCORE) eqn:E1; [|reflexivity].
      apply Z.eqb_eq in E1. subst c.
      assert (U : has_us = true) by (apply zmem_In; exact Hi).
      rewrite U, andb_true_r in Eq. apply negb_false_iff in Eq. subst uu.
      unfold consistent_opts in Hcons. simpl in Hcons. apply andb_true_iff in Hcons.
      destruct Hcons as [Hc _]. rewrite Hc. reflexivity.
Qed.

End Class.
End SepLex.

(* ---- composing token sequences ---- *)
Section Lexes2.
Variable pu : bool.
Notation cfg := (nexus_cfg pu).
Notation unc c := (zmem c tok_uncaptured_delimiters) (only parsing).
Notation cap c := (zmem c tok_captured_delimiters) (only parsing).

Definition W (s : str) : token := T s false.

Definition nonempty (r : str) : bool := negb (is_nil r).

(* `s` contributes exactly `toks`, for every continuation accepted by `ok` *)
Definition Lexes2 (ok : str -> bool) (s : str) (toks : list token) : Prop :=
  forall r, ok r = true ->
    tokenize cfg (s ++ r) = (toks ++ fst (tokenize cfg r), snd (tokenize cfg r)).

Lemma tokenize_skip_pu c r : unc c = true -> tokenize cfg (c :: r) = tokenize cfg r.
Proof.
  intro Hc. rewrite (tokenize_unfold cfg (c :: r)), (tokenize_unfold cfg r).
  assert (E : next_token cfg (c :: r) = next_token cfg r).
  { unfold next_token. transitivity (next_tok cfg (S (length (c :: r))) r).
    - cbn [next_tok skip_ws]. change (tc_uncaptured cfg) with tok_uncaptured_delimiters. rewrite Hc. reflexivity.
    - apply next_tok_irrel; simpl; lia. }
  rewrite E. reflexivity.
Qed.

Lemma sep_nonempty r : sep_ok r = true -> nonempty r = true.
Proof. destruct r; [discriminate | reflexivity]. Qed.

Lemma Lexes2_weaken s toks : Lexes2 nonempty s toks -> Lexes2 sep_ok s toks.
Proof. intros H r Hr. apply H. apply sep_nonempty. exact Hr. Qed.

Section Ok.
Variable ok : str -> bool.
Hypothesis ok_nonempty : forall r, ok r = true -> r <> [].

Lemma L2_nil : Lexes2 ok [] [].
Proof. intros r _. simpl. destruct (tokenize cfg r). reflexivity. Qed.

Lemma L2_ws c s toks : unc c = true -> Lexes2 ok s toks -> Lexes2 ok (c :: s) toks.
Proof. intros Hc Hs r Hr. simpl app. rewrite tokenize_skip_pu by exact Hc. apply Hs. exact Hr. Qed.

Lemma L2_cap c s toks : cap c = true -> Lexes2 ok s toks -> Lexes2 ok (c :: s) (T [c] false :: toks).
Proof.
  intros Hc Hs r Hr. simpl app. rewrite tokenize_unfold. rewrite (next_captured pu c (s ++ r) Hc).
  rewrite (Hs r Hr).
  assert (E : is_nil (s ++ r) = false).
  { destruct s; [|reflexivity]. simpl. destruct r; [exfalso; apply (ok_nonempty [] Hr); reflexivity | reflexivity]. }
  rewrite E. reflexivity.
Qed.

Lemma tokenize_after_sep r : sep_ok r = true ->
  tokenize cfg (after_sep r) = tokenize cfg r /\ is_nil (after_sep r) = false.
Proof.
  destruct r as [|c r]; [discriminate|]. simpl. intro H.
  destruct (zmem c tok_uncaptured_delimiters) eqn:Eu.
  - rewrite tokenize_skip_pu by exact Eu. split; [reflexivity|].
    destruct (zmem c tok_captured_delimiters) eqn:Ec.
    + pose proof (cap_not_unc c Ec) as X. congruence.
    + simpl in H. apply negb_true_iff in H. exact H.
  - split; reflexivity.
Qed.

(* a word in front of a non-empty rest that starts with a separator *)
Lemma L2_word w txt q c s toks :
  (forall r, sep_ok r = true -> next_token cfg (w ++ r) = TTok txt q [] (if q then r else after_sep r)) ->
  (cap c || unc c)%bool = true -> Lexes2 ok (c :: s) toks -> Lexes2 ok (w ++ c :: s) (T txt q :: toks).
Proof.
  intros Hw Hc Hs r Hr. rewrite <- app_assoc.
  assert (Hsep : sep_ok ((c :: s) ++ r) = true).
  { simpl. apply orb_true_iff in Hc. destruct Hc as [Hc|Hc]; rewrite Hc; [reflexivity|].
    rewrite orb_true_iff. right. simpl. destruct s; [|reflexivity]. simpl.
    destruct r; [exfalso; apply (ok_nonempty [] Hr); reflexivity | reflexivity]. }
  rewrite tokenize_unfold. rewrite (Hw _ Hsep).
  destruct (tokenize_after_sep _ Hsep) as [E1 E2].
  destruct q.
  - rewrite (Hs r Hr). reflexivity.
  - rewrite E1, E2. rewrite (Hs r Hr). reflexivity.
Qed.

Lemma L2_app s1 t1 s2 t2 : Lexes2 nonempty s1 t1 -> Lexes2 ok s2 t2 -> Lexes2 ok (s1 ++ s2) (t1 ++ t2).
Proof.
  intros H1 H2 r Hr. rewrite <- app_assoc. rewrite (H1 (s2 ++ r)).
  - rewrite (H2 r Hr). simpl. rewrite <- app_assoc. reflexivity.
  - unfold nonempty. destruct s2; [|reflexivity]. simpl. destruct r; [exfalso; apply (ok_nonempty [] Hr); reflexivity | reflexivity].
Qed.

End Ok.

(* a word at the very end: the continuation itself must start with a separator *)
Lemma L2_word_end w txt q :
  (forall r, sep_ok r = true -> next_token cfg (w ++ r) = TTok txt q [] (if q then r else after_sep r)) ->
  Lexes2 sep_ok w [T txt q].
Proof.
  intros Hw r Hr. rewrite tokenize_unfold. rewrite (Hw r Hr).
  destruct (tokenize_after_sep r Hr) as [E1 E2].
  destruct q.
  - assert (E : is_nil r = false) by (destruct r; [discriminate | reflexivity]). rewrite E.
    destruct (tokenize cfg r). reflexivity.
  - rewrite E1, E2. destruct (tokenize cfg r). reflexivity.
Qed.

Lemma nonempty_ne r : nonempty r = true -> r <> [].
Proof. destruct r; [discriminate | discriminate]. Qed.
Lemma sep_ne r : sep_ok r = true -> r <> [].
Proof. destruct r; [discriminate | discriminate]. Qed.

(* ---- keywords, numerals ---- *)
Definition kw_char (c : Z) : bool :=
  plain c && negb (zmem c tok_quote_chars) && negb (c =? UNDERSCORE).
Definition kw_ok (w : str) : bool := negb (is_nil w) && forallb kw_char w.

Lemma kw_word w : kw_ok w = true ->
  forall r, sep_ok r = true -> next_token cfg (w ++ r) = TTok w false [] (after_sep r).
Proof.
  intros Hk r Hr. unfold kw_ok in Hk. apply andb_true_iff in Hk. destruct Hk as [Hne Hall].
  assert (A : forall c, In c w -> plain c = true /\ zmem c tok_quote_chars = false /\ c <> UNDERSCORE).
  { intros c Hi. rewrite forallb_forall in Hall. specialize (Hall c Hi). unfold kw_char in Hall.
    rewrite !andb_true_iff, !negb_true_iff in Hall. destruct Hall as [[H1 H2] H3]. apply Z.eqb_neq in H3. auto. }
  rewrite next_plain_sep.
  - f_equal. rewrite <- (map_id w) at 2. apply map_ext_in. intros c Hi.
    destruct (A c Hi) as [_ [_ N]]. unfold conv. apply Z.eqb_neq in N. rewrite N. reflexivity.
  - destruct w; [discriminate | discriminate].
  - apply forallb_forall. intros c Hi. apply (A c Hi).
  - destruct w as [|c w]; [discriminate|]. simpl. apply (A c (or_introl eq_refl)).
  - exact Hr.
Qed.

Lemma uint_digits_kw : forall u, forallb kw_char (uint_digits u) = true.
Proof. induction u; simpl; try reflexivity; rewrite IHu; vm_compute; reflexivity. Qed.

Lemma dec_nonempty n : dec_of_nat n <> [].
Proof.
  unfold dec_of_nat. intro H.
  assert (E : N.to_uint (N.of_nat n) = Decimal.Nil) by (destruct (N.to_uint (N.of_nat n)); simpl in H; try discriminate; reflexivity).
  pose proof (DecimalN.Unsigned.of_to (N.of_nat n)) as X. rewrite E in X. simpl in X.
  destruct n; [vm_compute in E; discriminate|]. rewrite Nnat.Nat2N.inj_succ in X. destruct (N.of_nat n); discriminate.
Qed.

Lemma dec_kw n : kw_ok (dec_of_nat n) = true.
Proof.
  unfold kw_ok. apply andb_true_iff. split.
  - pose proof (dec_nonempty n). destruct (dec_of_nat n); [congruence | reflexivity].
  - apply uint_digits_kw.
Qed.

End Lexes2.
