(* C11, wave 8: refused calls (Model/C11W8Model.v).  The closure invariant over the extended history
   language, and: a refused operation changes nothing. *)
From Coq Require Import List Bool Arith ZArith Lia.
From DV Require Import Model.PyPrims Model.C11Model Model.C11W7Model Model.C11W8Model Proofs.C11Base Proofs.C11Final
  Proofs.C11W7.
Import ListNotations.
Open Scope nat_scope.

Lemma with_st_same : forall x, with_st x (x_st x) = x.
Proof. destruct x; reflexivity. Qed.

Lemma upd_nth_same : forall A (l : list A) i d, i < length l -> upd l i (nth i l d) = l.
Proof.
  induction l as [|a l IH]; intros i d H; [reflexivity|].
  destruct i; cbn [upd nth]; [reflexivity|]. cbn [length] in H. rewrite IH by lia. reflexivity.
Qed.

Lemma with_memo_same : forall x k, valid_memo x k = true -> with_memo x (x_st x) k (getmemo x k) = x.
Proof.
  intros [st ms] k V. unfold valid_memo in V. apply Nat.ltb_lt in V. cbn [x_memos] in V.
  unfold with_memo, getmemo. cbn [x_st x_memos]. rewrite upd_nth_same by exact V. reflexivity.
Qed.

Section WithLower.
Variable lower : lbl -> lbl.

(* ---- the call with the unknown keyword is either the plain call or leaves everything as it was ---- *)
Lemma step8_badkw_cases : forall x o,
  step8 lower x (BadKw o) = step7 lower x o
  \/ (fst (step8 lower x (BadKw o)) = x
      /\ (snd (step8 lower x (BadKw o)) = OBadArg \/ snd (step8 lower x (BadKw o)) = OErr TypeErr)).
Proof.
  intros x o. cbn [step8]. destruct (kw_refused (x_st x) o) as [r|]; [|right; split; [reflexivity|left; reflexivity]].
  destruct (step7 lower x o) as [x1 y]. destruct (is_badarg y); [right; split; [reflexivity|left; reflexivity]|].
  destruct r; [right; split; [reflexivity|right; reflexivity]|left; reflexivity].
Qed.

Theorem closed_step8_l : forall x o,
  Closed (x_st x) -> disciplined8 x o = true -> snd (step8 lower x o) <> ORecon ->
  Closed (x_st (fst (step8 lower x o))).
Proof.
  intros x o C D R. destruct o as [o|o].
  - cbn [step8 disciplined8] in *. apply closed_step7_l; assumption.
  - destruct (step8_badkw_cases x o) as [E|[E _]].
    + rewrite E in *. cbn [disciplined8] in D. apply closed_step7_l; assumption.
    + rewrite E. exact C.
Qed.

Lemma closed_run8_l : forall ops x,
  Closed (x_st x) -> hist_ok8 lower x ops = true -> Closed (x_st (run_state8 lower x ops)).
Proof.
  induction ops as [|o r IH]; intros x C H; [exact C|].
  cbn [hist_ok8] in H. apply andb_true_iff in H. destruct H as [H H3]. apply andb_true_iff in H. destruct H as [H1 H2].
  unfold run_state8. cbn [fold_left]. apply IH; [|exact H3].
  apply closed_step8_l; [exact C | exact H1 |]. intro E. rewrite E in H2. discriminate.
Qed.

Lemma closed_reachable8_l : forall ops,
  hist_ok8 lower x_init ops = true -> Closed (x_st (run_state8 lower x_init ops)).
Proof. intros ops H. apply closed_run8_l; [exact closed_init_l | exact H]. Qed.

Lemma op7_step8_l : forall x o, step8 lower x (Op7 o) = step7 lower x o.
Proof. reflexivity. Qed.

(* ---- a refused operation changes nothing ---- *)
Lemma import_tree_false : forall st ln tr s st1, import_tree lower st ln tr s = (st1, false) -> st1 = st.
Proof.
  intros st ln tr s st1. unfold import_tree. destruct (Nat.eqb (t_ns (gettree st tr)) ln); [discriminate|].
  destruct s; try discriminate. intro H. injection H as H. symmetry. exact H.
Qed.

Lemma append_tree_false : forall st l tr s st1, append_tree lower st l tr s = (st1, false) -> st1 = st.
Proof.
  intros st l tr s st1. unfold append_tree.
  destruct (import_tree lower st (l_ns (getlist st l)) tr s) as [st2 ok] eqn:E. destruct ok; [discriminate|].
  intro H. injection H as H. subst st2. eapply import_tree_false. exact E.
Qed.

Lemma import_tree_m_false : forall st ln tr s mm st1 mm1,
  import_tree_m lower st ln tr s mm = (st1, false, mm1) -> st1 = st /\ mm1 = mm.
Proof.
  intros st ln tr s mm st1 mm1. unfold import_tree_m. destruct (Nat.eqb (t_ns (gettree st tr)) ln); [discriminate|].
  destruct s; try discriminate.
  - destruct (migrate_tree lower st tr ln unify mm). discriminate.
  - intro H. injection H as H1 H2. split; symmetry; assumption.
Qed.

Lemma refused7_l : forall x o,
  refusal_class (Op7 o) = true -> is_err (snd (step7 lower x o)) = true -> fst (step7 lower x o) = x.
Proof.
  intros x o K H. destruct o; cbn [refusal_class] in K; try discriminate.
  - (* Base *)
    rewrite base_step_l in *. cbn [fst snd] in *.
    assert (G : fst (step lower (x_st x) o) = x_st x); [|rewrite G; apply with_st_same].
    remember (x_st x) as st eqn:Est. clear Est K0 x || clear Est x.
    destruct o; try discriminate; cbn [step] in *.
    + (* Append *)
      destruct (valid_list st l && valid_tree st t); [|reflexivity].
      destruct (append_tree lower st l t s) as [st1 ok] eqn:E. cbn [fst snd] in *.
      destruct ok; [discriminate|]. eapply append_tree_false. exact E.
    + (* Insert *)
      destruct (valid_list st l && valid_tree st t); [|reflexivity].
      destruct (import_tree lower st (l_ns (getlist st l)) t s) as [st1 ok] eqn:E.
      destruct ok; cbn [fst snd] in *; [discriminate|]. eapply import_tree_false. exact E.
    + (* NewTreeIn *)
      destruct (valid_list st l && valid_nsopt st nsarg && forallb (valid_taxon st) refs); [|reflexivity].
      destruct (match nsarg with Some a => Nat.eqb a (l_ns (getlist st l)) | None => true end); [|reflexivity].
      destruct (alloc_tree (add_members st (l_ns (getlist st l)) refs) (mkTree (l_ns (getlist st l)) refs)).
      cbn [snd] in H. discriminate.
    + (* Pop *)
      destruct (valid_list st l); [|reflexivity].
      destruct (norm_index (length (l_trees (getlist st l))) i); [cbn [snd] in H; discriminate|reflexivity].
    + (* Remove *)
      destruct (valid_list st l && valid_tree st t); [|reflexivity].
      destruct (remove_first t (l_trees (getlist st l))); [cbn [snd] in H; discriminate|reflexivity].
    + (* ArrayAdd *)
      destruct (valid_ns st n && valid_tree st t); [|reflexivity].
      destruct (Nat.eqb (t_ns (gettree st t)) n); [|reflexivity].
      destruct (forallb (fun x => memb x (members st n)) (t_refs (gettree st t))); reflexivity.
    + (* NewSeq *)
      destruct (valid_mat st m && valid_taxon st x); [|reflexivity].
      destruct (memb x (m_rows (getmat st m))); [reflexivity|].
      destruct (negb (memb x (members st (m_ns (getmat st m))))); [reflexivity|cbn [snd] in H; discriminate].
    + (* SetRow *)
      destruct (valid_mat st m && match k with KeyTaxon x => valid_taxon st x | _ => true end); [|reflexivity].
      destruct (row_key lower st (m_ns (getmat st m)) k) as [x|e|]; try reflexivity.
      destruct (negb (memb x (members st (m_ns (getmat st m))))); [reflexivity|cbn [snd] in H; discriminate].
    + (* DsNewList *)
      destruct (valid_ds st d && valid_nsopt st nsarg); [|reflexivity].
      destruct (ds_pick_ns st d nsarg) as [[st1 n]|]; [|reflexivity].
      destruct (alloc_list st1 (mkTL n [])). cbn [snd] in H. discriminate.
    + (* DsNewMat *)
      destruct (valid_ds st d && valid_nsopt st nsarg); [|reflexivity].
      destruct (ds_pick_ns st d nsarg) as [[st1 n]|]; [|reflexivity].
      destruct (alloc_mat st1 (mkMat n [])). cbn [snd] in H. discriminate.
  - (* AppendM *)
    cbn [step7] in *. destruct (valid_list (x_st x) l && valid_tree (x_st x) t && valid_memo x k) eqn:V; [|reflexivity].
    apply andb_true_iff in V. destruct V as [_ Vk].
    destruct (import_tree_m lower (x_st x) (l_ns (getlist (x_st x) l)) t s (getmemo x k)) as [[st1 ok] mm] eqn:E.
    destruct ok; cbn [fst snd] in *; [discriminate|].
    apply import_tree_m_false in E. destruct E as [E1 E2]. subst st1 mm. apply with_memo_same. exact Vk.
  - (* InsertM *)
    cbn [step7] in *. destruct (valid_list (x_st x) l && valid_tree (x_st x) t && valid_memo x k) eqn:V; [|reflexivity].
    apply andb_true_iff in V. destruct V as [_ Vk].
    destruct (import_tree_m lower (x_st x) (l_ns (getlist (x_st x) l)) t s (getmemo x k)) as [[st1 ok] mm] eqn:E.
    destruct ok; cbn [fst snd] in *; [discriminate|].
    apply import_tree_m_false in E. destruct E as [E1 E2]. subst st1 mm. apply with_memo_same. exact Vk.
Qed.

Lemma kw_false_class : forall st o, kw_refused st o = Some false -> refusal_class (Op7 o) = true.
Proof.
  intros st o. destruct o; cbn [kw_refused refusal_class]; try discriminate; try reflexivity.
  destruct o; try discriminate; reflexivity.
Qed.

Theorem refused_changes_nothing_l : forall x o,
  refusal_class o = true -> is_err (snd (step8 lower x o)) = true -> fst (step8 lower x o) = x.
Proof.
  intros x o K H. destruct o as [o|o].
  - cbn [step8] in *. apply refused7_l; assumption.
  - cbn [step8] in *. destruct (kw_refused (x_st x) o) as [r|] eqn:R; [|reflexivity].
    destruct (step7 lower x o) as [x1 y] eqn:E. destruct (is_badarg y); [reflexivity|].
    destruct r; [reflexivity|]. cbn [fst snd] in *.
    pose proof (refused7_l x o (kw_false_class _ _ R)) as G. rewrite E in G. cbn [fst snd] in G. apply G. exact H.
Qed.

(* the keyword is refused exactly where the code hands it to Tree.migrate_taxon_namespace *)
Lemma badkw_append_refused_l : forall x l tr u,
  valid_list (x_st x) l = true -> valid_tree (x_st x) tr = true ->
  t_ns (gettree (x_st x) tr) <> l_ns (getlist (x_st x) l) ->
  step8 lower x (BadKw (Base (Append l tr (SMigrate u)))) = (x, OErr TypeErr).
Proof.
  intros x l tr u Vl Vt N. cbn [step8 kw_refused]. unfold kw_reaches_migrate.
  apply Nat.eqb_neq in N. rewrite N. cbn [negb andb].
  rewrite base_step_l. cbn [step]. rewrite Vl, Vt. cbn [andb].
  destruct (append_tree lower (x_st x) l tr (SMigrate u)) as [st1 ok] eqn:E. cbn [fst snd].
  unfold append_tree, import_tree in E. rewrite N in E.
  destruct ok; [reflexivity|]. discriminate.
Qed.

End WithLower.
