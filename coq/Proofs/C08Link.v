(* C08 - link to the pointer level (C03).  Model/HeapOps.v holds the statement-level heap program
   for Tree.prune_subtree and C03 proves that it refines the rose-tree function
   spec_tail ub su unrooted (spec_prune n t)  (Props/C03.v, prune_subtree_refines).
   Here: that function IS what the C08 transcription computes, hence (with C08's theorems)
   heap program -> restrictG, and -> restrict when the parent keeps another child. *)
From Coq Require Import ZArith List Bool Lia Permutation.
From DV Require Import Model.PyPrims Model.Tree Model.Heap Model.C03Spec.
From DV Require Model.HeapOps.
From DV Require Proofs.C03Base Proofs.C03Abs Proofs.C03Ops Proofs.C03Hist Proofs.C03Thms.
From DV Require Import Model.C08Model Model.C08Spec2
     Proofs.C08Base Proofs.C08InPlace Proofs.C08Prune Proofs.C08Final Proofs.C08More Proofs.C08Child.
Import ListNotations.
Open Scope Z_scope.

(* ---- the C03 specification functions are the C08 structural functions ---- *)

Lemma bump_len_merge b e : bump_len b e = merge_len b e.
Proof. destruct b, e; reflexivity. Qed.

Lemma bump_set_len b k : bump b k = set_len k (merge_len b (t_len k)).
Proof. destruct k as [i x l e ks]. simpl. rewrite bump_len_merge. reflexivity. Qed.

Lemma spec_prune_upd c : forall k, upd rm_f c k = if Z.eqb (t_id k) c then [] else [spec_prune c k].
Proof.
  induction k as [i x l e ks IH] using tree_ind'. simpl t_id. simpl upd. simpl spec_prune.
  destruct (Z.eqb i c); [reflexivity|]. f_equal. f_equal.
  apply flat_map_ext_in. rewrite Forall_forall in IH. exact IH.
Qed.

Lemma spec_prune_plain c t : t_id t <> c -> plain_removed c t = spec_prune c t.
Proof.
  intro H. destruct t as [i x l e ks]. unfold plain_removed, upd_below, updF. simpl.
  f_equal. apply flat_map_ext_in. intros k _. apply spec_prune_upd.
Qed.

Lemma spec_su_suL : forall n, suL n = [spec_su n].
Proof.
  induction n as [i x l e ks IH] using tree_ind'. rewrite suL_T.
  assert (E : flat_map suL ks = map spec_su ks).
  { clear -IH. induction ks as [|k r IHr]; [reflexivity|]. inversion IH; subst. simpl. rewrite H1, IHr by assumption. reflexivity. }
  rewrite E. simpl spec_su. unfold su_f. simpl t_kids. simpl t_len.
  destruct (map spec_su ks) as [|c [|c2 r]]; try reflexivity. rewrite bump_set_len. reflexivity.
Qed.

Lemma spec_su_run t : NoDup (ids t) -> fst (su_run t) = spec_su t.
Proof.
  intro Hnd. rewrite su_run_eq by exact Hnd.
  pose proof (spec_su_suL t) as E. rewrite suL_root in E. inversion E. reflexivity.
Qed.

Lemma spec_collapse_basal_eq t :
  spec_collapse_basal t = match collapse_basal t with Some t' => t' | None => t end.
Proof.
  destruct t as [i x l e ks]. unfold collapse_basal. simpl t_kids.
  destruct ks as [|[i0 x0 l0 e0 k0] [|[i1 x1 l1 e1 k1] [|k2 r]]]; try reflexivity.
  simpl. rewrite !bump_len_merge.
  destruct (2 <=? Z.of_nat (length k1)); [reflexivity|]. destruct (2 <=? Z.of_nat (length k0)); reflexivity.
Qed.

Lemma collapse_basal_two t t' : collapse_basal t = Some t' -> length (t_kids t) = 2%nat.
Proof. unfold collapse_basal. destruct (t_kids t) as [|a [|b [|c r]]]; try discriminate. reflexivity. Qed.

Lemma idsF_two a b : idsF [a; b] = ids a ++ ids b.
Proof. unfold idsF. simpl. rewrite app_nil_r. reflexivity. Qed.

Lemma NoDup_collapse_basal t t' : NoDup (ids t) -> collapse_basal t = Some t' -> NoDup (ids t').
Proof.
  intros Hnd H. destruct t as [i x l e ks]. unfold collapse_basal in H. simpl t_kids in H.
  destruct ks as [|a [|b [|c r]]]; try discriminate H.
  destruct a as [ia xa la ea ka], b as [ib xb lb eb kb]. simpl t_kids in H. simpl t_len in H. simpl set_len in H.
  rewrite ids_T, idsF_two, !ids_T in Hnd.
  destruct (2 <=? Z.of_nat (length kb)).
  - inversion H; subst t'. simpl set_kids. rewrite ids_T, idsF_cons, ids_T.
    change (NoDup ((i :: ia :: idsF ka) ++ idsF kb)).
    change (NoDup ((i :: ia :: idsF ka) ++ ib :: idsF kb)) in Hnd. exact (NoDup_remove_1 _ _ _ Hnd).
  - destruct (2 <=? Z.of_nat (length ka)); [|discriminate H].
    inversion H; subst t'. simpl set_kids. rewrite ids_T, idsF_app, idsF_single, ids_T.
    change (NoDup ([i] ++ idsF ka ++ ib :: idsF kb)).
    change (NoDup ([i] ++ ia :: idsF ka ++ ib :: idsF kb)) in Hnd. exact (NoDup_remove_1 _ _ _ Hnd).
Qed.

Lemma spec_encode_effect su rooted t : NoDup (ids t) ->
  fst (encode_effect su rooted t) = spec_encode su true (negb (rooted_true rooted)) t.
Proof.
  intro Hnd. unfold encode_effect, spec_encode. simpl andb.
  destruct (negb (rooted_true rooted)) eqn:U; simpl andb.
  - destruct (collapse_basal t) as [t'|] eqn:C.
    + pose proof (collapse_basal_two t t' C) as L2. rewrite L2. simpl Z.eqb. cbv iota.
      rewrite spec_collapse_basal_eq, C. simpl fst.
      destruct su; [apply spec_su_run; exact (NoDup_collapse_basal t t' Hnd C) | reflexivity].
    + assert (E : (if Z.of_nat (length (t_kids t)) =? 2 then spec_collapse_basal t else t) = t).
      { destruct (Z.of_nat (length (t_kids t)) =? 2); [|reflexivity]. rewrite spec_collapse_basal_eq, C. reflexivity. }
      rewrite E. simpl fst. destruct su; [apply spec_su_run; exact Hnd | reflexivity].
  - simpl fst. destruct su; [apply spec_su_run; exact Hnd | reflexivity].
Qed.

Lemma not_rooted_eq h : HeapOps.not_rooted h = negb (rooted_true (rooted h)).
Proof. unfold HeapOps.not_rooted, rooted_true. destruct (rooted h) as [[|]|]; reflexivity. Qed.

(* the C08 transcription of prune_subtree computes C03's spec_tail (spec_prune ...) *)
Theorem c08_prune_subtree_is_c03_spec n ub su t rooted : NoDup (ids t) -> t_id t <> n ->
  exists r', C08Model.prune_subtree n ub su (t, rooted) =
             IOk ([], C03Ops.spec_tail ub su (negb (rooted_true rooted)) (spec_prune n t), r').
Proof.
  intros Hnd Hne. unfold C08Model.prune_subtree. destruct (Z.eqb_spec (t_id t) n) as [E|_]; [contradiction|].
  fold (plain_removed n t). rewrite (spec_prune_plain n t Hne).
  assert (N1 : NoDup (ids (spec_prune n t))).
  { rewrite <- (spec_prune_plain n t Hne).
    pose proof (plain_is_restrictG n t Hnd Hne) as R.
    exact (C08Dist.NoDup_restrict false (not_id n) (not_id n) np_true t _ Hnd R). }
  unfold finish, C03Ops.spec_tail.
  assert (N2 : NoDup (ids (if su then fst (su_run (spec_prune n t)) else spec_prune n t))).
  { destruct su; [|exact N1]. rewrite (spec_su_run _ N1).
    pose proof (C08Prune.su_restrict_gen (fun _ _ => true) (fun _ _ => true) (fun _ _ => true) (spec_prune n t)) as S.
    (* spec_su keeps ids distinct: it is the restriction keeping everything *)
    assert (K : restrictG false (fun _ _ => true) (fun _ _ => true) (fun _ _ => true) (spec_prune n t) = Some (spec_prune n t)).
    { clear. induction (spec_prune n t) as [i x l e ks IH] using tree_ind'. destruct ks as [|k r]; [reflexivity|].
      rewrite restrictG_node.
      assert (E : omap_list (restrictG false (fun _ _ => true) (fun _ _ => true) (fun _ _ => true)) (k :: r) = k :: r).
      { rewrite omap_olist. rewrite (flat_map_ext_in _ (fun a => [a])); [apply flat_map_singleton|].
        intros a Ha. rewrite Forall_forall in IH. rewrite (IH a Ha). reflexivity. }
      rewrite E. destruct r; reflexivity. }
    rewrite K in S. cbn [olist] in S. rewrite flat_map_single, spec_su_suL in S.
    destruct (restrictG true (fun _ _ => true) (fun _ _ => true) (fun _ _ => true) (spec_prune n t)) as [r|] eqn:Er; [|discriminate S].
    cbn [olist] in S. inversion S as [S']. rewrite S'. exact (C08Dist.NoDup_restrict true _ _ _ _ _ N1 Er). }
  destruct ub.
  - destruct (encode_effect su rooted (if su then fst (su_run (spec_prune n t)) else spec_prune n t)) as [t3 r3] eqn:EE.
    exists r3. f_equal. f_equal. f_equal.
    pose proof (spec_encode_effect su rooted _ N2) as SE. rewrite EE in SE. simpl fst in SE. rewrite SE.
    destruct su; [rewrite (spec_su_run _ N1)|]; reflexivity.
  - exists rooted. destruct su; [rewrite (spec_su_run _ N1)|]; reflexivity.
Qed.

(* end to end: the heap program refines the C08 transcription, hence restrictG *)
Theorem heap_prune_subtree_link ub su h t n :
  C03Base.WF h -> abs h = Some t -> In n (ids t) -> n <> seed h ->
  exists h' t' r',
    HeapOps.prune_subtree n ub su h = HOk h' /\ C03Base.WF h' /\ abs h' = Some t' /\
    C08Model.prune_subtree n ub su (t, rooted h) = IOk ([], t', r') /\
    exists r, restrictG su (not_id n) (not_id n) np_true t = Some r /\
              t' = fst (with_update ub su (rooted h) r).
Proof.
  intros W E Hn Ds.
  pose proof (C03Hist.WF_abs_t h t W E) as Wt. destruct Wt as [[_ [N _]] S].
  assert (Hne : t_id t <> n) by (rewrite S; intro X; apply Ds; symmetry; exact X).
  destruct (C03Thms.prune_subtree_refines_l ub su h t n W E Hn Ds) as [h' [E' [W' [A' _]]]].
  destruct (c08_prune_subtree_is_c03_spec n ub su t (rooted h) N Hne) as [r' P].
  rewrite <- not_rooted_eq in P.
  exists h', (C03Ops.spec_tail ub su (HeapOps.not_rooted h) (spec_prune n t)), r'.
  split; [exact E'|]. split; [exact W'|]. split; [exact A'|]. split; [exact P|].
  destruct (prune_subtree_spec n ub su t (rooted h) N Hne) as [r [Er Ep]].
  exists r. split; [exact Er|]. rewrite P in Ep. inversion Ep. reflexivity.
Qed.

(* ... and the induced subtree proper when the parent keeps another child *)
Corollary heap_prune_subtree_restrict ub su h t (c p : tree) :
  C03Base.WF h -> abs h = Some t -> In p (preorder t) -> In c (t_kids p) -> (2 <= length (t_kids p))%nat ->
  exists h' r,
    HeapOps.prune_subtree (t_id c) ub su h = HOk h' /\ C03Base.WF h' /\
    restrict su (outside c) t = Some r /\
    abs h' = Some (fst (with_update ub su (rooted h) r)).
Proof.
  intros W E Hp Hc H2.
  pose proof (C03Hist.WF_abs_t h t W E) as Wt. destruct Wt as [[_ [N _]] S].
  assert (Hne : t_id t <> t_id c) by exact (child_not_root t p c N Hp Hc).
  assert (Hn : In (t_id c) (ids t)).
  { apply (ids_sub_node t p); [exact Hp|]. apply (ids_sub_node p c); [exact (c_in_p c p Hc) | apply t_id_in_ids]. }
  destruct (heap_prune_subtree_link ub su h t (t_id c) W E Hn) as [h' [t' [r' [E1 [W1 [A1 [_ [r [Er Et]]]]]]]]].
  { rewrite <- S. intro X. apply Hne. symmetry. exact X. }
  destruct (prune_subtree_restrict_eq su c p Hc H2 t N Hp) as [Eq _].
  exists h', r. split; [exact E1|]. split; [exact W1|]. split; [rewrite <- Eq; exact Er|]. rewrite A1, Et. reflexivity.
Qed.
